import RV.Proofs.CacheFifoLog
/-!
# (e) `wait_applies_all`, (d) released values, (f) `overwrite_immediate`

* `run_fifo`: along any run from a reachable state, `pending` at the start followed by what the
  run's send steps appended = what the run removed from the front followed by `pending` at the end
  (costs erased, because the applier pre-processes the cost of the element it holds).
* `wait_applies_all`: when `waitRet t` is logged, everything that was pending when `t`'s marker
  was enqueued, and the marker itself, has been removed from the front of the pending sequence
  (applied completely by the applier or drained by a `Clear`).
-/
namespace RV.Cache
open Gen.Cache

/-- the only applier step with choice `selStop` is the `select` taking `stop` while idle -/
theorem applier_selStop {cfg : Cfg} {s s' : State} {t : Tid}
    (hs : step cfg s (.applier (.selStop t)) = some s') : s.app = .idle ∧ apSelStop s t = some s' := by
  have hs' : applierStep cfg s (.selStop t) = some s' := hs
  apply applierStep_cases hs' (motive := fun _ => s.app = .idle ∧ apSelStop s t = some s')
  case idle => intro hpc hr; exact ⟨hpc, by simpa [apIdle] using hr⟩
  case costed =>
    intro i _ hr
    unfold apCosted at hr
    split at hr <;> simp [needNone, apCostedNew] at hr
  case sweep =>
    intro now bs _ hr
    unfold apSweep at hr
    split at hr <;> simp_all
  all_goals (intros; simp_all)

/-! ### monotone fields -/

def StepMono (s s' : State) : Prop :=
  (∀ id ∈ s.closedMarkers, id ∈ s'.closedMarkers) ∧ (s.closed = true → s'.closed = true) ∧
  (s'.closed = true → s.closed = true ∨ ∃ t, s.cl t = .clsFinish)

theorem StepMono.of_eq {s s' : State} (h1 : s'.closedMarkers = s.closedMarkers) (h2 : s'.closed = s.closed) :
    StepMono s s' := ⟨fun id h => by rw [h1]; exact h, fun h => by rw [h2]; exact h, fun h => Or.inl (by rw [← h2]; exact h)⟩

theorem stepMono_clientStep {cfg : Cfg} {s s' : State} {t : Tid} {ch : Choice}
    (hs : clientStep cfg s t ch = some s') : StepMono s s' := by
  apply clientStep_cases hs (motive := StepMono s)
  case waitRecv => intro id _ _ hr; exact .of_eq (stWaitRecv_closedMarkers s t id hr) (stWaitRecv_closed s t id hr)
  case getStart => intro h c _ hr; have := stGetStart_q hr; exact .of_eq this.2.2.2.1 this.2.2.2.2.2.2.2.1
  case iterShard => intro k n seen _ hr; have := stIterShard_q hr; exact .of_eq this.2.2.2.1 this.2.2.2.2.2.2.2.1
  case clrShard =>
    intro closing k _ hr
    obtain ⟨_, _, _, _, _, _, h4, _, _, _, h8, _, _⟩ := stClrShard_q hr
    exact .of_eq h4 h8
  case clsFinish => intro hpc _; exact ⟨fun id h => by simpa using h, fun _ => rfl, fun _ => Or.inr ⟨t, hpc⟩⟩
  case clrDrain =>
    intro closing _ _
    unfold stClrDrain
    split
    · exact .of_eq rfl rfl
    · rename_i hr
      exact ⟨fun id h => by simp [recvBuf_closedMarkers hr, h], fun h => by simpa [recvBuf_closed hr] using h,
        fun h => Or.inl (by simpa [recvBuf_closed hr] using h)⟩
    · rename_i hr
      split
      · exact .of_eq (by simp [recvBuf_closedMarkers hr]) (by simp [recvBuf_closed hr])
      · exact .of_eq (recvBuf_closedMarkers hr) (recvBuf_closed hr)
  all_goals (intros; exact .of_eq (by simp) (by simp))

theorem stepMono_applierStep {cfg : Cfg} {s s' : State} {ch : Choice}
    (hs : applierStep cfg s ch = some s') : StepMono s s' := by
  apply applierStep_cases hs (motive := StepMono s)
  case idle =>
    intro hpc hr
    unfold apIdle at hr
    split at hr
    · unfold apSelItem at hr
      split at hr
      · simp at hr
      · rename_i hrecv; simp only [Option.some.injEq] at hr; subst hr
        exact .of_eq (recvBuf_closedMarkers hrecv :) (recvBuf_closed hrecv :)
      · rename_i hrecv; simp only [Option.some.injEq] at hr; subst hr
        exact .of_eq (recvBuf_closedMarkers hrecv :) (recvBuf_closed hrecv :)
    · simp only [Option.some.injEq] at hr; subst hr; exact .of_eq rfl rfl
    · rename_i t; exact .of_eq (apSelStop_closedMarkers s t hr) (apSelStop_closed s t hr)
    · simp at hr
  case marker => intros; exact ⟨fun id h => by simp [apMarker, h], fun h => by simpa using h, fun h => Or.inl (by simpa using h)⟩
  case costed =>
    intro i hpc hr
    unfold apCosted at hr
    split at hr
    · exact .of_eq (apCostedNew_closedMarkers cfg s i ch hr) (apCostedNew_closed cfg s i ch hr)
    · obtain ⟨_, hr⟩ := needNone_some hr
      simp only [Option.some.injEq] at hr; subst hr; exact .of_eq (by simp) (by simp)
    · obtain ⟨_, hr⟩ := needNone_some hr
      simp only [Option.some.injEq] at hr; subst hr; exact .of_eq (by simp) (by simp)
  case victims => intro vs _ _ hr; exact .of_eq (apVictims_closedMarkers s vs hr) (apVictims_closed s vs hr)
  case sweep => intro now bs _ hr; exact .of_eq (apSweep_closedMarkers s now bs ch hr) (apSweep_closed s now bs ch hr)
  all_goals (intros; exact .of_eq (by simp) (by simp))

theorem step_mono {cfg : Cfg} {s s' : State} {a : Action} (hs : step cfg s a = some s') : StepMono s s' := by
  cases a with
  | spawn t c => exact .of_eq (spawnStep_closedMarkers s t c hs) (spawnStep_closed s t c hs)
  | client t ch => exact stepMono_clientStep hs
  | applier ch => exact stepMono_applierStep hs
  | done t => exact .of_eq (doneStep_closedMarkers s t hs) (doneStep_closed s t hs)
  | tick d => simp only [step, Option.some.injEq] at hs; subst hs; exact .of_eq rfl rfl

/-! ### FIFO along runs -/

/-- forget the cost (the applier rewrites the cost of the element it holds: `apItem`) -/
def eraseCost : BufElem → BufElem
  | .item i => .item { i with cost := 0 }
  | .marker id => .marker id

def pendE (s : State) : List BufElem := (pending s).map eraseCost

/-- the elements a run removes from the front of the pending sequence, in order -/
def popped (cfg : Cfg) : State → List Action → List BufElem
  | _, [] => []
  | s, a :: as =>
    match step cfg s a with
    | none => []
    | some s' => (if (pending s').length < (pending s).length then (pendE s).take 1 else []) ++ popped cfg s' as

/-- the elements a run's send steps append to the pending sequence, in order -/
def sent (cfg : Cfg) : State → List Action → List BufElem
  | _, [] => []
  | s, a :: as =>
    match step cfg s a with
    | none => []
    | some s' => (if (pending s).length < (pending s').length then (pendE s').drop (pending s).length else []) ++ sent cfg s' as

theorem pendStep_fifo {p p' : List BufElem} (h : PendStep p p') :
    p.map eraseCost ++ (if p.length < p'.length then (p'.map eraseCost).drop p.length else []) =
      (if p'.length < p.length then (p.map eraseCost).take 1 else []) ++ p'.map eraseCost := by
  cases h with
  | same => simp
  | push e => simp; intro h; omega
  | pop x => simp
  | recost i c r => simp [eraseCost]

/-- FIFO along a run: nothing is reordered, nothing overtakes. -/
theorem run_fifo {cfg : Cfg} {s s' : State} {acts : List Action} (h : Reach cfg s)
    (hr : run cfg s acts = some s') : pendE s ++ sent cfg s acts = popped cfg s acts ++ pendE s' := by
  induction acts generalizing s with
  | nil => simp [Cache.run] at hr; subst hr; simp [sent, popped]
  | cons a as ih =>
    simp only [Cache.run] at hr
    cases hs : step cfg s a with
    | none => simp [hs] at hr
    | some s1 =>
      simp only [hs] at hr
      have h1 := ih (h.of_step hs) hr
      have h2 := pendStep_fifo (fifo_order h hs)
      simp only [sent, popped, hs, pendE] at h1 h2 ⊢
      rw [List.append_assoc, ← h1, ← List.append_assoc, ← List.append_assoc, h2]

theorem prefix_of_append_eq {α : Type} {A S P Q : List α} {m : α} (h : A ++ [m] ++ S = P ++ Q) (hm : m ∉ Q) :
    (A ++ [m]) <+: P := by
  rcases List.append_eq_append_iff.mp h with ⟨a', h1, _⟩ | ⟨c', h1, h2⟩
  · exact ⟨a', h1.symm⟩
  · rcases List.append_eq_append_iff.mp h1 with ⟨a', h3, h4⟩ | ⟨c'', _, h4⟩
    · cases a' with
      | nil =>
        simp at h4; subst h4
        exact absurd (by rw [h2]; simp) hm
      | cons x r =>
        simp at h4
        obtain ⟨rfl, rfl, rfl⟩ := h4
        exact ⟨[], by simp [h3]⟩
    · subst h4
      exact absurd (by rw [h2]; simp) hm

/-- (e) `Wait` returns only after everything buffered before its marker has been applied:
if `t` enqueues its marker in `s0` (step `stWaitSend`) and `waitRet t` is logged later in the
run, then the run has removed from the front of the pending sequence — i.e. the applier has
completely applied, or a `Clear` has drained — every element that was pending in `s0`, and then
the marker. -/
theorem wait_applies_all {cfg : Cfg} {s0 s2 : State} {t : Tid} {acts : List Action} {new : List Ev}
    (h0 : Reach cfg s0) (hpc : s0.cl t = .waitSend)
    (hr : run cfg (stWaitSend cfg s0 t) acts = some s2)
    (hlog : s2.log = new ++ (stWaitSend cfg s0 t).log) (hret : .waitRet t ∈ new) :
    s0.nextMarker ∈ s2.closedMarkers ∧
    (pendE s0 ++ [.marker s0.nextMarker]) <+: popped cfg (stWaitSend cfg s0 t) acts := by
  have hstep : step cfg s0 (.client t .none) = some (stWaitSend cfg s0 t) := by
    simp [step, clientStep, hpc, needNone]
  have h1 : Reach cfg (stWaitSend cfg s0 t) := h0.of_step hstep
  -- the marker is closed when `waitRet t` is logged
  have key : ∃ new', s2.log = new' ++ (stWaitSend cfg s0 t).log ∧
      ((((s2.cl t = .waitBlocked s0.nextMarker ∨ s2.cl t = .waitRecv s0.nextMarker) ∧ .waitRet t ∉ new')) ∨
        s0.nextMarker ∈ s2.closedMarkers) := by
    refine run_induction_f (P := fun s => ∃ new', s.log = new' ++ (stWaitSend cfg s0 t).log ∧
      ((((s.cl t = .waitBlocked s0.nextMarker ∨ s.cl t = .waitRecv s0.nextMarker) ∧ .waitRet t ∉ new')) ∨
        s0.nextMarker ∈ s.closedMarkers)) h1 ?_ ?_ hr
    · refine ⟨[], rfl, Or.inl ⟨?_, by simp⟩⟩
      unfold stWaitSend sendBlocking
      split <;> simp
    · intro s a s' hrs ⟨new', hl, hp⟩ _ hs
      obtain ⟨evs, hl', hal⟩ := step_log hs
      refine ⟨evs ++ new', by rw [hl', hl]; simp, ?_⟩
      rcases hp with ⟨hpc', hnr⟩ | hcl
      · by_cases hown : a.owner t
        · -- the only enabled step of `t` is `stWaitRecv`
          cases a with
          | spawn t' c =>
            simp only [Action.owner] at hown; subst hown
            have hs' : spawnStep s t' c = some s' := hs
            unfold spawnStep at hs'
            rcases hpc' with e | e <;> simp [e] at hs'
          | client t' ch =>
            simp only [Action.owner] at hown; subst hown
            have hs' : clientStep cfg s t' ch = some s' := hs
            rcases hpc' with e | e
            · simp [clientStep, e] at hs'
            · simp only [clientStep, e] at hs'
              obtain ⟨_, hs'⟩ := needNone_some hs'
              unfold stWaitRecv at hs'
              split at hs'
              · rename_i hc
                simp only [Option.some.injEq] at hs'; subst hs'
                exact Or.inr (by simpa using hc)
              · simp at hs'
          | done t' =>
            simp only [Action.owner] at hown; subst hown
            have hs' : doneStep s t' = some s' := hs
            unfold doneStep at hs'
            rcases hpc' with e | e <;> (split at hs' <;> simp_all)
          | applier ch =>
            cases ch with
            | selStop t' =>
              simp only [Action.owner] at hown; subst hown
              obtain ⟨_, hs'⟩ := applier_selStop hs
              unfold apSelStop at hs'
              rcases hpc' with e | e <;> simp [e] at hs'
            | _ => simp [Action.owner] at hown
          | tick d => simp [Action.owner] at hown
        · -- somebody else's step: `t` stays where it is (or its blocked send completes)
          refine Or.inl ⟨?_, ?_⟩
          · rcases step_cl_f (queue_inv hrs) hs t hown with e | ⟨_, e⟩
            · rw [e]; exact hpc'
            · rcases hpc' with e1 | e1
              · right; rw [e, e1]; rfl
              · right; rw [e, e1]; rfl
          · intro hm
            rcases List.mem_append.mp hm with hm | hm
            · have := hal _ hm
              simp only [Allowed] at this
              obtain ⟨ch, rfl, _⟩ := this
              exact hown (by simp [Action.owner])
            · exact hnr hm
      · exact Or.inr ((step_mono hs).1 _ hcl)
  obtain ⟨new', hl', hk⟩ := key
  have hnew : new' = new := by
    rw [hlog] at hl'; exact (List.append_cancel_right hl').symm
  subst hnew
  have hclosed : s0.nextMarker ∈ s2.closedMarkers := by
    rcases hk with ⟨_, hn⟩ | hc
    · exact absurd hret hn
    · exact hc
  refine ⟨hclosed, ?_⟩
  have hq2 := queue_inv (h1.run hr)
  have hnot : BufElem.marker s0.nextMarker ∉ pendE s2 := by
    intro hm
    obtain ⟨e, he, hee⟩ := List.mem_map.mp hm
    have : e = .marker s0.nextMarker := by
      cases e with
      | item i => simp [eraseCost] at hee
      | marker id => simpa [eraseCost] using hee
    subst this
    exact hq2.mk_open _ (mem_markerIds.mpr he) hclosed
  have hf := run_fifo h1 hr
  have hp1 : pendE (stWaitSend cfg s0 t) = pendE s0 ++ [.marker s0.nextMarker] := by
    simp [pendE, marker_enqueued, eraseCost]
  rw [hp1] at hf
  exact prefix_of_append_eq hf hnot

/-! ### (d) the value a `Del` removes is released through `OnExit` -/

/-- what `Del`'s immediate store delete removes (`0` = nothing) -/
def delRemoved (s : State) (h : Hash) (c : Conf) : Val := (storeDel s.store s.em h c).2.2.2

theorem stDelStart_pc (s : State) (t : Tid) (h : Hash) (c : Conf) (hc : s.closed = false) :
    (stDelStart s t h c).cl t = .delExit h c (delRemoved s h c) := by
  simp [stDelStart, hc, delRemoved]

theorem stDelExit_log (s : State) (t : Tid) (h : Hash) (c : Conf) (v : Val) :
    (stDelExit s t h c v).log = .exit v :: s.log := rfl

theorem apTombPolicy_app (s : State) (i : Item) :
    (apTombPolicy s i).app = .tombStore (delRemoved s i.key i.conflict) := rfl

theorem apTombStore_log (s : State) (v : Val) : (apTombStore s v).log = .exit v :: s.log := rfl

/-- (d) `c05_released`, client side: the value `Del`'s first store delete removed (step
`stDelStart`) has been passed to `OnExit` by the time that `Del` returns. -/
theorem del_released {cfg : Cfg} {s0 s2 : State} {t : Tid} {h : Hash} {c : Conf} {acts : List Action}
    {new : List Ev} (h0 : Reach cfg s0) (hpc : s0.cl t = .delStart h c) (hc : s0.closed = false)
    (hr : run cfg (stDelStart s0 t h c) acts = some s2)
    (hlog : s2.log = new ++ (stDelStart s0 t h c).log) (hret : .delRet t h ∈ new) :
    .exit (delRemoved s0 h c) ∈ new := by
  have hstep : step cfg s0 (.client t .none) = some (stDelStart s0 t h c) := by
    simp [step, clientStep, hpc, needNone]
  have h1 : Reach cfg (stDelStart s0 t h c) := h0.of_step hstep
  have key : ∃ new', s2.log = new' ++ (stDelStart s0 t h c).log ∧
      ((s2.cl t = .delExit h c (delRemoved s0 h c) ∧ ∀ h', .delRet t h' ∉ new') ∨ .exit (delRemoved s0 h c) ∈ new') := by
    refine run_induction_f (P := fun s => ∃ new', s.log = new' ++ (stDelStart s0 t h c).log ∧
      ((s.cl t = .delExit h c (delRemoved s0 h c) ∧ ∀ h', .delRet t h' ∉ new') ∨ .exit (delRemoved s0 h c) ∈ new'))
      h1 ?_ ?_ hr
    · exact ⟨[], rfl, Or.inl ⟨stDelStart_pc s0 t h c hc, by simp⟩⟩
    · intro s a s' hrs ⟨new', hl, hp⟩ _ hs
      obtain ⟨evs, hl', hal⟩ := step_log hs
      refine ⟨evs ++ new', by rw [hl', hl]; simp, ?_⟩
      rcases hp with ⟨hpc', hnr⟩ | hex
      · by_cases hown : a.owner t
        · cases a with
          | spawn t' c' =>
            simp only [Action.owner] at hown; subst hown
            have hs' : spawnStep s t' c' = some s' := hs
            simp [spawnStep, hpc'] at hs'
          | client t' ch =>
            simp only [Action.owner] at hown; subst hown
            have hs' : clientStep cfg s t' ch = some s' := hs
            simp only [clientStep, hpc'] at hs'
            obtain ⟨_, hs'⟩ := needNone_some hs'
            simp only [Option.some.injEq] at hs'; subst hs'
            have : evs = [.exit (delRemoved s0 h c)] := by
              have := hl'; rw [stDelExit_log] at this
              exact List.append_cancel_right (as := evs) (cs := [_]) this.symm
            exact Or.inr (by simp [this])
          | done t' =>
            simp only [Action.owner] at hown; subst hown
            have hs' : doneStep s t' = some s' := hs
            unfold doneStep at hs'
            split at hs' <;> simp_all
          | applier ch =>
            cases ch with
            | selStop t' =>
              simp only [Action.owner] at hown; subst hown
              obtain ⟨_, hs'⟩ := applier_selStop hs
              unfold apSelStop at hs'
              simp [hpc'] at hs'
            | _ => simp [Action.owner] at hown
          | tick d => simp [Action.owner] at hown
        · refine Or.inl ⟨?_, ?_⟩
          · rcases step_cl_f (queue_inv hrs) hs t hown with e | ⟨hb, _⟩
            · rw [e]; exact hpc'
            · rw [hpc'] at hb; simp [CPc.blocked] at hb
          · intro h' hm
            rcases List.mem_append.mp hm with hm | hm
            · have := hal _ hm
              simp only [Allowed] at this
              obtain ⟨ch, rfl, _⟩ := this
              exact hown (by simp [Action.owner])
            · exact hnr h' hm
      · exact Or.inr (by simp [hex])
  obtain ⟨new', hl', hk⟩ := key
  have hnew : new' = new := by
    rw [hlog] at hl'; exact (List.append_cancel_right hl').symm
  subst hnew
  rcases hk with ⟨_, hn⟩ | hex
  · exact absurd hret (hn h)
  · exact hex

/-- (d) applier side: the value the tombstone's store delete removes (step `apTombPolicy`) is
passed to `OnExit` by the applier's very next step — until then the applier does nothing else. -/
theorem tomb_released {cfg : Cfg} {s0 s2 : State} {i : Item} {acts : List Action} {new : List Ev}
    (h0 : Reach cfg s0) (hpc : s0.app = .tombPolicy i)
    (hr : run cfg (apTombPolicy s0 i) acts = some s2) (hlog : s2.log = new ++ s0.log) :
    s2.app = .tombStore (delRemoved s0 i.key i.conflict) ∨ .exit (delRemoved s0 i.key i.conflict) ∈ new := by
  have hstep : step cfg s0 (.applier .none) = some (apTombPolicy s0 i) := by
    simp [step, applierStep, hpc, needNone]
  have h1 : Reach cfg (apTombPolicy s0 i) := h0.of_step hstep
  have key : ∃ new', s2.log = new' ++ s0.log ∧
      (s2.app = .tombStore (delRemoved s0 i.key i.conflict) ∨ .exit (delRemoved s0 i.key i.conflict) ∈ new') := by
    refine run_induction_f (P := fun s => ∃ new', s.log = new' ++ s0.log ∧
      (s.app = .tombStore (delRemoved s0 i.key i.conflict) ∨ .exit (delRemoved s0 i.key i.conflict) ∈ new')) h1 ?_ ?_ hr
    · exact ⟨[], rfl, Or.inl rfl⟩
    · intro s a s' hrs ⟨new', hl, hp⟩ _ hs
      obtain ⟨evs, hl', _⟩ := step_log hs
      refine ⟨evs ++ new', by rw [hl', hl]; simp, ?_⟩
      rcases hp with happ | hex
      · cases a with
        | applier ch =>
          have hs' : applierStep cfg s ch = some s' := hs
          simp only [applierStep, happ] at hs'
          obtain ⟨_, hs'⟩ := needNone_some hs'
          simp only [Option.some.injEq] at hs'; subst hs'
          have : evs = [.exit (delRemoved s0 i.key i.conflict)] := by
            have := hl'; rw [apTombStore_log] at this
            exact List.append_cancel_right (as := evs) (cs := [_]) this.symm
          exact Or.inr (by simp [this])
        | spawn t c => exact Or.inl (by rw [spawnStep_app s t c hs, happ])
        | tick d => simp only [step, Option.some.injEq] at hs; subst hs; exact Or.inl happ
        | done t =>
          have hs' : doneStep s t = some s' := hs
          unfold doneStep at hs'
          split at hs' <;> simp_all
        | client t ch =>
          have hh := handshake_reach hrs
          have hnb : ∀ t', (s.cl t').busy = false := by
            intro t'
            cases hb : (s.cl t').busy
            · rfl
            · have := hh.busy t' hb; rw [happ] at this; cases this
          have hs' : clientStep cfg s t ch = some s' := hs
          left
          apply clientStep_cases hs' (motive := fun s' => s'.app = _)
          case clrDrain => intro cl hpc' _; have := hnb t; simp [hpc', CPc.busy] at this
          case clrRestart => intro cl hpc' _; have := hnb t; simp [hpc', CPc.busy] at this
          case clsFinish => intro hpc' _; have := hnb t; simp [hpc', CPc.busy] at this
          case waitRecv => intro id _ _ hr'; rw [stWaitRecv_app s t id hr', happ]
          case getStart => intro h c _ hr'; rw [(stGetStart_q hr').2.2.1, happ]
          case iterShard => intro k n seen _ hr'; rw [(stIterShard_q hr').2.2.1, happ]
          case clrShard => intro cl k hpc' _; have := hnb t; simp [hpc', CPc.busy] at this
          all_goals (intros; simp [happ])
      · exact Or.inr (by simp [hex])
  obtain ⟨new', hl', hk⟩ := key
  have hnew : new' = new := by
    rw [hlog] at hl'; exact (List.append_cancel_right hl').symm
  subst hnew
  exact hk

/-! ### (f) an overwrite of a resident key is visible at once -/

/-- (f) `overwrite_immediate`: `Set` on a resident key whose stored conflict matches (and which
`ShouldUpdate` does not refuse) replaces the store entry in its `stSetUpd` step — before anything
is buffered; the previous value goes to the `OnExit` step; a store read by any client in the
resulting state sees the new entry. -/
theorem overwrite_immediate (cfg : Cfg) (s : State) (t : Tid) (i : Item) (e : Entry)
    (hl : s.store.lookup i.key = some e) (hc : updConflictMismatch i.conflict e.conflict = false)
    (hsu : updRefused (suRefuses cfg i.value e.value).1 (suRefuses cfg i.value e.value).2 = false) :
    (stSetUpd cfg s t i).store.lookup i.key = some ⟨i.conflict, i.value, i.exp⟩ ∧
    (stSetUpd cfg s t i).cl t = .setExit i e.value ∧
    ∀ t' c, (stGetRead (stSetUpd cfg s t i) t' i.key c).cl t' =
      .getCheck i.key c (some ⟨i.conflict, i.value, i.exp⟩) := by
  have hu : storeUpdate cfg s.store s.em i =
      (s.store.insert i.key ⟨i.conflict, i.value, i.exp⟩, s.em.update i.key i.conflict e.exp i.exp, e.value, true) := by
    unfold storeUpdate
    simp only [hl, hc]
    simp [hsu]
  have h1 : (stSetUpd cfg s t i).store.lookup i.key = some ⟨i.conflict, i.value, i.exp⟩ := by
    simp [stSetUpd, hu]
  refine ⟨h1, by simp [stSetUpd, hu], ?_⟩
  intro t' c
  simp [stGetRead, h1]

/-- without `ShouldUpdate` nothing is refused -/
theorem updRefused_none (cfg : Cfg) (h : cfg.shouldUpdate = none) (a b : Val) :
    updRefused (suRefuses cfg a b).1 (suRefuses cfg a b).2 = false := by
  simp [suRefuses, h, updRefused]

end RV.Cache
