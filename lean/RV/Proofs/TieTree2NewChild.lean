import RV.Proofs.TieTree2Set
import RV.Proofs.TieTree2Child
/-!
# The tree on flat memory: `Tree.set` on the new-child path

An inner node whose routing slot for `k` is empty (`n.key(idx) == 0`: the key is stored and the count
bumped) or whose routing entry has lost its child page (value word 0): `Tree.set` allocates a leaf
(`newNode(bitLeaf)`), hangs it into the parent and recurses into it.  Composes `setSlot_fill` and
`setChild_new` (TieTree2Child) with the leaf case of `set`.  This is the path `initRootNode` takes.
-/
namespace RV.TreeFlat
open RV.Tree RV.NodeFlat Gen.TreeM

/-! ## the leaf case of `set`, for any leaf on which `node.set` returns -/

theorem set_leaf {cfg : Cfg} (hc : CfgFlat cfg) (t : St) (a : Alloc) (hinv : AllocInv cfg t a) (p : Nat)
    (es es' : List (Key × Val)) (added : Nat) (k : Key) (v : Val) (hk0 : k ≠ 0#64)
    (hpg : PageOf cfg t.data p true es) (hpf : p ∉ a.free)
    (hset : nodeSet cfg.maxKeys es k v = some (es', added)) (fuel : Nat) :
    ∃ pg, pg.size = pw cfg ∧
      Gen.TreeM.set (w cfg.pageSize) (w cfg.maxKeys) (fuel + 1) t (w p) k v =
        some ({ t with data := setPage cfg t.data p pg, numLeafKeys := t.numLeafKeys + w added }, refOf cfg t p) ∧
      PageOf cfg (setPage cfg t.data p pg) p true es' ∧
      AllocInv cfg { t with data := setPage cfg t.data p pg, numLeafKeys := t.numLeafKeys + w added }
        { a with leafKeys := a.leafKeys + (added : Nat) } := by
  have hmk := hc.mkLt
  have hs := hpg.ok.1
  rw [set_succ]
  rw [node_w hc t p hpg.pos hpg.fit hinv.small]
  simp only [Option.bind_some]
  rw [rdNode_refOf t p hpg.fit, isLeaf_w hs (by omega), hpg.isLeaf]
  simp only [Option.bind_some, if_true]
  have hset' : nodeSet cfg.maxKeys (ents cfg.maxKeys (pageOf cfg t.data p)) k v = some (es', added) := by
    rw [hpg.ents]; exact hset
  obtain ⟨p', hp', hsz', hents', hnk', hnle', hpid', hkind', hleaf', hz'⟩ :=
    set_some hpg.ok hmk k v _ added hset'
  have hok' : PageOk cfg.maxKeys p' := set_pageOk hpg.ok hmk k v hk0 _ added hset' p' _ hp'
  have hp's : p'.size = pw cfg := by rw [hsz', pageOf_size _ _ hpg.fit]
  simp only [refOf]
  rw [wrNodeR_win (cfg := cfg) t p t.epoch rfl hpg.fit _ p' (w added) hp' hp's]
  simp only [Option.bind_some]
  refine ⟨p', hp's, rfl, ?_, (hinv.setPage p p' hpf hpg.fit hp's).addLeafKeys added⟩
  refine ⟨hpg.pos, by rw [setPage_size]; exact hpg.fit, ?_, ?_, ?_, ?_, ?_⟩
  · rw [pageOf_setPage_self _ _ _ hpg.fit hp's]; exact hok'
  · rw [pageOf_setPage_self _ _ _ hpg.fit hp's, hleaf']; exact hpg.isLeaf
  · rw [pageOf_setPage_self _ _ _ hpg.fit hp's, hkind']; exact hpg.kind
  · rw [pageOf_setPage_self _ _ _ hpg.fit hp's, hpid']; exact hpg.pid
  · rw [pageOf_setPage_self _ _ _ hpg.fit hp's]; exact hents'

/-! ## the part of `set` behind the slot phase -/

/-- `child := t.node(n.val(idx))` … to the end of `Tree.set` -/
def setRest (pageSize maxKeys : BitVec 64) (fuel : Nat) (k v : BitVec 64) (t_13 : St) (n_2 : NodeRef)
    (pid idx_8 : BitVec 64) : Option (St × NodeRef) :=
  (Gen.TreeM.rdNode t_13 n_2 (fun p => Gen.Node.val p idx_8)).bind fun x_14 =>
  (node pageSize maxKeys t_13 x_14).bind fun child_16 =>
  (setChild pageSize maxKeys t_13 n_2 child_16 pid idx_8).bind fun y =>
  (Gen.TreeM.rdNode y.1 y.2.2 (fun p => Gen.Node.pageID p maxKeys)).bind fun x_27 =>
  (Gen.TreeM.set pageSize maxKeys fuel y.1 x_27 k v).bind fun z =>
  (node pageSize maxKeys z.1 pid).bind fun n_32 =>
  (Gen.TreeM.rdNode z.1 z.2 (fun p => Gen.Node.isFull p maxKeys)).bind fun x_33 =>
  (setSplit pageSize maxKeys z.1 n_32 z.2 pid idx_8 x_33).bind fun u =>
  some (u.1, u.2.1)

theorem set_succ_rest (pageSize maxKeys : BitVec 64) (fuel : Nat) (t : St) (pid k v : BitVec 64) :
    Gen.TreeM.set pageSize maxKeys (fuel + 1) t pid k v =
      (node pageSize maxKeys t pid).bind fun n_2 =>
      (Gen.TreeM.rdNode t n_2 (fun p => Gen.Node.isLeaf p maxKeys)).bind fun x_3 =>
      if x_3 then
        (Gen.TreeM.wrNodeR t n_2 (fun p => Gen.Node.set p maxKeys k v)).bind fun x =>
        some ({ x.1 with numLeafKeys := (x.1.numLeafKeys + x.2) }, n_2)
      else
      (Gen.TreeM.rdNode t n_2 (fun p => Gen.Node.search p maxKeys k)).bind fun idx_8 =>
      if (BitVec.sle maxKeys idx_8) then none else
      (Gen.TreeM.rdNode t n_2 (fun p => Gen.Node.key p idx_8)).bind fun x_9 =>
      (setSlot maxKeys t n_2 idx_8 k x_9).bind fun t_13 =>
      setRest pageSize maxKeys fuel k v t_13 n_2 pid idx_8 := rfl

theorem nodeSet_empty (mk : Nat) (hmk1 : 1 ≤ mk) (hmk : mk < 2 ^ 63) (k : Key) (v : Val) (hk0 : k ≠ 0#64) :
    nodeSet mk ([] : List (Key × Val)) k v = some ([(k, v)], 1) := by
  have h0k : (0#64 : Key) < k := by bv_omega
  rw [nodeSet_eq_ins mk [] k v 0#64 trivial h0k hmk (Or.inl (by simp; omega))]
  simp [ins, hasKey]

/-- what the new-child path leaves behind: the fresh leaf `q` holds `(k, v)`, the parent's entry `i`
points to it, one leaf key more, everything else framed -/
structure NewChildOut (cfg : Cfg) (t : St) (a : Alloc) (p : Nat) (es : List (Key × Node)) (i : Nat) (ki k : Key) (v : Val)
    (t' : St) : Prop where
  parent : PageOf cfg t'.data p false
    (entWords (es.set i (ki, Node.leaf (RV.Tree.newNode cfg a).1 [(k, v)])))
  child : PageOf cfg t'.data (RV.Tree.newNode cfg a).1 true [(k, v)]
  inv : AllocInv cfg t' { (RV.Tree.newNode cfg a).2 with leafKeys := (RV.Tree.newNode cfg a).2.leafKeys + (1 : Nat) }
  grow : t.data.size ≤ t'.data.size
  frame : ∀ r, r ≠ p → r ≠ (RV.Tree.newNode cfg a).1 → (r + 1) * pw cfg ≤ t.data.size →
    pageOf cfg t'.data r = pageOf cfg t.data r
  which : (RV.Tree.newNode cfg a).1 ∈ a.free ∨ (RV.Tree.newNode cfg a).1 = a.nextPage
  ne : (RV.Tree.newNode cfg a).1 ≠ p

theorem entWords_set_pid (es : List (Key × Node)) (i : Nat) (ki : Key) (c c' : Node) (h : c'.pid = c.pid) :
    entWords (es.set i (ki, c')) = entWords (es.set i (ki, c)) := by
  simp only [entWords_eq_mapV, mapV_set, childWord, h]

theorem setRest_nullchild {cfg : Cfg} (hc : CfgFlat cfg) (hmk2 : 2 ≤ cfg.maxKeys) (t : St) (a : Alloc)
    (hinv : AllocInv cfg t a) (hb1 : (a.nextPage + 1) * pw cfg < 2 ^ 40)
    (p : Nat) (es : List (Key × Node)) (i : Nat) (ki k : Key) (v : Val) (hk0 : k ≠ 0#64)
    (hi : es[i]? = some (ki, Node.null))
    (hpg : PageOf cfg t.data p false (entWords es)) (hpfree : p ∉ a.free) (hplt : p < a.nextPage) (fuel : Nat) :
    ∃ t', setRest (w cfg.pageSize) (w cfg.maxKeys) (fuel + 1) k v t (refOf cfg t p) (w p) (w i) =
        some (t', refOf cfg t' p) ∧ NewChildOut cfg t a p es i ki k v t' := by
  have hmk := hc.mkLt
  have hs := hpg.ok.1
  have hnk : nkeys cfg.maxKeys (pageOf cfg t.data p) = es.length := by
    rw [← ents_length, hpg.ents, entWords_length]
  have hilt : i < es.length := by
    rcases Nat.lt_or_ge i es.length with h | h
    · exact h
    · rw [List.getElem?_eq_none h] at hi; cases hi
  have hle : es.length ≤ cfg.maxKeys := by rw [← hnk]; exact hpg.ok.2.1
  unfold setRest
  have hval : Gen.Node.val (pageOf cfg t.data p) (w i) = some 0#64 := by
    rw [val_w (by omega) (by omega)]
    have h2' := ents_get? (mk := cfg.maxKeys) (p := pageOf cfg t.data p) i
    rw [hpg.ents, entWords_get?, hi, hnk, if_pos hilt] at h2'
    simp only [Option.map_some, Option.some.injEq, Prod.mk.injEq] at h2'
    rw [← h2'.2]; rfl
  rw [rdNode_refOf t p hpg.fit, hval]
  simp only [Option.bind_some]
  rw [node_zero]
  simp only [Option.bind_some]
  obtain ⟨t1, hch, hinv1, hpg1, hq1, hsz1, hfr1, hwhich, hnotfree, hmono, hfsub⟩ :=
    setChild_new hc t a hinv hb1 p es i ki hi hpg hpfree hplt (refOf cfg t p)
  rw [hch]
  simp only [Option.bind_some]
  generalize hqdef : (RV.Tree.newNode cfg a).1 = q at *
  generalize ha1def : (RV.Tree.newNode cfg a).2 = a1 at *
  have hqs := hq1.ok.1
  rw [rdNode_refOf t1 q hq1.fit, pageID_w hqs (by omega), hq1.pid]
  simp only [Option.bind_some]
  -- the recursive call: the leaf case
  have hns := nodeSet_empty cfg.maxKeys (by omega) (by omega) k v hk0
  obtain ⟨pg, hpgs, hset, hq2, hinv2⟩ := set_leaf hc t1 a1 hinv1 q [] [(k, v)] 1 k v hk0 hq1 hnotfree hns fuel
  rw [hset]
  simp only [Option.bind_some]
  have hqp : q ≠ p := by
    rcases hwhich with h | h
    · exact fun e => hpfree (e ▸ h)
    · omega
  have hfitp2 : (p + 1) * pw cfg ≤ (setPage cfg t1.data q pg).size := by rw [setPage_size]; exact hpg1.fit
  have hsm2 : (setPage cfg t1.data q pg).size < 2 ^ 40 := by rw [setPage_size]; exact hinv1.small
  rw [node_w hc { t1 with data := setPage cfg t1.data q pg, numLeafKeys := t1.numLeafKeys + w 1 } p hpg1.pos
    (by simp only []; exact hfitp2) (by simp only []; exact hsm2)]
  simp only [Option.bind_some, refOf]
  have hq2s := hq2.ok.1
  have hfull : Gen.Node.isFull (pageOf cfg (setPage cfg t1.data q pg) q) (w cfg.maxKeys) = some false := by
    rw [isFull_w hq2s (by omega) (by omega), ← ents_length, hq2.ents]
    congr 1; simp; omega
  rw [rdNode_win (cfg := cfg) { t1 with data := setPage cfg t1.data q pg, numLeafKeys := t1.numLeafKeys + w 1 } q
    t1.epoch rfl (by simp only []; exact hq2.fit)]
  simp only []
  rw [hfull]
  simp only [Option.bind_some]
  rw [setSplit_false]
  simp only [Option.bind_some]
  subst hqdef
  subst ha1def
  refine ⟨_, rfl, ?_, hq2, hinv2, ?_, ?_, ?_, hqp⟩
  · simp only []
    have hP : pageOf cfg (setPage cfg t1.data (RV.Tree.newNode cfg a).1 pg) p = pageOf cfg t1.data p :=
      pageOf_setPage_ne _ _ _ _ (Ne.symm hqp) hq1.fit hpg1.fit hpgs
    rw [entWords_set_pid es i ki (Node.leaf (RV.Tree.newNode cfg a).1 []) (Node.leaf (RV.Tree.newNode cfg a).1 [(k, v)]) rfl]
    exact pageOf_frame (by rw [setPage_size]; exact Nat.le_refl _) hP hpg1
  · simp only [setPage_size]; exact hsz1
  · intro r hrp hrq hfr
    simp only []
    rw [pageOf_setPage_ne _ _ _ _ hrq hq1.fit (by omega) hpgs]
    exact hfr1 r hrp hrq hfr
  · rcases hwhich with h | h
    · exact Or.inl h
    · exact Or.inr h.1

/-! ## the structural side -/

theorem leafSet_empty (cfg : Cfg) (hmk1 : 1 ≤ cfg.maxKeys) (hmk : cfg.maxKeys < 2 ^ 63) (q : Nat) (k : Key) (v : Val)
    (hk0 : k ≠ 0#64) (a : Alloc) :
    leafSet cfg q [] k v a = (.leaf q [(k, v)], { a with leafKeys := a.leafKeys + (1 : Nat) }) := by
  unfold leafSet
  rw [nodeSet_empty cfg.maxKeys hmk1 hmk k v hk0]

/-- the child step of the structural `setEnts` on a nil child -/
theorem nullchild_step (cfg : Cfg) (hmk2 : 2 ≤ cfg.maxKeys) (hmk : cfg.maxKeys < 2 ^ 31) (ki k : Key) (v : Val)
    (hk0 : k ≠ 0#64) (a : Alloc) :
    afterChild cfg ki (leafSet cfg (RV.Tree.newNode cfg a).1 [] k v (RV.Tree.newNode cfg a).2).1
        (leafSet cfg (RV.Tree.newNode cfg a).1 [] k v (RV.Tree.newNode cfg a).2).2 =
      (.leaf (RV.Tree.newNode cfg a).1 [(k, v)],
       { (RV.Tree.newNode cfg a).2 with leafKeys := (RV.Tree.newNode cfg a).2.leafKeys + (1 : Nat) }, none) := by
  rw [leafSet_empty cfg (by omega) (by omega) _ k v hk0]
  unfold afterChild
  have : Node.isFull cfg (.leaf (RV.Tree.newNode cfg a).1 [(k, v)]) = false := by
    rw [Node.isFull_eq cfg _ (by simp [Node.len]) (by omega)]
    simp [Node.len]; omega
  simp only [this, Bool.false_eq_true, if_false]

/-- `setEnts` when no routing key reaches `k`: the key is appended with a fresh leaf -/
theorem setEnts_append (cfg : Cfg) (hmk2 : 2 ≤ cfg.maxKeys) (hmk : cfg.maxKeys < 2 ^ 31) (k : Key) (v : Val)
    (hk0 : k ≠ 0#64) : ∀ (es : List (Key × Node)) (a : Alloc), search es k = es.length →
    setEnts cfg es k v a =
      (es ++ [(k, Node.leaf (RV.Tree.newNode cfg a).1 [(k, v)])],
       { (RV.Tree.newNode cfg a).2 with leafKeys := (RV.Tree.newNode cfg a).2.leafKeys + (1 : Nat) }, none)
  | [], a, _ => by
    have hslot : Gen.Tree.setSlotEmpty 0#64 = true := by decide
    have := nullchild_step cfg hmk2 hmk k k v hk0 a
    rw [setEnts]
    simp only [hslot, if_true, this, List.nil_append]
  | (xk, xc) :: rest, a, hs => by
    have hx : Gen.Tree.searchHit xk k = false := by
      cases hh : Gen.Tree.searchHit xk k with
      | false => rfl
      | true => simp [search, hh] at hs
    have hs' : search rest k = rest.length := by
      simp only [search, hx, Bool.false_eq_true, if_false, List.length_cons] at hs; omega
    have ih := setEnts_append cfg hmk2 hmk k v hk0 rest a hs'
    rw [setEnts.eq_def]
    simp only [hx, Bool.false_eq_true, if_false, ih]
    rfl

/-- `setEnts` when the routing entry has no child page -/
theorem setEnts_nullchild (cfg : Cfg) (hmk2 : 2 ≤ cfg.maxKeys) (hmk : cfg.maxKeys < 2 ^ 31) (k : Key) (v : Val)
    (hk0 : k ≠ 0#64) : ∀ (l : List (Key × Node)) (ki : Key) (r : List (Key × Node)) (a : Alloc),
    (∀ e ∈ l, e.1 < k) → k ≤ ki → ki ≠ 0#64 →
    setEnts cfg (l ++ (ki, Node.null) :: r) k v a =
      (l ++ (ki, Node.leaf (RV.Tree.newNode cfg a).1 [(k, v)]) :: r,
       { (RV.Tree.newNode cfg a).2 with leafKeys := (RV.Tree.newNode cfg a).2.leafKeys + (1 : Nat) }, none)
  | [], ki, r, a, _, hle, hki0 => by
    have hhit : Gen.Tree.searchHit ki k = true := by simpa [Gen.Tree.searchHit, BitVec.ule_iff_le] using hle
    have hslot : Gen.Tree.setSlotEmpty ki = false := by unfold Gen.Tree.setSlotEmpty; simpa using hki0
    have := nullchild_step cfg hmk2 hmk ki k v hk0 a
    rw [List.nil_append, setEnts.eq_def]
    simp only [hhit, hslot, if_true, Bool.false_eq_true, if_false, this]
    rfl
  | (xk, xc) :: rest, ki, r, a, hlt, hle, hki0 => by
    have hx : Gen.Tree.searchHit xk k = false := by
      cases hh : Gen.Tree.searchHit xk k with
      | false => rfl
      | true =>
        have hk : k ≤ xk := by simpa [Gen.Tree.searchHit, BitVec.ule_iff_le] using hh
        have := hlt (xk, xc) (by simp)
        simp only [] at this
        bv_omega
    have ih := setEnts_nullchild cfg hmk2 hmk k v hk0 rest ki r a (fun e he => hlt e (by simp [he])) hle hki0
    rw [List.cons_append, setEnts.eq_def]
    simp only [hx, Bool.false_eq_true, if_false, ih]
    rfl

end RV.TreeFlat
