import RV.Proofs.CacheFifoSpecClient
/-!
# C06: calls, applier steps, sweep steps and clock ticks are transitions of the reference
-/
namespace RV.Cache
open Gen.Cache

/-- the capacity hypothesis, in its weakest form: whenever the applier is about to call
`policy.Add` for a new-item, the item fits into the remaining capacity -/
def RoomAt (s : State) : Prop :=
  ∀ i, s.app = .costed i → i.flag = .new → i.cost ≤ s.pol.maxCost ∧ s.pol.used + i.cost ≤ s.pol.maxCost

/-! ### policy facts -/

theorem polUpdate_contains (on : Bool) (p : Pol) (m : Met) (k h : Hash) (c : Int) :
    (polUpdate on p m k c).1.costs.contains h = p.costs.contains h := by
  unfold polUpdate
  split
  · rfl
  · rename_i prev hp
    by_cases hk : h = k
    · subst hk; simp [AMap.contains, hp]
    · simp [AMap.contains, AMap.lookup_insert_ne _ _ hk]

/-- with room, `policy.Add` changes the accounted set only at the incoming key, which is
accounted afterwards -/
theorem polAdd_room_costs {on : Bool} {p : Pol} {m : Met} {k : Hash} {cost : Int} {vs : List (Hash × Int)}
    {added : Bool} {pm : Pol × Met} (h : polAdd on p m k cost vs added = some pm)
    (hfit : cost ≤ p.maxCost) (hroom : p.used + cost ≤ p.maxCost) :
    pm.1.costs.contains k = true ∧ ∀ h', h' ≠ k → pm.1.costs.contains h' = p.costs.contains h' := by
  unfold polAdd at h
  rw [if_neg (by omega)] at h
  cases hl : p.costs.lookup k with
  | none =>
    have hu : polUpdate on p m k cost = (p, m, false) := by simp [polUpdate, hl]
    rw [hu] at h
    simp only at h
    rw [if_pos (by omega)] at h
    split at h
    · simp only [Option.some.injEq] at h; subst h
      refine ⟨by simp [polAddKey, AMap.contains], fun h' hne => ?_⟩
      simp [polAddKey, AMap.contains, AMap.lookup_insert_ne _ _ hne]
    · simp at h
  | some c0 =>
    have hu : (polUpdate on p m k cost).2.2 = true := by simp [polUpdate, hl]
    split at h
    · rename_i p1 m1 heq
      split at h
      · simp only [Option.some.injEq] at h; subst h
        have hp1 : p1 = (polUpdate on p m k cost).1 := by rw [heq]
        subst hp1
        refine ⟨?_, fun h' _ => polUpdate_contains on p m k h' cost⟩
        rw [polUpdate_contains]; simp [AMap.contains, hl]
      · simp at h
    · rename_i heq
      rw [heq] at hu; cases hu

theorem storeDelExpired_removed (st : Store) (em : Em) (h : Hash) (c : Conf) (now : Time) :
    ((storeDelExpired st em h c now).2.2.2.2 = true →
      ∃ e, st.lookup h = some e ∧ e.exp ≠ Gen.zeroTime ∧ e.exp ≤ now ∧
        ∀ k, (storeDelExpired st em h c now).1.lookup k = if k = h then none else st.lookup k) ∧
    ((storeDelExpired st em h c now).2.2.2.2 = false → (storeDelExpired st em h c now).1 = st) := by
  unfold storeDelExpired
  split
  · exact ⟨(fun hh => by cases hh), fun _ => rfl⟩
  · rename_i e he
    split
    · exact ⟨(fun hh => by cases hh), fun _ => rfl⟩
    · split
      · exact ⟨(fun hh => by cases hh), fun _ => rfl⟩
      · rename_i hsk
        refine ⟨fun _ => ⟨e, he, ?_, ?_, fun k => ?_⟩, fun hh => by cases hh⟩
        · simp only [sweepSkip, Bool.or_eq_true, beq_iff_eq, decide_eq_true_eq, not_or] at hsk; exact hsk.1
        · simp only [sweepSkip, Bool.or_eq_true, beq_iff_eq, decide_eq_true_eq, not_or] at hsk
          exact Int.not_lt.mp hsk.2
        · exact AMap.lookup_erase st h k

/-! ### the cl-related fields under applier steps -/

theorem simR_cl_fields {t0 : Tid} {s s' : State} {sp : Spec} (h : SimR t0 s sp)
    (hcl : ∀ t, s'.cl t = s.cl t ∨ s'.cl t = unblockedPc (s.cl t)) :
    sp.cl = unblockedPc (s'.cl t0) ∧ (s'.cl t0).callPc = true ∧ ∀ t, t ≠ t0 → s'.cl t = .idle := by
  refine ⟨?_, ?_, ?_⟩
  · rcases hcl t0 with e | e <;> rw [e]
    · exact h.cl
    · rw [unblockedPc_idem]; exact h.cl
  · rcases hcl t0 with e | e <;> rw [e]
    · exact h.callPc
    · rw [unblockedPc_callPc]; exact h.callPc
  · intro t ht
    rcases hcl t with e | e <;> rw [e, h.others t ht]
    rfl

/-- applier step that touches nothing the relation looks at (no store / accounted-set / pending
change, not entering or leaving an "in flux" phase) -/
theorem SimR.app_frame {t0 : Tid} {s s' : State} {sp : Spec} (h : SimR t0 s sp)
    (hcl : ∀ t, s'.cl t = s.cl t ∨ s'.cl t = unblockedPc (s.cl t))
    (hstore : s'.store = s.store) (hpend : pendE s' = pendE s) (hclock : s'.clock = s.clock)
    (hnm : s'.nextMarker = s.nextMarker) (hclosed : s'.closed = s.closed)
    (hcont : ∀ k, s'.pol.costs.contains k = s.pol.costs.contains k)
    (hex : ∀ k, ¬ Exempt s k) (hex' : ∀ k, ¬ Exempt s' k) (hok : s'.app.ok = true) : SimR t0 s' sp := by
  obtain ⟨c1, c2, c3⟩ := simR_cl_fields h hcl
  constructor
  · intro k; rw [hstore]; exact h.map k
  · rw [hpend]; exact h.pend
  · rw [hclock]; exact h.clock
  · rw [hnm]; exact h.nm
  · exact c1
  · exact c2
  · exact c3
  · rw [hclosed]; exact h.opn
  · intro k _; rw [hcont]; exact h.acct k (hex k)
  · intro i vs ok ha; exact absurd (show Exempt s' i.key from Or.inl ⟨i, vs, ok, ha, rfl⟩) (hex' i.key)
  · intro now k c e v bs ha; exact absurd (show Exempt s' k from Or.inr (Or.inr ⟨now, c, e, v, bs, ha⟩)) (hex' k)
  · exact hok

theorem not_exempt_of {s : State} (h1 : ∀ i vs ok, s.app ≠ .added i vs ok) (h2 : ∀ i, s.app ≠ .tombPolicy i)
    (h3 : ∀ now k c e v bs, s.app ≠ .swStoreDel now k c e v bs) : ∀ k, ¬ Exempt s k := by
  intro k hk
  rcases hk with ⟨i, vs, ok, ha, _⟩ | ⟨i, ha, _⟩ | ⟨now, c, e, v, bs, ha⟩
  · exact h1 i vs ok ha
  · exact h2 i ha
  · exact h3 now k c e v bs ha

theorem pendE_congr {s s' : State} (happ : appElem s'.app = appElem s.app) (hbuf : s'.buf = s.buf)
    (hsq : s'.sendq = s.sendq) : pendE s' = pendE s := by
  unfold pendE; rw [pending_congr happ hbuf hsq]

theorem pendE_recv {s s1 s2 : State} {x : BufElem} (hnone : appElem s.app = none) (hr : recvBuf s = some (x, s1))
    (ha : appElem s2.app = some x) (e2 : s2.buf = s1.buf) (e3 : s2.sendq = s1.sendq) : pendE s2 = pendE s := by
  unfold pendE; rw [pending_recv hnone hr ha e2 e3]

theorem pendE_pop {s s' : State} {x : BufElem} (h : pending s = x :: pending s') : pendE s = eraseCost x :: pendE s' := by
  unfold pendE; rw [h]; rfl

/-- the client issues a call -/
theorem sim_spawn {t0 : Tid} {s s' : State} {sp : Spec} {c : Call} (hR : SimR t0 s sp)
    (hs : spawnStep s t0 c = some s') (hc : c.isMapCall = true) :
    ∃ sp' evs, sp.cl = .idle ∧ specCall t0 sp c = some (sp', evs) ∧ SimR t0 s' sp' ∧
      obsOf s'.log = evs ++ obsOf s.log := by
  have hidle : s.cl t0 = .idle := (spawn_next hs).1
  have hcl : sp.cl = .idle := by rw [hR.cl, hidle]; rfl
  unfold spawnStep at hs
  rw [hidle] at hs
  cases c <;> (first | exact absurd hc Bool.false_ne_true | skip) <;> (simp only [Option.some.injEq] at hs; subst hs)
  case set h cf v cost ttl =>
    refine ⟨{ sp with cl := .setStart h cf v cost ttl }, _, hcl, rfl, ?_, by simp [obsOf_cons]⟩
    cframe (.setStart h cf v cost ttl)
  case get h cf =>
    refine ⟨{ sp with cl := .getStart h cf }, _, hcl, rfl, ?_, by simp [obsOf_cons, hR.clock]⟩
    cframe (.getStart h cf)
  case getTTL h cf =>
    refine ⟨{ sp with cl := .ttlRead h cf }, _, hcl, rfl, ?_, by simp [obsOf_cons, hR.clock]⟩
    cframe (.ttlRead h cf)
  case del h cf =>
    refine ⟨{ sp with cl := .delStart h cf }, _, hcl, rfl, ?_, by simp [obsOf_cons]⟩
    cframe (.delStart h cf)
  case wait =>
    refine ⟨{ sp with cl := .waitStart }, _, hcl, rfl, ?_, by simp [obsOf_cons]⟩
    cframe .waitStart

end RV.Cache
