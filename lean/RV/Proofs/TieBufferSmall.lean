import RV.Proofs.TieBufferSortRec
/-!
`sortHelper.sortSmall`: collect the offsets of the chunk's slices, `sort.Slice` them (a parameter on
both sides, `SortAgree`), copy the raw slices into the temporary buffer in the chosen order, copy
the result back over the chunk — the generated function computes what the model's `sortSmall` does.
-/
namespace RV.TieBuffer
open Gen.Buf Gen.BufferM RV.Buffer Gen.Buffer

/-- every pair the model's walk returns was decoded by `slice` at that offset -/
theorem walk_slices (cond : BitVec 64 → Bool) (b : Buf) :
    ∀ (fuel : Nat) (nx : Option Nat) (items : List (Nat × Bytes)), walk cond b fuel nx = .ok items →
      ∀ it ∈ items, ∃ nx', RV.Buffer.slice b it.1 = .ok (it.2, nx') := by
  intro fuel
  induction fuel with
  | zero => intro nx items hm; simp [walk] at hm
  | succ f ih =>
    intro nx items hm it hit
    unfold walk at hm
    split at hm
    · simp only [Except.ok.injEq] at hm; subst hm; cases hit
    · cases nx with
      | none => simp at hm
      | some off =>
        simp only at hm
        cases hs : RV.Buffer.slice b off with
        | error e => rw [hs] at hm; simp at hm
        | ok r =>
          obtain ⟨sl, nx'⟩ := r
          rw [hs] at hm
          simp only at hm
          cases hw : walk cond b f nx' with
          | error e => rw [hw] at hm; simp at hm
          | ok rest =>
            rw [hw] at hm
            simp only [Except.ok.injEq] at hm
            subst hm
            rcases List.mem_cons.mp hit with rfl | hit'
            · exact ⟨nx', hs⟩
            · exact ih nx' rest hw it hit'

theorem smallCond_eq (e : Nat) (nx : Option Nat) :
    (BitVec.sle 0#64 (nextWord nx) && BitVec.slt (nextWord nx) (w e)) = sortSmallWalkCond (nextWord nx) (w e) := rfl

/-- the first loop of `sortSmall`: the offsets of the chunk's slices are appended to `s.small` -/
theorem small_loop (e : Nat) (s0 : sortHelper) (h : GWF s0.b) :
    ∀ (fuel : Nat) (nx : Option Nat) (sm : Array (BitVec 64)) (items : List (Nat × Bytes)),
      (∀ k, nx = some k → k < 2 ^ 63) →
      walk (fun nx => sortSmallWalkCond nx (w e)) (abs s0.b) fuel nx = .ok items →
      ∃ nxf, whileLoop (ρ := sortHelper) (fun (st : sortHelper × BitVec 64) => BitVec.sle 0#64 st.2 && BitVec.slt st.2 (w e))
          sortSmall_loop1 fuel ({ s0 with small := sm }, nextWord nx) =
        some (.done ({ s0 with small := sm ++ (items.map (fun it => w it.1)).toArray }, nxf)) := by
  have hc := h.wf.curSmall; rw [abs_curSz] at hc
  have h1 := h.wf.cap; rw [abs_offset, abs_curSz] at h1
  intro fuel
  induction fuel with
  | zero => intro nx sm items _ hm; simp [walk] at hm
  | succ f ih =>
    intro nx sm items hs hm
    unfold walk at hm
    unfold whileLoop
    simp only [smallCond_eq]
    by_cases hcnd : sortSmallWalkCond (nextWord nx) (w e) = true
    · simp only [hcnd, Bool.not_true, Bool.false_eq_true, if_false, if_true] at hm ⊢
      cases nx with
      | none => simp at hm
      | some off =>
        simp only at hm
        cases hsl : RV.Buffer.slice (abs s0.b) off with
        | error er => rw [hsl] at hm; simp at hm
        | ok r =>
          obtain ⟨sl, nx'⟩ := r
          rw [hsl] at hm
          simp only at hm
          obtain ⟨win, hgs, _, hk, _, _⟩ := slice_agree s0.b h off (hs off rfl) sl nx' hsl
          cases hw2 : walk (fun nx => sortSmallWalkCond nx (w e)) (abs s0.b) f nx' with
          | error er => rw [hw2] at hm; simp at hm
          | ok rest =>
            rw [hw2] at hm
            simp only [Except.ok.injEq] at hm
            subst hm
            have hs' : ∀ k, nx' = some k → k < 2 ^ 63 := by intro k e'; have := hk k e'; omega
            obtain ⟨nxf, hih⟩ := ih nx' (sm.push (w off)) rest hs' hw2
            have hbody : sortSmall_loop1 ({ s0 with small := sm }, nextWord (some off)) =
                some (LoopOut.next ({ s0 with small := sm.push (w off) }, nextWord nx')) := by
              show sortSmall_loop1 ({ s0 with small := sm }, w off) = _
              unfold sortSmall_loop1
              simp only [hgs, Option.bind_some]
            rw [hbody]
            simp only []
            rw [hih]
            refine ⟨nxf, ?_⟩
            simp
    · have hcf : sortSmallWalkCond (nextWord nx) (w e) = false := by simpa using hcnd
      simp only [hcf, Bool.not_false, if_true, Except.ok.injEq, Bool.false_eq_true, if_false] at hm ⊢
      subst hm
      exact ⟨nextWord nx, by simp⟩

/-- the comparison closure of `sortSmall` on two offsets at which slices are encoded -/
theorem less1_eval (lessM : Bytes → Bytes → Bool) (s : sortHelper) (h : GWF s.b)
    (hless : ∀ a b, s.less a b = lessM a.toList b.toList) (o1 o2 : Nat) (s1 s2 : Bytes) (n1 n2 : Option Nat)
    (ho1 : o1 < 2 ^ 63) (ho2 : o2 < 2 ^ 63)
    (h1 : RV.Buffer.slice (abs s.b) o1 = .ok (s1, n1)) (h2 : RV.Buffer.slice (abs s.b) o2 = .ok (s2, n2)) :
    sortSmall_less1 s (w o1) (w o2) = some (lessM s1 s2) := by
  obtain ⟨w1, hg1, hb1, _⟩ := slice_agree s.b h o1 ho1 s1 n1 h1
  obtain ⟨w2, hg2, hb2, _⟩ := slice_agree s.b h o2 ho2 s2 n2 h2
  unfold sortSmall_less1
  simp only [hg1, hg2, Option.bind_some, hless, hb1, hb2]

/-- the second loop of `sortSmall`: the raw slices at the given offsets are appended to `tmp` -/
theorem write_loop (os : OS) (hos : os.Ok) (C : Nat) (hC : C + C + C < 2 ^ 62) :
    ∀ (its : List Item) (s : sortHelper),
      (∀ it ∈ its, ∃ rest, s.b.buf.toList.drop it.1 = enc it.2 ++ rest) →
      s.b.buf.size < 2 ^ 62 →
      TmpInv C s.tmp →
      3 * ((abs s.tmp).offset + (encAll (its.map (·.2))).length) ≤ C →
      ∃ t', forEachL (ρ := sortHelper) (sortSmall_loop2 os) (its.map (fun it => w it.1)) s = some (.done { s with tmp := t' }) ∧
        TmpInv C t' ∧ (abs t').data = (abs s.tmp).data ++ encAll (its.map (·.2)) ∧
        (abs t').padding = (abs s.tmp).padding ∧
        (abs t').offset = (abs s.tmp).offset + (encAll (its.map (·.2))).length := by
  intro its
  induction its with
  | nil =>
    intro s _ _ ht _
    exact ⟨s.tmp, rfl, ht, by simp [encAll_nil], rfl, by simp [encAll_nil]⟩
  | cons it its ih =>
    intro s hval hbs ht hcap
    obtain ⟨rest, hr⟩ := hval it List.mem_cons_self
    have hlenb : s.b.buf.toList.length = s.b.buf.size := Array.length_toList
    have hdl := congrArg List.length hr
    rw [List.length_drop, List.length_append, enc_length, hlenb] at hdl
    have hoffs : it.1 + (8 + it.2.length) ≤ s.b.buf.size := by omega
    simp only [List.map_cons, encAll_cons, List.length_append, enc_length] at hcap
    -- b.buf[off:]
    have hbsz : (BitVec.ofNat 64 s.b.buf.size) = w s.b.buf.size := rfl
    have hs19 : Gen.Buf.slice s.b.buf.size (Win.full s.b.buf.size) (w it.1) (BitVec.ofNat 64 s.b.buf.size) =
        some ⟨it.1, s.b.buf.size⟩ := by
      rw [hbsz]
      have := slice_win s.b.buf.size (Win.full s.b.buf.size) it.1 s.b.buf.size (by omega) (by simp [Win.full]) (by omega)
      simpa [Win.full] using this
    -- rawSlice
    have hvis : (bytesOf s.b.buf ⟨it.1, s.b.buf.size⟩).toList = enc it.2 ++ rest := by
      rw [bytesOf_toList]
      show List.take (s.b.buf.size - it.1) (List.drop it.1 s.b.buf.toList) = _
      rw [List.take_of_length_le (by rw [List.length_drop, hlenb]; omega), hr]
    obtain ⟨hraw, hrb, _⟩ := rawSlice_agree s.b.buf ⟨it.1, s.b.buf.size⟩ ⟨by show it.1 ≤ s.b.buf.size; omega, Nat.le_refl _⟩ hbs
      (enc it.2) (by rw [hvis]; exact rawSlice_enc it.2 rest (by omega))
    rw [enc_length] at hraw hrb
    have hraw' : Gen.BufferM.rawSlice s.b.buf ⟨it.1, s.b.buf.size⟩ = some ⟨it.1, it.1 + (8 + it.2.length)⟩ := hraw
    -- Write
    have hwin : WinOk s.b.buf ⟨it.1, it.1 + (8 + it.2.length)⟩ :=
      ⟨by show it.1 ≤ it.1 + (8 + it.2.length); omega, by show it.1 + (8 + it.2.length) ≤ s.b.buf.size; omega⟩
    have hp : (bytesOf s.b.buf ⟨it.1, it.1 + (8 + it.2.length)⟩).toList = enc it.2 := hrb
    generalize hpdef : bytesOf s.b.buf ⟨it.1, it.1 + (8 + it.2.length)⟩ = p at hp
    have hps : p.size = 8 + it.2.length := by rw [← Array.length_toList, hp, enc_length]
    have hcapC := ht.cap
    have hcurT : (abs s.tmp).curSz = s.tmp.curSz.toNat := rfl
    have hmaxT : (abs s.tmp).maxSz = 0 := by show s.tmp.maxSz.toNat = 0; rw [ht.nomax]; rfl
    have hroom : (abs s.tmp).curSz + (abs s.tmp).curSz + p.size + p.size < 2 ^ 62 := by rw [hcurT, hps]; omega
    have hag := write_agree os hos s.tmp ht.wf p hroom
    rcases write_spec (abs s.tmp) p.toList ht.wf.wf (by rw [Array.length_toList]; exact hroom) with ⟨_, hm, _⟩ | ⟨b', hwm, hap⟩
    · rw [hmaxT] at hm; omega
    · rw [hwm] at hag
      cases hwg : Write os s.tmp p (Win.full p.size) with
      | none => rw [hwg] at hag; exact absurd hag id
      | some r =>
        rw [hwg] at hag
        obtain ⟨t5, n5, e5⟩ := r
        obtain ⟨ha5, hg5, _, _⟩ := hag
        simp only at ha5 hg5
        have hoff5 : (abs t5).offset = (abs s.tmp).offset + (8 + it.2.length) := by
          rw [ha5, hap.offset, Array.length_toList, hps]
        have hcur5 : t5.curSz.toNat ≤ C := by
          have := hap.tight; rw [← ha5, abs_curSz, hcurT, Array.length_toList, hps] at this
          omega
        have hmax5 : t5.maxSz = 0#64 := by
          have := hap.maxSz; rw [← ha5, abs_maxSz, hmaxT] at this
          exact BitVec.eq_of_toNat_eq this
        have hpad5 : (abs t5).padding = (abs s.tmp).padding := by rw [ha5]; exact hap.padding
        have ht5 : TmpInv C t5 := ⟨hg5, hmax5, by have := ht.pad; rw [← abs_padding, hpad5, abs_padding]; exact this, hcur5⟩
        obtain ⟨t', hl, ht', hd', hp', ho'⟩ := ih { s with tmp := t5 } (fun x hx => hval x (List.mem_cons_of_mem _ hx)) hbs ht5
          (by show 3 * ((abs t5).offset + _) ≤ C; rw [hoff5]; omega)
        refine ⟨t', ?_, ht', ?_, ?_, ?_⟩
        · simp only [List.map_cons, forEachL]
          have hbody : sortSmall_loop2 os (w it.1) s = some (LoopOut.next { s with tmp := t5 }) := by
            unfold sortSmall_loop2
            simp only [hs19, Option.bind_some, hraw', write_window os s.tmp s.b.buf _ hwin, hpdef, hwg]
          rw [hbody]
          exact hl
        · rw [hd']; show (abs t5).data ++ _ = _
          rw [ha5, hap.data, hp]; simp [encAll_cons]
        · rw [hp']; exact hpad5
        · rw [ho']; show (abs t5).offset + _ = _
          rw [hoff5]; simp only [List.map_cons, encAll_cons, List.length_append, enc_length]; omega

/-- `sort.Slice` of the generated code (on offsets) and of the model (on offset/slice pairs) make
the same choices whenever their comparisons agree (any sort function that is parametric in the
element type does: the comparisons are all it sees). -/
def SortAgree (sortG : Gen.Buf.SortFn) (sortM : RV.Buffer.SortFn) : Prop :=
  ∀ (items : List Item) (ltG : BitVec 64 → BitVec 64 → Bool) (ltM : Item → Item → Bool),
    (∀ x ∈ items, ∀ y ∈ items, ltG (w x.1) (w y.1) = ltM x y) →
    (sortG ltG (items.map (fun it => w it.1)).toArray).toList = (sortM ltM items).map (fun it => w it.1)

theorem smallCondG_eq (e : BitVec 64) :
    (fun (x : sortHelper × BitVec 64) => match x with | (_, next_6) => (BitVec.sle 0#64 next_6 && BitVec.slt next_6 e)) =
      (fun (st : sortHelper × BitVec 64) => BitVec.sle 0#64 st.2 && BitVec.slt st.2 e) := by
  funext ⟨_, _⟩; rfl

theorem sortSmall_spec_gen (os : OS) (hos : os.Ok) (lessM : Bytes → Bytes → Bool)
    (sortG : Gen.Buf.SortFn) (sortM : RV.Buffer.SortFn) (hsa : SortAgree sortG sortM) (sc : SortContract sortM)
    (C : Nat) (hC : C + C + C < 2 ^ 62) (s : sortHelper) (h : GWF s.b)
    (hless : ∀ a b, s.less a b = lessM a.toList b.toList)
    (pre post : Bytes) (Cn : List Bytes) (hCn : Cn ≠ [])
    (hbuf : s.b.buf.toList = pre ++ encAll Cn ++ post)
    (hoff : pre.length + (encAll Cn).length ≤ s.b.offset.toNat)
    (ht : TmpInv C s.tmp) (hC1 : 3 * (8 + (encAll Cn).length) ≤ C) :
    ∃ s' a, Gen.BufferM.sortSmall os sortG s (w pre.length) (w (pre.length + (encAll Cn).length)) = some s' ∧
      s'.b = { s.b with buf := a } ∧
      a.toList = pre ++ encAll ((sortM (fun x y => lessM x.2 y.2) ((offsetsFrom pre.length Cn).zip Cn)).map (·.2)) ++ post ∧
      s'.offsets = s.offsets ∧ s'.less = s.less ∧ TmpInv C s'.tmp := by
  have hw := h.wf
  have hcur := hw.curSmall; rw [abs_curSz] at hcur
  have hcap := hw.cap; rw [abs_offset, abs_curSz] at hcap
  have hbsz : s.b.buf.size < 2 ^ 62 := by rw [h.size]; exact hcur
  have hge := encAll_length_ge Cn
  have hsz : s.b.buf.size = pre.length + (encAll Cn).length + post.length := by
    rw [← Array.length_toList, hbuf]; simp only [List.length_append]
  -- the model's view of the buffer
  have hd := data_split s.b (pre ++ encAll Cn) post hbuf (by simp only [List.length_append]; exact hoff)
  generalize hpD : post.take (s.b.offset.toNat - (pre ++ encAll Cn).length) = postD at hd
  have hlenD : (abs s.b).data.length = pre.length + (encAll Cn).length + postD.length := by
    rw [hd]; simp only [List.length_append]
  have hlen := hw.len; rw [abs_offset] at hlen
  let lt : Item → Item → Bool := fun x y => lessM x.2 y.2
  let items := (offsetsFrom pre.length Cn).zip Cn
  have hwalk := walk_spec (fun nx => sortSmallWalkCond nx (w (pre.length + (encAll Cn).length))) (abs s.b) hw postD
    (k_sortSmallWalkCond_none _) Cn pre ((abs s.b).offset + 2) hd (by rw [abs_offset]; omega) (Or.inl hCn)
    (by intro n hn; rw [k_sortSmallWalkCond_some _ _ (by omega) (by omega)]; simp [hn])
    (by intro _; rw [k_sortSmallWalkCond_some _ _ (by omega) (by omega)]; simp)
  -- Reset
  obtain ⟨t2, hr2, ha2, hg2⟩ := reset_agree s.tmp ht.wf
  unfold Gen.BufferM.sortSmall
  simp only [hr2, Option.bind_some]
  obtain ⟨nxf, hl1⟩ := small_loop (pre.length + (encAll Cn).length) { s with tmp := t2 } h (s.b.offset.toNat + 2)
    (some pre.length) #[] items (by intro k e; simp only [Option.some.injEq] at e; omega) hwalk
  have e0 : nextWord (some pre.length) = w pre.length := rfl
  rw [e0] at hl1
  rw [hl1]
  simp only [Option.bind_some, Array.empty_append]
  -- sort.Slice
  have hslices := walk_slices _ _ _ _ _ hwalk
  have hsmallOff : ∀ it ∈ items, it.1 < 2 ^ 63 := by
    intro it hit
    obtain ⟨rest, hr⟩ := items_valid (abs s.b).data postD Cn pre hd it hit
    have := congrArg List.length hr
    rw [List.length_drop, List.length_append, enc_length] at this
    omega
  have hall : ((items.map (fun it => w it.1)).toArray.all
      (fun x => (sortSmall_less1 { s with tmp := t2, small := (items.map (fun it => w it.1)).toArray } x x).isSome)) = true := by
    rw [Array.all_eq_true]
    intro i hi
    simp only [List.getElem_toArray, List.getElem_map]
    have hmem : items[i]'(by simpa using hi) ∈ items := List.getElem_mem _
    obtain ⟨nx', hs'⟩ := hslices _ hmem
    rw [less1_eval lessM { s with tmp := t2, small := (items.map (fun it => w it.1)).toArray } h hless
      _ _ _ _ _ _ (hsmallOff _ hmem) (hsmallOff _ hmem) hs' hs']
    rfl
  unfold sortSliceM
  simp only [hall, if_true, Option.bind_some]
  have hagree := hsa items
    (fun x y => (sortSmall_less1 { s with tmp := t2, small := (items.map (fun it => w it.1)).toArray } x y).getD false) lt
    (by
      intro x hx y hy
      obtain ⟨n1, h1⟩ := hslices x hx
      obtain ⟨n2, h2⟩ := hslices y hy
      rw [less1_eval lessM { s with tmp := t2, small := (items.map (fun it => w it.1)).toArray } h hless
        _ _ _ _ _ _ (hsmallOff _ hx) (hsmallOff _ hy) h1 h2]
      rfl)
  unfold forEach
  rw [hagree]
  generalize sortG _ (List.map (fun it => w it.fst) items).toArray = smallArr
  -- the copies into tmp
  have hperm := sc.perm lt items
  have hvalid : ∀ it ∈ sortM lt items, ∃ rest, s.b.buf.toList.drop it.1 = enc it.2 ++ rest := by
    intro it hit
    obtain ⟨rest, hr⟩ := items_valid s.b.buf.toList post Cn pre hbuf it (hperm.mem_iff.mp hit)
    exact ⟨rest, hr⟩
  have hpermC : ((sortM lt items).map (·.2)).Perm Cn := by
    have := hperm.map (·.2)
    rwa [items_snd] at this
  have hlenT : (encAll ((sortM lt items).map (·.2))).length = (encAll Cn).length := encAll_length_perm hpermC
  have ht2 : TmpInv C t2 := by
    refine ⟨hg2, ?_, ?_, ?_⟩
    · have : t2.maxSz.toNat = 0 := by
        have := congrArg Buf.maxSz ha2; rw [abs_maxSz] at this; rw [this]; show s.tmp.maxSz.toNat = 0; rw [ht.nomax]; rfl
      exact BitVec.eq_of_toNat_eq this
    · have := congrArg Buf.padding ha2; rw [abs_padding] at this; rw [this]; exact ht.pad
    · have := congrArg Buf.curSz ha2; rw [abs_curSz] at this; rw [this]; exact ht.cap
  have hoff2 : (abs t2).offset = s.tmp.padding.toNat := by rw [ha2]; rfl
  have hpadle := ht.pad
  obtain ⟨t', hl2, ht', hd', hp', ho'⟩ := write_loop os hos C hC (sortM lt items)
    { s with tmp := t2, small := smallArr } hvalid hbsz ht2
    (by show 3 * ((abs t2).offset + _) ≤ C; rw [hoff2, hlenT]; omega)
  rw [hl2]
  simp only [Option.bind_some]
  -- copy back
  have hs25 : Gen.Buf.slice s.b.buf.size (Win.full s.b.buf.size) (w pre.length) (w (pre.length + (encAll Cn).length)) =
      some ⟨pre.length, pre.length + (encAll Cn).length⟩ := by
    have := slice_win s.b.buf.size (Win.full s.b.buf.size) pre.length (pre.length + (encAll Cn).length) (by omega)
      (by show 0 + _ ≤ _; omega) (by omega)
    simpa [Win.full] using this
  simp only [hs25, Option.bind_some, bytes_window t' ht'.wf]
  have hpadT : t'.padding.toNat = s.tmp.padding.toNat := by
    have := hp'; rw [abs_padding] at this; rw [this, ha2]; rfl
  have hoffT : t'.offset.toNat = t'.padding.toNat + (encAll Cn).length := by
    have := ho'; rw [abs_offset, hoff2] at this; rw [this, hlenT, hpadT]
  have hcontent : (bytesOf t'.buf ⟨t'.padding.toNat, t'.offset.toNat⟩).toList = encAll ((sortM lt items).map (·.2)) := by
    obtain ⟨win, hb1, hb2⟩ := bytes_agree t' ht'.wf
    rw [bytes_window t' ht'.wf] at hb1
    simp only [Option.some.injEq] at hb1
    rw [hb1, hb2]
    unfold bytes
    rw [hd', hp']
    have : (abs t2).data.length = (abs t2).padding := by
      rw [hg2.wf.len, hoff2, ha2]; rfl
    rw [← this, List.drop_left]
  have hrw : (⟨t'.padding.toNat, t'.offset.toNat⟩ : Win) = ⟨t'.padding.toNat, t'.padding.toNat + (encAll Cn).length⟩ := by
    rw [hoffT]
  have hts : t'.buf.size = t'.curSz.toNat := ht'.wf.size
  have hoffle := ht'.wf.off_le
  rw [hrw] at hcontent ⊢
  rw [copy_into _ _ _ _ _ _ (by omega)]
  have hsub : w (pre.length + (encAll Cn).length) - w pre.length = w (encAll Cn).length := by
    rw [w_sub _ _ (by omega)]; congr 1; omega
  simp only [hsub, guard_w_self, Option.bind_some]
  refine ⟨_, _, rfl, rfl, ?_, rfl, rfl, ht'⟩
  rw [blit_extract_toList _ _ _ _ _ (by omega) (by omega), hbuf]
  have hc2 : (t'.buf.toList.drop t'.padding.toNat).take (encAll Cn).length = encAll ((sortM lt items).map (·.2)) := by
    rw [← hcontent, bytesOf_toList]
    show _ = List.take (t'.padding.toNat + (encAll Cn).length - t'.padding.toNat) _
    rw [Nat.add_sub_cancel_left]
  rw [hc2]
  rw [List.append_assoc pre, List.take_left, ← List.length_append]
  rw [show pre ++ (encAll Cn ++ post) = (pre ++ encAll Cn) ++ post from (List.append_assoc _ _ _).symm, List.drop_left]

/-- the model's `sortSmall`, with the order `sort.Slice` chose made explicit (the computation inside
the proof of `RV.Buffer.sortSmall_spec`) -/
theorem sortSmall_model_eq (sortFn : RV.Buffer.SortFn) (sc : SortContract sortFn) (less : Bytes → Bytes → Bool)
    (b : Buf) (h : WF b) (pre post : Bytes) (C : List Bytes)
    (hd : b.data = pre ++ encAll C ++ post) (hC : C ≠ []) :
    RV.Buffer.sortSmall sortFn less b pre.length (pre.length + (encAll C).length) =
      .ok { b with data := pre ++ encAll ((sortFn (fun x y => less x.2 y.2) ((offsetsFrom pre.length C).zip C)).map (·.2)) ++ post } := by
  have hcap := h.cap; have hcur := h.curSmall; have hlen := h.len
  have hl : b.data.length = pre.length + (encAll C).length + post.length := by
    rw [hd]; simp only [List.length_append]
  have hge := encAll_length_ge C
  let lt : Item → Item → Bool := fun x y => less x.2 y.2
  let items := (offsetsFrom pre.length C).zip C
  unfold RV.Buffer.sortSmall
  have hw := walk_spec (fun nx => sortSmallWalkCond nx (w (pre.length + (encAll C).length))) b h post
    (k_sortSmallWalkCond_none _) C pre (b.offset + 2) hd (by omega) (Or.inl hC)
    (by intro n hn; rw [k_sortSmallWalkCond_some _ _ (by omega) (by omega)]; simp [hn])
    (by intro _; rw [k_sortSmallWalkCond_some _ _ (by omega) (by omega)]; simp)
  rw [hw]
  simp only
  have hvalid : ∀ it ∈ sortFn lt items, ∃ rest, b.data.drop it.1 = enc it.2 ++ rest := by
    intro it hit
    exact items_valid b.data post C pre hd it ((sc.perm lt items).mem_iff.mp hit)
  rw [rawSlices_spec b.data (by omega) _ hvalid]
  simp only
  have hperm : ((sortFn lt items).map (·.2)).Perm C := by
    have := (sc.perm lt items).map (·.2)
    rwa [items_snd] at this
  have hlenT : (encAll ((sortFn lt items).map (·.2))).length = (encAll C).length := encAll_length_perm hperm
  have hc1 : pre.length ≤ pre.length + (encAll C).length ∧ pre.length + (encAll C).length ≤ b.data.length := by
    omega
  rw [if_pos hc1]
  have hmin : min (pre.length + (encAll C).length - pre.length) (encAll ((sortFn lt items).map (·.2))).length
      = (encAll C).length := by rw [hlenT]; omega
  rw [hmin, k_sortSmallLen _ _ _ (by omega) (by omega) (by omega)]
  have : pre.length + (encAll C).length - pre.length = (encAll C).length := by omega
  simp only [this, decide_true, if_true]
  rw [← hlenT, List.take_length, hd, overwrite_mid _ _ _ _ hlenT]

theorem gwf_setbuf (g : Buffer) (h : GWF g) (a : Array (BitVec 8)) (hs : a.size = g.buf.size) :
    GWF { g with buf := a } := by
  refine ⟨h.nonnil, by show a.size = g.curSz.toNat; rw [hs]; exact h.size, h.ty, ?_⟩
  have hw := h.wf
  refine ⟨?_, hw.pad, hw.cap, hw.curSmall, hw.maxSmall, hw.autoSmall⟩
  show (a.toList.take g.offset.toNat).length = g.offset.toNat
  rw [List.length_take, Array.length_toList, hs]
  exact Nat.min_eq_left h.off_le

/-- `sortHelper.sortSmall` on a chunk of encoded slices: generated code = model -/
theorem tie_sortSmall_enc (os : OS) (hos : os.Ok) (lessM : Bytes → Bytes → Bool)
    (sortG : Gen.Buf.SortFn) (sortM : RV.Buffer.SortFn) (hsa : SortAgree sortG sortM) (sc : SortContract sortM)
    (C : Nat) (hC : C + C + C < 2 ^ 62) (s : sortHelper) (h : GWF s.b)
    (hless : ∀ a b, s.less a b = lessM a.toList b.toList)
    (pre post : Bytes) (Cn : List Bytes) (hCn : Cn ≠ [])
    (hbuf : s.b.buf.toList = pre ++ encAll Cn ++ post)
    (hoff : pre.length + (encAll Cn).length ≤ s.b.offset.toNat)
    (ht : TmpInv C s.tmp) (hC1 : 3 * (8 + (encAll Cn).length) ≤ C) :
    ∃ s', Gen.BufferM.sortSmall os sortG s (w pre.length) (w (pre.length + (encAll Cn).length)) = some s' ∧
      RV.Buffer.sortSmall sortM lessM (abs s.b) pre.length (pre.length + (encAll Cn).length) = .ok (abs s'.b) ∧
      s'.offsets = s.offsets ∧ s'.less = s.less ∧ TmpInv C s'.tmp ∧
      GWF s'.b ∧ s'.b.offset = s.b.offset ∧
      ∃ C', C'.Perm Cn ∧ (StrictWeak lessM → Sorted lessM C') ∧ s'.b.buf.toList = pre ++ encAll C' ++ post := by
  obtain ⟨s', a, h1, h2, h3, h4, h5, h6⟩ :=
    sortSmall_spec_gen os hos lessM sortG sortM hsa sc C hC s h hless pre post Cn hCn hbuf hoff ht hC1
  have hperm := sc.perm (fun x y => lessM x.2 y.2) ((offsetsFrom pre.length Cn).zip Cn)
  have hpermC : ((sortM (fun x y => lessM x.2 y.2) ((offsetsFrom pre.length Cn).zip Cn)).map (·.2)).Perm Cn := by
    have := hperm.map (·.2)
    rwa [items_snd] at this
  have hl := encAll_length_perm hpermC
  have hb' : s'.b.buf.toList = pre ++ encAll ((sortM (fun x y => lessM x.2 y.2) ((offsetsFrom pre.length Cn).zip Cn)).map (·.2)) ++ post := by
    rw [h2]; exact h3
  have ho' : s'.b.offset = s.b.offset := by rw [h2]
  have hsz' : a.size = s.b.buf.size := by
    rw [← Array.length_toList, h3, ← Array.length_toList, hbuf]; simp only [List.length_append, hl]
  refine ⟨s', h1, ?_, h4, h5, h6, by rw [h2]; exact gwf_setbuf s.b h a hsz', ho', _, hpermC, ?_, hb'⟩
  · have hd := data_split s.b (pre ++ encAll Cn) post hbuf (by simp only [List.length_append]; exact hoff)
    rw [sortSmall_model_eq sortM sc lessM (abs s.b) h.wf pre _ Cn hd hCn]
    congr 1
    have hd' := data_split s'.b _ post hb' (by simp only [List.length_append, hl, ho']; exact hoff)
    have e : abs s'.b = { abs s.b with data := (abs s'.b).data } := by rw [h2]; rfl
    rw [e, hd', ho']
    simp only [List.length_append, hl]
  · intro sw
    unfold Sorted
    rw [List.pairwise_map]
    exact sc.sorted _ _ (fun a b => sw.asymm a.2 b.2) (fun a b c => sw.negTrans a.2 b.2 c.2)

/-! ## `SortAgree` is satisfiable: insertion sort on both sides -/

def insertSortedW (lt : BitVec 64 → BitVec 64 → Bool) (x : BitVec 64) : List (BitVec 64) → List (BitVec 64)
  | [] => [x]
  | y :: ys => if lt x y then x :: y :: ys else y :: insertSortedW lt x ys

/-- insertion sort on offsets, as a `sort.Slice` for the generated code -/
def insertionSortW : Gen.Buf.SortFn := fun lt xs => (xs.toList.foldr (insertSortedW lt) []).toArray

theorem insertSorted_map (ltG : BitVec 64 → BitVec 64 → Bool) (ltM : Item → Item → Bool) (x : Item) :
    ∀ (l : List Item), (∀ y ∈ l, ltG (w x.1) (w y.1) = ltM x y) →
      insertSortedW ltG (w x.1) (l.map (fun it => w it.1)) = (insertSorted ltM x l).map (fun it => w it.1) := by
  intro l
  induction l with
  | nil => intro _; rfl
  | cons y ys ih =>
    intro h
    simp only [List.map_cons, insertSortedW, insertSorted, h y List.mem_cons_self]
    split
    · rfl
    · simp only [List.map_cons]
      rw [ih (fun z hz => h z (List.mem_cons_of_mem _ hz))]

theorem insertSorted_mem (lt : Item → Item → Bool) (x : Item) : ∀ (l : List Item) (z : Item),
    z ∈ insertSorted lt x l → z = x ∨ z ∈ l := by
  intro l
  induction l with
  | nil => intro z hz; simp [insertSorted] at hz; exact Or.inl hz
  | cons y ys ih =>
    intro z hz
    simp only [insertSorted] at hz
    split at hz
    · rcases List.mem_cons.mp hz with rfl | hz'
      · exact Or.inl rfl
      · exact Or.inr hz'
    · rcases List.mem_cons.mp hz with rfl | hz'
      · exact Or.inr List.mem_cons_self
      · rcases ih z hz' with rfl | hm
        · exact Or.inl rfl
        · exact Or.inr (List.mem_cons_of_mem _ hm)

theorem foldr_insert_mem (lt : Item → Item → Bool) : ∀ (l : List Item) (z : Item),
    z ∈ l.foldr (insertSorted lt) [] → z ∈ l := by
  intro l
  induction l with
  | nil => intro z hz; simp at hz
  | cons y ys ih =>
    intro z hz
    simp only [List.foldr_cons] at hz
    rcases insertSorted_mem lt y _ z hz with rfl | hm
    · exact List.mem_cons_self
    · exact List.mem_cons_of_mem _ (ih z hm)

theorem insertion_agree : SortAgree insertionSortW insertionSort := by
  intro items ltG ltM hag
  unfold insertionSortW insertionSort
  simp only []
  suffices h : ∀ (l : List Item), (∀ x ∈ l, x ∈ items) →
      (l.map (fun it => w it.1)).foldr (insertSortedW ltG) [] = (l.foldr (insertSorted ltM) []).map (fun it => w it.1) from
    h items (fun _ hx => hx)
  intro l
  induction l with
  | nil => intro _; rfl
  | cons x xs ih =>
    intro hsub
    simp only [List.map_cons, List.foldr_cons]
    rw [ih (fun z hz => hsub z (List.mem_cons_of_mem _ hz))]
    apply insertSorted_map
    intro y hy
    exact hag x (hsub x List.mem_cons_self) y (hsub y (List.mem_cons_of_mem _ (foldr_insert_mem ltM xs y hy)))


end RV.TieBuffer
