import RV.Proofs.TreeGeo
/-!
# `Tree.Set`: invariant preservation and the association-list semantics

Main results: `setNode_spec` / `setEnts_spec` (mutual induction over the tree, arbitrary
height, including splits at every level) and `set_spec` (the root split of `Tree.Set`).
-/
namespace RV.Tree
open Gen.Tree

/-- the page sizes the theorems cover: at least 4 keys per node, fewer than 2^31 -/
structure CfgOk (cfg : Cfg) : Prop where
  ge4 : 4 ≤ cfg.maxKeys
  lt : cfg.maxKeys < 2 ^ 31

/-! ## split arithmetic -/

theorem w_msb {n : Nat} (h : n < 2 ^ 63) : (w n).msb = false := by
  rw [BitVec.msb_eq_decide]; simp [w_toNat (show n < 2 ^ 64 by omega)]; omega

theorem sdiv2 {n : Nat} (h : n < 2 ^ 63) : (BitVec.sdiv (w n) 2#64).toNat = n / 2 := by
  rw [BitVec.sdiv_eq]
  have h2 : (2#64 : BitVec 64).msb = false := by decide
  simp [w_msb h, h2, BitVec.udiv_def, w_toNat (show n < 2 ^ 64 by omega)]
  omega

theorem splitFrom_toNat {mk : Nat} (h : mk < 2 ^ 63) : (splitFrom (w mk)).toNat = mk / 2 := by
  unfold splitFrom; exact sdiv2 h
theorem splitLeftCount_toNat {mk : Nat} (h : mk < 2 ^ 63) : (splitLeftCount (w mk)).toNat = mk / 2 := by
  unfold splitLeftCount; exact sdiv2 h
theorem splitRightCount_toNat {mk : Nat} (h : mk < 2 ^ 63) : (splitRightCount (w mk)).toNat = mk - mk / 2 := by
  unfold splitRightCount
  rw [BitVec.toNat_sub, sdiv2 h, w_toNat (by omega)]
  omega

section
variable {β : Type}

/-- `Tree.split` moves exactly the upper `maxKeys - maxKeys/2` entries of a full node. -/
theorem splitLeft_eq {mk : Nat} (es : List (Key × β)) (h : mk < 2 ^ 63) :
    splitLeft mk es = es.take (mk / 2) := by
  unfold splitLeft
  rw [splitFrom_toNat h, splitLeftCount_toNat h, List.take_take]; simp

theorem splitRight_eq {mk : Nat} (es : List (Key × β)) (h : mk < 2 ^ 63) (hl : es.length = mk) :
    splitRight mk es = es.drop (mk / 2) := by
  unfold splitRight
  rw [splitFrom_toNat h, splitRightCount_toNat h]
  apply List.take_of_length_le
  rw [List.length_drop]; omega

theorem split_lists (es : List (Key × β)) (mk : Nat) (hmk : 2 ≤ mk) (hl : es.length = mk) :
    es.take (mk / 2) ++ es.drop (mk / 2) = es ∧ es.take (mk / 2) ≠ [] ∧ es.drop (mk / 2) ≠ [] ∧
      (es.take (mk / 2)).length ≤ mk - 1 ∧ (es.drop (mk / 2)).length ≤ mk - 1 := by
  refine ⟨List.take_append_drop _ _, ?_, ?_, ?_, ?_⟩
  · intro e
    have := congrArg List.length e
    rw [List.length_take, List.length_nil] at this; omega
  · intro e
    have := congrArg List.length e
    rw [List.length_drop, List.length_nil] at this; omega
  · rw [List.length_take]; omega
  · rw [List.length_drop]; omega

/-- sortedness only looks at the keys -/
theorem sortedFrom_replace {lo : Key} {l : List (Key × β)} {ki : Key} {c : β} {r : List (Key × β)}
    (c' : β) (h : SortedFrom lo (l ++ (ki, c) :: r)) : SortedFrom lo (l ++ (ki, c') :: r) := by
  rw [sortedFrom_append] at h ⊢
  exact ⟨h.1, h.2.1, h.2.2⟩

theorem lastKeyD_replace {lo : Key} (l : List (Key × β)) (ki : Key) (c c' : β) (r : List (Key × β)) :
    lastKeyD lo (l ++ (ki, c') :: r) = lastKeyD lo (l ++ (ki, c) :: r) := by
  rw [lastKeyD_append, lastKeyD_append]; rfl

/-- in a sorted list all keys before a position are below the key at the position -/
theorem sortedFrom_prefix_lt {lo : Key} {l : List (Key × β)} {e : Key × β} {r : List (Key × β)}
    (h : SortedFrom lo (l ++ e :: r)) : (∀ x ∈ l, x.1 < e.1) ∧ lastKeyD lo l < e.1 := by
  rw [sortedFrom_append] at h
  have h1 := h.1.le_lastKeyD.2
  have h2 := h.2.1
  exact ⟨fun x hx => by have := h1 x hx; bv_omega, h2⟩

/-- inserting a key that is not above the last key of the first part stays in the first part -/
theorem ins_append_of_le_last {l : List (Key × β)} (hne : l ≠ []) {lo : Key} (hs : SortedFrom lo l) {k : Key}
    (hk : k ≤ lastKeyD lo l) (r : List (Key × β)) (v : β) : ins (l ++ r) k v = ins l k v ++ r := by
  induction l generalizing lo with
  | nil => exact absurd rfl hne
  | cons x rest ih =>
    simp only [List.cons_append, ins]
    by_cases h1 : k < x.1
    · simp [h1]
    · by_cases h2 : k = x.1
      · simp [h1, h2]
      · simp only [h1, h2, if_false, List.cons_append]
        cases rest with
        | nil => simp at hk; bv_omega
        | cons y r' =>
          rw [ih (by simp) hs.2 (by simpa using hk)]

end

/-! ## the parent's two `node.set` calls after a child split -/

theorem parent_sets {mk : Nat} (hmk : mk < 2 ^ 63) {lo : Key} (l : List (Key × Node)) (ki lm : Key)
    (left right : Node) (r : List (Key × Node))
    (hs : SortedFrom lo (l ++ (ki, left) :: r)) (h1 : lastKeyD lo l < lm) (h2 : lm < ki)
    (hlen : (l ++ (ki, left) :: r).length < mk) :
    nodeSet mk (l ++ (ki, left) :: r) lm left = some (l ++ (lm, left) :: (ki, left) :: r, 1) ∧
    nodeSet mk (l ++ (lm, left) :: (ki, left) :: r) ki right = some (l ++ (lm, left) :: (ki, right) :: r, 0) := by
  have hs' := sortedFrom_append.mp hs
  have hl_lt : ∀ x ∈ l, x.1 < lm := fun x hx => by
    have := hs'.1.le_lastKeyD.2 x hx; bv_omega
  have hlo : lo < lm := by have := hs'.1.le_lastKeyD.1; bv_omega
  have hr_gt : ∀ x ∈ r, ki < x.1 := hs'.2.2.all_gt
  constructor
  · have hno : hasKey (l ++ (ki, left) :: r) lm = false := by
      rw [hasKey_false_iff]
      intro x hx
      rcases List.mem_append.mp hx with hx | hx
      · have := hl_lt x hx; bv_omega
      · rcases List.mem_cons.mp hx with rfl | hx
        · simp; bv_omega
        · have := hr_gt x hx; bv_omega
    rw [nodeSet_eq_ins mk _ lm left lo hs hlo hmk (Or.inl hlen), hno, ins_append_of_lt hl_lt]
    simp [ins, h2]
  · have hs2 : SortedFrom lo (l ++ (lm, left) :: (ki, left) :: r) := by
      rw [sortedFrom_append]
      exact ⟨hs'.1, h1, h2, hs'.2.2⟩
    have hyes : hasKey (l ++ (lm, left) :: (ki, left) :: r) ki = true :=
      hasKey_iff.mpr ⟨(ki, left), by simp, rfl⟩
    have hl_lt' : ∀ x ∈ l, x.1 < ki := fun x hx => by have := hl_lt x hx; bv_omega
    have hloki : lo < ki := by bv_omega
    have hlen2 : (l ++ (lm, left) :: (ki, left) :: r).length ≤ mk := by
      simp at hlen ⊢; omega
    rw [nodeSet_eq_ins mk _ ki right lo hs2 hloki hmk (Or.inr ⟨hyes, hlen2⟩), hyes, ins_append_of_lt hl_lt']
    have n1 : ¬ ki < lm := by bv_omega
    have n2 : ¬ ki = lm := by bv_omega
    simp [ins, n1, n2]

/-! ## allocator facts -/

theorem bufAllocate_fault (a : Alloc) (n : Nat) : (bufAllocate a n).fault = a.fault := rfl

theorem newNode_fault (cfg : Cfg) (a : Alloc) : (newNode cfg a).2.fault = a.fault := by
  unfold newNode
  dsimp only
  split
  · split <;> rfl
  · dsimp only
    split
    · rw [bufAllocate_fault]
    · rfl

theorem bufAllocate_free (a : Alloc) (n : Nat) : (bufAllocate a n).free = a.free := rfl
theorem bufAllocate_nextPage (a : Alloc) (n : Nat) : (bufAllocate a n).nextPage = a.nextPage := rfl

/-- `newNode` hands out the head of the free list or the frontier page; nothing is lost. -/
theorem newNode_cons (cfg : Cfg) (a : Alloc) : Cons a (newNode cfg a).2 [] [(newNode cfg a).1] := by
  unfold newNode
  dsimp only
  by_cases hu : newNodeUseFree (w a.freeHead) = true
  · have hp : newNodePopFree (w a.freeHead) = true := hu
    simp only [hu, hp, if_true]
    cases hf : a.free with
    | nil =>
      unfold Alloc.freeHead at hu
      rw [hf] at hu
      exact absurd hu (by decide)
    | cons fp tl =>
      unfold Alloc.freeHead
      rw [hf]
      refine ⟨Nat.le_refl _, fun x => ?_, ?_⟩
      · simp [List.count_cons, hf]
        omega
      · simp [hf]; omega
  · simp only [hu, Bool.false_eq_true, if_false]
    refine ⟨?_, ?_, ?_⟩
    · split <;> simp [bufAllocate_nextPage]
    rotate_left
    · split <;> rfl
    · intro x
      have hnp : ∀ b : Alloc, b.nextPage = a.nextPage + 1 → b.free = a.free →
          List.count x [a.nextPage] + List.count x b.free =
            List.count x ([] : List Nat) + List.count x a.free +
              List.count x (List.range' a.nextPage (b.nextPage - a.nextPage)) := by
        intro b h1 h2
        rw [h1, h2]
        have : a.nextPage + 1 - a.nextPage = 1 := by omega
        rw [this]; simp [List.range']; omega
      split
      · exact hnp _ rfl rfl
      · exact hnp _ rfl rfl

theorem newNode_leafKeys (cfg : Cfg) (a : Alloc) : (newNode cfg a).2.leafKeys = a.leafKeys := by
  unfold newNode
  dsimp only
  split
  · split <;> rfl
  · dsimp only
    split <;> rfl

/-! ## leaves and the split of a full child -/

theorem okNode_of_len {mk b b' : Nat} {n : Node} {lo hi : Key} (h : okNode mk b n lo hi) (hb : n.len ≤ b') :
    okNode mk b' n lo hi := by
  cases n with
  | null => exact h
  | leaf p es => exact ⟨h.1, h.2.1, hb⟩
  | inner p es => exact ⟨h.1, h.2.1, hb⟩

theorem leafSet_spec {cfg : Cfg} (hc : CfgOk cfg) (p : Nat) (es : List (Key × Val)) (lo hi k : Key) (v : Val)
    (a : Alloc) (h : okNode cfg.maxKeys (cfg.maxKeys - 1) (.leaf p es) lo hi) (hk1 : lo < k) (hk2 : k ≤ hi)
    (ha : a.fault = none) :
    (leafSet cfg p es k v a).1 = .leaf p (ins es k v) ∧ (leafSet cfg p es k v a).2.fault = none ∧
      okNode cfg.maxKeys cfg.maxKeys (.leaf p (ins es k v)) lo hi ∧
      (leafSet cfg p es k v a).2.nextPage = a.nextPage ∧ (leafSet cfg p es k v a).2.free = a.free ∧
      (leafSet cfg p es k v a).2.pagesFree = a.pagesFree ∧
      (leafSet cfg p es k v a).2.leafKeys = a.leafKeys + (((ins es k v).length : Int) - es.length) ∧
      (leafSet cfg p es k v a).2.dataLen = a.dataLen ∧ (leafSet cfg p es k v a).2.curSz = a.curSz := by
  have hlen : es.length < cfg.maxKeys := by have := h.2.2; have := hc.ge4; omega
  unfold leafSet
  rw [nodeSet_eq_ins cfg.maxKeys es k v lo h.1 hk1 (by have := hc.lt; omega) (Or.inl hlen)]
  refine ⟨rfl, ha, ⟨ins_sorted h.1 hk1 v, ins_lastKeyIs h.2.1 h.1 hk2 v, ?_⟩, rfl, rfl, rfl, ?_, rfl, rfl⟩
  · rw [ins_length es k v lo h.1]; split <;> omega
  · simp only
    rw [ins_length es k v lo h.1]; split <;> simp <;> omega

section
variable {β : Type}
theorem split_sorted {lo hi : Key} {es : List (Key × β)} {mk : Nat} (hmk : 2 ≤ mk) (hl : es.length = mk)
    (hs : SortedFrom lo es) (hlast : LastKeyIs es hi) :
    SortedFrom lo (es.take (mk / 2)) ∧ LastKeyIs (es.take (mk / 2)) (lastKeyD 0#64 (es.take (mk / 2))) ∧
    SortedFrom (lastKeyD 0#64 (es.take (mk / 2))) (es.drop (mk / 2)) ∧ LastKeyIs (es.drop (mk / 2)) hi ∧
    lastKeyD lo (es.take (mk / 2)) = lastKeyD 0#64 (es.take (mk / 2)) := by
  obtain ⟨happ, hL, hR, _, _⟩ := split_lists es mk hmk hl
  have hs' : SortedFrom lo (es.take (mk / 2) ++ es.drop (mk / 2)) := by rw [happ]; exact hs
  rw [sortedFrom_append] at hs'
  have e1 := lastKeyD_of_ne_nil hL lo 0#64
  refine ⟨hs'.1, ⟨hL, rfl⟩, by rw [← e1]; exact hs'.2, ⟨hR, ?_⟩, e1⟩
  have := hlast.2
  rw [← happ, lastKeyD_append, lastKeyD_of_ne_nil hR _ 0#64] at this
  exact this
end

/-- what the caller's frame learns about the child after `Tree.set` returned and a full child
was split: `L` is the flattened content the child (pair) must have -/
def ChildPost (mk : Nat) (lo ki : Key) (L : List (Key × Val)) (c' : Node) (sp : Option Split) : Prop :=
  match sp with
  | none => okNode mk (mk - 1) c' lo ki ∧ toList c' = L
  | some s => s.ki = ki ∧ s.left = c' ∧ ∃ lm, okNode mk (mk - 1) s.left lo lm ∧ okNode mk (mk - 1) s.right lm ki ∧
      s.left.maxKey = lm ∧ s.right.maxKey = ki ∧ toList s.left ++ toList s.right = L

/-- the pages of the new right sibling, if the child was split -/
def spPids (sp : Option Split) : List Nat :=
  match sp with
  | none => []
  | some s => pids s.right

/-- the leaf keys of the new right sibling, if the child was split -/
def spCount (sp : Option Split) : Nat :=
  match sp with
  | none => 0
  | some s => countLeafKeys s.right

theorem afterChild_spec {cfg : Cfg} (hc : CfgOk cfg) (ki lo : Key) (c : Node) (a : Alloc)
    (h : okNode cfg.maxKeys cfg.maxKeys c lo ki) (ha : a.fault = none) :
    (afterChild cfg ki c a).2.1.fault = none ∧
      ChildPost cfg.maxKeys lo ki (toList c) (afterChild cfg ki c a).1 (afterChild cfg ki c a).2.2 ∧
      Cons a (afterChild cfg ki c a).2.1 (pids c)
        (pids (afterChild cfg ki c a).1 ++ spPids (afterChild cfg ki c a).2.2) ∧
      (afterChild cfg ki c a).2.1.leafKeys = a.leafKeys ∧
      countLeafKeys (afterChild cfg ki c a).1 + spCount (afterChild cfg ki c a).2.2 = countLeafKeys c ∧
      Geo cfg a (afterChild cfg ki c a).2.1 := by
  have hmk := hc.lt
  have hge := hc.ge4
  have hlen := okNode_len h
  unfold afterChild
  rw [Node.isFull_eq cfg c (by omega) (by omega)]
  by_cases hfull : c.len = cfg.maxKeys
  · simp only [hfull, decide_true, if_true]
    unfold splitNode
    have hf := newNode_fault cfg a
    have hN := newNode_cons cfg a
    have hlk := newNode_leafKeys cfg a
    cases c with
    | null => exact absurd h id
    | leaf q es =>
      have hl : es.length = cfg.maxKeys := hfull
      obtain ⟨happ, hL, hR, hlL, hlR⟩ := split_lists es cfg.maxKeys (by omega) hl
      obtain ⟨s1, s2, s3, s4, s5⟩ := split_sorted (by omega) hl h.1 h.2.1
      dsimp only
      rw [splitLeft_eq es (by omega), splitRight_eq es (by omega) hl]
      refine ⟨by rw [hf]; exact ha, ⟨rfl, rfl, lastKeyD 0#64 (es.take (cfg.maxKeys / 2)), ⟨s1, s2, hlL⟩, ⟨s3, s4, hlR⟩, ?_, ?_, happ⟩, ?_, ?_, ?_, newNode_geo cfg a⟩
      · exact maxKey_eq _ (by omega)
      · show maxKey (es.drop (cfg.maxKeys / 2)) = ki
        rw [maxKey_eq _ (by omega)]; exact s4.2
      · refine ⟨hN.1, fun x => ?_, hN.3⟩
        have := hN.2 x
        simp only [pids, spPids, List.count_append, List.count_cons, List.count_nil] at this ⊢
        omega
      · exact hlk
      · simp only [spCount]
        rw [countLeafKeys_leaf _ _ (by omega), countLeafKeys_leaf _ _ (by omega), countLeafKeys_leaf _ _ (by omega),
          ← List.length_append, happ]
    | inner q es =>
      have hl : es.length = cfg.maxKeys := hfull
      obtain ⟨happ, hL, hR, hlL, hlR⟩ := split_lists es cfg.maxKeys (by omega) hl
      obtain ⟨s1, s2, s3, s4, s5⟩ := split_sorted (by omega) hl (okEnts_sorted h.1) h.2.1
      have hoe : okEnts cfg.maxKeys (es.take (cfg.maxKeys / 2) ++ es.drop (cfg.maxKeys / 2)) lo := by
        rw [happ]; exact h.1
      rw [okEnts_append, s5] at hoe
      dsimp only
      rw [splitLeft_eq es (by omega), splitRight_eq es (by omega) hl]
      refine ⟨by rw [hf]; exact ha, ⟨rfl, rfl, lastKeyD 0#64 (es.take (cfg.maxKeys / 2)), ⟨hoe.1, s2, hlL⟩, ⟨hoe.2, s4, hlR⟩, ?_, ?_, ?_⟩, ?_, ?_, ?_, newNode_geo cfg a⟩
      · exact maxKey_eq _ (by omega)
      · show maxKey (es.drop (cfg.maxKeys / 2)) = ki
        rw [maxKey_eq _ (by omega)]; exact s4.2
      · show toListEnts _ ++ toListEnts _ = toListEnts es
        rw [← toListEnts_append, happ]
      · refine ⟨hN.1, fun x => ?_, hN.3⟩
        have := hN.2 x
        have hpe : pidsEnts es = pidsEnts (es.take (cfg.maxKeys / 2)) ++ pidsEnts (es.drop (cfg.maxKeys / 2)) := by
          rw [← pidsEnts_append, happ]
        simp only [pids, spPids, hpe, List.count_append, List.count_cons, List.count_nil] at this ⊢
        omega
      · exact hlk
      · simp only [spCount, countLeafKeys]
        rw [← countLeafKeysEnts_append, happ]
  · simp only [hfull, decide_false, Bool.false_eq_true, if_false]
    exact ⟨ha, ⟨okNode_of_len h (by omega), rfl⟩, ⟨Nat.le_refl _, fun x => by simp [spPids], rfl⟩, by first | rfl | trivial, by simp [spCount], Geo.same rfl rfl rfl⟩

/-! ## `Tree.set`, by mutual induction over the tree -/

theorem lastKeyD_lt_of_all_lt {β : Type} {l : List (Key × β)} {lo k : Key} (h : ∀ e ∈ l, e.1 < k) (hlo : lo < k) :
    lastKeyD lo l < k := by
  induction l generalizing lo with
  | nil => exact hlo
  | cons x rest ih =>
    exact ih (fun e he => h e (List.mem_cons_of_mem _ he)) (h x (List.mem_cons_self ..))

/-- flattening commutes with the insertion into the routed child -/
theorem ins_toListEnts {mk : Nat} {l : List (Key × Node)} {ki : Key} {c : Node} {r : List (Key × Node)}
    {lo k : Key} (v : Val) (h : okEnts mk (l ++ (ki, c) :: r) lo) (hl : ∀ e ∈ l, e.1 < k) (hlo : lo < k)
    (hk : k ≤ ki) :
    ins (toListEnts (l ++ (ki, c) :: r)) k v = toListEnts l ++ (ins (toList c) k v ++ toListEnts r) := by
  rw [okEnts_append] at h
  have hlk := lastKeyD_lt_of_all_lt hl hlo
  have hkeys : ∀ e ∈ toListEnts l, e.1 < k := fun e he => by
    have := okEnts_keys_le h.1 e he; bv_omega
  have ⟨hc1, hc2⟩ := okNode_toList mk c (mk - 1) (lastKeyD lo l) ki h.2.1
  rw [toListEnts_append, toListEnts, ins_append_of_lt hkeys,
    ins_append_of_le_last hc2.1 hc1 (by rw [lastKeyD_of_ne_nil hc2.1 _ 0#64, hc2.2]; exact hk)]

mutual
theorem setNode_spec {cfg : Cfg} (hc : CfgOk cfg) : ∀ (n : Node) (lo hi k : Key) (v : Val) (a : Alloc),
    okNode cfg.maxKeys (cfg.maxKeys - 1) n lo hi → lo < k → k ≤ hi → a.fault = none →
    (setNode cfg n k v a).2.fault = none ∧ okNode cfg.maxKeys cfg.maxKeys (setNode cfg n k v a).1 lo hi ∧
      toList (setNode cfg n k v a).1 = ins (toList n) k v ∧ (setNode cfg n k v a).1.pid = n.pid ∧
      (setNode cfg n k v a).1.isLeafC = n.isLeafC ∧
      Cons a (setNode cfg n k v a).2 (pids n) (pids (setNode cfg n k v a).1) ∧
      (setNode cfg n k v a).2.leafKeys - a.leafKeys =
        (countLeafKeys (setNode cfg n k v a).1 : Int) - countLeafKeys n ∧
      Geo cfg a (setNode cfg n k v a).2
  | .null, _, _, _, _, _, h, _, _, _ => absurd h id
  | .leaf p es, lo, hi, k, v, a, h, hk1, hk2, ha => by
    obtain ⟨e1, e2, e3, e4, e5, e6, e7, e8, e9⟩ := leafSet_spec hc p es lo hi k v a h hk1 hk2 ha
    rw [setNode]
    refine ⟨e2, by rw [e1]; exact e3, by rw [e1]; rfl, by rw [e1]; rfl, by rw [e1]; rfl, ?_, ?_, Geo.same e4 e8 e9⟩
    · rw [e1]; exact Cons.same e4 e5 e6 _
    · have hl1 : es.length < 2 ^ 32 := by have := h.2.2; have := hc.lt; omega
      have hl2 : (ins es k v).length < 2 ^ 32 := by have := e3.2.2; have := hc.lt; omega
      rw [e1, e7, countLeafKeys_leaf _ _ hl1, countLeafKeys_leaf _ _ hl2]; omega
  | .inner p es, lo, hi, k, v, a, h, hk1, hk2, ha => by
    have hmk := hc.lt
    have hge := hc.ge4
    have hs := okEnts_sorted h.1
    have hex : ∃ e ∈ es, k ≤ e.1 := by
      have hne : es ≠ [] := h.2.1.1
      have : ∃ e ∈ es, e.1 = hi := by
        have hl := h.2.1.2
        clear h hs
        generalize (0#64 : Key) = z at hl
        induction es generalizing z with
        | nil => exact absurd rfl hne
        | cons x rest ih =>
          cases rest with
          | nil => exact ⟨x, by simp, hl⟩
          | cons y r' =>
            obtain ⟨e, he, hee⟩ := ih (by simp) x.1 hl
            exact ⟨e, List.mem_cons_of_mem _ he, hee⟩
      obtain ⟨e, he, hee⟩ := this
      exact ⟨e, he, by rw [hee]; exact hk2⟩
    obtain ⟨l, ki, c, r, c', a1, sp, heq, hes, hf, hlt, hle, hpost, hcons, hlk, hgeo⟩ :=
      setEnts_spec hc es lo k v a h.1 hk1 hex ha
    -- the up-front panic test
    have hidx : setIdxPanic (w (search es k)) (w cfg.maxKeys) = false := by
      obtain ⟨l0, r0, he0, hl0, h10, h20⟩ := search_spec es k
      have hr0 : r0 ≠ [] := by
        intro e; subst e
        obtain ⟨x, hx, hxk⟩ := hex
        have := h10 x (by rw [he0] at hx; simpa using hx)
        bv_omega
      have : search es k < es.length := by
        rw [← hl0, he0]
        cases r0 with
        | nil => exact absurd rfl hr0
        | cons y r' => simp
      have hl := h.2.2
      unfold setIdxPanic
      rw [w_sle (by omega) (by omega)]; simp; omega
    subst hes
    have hoe := okEnts_append.mp h.1
    have hlen : (l ++ (ki, c) :: r).length ≤ cfg.maxKeys - 1 := h.2.2
    have hflat := ins_toListEnts v h.1 hlt hk1 hle
    have hlast : lastKeyD 0#64 (l ++ (ki, c) :: r) = hi := h.2.1.2
    rw [setNode]
    simp only [hidx, Bool.false_eq_true, if_false, heq]
    cases sp with
    | none =>
      obtain ⟨p1, p2⟩ := hpost
      refine ⟨hf, ⟨okEnts_append.mpr ⟨hoe.1, p1, hoe.2.2⟩, ⟨by simp, ?_⟩, ?_⟩, ?_, rfl, rfl, ?_, ?_, hgeo⟩
      · rw [lastKeyD_replace]; exact hlast
      · simp at hlen ⊢; omega
      · rw [toList, toList, hflat, toListEnts_append, toListEnts, p2]
      · refine ⟨hcons.1, fun x => ?_, hcons.3⟩
        have := hcons.2 x
        simp only [pids, pidsEnts_append, pidsEnts, spPids, List.count_append, List.count_cons,
          List.count_nil] at this ⊢
        omega
      · simp only [spCount] at hlk
        simp only [countLeafKeys, countLeafKeysEnts_append, countLeafKeysEnts]
        omega
    | some s =>
      obtain ⟨p1, p2, lm, p3, p4, p5, p6, p7⟩ := hpost
      subst p2
      have hs1 : SortedFrom lo (l ++ (ki, s.left) :: r) := sortedFrom_replace s.left hs
      have h1 := okNode_lo_lt_hi p3
      have h2 := okNode_lo_lt_hi p4
      have hlen1 : (l ++ (ki, s.left) :: r).length < cfg.maxKeys := by simp at hlen ⊢; omega
      obtain ⟨q1, q2⟩ := parent_sets (by omega) l ki lm s.left s.right r hs1 h1 h2 hlen1
      have hcond : (ki == s.ki && lm != s.ki && (0 : Nat) == 0) = true := by
        rw [p1]; simp; bv_omega
      simp only [p5, p6, q1, q2]
      simp only [hcond, if_true]
      refine ⟨hf, ⟨okEnts_append.mpr ⟨hoe.1, p3, p4, hoe.2.2⟩, ⟨by simp, ?_⟩, ?_⟩, ?_, rfl, rfl, ?_, ?_, hgeo⟩
      · rw [lastKeyD_append] at hlast ⊢; exact hlast
      · simp at hlen ⊢; omega
      · rw [toList, toList, hflat, toListEnts_append, toListEnts, toListEnts, ← p7]
        simp [List.append_assoc]
      · refine ⟨hcons.1, fun x => ?_, hcons.3⟩
        have := hcons.2 x
        simp only [pids, pidsEnts_append, pidsEnts, spPids, List.count_append, List.count_cons,
          List.count_nil] at this ⊢
        omega
      · simp only [spCount] at hlk
        simp only [countLeafKeys, countLeafKeysEnts_append, countLeafKeysEnts]
        omega
theorem setEnts_spec {cfg : Cfg} (hc : CfgOk cfg) : ∀ (es : List (Key × Node)) (lo k : Key) (v : Val) (a : Alloc),
    okEnts cfg.maxKeys es lo → lo < k → (∃ e ∈ es, k ≤ e.1) → a.fault = none →
    ∃ l ki c r c' a1 sp, setEnts cfg es k v a = (l ++ (ki, c') :: r, a1, sp) ∧ es = l ++ (ki, c) :: r ∧
      a1.fault = none ∧ (∀ e ∈ l, e.1 < k) ∧ k ≤ ki ∧
      ChildPost cfg.maxKeys (lastKeyD lo l) ki (ins (toList c) k v) c' sp ∧
      Cons a a1 (pids c) (pids c' ++ spPids sp) ∧
      a1.leafKeys - a.leafKeys = ((countLeafKeys c' + spCount sp : Nat) : Int) - countLeafKeys c ∧
      Geo cfg a a1
  | [], _, _, _, _, _, _, hex, _ => by obtain ⟨e, he, _⟩ := hex; cases he
  | (ki, c) :: rest, lo, k, v, a, h, hk1, hex, ha => by
    by_cases hhit : searchHit ki k = true
    · have hk : k ≤ ki := by simpa [searchHit, BitVec.ule_iff_le] using hhit
      have hloki := okNode_lo_lt_hi h.1
      have hslot : setSlotEmpty ki = false := by unfold setSlotEmpty; simp; bv_omega
      have hn := setNode_spec hc c lo ki k v a h.1 hk1 hk ha
      have hac := afterChild_spec hc ki lo (setNode cfg c k v a).1 (setNode cfg c k v a).2 hn.2.1 hn.1
      refine ⟨[], ki, c, rest, (afterChild cfg ki (setNode cfg c k v a).1 (setNode cfg c k v a).2).1,
        (afterChild cfg ki (setNode cfg c k v a).1 (setNode cfg c k v a).2).2.1,
        (afterChild cfg ki (setNode cfg c k v a).1 (setNode cfg c k v a).2).2.2, ?_, rfl, hac.1, by simp, hk, ?_,
        hn.2.2.2.2.2.1.trans hac.2.2.1, ?_, hn.2.2.2.2.2.2.2.trans hac.2.2.2.2.2⟩
      · cases c with
        | null => exact absurd h.1 id
        | leaf q es' => rw [setEnts.eq_def]; simp only [hhit, hslot, if_true, Bool.false_eq_true, if_false]; rfl
        | inner q es' => rw [setEnts.eq_def]; simp only [hhit, hslot, if_true, Bool.false_eq_true, if_false]; rfl
      · have := hac.2.1
        rw [hn.2.2.1] at this
        exact this
      · have h1 := hn.2.2.2.2.2.2.1
        have h2 := hac.2.2.2.1
        have h3 := hac.2.2.2.2.1
        omega
    · have hk : ki < k := by
        have : ¬ k ≤ ki := by
          intro hle; exact hhit (by simpa [searchHit, BitVec.ule_iff_le] using hle)
        bv_omega
      have hex' : ∃ e ∈ rest, k ≤ e.1 := by
        obtain ⟨e, he, hke⟩ := hex
        rcases List.mem_cons.mp he with rfl | he
        · exact absurd hke (by simp at hk ⊢; bv_omega)
        · exact ⟨e, he, hke⟩
      obtain ⟨l, ki', c0, r, c', a1, sp, heq, hes, hf, hlt, hle, hpost, hcons, hlk, hgeo⟩ :=
        setEnts_spec hc rest ki k v a h.2 hk hex' ha
      refine ⟨(ki, c) :: l, ki', c0, r, c', a1, sp, ?_, by rw [hes]; rfl, hf, ?_, hle, hpost, hcons, hlk, hgeo⟩
      · rw [setEnts.eq_def]; simp only [hhit, Bool.false_eq_true, if_false, heq]; rfl
      · intro e he
        rcases List.mem_cons.mp he with rfl | he
        · exact hk
        · exact hlt e he
end

/-! ## `Tree.Set` with the root split -/

theorem Cons.alloc {a0 a : Alloc} (cfg : Cfg) {X Y : List Nat} (h : Cons a0 a X Y) :
    Cons a0 (newNode cfg a).2 X ((newNode cfg a).1 :: Y) := by
  have hN := newNode_cons cfg a
  refine h.trans ⟨hN.1, fun x => ?_, hN.3⟩
  have := hN.2 x
  simp only [List.count_cons, List.count_nil] at this ⊢
  omega

/-- The ordering invariant of a whole tree (between operations). -/
structure TreeInv (cfg : Cfg) (t : Tree) : Prop where
  root_inner : t.root.isLeafC = false
  ok : okNode cfg.maxKeys (cfg.maxKeys - 1) t.root 0#64 absoluteMax
  nofault : t.a.fault = none

/-- the finite map a tree denotes: the value under `k`, 0 if absent (or a placeholder) -/
def abs (t : Tree) (k : Key) : Val := lookupD (toList t.root) k

theorem okNode_withPid {mk b : Nat} {n : Node} {lo hi : Key} (p : Nat) (h : okNode mk b n lo hi) :
    okNode mk b (n.withPid p) lo hi := by
  cases n with
  | null => exact h
  | leaf q es => exact h
  | inner q es => exact h

theorem toList_withPid (n : Node) (p : Nat) : toList (n.withPid p) = toList n := by
  cases n <;> simp [Node.withPid, toList]

theorem maxKey_withPid (n : Node) (p : Nat) : (n.withPid p).maxKey = n.maxKey := by
  cases n <;> rfl

theorem legal_key {k : Key} (h : setKeyPanic k = false) : 0#64 < k ∧ k ≤ absoluteMax := by
  unfold setKeyPanic at h
  simp at h
  unfold absoluteMax
  constructor <;> bv_omega

theorem set_spec {cfg : Cfg} (hc : CfgOk cfg) (t : Tree) (k : Key) (v : Val) (hinv : TreeInv cfg t)
    (hk : setKeyPanic k = false) :
    TreeInv cfg (set cfg t k v) ∧ toList (set cfg t k v).root = ins (toList t.root) k v ∧
      Cons t.a (set cfg t k v).a (pids t.root) (pids (set cfg t k v).root) ∧
      (set cfg t k v).a.leafKeys - t.a.leafKeys =
        (countLeafKeys (set cfg t k v).root : Int) - countLeafKeys t.root ∧
      (set cfg t k v).root.pid = t.root.pid ∧ Geo cfg t.a (set cfg t k v).a := by
  have hmk := hc.lt
  have hge := hc.ge4
  obtain ⟨hk1, hk2⟩ := legal_key hk
  obtain ⟨n1, n2, n3, n4, n5, n6, n7, n8⟩ := setNode_spec hc t.root 0#64 absoluteMax k v t.a hinv.ok hk1 hk2 hinv.nofault
  unfold set
  simp only [hk, Bool.false_eq_true, if_false]
  have hlen := okNode_len n2
  rw [Node.isFull_eq cfg _ (by omega) (by omega)]
  by_cases hfull : (setNode cfg t.root k v t.a).1.len = cfg.maxKeys
  · simp only [hfull, decide_true, if_true]
    -- the root is an inner node
    have hkind : (setNode cfg t.root k v t.a).1.isLeafC = false := by rw [n5]; exact hinv.root_inner
    generalize hr : setNode cfg t.root k v t.a = res at *
    obtain ⟨root, a⟩ := res
    simp only at n1 n2 n3 n4 n6 n7 n8 hfull hkind hlen ⊢
    cases root with
    | null => exact absurd n2 id
    | leaf q es => simp [Node.isLeafC] at hkind
    | inner rp es =>
      simp only
      have hl : es.length = cfg.maxKeys := hfull
      obtain ⟨happ, hL, hR, hlL, hlR⟩ := split_lists es cfg.maxKeys (by omega) hl
      obtain ⟨s1, s2, s3, s4, s5⟩ := split_sorted (by omega) hl (okEnts_sorted n2.1) n2.2.1
      have hoe : okEnts cfg.maxKeys (es.take (cfg.maxKeys / 2) ++ es.drop (cfg.maxKeys / 2)) 0#64 := by
        rw [happ]; exact n2.1
      rw [okEnts_append, s5] at hoe
      unfold splitNode
      simp only [Node.withPid]
      rw [splitLeft_eq es (by omega), splitRight_eq es (by omega) hl]
      generalize hlm : lastKeyD 0#64 (es.take (cfg.maxKeys / 2)) = lm at *
      have hokL : ∀ q, okNode cfg.maxKeys (cfg.maxKeys - 1) (.inner q (es.take (cfg.maxKeys / 2))) 0#64 lm :=
        fun q => ⟨hoe.1, s2, hlL⟩
      have hokR : ∀ q, okNode cfg.maxKeys (cfg.maxKeys - 1) (.inner q (es.drop (cfg.maxKeys / 2))) lm absoluteMax :=
        fun q => ⟨hoe.2, s4, hlR⟩
      have hlt1 := okNode_lo_lt_hi (hokL 0)
      have hlt2 := okNode_lo_lt_hi (hokR 0)
      have hmL : ∀ q, (Node.inner q (es.take (cfg.maxKeys / 2))).maxKey = lm := by
        intro q; show maxKey _ = lm; rw [maxKey_eq _ (by omega)]; exact hlm
      have hmR : ∀ q, (Node.inner q (es.drop (cfg.maxKeys / 2))).maxKey = absoluteMax := by
        intro q; show maxKey _ = absoluteMax; rw [maxKey_eq _ (by omega)]; exact s4.2
      simp only [hmL, hmR]
      -- the two root.set calls on the emptied root
      have e1 : ∀ (x : Node), nodeSet cfg.maxKeys ([] : List (Key × Node)) lm x = some ([(lm, x)], 1) := by
        intro x
        rw [nodeSet_eq_ins cfg.maxKeys [] lm x 0#64 trivial hlt1 (by omega) (Or.inl (by simp; omega))]
        simp [ins, hasKey]
      have e2 : ∀ (x y : Node), nodeSet cfg.maxKeys [(lm, x)] absoluteMax y = some ([(lm, x), (absoluteMax, y)], 1) := by
        intro x y
        have hs : SortedFrom 0#64 [(lm, x)] := ⟨hlt1, trivial⟩
        have hno : hasKey [(lm, x)] absoluteMax = false := by
          rw [hasKey_false_iff]; intro e he; simp at he; subst he; simp; bv_omega
        have n1' : ¬ absoluteMax < lm := by bv_omega
        have n2' : ¬ absoluteMax = lm := by bv_omega
        rw [nodeSet_eq_ins cfg.maxKeys _ absoluteMax y 0#64 hs (by bv_omega) (by omega) (Or.inl (by simp; omega)), hno]
        simp [ins, n1', n2']
      simp only [e1, e2]
      simp only [beq_self_eq_true, if_true]
      refine ⟨⟨rfl, ⟨⟨hokL _, hokR _, trivial⟩, ⟨by simp, rfl⟩, by simp; omega⟩, ?_⟩, ?_, ?_, ?_, n4, (n8.trans (newNode_geo cfg a)).trans (newNode_geo cfg _)⟩
      · rw [newNode_fault, newNode_fault]; exact n1
      · rw [← n3, toList, toList, toListEnts, toListEnts, toListEnts, toList, toList, List.append_nil,
          ← toListEnts_append, happ]
      · have h2 := (n6.alloc cfg).alloc cfg
        refine ⟨h2.1, fun x => ?_, h2.3⟩
        have := h2.2 x
        have hpe : pidsEnts es = pidsEnts (es.take (cfg.maxKeys / 2)) ++ pidsEnts (es.drop (cfg.maxKeys / 2)) := by
          rw [← pidsEnts_append, happ]
        simp only [pids, pidsEnts, hpe, List.count_append, List.count_cons, List.count_nil] at this ⊢
        omega
      · rw [newNode_leafKeys, newNode_leafKeys]
        have hce : countLeafKeysEnts es =
            countLeafKeysEnts (es.take (cfg.maxKeys / 2)) + countLeafKeysEnts (es.drop (cfg.maxKeys / 2)) := by
          rw [← countLeafKeysEnts_append, happ]
        simp only [countLeafKeys, countLeafKeysEnts, hce] at n7 ⊢
        omega
  · simp only [hfull, decide_false, Bool.false_eq_true, if_false]
    have hl2 : (setNode cfg t.root k v t.a).1.len ≤ cfg.maxKeys - 1 := by omega
    exact ⟨⟨by rw [n5]; exact hinv.root_inner, okNode_of_len n2 hl2, n1⟩, n3, n6, n7, n4, n8⟩

end RV.Tree
