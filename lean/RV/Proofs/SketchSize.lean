import RV.Proofs.SketchEst
import RV.Proofs.Next2Power
/-! `newCmSketch` sizes the table to the next power of two and yields a well-formed sketch. -/
namespace RV.Sketch
open Gen.Sketch

theorem rowLen_toNat (n : BitVec 64) (h : n.toNat < 2 ^ 63) : (rowLen n).toNat = n.toNat / 2 := by
  unfold rowLen
  have h1 : n.msb = false := by rw [BitVec.msb_eq_decide]; simp; omega
  have h2 : (2#64).msb = false := by decide
  rw [BitVec.sdiv_eq, h1, h2]
  simp [BitVec.toNat_udiv]

/-- `newCmSketch(numCounters)`: the table is sized to the next power of two -/
theorem new_size (n : BitVec 64) (seed : Array (BitVec 64)) (h1 : 2 ≤ n.toNat) (h2 : n.toNat ≤ 2 ^ 62) :
    ∃ e, 1 ≤ e ∧ e ≤ 62 ∧ n.toNat ≤ 2 ^ e ∧ 2 ^ e < 2 * n.toNat ∧
      (RV.Sketch.new n seed).mask.toNat = 2 ^ e - 1 ∧
      (RV.Sketch.new n seed).rows.length = cmDepth.toNat ∧
      ∀ r ∈ (RV.Sketch.new n seed).rows, 2 * r.size = 2 ^ e := by
  obtain ⟨e, he, hp, hge, hlt⟩ := next2Power_spec n (by omega) h2
  have he1 : 1 ≤ e := by
    rcases Nat.eq_zero_or_pos e with h | h
    · subst h; simp at hge; omega
    · exact h
  have hlt64 : 2 ^ e < 2 ^ 63 := Nat.pow_lt_pow_right (by omega) (by omega)
  refine ⟨e, he1, he, hge, hlt, ?_, ?_, ?_⟩
  · simp only [RV.Sketch.new, sketchMask]
    rw [BitVec.toNat_sub, hp]; simp; omega
  · simp [RV.Sketch.new]
  · intro r hr
    simp only [RV.Sketch.new, List.mem_replicate] at hr
    rw [hr.2, Array.size_replicate, rowLen_toNat _ (by omega), hp]
    obtain ⟨d, rfl⟩ : ∃ d, e = d + 1 := ⟨e - 1, by omega⟩
    rw [Nat.pow_succ]; omega

theorem new_wf (n : BitVec 64) (seed : Array (BitVec 64)) (hs : seed.size = cmDepth.toNat)
    (h1 : 2 ≤ n.toNat) (h2 : n.toNat ≤ 2 ^ 62) : WF (RV.Sketch.new n seed) := by
  obtain ⟨e, he1, he, _, _, hm, hl, hr⟩ := new_size n seed h1 h2
  refine ⟨hl, hs, fun r hrr => ?_⟩
  have := hr r hrr
  have : 2 ^ e < 2 ^ 63 := Nat.pow_lt_pow_right (by omega) (by omega)
  have : 0 < 2 ^ e := Nat.two_pow_pos e
  rw [hm]; omega
end RV.Sketch
