import RV.Model.Alloc
/-!
Allocator (C12): normal forms of the generated kernels on the values the model
feeds them, and inversion lemmas for `step` (one per action).
-/
namespace RV.Alloc
open Gen.Alloc

/-! ## generated kernels -/

theorem parse_fst (x : W) : (parse x).1.toNat = x.toNat / 4294967296 := by
  simp [parse, BitVec.toNat_ushiftRight, Nat.shiftRight_eq_div_pow]

theorem parse_snd (x : W) : (parse x).2.toNat = x.toNat % 4294967296 := by
  have : (4294967295#64 : W) = BitVec.ofNat 64 (2^32 - 1) := by decide
  simp only [parse, this, BitVec.toNat_and, BitVec.toNat_ofNat]
  have h : (2^32 - 1) % 2^64 = 2^32 - 1 := by decide
  rw [h, Nat.and_two_pow_sub_one_eq_mod]

theorem size_bufOfLen (n : Nat) : (bufOfLen n).size = n := by simp [bufOfLen]

theorem slt_small (a b : W) (ha : a.toNat < 2^63) (hb : b.toNat < 2^63) :
    BitVec.slt a b = decide (a.toNat < b.toNat) := by
  simp only [BitVec.slt, BitVec.toInt]
  have : ¬ (2 * a.toNat ≥ 2^64) := by omega
  have : ¬ (2 * b.toNat ≥ 2^64) := by omega
  simp [*]
  omega

theorem sle_small (a b : W) (ha : a.toNat < 2^63) (hb : b.toNat < 2^63) :
    BitVec.sle a b = decide (a.toNat ≤ b.toNat) := by
  simp only [BitVec.sle, BitVec.toInt]
  have : ¬ (2 * a.toNat ≥ 2^64) := by omega
  have : ¬ (2 * b.toNat ≥ 2^64) := by omega
  simp [*]
  omega

theorem beyond_eq (p : W) (n : Nat) :
    allocBeyond p (bufOfLen n) = BitVec.slt (BitVec.ofNat 64 n) p := by
  simp [allocBeyond, size_bufOfLen]

/-- `posIdx > len(buf)` on an offset `< 2^63` and a length `< 2^63`. -/
theorem beyond_iff (p : W) (n : Nat) (hp : p.toNat < 2^63) (hn : n < 2^63) :
    allocBeyond p (bufOfLen n) = decide (n < p.toNat) := by
  rw [beyond_eq, slt_small _ _ (by simp; omega) hp]
  simp only [BitVec.toNat_ofNat]
  have : n % 2^64 = n := by omega
  rw [this]

theorem moved_false {a b : W} (h : allocMoved a b = false) : a = b := by
  simpa [allocMoved] using h

theorem addend_eq (sz : W) : allocAddend sz = sz := rfl

theorem sliceLo_toNat (p sz : W) (h : sz.toNat ≤ p.toNat) :
    (allocSliceLo p sz).toNat = p.toNat - sz.toNat := by
  simp only [allocSliceLo, BitVec.toNat_sub]
  omega

theorem store_parse (b : W) (hb : b.toNat + 1 < 4294967296) :
    (parse (allocStore b)).1.toNat = b.toNat + 1 ∧ (parse (allocStore b)).2.toNat = 0 := by
  have h1 : (allocStore b).toNat = (b.toNat + 1) * 4294967296 := by
    simp only [allocStore, BitVec.toNat_shiftLeft, BitVec.toNat_add, Nat.shiftLeft_eq]
    have : (1#64 : W).toNat = 1 := rfl
    rw [this]
    omega
  rw [parse_fst, parse_snd, h1]
  omega

theorem nextIdx_toNat (b : W) (hb : b.toNat + 1 < 2^64) : (allocNextIdx b).toNat = b.toNat + 1 := by
  simp only [allocNextIdx, BitVec.toNat_add]
  have : (1#64 : W).toNat = 1 := rfl
  rw [this]; omega

theorem zero_false {n : W} (h : allocZero n = false) : 0 < n.toNat := by
  simp only [allocZero, beq_eq_false_iff_ne, ne_eq] at h
  have : n.toNat ≠ 0 := fun h0 => h (BitVec.eq_of_toNat_eq (by simpa using h0))
  omega

/-! ## `step`, action by action -/

theorem step_add {s s' : State} {t : Nat} (h : step s (.add t) = some s') :
    ∃ th sz, s.threads[t]? = some th ∧ th.pc = .toAdd sz ∧
      s' = { s with compIdx := s.compIdx + allocAddend sz,
                    threads := s.threads.set t { th with pc := .added sz (s.compIdx + allocAddend sz) } } := by
  simp only [step] at h
  split at h
  · rename_i th hth
    split at h
    · rename_i sz hpc
      refine ⟨th, sz, hth, hpc, ?_⟩
      simp only [Option.some.injEq, setThread] at h
      exact h.symm
    · exact absurd h (by simp)
  · exact absurd h (by simp)

theorem step_check {s s' : State} {t : Nat} (h : step s (.check t) = some s') :
    ∃ th sz pos, s.threads[t]? = some th ∧ th.pc = .added sz pos ∧
      ((∃ b, checkPos s.chunks sz pos = .beyond b ∧
          s' = { s with threads := s.threads.set t { th with pc := .needGrow sz b } }) ∨
       (checkPos s.chunks sz pos = .panic ∧
          s' = { s with threads := s.threads.set t { th with pc := .panicked .bounds } }) ∨
       (∃ r, checkPos s.chunks sz pos = .slice r ∧
          s' = { s with threads := s.threads.set t {},
                        grants := ⟨t, th.op, r⟩ :: s.grants })) := by
  simp only [step] at h
  split at h
  · rename_i th hth
    split at h
    · rename_i sz pos hpc
      refine ⟨th, sz, pos, hth, hpc, ?_⟩
      split at h
      · rename_i b hb
        simp only [Option.some.injEq, setThread] at h
        exact Or.inl ⟨b, hb, h.symm⟩
      · rename_i hb
        simp only [Option.some.injEq, setThread] at h
        exact Or.inr (Or.inl ⟨hb, h.symm⟩)
      · rename_i r hb
        simp only [Option.some.injEq, setThread] at h
        exact Or.inr (Or.inr ⟨r, hb, h.symm⟩)
    · exact absurd h (by simp)
  · exact absurd h (by simp)

theorem step_grow {s s' : State} {t : Nat} (h : step s (.grow t) = some s') :
    s.lockHeld = false ∧
    ∃ th sz b, s.threads[t]? = some th ∧ th.pc = .needGrow sz b ∧
      ((allocMoved (bi s) b = true ∧
          s' = { s with threads := s.threads.set t { th with pc := .toAdd sz } }) ∨
       (allocMoved (bi s) b = false ∧ addBufferAt s.chunks (allocNextIdx b) sz = .outOfSlots ∧
          s' = { s with threads := s.threads.set t { th with pc := .panicked .outOfSlots }, lockHeld := true }) ∨
       (allocMoved (bi s) b = false ∧ addBufferAt s.chunks (allocNextIdx b) sz = .hang ∧
          s' = { s with threads := s.threads.set t { th with pc := .hung }, lockHeld := true }) ∨
       (∃ cs, allocMoved (bi s) b = false ∧ addBufferAt s.chunks (allocNextIdx b) sz = .ok cs ∧
          s' = { s with threads := s.threads.set t { th with pc := .toAdd sz }, chunks := cs,
                        compIdx := allocStore b })) := by
  simp only [step] at h
  split at h
  · exact absurd h (by simp)
  · rename_i hl
    refine ⟨by simpa using hl, ?_⟩
    split at h
    · rename_i th hth
      split at h
      · rename_i sz b hpc
        refine ⟨th, sz, b, hth, hpc, ?_⟩
        split at h
        · rename_i hm
          simp only [Option.some.injEq, setThread] at h
          exact Or.inl ⟨hm, h.symm⟩
        · rename_i hm
          have hm' : allocMoved (bi s) b = false := by simpa using hm
          split at h
          · rename_i hg
            simp only [Option.some.injEq, setThread] at h
            exact Or.inr (Or.inl ⟨hm', hg, h.symm⟩)
          · rename_i hg
            simp only [Option.some.injEq, setThread] at h
            exact Or.inr (Or.inr (Or.inl ⟨hm', hg, h.symm⟩))
          · rename_i cs hg
            simp only [Option.some.injEq, setThread] at h
            exact Or.inr (Or.inr (Or.inr ⟨cs, hm', hg, h.symm⟩))
      · exact absurd h (by simp)
    · exact absurd h (by simp)

theorem step_start {s s' : State} {t : Nat} {op : Op} (h : step s (.start t op) = some s') :
    ∃ th, s.threads[t]? = some th ∧ th.pc = .idle ∧
      ((allocTooBig op.inner = true ∧ s' = s) ∨
       (allocTooBig op.inner = false ∧ allocZero op.inner = true ∧ s' = s) ∨
       (allocTooBig op.inner = false ∧ allocZero op.inner = false ∧
          s' = { s with threads := s.threads.set t { pc := .toAdd op.inner, op := op } })) := by
  simp only [step] at h
  split at h
  · rename_i th hth
    split at h
    · rename_i hpc
      refine ⟨th, hth, hpc, ?_⟩
      split at h
      · rename_i hb
        simp only [Option.some.injEq] at h
        exact Or.inl ⟨hb, h.symm⟩
      · rename_i hb
        have hb' : allocTooBig op.inner = false := by simpa using hb
        split at h
        · rename_i hz
          simp only [Option.some.injEq] at h
          exact Or.inr (Or.inl ⟨hb', hz, h.symm⟩)
        · rename_i hz
          have hz' : allocZero op.inner = false := by simpa using hz
          simp only [Option.some.injEq, setThread] at h
          exact Or.inr (Or.inr ⟨hb', hz', h.symm⟩)
    · exact absurd h (by simp)
  · exact absurd h (by simp)

theorem step_reset {s s' : State} (h : step s .reset = some s') :
    allIdle s = true ∧ s' = { s with compIdx := 0#64, grants := [] } := by
  simp only [step] at h
  split at h
  · rename_i hi
    simp only [Option.some.injEq] at h
    exact ⟨hi, h.symm⟩
  · exact absurd h (by simp)

theorem step_trim {s s' : State} {max : W} (h : step s (.trim max) = some s') :
    allIdle s = true ∧ s' = { s with chunks := trimTo max s.chunks,
                                     grants := s.grants.filter (fun g => chunkLen (trimTo max s.chunks) g.reg.chunk != 0) } := by
  simp only [step] at h
  split at h
  · rename_i hi
    simp only [Option.some.injEq] at h
    exact ⟨hi, h.symm⟩
  · exact absurd h (by simp)

/-! ## chunk table, `addBufferAt`, `TrimTo` -/

theorem chunkLen_lt {cs : List Nat} {n : Nat} (h : ∀ c ∈ cs, c < n) (hn : 0 < n) (i : Nat) : chunkLen cs i < n := by
  unfold chunkLen
  rw [List.getD_eq_getElem?_getD]
  cases hi : cs[i]? with
  | none => simpa using hn
  | some c => simpa using h c (List.mem_of_getElem? hi)

theorem chunkLen_set (cs : List Nat) (k v j : Nat) :
    chunkLen (cs.set k v) j = if j = k ∧ k < cs.length then v else chunkLen cs j := by
  unfold chunkLen
  rw [List.getD_eq_getElem?_getD, List.getD_eq_getElem?_getD, List.getElem?_set]
  by_cases hjk : k = j
  · subst hjk
    by_cases hk : k < cs.length <;> simp [hk]
  · have : ¬ (j = k ∧ k < cs.length) := fun h => hjk h.1.symm
    simp [hjk, this]

theorem not_slt_pos {p m : W} (h : BitVec.slt p m = false) (hm0 : 0 < m.toNat) (hm : m.toNat < 2^63) :
    p.toNat < 2^63 ∧ m.toNat ≤ p.toNat := by
  simp only [BitVec.slt, BitVec.toInt, decide_eq_false_iff_not] at h
  have hp := p.isLt
  split at h <;> split at h <;> omega

theorem doubleUntil_some {m : W} {f : Nat} {p0 p : W} (h : doubleUntil m f p0 = some p) :
    growTooSmall p m = false := by
  induction f generalizing p0 with
  | zero =>
    simp only [doubleUntil] at h
    split at h
    · exact absurd h (by simp)
    · rename_i hc; simp only [Option.some.injEq] at h; subst h; simpa using hc
  | succ f ih =>
    simp only [doubleUntil] at h
    split at h
    · exact ih h
    · rename_i hc; simp only [Option.some.injEq] at h; subst h; simpa using hc

theorem pageSizeFor_some {prev : Nat} {m p : W} (h : pageSizeFor prev m = some p)
    (hm0 : 0 < m.toNat) (hm : m.toNat < 2^63) : p.toNat < 2^63 ∧ 0 < p.toNat := by
  simp only [pageSizeFor] at h
  split at h
  · exact absurd h (by simp)
  · rename_i q hq
    simp only [Option.some.injEq] at h
    have h1 := not_slt_pos (doubleUntil_some hq) hm0 hm
    split at h
    · subst h; simp [maxAlloc]
    · subst h; omega

theorem slotEmpty_iff (n : Nat) (hn : n < 2^63) : growSlotEmpty (bufOfLen n) = decide (n = 0) := by
  simp only [growSlotEmpty, size_bufOfLen]
  by_cases h : n = 0
  · subst h; simp
  · have : ¬ (BitVec.ofNat 64 n = 0#64) := by
      intro e
      have := congrArg BitVec.toNat e
      simp only [BitVec.toNat_ofNat] at this
      omega
    simp [h, this]

theorem outOfSlots_iff (i : W) (n : Nat) (hi : i.toNat < 2^63) (hn : n < 2^63) :
    growOutOfSlots i (BitVec.ofNat 64 n) = decide (n ≤ i.toNat) := by
  simp only [growOutOfSlots]
  rw [sle_small _ _ (by simp; omega) hi]
  simp only [BitVec.toNat_ofNat]
  have : n % 2^64 = n := by omega
  rw [this]

theorem findSlot_allocAt {cs : List Nat} {m : W} {f : Nat} {i idx : W}
    (h : findSlot cs m f i = .allocAt idx) (hlt : ∀ c ∈ cs, c < 2^63) :
    chunkLen cs idx.toNat = 0 := by
  induction f generalizing i with
  | zero => simp [findSlot] at h
  | succ f ih =>
    simp only [findSlot] at h
    split at h
    · exact absurd h (by simp)
    · split at h
      · rename_i he
        simp only [Slot.allocAt.injEq] at h
        subst h
        rw [slotEmpty_iff _ (chunkLen_lt hlt (by decide) _)] at he
        simpa using he
      · split at h
        · exact absurd h (by simp)
        · exact ih h

theorem findSlot_first {cs : List Nat} {m : W} {f : Nat} {i : W}
    (h : findSlot cs m (f + 1) i ≠ .outOfSlots) :
    growOutOfSlots i (BitVec.ofNat 64 cs.length) = false := by
  simp only [findSlot] at h
  split at h
  · exact absurd rfl h
  · rename_i hc; simpa using hc

theorem addBufferAt_ok {cs cs' : List Nat} {i m : W} (h : addBufferAt cs i m = .ok cs')
    (hlt : ∀ c ∈ cs, c < 2^63) (hlen : cs.length < 2^31) (hi : i.toNat < 2^63)
    (hm0 : 0 < m.toNat) (hm : m.toNat < 2^63) :
    cs'.length = cs.length ∧ i.toNat < cs.length ∧
    (∀ j, chunkLen cs j ≠ 0 → chunkLen cs' j = chunkLen cs j) ∧ (∀ c ∈ cs', c < 2^63) := by
  simp only [addBufferAt] at h
  have hfirst : findSlot cs m (cs.length + 1) i ≠ .outOfSlots → i.toNat < cs.length := by
    intro hne
    have := findSlot_first hne
    rw [outOfSlots_iff _ _ hi (by omega)] at this
    simpa using this
  split at h
  · exact absurd h (by simp)
  · rename_i hf
    simp only [GrowRes.ok.injEq] at h
    subst h
    exact ⟨rfl, hfirst (by rw [hf]; simp), fun _ _ => rfl, hlt⟩
  · rename_i idx hf
    split at h
    · exact absurd h (by simp)
    · rename_i p hp
      simp only [GrowRes.ok.injEq] at h
      subst h
      have hz := findSlot_allocAt hf hlt
      have hpp := pageSizeFor_some hp hm0 hm
      refine ⟨by simp, hfirst (by rw [hf]; simp), ?_, ?_⟩
      · intro j hj
        rw [chunkLen_set]
        split
        · rename_i hjk; rw [hjk.1] at hj; exact absurd hz hj
        · rfl
      · intro c hc
        rcases List.mem_or_eq_of_mem_set hc with h1 | h1
        · exact hlt c h1
        · omega

theorem trimFrom_length (mx : W) (cs : List Nat) (a : W) : (trimFrom mx cs a).length = cs.length := by
  induction cs generalizing a with
  | nil => simp [trimFrom]
  | cons c cs ih =>
    simp only [trimFrom]
    split
    · rfl
    · split <;> simp [ih]

theorem trimFrom_mem {mx : W} {cs : List Nat} {a : W} {c : Nat} (h : c ∈ trimFrom mx cs a) : c = 0 ∨ c ∈ cs := by
  induction cs generalizing a with
  | nil => simp [trimFrom] at h
  | cons d cs ih =>
    simp only [trimFrom] at h
    split at h
    · exact Or.inr h
    · split at h
      · rcases List.mem_cons.mp h with h1 | h1
        · exact Or.inr (by simp [h1])
        · rcases ih h1 with h2 | h2
          · exact Or.inl h2
          · exact Or.inr (List.mem_cons_of_mem _ h2)
      · rcases List.mem_cons.mp h with h1 | h1
        · exact Or.inl h1
        · rcases ih h1 with h2 | h2
          · exact Or.inl h2
          · exact Or.inr (List.mem_cons_of_mem _ h2)

theorem chunkLen_cons_zero (c : Nat) (cs : List Nat) : chunkLen (c :: cs) 0 = c := by simp [chunkLen]
theorem chunkLen_cons_succ (c : Nat) (cs : List Nat) (j : Nat) : chunkLen (c :: cs) (j + 1) = chunkLen cs j := by
  simp [chunkLen]

theorem trimFrom_get (mx : W) (cs : List Nat) (a : W) (j : Nat) :
    chunkLen (trimFrom mx cs a) j = chunkLen cs j ∨ chunkLen (trimFrom mx cs a) j = 0 := by
  induction cs generalizing a j with
  | nil => simp [trimFrom]
  | cons d cs ih =>
    simp only [trimFrom]
    split
    · exact Or.inl rfl
    · split
      · cases j with
        | zero => simp [chunkLen_cons_zero]
        | succ j => simp only [chunkLen_cons_succ]; exact ih _ j
      · cases j with
        | zero => simp [chunkLen_cons_zero]
        | succ j => simp only [chunkLen_cons_succ]; exact ih _ j

end RV.Alloc
