import RV.Proofs.CacheProvDefs
/-!
# Provenance invariant of the Cache model (C01; used by C02/C04)

`Prov w`: every value anywhere in the view — store entries, buffered / blocked items, items and
(hash, conflict, value) triples held by the applier or by a client, entries and values a
`Get`/`GetTTL` has read, and the values of logged returns and callbacks — was supplied by a logged
`setCall` with the same hash, conflict and value.  `prov_reach`: it holds in every reachable state.
-/
namespace RV.Cache
open Gen.Cache

structure Prov (w : View) : Prop where
  store : ∀ h e, w.store.lookup h = some e → Src w.log h e.conflict e.value
  buf : ∀ x ∈ w.buf, ElemOk w.log x
  sendq : ∀ p ∈ w.sendq, ElemOk w.log p.2
  app : APcOk w.log w.app
  cl : ∀ t, CPcOk w.log (w.cl t)
  log : LogOk w.log

theorem CPcOk_unblocked {log : List Ev} (pc : CPc) : CPcOk log (unblockedPc pc) ↔ CPcOk log pc := by
  cases pc <;> simp [unblockedPc, CPcOk]

/-- the general preservation lemma: every component of the new view is either inherited from the
old view or justified directly in the new log -/
theorem prov_upd {w w' : View} (p : Prov w) (l : List Ev) (hlog : w'.log = l ++ w.log)
    (hl : ∀ e ∈ l, EvOk w.log e)
    (hstore : ∀ h e, w'.store.lookup h = some e → w.store.lookup h = some e ∨ Src w'.log h e.conflict e.value)
    (hbuf : ∀ x ∈ w'.buf, x ∈ w.buf ∨ (∃ p ∈ w.sendq, p.2 = x) ∨ ElemOk w'.log x)
    (hsendq : ∀ p ∈ w'.sendq, p ∈ w.sendq ∨ ElemOk w'.log p.2)
    (happ : w'.app = w.app ∨ APcOk w'.log w'.app)
    (hcl : ∀ t, w'.cl t = w.cl t ∨ w'.cl t = unblockedPc (w.cl t) ∨ CPcOk w'.log (w'.cl t)) : Prov w' := by
  have hsub : w.log ⊆ w'.log := by rw [hlog]; exact List.subset_append_right _ _
  constructor
  · intro h e he
    rcases hstore h e he with h1 | h1
    · exact (p.store h e h1).mono hsub
    · exact h1
  · intro x hx
    rcases hbuf x hx with h1 | ⟨q, hq, rfl⟩ | h1
    · exact (p.buf x h1).mono hsub
    · exact (p.sendq q hq).mono hsub
    · exact h1
  · intro q hq
    rcases hsendq q hq with h1 | h1
    · exact (p.sendq q h1).mono hsub
    · exact h1
  · rcases happ with h1 | h1
    · rw [h1]; exact p.app.mono hsub
    · exact h1
  · intro t
    rcases hcl t with h1 | h1 | h1
    · rw [h1]; exact (p.cl t).mono hsub
    · rw [h1, CPcOk_unblocked]; exact (p.cl t).mono hsub
    · exact h1
  · rw [hlog]; exact logOk_append p.log hl

theorem getResult_some {c : Conf} {e : Option Entry} {now : Time} {v : Val} (h : getResult c e now = some v) :
    ∃ e', e = some e' ∧ v = e'.value ∧ (c = 0#64 ∨ c = e'.conflict) := by
  unfold getResult at h
  split at h
  · simp at h
  · rename_i e'
    split at h
    · simp at h
    · rename_i hm
      split at h
      · simp at h
      · simp only [Option.some.injEq] at h
        exact ⟨e', rfl, h.symm, mismatch_false (by simpa [getConflictMismatch] using hm)⟩

theorem Src.head {log : List Ev} {t h c v cost ttl} : Src (Ev.setCall t h c v cost ttl :: log) h c v :=
  ⟨t, cost, ttl, by simp⟩
theorem Src.vsrc {log : List Ev} {h c v} (hs : Src log h c v) : VSrc log v := Or.inr ⟨h, c, hs⟩
theorem ItemOk.vsrc {log : List Ev} {i : Item} (hs : ItemOk log i) : VSrc log i.value := by
  rcases hs with ⟨_, h0⟩ | hs
  · exact Or.inl h0
  · exact hs.vsrc

theorem cmove_ok {w : View} {t : Tid} {pc pc' : CPc} {l : List Ev} (p : Prov w) (hpc : w.cl t = pc)
    (hm : CMove w t pc pc' l) : CPcOk (l ++ w.log) pc' ∧ ∀ e ∈ l, EvOk w.log e := by
  have h0 : CPcOk w.log pc := hpc ▸ p.cl t
  cases hm <;> simp only [CPcOk, EvOk, List.nil_append, List.cons_append, List.mem_cons, List.not_mem_nil,
    or_false, forall_eq_or_imp, forall_eq, and_true, true_and, implies_true, reduceCtorEq, false_implies] at h0 ⊢
  case spSet => exact Src.head
  case setStartFail => exact h0.vsrc
  case setStartOk => exact h0.mono (List.subset_cons_self _ _)
  case setUpdNo => exact h0
  case setExit => exact ⟨h0.1.mono (List.subset_cons_self _ _), h0.2⟩
  case setSendFull => exact h0
  case setRetTrue => exact h0.vsrc
  case setRetDropUpd => exact h0.vsrc
  case setRetDropNew => exact ⟨h0.vsrc, h0.vsrc⟩
  case delNo => exact Or.inl rfl
  case delExit => exact h0
  case getRead => exact fun e' he => p.store _ e' he
  case getCheck =>
    intro v hv
    obtain ⟨e', he, rfl, hc⟩ := getResult_some hv
    exact ⟨e'.conflict, h0 e' he, hc⟩
  case getMetric => exact h0
  case ttlRead => exact fun e' he => p.store _ e' he
  case ttlCheckSome hv =>
    obtain ⟨e', he, rfl, hc⟩ := getResult_some hv
    exact ⟨e'.conflict, e'.value, h0 e' he, hc⟩
  case ttlExpNone => exact fun _ => h0
  case ttlExp => exact h0
  case ttlNow => exact h0
  case ttlUntil => exact fun _ => h0

theorem APcOk_afterVictims (log : List Ev) (vs : List (Hash × Int)) : APcOk log (afterVictims vs) := by
  unfold afterVictims; split <;> trivial

theorem ValSrc.vsrc {log : List Ev} {h c v} (hs : ValSrc log h c v) : VSrc log v := by
  obtain ⟨cw, hs, _⟩ := hs; exact hs.vsrc

theorem amove_ok {log : List Ev} {pc pc' : APc} {l : List Ev} (h0 : APcOk log pc)
    (hm : AMove pc pc' l) : APcOk (l ++ log) pc' ∧ ∀ e ∈ l, EvOk log e := by
  cases hm <;> simp only [APcOk, EvOk, List.nil_append, List.cons_append, List.mem_cons, List.not_mem_nil,
    or_false, forall_eq_or_imp, forall_eq, and_true, true_and, implies_true, false_implies] at h0 ⊢
  case item => exact h0
  case costedNew hf =>
    rcases h0 with ⟨hd, _⟩ | h0
    · rw [hf] at hd; cases hd
    · exact h0
  case costedDel => exact h0
  case addedNo => exact ⟨APcOk_afterVictims _ _, h0.vsrc, h0.vsrc⟩
  case victimEvict =>
    have : VSrc log _ := h0.elim (fun h => Or.inl h.2) Src.vsrc
    exact ⟨APcOk_afterVictims _ _, this, this⟩
  case tombStore => exact h0
  case swStoreDel => exact h0
  case swPolDel => exact ⟨h0.vsrc, h0.vsrc⟩


theorem lookup_eraseAll {st : Store} {ks : List Hash} {h : Hash} {e : Entry}
    (he : (eraseAll st ks).lookup h = some e) : st.lookup h = some e := by
  induction ks generalizing st with
  | nil => exact he
  | cons k rest ih =>
    have := ih (st := st.erase k) he
    rw [AMap.lookup_erase] at this
    split at this
    · cases this
    · exact this

theorem evLog_ok {log : List Ev} {st : Store} (hst : ∀ h e, st.lookup h = some e → Src log h e.conflict e.value)
    (ks : List Hash) : ∀ e ∈ evLog st ks, EvOk log e := by
  induction ks with
  | nil => intro e he; cases he
  | cons k rest ih =>
    intro e he
    unfold evLog at he
    rcases List.mem_append.mp he with he | he
    · exact ih e he
    · split at he
      · cases he
      · rename_i en hen
        have := (hst k en hen).vsrc
        simp only [List.mem_cons, List.not_mem_nil, or_false] at he
        rcases he with rfl | rfl <;> exact this

theorem prov_recv {w w1 : View} {x : BufElem} (p : Prov w) (hr : Recv w x w1) : Prov w1 ∧ ElemOk w.log x := by
  cases hr with
  | plain rest hb hq =>
    refine ⟨prov_upd p [] rfl (by simp) (fun h e he => Or.inl he) (fun y hy => Or.inl ?_) (fun q hq => Or.inl hq)
      (Or.inl rfl) (fun t => Or.inl rfl), p.buf x (by rw [hb]; simp)⟩
    rw [hb]; exact List.mem_cons_of_mem _ hy
  | unblock rest t0 e q hb hq =>
    refine ⟨prov_upd p [] rfl (by simp) (fun h e he => Or.inl he) (fun y hy => ?_) (fun q' hq' => Or.inl ?_)
      (Or.inl rfl) (fun t => ?_), p.buf x (by rw [hb]; simp)⟩
    · rcases List.mem_append.mp hy with hy | hy
      · exact Or.inl (by rw [hb]; exact List.mem_cons_of_mem _ hy)
      · simp only [List.mem_cons, List.not_mem_nil, or_false] at hy
        exact Or.inr (Or.inl ⟨(t0, e), by rw [hq]; simp, hy.symm⟩)
    · rw [hq]; exact List.mem_cons_of_mem _ hq'
    · by_cases ht : t = t0
      · subst ht; exact Or.inr (Or.inl (by simp))
      · exact Or.inl (updCl_ne _ _ ht)

theorem prov_step {w w' : View} (h : AStep w w') (p : Prov w) : Prov w' := by
  cases h with
  | client t pc pc' l hpc hm =>
    obtain ⟨h1, h2⟩ := cmove_ok p hpc hm
    refine prov_upd p l rfl h2 (fun h e he => Or.inl he) (fun x hx => Or.inl hx) (fun q hq => Or.inl hq)
      (Or.inl rfl) (fun t' => ?_)
    by_cases ht : t' = t
    · subst ht; exact Or.inr (Or.inr (by simpa using h1))
    · exact Or.inl (updCl_ne _ _ ht)
  | applier pc' l hm =>
    obtain ⟨h1, h2⟩ := amove_ok p.app hm
    exact prov_upd p l rfl h2 (fun h e he => Or.inl he) (fun x hx => Or.inl hx) (fun q hq => Or.inl hq)
      (Or.inr h1) (fun t' => Or.inl rfl)
  | setUpdOk t i e hpc he hc =>
    have h0 : CPcOk w.log (.setUpd i) := hpc ▸ p.cl t
    refine prov_upd p [] rfl (by simp) (fun h e' he' => ?_) (fun x hx => Or.inl hx) (fun q hq => Or.inl hq)
      (Or.inl rfl) (fun t' => ?_)
    · have he'' : (w.store.insert i.key ⟨i.conflict, i.value, i.exp⟩).lookup h = some e' := he'
      rw [AMap.lookup_insert] at he''
      split at he''
      · rename_i hk; subst hk
        simp only [Option.some.injEq] at he''; subst he''
        exact Or.inr h0
      · exact Or.inl he''
    · by_cases ht : t' = t
      · subst ht
        refine Or.inr (Or.inr ?_)
        simp only [updCl_self, CPcOk]
        exact ⟨h0, (p.store _ e he).vsrc⟩
      · exact Or.inl (updCl_ne _ _ ht)
  | delOk t h c e hpc he hc =>
    refine prov_upd p [] rfl (by simp) (fun h' e' he' => ?_) (fun x hx => Or.inl hx) (fun q hq => Or.inl hq)
      (Or.inl rfl) (fun t' => ?_)
    · have he'' : (w.store.erase h).lookup h' = some e' := he'
      rw [AMap.lookup_erase] at he''
      split at he''
      · cases he''
      · exact Or.inl he''
    · by_cases ht : t' = t
      · subst ht
        refine Or.inr (Or.inr ?_)
        simp only [updCl_self, CPcOk]
        exact (p.store _ e he).vsrc
      · exact Or.inl (updCl_ne _ _ ht)
  | sendOk t i hpc =>
    have h0 : CPcOk w.log (.setSend i) := hpc ▸ p.cl t
    refine prov_upd p [] rfl (by simp) (fun h e he => Or.inl he) (fun x hx => ?_) (fun q hq => Or.inl hq)
      (Or.inl rfl) (fun t' => ?_)
    · rcases List.mem_append.mp hx with hx | hx
      · exact Or.inl hx
      · simp only [List.mem_cons, List.not_mem_nil, or_false] at hx
        subst hx
        exact Or.inr (Or.inr (Or.inr h0))
    · by_cases ht : t' = t
      · subst ht
        refine Or.inr (Or.inr ?_)
        simp only [updCl_self, CPcOk]
        exact h0
      · exact Or.inl (updCl_ne _ _ ht)
  | sendNow t pc e sent blocked hpc hsnd =>
    refine prov_upd p [] rfl (by simp) (fun h e he => Or.inl he) (fun x hx => ?_) (fun q hq => Or.inl hq)
      (Or.inl rfl) (fun t' => ?_)
    · rcases List.mem_append.mp hx with hx | hx
      · exact Or.inl hx
      · simp only [List.mem_cons, List.not_mem_nil, or_false] at hx
        subst hx
        refine Or.inr (Or.inr ?_)
        cases hsnd
        · exact Or.inl ⟨rfl, rfl⟩
        · trivial
    · by_cases ht : t' = t
      · subst ht
        refine Or.inr (Or.inr ?_)
        cases hsnd <;> simp [CPcOk]
      · exact Or.inl (updCl_ne _ _ ht)
  | sendBlock t pc e sent blocked hpc hsnd =>
    refine prov_upd p [] rfl (by simp) (fun h e he => Or.inl he) (fun x hx => Or.inl hx) (fun q hq => ?_)
      (Or.inl rfl) (fun t' => ?_)
    · rcases List.mem_append.mp hq with hq | hq
      · exact Or.inl hq
      · simp only [List.mem_cons, List.not_mem_nil, or_false] at hq
        subst hq
        refine Or.inr ?_
        cases hsnd
        · exact Or.inl ⟨rfl, rfl⟩
        · trivial
    · by_cases ht : t' = t
      · subst ht
        refine Or.inr (Or.inr ?_)
        cases hsnd <;> simp [CPcOk]
      · exact Or.inl (updCl_ne _ _ ht)
  | drainMarker t closing id w1 hpc hr => exact (prov_recv p hr).1
  | drainItem t closing i w1 hpc hr =>
    obtain ⟨p1, hx⟩ := prov_recv p hr
    have hlog : w1.log = w.log := by cases hr <;> rfl
    refine prov_upd p1 (drainLog i) rfl ?_ (fun h e he => Or.inl he) (fun x hx => Or.inl hx) (fun q hq => Or.inl hq)
      (Or.inl rfl) (fun t' => Or.inl rfl)
    rw [hlog]
    have hv : VSrc w.log i.value := ItemOk.vsrc hx
    unfold drainLog
    split
    · simp
    · simp [EvOk, hv]
  | selItem x w1 happ hr =>
    obtain ⟨p1, hx⟩ := prov_recv p hr
    have hlog : w1.log = w.log := by cases hr <;> rfl
    refine prov_upd p1 [] rfl (by simp) (fun h e he => Or.inl he) (fun x hx => Or.inl hx) (fun q hq => Or.inl hq)
      (Or.inr ?_) (fun t' => Or.inl rfl)
    show APcOk w1.log (recvPc x)
    rw [hlog]
    cases x with
    | item i => exact hx
    | marker id => trivial
  | clrShard t closing k ks pc' hpc hord hpc' =>
    refine prov_upd p (evLog w.store ks) rfl (evLog_ok p.store ks) (fun h e he => Or.inl (lookup_eraseAll he))
      (fun x hx => Or.inl hx) (fun q hq => Or.inl hq) (Or.inl rfl) (fun t' => ?_)
    by_cases ht : t' = t
    · subst ht
      refine Or.inr (Or.inr ?_)
      rcases hpc' with rfl | rfl <;> simp [CPcOk]
    · exact Or.inl (updCl_ne _ _ ht)
  | clrRestart t closing pc' l hpc hpc' =>
    refine prov_upd p l rfl ?_ (fun h e he => Or.inl he) (fun x hx => Or.inl hx) (fun q hq => Or.inl hq)
      (Or.inr trivial) (fun t' => ?_)
    · rcases hpc' with ⟨_, rfl⟩ | ⟨_, rfl⟩ <;> simp [EvOk]
    · by_cases ht : t' = t
      · subst ht
        refine Or.inr (Or.inr ?_)
        rcases hpc' with ⟨rfl, _⟩ | ⟨rfl, _⟩ <;> simp [CPcOk]
      · exact Or.inl (updCl_ne _ _ ht)
  | clsFinish t hpc =>
    refine prov_upd p [.closeRet t] rfl (by simp [EvOk]) (fun h e he => Or.inl he) (fun x hx => Or.inl hx)
      (fun q hq => Or.inl hq) (Or.inr trivial) (fun t' => ?_)
    by_cases ht : t' = t
    · subst ht; exact Or.inr (Or.inr (by simp [CPcOk]))
    · exact Or.inl (updCl_ne _ _ ht)
  | selStop t pc' happ hpc' =>
    refine prov_upd p [] rfl (by simp) (fun h e he => Or.inl he) (fun x hx => Or.inl hx)
      (fun q hq => Or.inl hq) (Or.inr trivial) (fun t' => ?_)
    by_cases ht : t' = t
    · subst ht
      refine Or.inr (Or.inr ?_)
      rcases hpc' with ⟨_, _, rfl⟩ | ⟨_, rfl⟩ <;> simp [CPcOk]
    · exact Or.inl (updCl_ne _ _ ht)
  | done t pc' happ hpc' =>
    refine prov_upd p [] rfl (by simp) (fun h e he => Or.inl he) (fun x hx => Or.inl hx)
      (fun q hq => Or.inl hq) (Or.inr trivial) (fun t' => ?_)
    by_cases ht : t' = t
    · subst ht
      refine Or.inr (Or.inr ?_)
      rcases hpc' with ⟨_, _, rfl⟩ | ⟨_, rfl⟩ <;> simp [CPcOk]
    · exact Or.inl (updCl_ne _ _ ht)
  | addedOk i vs st' happ hst =>
    have h0 : APcOk w.log (.added i vs true) := happ ▸ p.app
    refine prov_upd p [] rfl (by simp) (fun h e he => ?_) (fun x hx => Or.inl hx)
      (fun q hq => Or.inl hq) (Or.inr (APcOk_afterVictims _ _)) (fun t' => Or.inl rfl)
    rcases hst with rfl | rfl
    · exact Or.inl he
    · have he'' : (w.store.insert i.key ⟨i.conflict, i.value, i.exp⟩).lookup h = some e := he
      rw [AMap.lookup_insert] at he''
      split at he''
      · rename_i hk; subst hk
        simp only [Option.some.injEq] at he''; subst he''
        exact Or.inr h0
      · exact Or.inl he''
  | victims h cost rest st' c v happ hd =>
    refine prov_upd p [] rfl (by simp) (fun h' e' he' => ?_) (fun x hx => Or.inl hx)
      (fun q hq => Or.inl hq) (Or.inr ?_) (fun t' => Or.inl rfl)
    · cases hd with
      | none => exact Or.inl he'
      | some e he hc =>
        have he'' : (w.store.erase h).lookup h' = some e' := he'
        rw [AMap.lookup_erase] at he''
        split at he''
        · cases he''
        · exact Or.inl he''
    · cases hd with
      | none => exact Or.inl ⟨rfl, rfl⟩
      | some e he hc => exact Or.inr (p.store _ e he)
  | tombPolicy i st' c v happ hd =>
    refine prov_upd p [] rfl (by simp) (fun h' e' he' => ?_) (fun x hx => Or.inl hx)
      (fun q hq => Or.inl hq) (Or.inr ?_) (fun t' => Or.inl rfl)
    · cases hd with
      | none => exact Or.inl he'
      | some e he hc =>
        have he'' : (w.store.erase i.key).lookup h' = some e' := he'
        rw [AMap.lookup_erase] at he''
        split at he''
        · cases he''
        · exact Or.inl he''
    · cases hd with
      | none => exact Or.inl rfl
      | some e he hc => exact (p.store _ e he).vsrc
  | swKeyDel now k c bs e happ he hc =>
    refine prov_upd p [] rfl (by simp) (fun h' e' he' => ?_) (fun x hx => Or.inl hx)
      (fun q hq => Or.inl hq) (Or.inr ?_) (fun t' => Or.inl rfl)
    · have he'' : (w.store.erase k).lookup h' = some e' := he'
      rw [AMap.lookup_erase] at he''
      split at he''
      · cases he''
      · exact Or.inl he''
    · exact ⟨e.conflict, p.store _ e he, hc⟩
  | tick => exact p


theorem prov_init (cfg : Cfg) (now : Time) : Prov (init cfg now).view := by
  constructor
  · intro h e he; simp [init, State.view] at he
  · intro x hx; simp [init, State.view] at hx
  · intro q hq; simp [init, State.view] at hq
  · trivial
  · intro t; trivial
  · trivial

/-- `prov_inv`: the provenance invariant holds in every reachable state. -/
theorem prov_reach {cfg : Cfg} {s : State} (h : Reach cfg s) : Prov s.view :=
  Reach.induction (prov_init cfg) (fun _ _ _ _ hp hs => prov_step (astep_of_step hs) hp) h

/-! ### `Fresh`: the values handed to `Set` are pairwise distinct and non-zero -/

def setVal : Ev → Option Val
  | .setCall _ _ _ v _ _ => some v
  | _ => none

/-- the values of the `setCall` events, newest first -/
def setVals (log : List Ev) : List Val := log.filterMap setVal

/-- the `setCall` events carry pairwise distinct, non-zero values -/
def Fresh (log : List Ev) : Prop := (setVals log).Nodup ∧ 0 ∉ setVals log

theorem Fresh.of_append {l log : List Ev} (h : Fresh (l ++ log)) : Fresh log := by
  unfold Fresh setVals at h ⊢
  rw [List.filterMap_append] at h
  exact ⟨(List.nodup_append.mp h.1).2.1, fun h0 => h.2 (List.mem_append_right _ h0)⟩

theorem mem_setVals {log : List Ev} {v : Val} : v ∈ setVals log ↔ ∃ t h c cost ttl, Ev.setCall t h c v cost ttl ∈ log := by
  unfold setVals
  rw [List.mem_filterMap]
  constructor
  · rintro ⟨e, he, hv⟩
    cases e <;> simp [setVal] at hv
    subst hv
    exact ⟨_, _, _, _, _, he⟩
  · rintro ⟨t, h, c, cost, ttl, he⟩
    exact ⟨_, he, rfl⟩

theorem Src.mem_setVals {log : List Ev} {h c v} (hs : Src log h c v) : v ∈ setVals log := by
  obtain ⟨t, cost, ttl, hm⟩ := hs
  exact Cache.mem_setVals.mpr ⟨t, h, c, cost, ttl, hm⟩

theorem VSrc.mem_setVals {log : List Ev} {v} (hs : VSrc log v) (hv : v ≠ 0) : v ∈ setVals log := by
  rcases hs with h0 | ⟨h, c, hs⟩
  · exact absurd h0 hv
  · exact hs.mem_setVals

/-- under `Fresh` a value identifies its `setCall` event -/
theorem fresh_unique {log : List Ev} (hf : (setVals log).Nodup) {t1 t2 : Tid} {h1 h2 : Hash} {c1 c2 : Conf} {v : Val}
    {k1 k2 l1 l2 : Int} (m1 : Ev.setCall t1 h1 c1 v k1 l1 ∈ log) (m2 : Ev.setCall t2 h2 c2 v k2 l2 ∈ log) :
    Ev.setCall t1 h1 c1 v k1 l1 = Ev.setCall t2 h2 c2 v k2 l2 := by
  induction log with
  | nil => cases m1
  | cons e rest ih =>
    have hcons : setVals (e :: rest) = (match setVal e with | some v => v :: setVals rest | none => setVals rest) := by
      unfold setVals; rw [List.filterMap_cons]; split <;> simp [*]
    have hrest : (setVals rest).Nodup := by
      rw [hcons] at hf
      split at hf
      · exact (List.nodup_cons.mp hf).2
      · exact hf
    rcases List.mem_cons.mp m1 with e1 | m1' <;> rcases List.mem_cons.mp m2 with e2 | m2'
    · rw [e1, e2]
    · exfalso
      subst e1
      rw [hcons] at hf
      simp only [setVal] at hf
      exact (List.nodup_cons.mp hf).1 (Cache.mem_setVals.mpr ⟨_, _, _, _, _, m2'⟩)
    · exfalso
      subst e2
      rw [hcons] at hf
      simp only [setVal] at hf
      exact (List.nodup_cons.mp hf).1 (Cache.mem_setVals.mpr ⟨_, _, _, _, _, m1'⟩)
    · exact ih hrest m1' m2'

end RV.Cache
