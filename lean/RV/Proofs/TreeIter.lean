import RV.Proofs.TreeCompact
/-!
# `Tree.IterateKV`
-/
namespace RV.Tree
open Gen.Tree

/-- what the callback protocol does to one (key, value) pair -/
def rewrite (f : Key → Val → Val) (e : Key × Val) : Key × Val :=
  if iterSkip e.2 then e else
  let nv := f e.1 e.2
  if iterWrite nv then (e.1, nv) else e

theorem leafIter_eq_map (f : Key → Val → Val) (es : List (Key × Val)) : leafIter f es = es.map (rewrite f) := rfl

theorem rewrite_fst (f : Key → Val → Val) (e : Key × Val) : (rewrite f e).1 = e.1 := by
  unfold rewrite; split
  · rfl
  · dsimp only; split <;> rfl

theorem sortedFrom_map {lo : Key} {es : List (Key × Val)} (g : Key × Val → Key × Val) (hg : ∀ e, (g e).1 = e.1)
    (h : SortedFrom lo es) : SortedFrom lo (es.map g) := by
  induction es generalizing lo with
  | nil => trivial
  | cons e rest ih =>
    simp only [List.map, SortedFrom, hg]
    exact ⟨h.1, ih h.2⟩

theorem lastKeyD_map {lo : Key} (es : List (Key × Val)) (g : Key × Val → Key × Val) (hg : ∀ e, (g e).1 = e.1) :
    lastKeyD lo (es.map g) = lastKeyD lo es := by
  induction es generalizing lo with
  | nil => rfl
  | cons e rest ih => simp only [List.map, lastKeyD_cons, hg]; exact ih

theorem lookupD_map_rewrite (f : Key → Val → Val) {es : List (Key × Val)} (k : Key) :
    lookupD (es.map (rewrite f)) k = (rewrite f (k, lookupD es k)).2 := by
  induction es with
  | nil => simp [lookupD, rewrite, iterSkip]
  | cons e rest ih =>
    simp only [List.map, lookupD, rewrite_fst]
    by_cases h : e.1 = k
    · subst h; simp
    · simp only [h, if_false]; exact ih

mutual
theorem iterNode_spec (mk : Nat) (f : Key → Val → Val) : ∀ (n : Node) (b : Nat) (lo hi : Key), okNode mk b n lo hi →
    (iterNode f n).2 = true ∧ okNode mk b (iterNode f n).1 lo hi ∧
    toList (iterNode f n).1 = (toList n).map (rewrite f) ∧
    visitsNode n = (toList n).filter (fun e => !(iterSkip e.2)) ∧
    pids (iterNode f n).1 = pids n ∧ (iterNode f n).1.isLeafC = n.isLeafC ∧
    countLeafKeys (iterNode f n).1 = countLeafKeys n
  | .null, _, _, _, h => absurd h id
  | .leaf p es, b, lo, hi, h => by
    rw [iterNode, visitsNode, leafIter_eq_map]
    refine ⟨rfl, ⟨sortedFrom_map _ (rewrite_fst f) h.1, ⟨?_, ?_⟩, by simp; exact h.2.2⟩, rfl, rfl, rfl, rfl, ?_⟩
    rotate_left 2
    · simp [countLeafKeys, Node.numKeys, Node.metaW, Node.len, Node.isLeafC]
    · intro e; have := h.2.1.1; simp at e; exact this e
    · rw [lastKeyD_map _ _ (rewrite_fst f)]; exact h.2.1.2
  | .inner p es, b, lo, hi, h => by
    obtain ⟨e1, e2, e3, e4, e5, e6, e7, e8⟩ := iterEnts_spec mk f es lo h.1
    rw [iterNode, visitsNode]
    refine ⟨e1, ⟨e2, ⟨?_, ?_⟩, by rw [e6]; exact h.2.2⟩, by rw [toList, toList]; exact e3, by rw [toList]; exact e4,
      by rw [pids, pids, e5], rfl, by rw [countLeafKeys, countLeafKeys, e8]⟩
    · intro e
      have := congrArg List.length e
      rw [e6] at this
      exact h.2.1.1 (List.eq_nil_of_length_eq_zero this)
    · rw [e7]; exact h.2.1.2
theorem iterEnts_spec (mk : Nat) (f : Key → Val → Val) : ∀ (es : List (Key × Node)) (lo : Key), okEnts mk es lo →
    (iterEnts f es).2 = true ∧ okEnts mk (iterEnts f es).1 lo ∧
    toListEnts (iterEnts f es).1 = (toListEnts es).map (rewrite f) ∧
    visitsEnts es = (toListEnts es).filter (fun e => !(iterSkip e.2)) ∧
    pidsEnts (iterEnts f es).1 = pidsEnts es ∧ (iterEnts f es).1.length = es.length ∧
    (∀ z, lastKeyD z (iterEnts f es).1 = lastKeyD z es) ∧
    countLeafKeysEnts (iterEnts f es).1 = countLeafKeysEnts es
  | [], _, _ => by
    rw [iterEnts, visitsEnts]; exact ⟨rfl, trivial, rfl, rfl, rfl, rfl, fun _ => rfl, rfl⟩
  | (ki, c) :: rest, lo, h => by
    have hloki := okNode_lo_lt_hi h.1
    have hstop : iterStop ki = false := by unfold iterStop; simp; bv_omega
    obtain ⟨c1, c2, c3, c4, c5, c6, c7⟩ := iterNode_spec mk f c (mk - 1) lo ki h.1
    obtain ⟨r1, r2, r3, r4, r5, r6, r7, r8⟩ := iterEnts_spec mk f rest ki h.2
    rw [iterEnts, visitsEnts]
    simp only [hstop, Bool.false_eq_true, if_false]
    refine ⟨by simp [c1, r1], ⟨c2, r2⟩, ?_, ?_, ?_, by simp [r6], fun z => by simp only [lastKeyD_cons]; exact r7 _, ?_⟩
    · simp only [toListEnts, List.map_append, c3, r3]
    · simp only [toListEnts, List.filter_append, c4, r4]
    · simp only [pidsEnts, c5, r5]
    · simp only [countLeafKeysEnts, c7, r8]
end

/-- `IterateKV`: invariant, the pairs handed to the callback, and the map afterwards. -/
theorem iterateKV_spec {cfg : Cfg} (t : Tree) (hinv : TreeInv cfg t) (f : Key → Val → Val) :
    TreeInv cfg (iterateKV t f) ∧
    visits t = (toList t.root).filter (fun e => !(iterSkip e.2)) ∧
    toList (iterateKV t f).root = (toList t.root).map (rewrite f) ∧
    pids (iterateKV t f).root = pids t.root ∧
    countLeafKeys (iterateKV t f).root = countLeafKeys t.root ∧ (iterateKV t f).a = t.a := by
  obtain ⟨e1, e2, e3, e4, e5, e6, e7⟩ := iterNode_spec cfg.maxKeys f t.root _ _ _ hinv.ok
  unfold iterateKV visits
  refine ⟨⟨by rw [e6]; exact hinv.root_inner, e2, ?_⟩, e4, e3, e5, e7, ?_⟩
  · simp only [e1, if_true]; exact hinv.nofault
  · simp only [e1, if_true]

theorem sortedFrom_filter {lo : Key} {es : List (Key × Val)} (p : Key × Val → Bool) (h : SortedFrom lo es) :
    SortedFrom lo (es.filter p) := by
  induction es generalizing lo with
  | nil => trivial
  | cons e rest ih =>
    simp only [List.filter]
    split
    · exact ⟨h.1, ih h.2⟩
    · exact ih (h.2.mono (by have := h.1; bv_omega))

/-- in a list with strictly increasing keys, membership of a pair with a non-zero value is lookup -/
theorem mem_iff_lookupD {lo : Key} {L : List (Key × Val)} (hs : SortedFrom lo L) (k : Key) (v : Val)
    (hv : v ≠ 0#64) : (k, v) ∈ L ↔ lookupD L k = v := by
  induction L generalizing lo with
  | nil => simp [lookupD]; exact fun h => hv h.symm
  | cons e rest ih =>
    simp only [List.mem_cons, lookupD]
    by_cases hk : e.1 = k
    · simp only [hk, if_true]
      constructor
      · rintro (h | h)
        · rw [← h]
        · have := hs.2.all_gt (k, v) h
          simp at this; rw [hk] at this; exact absurd this (BitVec.lt_irrefl _)
      · intro h; left; rw [← h, ← hk]
    · simp only [hk, if_false]
      rw [← ih hs.2]
      constructor
      · rintro (h | h)
        · rw [← h] at hk; exact absurd rfl hk
        · exact h
      · intro h; exact Or.inr h

end RV.Tree
