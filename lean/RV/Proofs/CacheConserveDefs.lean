import RV.Proofs.CacheProvSim
/-!
# Conservation of values (C04, "at least once"): definitions and the abstract step

`Held s v`: the value `v` occupies one of the places of the model — a store entry, a buffered /
blocked **new** item (`holdI`: update items carry a value that is in the store, tombstones carry the
zero value; neither *holds* a value), the applier's local data, a client's local data (a `Set` on its
way in, or a value in limbo between its removal from the store and its `OnExit` call).

`Conserved v w`: if some logged `Set` call supplied `v`, then `v` was passed to `OnExit`, or its `Set`
returned false, or `v` is held somewhere.  `conserved_step`: one abstract step (`AStep`, the
value-flow abstraction of `CacheProvView.lean`) preserves it — except that the abstraction forgets
the policy and the handshake, so the three facts it cannot know are hypotheses:
* `hrestart` / `hfinish`: when `Clear` restarts the applier (`Close` marks it dead) the applier holds
  nothing (true by the handshake invariant: it is `dead`);
* `hadd`: when the applier executes `store.Set` for an admitted new item, the key is absent from the
  store and the item is inserted (true for collision-free runs by the store/policy consistency
  invariant `Expl`, see `CacheConserveAdd.lean`).  Without it `lockedMap.Set` may drop the new value
  (conflict mismatch = finding F8, or a `ShouldUpdate` refusal) or overwrite a resident value without
  any callback.
-/
namespace RV.Cache
open Gen.Cache

/-- the value an item holds: only *new* items hold one -/
def holdI (i : Item) : Val := if i.flag = .new then i.value else 0

def holdE : BufElem → Val
  | .item i => holdI i
  | .marker _ => 0

/-- client-local values: the value of a `Set` that is not yet in the store / the buffer, or a value in
limbo (removed from the store, `OnExit` not yet called) -/
def holdC : CPc → Val
  | .setStart _ _ v _ _ => v
  | .setUpd i => holdI i
  | .setExit _ prev => prev
  | .setSend i => holdI i
  | .setRetDrop i => holdI i
  | .delExit _ _ prev => prev
  | _ => 0

/-- applier-local values: the new item being processed, or a value in limbo -/
def holdA : APc → Val
  | .item i => holdI i
  | .costed i => holdI i
  | .added i _ _ => holdI i
  | .victimEvict _ _ _ v _ => v
  | .tombStore v => v
  | .swStoreDel _ _ _ _ v _ => v
  | .swPolDel _ _ _ _ _ v _ => v
  | _ => 0

/-- `v` is the value of a store entry -/
def InStore (st : Store) (v : Val) : Prop := ∃ h e, st.lookup h = some e ∧ e.value = v

/-- `v` occupies one of the places of the view -/
def HeldV (w : View) (v : Val) : Prop :=
  InStore w.store v ∨ (∃ x ∈ w.buf, holdE x = v) ∨ (∃ p ∈ w.sendq, holdE p.2 = v) ∨ holdA w.app = v ∨
  ∃ t, holdC (w.cl t) = v

/-- `v` occupies one of the places of the state: a store entry, a buffered new item, a new item of a
blocked sender, the applier's local data, a client's local data -/
def Held (s : State) (v : Val) : Prop := HeldV s.view v

/-- some logged `Set` call supplied `v` -/
def Tracked (log : List Ev) (v : Val) : Prop := ∃ t h c cost ttl, Ev.setCall t h c v cost ttl ∈ log
/-- `v` was passed to `OnExit` -/
def Exited (log : List Ev) (v : Val) : Prop := Ev.exit v ∈ log
/-- a `Set` of `v` returned false -/
def Refused (log : List Ev) (v : Val) : Prop := ∃ t, Ev.setRet t v false ∈ log
/-- a `Set` of `v` returned true -/
def Accepted (log : List Ev) (v : Val) : Prop := ∃ t, Ev.setRet t v true ∈ log

/-- nothing is lost: a value handed to `Set` has left through `OnExit`, or was refused, or is held -/
def Conserved (v : Val) (w : View) : Prop := Tracked w.log v → Exited w.log v ∨ Refused w.log v ∨ HeldV w v

theorem holdI_value {i : Item} {v : Val} (hv : v ≠ 0) (h : holdI i = v) : i.flag = .new ∧ i.value = v := by
  unfold holdI at h
  split at h
  · exact ⟨by assumption, h⟩
  · exact absurd h.symm hv

theorem holdI_new {i : Item} (h : i.flag = .new) : holdI i = i.value := by simp [holdI, h]
theorem holdI_not_new {i : Item} (h : i.flag ≠ .new) : holdI i = 0 := by simp [holdI, h]

theorem holdA_afterVictims (vs : List (Hash × Int)) : holdA (afterVictims vs) = 0 := by
  unfold afterVictims; split <;> rfl

theorem holdC_unblocked (pc : CPc) : holdC (unblockedPc pc) = holdC pc := by cases pc <;> rfl

theorem holdA_recvPc (x : BufElem) : holdA (recvPc x) = holdE x := by cases x <;> rfl

/-! ### what a move does to the value its pc holds -/

/-- a client move keeps the value its pc holds, or logs its `exit` / its refusal -/
theorem cmove_hold {w : View} {t : Tid} {pc pc' : CPc} {l : List Ev} {v : Val} (hv : v ≠ 0)
    (hm : CMove w t pc pc' l) (h : holdC pc = v) :
    holdC pc' = v ∨ Ev.exit v ∈ l ∨ Ev.setRet t v false ∈ l := by
  cases hm
  case setStartFail h' c v' cost ttl => obtain rfl : v' = v := h; exact Or.inr (Or.inr (by simp))
  case setStartOk h' c v' cost ttl exp => obtain rfl : v' = v := h; exact Or.inl rfl
  case setUpdNo i => exact Or.inl h
  case setExit i prev => obtain rfl : prev = v := h; exact Or.inr (Or.inl (by simp))
  case setSendFull i => exact Or.inl h
  case setRetDropUpd i hf => exact absurd (h.symm.trans (holdI_not_new (by rw [hf]; simp))) hv
  case setRetDropNew i hf =>
    obtain ⟨_, hval⟩ := holdI_value hv h
    subst hval; exact Or.inr (Or.inr (by simp))
  case delExit h' c prev => obtain rfl : prev = v := h; exact Or.inr (Or.inl (by simp))
  all_goals exact absurd (show (0 : Val) = v from h).symm hv

/-- an applier move keeps the value the applier holds, or logs its `exit` -/
theorem amove_hold {pc pc' : APc} {l : List Ev} {v : Val} (hv : v ≠ 0) (hm : AMove pc pc' l)
    (h : holdA pc = v) : holdA pc' = v ∨ Ev.exit v ∈ l := by
  cases hm
  case item i cost => exact Or.inl (by simpa [holdA, holdI] using h)
  case costedNew i vs ok hf => exact Or.inl h
  case costedUpd i hf => exact absurd (h.symm.trans (holdI_not_new (by rw [hf]; simp))) hv
  case costedDel i hf => exact absurd (h.symm.trans (holdI_not_new (by rw [hf]; simp))) hv
  case addedNo i vs =>
    obtain ⟨_, hval⟩ := holdI_value hv h
    subst hval; exact Or.inr (by simp)
  case victimEvict h' cost c v' rest => obtain rfl : v' = v := h; exact Or.inr (by simp)
  case tombStore v' => obtain rfl : v' = v := h; exact Or.inr (by simp)
  case swStoreDel now k c expr v' bs cost => exact Or.inl h
  case swPolDel now k c expr cost v' bs => obtain rfl : v' = v := h; exact Or.inr (by simp)
  all_goals exact absurd (show (0 : Val) = v from h).symm hv

/-! ### the store -/

theorem inStore_insert_new {st : Store} {k : Hash} {e : Entry} : InStore (st.insert k e) e.value :=
  ⟨k, e, by simp, rfl⟩

theorem inStore_insert_other {st : Store} {k : Hash} {e : Entry} {v : Val} {h : Hash} {e' : Entry}
    (hl : st.lookup h = some e') (he : e'.value = v) (hne : h ≠ k) : InStore (st.insert k e) v :=
  ⟨h, e', by rw [AMap.lookup_insert_ne st e hne]; exact hl, he⟩

theorem inStore_erase_other {st : Store} {k : Hash} {v : Val} {h : Hash} {e' : Entry}
    (hl : st.lookup h = some e') (he : e'.value = v) (hne : h ≠ k) : InStore (st.erase k) v :=
  ⟨h, e', by rw [AMap.lookup_erase_ne st hne]; exact hl, he⟩

theorem eraseAll_lookup_keep {st : Store} {ks : List Hash} {h : Hash} (hn : h ∉ ks) :
    (eraseAll st ks).lookup h = st.lookup h := by
  induction ks generalizing st with
  | nil => rfl
  | cons k rest ih =>
    have h1 : h ≠ k := fun e => hn (by simp [e])
    have h2 : h ∉ rest := fun e => hn (by simp [e])
    unfold eraseAll
    rw [ih h2, AMap.lookup_erase_ne st h1]

theorem evLog_exit {st : Store} {ks : List Hash} {h : Hash} {e : Entry} (hk : h ∈ ks)
    (hl : st.lookup h = some e) : Ev.exit e.value ∈ evLog st ks := by
  induction ks with
  | nil => cases hk
  | cons k rest ih =>
    unfold evLog
    rcases List.mem_cons.mp hk with rfl | hk'
    · exact List.mem_append_right _ (by rw [hl]; simp)
    · exact List.mem_append_left _ (ih hk')

/-- after a deletion the value of the deleted entry is the returned one; every other entry stays -/
theorem delRes_hold {st st' : Store} {h : Hash} {c c' : Conf} {v' : Val} (hd : DelRes st h c st' c' v') {v : Val}
    (hs : InStore st v) : InStore st' v ∨ v' = v := by
  cases hd with
  | none => exact Or.inl hs
  | some e he hc =>
    obtain ⟨h1, e1, hl1, hv1⟩ := hs
    by_cases hk : h1 = h
    · subst hk
      rw [he] at hl1; cases hl1
      exact Or.inr hv1
    · exact Or.inl (inStore_erase_other hl1 hv1 hk)

/-! ### receives -/

theorem recv_hold {w w1 : View} {x : BufElem} (hr : Recv w x w1) :
    w1.store = w.store ∧ w1.app = w.app ∧ w1.log = w.log ∧ (∀ t, holdC (w1.cl t) = holdC (w.cl t)) ∧
    (∀ y ∈ w.buf, y = x ∨ y ∈ w1.buf) ∧ (∀ p ∈ w.sendq, p.2 ∈ w1.buf ∨ p ∈ w1.sendq) := by
  cases hr with
  | plain rest hb hq =>
    refine ⟨rfl, rfl, rfl, fun t => rfl, ?_, ?_⟩
    · intro y hy
      rw [hb] at hy
      rcases List.mem_cons.mp hy with h | h
      · exact Or.inl h
      · exact Or.inr h
    · intro p hp; rw [hq] at hp; cases hp
  | unblock rest t0 e q hb hq =>
    refine ⟨rfl, rfl, rfl, fun t => ?_, ?_, ?_⟩
    · by_cases ht : t = t0
      · subst ht; simp [holdC_unblocked]
      · simp [updCl_ne _ _ ht]
    · intro y hy
      rw [hb] at hy
      rcases List.mem_cons.mp hy with h | h
      · exact Or.inl h
      · exact Or.inr (List.mem_append_left _ h)
    · intro p hp
      rw [hq] at hp
      rcases List.mem_cons.mp hp with h | h
      · subst h; exact Or.inl (by simp)
      · exact Or.inr h

/-- after a receive of `x`, a held value is still held, or it is the value `x` holds -/
theorem recv_held {w w1 : View} {x : BufElem} (hr : Recv w x w1) {v : Val} (hh : HeldV w v) :
    HeldV w1 v ∨ holdE x = v := by
  obtain ⟨h1, h2, _, h4, h5, h6⟩ := recv_hold hr
  rcases hh with hs | ⟨y, hy, hyv⟩ | ⟨p, hp, hpv⟩ | ha | ⟨t, ht⟩
  · exact Or.inl (Or.inl (h1 ▸ hs))
  · rcases h5 y hy with rfl | hy'
    · exact Or.inr hyv
    · exact Or.inl (Or.inr (Or.inl ⟨y, hy', hyv⟩))
  · rcases h6 p hp with hp' | hp'
    · exact Or.inl (Or.inr (Or.inl ⟨p.2, hp', hpv⟩))
    · exact Or.inl (Or.inr (Or.inr (Or.inl ⟨p, hp', hpv⟩)))
  · exact Or.inl (Or.inr (Or.inr (Or.inr (Or.inl (h2 ▸ ha)))))
  · exact Or.inl (Or.inr (Or.inr (Or.inr (Or.inr ⟨t, (h4 t).trans ht⟩))))

/-! ### transport of `Conserved` -/

theorem tracked_mono {log log' : List Ev} {v : Val} (hsub : log ⊆ log') (h : Tracked log v) : Tracked log' v := by
  obtain ⟨t, h', c, cost, ttl, hm⟩ := h; exact ⟨t, h', c, cost, ttl, hsub hm⟩

/-- Transport along a step that logs `l`: no new `Set` call of `v` is logged, and every held value stays
held or its `exit` / refusal is in `l`. -/
theorem conserved_of {v : Val} {w w' : View} (l : List Ev) (hlog : w'.log = l ++ w.log)
    (hcall : ∀ t h c cost ttl, Ev.setCall t h c v cost ttl ∉ l)
    (hheld : HeldV w v → HeldV w' v ∨ Ev.exit v ∈ l ∨ ∃ t, Ev.setRet t v false ∈ l)
    (hc : Conserved v w) : Conserved v w' := by
  intro htr
  have hsub : w.log ⊆ w'.log := by rw [hlog]; exact List.subset_append_right _ _
  have htr0 : Tracked w.log v := by
    obtain ⟨t, h, c, cost, ttl, hm⟩ := htr
    rw [hlog] at hm
    rcases List.mem_append.mp hm with hm | hm
    · exact absurd hm (hcall t h c cost ttl)
    · exact ⟨t, h, c, cost, ttl, hm⟩
  rcases hc htr0 with hex | ⟨t, hrf⟩ | hh
  · exact Or.inl (hsub hex)
  · exact Or.inr (Or.inl ⟨t, hsub hrf⟩)
  · rcases hheld hh with h1 | h1 | ⟨t, h1⟩
    · exact Or.inr (Or.inr h1)
    · exact Or.inl (by unfold Exited; rw [hlog]; exact List.mem_append_left _ h1)
    · exact Or.inr (Or.inl ⟨t, by rw [hlog]; exact List.mem_append_left _ h1⟩)

/-- a step that changes only the pc of client `t` (and the log) -/
theorem held_upd_cl {v : Val} {w : View} {t : Tid} {pc' : CPc} {l : List Ev}
    (hpc : holdC (w.cl t) = v → holdC pc' = v ∨ Ev.exit v ∈ l ∨ ∃ t', Ev.setRet t' v false ∈ l)
    (hh : HeldV w v) :
    HeldV { w with cl := updCl w.cl t pc', log := l ++ w.log } v ∨ Ev.exit v ∈ l ∨ ∃ t', Ev.setRet t' v false ∈ l := by
  rcases hh with hs | hb | hq | ha | ⟨t1, ht1⟩
  · exact Or.inl (Or.inl hs)
  · exact Or.inl (Or.inr (Or.inl hb))
  · exact Or.inl (Or.inr (Or.inr (Or.inl hq)))
  · exact Or.inl (Or.inr (Or.inr (Or.inr (Or.inl ha))))
  · by_cases e : t1 = t
    · subst e
      rcases hpc ht1 with h1 | h1
      · exact Or.inl (Or.inr (Or.inr (Or.inr (Or.inr ⟨t1, by simpa using h1⟩))))
      · exact Or.inr h1
    · exact Or.inl (Or.inr (Or.inr (Or.inr (Or.inr ⟨t1, by simpa [updCl_ne _ _ e] using ht1⟩))))

theorem no_call_nil (v : Val) : ∀ t h c cost ttl, Ev.setCall t h c v cost ttl ∉ ([] : List Ev) := by
  intro t h c cost ttl hm; cases hm

end RV.Cache
