import RV.Proofs.CacheFairDefs
/-!
# State-level step lemmas for the fairness argument

* `other_step_cl` — what a step that is not `t`'s own can do to `t`'s pc;
* `app_stable` — only the applier moves the running applier;
* `recv_or_keeps` — every step is a receive from `setBuf` (`IsRecv`) or keeps the channel content
  as a prefix (`Keeps`);
* `selItem_at_idle`, `selStop_at_idle` — the `select` branches are taken at `idle` only;
* `chanLen_step` — only the three sending pcs make the channel longer;
* `change_rank` — every change of a pc strictly decreases `rankN 0`.
-/
namespace RV.Cache
open Gen.Cache

theorem owns_client_client {t t0 : Tid} {ch : Choice} (h : (Actor.client t).owns (.client t0 ch) = false) : t ≠ t0 := by
  intro e; subst e; simp [Actor.owns] at h

theorem owns_client_done {t t0 : Tid} (h : (Actor.client t).owns (.done t0) = false) : t ≠ t0 := by
  intro e; subst e; simp [Actor.owns] at h

/-- a step that is not `t`'s own leaves `t`'s pc alone, unless `t` is idle (spawn), is a blocked
sender that the step releases, or offers `stop` -/
theorem other_step_cl {cfg : Cfg} {s s' : State} {x : Action} {t : Tid} (hs : step cfg s x = some s')
    (hno : (Actor.client t).owns x = false) :
    s'.cl t = s.cl t ∨ s.cl t = .idle ∨ s'.cl t = unblockedPc (s.cl t) ∨ (∃ c, s.cl t = .clrStop c) ∨
      s.cl t = .clsStop := by
  cases x with
  | spawn t0 c =>
    have hs' : spawnStep s t0 c = some s' := hs
    by_cases ht : t = t0
    · subst ht; exact Or.inr (Or.inl (spawn_shape hs').1)
    · exact Or.inl (spawnStep_cl_ne s t0 c hs' ht)
  | tick d => simp only [step, Option.some.injEq] at hs; subst hs; exact Or.inl rfl
  | done t0 =>
    have hs' : doneStep s t0 = some s' := hs
    exact Or.inl (doneStep_cl_ne s t0 hs' (owns_client_done hno))
  | applier ch =>
    have hs' : applierStep cfg s ch = some s' := hs
    rcases applier_shape hs' with hp | hsp
    · exact Or.inl (by rw [hp.cl])
    · cases hsp with
      | selItem _ hr =>
        obtain ⟨x, s1, hrecv, hcl, _⟩ := selItem_shape hr
        rw [hcl]
        rcases recvBuf_cl hrecv t with e | e
        · exact Or.inl e
        · exact Or.inr (Or.inr (Or.inl e))
      | selStop t0 _ hr =>
        obtain ⟨_, hne, hcase⟩ := selStop_shape hr
        by_cases ht : t = t0
        · subst ht
          rcases hcase with ⟨c, h0, _⟩ | ⟨h0, _⟩
          · exact Or.inr (Or.inr (Or.inr (Or.inl ⟨c, h0⟩)))
          · exact Or.inr (Or.inr (Or.inr (Or.inr h0)))
        · exact Or.inl (hne t ht)
      | marker id _ he => subst he; exact Or.inl rfl
  | client t0 ch =>
    have hs' : clientStep cfg s t0 ch = some s' := hs
    have ht : t ≠ t0 := owns_client_client hno
    rcases client_shape hs' with hp | hsp
    · exact Or.inl (hp.cl_ne t ht)
    · cases hsp with
      | setSend i hpc he => subst he; exact Or.inl (stSetSend_cl_ne cfg s t0 i ht)
      | delSend h c hpc he => subst he; exact Or.inl (stDelSend_cl_ne cfg s t0 h c ht)
      | waitSend hpc he => subst he; exact Or.inl (stWaitSend_cl_ne cfg s t0 ht)
      | drain c hpc he =>
        subst he
        rcases drain_shape s t0 c with ⟨_, he⟩ | ⟨x, s1, hrecv, hcl, _⟩
        · rw [he]; exact Or.inl (by simp [setCl_cl_ne _ _ _ ht])
        · rw [hcl]
          rcases recvBuf_cl hrecv t with e | e
          · exact Or.inl e
          · exact Or.inr (Or.inr (Or.inl e))
      | restart c hpc he => subst he; exact Or.inl (stClrRestart_cl_ne s t0 c ht)
      | finish hpc he => subst he; exact Or.inl (stClsFinish_cl_ne s t0 ht)

/-- pcs that only the client's own steps (incl. its `done` rendezvous) can change -/
def CPc.selfMoved : CPc → Bool
  | .idle => false | .delBlocked _ => false | .waitBlocked _ => false | .clrStop _ => false | .clsStop => false
  | _ => true

theorem other_step_cl_self {cfg : Cfg} {s s' : State} {x : Action} {t : Tid} (hs : step cfg s x = some s')
    (hno : (Actor.client t).owns x = false) (hsm : (s.cl t).selfMoved = true) : s'.cl t = s.cl t := by
  rcases other_step_cl hs hno with e | e | e | ⟨c, e⟩ | e
  · exact e
  · rw [e] at hsm; cases hsm
  · rw [e]
    apply unblockedPc_of_not_blocked
    cases hpc : s.cl t <;> rw [hpc] at hsm <;> first | rfl | cases hsm
  · rw [e] at hsm; cases hsm
  · rw [e] at hsm; cases hsm

/-- only the applier itself moves the running applier -/
theorem app_stable {cfg : Cfg} {s s' : State} {x : Action} (hh : Handshake s) (hs : step cfg s x = some s')
    (hrun : s.app.running = true) (hno : Actor.applier.owns x = false) : s'.app = s.app := by
  have hnd : s.app ≠ .dead := by intro e; rw [e] at hrun; cases hrun
  cases x with
  | spawn t0 c => exact spawnStep_app s t0 c hs
  | tick d => simp only [step, Option.some.injEq] at hs; subst hs; rfl
  | done t0 =>
    obtain ⟨h0, _⟩ := done_shape (show doneStep s t0 = some s' from hs)
    rw [h0] at hrun; cases hrun
  | applier ch => simp [Actor.owns] at hno
  | client t0 ch =>
    have hs' : clientStep cfg s t0 ch = some s' := hs
    rcases client_shape hs' with hp | hsp
    · exact hp.app
    · cases hsp with
      | setSend i hpc he => subst he; exact stSetSend_app ..
      | delSend h c hpc he => subst he; exact stDelSend_app ..
      | waitSend hpc he => subst he; exact stWaitSend_app ..
      | drain c hpc he => exact absurd (hh.busy t0 (by rw [hpc]; rfl)) hnd
      | restart c hpc he => exact absurd (hh.busy t0 (by rw [hpc]; rfl)) hnd
      | finish hpc he => exact absurd (hh.busy t0 (by rw [hpc]; rfl)) hnd

/-! ### receives -/

/-- the step from `s` to `s'` receives the head of `setBuf` (the idle applier's `selItem`, or an
iteration of `Clear`'s drain loop on a non-empty buffer) -/
def IsRecv (s s' : State) : Prop :=
  ∃ x s1, recvBuf s = some (x, s1) ∧ s'.buf = s1.buf ∧ s'.sendq = s1.sendq ∧ s'.cl = s1.cl ∧
    (∀ id, id ∈ s.closedMarkers → id ∈ s'.closedMarkers) ∧
    (∀ id, x = .marker id → s'.app = .marker id ∨ id ∈ s'.closedMarkers)

/-- the step keeps the channel content (possibly appending to it) -/
structure Keeps (s s' : State) : Prop where
  chan : ∃ l, chan s' = chan s ++ l
  tids : ∃ l, tids s' = tids s ++ l
  buf : s.buf ≠ [] → s'.buf ≠ []
  cm : ∀ id, id ∈ s.closedMarkers → id ∈ s'.closedMarkers
  app : ∀ id, s.app = .marker id → s'.app = .marker id ∨ id ∈ s'.closedMarkers

theorem recv_or_keeps {cfg : Cfg} {s s' : State} {x : Action} (hh : Handshake s)
    (hs : step cfg s x = some s') : IsRecv s s' ∨ Keeps s s' := by
  cases chan_desc hh hs with
  | same hb hq hcm happ =>
    right
    exact ⟨⟨[], by simp [chan, hb, hq]⟩, ⟨[], by simp [tids, hq]⟩, fun h => by rw [hb]; exact h, hcm, happ⟩
  | pushBuf e0 hq0 hb hq hcm happ =>
    right
    refine ⟨⟨[e0], by simp [chan, hb, hq, hq0]⟩, ⟨[], by simp [tids, hq, hq0]⟩, fun _ => by rw [hb]; simp,
      fun id h => by rw [hcm]; exact h, fun id h => Or.inl (by rw [happ]; exact h)⟩
  | pushQ t0 e0 hb hq hcm happ =>
    right
    refine ⟨⟨[e0], by simp [chan, hb, hq]⟩, ⟨[t0], by simp [tids, hq]⟩, fun h => by rw [hb]; exact h,
      fun id h => by rw [hcm]; exact h, fun id h => Or.inl (by rw [happ]; exact h)⟩
  | recv x s1 hrecv hb hq hcl hcm hx => exact Or.inl ⟨x, s1, hrecv, hb, hq, hcl, hcm, hx⟩

theorem closedMarkers_mono {cfg : Cfg} {s s' : State} {x : Action} (hh : Handshake s)
    (hs : step cfg s x = some s') {id : Nat} (h : id ∈ s.closedMarkers) : id ∈ s'.closedMarkers := by
  rcases recv_or_keeps hh hs with ⟨_, _, _, _, _, _, hcm, _⟩ | hk
  · exact hcm id h
  · exact hk.cm id h

/-! ### the `select` branches are taken at `idle` only -/

theorem selItem_at_idle {cfg : Cfg} {s s' : State} (hs : applierStep cfg s .selItem = some s') :
    s.app = .idle ∧ apSelItem s = some s' := by
  unfold applierStep at hs
  cases hpc : s.app <;> rw [hpc] at hs <;> simp only [needNone] at hs <;> first | cases hs | skip
  · exact ⟨rfl, hs⟩
  · rename_i i
    unfold apCosted at hs
    split at hs
    · simp [apCostedNew] at hs
    · simp [needNone] at hs
    · simp [needNone] at hs
  · rename_i now bs
    unfold apSweep at hs
    split at hs <;> first | cases hs | skip
    all_goals simp_all

theorem selStop_at_idle {cfg : Cfg} {s s' : State} {t : Tid} (hs : applierStep cfg s (.selStop t) = some s') :
    s.app = .idle ∧ apSelStop s t = some s' := by
  unfold applierStep at hs
  cases hpc : s.app <;> rw [hpc] at hs <;> simp only [needNone] at hs <;> first | cases hs | skip
  · exact ⟨rfl, hs⟩
  · rename_i i
    unfold apCosted at hs
    split at hs
    · simp [apCostedNew] at hs
    · simp [needNone] at hs
    · simp [needNone] at hs
  · rename_i now bs
    unfold apSweep at hs
    split at hs <;> first | cases hs | skip
    all_goals simp_all

theorem selItem_isRecv {cfg : Cfg} {s s' : State} (hs : step cfg s (.applier .selItem) = some s') : IsRecv s s' := by
  obtain ⟨_, hr⟩ := selItem_at_idle (show applierStep cfg s .selItem = some s' from hs)
  obtain ⟨x, s1, hrecv, hcl, hbuf, hq, hcm, _, _, hx⟩ := selItem_shape hr
  refine ⟨x, s1, hrecv, hbuf, hq, hcl, fun id h => by rw [hcm]; exact h, fun id hid => ?_⟩
  rcases hx with ⟨id', e1, e2⟩ | ⟨i, e1, _⟩
  · rw [e1] at hid; cases hid; exact Or.inl e2
  · rw [e1] at hid; cases hid

/-! ### length of the channel -/

def chanLen (s : State) : Nat := s.buf.length + s.sendq.length

/-- the pcs whose step sends on `setBuf` -/
def CPc.sends : CPc → Bool
  | .setSend _ => true | .delSend .. => true | .waitSend => true | _ => false

theorem recvBuf_len {s s1 : State} {x : BufElem} (hr : recvBuf s = some (x, s1)) :
    s1.buf.length + s1.sendq.length + 1 = s.buf.length + s.sendq.length := by
  obtain ⟨rest, hb, (⟨hsq, rfl⟩ | ⟨t0, e0, q, hsq, rfl⟩)⟩ := recvBuf_cases hr
  · simp [hb, hsq]
  · simp [hb, hsq]; omega

/-- only the sends of `Set`, `Del`, `Wait` make the channel longer -/
theorem chanLen_step {cfg : Cfg} {s s' : State} {x : Action} (hs : step cfg s x = some s') :
    chanLen s' ≤ chanLen s ∨ ∃ t ch, x = .client t ch ∧ (s.cl t).sends = true := by
  cases x with
  | spawn t0 c =>
    left; unfold chanLen; rw [spawnStep_buf s t0 c hs, spawnStep_sendq s t0 c hs]; exact Nat.le_refl _
  | tick d => simp only [step, Option.some.injEq] at hs; subst hs; exact Or.inl (Nat.le_refl _)
  | done t0 =>
    left; unfold chanLen; rw [doneStep_buf s t0 hs, doneStep_sendq s t0 hs]; exact Nat.le_refl _
  | applier ch =>
    left
    have hs' : applierStep cfg s ch = some s' := hs
    rcases applier_shape hs' with hp | hsp
    · unfold chanLen; rw [hp.buf, hp.sendq]; exact Nat.le_refl _
    · cases hsp with
      | selItem _ hr =>
        obtain ⟨x, s1, hrecv, _, hbuf, hq, _⟩ := selItem_shape hr
        have := recvBuf_len hrecv
        unfold chanLen; rw [hbuf, hq]; omega
      | selStop t0 _ hr =>
        unfold chanLen; rw [apSelStop_buf _ _ hr, apSelStop_sendq _ _ hr]; exact Nat.le_refl _
      | marker id _ he => subst he; exact Nat.le_refl _
  | client t0 ch =>
    have hs' : clientStep cfg s t0 ch = some s' := hs
    rcases client_shape hs' with hp | hsp
    · left; unfold chanLen; rw [hp.buf, hp.sendq]; exact Nat.le_refl _
    · cases hsp with
      | setSend i hpc he => exact Or.inr ⟨t0, ch, rfl, by rw [hpc]; rfl⟩
      | delSend h c hpc he => exact Or.inr ⟨t0, ch, rfl, by rw [hpc]; rfl⟩
      | waitSend hpc he => exact Or.inr ⟨t0, ch, rfl, by rw [hpc]; rfl⟩
      | drain c hpc he =>
        subst he; left
        rcases drain_shape s t0 c with ⟨_, he⟩ | ⟨x, s1, hrecv, _, hbuf, hq, _⟩
        · rw [he]; exact Nat.le_refl _
        · have := recvBuf_len hrecv
          unfold chanLen; rw [hbuf, hq]; omega
      | restart c hpc he =>
        subst he; left; unfold chanLen; rw [stClrRestart_buf, stClrRestart_sendq]; exact Nat.le_refl _
      | finish hpc he =>
        subst he; left; unfold chanLen; rw [stClsFinish_buf, stClsFinish_sendq]; exact Nat.le_refl _

/-! ### every change of a pc decreases `rankN 0` -/

theorem ext_rank {pc pc' : CPc} (h : Ext pc pc') (hne : pc ≠ .idle) : rankN 0 pc' < rankN 0 pc := by
  cases h <;> first | (simp only [rankN]; omega) | exact absurd rfl hne

/-- whenever the pc of a client inside a call changes, `rankN 0` strictly decreases -/
theorem change_rank {cfg : Cfg} {s s' : State} {x : Action} {t : Tid} (hs : step cfg s x = some s')
    (hwf : (s.cl t).wf = true) (hmid : s.cl t ≠ .idle) (hne : s'.cl t ≠ s.cl t) :
    rankN 0 (s'.cl t) < rankN 0 (s.cl t) := by
  rcases step_cl hs t with e | ⟨c, _, e, _⟩ | ⟨ch, _, e⟩ | ⟨_, e⟩
  · exact absurd e hne
  · exact absurd e hmid
  · by_cases hd : ∃ c, s.cl t = .clrDrain c
    · obtain ⟨c, hd⟩ := hd
      rw [hd] at e hne ⊢
      generalize s'.cl t = pc' at e hne ⊢
      cases e with
      | clrDrain_loop => exact absurd rfl hne
      | clrDrain_done => simp only [rankN]; omega
    · exact own_rank e hwf (fun c hc => hd ⟨c, hc⟩)
  · exact ext_rank e hmid

end RV.Cache
