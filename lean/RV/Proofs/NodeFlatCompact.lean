import RV.Proofs.NodeFlatSet
/-!
# Flat pages: `zeroOut` and `node.compact`

`Gen.Node.compact` (generated whole function: the copying loop, `zeroOut` of the freed slots,
`setNumKeys`, the placeholder rule, the "droppable" result) against `RV.Tree.nodeCompact` on the
entries of the page.
-/
namespace RV.NodeFlat
open RV.Tree (Key Val w w_toNat w_toInt w_slt w_sle w_beq SortedFrom)
open Gen.Tree

/-- `zeroOut(d)` zeroes every word. -/
theorem zeroOut_w (d : Page) (h63 : d.size < 2 ^ 63) :
    ∃ d', Gen.Node.zeroOut d = some d' ∧ d'.size = d.size ∧ ∀ j, j < d.size → d'[j]! = 0#64 := by
  unfold Gen.Node.zeroOut
  obtain ⟨s', he, hsz, hz⟩ := forRange_next (ρ := Page) (σ := Page) 0 d.size (Nat.zero_le _) h63
    Gen.Node.zeroOut_loop1 (fun i d' => d'.size = d.size ∧ ∀ j, j < i → d'[j]! = 0#64) d
    ⟨rfl, by intro j h; omega⟩
    (by
      intro i s _ hi ⟨hsz, hz⟩
      simp only [Gen.Node.zeroOut_loop1, wr_w 0#64 (show i < s.size by omega) (by omega), Option.bind_some]
      refine ⟨_, rfl, by rw [RV.size_set!]; exact hsz, ?_⟩
      intro j hj
      by_cases e : j = i
      · subst e; rw [RV.get!_set!_self _ _ _ (by omega)]
      · rw [RV.get!_set!_ne _ _ _ _ (Ne.symm e)]; exact hz j (by omega))
  rw [show (0#64 : BitVec 64) = w 0 from rfl, show BitVec.ofNat 64 d.size = w d.size from rfl, he]
  exact ⟨s', rfl, hsz, hz⟩

/-- `zeroOut(a[lo:hi])`: the words `lo … hi-1` become zero, the others stay. -/
theorem window_zeroOut_w (a : Page) {lo hi : Nat} (h1 : lo ≤ hi) (h2 : hi ≤ a.size) (h63 : a.size < 2 ^ 63) :
    ∃ a', Gen.window a (w lo) (w hi) (fun d => Gen.Node.zeroOut d) = some a' ∧ a'.size = a.size ∧
      ∀ j, a'[j]! = if lo ≤ j ∧ j < hi then 0#64 else a[j]! := by
  unfold Gen.window
  rw [winOk_w h1 h2 h63]
  simp only [if_true]
  rw [w_toNat (show lo < 2 ^ 64 by omega), w_toNat (show hi < 2 ^ 64 by omega)]
  have hes : (a.extract lo hi).size = hi - lo := by rw [Array.size_extract]; omega
  obtain ⟨d', hd, hsz, hz⟩ := zeroOut_w (a.extract lo hi) (by omega)
  rw [hd]
  simp only [Option.bind_some, hsz, hes, if_true]
  refine ⟨_, rfl, blit_size _ _ _, ?_⟩
  intro j
  by_cases hj : j < a.size
  · rw [blit_get _ _ _ _ hj, hsz, hes]
    by_cases hc : lo ≤ j ∧ j < hi
    · have hc' : lo ≤ j ∧ j < lo + (hi - lo) := by omega
      simp only [hc, hc', and_self, if_true]
      exact hz (j - lo) (by omega)
    · have hc' : ¬ (lo ≤ j ∧ j < lo + (hi - lo)) := by omega
      simp only [hc, hc', if_false]
  · rw [blit_get_ge _ _ _ _ (by omega)]
    have : ¬ (lo ≤ j ∧ j < hi) := by omega
    simp only [this, if_false]


variable {mk : Nat} {p : Page}

theorem entsUpTo_congr {q q' : Page} {n : Nat} (h : ∀ j, j < 2 * n → q'[j]! = q[j]!) :
    entsUpTo q' n = entsUpTo q n := by
  unfold entsUpTo
  apply List.map_congr_left
  intro i hi
  have hi' : i < n := List.mem_range.mp hi
  unfold keyW valW
  rw [h (2 * i) (by omega), h (2 * i + 1) (by omega)]

/-- which pairs `node.compact(lo)` keeps (`mkk` = the node's max key) -/
def keepB (lo : Val) (mkk : Key) (e : Key × Val) : Bool := !(compactSkip e.2 lo e.1 mkk)

/-- The loop of `node.compact`: the kept pairs are moved to the front, in order; the words from
`2*N` on are not touched. -/
theorem compact_loop_w (hs : p.size = 2 * (mk + 1)) (hmk : mk < 2 ^ 31) (N : Nat) (hN : N ≤ mk) (lo mkk : BitVec 64) :
    ∃ q L, Gen.forRange (w 0) (w N) (Gen.Node.compact_loop1 lo mkk) (p, w 0) = some (.done (q, w L) (w N)) ∧
      L ≤ N ∧ q.size = p.size ∧ (∀ j, 2 * N ≤ j → q[j]! = p[j]!) ∧
      entsUpTo q L = (entsUpTo p N).filter (keepB lo mkk) := by
  obtain ⟨s', he, L, hL, hLN, hsz, hun, hents⟩ := forRange_next (ρ := Page × BitVec 64) (σ := Page × BitVec 64)
    0 N (Nat.zero_le _) (by omega) (Gen.Node.compact_loop1 lo mkk)
    (fun r s => ∃ L, s.2 = w L ∧ L ≤ r ∧ s.1.size = p.size ∧ (∀ j, 2 * r ≤ j → s.1[j]! = p[j]!) ∧
      entsUpTo s.1 L = (entsUpTo p r).filter (keepB lo mkk))
    (p, w 0) ⟨0, rfl, Nat.le_refl _, rfl, fun _ _ => rfl, by simp [entsUpTo]⟩
    (by
      intro r s _ hr ⟨L, hL, hLr, hsz, hun, hents⟩
      obtain ⟨q, left⟩ := s
      simp only at hL hsz hun hents
      subst hL
      have h64 : q.size ≤ 2 ^ 64 := by omega
      have hv : valW q r = valW p r := hun (2 * r + 1) (by omega)
      have hk : keyW q r = keyW p r := hun (2 * r) (by omega)
      have hsucc : entsUpTo p (r + 1) = entsUpTo p r ++ [(keyW p r, valW p r)] := entsUpTo_succ p r
      have hskip : ((if BitVec.ult (valW p r) lo = true then
            (Gen.Node.key q (w r)).bind fun t_11 => some (BitVec.ult t_11 mkk) else some false)) =
          some (compactSkip (valW p r) lo (keyW p r) mkk) := by
        unfold compactSkip
        by_cases hc : BitVec.ult (valW p r) lo = true
        · simp only [hc, if_true, key_w (show 2 * r < q.size by omega) h64, Option.bind_some, hk, Bool.true_and]
        · simp only [hc, Bool.false_eq_true, if_false, Bool.false_and]
      simp only [Gen.Node.compact_loop1, val_w (show 2 * r + 1 < q.size by omega) h64, Option.bind_some, hv, hskip]
      by_cases hsk : compactSkip (valW p r) lo (keyW p r) mkk = true
      · -- skipped
        simp only [hsk, if_true]
        refine ⟨_, rfl, L, rfl, by omega, hsz, fun j hj => hun j (by omega), ?_⟩
        rw [hents, hsucc, List.filter_append]
        simp [keepB, hsk]
      · simp only [hsk, Bool.false_eq_true, if_false]
        have hfilt : (entsUpTo p (r + 1)).filter (keepB lo mkk) =
            (entsUpTo p r).filter (keepB lo mkk) ++ [(keyW p r, valW p r)] := by
          rw [hsucc, List.filter_append]
          simp [keepB, hsk]
        by_cases hlr : L = r
        · subst hlr
          have : (w L != w L) = false := by simp
          simp only [this, Bool.false_eq_true, if_false, Option.bind_some, w_add_one]
          refine ⟨_, rfl, L + 1, rfl, by omega, hsz, fun j hj => hun j (by omega), ?_⟩
          rw [hfilt, entsUpTo_succ, hents, hk, hv]
        · have hne : (w L != w r) = true := by
            rw [bne, w_beq (by omega) (by omega)]; simp [hlr]
          simp only [hne, if_true, keyOffset_w, w_add_one]
          obtain ⟨q', hq', hsz', hw'⟩ := copyWithin_w (a := q) (dlo := 2 * L) (slo := 2 * r) (n := 2)
            (by omega) (by omega) (by omega)
          rw [show 2 * (L + 1) = 2 * L + 2 by omega, show 2 * (r + 1) = 2 * r + 2 by omega, hq']
          simp only [Option.bind_some]
          refine ⟨_, rfl, L + 1, rfl, by omega, by simp only; omega, ?_, ?_⟩
          · intro j hj
            rw [hw' j]
            simp only [show ¬ (2 * L ≤ j ∧ j < 2 * L + 2) by omega, if_false]
            exact hun j (by omega)
          · rw [hfilt, entsUpTo_succ, ← hents]
            congr 1
            · apply entsUpTo_congr
              intro j hj
              rw [hw' j]
              simp only [show ¬ (2 * L ≤ j ∧ j < 2 * L + 2) by omega, if_false]
            · simp only [keyW, valW] at hk hv ⊢
              rw [hw' (2 * L), hw' (2 * L + 1)]
              simp only [show (2 * L ≤ 2 * L ∧ 2 * L < 2 * L + 2) by omega, show (2 * L ≤ 2 * L + 1 ∧ 2 * L + 1 < 2 * L + 2) by omega,
                show 2 * L - 2 * L = 0 by omega, show 2 * L + 1 - 2 * L = 1 by omega, Nat.add_zero, hk, hv, and_self, if_true])
  obtain ⟨q, left⟩ := s'
  simp only at hL hsz hun hents
  subst hL
  exact ⟨q, L, he, hLN, hsz, hun, hents⟩

/-- overwriting the value word of slot `i < numKeys` -/
theorem setVal_props {q : Page} (hs : q.size = 2 * (mk + 1)) {i : Nat} (hi : i < nkeys mk q) (hn : nkeys mk q ≤ mk) (v : Val) :
    metaW mk (q.set! (2 * i + 1) v) = metaW mk q ∧
    (∀ j, keyW (q.set! (2 * i + 1) v) j = keyW q j) ∧
    (∀ j, j ≠ i → valW (q.set! (2 * i + 1) v) j = valW q j) ∧
    valW (q.set! (2 * i + 1) v) i = v ∧
    pidW mk (q.set! (2 * i + 1) v) = pidW mk q ∧
    ents mk (q.set! (2 * i + 1) v) = (entsUpTo q (nkeys mk q)).set i (keyW q i, v) := by
  have hm : metaW mk (q.set! (2 * i + 1) v) = metaW mk q := by
    unfold metaW; rw [RV.get!_set!_ne _ _ _ _ (by omega)]
  have hk : ∀ j, keyW (q.set! (2 * i + 1) v) j = keyW q j := by
    intro j; unfold keyW; rw [RV.get!_set!_ne _ _ _ _ (by omega)]
  have hv : ∀ j, j ≠ i → valW (q.set! (2 * i + 1) v) j = valW q j := by
    intro j hj; unfold valW; rw [RV.get!_set!_ne _ _ _ _ (by omega)]
  have hvi : valW (q.set! (2 * i + 1) v) i = v := by
    unfold valW; rw [RV.get!_set!_self _ _ _ (by omega)]
  have hnk : nkeys mk (q.set! (2 * i + 1) v) = nkeys mk q := by unfold nkeys; rw [hm]
  refine ⟨hm, hk, hv, hvi, ?_, ?_⟩
  · unfold pidW; rw [RV.get!_set!_ne _ _ _ _ (by omega)]
  · apply ents_eq_of
    · rw [hnk]; simp [entsUpTo_length]
    · intro j hj
      simp only [List.length_set, entsUpTo_length] at hj
      rw [List.getElem?_set, entsUpTo_get?]
      by_cases e : i = j
      · subst e
        simp only [↓reduceIte, entsUpTo_length, hj, hk, hvi]
      · simp only [e, if_false, hj, if_true, hk, hv j (Ne.symm e)]

/-- Refinement of `node.compact`. -/
theorem compact_w (hok : PageOk mk p) (h1 : 1 ≤ mk) (hmk : mk < 2 ^ 31) (lo : Val) :
    ∃ p', Gen.Node.compact p (w mk) lo =
        some (p', w (RV.Tree.nodeCompact id (fun _ => 0#64) (ents mk p) lo).2) ∧
      p'.size = p.size ∧ ents mk p' = (RV.Tree.nodeCompact id (fun _ => 0#64) (ents mk p) lo).1 ∧
      nkeys mk p' ≤ nkeys mk p ∧
      pidW mk p' = pidW mk p ∧ kindBits mk p' = kindBits mk p ∧ leafBit mk p' = leafBit mk p ∧
      (∀ i, i < mk → nkeys mk p' ≤ i → keyW p' i = 0#64 ∧ valW p' i = 0#64) := by
  obtain ⟨hs, hn, hnz, _, hzero⟩ := hok
  have h64 : p.size ≤ 2 ^ 64 := by omega
  have hmax := maxKey_w hs hmk hn (fun h0 => ⟨h1, (hzero 0 (by omega) (by omega)).1⟩)
  generalize hmkk : RV.Tree.maxKey (ents mk p) = mkk at hmax
  obtain ⟨q, L, hloop, hLN, hsq, hun, hkept⟩ := compact_loop_w hs hmk (nkeys mk p) hn lo mkk
  obtain ⟨q1, hq1, hs1, hw1⟩ := window_zeroOut_w q (lo := 2 * L) (hi := 2 * nkeys mk p) (by omega) (by omega) (by omega)
  obtain ⟨q2, hq2, hs2, hmeta2, hw2⟩ := setNumKeys_w (p := q1) (mk := mk) (by omega) (by omega) (n := L) (by omega)
  have hm1 : metaW mk q1 = metaW mk p := by
    unfold metaW; rw [hw1]
    simp only [show ¬ (2 * L ≤ 2 * mk + 1 ∧ 2 * mk + 1 < 2 * nkeys mk p) by omega, if_false]
    exact hun _ (by omega)
  rw [hm1] at hmeta2
  have hnk2 : nkeys mk q2 = L := nkeys_of_meta hmeta2 (by omega)
  -- the words of q2
  have hq2w : ∀ j, j ≠ 2 * mk + 1 → q2[j]! = if 2 * L ≤ j ∧ j < 2 * nkeys mk p then 0#64 else q[j]! := by
    intro j hj; rw [hw2 j hj, hw1 j]
  have hlow : ∀ j, j < 2 * L → q2[j]! = q[j]! := by
    intro j hj; rw [hq2w j (by omega)]; simp only [show ¬ (2 * L ≤ j ∧ j < 2 * nkeys mk p) by omega, if_false]
  have hents2 : entsUpTo q2 L = (ents mk p).filter (keepB lo mkk) := by
    rw [entsUpTo_congr hlow, hkept]; rfl
  have hzero2 : ∀ i, i < mk → L ≤ i → keyW q2 i = 0#64 ∧ valW q2 i = 0#64 := by
    intro i hi hLi
    simp only [keyW, valW]
    rw [hq2w (2 * i) (by omega), hq2w (2 * i + 1) (by omega)]
    by_cases hc : i < nkeys mk p
    · simp only [show (2 * L ≤ 2 * i ∧ 2 * i < 2 * nkeys mk p) by omega,
        show (2 * L ≤ 2 * i + 1 ∧ 2 * i + 1 < 2 * nkeys mk p) by omega, and_self, if_true]
    · simp only [show ¬ (2 * L ≤ 2 * i ∧ 2 * i < 2 * nkeys mk p) by omega,
        show ¬ (2 * L ≤ 2 * i + 1 ∧ 2 * i + 1 < 2 * nkeys mk p) by omega, if_false]
      rw [hun _ (by omega), hun _ (by omega)]
      exact hzero i hi (by omega)
  have hpid2 : pidW mk q2 = pidW mk p := by
    unfold pidW; rw [hq2w _ (by omega)]
    simp only [show ¬ (2 * L ≤ 2 * mk ∧ 2 * mk < 2 * nkeys mk p) by omega, if_false]
    exact hun _ (by omega)
  have hk : (ents mk p).filter (fun e => !(compactSkip (id e.2) lo e.1 mkk)) = entsUpTo q2 L := hents2.symm
  unfold Gen.Node.compact RV.Tree.nodeCompact
  simp only [numKeys_w hs h64, hmax, Option.bind_some, hmkk, hk, entsUpTo_length]
  rw [show (0#64 : BitVec 64) = w 0 from rfl, hloop]
  simp only [Option.bind_some, keyOffset_w, hq1, hq2]
  have hkind2 : kindBits mk q2 = kindBits mk p := kindBits_of_meta hmeta2 (by omega)
  have hleaf2 : leafBit mk q2 = leafBit mk p := leafBit_of_meta hmeta2 (by omega)
  have hents_q2 : ents mk q2 = entsUpTo q2 L := by unfold ents; rw [hnk2]
  rcases Nat.eq_zero_or_pos L with hL0 | hLpos
  · -- nothing is left
    subst hL0
    have e1 : BitVec.slt (w 0) (w 0) = false := by rw [w_slt (by omega) (by omega)]; simp
    have e2 : (w 0 == (1#64 : BitVec 64)) = false := by decide
    simp only [e1, e2, Bool.false_eq_true, if_false, Option.bind_some, compactPlaceholder, compactDroppable,
      Bool.false_and]
    exact ⟨q2, rfl, by omega, hents_q2, by omega, hpid2, hkind2, hleaf2, by rw [hnk2]; exact hzero2⟩
  · have e1 : BitVec.slt (w 0) (w L) = true := by rw [w_slt (by omega) (by omega)]; simp [hLpos]
    have hget : (entsUpTo q2 L)[L - 1]? = some (keyW q2 (L - 1), valW q2 (L - 1)) := by
      rw [entsUpTo_get?]; simp [show L - 1 < L by omega]
    have hka : RV.Tree.keyAt (entsUpTo q2 L) (L - 1) = keyW q2 (L - 1) := by
      rw [keyAt_entsUpTo]; simp [show L - 1 < L by omega]
    simp only [e1, if_true, w_sub_one hLpos, key_w (show 2 * (L - 1) < q2.size by omega) (show q2.size ≤ 2 ^ 64 by omega),
      val_w (show 2 * (L - 1) + 1 < q2.size by omega) (show q2.size ≤ 2 ^ 64 by omega), Option.bind_some, hget, hka,
      valOffset_w, compactPlaceholder, Bool.true_and, id]
    have hget0 : ∀ es : List (Key × Val), (match es[0]? with | some e => e.2 | none => w 0) =
        (match es[0]? with | some e => e.2 | none => (0#64 : BitVec 64)) := fun _ => rfl
    by_cases hph : (keyW q2 (L - 1) == mkk && BitVec.ult (valW q2 (L - 1)) lo) = true
    · -- the max key becomes a placeholder
      have hph' := hph
      simp only [Bool.and_eq_true] at hph'
      obtain ⟨hmeta3, hk3, hv3, hvi3, hpid3, hents3⟩ :=
        setVal_props (q := q2) (mk := mk) (by omega) (i := L - 1) (by omega) (by omega) (0#64 : BitVec 64)
      rw [hnk2] at hents3
      have hnk3 : nkeys mk (q2.set! (2 * (L - 1) + 1) 0#64) = L := by unfold nkeys; rw [hmeta3]; exact hnk2
      simp only [hph'.1, hph'.2, if_true, Option.bind_some,
        setAt_w (w 0) (show 2 * (L - 1) + 1 < q2.size by omega) (show q2.size ≤ 2 ^ 64 by omega)]
      by_cases hL1 : L = 1
      · subst hL1
        have e2 : (w 1 == (1#64 : BitVec 64)) = true := by decide
        have hsz3 : (q2.set! (2 * (1 - 1) + 1) (w 0)).size = q2.size := RV.size_set! _ _ _
        simp only [e2, if_true, key_w (show 2 * 0 < (q2.set! (2 * (1 - 1) + 1) (w 0)).size by omega) (by omega),
          val_w (show 2 * 0 + 1 < (q2.set! (2 * (1 - 1) + 1) (w 0)).size by omega) (by omega), Option.bind_some,
          compactDroppable, Bool.true_and]
        have hk0 : keyW (q2.set! (2 * (1 - 1) + 1) (w 0)) 0 = keyW q2 0 := hk3 0
        have hv0 : valW (q2.set! (2 * (1 - 1) + 1) (w 0)) 0 = 0#64 := hvi3
        have hkk : (keyW q2 0 == mkk) = true := hph'.1
        have hset : ((entsUpTo q2 1).set (1 - 1) (keyW q2 (1 - 1), w 0)) = [(keyW q2 0, 0#64)] := by
          simp [entsUpTo, List.range_succ]
        simp only [hk0, hv0, hkk, if_true, hset, RV.Tree.keyAt_cons_zero, List.getElem?_cons_zero, Bool.true_and]
        refine ⟨q2.set! (2 * (1 - 1) + 1) (w 0), ?_, by omega, ?_, by rw [show nkeys mk (q2.set! (2 * (1 - 1) + 1) (w 0)) = 1 from hnk3]; exact hLN, by rw [hpid3, hpid2],
          by unfold kindBits; rw [hmeta3]; exact hkind2, by unfold leafBit; rw [hmeta3]; exact hleaf2, ?_⟩
        · by_cases hu : BitVec.ult (0#64 : BitVec 64) lo = true
          · simp only [hu, if_true]; rfl
          · simp only [hu, Bool.false_eq_true, if_false]; rfl
        · rw [hents3]; exact hset
        · intro i hi hni
          rw [hnk3] at hni
          have := hzero2 i hi hni
          rw [hk3, hv3 i (by omega)]; exact this
      · have e2 : (w L == (1#64 : BitVec 64)) = false := by
          rw [show (1#64 : BitVec 64) = w 1 from rfl, w_beq (by omega) (by omega)]; simp [hL1]
        simp only [e2, Bool.false_eq_true, if_false, Option.bind_some, compactDroppable, Bool.false_and]
        refine ⟨q2.set! (2 * (L - 1) + 1) (w 0), rfl, by rw [RV.size_set!]; omega, hents3, by rw [show nkeys mk (q2.set! (2 * (L - 1) + 1) (w 0)) = L from hnk3]; exact hLN, by rw [hpid3, hpid2],
          by unfold kindBits; rw [hmeta3]; exact hkind2, by unfold leafBit; rw [hmeta3]; exact hleaf2, ?_⟩
        intro i hi hni
        rw [hnk3] at hni
        have := hzero2 i hi hni
        rw [hk3, hv3 i (by omega)]; exact this
    · -- no placeholder
      have hsc : (if (keyW q2 (L - 1) == mkk) = true then some (BitVec.ult (valW q2 (L - 1)) lo) else some false) =
          some false := by
        by_cases hc : (keyW q2 (L - 1) == mkk) = true
        · simp only [hc, if_true]
          congr 1
          simpa [hc] using hph
        · simp only [hc, Bool.false_eq_true, if_false]
      simp only [hsc, hph, Option.bind_some, Bool.false_eq_true, if_false]
      by_cases hL1 : L = 1
      · subst hL1
        have e2 : (w 1 == (1#64 : BitVec 64)) = true := by decide
        have hg0 : (entsUpTo q2 1)[0]? = some (keyW q2 0, valW q2 0) := by rw [entsUpTo_get?]; simp
        have hka0 : RV.Tree.keyAt (entsUpTo q2 1) 0 = keyW q2 0 := by rw [keyAt_entsUpTo]; simp
        simp only [e2, if_true, key_w (show 2 * 0 < q2.size by omega) (show q2.size ≤ 2 ^ 64 by omega),
          val_w (show 2 * 0 + 1 < q2.size by omega) (show q2.size ≤ 2 ^ 64 by omega), Option.bind_some,
          compactDroppable, Bool.true_and, hg0, hka0]
        refine ⟨q2, ?_, by omega, hents_q2, by omega, hpid2, hkind2, hleaf2, by rw [hnk2]; exact hzero2⟩
        by_cases hkk : (keyW q2 0 == mkk) = true
        · simp only [hkk, if_true, Option.bind_some, Bool.true_and]
          by_cases hu : BitVec.ult (valW q2 0) lo = true
          · simp only [hu, if_true]
          · simp only [hu, Bool.false_eq_true, if_false]
        · simp only [hkk, Bool.false_eq_true, if_false, Option.bind_some, Bool.false_and]
      · have e2 : (w L == (1#64 : BitVec 64)) = false := by
          rw [show (1#64 : BitVec 64) = w 1 from rfl, w_beq (by omega) (by omega)]; simp [hL1]
        simp only [e2, Bool.false_eq_true, if_false, Option.bind_some, compactDroppable, Bool.false_and]
        exact ⟨q2, rfl, by omega, hents_q2, by omega, hpid2, hkind2, hleaf2, by rw [hnk2]; exact hzero2⟩

theorem sortedFrom_filter {β : Type} (f : Key × β → Bool) {lo : Key} {es : List (Key × β)}
    (h : SortedFrom lo es) : SortedFrom lo (es.filter f) := by
  induction es generalizing lo with
  | nil => exact h
  | cons e rest ih =>
    simp only [List.filter]
    cases f e
    · exact ih (h.2.mono (by have := h.1; bv_omega))
    · exact ⟨h.1, ih h.2⟩

theorem sortedFrom_set_val {β : Type} {lo : Key} {es : List (Key × β)} (i : Nat) (e : Key × β)
    (hi : es[i]? = some e) (x : β) (h : SortedFrom lo es) : SortedFrom lo (es.set i (e.1, x)) := by
  induction es generalizing lo i with
  | nil => exact h
  | cons a rest ih =>
    cases i with
    | zero =>
      simp only [List.getElem?_cons_zero, Option.some.injEq] at hi
      subst hi
      exact ⟨h.1, h.2⟩
    | succ j =>
      simp only [List.getElem?_cons_succ] at hi
      exact ⟨h.1, ih j hi h.2⟩

/-- `nodeCompact` keeps the entries sorted (it only drops entries and clears value words). -/
theorem nodeCompact_sorted {β : Type} (valOf : β → Val) (clear : β → β) {lo : Key} {es : List (Key × β)}
    (h : SortedFrom lo es) (ts : Val) : SortedFrom lo (RV.Tree.nodeCompact valOf clear es ts).1 := by
  unfold RV.Tree.nodeCompact
  simp only
  have hk := sortedFrom_filter (fun e => !(compactSkip (valOf e.2) ts e.1 (RV.Tree.maxKey es))) h
  generalize es.filter (fun e => !(compactSkip (valOf e.2) ts e.1 (RV.Tree.maxKey es))) = kept at hk
  cases hg : kept[kept.length - 1]? with
  | none =>
    simp only []
    split <;> exact hk
  | some e =>
    simp only []
    split
    · exact sortedFrom_set_val _ e hg _ hk
    · exact hk

/-- `node.compact` keeps the page well-formed. -/
theorem compact_pageOk (hok : PageOk mk p) (h1 : 1 ≤ mk) (hmk : mk < 2 ^ 31) (lo : Val) (p' : Page) (r : BitVec 64)
    (hp : Gen.Node.compact p (w mk) lo = some (p', r)) : PageOk mk p' := by
  obtain ⟨q, hq, hsz, hents, hnk, _, _, _, hz⟩ := compact_w hok h1 hmk lo
  rw [hq] at hp
  injection hp with hp
  injection hp with hp1 hp2
  subst hp1
  obtain ⟨hs, hn, hsorted, _⟩ := pageOk_iff.mp hok
  apply pageOk_iff.mpr
  refine ⟨by omega, by omega, ?_, hz⟩
  rw [hents]
  exact nodeCompact_sorted _ _ hsorted lo


end RV.NodeFlat
