import RV.Proofs.CacheTTLFairMain
/-!
# C14 liveness under fairness (3): witness executions

* `quiet_lasso` — a finite run from the initial state to a state in which everybody is idle and the next
  bucket grab finds nothing, followed by the applier's ticker loop forever (`selTick`, grab, empty sweep;
  the clock stands still): `Fair`, `DrainsEnd`, `TickFair`.
* `reclaim_execution_exists` — NON-VACUITY of `eventually_reclaimed`: `SetWithTTL(1 ↦ 7, 1 s)` is applied,
  the clock passes the expiration by more than a bucket period, the ticker fires, the sweep reclaims the
  entry; all hypotheses hold (the clock is sane at all times) and the entry is reclaimed.
* `clock_needed_counterexample` — `ClockPasses` cannot be dropped: the clock stops at 3 s; the entry
  (expiration 1 s, bucket 1) has expired, every actor is treated fairly, the ticker fires forever, but no
  sweep covers bucket 1 (cleanup bucket of 3 s = 0): the entry is never reclaimed.
-/
namespace RV.Cache
open Gen.Cache

variable {cfg : Cfg}

instance amapDecEqTTLFair {κ ν : Type} [DecidableEq κ] [DecidableEq ν] : DecidableEq (AMap κ ν) :=
  inferInstanceAs (DecidableEq (List (κ × ν)))

theorem em_ext {a b : Em} (h1 : a.buckets = b.buckets) (h2 : a.lastCleaned = b.lastCleaned) : a = b := by
  cases a; cases b; simp_all

/-! ### the ticker loop on a quiet state with a frozen clock -/

/-- nothing is going on, and the bucket grab at the current clock finds nothing -/
structure Quiet (b : State) : Prop where
  idle : b.app = .idle
  cl : ∀ t, b.cl t = .idle
  buf : b.buf = []
  g1 : (b.em.grab b.clock).1.buckets = b.em.buckets
  g2 : (b.em.grab b.clock).1.lastCleaned = b.em.lastCleaned
  g3 : (b.em.grab b.clock).2 = []

def FrozenPI (b : State) (p : Nat) (s : State) : Prop :=
  s.cl = b.cl ∧ s.buf = b.buf ∧ s.em = b.em ∧ s.clock = b.clock ∧ s.store = b.store ∧ s.pol = b.pol ∧
  s.log = b.log ∧
  ((p = 0 ∧ s.app = .idle) ∨ (p = 1 ∧ s.app = .tick) ∨ (p = 2 ∧ s.app = .sweep b.clock []))

theorem frozen_step {b : State} (hq : Quiet b) (p : Nat) (s : State) (h : FrozenPI b p s) :
    ∃ s', step cfg s (tickActs p) = some s' ∧ FrozenPI b ((p + 1) % 3) s' := by
  obtain ⟨h1, h2, h3, h4, h5, h6, h7, h8⟩ := h
  rcases h8 with ⟨rfl, ha⟩ | ⟨rfl, ha⟩ | ⟨rfl, ha⟩
  · exact ⟨{ s with app := .tick }, by simp [tickActs, step, applierStep, ha, apIdle],
      h1, h2, h3, h4, h5, h6, h7, Or.inr (Or.inl ⟨rfl, rfl⟩)⟩
  · refine ⟨apTick s, by simp [tickActs, step, applierStep, ha, needNone], h1, h2, ?_, h4, h5, h6, h7,
      Or.inr (Or.inr ⟨rfl, ?_⟩)⟩
    · show (s.em.grab s.clock).1 = b.em
      rw [h3, h4]; exact em_ext hq.g1 hq.g2
    · show APc.sweep s.clock (s.em.grab s.clock).2 = _
      rw [h3, h4, hq.g3]
  · exact ⟨{ s with app := .idle }, by simp [tickActs, step, applierStep, ha, apSweep, firstNonEmpty],
      h1, h2, h3, h4, h5, h6, h7, Or.inl ⟨rfl, rfl⟩⟩

theorem tickActs_noClose (p : Nat) : (tickActs p).isClose = false := by
  unfold tickActs; split <;> rfl

theorem tickActs_applier (p : Nat) : ∃ ch, tickActs p = .applier ch := by
  unfold tickActs; split
  · exact ⟨_, rfl⟩
  · exact ⟨_, rfl⟩

/-- **A lasso.**  A finite run from the initial state (created at clock 0) to a `Quiet` state, then the
ticker loop forever. -/
theorem quiet_lasso {acts : List Action} {b : State} (hnc : NoCloseRun acts)
    (hrun : run cfg (init cfg 0) acts = some b) (hq : Quiet b) :
    ∃ e : Exec cfg, e.st 0 = init cfg 0 ∧ Fair e ∧ DrainsEnd e ∧ TickFair e ∧ CreatedAt e 0 ∧
      (∀ k, k ≤ acts.length → run cfg (init cfg 0) (acts.take k) = some (e.st k)) ∧
      (∀ k, k < acts.length → acts[k]? = some (e.act k)) ∧
      (∀ n, (e.st (acts.length + n)).store = b.store ∧ (e.st (acts.length + n)).clock = b.clock ∧
        (e.st (acts.length + n)).pol = b.pol ∧ (e.st (acts.length + n)).log = b.log) := by
  have hr : ReachNC cfg b := reachNC_of_run (now := 0) hnc hrun
  obtain ⟨e, he0, hpi⟩ := exec_of_cycle 3 tickActs (FrozenPI b) b hr
    ⟨rfl, rfl, rfl, rfl, rfl, rfl, rfl, Or.inl ⟨rfl, hq.idle⟩⟩
    (fun p s _ _ h => frozen_step hq p s h) (by decide) tickActs_noClose
  have hweak : WeakFair e := by
    intro a i
    cases a with
    | client t =>
      exact ⟨i, Nat.le_refl _, Or.inl (idle_not_enabled (by rw [(hpi i).1.1]; exact hq.cl t))⟩
    | applier =>
      obtain ⟨j, hij, hj⟩ := cycle_hits (m := 3) (p := 0) (by decide) i
      exact ⟨j, hij, Or.inr (by rw [(hpi j).2, hj]; rfl)⟩
  have hsel : SelectFair e := by
    constructor
    · intro i hr
      obtain ⟨j, _, s', hs⟩ := hr i (Nat.le_refl _)
      obtain ⟨_, h1⟩ := selItem_at_idle (show applierStep cfg (e.st j) .selItem = some s' from hs)
      obtain ⟨x, s1, hrecv, _⟩ := selItem_shape h1
      obtain ⟨rest, hb, _⟩ := recvBuf_cases hrecv
      rw [(hpi j).1.2.1, hq.buf] at hb; cases hb
    · intro t i hr
      obtain ⟨j, _, s', hs⟩ := hr i (Nat.le_refl _)
      obtain ⟨_, h1⟩ := selStop_at_idle (show applierStep cfg (e.st j) (.selStop t) = some s' from hs)
      obtain ⟨_, _, (⟨c, h2, _⟩ | ⟨h2, _⟩)⟩ := selStop_shape h1
      · rw [(hpi j).1.1, hq.cl t] at h2; cases h2
      · rw [(hpi j).1.1, hq.cl t] at h2; cases h2
  obtain ⟨e', htail, hpre, hacts⟩ := exec_prepend e acts (init cfg 0) (.init 0) hnc (by rw [he0]; exact hrun)
  have hfair : Fair e' := fair_of_tail htail ⟨hweak, hsel⟩
  have hcease : SendsCease e' := by
    refine ⟨acts.length, fun j hj t ch hact => ?_⟩
    have := (htail (j - acts.length)).2
    rw [show acts.length + (j - acts.length) = j by omega, (hpi _).2] at this
    rw [this] at hact
    obtain ⟨ch', h'⟩ := tickActs_applier ((j - acts.length) % 3)
    rw [h'] at hact; cases hact
  refine ⟨e', prepend_start hpre, hfair, drainsEnd_of_sendsCease hfair.weak hcease, ?_, ?_, hpre, hacts, ?_⟩
  · intro i _
    obtain ⟨j, hij, hj⟩ := cycle_hits (m := 3) (p := 0) (by decide) i
    refine ⟨acts.length + j, by omega, ?_⟩
    rw [(htail j).2, (hpi j).2, hj]; rfl
  · exact ⟨[], by rw [prepend_start hpre]; rfl⟩
  · intro n
    rw [(htail n).1]
    obtain ⟨_, _, _, h4, h5, h6, h7, _⟩ := (hpi n).1
    exact ⟨h5, h4, h6, h7⟩

/-! ### non-vacuity: an execution in which an entry expires and is reclaimed -/

/-- the entry written by `SetWithTTL(1 ↦ 7, cost 1, ttl 1 s)` at clock 0 -/
def ttlEntry : Entry := ⟨0#64, 7, 1000000000⟩

/-- `SetWithTTL(1 ↦ 7, cost 1, ttl 1 s)` at clock 0, applied and admitted (9 steps) -/
def exTTLSet : List Action :=
  [ .spawn 0 (.set 1#64 0#64 7 1 1000000000), .client 0 .none, .client 0 .none, .client 0 .none, .client 0 .none,
    .applier .selItem, .applier .none, .applier (.add [] true), .applier .none ]

/-- … the clock advances to 20 s, then to 40 s; the ticker fires, the sweep visits key 1 -/
def exTTLReclaim : List Action :=
  exTTLSet ++ [ .tick 20000000000, .tick 20000000000, .applier .selTick, .applier .none, .applier (.key 1#64),
    .applier .none, .applier .none, .applier .none, .applier .none ]

def isSwKeyOf (k : Hash) : APc → Bool
  | .swKey _ k' _ _ => k' == k
  | _ => false

theorem isSwKeyOf_eq {k : Hash} {pc : APc} (h : isSwKeyOf k pc = true) : ∃ now c bs, pc = .swKey now k c bs := by
  cases pc <;> simp [isSwKeyOf] at h
  subst h; exact ⟨_, _, _, rfl⟩

set_option maxRecDepth 100000 in
theorem exTTLReclaim_store : ∀ k : Fin 19,
    (run exCfg1 (init exCfg1 0) (exTTLReclaim.take k)).map (fun s => s.store.lookup 1#64) =
      some (if 9 ≤ k.val ∧ k.val ≤ 14 then some ttlEntry else none) := by decide

set_option maxRecDepth 100000 in
theorem exTTLReclaim_end :
    (run exCfg1 (init exCfg1 0) exTTLReclaim).map (fun s => (s.cl 0, s.buf, appIsIdle s, s.clock)) =
      some (.idle, [], true, 40000000000) ∧
    (run exCfg1 (init exCfg1 0) exTTLReclaim).map (fun s =>
      (decide ((s.em.grab s.clock).1.buckets = s.em.buckets),
       decide ((s.em.grab s.clock).1.lastCleaned = s.em.lastCleaned), (s.em.grab s.clock).2.length)) =
      some (true, true, 0) ∧
    (run exCfg1 (init exCfg1 0) exTTLReclaim).map (fun s => (s.pol.costs.lookup 1#64, s.log.take 2)) =
      some (none, [.exit 7, .evict 1#64 0#64 7 1]) := by decide

set_option maxRecDepth 100000 in
theorem exTTLReclaim_mid :
    ((run exCfg1 (init exCfg1 0) (exTTLReclaim.take 10)).map (fun s => s.clock) = some 20000000000) ∧
    ((run exCfg1 (init exCfg1 0) (exTTLReclaim.take 11)).map (fun s => s.clock) = some 40000000000) ∧
    ((run exCfg1 (init exCfg1 0) (exTTLReclaim.take 14)).map (fun s => isSwKeyOf 1#64 s.app) = some true) := by
  decide

set_option maxRecDepth 100000 in
theorem exTTLReclaim_fresh :
    (∀ k : Fin 19, (run exCfg1 (init exCfg1 0) (exTTLReclaim.take k)).map (fun s => decide (Fresh s.log)) = some true) ∧
    (run exCfg1 (init exCfg1 0) (exTTLReclaim.take 9)).map (fun s => decide (Ev.setExp 0 7 1000000000 ∈ s.log)) =
      some true := by decide

/-- all clocks of an execution lie between the creation clock and the clock reached later -/
theorem timeOk_of_le {e : Exec cfg} {j n : Nat} {lo hi : Time} (hlo : TimeOk lo) (hhi : TimeOk hi)
    (h0 : (e.st 0).clock = lo) (hn : (e.st n).clock = hi) (hjn : j ≤ n) : TimeOk (e.st j).clock := by
  have h1 := e.clock_mono (Nat.zero_le j)
  have h2 := e.clock_mono hjn
  rw [h0] at h1; rw [hn] at h2
  exact timeOk_between hlo hhi h1 h2

theorem timeOk_small {t : Time} (h0 : 0 ≤ t) (h1 : t ≤ 40000000000) : TimeOk t := by
  unfold TimeOk; simp only [Time] at *; omega

/-- **Non-vacuity.**  An execution from the initial state satisfying every hypothesis of
`eventually_reclaimed` (for key 1, the entry `ttlEntry`, `i = 9`) — and with a sane clock at ALL times —
in which the entry is resident exactly at times 9 … 14, is removed by the sweep's `DelExpired` step at
time 14, and at time 18 (applier back at its `select`) the cost is released and the log ends with
`evict 1 _ 7 1`, `exit 7`. -/
theorem reclaim_execution_exists :
    ∃ e : Exec exCfg1, e.st 0 = init exCfg1 0 ∧ Fair e ∧ DrainsEnd e ∧ TickFair e ∧ CreatedAt e 0 ∧
      (∀ j, TimeOk (e.st j).clock) ∧ ClockPasses e 9 ttlEntry.exp ∧
      (∀ j, (e.st j).store.lookup 1#64 = if 9 ≤ j ∧ j ≤ 14 then some ttlEntry else none) ∧
      OnlySweepChanges e 1#64 ttlEntry 9 ∧ SweepDelAt e 1#64 14 ∧
      (e.st 18).pol.costs.lookup 1#64 = none ∧ (e.st 18).log.take 2 = [.exit 7, .evict 1#64 0#64 7 1] ∧
      (∀ j, Fresh (e.st j).log) ∧ Ev.setExp 0 7 1000000000 ∈ (e.st 9).log := by
  have hend := exTTLReclaim_end
  cases hfull : run exCfg1 (init exCfg1 0) exTTLReclaim with
  | none => rw [hfull] at hend; simp at hend
  | some b =>
    rw [hfull] at hend
    simp only [Option.map_some, Option.some.injEq, Prod.mk.injEq, decide_eq_true_eq] at hend
    obtain ⟨⟨hc0, hbuf, happ, hclk⟩, ⟨hg1, hg2, hg3⟩, hpol, hlog⟩ := hend
    have hnc : NoCloseRun exTTLReclaim := noClose_of_all (by decide)
    have hidle : ∀ t, b.cl t = .idle := by
      intro t
      by_cases e0 : t = 0
      · subst e0; exact hc0
      · exact unspawned_idle (s0 := init exCfg1 0) rfl
          (not_spawn_of_spawnsOnly (ts := [0]) (by decide) (by simp [e0])) hfull
    have hq : Quiet b := ⟨appIsIdle_eq happ, hidle, hbuf, hg1, hg2, List.length_eq_zero_iff.mp hg3⟩
    obtain ⟨e, he0, hfair, hdrain, htf, hcre, hpre, hacts, htail⟩ := quiet_lasso hnc hfull hq
    have hlen : exTTLReclaim.length = 18 := rfl
    -- the store entry of key 1 at every time
    have hst : ∀ j, (e.st j).store.lookup 1#64 = if 9 ≤ j ∧ j ≤ 14 then some ttlEntry else none := by
      intro j
      by_cases hj : j ≤ 18
      · have h1 := exTTLReclaim_store ⟨j, by omega⟩
        rw [hpre j (by omega)] at h1
        simpa using h1
      · have h1 := exTTLReclaim_store ⟨18, by omega⟩
        rw [hpre 18 (by omega)] at h1
        have h2 := (htail (j - 18)).1
        rw [hlen, show 18 + (j - 18) = j by omega] at h2
        have h3 := (htail 0).1
        rw [hlen] at h3
        rw [h2, ← h3]
        have : ¬ (9 ≤ j ∧ j ≤ 14) := by omega
        simpa [this] using h1
    have hmid := exTTLReclaim_mid
    rw [hpre 10 (by omega), hpre 11 (by omega), hpre 14 (by omega)] at hmid
    simp only [Option.map_some, Option.some.injEq] at hmid
    obtain ⟨hc10, hc11, hsw⟩ := hmid
    have hc18 : (e.st 18).clock = 40000000000 := by
      have := (htail 0).2.1; rw [hlen] at this; rw [this]; exact hclk
    have hc0' : (e.st 0).clock = 0 := by rw [he0]; rfl
    have hsane : ∀ j, TimeOk (e.st j).clock := by
      intro j
      by_cases hj : j ≤ 18
      · exact timeOk_of_le (timeOk_small (Int.le_refl _) (by decide)) (timeOk_small (by decide) (Int.le_refl _))
          hc0' hc18 hj
      · have := (htail (j - 18)).2.1
        rw [hlen, show 18 + (j - 18) = j by omega] at this
        rw [this, hclk]; exact timeOk_small (by decide) (Int.le_refl _)
    have hdel : SweepDelAt e 1#64 14 := by
      obtain ⟨now, c, bs, h⟩ := isSwKeyOf_eq hsw
      have ha := hacts 14 (by omega)
      exact ⟨now, c, bs, h, .none, (Option.some.inj ha).symm⟩
    have hfr : ∀ j, Fresh (e.st j).log := by
      intro j
      by_cases hj : j ≤ 18
      · have h1 := exTTLReclaim_fresh.1 ⟨j, by omega⟩
        rw [hpre j (by omega)] at h1
        simpa using h1
      · have h1 := exTTLReclaim_fresh.1 ⟨18, by omega⟩
        rw [hpre 18 (by omega)] at h1
        have h2 := (htail (j - 18)).2.2.2
        rw [hlen, show 18 + (j - 18) = j by omega] at h2
        have h3 := (htail 0).2.2.2
        rw [hlen] at h3
        rw [h2, ← h3]
        simpa using h1
    have hse : Ev.setExp 0 7 1000000000 ∈ (e.st 9).log := by
      have h1 := exTTLReclaim_fresh.2
      rw [hpre 9 (by omega)] at h1
      simpa using h1
    refine ⟨e, he0, hfair, hdrain, htf, hcre, hsane, ?_, hst, ?_, hdel, ?_, ?_, hfr, hse⟩
    · exact ⟨10, by omega, by rw [hc10]; decide, 11, by rw [hc10, hc11]; decide⟩
    · intro j hj h1 h2
      rw [hst] at h1 h2
      by_cases h14 : j = 14
      · subst h14; exact hdel
      · exfalso
        split at h1
        · rename_i hr
          have : 9 ≤ j + 1 ∧ j + 1 ≤ 14 := by omega
          simp [this] at h2
        · cases h1
    · have := (htail 0).2.2.1; rw [hlen] at this; rw [this]; exact hpol
    · have := (htail 0).2.2.2; rw [hlen] at this; rw [this]; exact hlog

/-! ### `ClockPasses` cannot be dropped -/

/-- `SetWithTTL(1 ↦ 7, 1 s)` applied; the clock advances to 3 s (the entry has expired) and stops -/
def exTTLFrozen : List Action := exTTLSet ++ [ .tick 3000000000 ]

set_option maxRecDepth 100000 in
theorem exTTLFrozen_store : ∀ k : Fin 11,
    (run exCfg1 (init exCfg1 0) (exTTLFrozen.take k)).map (fun s => s.store.lookup 1#64) =
      some (if 9 ≤ k.val then some ttlEntry else none) := by decide

set_option maxRecDepth 100000 in
theorem exTTLFrozen_end :
    (run exCfg1 (init exCfg1 0) exTTLFrozen).map (fun s => (s.cl 0, s.buf, appIsIdle s, s.clock)) =
      some (.idle, [], true, 3000000000) ∧
    (run exCfg1 (init exCfg1 0) exTTLFrozen).map (fun s =>
      (decide ((s.em.grab s.clock).1.buckets = s.em.buckets),
       decide ((s.em.grab s.clock).1.lastCleaned = s.em.lastCleaned), (s.em.grab s.clock).2.length,
       s.em.buckets.size)) = some (true, true, 0, 1) := by decide

/-- **The clock must pass the expiration by a bucket period.**  Every other hypothesis of
`eventually_reclaimed` holds — `Fair`, `DrainsEnd`, `TickFair` (the ticker fires again and again), sane
clock, nobody touches the entry — but the clock stops at 3 s: the entry of key 1 (expiration 1 s, hence
expired; registered in bucket 1, which the sweep covers from 5 s on) stays in the store forever. -/
theorem clock_needed_counterexample :
    ∃ e : Exec exCfg1, e.st 0 = init exCfg1 0 ∧ Fair e ∧ DrainsEnd e ∧ TickFair e ∧ CreatedAt e 0 ∧
      (∀ j, TimeOk (e.st j).clock) ∧ OnlySweepChanges e 1#64 ttlEntry 9 ∧
      ¬ ClockPasses e 9 ttlEntry.exp ∧ ¬ ClockAdvances e ∧
      ∀ j, 10 ≤ j → (e.st j).store.lookup 1#64 = some ttlEntry ∧ (e.st j).clock = 3000000000 ∧
        ttlEntry.exp < (e.st j).clock := by
  have hend := exTTLFrozen_end
  cases hfull : run exCfg1 (init exCfg1 0) exTTLFrozen with
  | none => rw [hfull] at hend; simp at hend
  | some b =>
    rw [hfull] at hend
    simp only [Option.map_some, Option.some.injEq, Prod.mk.injEq, decide_eq_true_eq] at hend
    obtain ⟨⟨hc0, hbuf, happ, hclk⟩, hg1, hg2, hg3, _⟩ := hend
    have hnc : NoCloseRun exTTLFrozen := noClose_of_all (by decide)
    have hidle : ∀ t, b.cl t = .idle := by
      intro t
      by_cases e0 : t = 0
      · subst e0; exact hc0
      · exact unspawned_idle (s0 := init exCfg1 0) rfl
          (not_spawn_of_spawnsOnly (ts := [0]) (by decide) (by simp [e0])) hfull
    have hq : Quiet b := ⟨appIsIdle_eq happ, hidle, hbuf, hg1, hg2, List.length_eq_zero_iff.mp hg3⟩
    obtain ⟨e, he0, hfair, hdrain, htf, hcre, hpre, hacts, htail⟩ := quiet_lasso hnc hfull hq
    have hlen : exTTLFrozen.length = 10 := rfl
    have hst : ∀ j, 9 ≤ j → (e.st j).store.lookup 1#64 = some ttlEntry := by
      intro j h9
      by_cases hj : j ≤ 10
      · have h1 := exTTLFrozen_store ⟨j, by omega⟩
        rw [hpre j (by omega)] at h1
        simpa [h9] using h1
      · have h1 := exTTLFrozen_store ⟨10, by omega⟩
        rw [hpre 10 (by omega)] at h1
        have h2 := (htail (j - 10)).1
        rw [hlen, show 10 + (j - 10) = j by omega] at h2
        have h3 := (htail 0).1
        rw [hlen] at h3
        rw [h2, ← h3]
        simpa using h1
    have hc10 : ∀ j, 10 ≤ j → (e.st j).clock = 3000000000 := by
      intro j hj
      have := (htail (j - 10)).2.1
      rw [hlen, show 10 + (j - 10) = j by omega] at this
      rw [this, hclk]
    have hle : ∀ j, (e.st j).clock ≤ 3000000000 := by
      intro j
      by_cases hj : j ≤ 10
      · have := e.clock_mono hj; rwa [hc10 10 (Nat.le_refl _)] at this
      · rw [hc10 j (by omega)]; exact Int.le_refl _
    have hc0' : (e.st 0).clock = 0 := by rw [he0]; rfl
    have hsane : ∀ j, TimeOk (e.st j).clock := by
      intro j
      have h1 := e.clock_mono (Nat.zero_le j)
      rw [hc0'] at h1
      have h2 := hle j
      exact timeOk_small h1 (by simp only [Time] at *; omega)
    refine ⟨e, he0, hfair, hdrain, htf, hcre, hsane, ?_, ?_, ?_, ?_⟩
    · intro j hj h1 h2
      exact absurd (hst (j + 1) (by omega)) h2
    · rintro ⟨m, _, hm, _⟩
      have := hle m
      simp only [ttlEntry, Time] at *
      omega
    · intro hca
      obtain ⟨j, hj⟩ := hca 4000000000
      have := hle j
      simp only [Time] at *
      omega
    · intro j hj
      exact ⟨hst j (by omega), hc10 j hj, by rw [hc10 j hj]; decide⟩

end RV.Cache
