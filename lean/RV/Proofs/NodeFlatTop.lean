import RV.Proofs.NodeFlatCompact
/-!
# Flat pages: `moveRight` in slot form, `key(i)` = `keyAt`, the page `newNode` makes
-/
namespace RV.NodeFlat
open RV.Tree (Key Val w w_toNat w_toInt w_slt w_sle w_beq SortedFrom)
open Gen.Tree
variable {mk : Nat} {p : Page}

/-- `moveRight(lo)` in terms of slots: the pairs `lo … numKeys-1` move one slot up (slot `lo` keeps
its old content), nothing else changes — in particular neither the count nor the header words. -/
theorem moveRight_slots (hs : p.size = 2 * (mk + 1)) (hmk : mk < 2 ^ 31) {lo : Nat} (hlo : lo ≤ nkeys mk p)
    (hn : nkeys mk p < mk) :
    ∃ p', Gen.Node.moveRight p (w mk) (w lo) = some p' ∧ p'.size = p.size ∧
      metaW mk p' = metaW mk p ∧ pidW mk p' = pidW mk p ∧
      ∀ i, i < mk → (keyW p' i, valW p' i) =
        if lo < i ∧ i ≤ nkeys mk p then (keyW p (i - 1), valW p (i - 1)) else (keyW p i, valW p i) := by
  obtain ⟨p', hp, hsz, hw⟩ := moveRight_w hs hmk hlo hn
  refine ⟨p', hp, hsz, ?_, ?_, ?_⟩
  · unfold metaW; rw [hw]
    simp only [show ¬ (2 * lo + 2 ≤ 2 * mk + 1 ∧ 2 * mk + 1 < 2 * nkeys mk p + 2) by omega, if_false]
  · unfold pidW; rw [hw]
    simp only [show ¬ (2 * lo + 2 ≤ 2 * mk ∧ 2 * mk < 2 * nkeys mk p + 2) by omega, if_false]
  · intro i hi
    unfold keyW valW
    rw [hw (2 * i), hw (2 * i + 1)]
    by_cases hc : lo < i ∧ i ≤ nkeys mk p
    · simp only [hc, and_self, if_true, show (2 * lo + 2 ≤ 2 * i ∧ 2 * i < 2 * nkeys mk p + 2) by omega,
        show (2 * lo + 2 ≤ 2 * i + 1 ∧ 2 * i + 1 < 2 * nkeys mk p + 2) by omega,
        show 2 * i - 2 = 2 * (i - 1) by omega, show 2 * i + 1 - 2 = 2 * (i - 1) + 1 by omega]
    · simp only [hc, if_false, show ¬ (2 * lo + 2 ≤ 2 * i ∧ 2 * i < 2 * nkeys mk p + 2) by omega,
        show ¬ (2 * lo + 2 ≤ 2 * i + 1 ∧ 2 * i + 1 < 2 * nkeys mk p + 2) by omega]

/-- `key(i)` of a well-formed page is the model's `keyAt`: a slot behind `numKeys` reads 0
(what `Tree.set`'s `n.key(idx) == 0` relies on). -/
theorem key_keyAt (hok : PageOk mk p) (hmk : mk < 2 ^ 31) {i : Nat} (hi : i < mk) :
    Gen.Node.key p (w i) = some (RV.Tree.keyAt (ents mk p) i) := by
  obtain ⟨hs, hn, _, _, hzero⟩ := hok
  rw [key_w (by omega) (by omega), keyAt_ents]
  by_cases h : i < nkeys mk p
  · simp only [h, if_true]
  · simp only [h, if_false]; rw [(hzero i hi (by omega)).1]

/-- a page as `newNode` makes it: zeroed, kind bit, page id -/
theorem newNode_page (hmk : mk < 2 ^ 31) (leaf : Bool) (pid : BitVec 64) :
    ∃ p1 p2, Gen.Node.setBit (zeroPage mk) (w mk) (if leaf then bitLeaf else 0#64) = some p1 ∧
      Gen.Node.setAt p1 (keyOffset (w mk)) pid = some p2 ∧
      PageOk mk p2 ∧ ents mk p2 = [] ∧ pidW mk p2 = pid ∧ leafBit mk p2 = leaf ∧
      metaW mk p2 = RV.Tree.metaWord leaf 0 := by
  have hzs : (zeroPage mk).size = 2 * (mk + 1) := by simp [zeroPage]
  have hz : ∀ j : Nat, (zeroPage mk)[j]! = 0#64 := by
    intro j
    unfold zeroPage
    by_cases h : j < 2 * (mk + 1)
    · rw [getElem!_pos _ j (by simpa using h)]; simp
    · rw [getElem!_neg _ j (by simpa using h)]; rfl
  have hb : (if leaf then bitLeaf else (0#64 : BitVec 64)).toNat % 2 ^ 32 = 0 := by cases leaf <;> decide
  obtain ⟨p1, h1, hs1, hm1, hw1⟩ := setBit_w (p := zeroPage mk) (mk := mk) hzs (by omega) _ hb
  have hs1' : p1.size = 2 * (mk + 1) := by omega
  rw [keyOffset_w]
  refine ⟨p1, p1.set! (2 * mk) pid, h1, setAt_w pid (by omega) (by omega), ?_⟩
  have hmeta : metaW mk (p1.set! (2 * mk) pid) = (if leaf then bitLeaf else 0#64) := by
    unfold metaW at hm1 ⊢
    rw [RV.get!_set!_ne _ _ _ _ (by omega)]
    apply BitVec.eq_of_toNat_eq
    rw [hm1, hz]; simp
  have hnk : nkeys mk (p1.set! (2 * mk) pid) = 0 := by
    unfold nkeys; rw [hmeta]; cases leaf <;> decide
  have hwords : ∀ j : Nat, j < 2 * mk → (p1.set! (2 * mk) pid)[j]! = 0#64 := by
    intro j hj; rw [RV.get!_set!_ne _ _ _ _ (by omega), hw1 j (by omega), hz]
  refine ⟨?_, ?_, ?_, ?_, ?_⟩
  · refine ⟨by rw [RV.size_set!]; omega, by omega, ?_, ?_, ?_⟩
    · intro i hi; omega
    · intro i hi; omega
    · intro i hi _
      unfold keyW valW
      exact ⟨hwords _ (by omega), hwords _ (by omega)⟩
  · unfold ents; rw [hnk]; rfl
  · unfold pidW; rw [RV.get!_set!_self _ _ _ (by omega)]
  · unfold leafBit; rw [hmeta]; cases leaf <;> decide
  · rw [hmeta]; cases leaf <;> decide


end RV.NodeFlat
