import RV.Proofs.CacheFifoNext
/-!
# C05: a completed `Del` followed by a completed `Wait` leaves `k` gone

The phases are read off the part of the log the run appended (`new`, newest first):
`DelDone k new` — some `delRet _ k` whose `delCall` is also in `new`; `WaitAfterDel k tw new` —
a `waitCall tw` logged after that; `WaitDone k new` — a `waitRet tw` after that.
`DelPhase k s new` ties them to ghost predicates on the state:

* a client whose tombstone has been enqueued (in the run): the tombstone covers (`SafeQ`);
* `DelDone`: the same, for good;
* a waiting client whose `Wait` was called after `DelDone`: its marker is behind the covering
  tombstone;
* `WaitDone`: `closed ∨ Gone ∨ ClearPending`.
-/
namespace RV.Cache
open Gen.Cache

/-- cache closed (every later `Get` misses), or `SafeQ` -/
def CS (k : Hash) (Q : List BufElem → Prop) (s : State) : Prop := s.closed = true ∨ SafeQ k Q s

theorem CS.mono {k : Hash} {Q Q' : List BufElem → Prop} {s : State} (h : CS k Q s) (hq : ∀ b, Q b → Q' b) :
    CS k Q' s := h.imp id (fun h => h.mono hq)

theorem cs_step {cfg : Cfg} {k : Hash} {Q : List BufElem → Prop} {s s' : State} {a : Action} (hQ : PushStable Q)
    (hr : Reach cfg s) (hns : NoSetK k s) (hconf : ConfAgree k s.log) (hs : step cfg s a = some s')
    (h : CS k Q s) : CS k Q s' := by
  rcases h with h | h
  · exact Or.inl ((step_mono hs).2.1 h)
  · exact Or.inr (safeQ_step hQ hr hns hconf hs h)

theorem pushStable_true : PushStable (fun _ => True) := fun _ _ _ => trivial
theorem pushStable_false : PushStable (fun _ => False) := fun _ _ h => h
theorem pushStable_mem (e0 : BufElem) : PushStable (fun b => e0 ∈ b) := fun _ _ h => List.mem_append.mpr (Or.inl h)

/-! ### no `Set` of `k` begins unless it is spawned -/

def Action.isSpawnSet (k : Hash) : Action → Prop
  | .spawn _ (.set h _ _ _ _) => h = k
  | _ => False

theorem unblocked_setKey {pc : CPc} (h : pc.blocked = true) : (unblockedPc pc).setKey? = none := by
  cases pc <;> simp [CPc.blocked] at h <;> rfl

theorem noSetK_step {cfg : Cfg} {k : Hash} {s s' : State} {a : Action} (hq : QueueInv cfg s) (hns : NoSetK k s)
    (ha : ¬ a.isSpawnSet k) (hs : step cfg s a = some s') : NoSetK k s' := by
  intro t hin
  rw [CPc.inSetK_iff] at hin
  have hold : (s.cl t).setKey? ≠ some k := fun e => hns t ((CPc.inSetK_iff k _).mpr e)
  by_cases hown : a.owner t
  · cases a with
    | spawn t0 c =>
      simp only [Action.owner] at hown; subst hown
      obtain ⟨_, e⟩ := spawn_next (show spawnStep s t0 c = some s' from hs)
      rw [e] at hin
      cases c <;> simp [CPc.setKey?] at hin
      exact ha hin
    | client t0 ch =>
      simp only [Action.owner] at hown; subst hown
      rcases setKey_clientStep (show clientStep cfg s t0 ch = some s' from hs) with e | e
      · rw [e] at hin; cases hin
      · rw [e] at hin; exact hold hin
    | done t0 =>
      simp only [Action.owner] at hown; subst hown
      have := done_next (show doneStep s t0 = some s' from hs)
      cases hpc : s'.cl t0 <;> simp [hpc, CPc.setKey?] at hin <;> (rw [hpc] at this; exact core_true_ne this rfl)
    | applier ch =>
      cases ch with
      | selStop t0 =>
        simp only [Action.owner] at hown; subst hown
        have := selStop_next (applier_selStop hs).2
        cases hpc : s'.cl t0 <;> simp [hpc, CPc.setKey?] at hin <;> (rw [hpc] at this; exact core_true_ne this rfl)
      | _ => simp [Action.owner] at hown
    | tick d => simp [Action.owner] at hown
  · rcases step_cl_f hq hs t hown with e | ⟨hb, e⟩
    · rw [e] at hin; exact hold hin
    · rw [e, unblocked_setKey hb] at hin; cases hin

/-! ### the phases, as predicates on the appended part of the log (newest first) -/

def DelDone (k : Hash) : List Ev → Prop
  | [] => False
  | ev :: l => DelDone k l ∨ ∃ td, ev = .delRet td k ∧ ∃ c, .delCall td k c ∈ l

def WaitAfterDel (k : Hash) (tw : Tid) : List Ev → Prop
  | [] => False
  | ev :: l => WaitAfterDel k tw l ∨ (ev = .waitCall tw ∧ DelDone k l)

def WaitDone (k : Hash) : List Ev → Prop
  | [] => False
  | ev :: l => WaitDone k l ∨ ∃ tw, ev = .waitRet tw ∧ WaitAfterDel k tw l

theorem DelDone.mono {k : Hash} {l : List Ev} (h : DelDone k l) (evs : List Ev) : DelDone k (evs ++ l) := by
  induction evs with
  | nil => exact h
  | cons e r ih => exact Or.inl ih

theorem WaitAfterDel.mono {k : Hash} {tw : Tid} {l : List Ev} (h : WaitAfterDel k tw l) (evs : List Ev) :
    WaitAfterDel k tw (evs ++ l) := by
  induction evs with
  | nil => exact h
  | cons e r ih => exact Or.inl ih

theorem WaitDone.mono {k : Hash} {l : List Ev} (h : WaitDone k l) (evs : List Ev) : WaitDone k (evs ++ l) := by
  induction evs with
  | nil => exact h
  | cons e r ih => exact Or.inl ih

theorem WaitAfterDel.delDone {k : Hash} {tw : Tid} {l : List Ev} (h : WaitAfterDel k tw l) : DelDone k l := by
  induction l with
  | nil => exact h
  | cons e r ih =>
    rcases h with h | ⟨_, h⟩
    · exact Or.inl (ih h)
    · exact Or.inl h

theorem DelDone.of_append {k : Hash} {evs l : List Ev} (h : DelDone k (evs ++ l)) :
    DelDone k l ∨ ∃ td c, .delRet td k ∈ evs ∧ .delCall td k c ∈ evs ++ l := by
  induction evs with
  | nil => exact Or.inl h
  | cons e r ih =>
    rcases h with h | ⟨td, rfl, c, hc⟩
    · rcases ih h with h1 | ⟨td, c, h1, h2⟩
      · exact Or.inl h1
      · exact Or.inr ⟨td, c, List.mem_cons_of_mem _ h1, List.mem_cons_of_mem _ h2⟩
    · exact Or.inr ⟨td, c, by simp, List.mem_cons_of_mem _ hc⟩

theorem WaitAfterDel.of_append {k : Hash} {tw : Tid} {evs l : List Ev} (h : WaitAfterDel k tw (evs ++ l)) :
    WaitAfterDel k tw l ∨ .waitCall tw ∈ evs := by
  induction evs with
  | nil => exact Or.inl h
  | cons e r ih =>
    rcases h with h | ⟨rfl, _⟩
    · rcases ih h with h1 | h1
      · exact Or.inl h1
      · exact Or.inr (List.mem_cons_of_mem _ h1)
    · exact Or.inr (by simp)

theorem WaitDone.of_append {k : Hash} {evs l : List Ev} (h : WaitDone k (evs ++ l)) :
    WaitDone k l ∨ ∃ tw, .waitRet tw ∈ evs ∧ WaitAfterDel k tw (evs ++ l) := by
  induction evs with
  | nil => exact Or.inl h
  | cons e r ih =>
    rcases h with h | ⟨tw, rfl, hw⟩
    · rcases ih h with h1 | ⟨tw, h1, h2⟩
      · exact Or.inl h1
      · exact Or.inr ⟨tw, List.mem_cons_of_mem _ h1, Or.inl h2⟩
    · exact Or.inr ⟨tw, by simp, Or.inl hw⟩

/-- readable form: `… waitRet tw … waitCall tw … delRet td k … delCall td k c …` (newest first) -/
theorem WaitDone.of_shape {k : Hash} {td tw : Tid} {c : Conf} {l4 l3 l2 l1 l0 : List Ev} :
    WaitDone k (l4 ++ .waitRet tw :: (l3 ++ .waitCall tw :: (l2 ++ .delRet td k :: (l1 ++ .delCall td k c :: l0)))) := by
  apply WaitDone.mono (evs := l4)
  refine Or.inr ⟨tw, rfl, ?_⟩
  apply WaitAfterDel.mono (evs := l3)
  refine Or.inr ⟨rfl, ?_⟩
  apply DelDone.mono (evs := l2)
  exact Or.inr ⟨td, rfl, c, by simp⟩

/-! ### the run invariant -/

structure DelPhase (k : Hash) (s : State) (new : List Ev) : Prop where
  nos : NoSetK k s
  p1 : ∀ td, (s.cl td = .delBlocked k ∨ s.cl td = .delSent k) → (∃ c, .delCall td k c ∈ new) → CS k (fun _ => True) s
  p2 : DelDone k new → CS k (fun _ => True) s
  p3 : ∀ tw id, (s.cl tw = .waitBlocked id ∨ s.cl tw = .waitRecv id) → WaitAfterDel k tw new →
    CS k (fun b => .marker id ∈ b) s
  p4 : ∀ tw, s.cl tw = .waitDone → WaitAfterDel k tw new → CS k (fun _ => False) s
  p5 : WaitDone k new → CS k (fun _ => False) s

theorem DelPhase.init {k : Hash} {s : State} (h : NoSetK k s) : DelPhase k s [] :=
  ⟨h, fun _ _ ⟨_, hc⟩ => (by cases hc), fun h => False.elim h, fun _ _ _ h => False.elim h, fun _ _ h => False.elim h, fun h => False.elim h⟩

/-- a marker that is closed is not pending: `Covers … (marker id ∈ ·)` is impossible -/
theorem cs_marker_closed {cfg : Cfg} {k : Hash} {s : State} {id : Nat} (hq : QueueInv cfg s)
    (hc : id ∈ s.closedMarkers) (h : CS k (fun b => .marker id ∈ b) s) : CS k (fun _ => False) s := by
  rcases h with h | h | h | ⟨f, T, back, h1, _, _, h4⟩
  · exact Or.inl h
  · exact Or.inr (Or.inl h)
  · exact Or.inr (Or.inr (Or.inl h))
  · exfalso
    refine hq.mk_open id (mem_markerIds.mpr ?_) hc
    rw [h1]; simp [h4]

/-- owner steps never lead to the pcs of a sent tombstone / marker except the two send steps -/
theorem owner_cases {cfg : Cfg} {s s' : State} {a : Action} {t : Tid} (hs : step cfg s a = some s')
    (hown : a.owner t) :
    (∃ ch, a = .client t ch ∧ NextPc cfg s (s.cl t) (s'.cl t)) ∨ ((s'.cl t).core = false) ∨
    (∃ c, a = .spawn t c ∧ s.cl t = .idle) := by
  cases a with
  | spawn t0 c =>
    simp only [Action.owner] at hown; subst hown
    exact Or.inr (Or.inr ⟨c, rfl, (spawn_next (show spawnStep s t0 c = some s' from hs)).1⟩)
  | client t0 ch =>
    simp only [Action.owner] at hown; subst hown
    exact Or.inl ⟨ch, rfl, client_next (show clientStep cfg s t0 ch = some s' from hs)⟩
  | done t0 =>
    simp only [Action.owner] at hown; subst hown
    exact Or.inr (Or.inl (done_next (show doneStep s t0 = some s' from hs)))
  | applier ch =>
    cases ch with
    | selStop t0 =>
      simp only [Action.owner] at hown; subst hown
      exact Or.inr (Or.inl (selStop_next (applier_selStop hs).2))
    | _ => simp [Action.owner] at hown
  | tick d => simp [Action.owner] at hown

theorem DelPhase.step {cfg : Cfg} {k : Hash} {s s' : State} {a : Action} {new evs : List Ev}
    (hr : Reach cfg s) (hconf : ConfAgree k s.log) (ha : ¬ a.isSpawnSet k) (hs : step cfg s a = some s')
    (hl : s'.log = evs ++ s.log) (hal : ∀ e ∈ evs, Allowed s a e) (h : DelPhase k s new) :
    DelPhase k s' (evs ++ new) := by
  have hq := queue_inv hr
  have stab : ∀ {Q : List BufElem → Prop}, PushStable Q → CS k Q s → CS k Q s' :=
    fun hQ hc => cs_step hQ hr h.nos hconf hs hc
  -- call events in `evs` mean that the action is a spawn; return events that it is a client step
  have hcall_del : ∀ td c, .delCall td k c ∈ evs → a = .spawn td (.del k c) := fun td c hm => hal _ hm
  have hcall_wait : ∀ tw, .waitCall tw ∈ evs → a = .spawn tw .wait := fun tw hm => hal _ hm
  have spawn_pc : ∀ t c, a = .spawn t c → s.cl t = .idle ∧ (s'.cl t).blocked = false ∧
      (∀ h, s'.cl t ≠ .delSent h) ∧ (∀ id, s'.cl t ≠ .waitRecv id) ∧ s'.cl t ≠ .waitDone := by
    intro t c e; subst e
    obtain ⟨h1, h2⟩ := spawn_next (show spawnStep s t c = some s' from hs)
    rw [h2]
    cases c <;> simp [h1, CPc.blocked]
  constructor
  · exact noSetK_step hq h.nos ha hs
  · -- p1
    intro td hpc ⟨c, hc⟩
    by_cases hown : a.owner td
    · rcases owner_cases hs hown with ⟨ch, rfl, hn⟩ | hcore | ⟨c', rfl, _⟩
      · -- the client's own step: it must be `stDelSend`
        have hsend : ∃ c', s.cl td = .delSend k c' := next_delSent hn hpc
        obtain ⟨c', hpc0⟩ := hsend
        have hs' : clientStep cfg s td ch = some s' := hs
        simp only [clientStep, hpc0] at hs'
        obtain ⟨_, hs'⟩ := needNone_some hs'
        simp only [Option.some.injEq] at hs'; subst hs'
        refine Or.inr (Or.inr (Or.inr ⟨pending s, tomb k c', [], tomb_enqueued .., ⟨rfl, rfl⟩, ?_, trivial⟩))
        intro e he; cases he
      · exfalso
        rcases hpc with e | e <;> (rw [e] at hcore; exact core_true_ne hcore rfl)
      · exfalso
        obtain ⟨_, hb, hd, _, _⟩ := spawn_pc td c' rfl
        rcases hpc with e | e
        · rw [e] at hb; simp [CPc.blocked] at hb
        · exact hd k e
    · have hc' : ∃ c, .delCall td k c ∈ new := by
        rcases List.mem_append.mp hc with h1 | h1
        · exfalso; have := hcall_del td c h1; subst this; exact hown (by simp [Action.owner])
        · exact ⟨c, h1⟩
      apply stab pushStable_true
      rcases step_cl_f hq hs td hown with e | ⟨hb, e⟩
      · rw [e] at hpc; exact h.p1 td hpc hc'
      · refine h.p1 td (Or.inl ?_) hc'
        rw [e] at hpc
        cases hpc0 : s.cl td <;> simp [hpc0, CPc.blocked, unblockedPc] at hb hpc ⊢
        exact hpc
  · -- p2
    intro hd
    rcases hd.of_append with h1 | ⟨td, c, h1, h2⟩
    · exact stab pushStable_true (h.p2 h1)
    · have hA := hal _ h1
      simp only [Allowed] at hA
      obtain ⟨ch, rfl, hpc⟩ := hA
      have hc' : ∃ c, .delCall td k c ∈ new := by
        rcases List.mem_append.mp h2 with h3 | h3
        · have := hcall_del td c h3; cases this
        · exact ⟨c, h3⟩
      apply stab pushStable_true
      rcases hpc with hpc | ⟨_, _, hcl⟩
      · exact h.p1 td (Or.inr hpc) hc'
      · exact Or.inl hcl
  · -- p3
    intro tw id hpc hw
    have hw' : WaitAfterDel k tw new := by
      rcases hw.of_append with h1 | h1
      · exact h1
      · exfalso
        have := hcall_wait tw h1
        obtain ⟨_, hb, _, hr', _⟩ := spawn_pc tw _ this
        rcases hpc with e | e
        · rw [e] at hb; simp [CPc.blocked] at hb
        · exact hr' id e
    by_cases hown : a.owner tw
    · rcases owner_cases hs hown with ⟨ch, rfl, hn⟩ | hcore | ⟨c', rfl, _⟩
      · have hsend : s.cl tw = .waitSend ∧ id = s.nextMarker := next_waitSent hn hpc
        obtain ⟨hpc0, rfl⟩ := hsend
        have hs' : clientStep cfg s tw ch = some s' := hs
        simp only [clientStep, hpc0] at hs'
        obtain ⟨_, hs'⟩ := needNone_some hs'
        simp only [Option.some.injEq] at hs'; subst hs'
        have hks := kstep k hr h.nos hconf hs
        rcases h.p2 hw'.delDone with hc | hg | hcp | ⟨f, T, back, h1, h2, h3, _⟩
        · exact Or.inl ((step_mono hs).2.1 hc)
        · exact Or.inr (Or.inl (gone_kstep hg hks))
        · rcases clearPending_kstep hcp hks with h1 | h1
          · exact Or.inr (Or.inr (Or.inl h1))
          · exact Or.inr (Or.inl h1)
        · refine Or.inr (Or.inr (Or.inr ⟨f, T, back ++ [.marker s.nextMarker], ?_, h2, h3.append (by simp [BufElem.isSetK]), by simp⟩))
          rw [marker_enqueued, h1]; simp
      · exfalso
        rcases hpc with e | e <;> (rw [e] at hcore; exact core_true_ne hcore rfl)
      · exfalso
        obtain ⟨_, hb, _, hr', _⟩ := spawn_pc tw c' rfl
        rcases hpc with e | e
        · rw [e] at hb; simp [CPc.blocked] at hb
        · exact hr' id e
    · apply stab (pushStable_mem _)
      rcases step_cl_f hq hs tw hown with e | ⟨hb, e⟩
      · rw [e] at hpc; exact h.p3 tw id hpc hw'
      · refine h.p3 tw id (Or.inl ?_) hw'
        rw [e] at hpc
        cases hpc0 : s.cl tw <;> simp [hpc0, CPc.blocked, unblockedPc] at hb hpc ⊢
        exact hpc
  · -- p4
    intro tw hpc hw
    have hw' : WaitAfterDel k tw new := by
      rcases hw.of_append with h1 | h1
      · exact h1
      · exfalso
        have := hcall_wait tw h1
        obtain ⟨_, _, _, _, hd⟩ := spawn_pc tw _ this
        exact hd hpc
    by_cases hown : a.owner tw
    · rcases owner_cases hs hown with ⟨ch, rfl, hn⟩ | hcore | ⟨c', rfl, _⟩
      · have hrecv : ∃ id, s.cl tw = .waitRecv id ∧ id ∈ s.closedMarkers := by
          rw [hpc] at hn; exact next_waitDone hn
        obtain ⟨id, hpc0, hcl⟩ := hrecv
        exact stab pushStable_false (cs_marker_closed hq hcl (h.p3 tw id (Or.inr hpc0) hw'))
      · exfalso; rw [hpc] at hcore; exact core_true_ne hcore rfl
      · exfalso
        obtain ⟨_, _, _, _, hd⟩ := spawn_pc tw c' rfl
        exact hd hpc
    · apply stab pushStable_false
      rcases step_cl_f hq hs tw hown with e | ⟨hb, e⟩
      · rw [e] at hpc; exact h.p4 tw hpc hw'
      · exfalso
        rw [e] at hpc
        cases hpc0 : s.cl tw <;> simp [hpc0, CPc.blocked, unblockedPc] at hb hpc
  · -- p5
    intro hd
    rcases hd.of_append with h1 | ⟨tw, h1, h2⟩
    · exact stab pushStable_false (h.p5 h1)
    · have hA := hal _ h1
      simp only [Allowed] at hA
      obtain ⟨ch, rfl, hpc⟩ := hA
      have hw' : WaitAfterDel k tw new := by
        rcases h2.of_append with h3 | h3
        · exact h3
        · have := hcall_wait tw h3; cases this
      apply stab pushStable_false
      rcases hpc with hpc | ⟨_, hcl⟩
      · exact h.p4 tw hpc hw'
      · exact Or.inl hcl

end RV.Cache
