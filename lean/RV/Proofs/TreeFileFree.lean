import RV.Proofs.TreeFileTree
/-!
# C16, part 2: the free list is reconstructed (head by the `tailPages` computation, order by
the links), and the round trip `reinit (encode t) = t`
-/
namespace RV.Tree
open Gen.Tree

/-! ## the walk lists the reachable page ids -/

mutual
theorem walkNode_pids : ∀ (n : Node), (walkNode n).map (·.pid) = pids n
  | .null => by rw [walkNode, pids]; rfl
  | .leaf p es => by rw [walkNode, pids]; rfl
  | .inner p es => by
    rw [walkNode, pids, List.map_cons, walkEnts_pids es]
theorem walkEnts_pids : ∀ (es : List (Key × Node)), (walkEnts es).map (·.pid) = pidsEnts es
  | [] => by rw [walkEnts, pidsEnts]; rfl
  | (k, c) :: rest => by
    rw [walkEnts, pidsEnts, List.map_append, walkNode_pids c, walkEnts_pids rest]
end

/-! ## lists without duplicates -/

theorem nodup_singleton_of_mem {l : List Nat} {a : Nat} (hnd : l.Nodup) (h : ∀ x, x ∈ l ↔ x = a) : l = [a] := by
  cases l with
  | nil => have := (h a).mpr rfl; cases this
  | cons x rest =>
    have hx : x = a := (h x).mp (by simp)
    subst hx
    cases rest with
    | nil => rfl
    | cons y r' =>
      have hy : y = x := (h y).mp (by simp)
      subst hy
      have := (List.nodup_cons.mp hnd).1
      simp at this

theorem length_eq_of_nodup_mem {l1 l2 : List Nat} (h1 : l1.Nodup) (h2 : l2.Nodup) (h : ∀ x, x ∈ l1 ↔ x ∈ l2) :
    l1.length = l2.length := by
  apply List.Perm.length_eq
  rw [List.perm_iff_count]
  intro x
  rw [h1.count, h2.count]
  by_cases hx : x ∈ l1
  · simp [hx, (h x).mp hx]
  · have : x ∉ l2 := fun h' => hx ((h x).mpr h')
    simp [hx, this]

/-! ## the links of the free list -/

/-- the link stored in free page `q` -/
def nextOf (F : List Nat) (q : Nat) : Nat := (freeNext F q).getD 0

theorem freeNext_at {P : List Nat} {q : Nat} {S : List Nat} (hnd : (P ++ q :: S).Nodup) :
    freeNext (P ++ q :: S) q = some (S.headD 0) := by
  induction P with
  | nil =>
    simp only [List.nil_append, freeNext, if_true]
    cases S <;> rfl
  | cons a P' ih =>
    have hnd' : (a :: (P' ++ q :: S)).Nodup := hnd
    have ha : a ≠ q := by
      intro e
      have := (List.nodup_cons.mp hnd').1
      apply this; rw [e]; simp
    simp only [List.cons_append, freeNext, ha, if_false]
    exact ih (List.nodup_cons.mp hnd').2

/-- in a duplicate-free list of non-zero page ids, the non-zero links are exactly the tail -/
theorem links_eq_tail : ∀ (F : List Nat), F.Nodup → (∀ p ∈ F, p ≠ 0) →
    ∀ y, (∃ p ∈ F, nextOf F p = y ∧ y ≠ 0) ↔ y ∈ F.tail
  | [], _, _ => by intro y; simp
  | [a], _, _ => by
    intro y
    simp only [nextOf, freeNext, List.tail_cons, List.not_mem_nil, iff_false]
    rintro ⟨p, hp, h1, h2⟩
    have : p = a := by simpa using hp
    subst this
    simp at h1
    exact h2 h1.symm
  | a :: b :: rest, hnd, hpos => by
    intro y
    have hnd' := (List.nodup_cons.mp hnd).2
    have ha := (List.nodup_cons.mp hnd).1
    have ih := links_eq_tail (b :: rest) hnd' (fun p hp => hpos p (List.mem_cons_of_mem _ hp)) y
    have hnext : ∀ p ∈ b :: rest, nextOf (a :: b :: rest) p = nextOf (b :: rest) p := by
      intro p hp
      have : a ≠ p := by intro e; rw [e] at ha; exact ha hp
      simp only [nextOf, freeNext, this, if_false]
    have hnext_a : nextOf (a :: b :: rest) a = b := by simp [nextOf, freeNext]
    simp only [List.tail_cons]
    constructor
    · rintro ⟨p, hp, hy, hy0⟩
      rcases List.mem_cons.mp hp with rfl | hp
      · rw [hnext_a] at hy; rw [← hy]; simp
      · rw [hnext p hp] at hy
        have := ih.mp ⟨p, hp, hy, hy0⟩
        simp only [List.tail_cons] at this
        exact List.mem_cons_of_mem _ this
    · intro hy
      rcases List.mem_cons.mp hy with rfl | hy
      · exact ⟨a, by simp, hnext_a, hpos _ (by simp)⟩
      · have : y ∈ (b :: rest).tail := by simpa using hy
        obtain ⟨p, hp, h1, h2⟩ := ih.mpr this
        exact ⟨p, List.mem_cons_of_mem _ hp, by rw [hnext p hp]; exact h1, h2⟩

/-! ## the `tailPages` computation -/

theorem pages_eq (M : Nat) : (List.range M).map (· + 1) = List.range' 1 M := by
  rw [List.range'_eq_map_range]
  apply List.map_congr_left
  intro a _; omega

/-- facts about the free pages of a tree satisfying the page invariant -/
theorem free_facts (t : Tree) (hp : PidInv t) :
    t.a.free.Nodup ∧ (∀ p ∈ t.a.free, p ∉ pids t.root) ∧ (∀ p ∈ t.a.free, 1 ≤ p ∧ p < t.a.nextPage) ∧
    (∀ p ∈ t.a.free, encodePage t p = Page.free (nextOf t.a.free p)) := by
  have hnd := List.nodup_append.mp hp.nodup
  refine ⟨hnd.2.1, fun p hpF hpR => hnd.2.2 p hpR p hpF rfl, ?_, ?_⟩
  · intro p hpF
    exact (hp.mem_iff p).mp (List.mem_append_right _ hpF)
  · intro p hpF
    have hpR : p ∉ pids t.root := fun hpR => hnd.2.2 p hpR p hpF rfl
    obtain ⟨nx, e⟩ := freeNext_some t.a.free p hpF
    unfold encodePage nextOf
    rw [findNode_none t.root p hpR, e]; rfl

/-- the pages below the frontier that the walk does not reach are exactly the free pages -/
theorem nonTail_mem (t : Tree) (hp : PidInv t) (x : Nat) :
    x ∈ ((List.range (t.a.nextPage - 1)).map (· + 1)).filter (fun p => !(pids t.root).contains p) ↔ x ∈ t.a.free := by
  obtain ⟨_, f2, f3, _⟩ := free_facts t hp
  have h1 := hp.1
  rw [pages_eq, List.mem_filter, List.mem_range'_1]
  simp only [Bool.not_eq_true', List.contains_eq_mem, decide_eq_false_iff_not]
  constructor
  · rintro ⟨hr, hn⟩
    have := (hp.mem_iff x).mpr ⟨hr.1, by omega⟩
    rcases List.mem_append.mp this with h | h
    · exact absurd h hn
    · exact h
  · intro hx
    have := f3 x hx
    exact ⟨⟨this.1, by omega⟩, f2 x hx⟩

theorem nonTail_nodup (R : List Nat) (M : Nat) :
    (((List.range M).map (· + 1)).filter (fun p => !R.contains p)).Nodup := by
  rw [pages_eq]
  exact List.Nodup.sublist List.filter_sublist (List.nodup_range' (s := 1) (n := M))

/-- following the links from any suffix of the free list reproduces that suffix -/
theorem chase_suffix (t : Tree) (hp : PidInv t) (hn : t.a.nextPage ≤ 2 ^ 64) :
    ∀ (S P : List Nat) (fuel : Nat), t.a.free = P ++ S → S.length ≤ fuel →
      chase (encodePage t) fuel (S.headD 0) = S := by
  obtain ⟨f1, f2, f3, f4⟩ := free_facts t hp
  intro S
  induction S with
  | nil =>
    intro P fuel _ _
    cases fuel <;> simp [chase]
  | cons q S' ih =>
    intro P fuel hF hfu
    cases fuel with
    | zero => simp at hfu
    | succ fuel =>
      have hq : q ∈ t.a.free := by rw [hF]; simp
      have hq0 : q ≠ 0 := by have := (f3 q hq).1; omega
      have hlink : nextOf t.a.free q = S'.headD 0 := by
        unfold nextOf
        rw [hF, freeNext_at (by rw [← hF]; exact f1)]; rfl
      have hbound : S'.headD 0 < 2 ^ 64 := by
        cases S' with
        | nil => simp
        | cons y _ =>
          have : y ∈ t.a.free := by rw [hF]; simp
          have := (f3 y this).2
          simp; omega
      simp only [List.headD_cons, chase, hq0, if_false, f4 q hq, Page.word0, hlink, w_toNat hbound]
      congr 1
      exact ih (P ++ [q]) fuel (by rw [hF]; simp) (by simp at hfu; omega)

/-- the head of the free list is the one free page no other free page links to -/
theorem heads_eq (t : Tree) (hp : PidInv t) (hn : t.a.nextPage ≤ 2 ^ 64) (nonTail : List Nat)
    (hnt : ∀ x, x ∈ nonTail ↔ x ∈ t.a.free) (hnd : nonTail.Nodup) :
    let pointed := (nonTail.map (fun p => (encodePage t p).word0)).filter reinitHasNext
    (pointed.any (fun p => decide (p.toNat > t.a.nextPage - 1)) = false) ∧
    (nonTail.filter (fun p => !pointed.contains (w p))).headD 0 = t.a.freeHead := by
  obtain ⟨f1, f2, f3, f4⟩ := free_facts t hp
  have hpos : ∀ p ∈ t.a.free, p ≠ 0 := fun p h => by have := (f3 p h).1; omega
  have hlinks := links_eq_tail t.a.free f1 hpos
  have htail_sub : ∀ y ∈ t.a.free.tail, y ∈ t.a.free := fun y hy => List.mem_of_mem_tail hy
  -- the link of a free page is 0 or a free page
  have hnext_lt : ∀ p ∈ t.a.free, nextOf t.a.free p < 2 ^ 64 := by
    intro p hpF
    by_cases h0 : nextOf t.a.free p = 0
    · rw [h0]; decide
    · have := (hlinks _).mp ⟨p, hpF, rfl, h0⟩
      have := (f3 _ (htail_sub _ this)).2
      omega
  intro pointed
  have hpt : ∀ x, x ∈ pointed ↔ ∃ y ∈ t.a.free.tail, x = w y := by
    intro x
    simp only [pointed, List.mem_filter, List.mem_map]
    constructor
    · rintro ⟨⟨p, hpn, hx⟩, hx0⟩
      have hpF := (hnt p).mp hpn
      rw [f4 p hpF] at hx
      simp only [Page.word0] at hx
      have hy0 : nextOf t.a.free p ≠ 0 := by
        intro e; rw [e] at hx; rw [← hx] at hx0; simp [reinitHasNext] at hx0
      exact ⟨_, (hlinks _).mp ⟨p, hpF, rfl, hy0⟩, hx.symm⟩
    · rintro ⟨y, hy, rfl⟩
      obtain ⟨p, hpF, h1, h2⟩ := (hlinks y).mpr hy
      refine ⟨⟨p, (hnt p).mpr hpF, by rw [f4 p hpF]; simp only [Page.word0, h1]⟩, ?_⟩
      have hyb := (f3 y (htail_sub y hy)).2
      simp only [reinitHasNext, bne_iff_ne, ne_eq]
      intro e
      have := congrArg BitVec.toNat e
      rw [w_toNat (by omega)] at this
      simp at this; exact h2 this
  constructor
  · rw [List.any_eq_false]
    intro x hx
    obtain ⟨y, hy, rfl⟩ := (hpt x).mp hx
    have hyb := f3 y (htail_sub y hy)
    rw [w_toNat (by omega)]
    simp; omega
  · have hheads : ∀ x, x ∈ nonTail.filter (fun p => !pointed.contains (w p)) ↔ (x ∈ t.a.free ∧ x ∉ t.a.free.tail) := by
      intro x
      simp only [List.mem_filter, hnt, Bool.not_eq_true', List.contains_eq_mem, decide_eq_false_iff_not]
      constructor
      · rintro ⟨hx, hnp⟩
        exact ⟨hx, fun ht => hnp ((hpt _).mpr ⟨x, ht, rfl⟩)⟩
      · rintro ⟨hx, hnt'⟩
        refine ⟨hx, fun hm => ?_⟩
        obtain ⟨y, hy, e⟩ := (hpt _).mp hm
        have hxb := (f3 x hx).2
        have hyb := (f3 y (htail_sub y hy)).2
        have := congrArg BitVec.toNat e
        rw [w_toNat (by omega), w_toNat (by omega)] at this
        rw [this] at hnt'; exact hnt' hy
    have hhnd : (nonTail.filter (fun p => !pointed.contains (w p))).Nodup := List.Nodup.sublist List.filter_sublist hnd
    unfold Alloc.freeHead
    cases hF : t.a.free with
    | nil =>
      have : nonTail.filter (fun p => !pointed.contains (w p)) = [] := by
        apply List.eq_nil_iff_forall_not_mem.mpr
        intro x hx
        have := (hheads x).mp hx
        rw [hF] at this; exact absurd this.1 (by simp)
      rw [this]; rfl
    | cons a rest =>
      have : nonTail.filter (fun p => !pointed.contains (w p)) = [a] := by
        apply nodup_singleton_of_mem hhnd
        intro x
        rw [hheads x, hF]
        simp only [List.tail_cons, List.mem_cons]
        have ha : a ∉ rest := by rw [hF] at f1; exact (List.nodup_cons.mp f1).1
        constructor
        · rintro ⟨h1, h2⟩
          rcases h1 with h1 | h1
          · exact h1
          · exact absurd h1 h2
        · intro e; subst e; exact ⟨Or.inl rfl, ha⟩
      rw [this]; rfl

/-- the tree `reinit` is expected to produce from the file of `t`: the same labelled tree,
frontier and free list; recounted statistics; the whole file mapped -/
def reopened (t : Tree) : Tree :=
  { root := t.root,
    a := { nextPage := t.a.nextPage, free := t.a.free, leafKeys := countLeafKeys t.root,
           pagesFree := t.a.free.length, dataLen := t.a.curSz - 8, curSz := t.a.curSz } }

/-- **Round trip**: reopening the file a cleanly closed tree leaves behind yields the same
labelled tree, the same frontier, the same free list (head and order) and the recounted
statistics. -/
theorem reinit_encode {cfg : Cfg} (hc : CfgOk cfg) (t : Tree) (hinv : TreeInv cfg t) (hp : PidInv t)
    (hroot : t.root.pid = 1) (hf : FileOk cfg t) :
    reinit cfg (encode t) = some (reopened t) := by
  have hmk := hc.lt
  have hps := hf.ps_pos
  have hnp1 := hp.1
  have hnp : t.a.nextPage < 2 ^ 62 := by
    have h1 : t.a.nextPage * 1 ≤ t.a.nextPage * cfg.pageSize := Nat.mul_le_mul_left _ hps
    have := hf.fits; have := hf.sz_lt; omega
  have hlenle : t.a.nextPage ≤ t.a.curSz - 8 := by
    have h1 : t.a.nextPage * 1 ≤ t.a.nextPage * cfg.pageSize := Nat.mul_le_mul_left _ hps
    have := hf.fits; omega
  -- (A) frontier
  have hA : scanFrontier cfg (encodePage t) (t.a.curSz - 8) (t.a.curSz - 8 + 1) 1 = t.a.nextPage :=
    scanFrontier_eq t hp hf (t.a.nextPage - 1) 1 _ (by omega) (by omega) (by omega)
  have hM : (reinitMaxPage (w t.a.nextPage)).toNat = t.a.nextPage - 1 := by
    unfold reinitMaxPage; rw [w_sub_one (by omega) (by omega), w_toNat (by omega)]
  -- (B) the tree
  have hpos := hp.posPid (by omega)
  have hnd := (List.nodup_append.mp hp.nodup).1
  have hlen : (pids t.root).length ≤ t.a.nextPage := by
    have : (pids t.root ++ t.a.free).length = t.a.nextPage - 1 := by
      have hperm : (pids t.root ++ t.a.free).Perm (List.range' 1 (t.a.nextPage - 1)) := by
        rw [List.perm_iff_count]; intro x; rw [List.count_append]; exact hp.2 x
      rw [hperm.length_eq]; simp
    simp at this; omega
  have hB : decode (encodePage t) (t.a.nextPage + 1) 1 = some t.root := by
    have := decode_encoded (encodePage t) cfg.maxKeys t.root _ _ _ (t.a.nextPage + 1) hinv.ok hpos
      (encoded_encodePage t hnd) (by have := height_le_pids t.root; omega)
    rw [hroot] at this; exact this
  -- (C) reach
  have hreach : ((walkNode t.root).map (·.pid)).any (fun p => decide (p = 0) || decide (p > t.a.nextPage - 1)) = false := by
    rw [List.any_eq_false, walkNode_pids]
    intro p hpR
    have := (hp.mem_iff p).mp (List.mem_append_left _ hpR)
    simp; omega
  -- (D)-(F) free list
  have hntm := nonTail_mem t hp
  have hntn := nonTail_nodup (pids t.root) (t.a.nextPage - 1)
  obtain ⟨hE1, hE2⟩ := heads_eq t hp (by omega) _ hntm hntn
  have hlenF := length_eq_of_nodup_mem hntn (free_facts t hp).1 hntm
  have hchase : chase (encodePage t) (t.a.nextPage - 1 + 1) t.a.freeHead = t.a.free := by
    have := chase_suffix t hp (by omega) t.a.free [] (t.a.nextPage - 1 + 1) rfl (by
      have : (pids t.root ++ t.a.free).length = t.a.nextPage - 1 := by
        have hperm : (pids t.root ++ t.a.free).Perm (List.range' 1 (t.a.nextPage - 1)) := by
          rw [List.perm_iff_count]; intro x; rw [List.count_append]; exact hp.2 x
        rw [hperm.length_eq]; simp
      simp at this; omega)
    unfold Alloc.freeHead
    cases hF : t.a.free with
    | nil => rw [hF] at this; simpa using this
    | cons a rest => rw [hF] at this; simpa using this
  unfold reinit encode reopened
  simp only [hA, hM, hB, walkNode_pids] at hreach ⊢
  simp only [hreach, Bool.false_eq_true, if_false, hE1, hE2, hchase, hlenF]

end RV.Tree
