import RV.Proofs.NodeFlatTop
/-!
# Entry lists of inner nodes

An inner node of the model holds `(key, child : Node)`; its page holds `(key, childWord child)`.
The node-level model functions only look at keys and at `valOf`/`clear` of the values, so they
commute with mapping the values — which transfers the flat-page refinement theorems (proved for
`Val` entries) to inner nodes.
-/
namespace RV.NodeFlat
open RV.Tree (Key Val w SortedFrom)
open Gen.Tree

section
variable {β : Type}

/-- the entries with their values mapped to value words -/
def mapV (f : β → Val) (es : List (Key × β)) : List (Key × Val) := es.map fun e => (e.1, f e.2)

@[simp] theorem mapV_nil (f : β → Val) : mapV f ([] : List (Key × β)) = [] := rfl
@[simp] theorem mapV_cons (f : β → Val) (e : Key × β) (r : List (Key × β)) :
    mapV f (e :: r) = (e.1, f e.2) :: mapV f r := rfl
@[simp] theorem mapV_length (f : β → Val) (es : List (Key × β)) : (mapV f es).length = es.length := by
  simp [mapV]

theorem search_mapV (f : β → Val) (es : List (Key × β)) (k : Key) :
    RV.Tree.search (mapV f es) k = RV.Tree.search es k := by
  induction es with
  | nil => rfl
  | cons e r ih => obtain ⟨ki, x⟩ := e; simp only [mapV_cons, RV.Tree.search, ih]

theorem keyAt_mapV (f : β → Val) (es : List (Key × β)) (i : Nat) :
    RV.Tree.keyAt (mapV f es) i = RV.Tree.keyAt es i := by
  unfold RV.Tree.keyAt mapV
  rw [List.getElem?_map]
  cases es[i]? <;> rfl

theorem maxKey_mapV (f : β → Val) (es : List (Key × β)) : RV.Tree.maxKey (mapV f es) = RV.Tree.maxKey es := by
  unfold RV.Tree.maxKey
  simp only [mapV_length, keyAt_mapV]

theorem mapV_append (f : β → Val) (a b : List (Key × β)) : mapV f (a ++ b) = mapV f a ++ mapV f b := by
  simp [mapV]

theorem mapV_take (f : β → Val) (es : List (Key × β)) (n : Nat) : mapV f (es.take n) = (mapV f es).take n := by
  simp [mapV, List.map_take]

theorem mapV_drop (f : β → Val) (es : List (Key × β)) (n : Nat) : mapV f (es.drop n) = (mapV f es).drop n := by
  simp [mapV, List.map_drop]

theorem mapV_set (f : β → Val) (es : List (Key × β)) (n : Nat) (e : Key × β) :
    mapV f (es.set n e) = (mapV f es).set n (e.1, f e.2) := by
  simp [mapV, List.map_set]

/-- `nodeSet` commutes with mapping the values. -/
theorem nodeSet_mapV (f : β → Val) (mk : Nat) (es : List (Key × β)) (k : Key) (v : β) :
    RV.Tree.nodeSet mk (mapV f es) k (f v) =
      (RV.Tree.nodeSet mk es k v).map fun r => (mapV f r.1, r.2) := by
  unfold RV.Tree.nodeSet
  simp only [search_mapV, keyAt_mapV, mapV_length]
  split
  · rfl
  split
  · rfl
  split
  · rfl
  split
  · rfl
  split
  · split <;> simp [mapV_append, mapV_take, mapV_drop, mapV_set]
  · split <;> simp [mapV_append]

/-- `nodeCompact` commutes with mapping the values to their value words. -/
theorem nodeCompact_mapV (valOf : β → Val) (clear : β → β) (hclear : ∀ b, valOf (clear b) = 0#64)
    (es : List (Key × β)) (lo : Val) :
    RV.Tree.nodeCompact id (fun _ => 0#64) (mapV valOf es) lo =
      (mapV valOf (RV.Tree.nodeCompact valOf clear es lo).1, (RV.Tree.nodeCompact valOf clear es lo).2) := by
  unfold RV.Tree.nodeCompact
  simp only [maxKey_mapV, id]
  have hf : (mapV valOf es).filter (fun e => !(compactSkip e.2 lo e.1 (RV.Tree.maxKey es))) =
      mapV valOf (es.filter (fun e => !(compactSkip (valOf e.2) lo e.1 (RV.Tree.maxKey es)))) := by
    unfold mapV; rw [List.filter_map]; rfl
  rw [hf]
  generalize es.filter (fun e => !(compactSkip (valOf e.2) lo e.1 (RV.Tree.maxKey es))) = kept
  have hget : ∀ (l : List (Key × β)) (i : Nat), (mapV valOf l)[i]? = (l[i]?).map fun (e : Key × β) => (e.1, valOf e.2) := by
    intro l i; unfold mapV; rw [List.getElem?_map]
  simp only [mapV_length, keyAt_mapV, hget]
  cases hg : kept[kept.length - 1]? with
  | none =>
    simp only [Option.map_none, ite_self]
    cases hg0 : kept[0]? <;> simp [keyAt_mapV, hget, hg0]
  | some e =>
    simp only [Option.map_some]
    by_cases hc : compactPlaceholder (w kept.length) (RV.Tree.keyAt kept (kept.length - 1)) (RV.Tree.maxKey es) (valOf e.2) lo = true
    · simp only [hc, if_true]
      have hset : (mapV valOf kept).set (kept.length - 1) (e.1, 0#64) = mapV valOf (kept.set (kept.length - 1) (e.1, clear e.2)) := by
        rw [mapV_set]; simp [hclear]
      rw [hset]
      simp only [keyAt_mapV, hget]
      cases hg0 : (kept.set (kept.length - 1) (e.1, clear e.2))[0]? <;> simp
    · simp only [hc, Bool.false_eq_true, if_false, keyAt_mapV, hget]
      cases hg0 : kept[0]? <;> simp

theorem sortedFrom_mapV (f : β → Val) {lo : Key} {es : List (Key × β)} :
    SortedFrom lo (mapV f es) ↔ SortedFrom lo es := by
  induction es generalizing lo with
  | nil => simp [SortedFrom]
  | cons e r ih => simp only [mapV_cons, SortedFrom, ih]

end

/-- the value words of an inner node's entries, as `RV.Tree.entWords` computes them -/
theorem entWords_eq_mapV (es : List (Key × RV.Tree.Node)) : RV.Tree.entWords es = mapV RV.Tree.childWord es := by
  induction es with
  | nil => simp [RV.Tree.entWords]
  | cons e r ih => obtain ⟨k, c⟩ := e; simp [RV.Tree.entWords, ih]

end RV.NodeFlat
