import RV.Proofs.BufferArith
/-!
The 8-byte length prefix: `Uint64 (PutUint64 v) = v` for the byte orders that
buffer.go uses *now* (read off the source by go2lean), and the basic facts about
`enc` / `encAll`.
-/
namespace RV.Buffer
open Gen.Buffer

theorem lenGe_eq : ∀ (l : Bytes) (k : Nat), lenGe l k = decide (k ≤ l.length) := by
  intro l
  induction l with
  | nil => intro k; cases k <;> simp [lenGe]
  | cons a t ih => intro k; cases k <;> simp [lenGe, ih]

theorem be64_length (v : BitVec 64) : (be64 v).length = 8 := rfl

theorem div_chain (n : Nat) :
    n / 65536 = n / 256 / 256 ∧ n / 16777216 = n / 256 / 256 / 256 ∧
    n / 4294967296 = n / 256 / 256 / 256 / 256 ∧ n / 1099511627776 = n / 256 / 256 / 256 / 256 / 256 ∧
    n / 281474976710656 = n / 256 / 256 / 256 / 256 / 256 / 256 ∧
    n / 72057594037927936 = n / 256 / 256 / 256 / 256 / 256 / 256 / 256 := by
  simp only [Nat.div_div_eq_div_mul]
  decide

theorem beNat_be64 (v : BitVec 64) : beNat (be64 v) = v.toNat := by
  have hv : v.toNat < 18446744073709551616 := v.isLt
  unfold beNat be64
  simp only [List.foldl_cons, List.foldl_nil, BitVec.toNat_ofNat, Nat.reducePow]
  generalize v.toNat = n at *
  obtain ⟨h2, h3, h4, h5, h6, h7⟩ := div_chain n
  rw [h2, h3, h4, h5, h6, h7]
  clear h2 h3 h4 h5 h6 h7
  have hq : n / 256 / 256 / 256 / 256 / 256 / 256 / 256 < 256 := by omega
  omega

theorem take8_be64_append (v : BitVec 64) (rest : Bytes) : (be64 v ++ rest).take 8 = be64 v := by
  rw [List.take_append_of_le_length (by rw [be64_length]; omega)]
  exact List.take_of_length_le (by rw [be64_length]; omega)

theorem getU64_be64 (v : BitVec 64) (rest : Bytes) : getU64 true (be64 v ++ rest) = v := by
  unfold getU64
  simp only [take8_be64_append, if_true, beNat_be64, BitVec.ofNat_toNat, BitVec.setWidth_eq]

theorem putU64_length (o : Bool) (v : BitVec 64) : (putU64 o v).length = 8 := by
  unfold putU64; split <;> simp [be64_length]

/-- What `writeLen` stores is read back by `Slice` and by `rawSlice`, for every length. -/
theorem getU64_put (v : BitVec 64) (rest : Bytes) :
    getU64 sliceBigEndian (putU64 writeLenBigEndian v ++ rest) = v ∧
    getU64 rawSliceBigEndian (putU64 writeLenBigEndian v ++ rest) = v := by
  rw [k_sliceBigEndian, k_rawSliceBigEndian, k_writeLenBigEndian]
  unfold putU64
  simp only [if_true, getU64_be64, and_self]

theorem getU64_slice_be64 (v : BitVec 64) (rest : Bytes) : getU64 sliceBigEndian (be64 v ++ rest) = v := by
  rw [k_sliceBigEndian]; exact getU64_be64 v rest

theorem getU64_raw_be64 (v : BitVec 64) (rest : Bytes) : getU64 rawSliceBigEndian (be64 v ++ rest) = v := by
  rw [k_rawSliceBigEndian]; exact getU64_be64 v rest

theorem lenPrefix_eq (sz : Nat) : lenPrefix sz = some (be64 (w sz)) := by
  unfold lenPrefix
  simp only [k_writeLenWidth, k_writeLenBigEndian, k_writeLenValue, putU64]
  simp

theorem enc_length (s : Bytes) : (enc s).length = 8 + s.length := by
  unfold enc; rw [List.length_append, be64_length]

theorem encAll_nil : encAll [] = [] := rfl
theorem encAll_cons (s : Bytes) (ss : List Bytes) : encAll (s :: ss) = enc s ++ encAll ss := by
  unfold encAll; simp
theorem encAll_append (a b : List Bytes) : encAll (a ++ b) = encAll a ++ encAll b := by
  unfold encAll; simp

theorem encAll_length_ge (ss : List Bytes) : 8 * ss.length ≤ (encAll ss).length := by
  induction ss with
  | nil => simp [encAll_nil]
  | cons s ss ih => rw [encAll_cons, List.length_append, enc_length, List.length_cons]; omega

end RV.Buffer
