import RV.Data.AMap
/-!
Lemmas about `RV.AMap` used by the equivalence theorems between the generated whole-method
translations (`RV/Gen/Methods.lean`) and the hand-written models (`RV/Props/Tie*.lean`):
mapping the values / the keys of an association list commutes with `lookup`, `insert`, `erase`.
Core Lean only.
-/
namespace RV.AMap
variable {κ κ' ν ν' : Type} [DecidableEq κ] [DecidableEq κ']

/-- apply `f` to every value -/
def mapVals (f : ν → ν') (m : AMap κ ν) : AMap κ ν' := List.map (fun p => (p.1, f p.2)) m
/-- apply `f` to every key (used with injective `f` only) -/
def mapKeys (f : κ → κ') (m : AMap κ ν) : AMap κ' ν := List.map (fun p => (f p.1, p.2)) m

omit [DecidableEq κ] in
@[simp] theorem mapVals_empty (f : ν → ν') : mapVals f (empty : AMap κ ν) = empty := rfl
omit [DecidableEq κ] [DecidableEq κ'] in
@[simp] theorem mapKeys_empty (f : κ → κ') : mapKeys f (empty : AMap κ ν) = empty := rfl

theorem lookup_mapVals (f : ν → ν') (m : AMap κ ν) (k : κ) :
    lookup (mapVals f m) k = (lookup m k).map f := by
  induction m with
  | nil => rfl
  | cons p rest ih =>
    obtain ⟨k', v⟩ := p
    by_cases h : k' = k
    · simp [mapVals, lookup, h]
    · have ih' : lookup (List.map (fun p => (p.1, f p.2)) rest) k = (lookup rest k).map f := ih
      simp [mapVals, lookup, h, ih']

theorem mapVals_erase (f : ν → ν') (m : AMap κ ν) (k : κ) :
    mapVals f (erase m k) = erase (mapVals f m) k := by
  induction m with
  | nil => rfl
  | cons p rest ih =>
    obtain ⟨k', v⟩ := p
    have ih' : List.map (fun p => (p.1, f p.2)) (erase rest k) = erase (List.map (fun p => (p.1, f p.2)) rest) k := ih
    by_cases h : k' = k
    · simp [mapVals, erase, h, ih']
    · simp [mapVals, erase, h]
      exact congrArg (List.cons (k', f v)) ih'

theorem mapVals_insert (f : ν → ν') (m : AMap κ ν) (k : κ) (v : ν) :
    mapVals f (insert m k v) = insert (mapVals f m) k (f v) := by
  have := mapVals_erase f m k
  simp only [mapVals] at this
  simp [insert, mapVals]
  exact congrArg (List.cons (k, f v)) this

theorem lookup_mapKeys {f : κ → κ'} (hf : ∀ a b, f a = f b → a = b) (m : AMap κ ν) (k : κ) :
    lookup (mapKeys f m) (f k) = lookup m k := by
  induction m with
  | nil => rfl
  | cons p rest ih =>
    obtain ⟨k', v⟩ := p
    have ih' : lookup (List.map (fun p => (f p.1, p.2)) rest) (f k) = lookup rest k := ih
    by_cases h : k' = k
    · simp [mapKeys, lookup, h]
    · have h' : ¬ f k' = f k := fun e => h (hf _ _ e)
      simp [mapKeys, lookup, h, h', ih']

theorem mapKeys_erase {f : κ → κ'} (hf : ∀ a b, f a = f b → a = b) (m : AMap κ ν) (k : κ) :
    mapKeys f (erase m k) = erase (mapKeys f m) (f k) := by
  induction m with
  | nil => rfl
  | cons p rest ih =>
    obtain ⟨k', v⟩ := p
    have ih' : List.map (fun p => (f p.1, p.2)) (erase rest k) = erase (List.map (fun p => (f p.1, p.2)) rest) (f k) := ih
    by_cases h : k' = k
    · simp [mapKeys, erase, h, ih']
    · have h' : ¬ f k' = f k := fun e => h (hf _ _ e)
      simp [mapKeys, erase, h, h']
      exact congrArg (List.cons (f k', v)) ih'

theorem mapKeys_insert {f : κ → κ'} (hf : ∀ a b, f a = f b → a = b) (m : AMap κ ν) (k : κ) (v : ν) :
    mapKeys f (insert m k v) = insert (mapKeys f m) (f k) v := by
  have := mapKeys_erase hf m k
  simp only [mapKeys] at this
  simp [insert, mapKeys]
  exact congrArg (List.cons (f k, v)) this

theorem erase_erase_self (m : AMap κ ν) (k : κ) : erase (erase m k) k = erase m k := by
  induction m with
  | nil => rfl
  | cons p rest ih =>
    obtain ⟨k', v⟩ := p
    by_cases h : k' = k
    · simp [erase, h, ih]
    · simp [erase, h, ih] <;> rfl

/-- overwriting a binding that was just written: only the last write remains -/
theorem insert_insert_self (m : AMap κ ν) (k : κ) (v v' : ν) :
    insert (insert m k v) k v' = insert m k v' := by
  simp [insert, erase, erase_erase_self] <;> rfl

end RV.AMap

namespace RV.Tie
/-- `BitVec.toInt` is injective: reading `int64` bucket numbers as `Int` loses nothing -/
theorem toInt_inj (a b : BitVec 64) (h : a.toInt = b.toInt) : a = b := BitVec.eq_of_toInt_eq h
end RV.Tie
