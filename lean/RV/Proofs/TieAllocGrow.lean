import RV.Proofs.TieAllocBase
/-!
# `Allocator.addBufferAt`, generated whole (`Gen.AllocM.addBufferAt`), against the model (`RV.Alloc.addBufferAt`)
-/
namespace RV.TieAlloc
open Gen.AM Gen.AllocM Gen.Alloc RV.Alloc

/-- the first loop of `addBufferAt` as the model's `Slot` -/
def slotRes (a : Allocator) : Slot → Res Allocator (LoopRes (Allocator × Unit) W)
  | .allocAt i => .ok (.done i)
  | .fits => .ok (.ret (a, ()))
  | .outOfSlots => .panic .user a

theorem loop1_spec (a : Allocator) (hw : WfA a) (minSz : W) :
    ∀ (g : Nat) (idx : W) (f : Nat), idx.toNat ≤ a.buffers.size →
      a.buffers.size + 1 ≤ f + idx.toNat →
      (loop (fun _ => a) (addBufferAt_loop1 a minSz) g idx = .spin a ∨
        loop (fun _ => a) (addBufferAt_loop1 a minSz) g idx = slotRes a (findSlot (chunksOf a) minSz f idx)) ∧
      (a.buffers.size + 1 ≤ g + idx.toNat →
        loop (fun _ => a) (addBufferAt_loop1 a minSz) g idx = slotRes a (findSlot (chunksOf a) minSz f idx)) := by
  intro g
  induction g with
  | zero =>
    intro idx f hi hf
    exact ⟨Or.inl rfl, fun h => by omega⟩
  | succ g ih =>
    intro idx f hi hf
    have hn := hw.size_lt
    obtain ⟨f, rfl⟩ : ∃ f', f = f' + 1 := ⟨f - 1, by omega⟩
    have hidx : idx.toInt = idx.toNat := toInt_of_toNat_small idx (by omega)
    have hsz : (BitVec.ofNat 64 a.buffers.size).toInt = a.buffers.size := toInt_ofNat_small _ hn
    unfold loop findSlot
    simp only [addBufferAt_loop1, growOutOfSlots, length_chunksOf]
    by_cases hout : (BitVec.ofNat 64 a.buffers.size).sle idx = true
    · simp [hout, slotRes]
    · have hlt : idx.toNat < a.buffers.size := by
        have : ¬ (BitVec.ofNat 64 a.buffers.size).toInt ≤ idx.toInt := fun h => hout ((sle_iff _ _).mpr h)
        omega
      simp only [hout, if_false, Bool.false_eq_true, rd_ok _ _ _ hlt, bind_ok, growSlotEmpty, growFits,
        size_bufOfLen, chunkLen_chunksOf]
      by_cases he : (BitVec.ofNat 64 a.buffers[idx.toNat]!.len == 0#64) = true
      · simp [he, slotRes]
      · simp only [he, if_false, Bool.false_eq_true]
        by_cases hfit : minSz.sle (BitVec.ofNat 64 a.buffers[idx.toNat]!.len) = true
        · simp [hfit, slotRes]
        · simp only [hfit, if_false, Bool.false_eq_true]
          have hnext : (idx + 1#64).toNat = idx.toNat + 1 := by
            rw [BitVec.toNat_add]; simp; omega
          have := ih (idx + 1#64) f (by omega) (by omega)
          rw [hnext] at this
          refine ⟨this.1, fun h => this.2 (by omega)⟩
/-- `p` doubled `k` times -/
def dbl : Nat → W → W
  | 0, p => p
  | k + 1, p => dbl k (p * 2#64)

theorem dbl_toNat : ∀ (k : Nat) (p : W), (dbl k p).toNat = (p.toNat * 2 ^ k) % 2 ^ 64 := by
  intro k
  induction k with
  | zero => intro p; simp [dbl]; omega
  | succ k ih =>
    intro p
    rw [dbl, ih, BitVec.toNat_mul]
    simp only [BitVec.toNat_ofNat]
    rw [Nat.mod_mul_mod]
    congr 1
    have : (2 : Nat) % 2 ^ 64 = 2 := by decide
    rw [this, Nat.mul_assoc, Nat.mul_comm 2, Nat.pow_succ]

theorem dbl_big (k : Nat) (p : W) (hk : 64 ≤ k) : dbl k p = 0#64 := by
  apply BitVec.eq_of_toNat_eq
  rw [dbl_toNat]
  obtain ⟨j, rfl⟩ : ∃ j, k = 64 + j := ⟨k - 64, by omega⟩
  rw [Nat.pow_add, ← Nat.mul_assoc, Nat.mul_comm p.toNat, Nat.mul_assoc]
  simp

theorem doubleUntil_none (minSz : W) :
    ∀ (f : Nat) (p : W), doubleUntil minSz f p = none → ∀ k, k ≤ f → (dbl k p).slt minSz = true := by
  intro f
  induction f with
  | zero =>
    intro p h k hk
    have : k = 0 := by omega
    subst this
    unfold doubleUntil growTooSmall at h
    by_cases hs : p.slt minSz = true
    · simpa [dbl] using hs
    · simp [hs] at h
  | succ f ih =>
    intro p h k hk
    unfold doubleUntil growTooSmall at h
    by_cases hs : p.slt minSz = true
    · simp only [hs, if_true] at h
      cases k with
      | zero => simpa [dbl] using hs
      | succ k => exact ih _ h k (by omega)
    · simp [hs] at h

theorem doubleUntil_none_all (minSz p : W) (h : doubleUntil minSz 64 p = none) :
    ∀ k, (dbl k p).slt minSz = true := by
  intro k
  by_cases hk : k ≤ 64
  · exact doubleUntil_none minSz 64 p h k hk
  · have := doubleUntil_none minSz 64 p h 64 (by omega)
    rw [dbl_big 64 p (by omega)] at this
    rw [dbl_big k p (by omega)]
    exact this

theorem loop2_spin (a : Allocator) (minSz : W) :
    ∀ (g : Nat) (p : W), (∀ k, (dbl k p).slt minSz = true) →
      loop (fun _ => a) (addBufferAt_loop2 minSz) g p = .spin a := by
  intro g
  induction g with
  | zero => intro p _; rfl
  | succ g ih =>
    intro p h
    unfold loop
    have h0 : p.slt minSz = true := by simpa [dbl] using h 0
    simp only [addBufferAt_loop2, h0, if_true]
    exact ih _ (fun k => by simpa [dbl] using h (k + 1))
theorem findSlot_allocAt_range (a : Allocator) (hw : WfA a) (minSz : W) :
    ∀ (f : Nat) (idx i : W), idx.toNat ≤ a.buffers.size →
      findSlot (chunksOf a) minSz f idx = .allocAt i →
      idx.toNat ≤ i.toNat ∧ i.toNat < a.buffers.size ∧
        (BitVec.ofNat 64 (a.buffers[i.toNat]!).len == 0#64) = true := by
  intro f
  induction f with
  | zero => intro idx i _ h; simp [findSlot] at h
  | succ f ih =>
    intro idx i hi h
    have hn := hw.size_lt
    have hidx : idx.toInt = idx.toNat := toInt_of_toNat_small idx (by omega)
    have hsz : (BitVec.ofNat 64 a.buffers.size).toInt = a.buffers.size := toInt_ofNat_small _ hn
    unfold findSlot at h
    simp only [growOutOfSlots, length_chunksOf, growSlotEmpty, growFits, size_bufOfLen, chunkLen_chunksOf] at h
    by_cases hout : (BitVec.ofNat 64 a.buffers.size).sle idx = true
    · simp [hout] at h
    · have hlt : idx.toNat < a.buffers.size := by
        have : ¬ (BitVec.ofNat 64 a.buffers.size).toInt ≤ idx.toInt := fun h => hout ((sle_iff _ _).mpr h)
        omega
      simp only [hout, if_false, Bool.false_eq_true] at h
      by_cases he : (BitVec.ofNat 64 a.buffers[idx.toNat]!.len == 0#64) = true
      · simp only [he, if_true, Slot.allocAt.injEq] at h
        subst h
        exact ⟨Nat.le_refl _, hlt, he⟩
      · simp only [he, if_false, Bool.false_eq_true] at h
        by_cases hfit : minSz.sle (BitVec.ofNat 64 a.buffers[idx.toNat]!.len) = true
        · simp [hfit] at h
        · simp only [hfit, if_false, Bool.false_eq_true] at h
          have hnext : (idx + 1#64).toNat = idx.toNat + 1 := by
            rw [BitVec.toNat_add]; simp; omega
          have := ih (idx + 1#64) i (by omega) h
          rw [hnext] at this
          exact ⟨by omega, this.2⟩
theorem loop2_some (a : Allocator) (minSz : W) :
    ∀ (f : Nat) (p q : W) (g : Nat), doubleUntil minSz f p = some q → f < g →
      loop (fun _ => a) (addBufferAt_loop2 minSz) g p = .ok (.done q) := by
  intro f
  induction f with
  | zero =>
    intro p q g h hg
    obtain ⟨g, rfl⟩ : ∃ g', g = g' + 1 := ⟨g - 1, by omega⟩
    unfold doubleUntil at h
    unfold loop
    simp only [addBufferAt_loop2]
    unfold growTooSmall at h
    by_cases hs : p.slt minSz = true
    · simp [hs] at h
    · simp only [hs, if_false, Bool.false_eq_true] at h ⊢
      cases h; rfl
  | succ f ih =>
    intro p q g h hg
    obtain ⟨g, rfl⟩ : ∃ g', g = g' + 1 := ⟨g - 1, by omega⟩
    unfold doubleUntil at h
    unfold loop
    simp only [addBufferAt_loop2]
    unfold growTooSmall at h
    by_cases hs : p.slt minSz = true
    · simp only [hs, if_true] at h ⊢
      exact ih _ _ _ h (by omega)
    · simp only [hs, if_false, Bool.false_eq_true] at h ⊢
      cases h; rfl

/-- nothing but the chunk table differs -/
def Frame (a a' : Allocator) : Prop :=
  a'.compIdx = a.compIdx ∧ a'.locked = a.locked ∧ a'.log = a.log ∧ a'.Ref = a.Ref ∧
    a'.buffers.size = a.buffers.size

theorem addBufferAt_spec (a : Allocator) (hw : WfA a) (idx minSz : W) (fuel : Nat)
    (h1 : 1 ≤ idx.toNat) (h2 : idx.toNat ≤ a.buffers.size) (hmin : 0 ≤ minSz.toInt) :
    match RV.Alloc.addBufferAt (chunksOf a) idx minSz with
    | .ok cs' => a.buffers.size + 1 ≤ fuel + idx.toNat → 65 ≤ fuel →
        ∃ a', Gen.AllocM.addBufferAt fuel a idx minSz = .ok (a', ()) ∧ chunksOf a' = cs' ∧ Frame a a' ∧ WfA a'
    | .outOfSlots => a.buffers.size + 1 ≤ fuel + idx.toNat →
        Gen.AllocM.addBufferAt fuel a idx minSz = .panic .user a
    | .hang => Gen.AllocM.addBufferAt fuel a idx minSz = .spin a := by
  have hn := hw.size_lt
  have hl1 := loop1_spec a hw minSz fuel idx ((chunksOf a).length + 1) h2 (by rw [length_chunksOf]; omega)
  unfold RV.Alloc.addBufferAt Gen.AllocM.addBufferAt
  cases hf : findSlot (chunksOf a) minSz ((chunksOf a).length + 1) idx with
  | outOfSlots =>
    simp only
    intro hfuel
    rw [hl1.2 hfuel, hf]
    rfl
  | fits =>
    simp only
    intro hfuel _
    refine ⟨a, ?_, rfl, ⟨rfl, rfl, rfl, rfl, rfl⟩, hw⟩
    rw [hl1.2 hfuel, hf]
    rfl
  | allocAt i =>
    simp only
    obtain ⟨hi1, hi2, hiE⟩ := findSlot_allocAt_range a hw minSz _ idx i h2 hf
    rw [hf] at hl1
    have hgd : (BitVec.slt 0#64 i) = true := by
      rw [slt_iff, toInt_of_toNat_small i (by omega)]; simp; omega
    have hi1' : (i - 1#64).toNat = i.toNat - 1 := by
      rw [BitVec.toNat_sub]; simp; omega
    have hrd : rd a a.buffers (i - 1#64) = .ok a.buffers[i.toNat - 1]! := by
      rw [rd_ok _ _ _ (by omega), hi1']
    unfold pageSizeFor
    simp only [growFirstSize, size_bufOfLen, chunkLen_chunksOf]
    cases hd : doubleUntil minSz 64 (2#64 * BitVec.ofNat 64 a.buffers[i.toNat - 1]!.len) with
    | none =>
      simp only
      rcases hl1.1 with hs | hs
      · rw [hs]; rfl
      · rw [hs]
        simp only [slotRes, bind_ok, Gen.AM.guard, hgd, if_true, hrd]
        rw [loop2_spin a minSz fuel _ (doubleUntil_none_all _ _ hd)]
        rfl
    | some q =>
      simp only
      intro hfuel h65
      rw [hl1.2 hfuel]
      simp only [slotRes, bind_ok, Gen.AM.guard, hgd, if_true, hrd]
      rw [loop2_some a minSz 64 _ q fuel hd (by omega)]
      simp only [bind_ok, growOverMax, maxAlloc]
      have hq : ¬ (q.slt minSz = true) := by
        have := doubleUntil_some hd
        simpa [growTooSmall] using this
      have hq0 : 0 ≤ q.toInt := by
        have : ¬ q.toInt < minSz.toInt := fun h => hq ((slt_iff _ _).mpr h)
        omega
      have hc : ∀ q' : W, 0 ≤ q'.toInt → calloc a q' = .ok ⟨0, q'.toNat, q'.toNat⟩ := by
        intro q' h
        unfold calloc
        rw [if_neg (by omega)]
      have hq' : 0 ≤ (if BitVec.slt 1073741824#64 q = true then 1073741824#64 else q).toInt := by
        split
        · decide
        · exact hq0
      rw [hc _ hq']
      simp only [bind_ok, rd_ok _ _ _ hi2, hiE, wr_ok _ _ _ _ hi2, if_true]
      refine ⟨_, rfl, ?_, ⟨rfl, rfl, rfl, rfl, by simp [Array.set!]⟩, ?_⟩
      · exact chunksOf_set a _ _
      · apply wfA_set hw
        have := toNat_of_toInt_nonneg _ hq'
        have h63 := BitVec.toInt_lt (x := (if BitVec.slt 1073741824#64 q = true then 1073741824#64 else q))
        omega
/-! ## the critical section of `Allocate` (section `vpAllocBeforeLock`) -/

theorem grow_blocked (a : Allocator) (sz b : W) (fuel : Nat) (hl : a.locked = true) :
    Allocate_vpAllocBeforeLock fuel a sz b = .blocked a := by
  unfold Allocate_vpAllocBeforeLock lock
  simp [hl]

theorem grow_moved (a : Allocator) (sz b : W) (fuel : Nat) (hl : a.locked = false)
    (hm : allocMoved (Gen.Alloc.parse a.compIdx).1 b = true) :
    Allocate_vpAllocBeforeLock fuel a sz b =
      .ok ({ a with log := .obs 3#64 0#64 0#64 :: a.log }, .vpAllocRetry_1 sz) := by
  unfold Allocate_vpAllocBeforeLock lock
  unfold allocMoved Gen.Alloc.parse at hm
  simp only [hl, Bool.false_eq_true, if_false, bind_ok, Gen.AllocM.parse, lift_ok, hm, if_true]

theorem grow_spec (a : Allocator) (hw : WfA a) (sz b : W) (fuel : Nat) (hl : a.locked = false)
    (hb : b.toNat < a.buffers.size) (hsz : 0 ≤ sz.toInt)
    (hm : allocMoved (Gen.Alloc.parse a.compIdx).1 b = false) :
    match RV.Alloc.addBufferAt (chunksOf a) (allocNextIdx b) sz with
    | .ok cs' => a.buffers.size ≤ fuel + b.toNat → 65 ≤ fuel →
        ∃ a', Allocate_vpAllocBeforeLock fuel a sz b = .ok (a', .vpAllocRetry_2 sz) ∧
          chunksOf a' = cs' ∧ a'.compIdx = allocStore b ∧ a'.locked = false ∧
          a'.log = .obs 3#64 1#64 0#64 :: a.log ∧ a'.Ref = a.Ref ∧ WfA a' ∧
          a'.buffers.size = a.buffers.size
    | .outOfSlots => a.buffers.size ≤ fuel + b.toNat →
        Allocate_vpAllocBeforeLock fuel a sz b = .panic .user { a with locked := true }
    | .hang => Allocate_vpAllocBeforeLock fuel a sz b = .spin { a with locked := true } := by
  have hn := hw.size_lt
  have hw1 : WfA { a with locked := true } := wfA_congr hw rfl
  have hnext : (b + 1#64).toNat = b.toNat + 1 := by
    rw [BitVec.toNat_add]; simp; omega
  have hspec := addBufferAt_spec { a with locked := true } hw1 (b + 1#64) sz fuel
    (by omega) (by rw [hnext]; exact hb) hsz
  have hch : chunksOf { a with locked := true } = chunksOf a := rfl
  rw [hch, hnext] at hspec
  unfold allocMoved Gen.Alloc.parse at hm
  unfold Allocate_vpAllocBeforeLock lock allocNextIdx
  simp only [hl, Bool.false_eq_true, if_false, bind_ok, Gen.AllocM.parse, lift_ok, hm]
  cases hg : RV.Alloc.addBufferAt (chunksOf a) (b + 1#64) sz with
  | ok cs' =>
    rw [hg] at hspec
    simp only at hspec ⊢
    intro hf h65
    obtain ⟨a', he, hc, hfr, hw'⟩ := hspec (by omega) h65
    rw [he]
    simp only [bind_ok]
    refine ⟨_, rfl, hc, rfl, rfl, ?_, hfr.2.2.2.1, wfA_congr hw' rfl, hfr.2.2.2.2⟩
    simp [hfr.2.2.1]
  | outOfSlots =>
    rw [hg] at hspec
    simp only at hspec ⊢
    intro hf
    rw [hspec (by omega)]
    rfl
  | hang =>
    rw [hg] at hspec
    simp only at hspec ⊢
    rw [hspec]
    rfl

end RV.TieAlloc
