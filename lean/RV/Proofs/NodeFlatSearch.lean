import RV.Proofs.NodeFlatMeta
import RV.Proofs.SimdGo
/-!
# Flat pages: `node.search`, `node.get`, `node.maxKey`

`Gen.Node.search` (the generated whole function: the loop for fewer than four keys, otherwise
`simd.Search` on the first `2*numKeys` words, modelled by the generated `Naive`) computes
`RV.Tree.search (ents p)`; hence `get` and `maxKey` agree with the entry-list model too.
No sortedness is needed here, only the page geometry and `numKeys ≤ maxKeys`.
-/
namespace RV.NodeFlat
open RV.Tree (Key Val w w_toNat w_toInt w_slt w_sle w_beq)

/-! ## entry lists read off a page -/

theorem entsUpTo_length (p : Page) (n : Nat) : (entsUpTo p n).length = n := by simp [entsUpTo]

theorem entsUpTo_get? (p : Page) (n i : Nat) :
    (entsUpTo p n)[i]? = if i < n then some (keyW p i, valW p i) else none := by
  unfold entsUpTo
  by_cases h : i < n
  · simp [h]
  · simp [h]

theorem keyAt_entsUpTo (p : Page) (n i : Nat) :
    RV.Tree.keyAt (entsUpTo p n) i = if i < n then keyW p i else 0#64 := by
  unfold RV.Tree.keyAt; rw [entsUpTo_get?]
  by_cases h : i < n <;> simp [h]

theorem entsUpTo_succ (p : Page) (n : Nat) : entsUpTo p (n + 1) = entsUpTo p n ++ [(keyW p n, valW p n)] := by
  simp [entsUpTo, List.range_succ]

theorem ents_length (mk : Nat) (p : Page) : (ents mk p).length = nkeys mk p := entsUpTo_length _ _

/-- `search` is determined by "first key ≥ k". -/
theorem search_eq_of_first {β : Type} (es : List (Key × β)) (k : Key) (j : Nat) (hj : j ≤ es.length)
    (h1 : ∀ i, i < j → RV.Tree.keyAt es i < k) (h2 : j < es.length → k ≤ RV.Tree.keyAt es j) :
    RV.Tree.search es k = j := by
  induction es generalizing j with
  | nil => simp at hj; subst hj; rfl
  | cons e rest ih =>
    obtain ⟨ki, x⟩ := e
    simp only [RV.Tree.search]
    cases j with
    | zero =>
      have := h2 (by simp)
      rw [RV.Tree.keyAt_cons_zero] at this
      simp [Gen.Tree.searchHit, BitVec.ule_iff_le.mpr this]
    | succ j' =>
      have h0 := h1 0 (by omega)
      rw [RV.Tree.keyAt_cons_zero] at h0
      have hne : Gen.Tree.searchHit ki k = false := by
        simp only [Gen.Tree.searchHit]
        cases hc : BitVec.ule k ki
        · rfl
        · have := BitVec.ule_iff_le.mp hc; bv_omega
      simp only [hne, Bool.false_eq_true, if_false]
      congr 1
      apply ih j' (by simpa using hj)
      · intro i hi
        have := h1 (i + 1) (by omega)
        simpa [RV.Tree.keyAt] using this
      · intro hlt
        have := h2 (by simp; omega)
        simpa [RV.Tree.keyAt] using this

variable {mk : Nat} {p : Page}

/-- `n.search(k)` on a page = `search` on its entries (every `maxKeys < 2^15`: `simd.Search`
returns an `int16`). -/
theorem search_w (hs : p.size = 2 * (mk + 1)) (hmk : mk < 2 ^ 15) (hn : nkeys mk p ≤ mk) (k : Key) :
    Gen.Node.search p (w mk) k = some (w (RV.Tree.search (ents mk p) k)) := by
  have h64 : p.size ≤ 2 ^ 64 := by omega
  have hlen := ents_length mk p
  unfold Gen.Node.search
  simp only [numKeys_w hs h64, Option.bind_some]
  rw [show (4#64 : BitVec 64) = w 4 from rfl, w_slt (by omega) (by omega)]
  by_cases h4 : nkeys mk p < 4
  · simp only [h4, decide_true, if_true]
    -- the loop
    have hloop := forRange_rule (ρ := BitVec 64) (σ := Unit) 0 (nkeys mk p) (Nat.zero_le _) (by omega)
      (Gen.Node.search_loop1 p k)
      (fun i _ => ∀ i', i' < i → keyW p i' < k)
      (fun r => r = w (RV.Tree.search (ents mk p) k)) () (by intro i' h; omega)
      (by
        intro i s _ hi hinv
        simp only [Gen.Node.search_loop1, key_w (show 2 * i < p.size by omega) h64, Option.bind_some]
        by_cases hc : BitVec.ule k (keyW p i) = true
        · right
          refine ⟨w i, by simp [hc], ?_⟩
          congr 1
          symm
          apply search_eq_of_first _ _ _ (by omega)
          · intro i' hi'; rw [ents, keyAt_entsUpTo]; simp [show i' < nkeys mk p by omega]; exact hinv i' hi'
          · intro _; rw [ents, keyAt_entsUpTo]; simp [hi]; exact BitVec.ule_iff_le.mp hc
        · left
          refine ⟨(), by simp [hc], ?_⟩
          intro i' hi'
          by_cases he : i' = i
          · subst he
            have : ¬ k ≤ keyW p i' := fun h => hc (BitVec.ule_iff_le.mpr h)
            bv_omega
          · exact hinv i' (by omega))
    rcases hloop with ⟨s', he, hinv⟩ | ⟨r, he, hq⟩
    · simp only [show (0#64 : BitVec 64) = w 0 from rfl]
      rw [he]
      simp only [Option.bind_some]
      congr 2
      symm
      apply search_eq_of_first _ _ _ (by omega)
      · intro i' hi'; rw [ents, keyAt_entsUpTo]; simp [show i' < nkeys mk p by omega]; exact hinv i' (by omega)
      · intro h; omega
    · simp only [show (0#64 : BitVec 64) = w 0 from rfl]
      rw [he]
      simp only [Option.bind_some]
      rw [hq]
  · simp only [h4, decide_false, Bool.false_eq_true, if_false]
    -- simd.Search on the first 2*numKeys words
    have h2n : (2#64 : BitVec 64) * w (nkeys mk p) = w (2 * nkeys mk p) := by
      rw [← keyOffset_w]; rfl
    rw [h2n]
    unfold Gen.simdSearch
    rw [show (0#64 : BitVec 64) = w 0 from rfl, winOk_w (Nat.zero_le _) (by omega) (by omega)]
    simp only [if_true]
    rw [w_toNat (show 0 < 2 ^ 64 by omega), w_toNat (show 2 * nkeys mk p < 2 ^ 64 by omega)]
    have hxs : (p.extract 0 (2 * nkeys mk p)).size = 2 * nkeys mk p := by
      rw [Array.size_extract]; omega
    obtain ⟨j, hj, hfirst⟩ := RV.SimdProofs.naive_isFirst (p.extract 0 (2 * nkeys mk p)) k (by rw [hxs]; omega)
    rw [hj]
    simp only [Option.bind_some]
    rw [hxs, show (2 * nkeys mk p + 1) / 2 = nkeys mk p by omega] at hfirst
    obtain ⟨hjn, hlt, hge⟩ := hfirst
    rw [RV.SimdProofs.signExtend_ofNat16 j (by omega)]
    congr 2
    symm
    have hat : ∀ i, i < nkeys mk p → RV.SimdProofs.at! (p.extract 0 (2 * nkeys mk p)) (2 * i) = keyW p i := by
      intro i hi
      unfold RV.SimdProofs.at! keyW
      rw [extract_get! p 0 (2 * nkeys mk p) (2 * i) (by omega) (by omega)]
      simp
    apply search_eq_of_first _ _ _ (by omega)
    · intro i' hi'
      rw [ents, keyAt_entsUpTo]; simp [show i' < nkeys mk p by omega]
      rw [← hat i' (by omega)]; exact hlt i' hi'
    · intro h
      rw [hlen] at h
      rw [ents, keyAt_entsUpTo]; simp [h]
      rw [← hat j h]; exact hge h

theorem ents_get? (i : Nat) : (ents mk p)[i]? = if i < nkeys mk p then some (keyW p i, valW p i) else none :=
  entsUpTo_get? _ _ _

/-- `n.get(k)` on a page = `leafGet` on its entries. -/
theorem get_w (hs : p.size = 2 * (mk + 1)) (hmk : mk < 2 ^ 15) (hn : nkeys mk p ≤ mk) (k : Key) :
    Gen.Node.get p (w mk) k = some (RV.Tree.leafGet (ents mk p) k) := by
  have h64 : p.size ≤ 2 ^ 64 := by omega
  have hle := RV.Tree.search_le_length (ents mk p) k
  rw [ents_length] at hle
  unfold Gen.Node.get RV.Tree.leafGet
  simp only [search_w hs hmk hn, numKeys_w hs h64, Option.bind_some, ents_length]
  unfold Gen.Tree.getMiss
  generalize hidx : RV.Tree.search (ents mk p) k = idx at hle
  by_cases he : (w idx == w (nkeys mk p)) = true
  · simp only [he, if_true]
  · simp only [he, Bool.false_eq_true, if_false]
    have hlt : idx < nkeys mk p := by
      rcases Nat.lt_or_ge idx (nkeys mk p) with h | h
      · exact h
      · have : idx = nkeys mk p := by omega
        subst this; simp at he
    rw [key_w (show 2 * idx < p.size by omega) h64, ents_get?]
    simp only [Option.bind_some, hlt, if_true]
    unfold Gen.Tree.getHit
    by_cases hk : (keyW p idx == k) = true
    · simp only [hk, if_true]
      rw [val_w (show 2 * idx + 1 < p.size by omega) h64]; rfl
    · simp only [hk, Bool.false_eq_true, if_false]

/-- `n.maxKey()` on a page = `maxKey` of its entries (an empty node reads the zeroed slot 0). -/
theorem maxKey_w (hs : p.size = 2 * (mk + 1)) (hmk : mk < 2 ^ 31) (hn : nkeys mk p ≤ mk)
    (hz : nkeys mk p = 0 → 1 ≤ mk ∧ keyW p 0 = 0#64) :
    Gen.Node.maxKey p (w mk) = some (RV.Tree.maxKey (ents mk p)) := by
  have h64 : p.size ≤ 2 ^ 64 := by omega
  unfold Gen.Node.maxKey RV.Tree.maxKey Gen.Tree.maxKeyDec
  simp only [numKeys_w hs h64, Option.bind_some, ents_length]
  rw [show (0#64 : BitVec 64) = w 0 from rfl, w_slt (by omega) (by omega)]
  by_cases h0 : 0 < nkeys mk p
  · simp only [h0, decide_true, if_true, Option.bind_some]
    rw [w_sub_one (by omega), key_w (show 2 * (nkeys mk p - 1) < p.size by omega) h64, ents, keyAt_entsUpTo]
    simp [show nkeys mk p - 1 < nkeys mk p by omega]
  · have hn0 : nkeys mk p = 0 := by omega
    obtain ⟨h1, hk0⟩ := hz hn0
    simp only [h0, decide_false, Bool.false_eq_true, if_false, Option.bind_some]
    rw [hn0, key_w (show 2 * 0 < p.size by omega) h64, ents, keyAt_entsUpTo, hn0]
    simp [hk0]

end RV.NodeFlat
