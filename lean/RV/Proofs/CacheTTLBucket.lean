import RV.Proofs.CacheTTLSweep
/-!
# Bucket arithmetic and the bucket grab of the sweep (C14 liveness, `registered_inv`)

`storageBucket`/`cleanupBucket` are the generated int64 kernels; over times whose Unix seconds are far
from the int64 limits (`TimeOk`) they are `secs/5 + 1` and `secs/5` (Go's truncating division), hence
`bucket_lt`: a bucket covered by the sweep at `now` only holds expirations before `now`.
-/
namespace RV.Cache
open Gen.Cache

/-- times whose Unix seconds fit comfortably into an int64 (|t| < 2^62 s ≈ 1.4·10^11 years) -/
def TimeOk (t : Int) : Prop := -(2:Int)^62 * 1000000000 ≤ t ∧ t < (2:Int)^62 * 1000000000

theorem unixSecs_toInt (t : Int) (h : TimeOk t) : (Gen.unixSecs t).toInt = t / 1000000000 := by
  obtain ⟨h1, h2⟩ := h
  unfold Gen.unixSecs
  rw [BitVec.toInt_ofInt, Int.bmod_def]
  omega

theorem tdiv5 (a : Int) : a.tdiv 5 = a / 5 + if 0 ≤ a ∨ a % 5 = 0 then 0 else 1 := by
  rw [Int.tdiv_eq_ediv]
  have : (5 : Int) ∣ a ↔ a % 5 = 0 := Int.dvd_iff_emod_eq_zero
  simp only [this]
  rfl

theorem storageBucket_toInt (t : Int) (h : TimeOk t) :
    (storageBucket t).toInt = (t / 1000000000).tdiv 5 + 1 := by
  have hs := unixSecs_toInt t h
  obtain ⟨h1, h2⟩ := h
  unfold storageBucket
  rw [BitVec.toInt_add, BitVec.toInt_sdiv, hs]
  have h5 : (5#64).toInt = 5 := by decide
  have h1' : (1#64).toInt = 1 := by decide
  rw [h5, h1', tdiv5]
  simp only [Int.bmod_def]
  split <;> omega

theorem cleanupBucket_toInt (t : Int) (h : TimeOk t) :
    (cleanupBucket t).toInt = (t / 1000000000).tdiv 5 := by
  have hs := storageBucket_toInt t h
  obtain ⟨h1, h2⟩ := h
  unfold cleanupBucket
  rw [BitVec.toInt_sub, hs]
  have h1' : (1#64).toInt = 1 := by decide
  rw [h1', tdiv5]
  simp only [Int.bmod_def]
  split <;> omega

/-- a bucket that the sweep at `now` covers only holds expirations before `now` -/
theorem bucket_lt {exp now : Int} (he : TimeOk exp) (hn : TimeOk now) (h : bucketOf exp ≤ cleanupOf now) :
    exp < now := by
  unfold bucketOf cleanupOf at h
  rw [storageBucket_toInt exp he, cleanupBucket_toInt now hn, tdiv5, tdiv5] at h
  split at h <;> split at h <;> omega

/-- conversely: an expiration at least one bucket period (5 s) plus one second before `now` lies in a
bucket that the sweep at `now` covers -/
theorem bucket_le_of_old {exp now : Int} (he : TimeOk exp) (hn : TimeOk now) (h : exp + 10000000000 ≤ now) :
    bucketOf exp ≤ cleanupOf now := by
  unfold bucketOf cleanupOf
  rw [storageBucket_toInt exp he, cleanupBucket_toInt now hn, tdiv5, tdiv5]
  split <;> split <;> omega

theorem zeroTime_ok : TimeOk Gen.zeroTime := by
  unfold TimeOk Gen.zeroTime; omega

/-! ### the range test of `cleanup`'s loop -/

/-- the loop of `cleanup` visits bucket `b` -/
def inRange (lastCleaned cur b : Int) : Bool :=
  decide ((sweepFirst (BitVec.ofInt 64 lastCleaned)).toInt ≤ b) &&
    sweepLoopCond (BitVec.ofInt 64 b) (BitVec.ofInt 64 cur)

theorem bucketOf_bounds (t : Time) : -(2:Int)^63 ≤ bucketOf t ∧ bucketOf t < (2:Int)^63 := by
  unfold bucketOf
  have := BitVec.toInt_lt (x := storageBucket t)
  have := BitVec.le_toInt (x := storageBucket t)
  omega

theorem inRange_bucket {lc : Int} {now exp : Time} (hlc : -(2:Int)^63 ≤ lc) (h1 : lc < bucketOf exp)
    (h2 : bucketOf exp ≤ cleanupOf now) : inRange lc (cleanupOf now) (bucketOf exp) = true := by
  obtain ⟨hb1, hb2⟩ := bucketOf_bounds exp
  unfold inRange
  rw [Bool.and_eq_true, decide_eq_true_eq]
  constructor
  · unfold sweepFirst
    rw [BitVec.toInt_add, BitVec.toInt_ofInt]
    have h1' : (1#64).toInt = 1 := by decide
    rw [h1']
    simp only [Int.bmod_def]
    split <;> split <;> omega
  · unfold sweepLoopCond bucketOf cleanupOf
    rw [BitVec.ofInt_toInt, BitVec.ofInt_toInt, BitVec.sle_iff_toInt_le]
    exact h2

/-! ### `Em.grab` -/

theorem mem_insertSorted {x y : Int × AMap Hash Conf} {l : List (Int × AMap Hash Conf)} :
    y ∈ insertSorted x l ↔ y = x ∨ y ∈ l := by
  induction l with
  | nil => simp [insertSorted]
  | cons z l ih =>
    unfold insertSorted
    split
    · simp
    · simp only [List.mem_cons, ih]
      constructor
      · rintro (h | h | h)
        · exact Or.inr (Or.inl h)
        · exact Or.inl h
        · exact Or.inr (Or.inr h)
      · rintro (h | h | h)
        · exact Or.inr (Or.inl h)
        · exact Or.inl h
        · exact Or.inr (Or.inr h)

theorem mem_foldr_insertSorted {y : Int × AMap Hash Conf} {l : List (Int × AMap Hash Conf)} :
    y ∈ l.foldr insertSorted [] ↔ y ∈ l := by
  induction l with
  | nil => simp
  | cons z l ih => simp only [List.foldr_cons, mem_insertSorted, ih, List.mem_cons]

theorem amap_mem_of_lookup {κ ν : Type} [DecidableEq κ] {m : AMap κ ν} {k : κ} {v : ν}
    (h : m.lookup k = some v) : (k, v) ∈ m.toList := by
  induction m with
  | nil => simp [AMap.lookup] at h
  | cons p rest ih =>
    obtain ⟨k', v'⟩ := p
    by_cases hk : k' = k
    · simp only [AMap.lookup, hk, if_true, Option.some.injEq] at h
      subst h; subst hk; exact List.mem_cons_self ..
    · simp only [AMap.lookup, hk, if_false] at h
      exact List.mem_cons_of_mem _ (ih h)

theorem amap_lookup_filter {ν : Type} (f : Int → Bool) (l : AMap Int ν) (b : Int) :
    AMap.lookup (List.filter (fun p => f p.1) l : AMap Int ν) b = if f b then AMap.lookup l b else none := by
  induction l with
  | nil => simp [AMap.lookup]
  | cons p rest ih =>
    obtain ⟨b', v⟩ := p
    by_cases hf : f b' = true
    · rw [List.filter_cons_of_pos (by simpa using hf)]
      by_cases hb : b' = b
      · subst hb; simp [AMap.lookup, hf]
      · simp only [AMap.lookup, hb, if_false]; exact ih
    · rw [List.filter_cons_of_neg (by simpa using hf)]
      by_cases hb : b' = b
      · subst hb
        rw [ih]; simp [hf]
      · simp only [AMap.lookup, hb, if_false]; exact ih

theorem grab_eq (em : Em) (now : Time) :
    em.grab now =
      ({ buckets := em.buckets.toList.filter (fun p => !inRange em.lastCleaned (cleanupOf now) p.1),
         lastCleaned := cleanupOf now },
       ((em.buckets.toList.filter (fun p => inRange em.lastCleaned (cleanupOf now) p.1)).foldr insertSorted []).map (·.2)) :=
  rfl

/-- a bucket in range is handed to the sweep and disappears from the index -/
theorem grab_hit {em : Em} {now : Time} {b : Int} {m : AMap Hash Conf} (hl : em.buckets.lookup b = some m)
    (hr : inRange em.lastCleaned (cleanupOf now) b = true) :
    m ∈ (em.grab now).2 ∧ (em.grab now).1.buckets.lookup b = none := by
  rw [grab_eq]
  constructor
  · refine List.mem_map.mpr ⟨(b, m), ?_, rfl⟩
    rw [mem_foldr_insertSorted]
    exact List.mem_filter.mpr ⟨amap_mem_of_lookup hl, hr⟩
  · exact (amap_lookup_filter (fun b => !inRange em.lastCleaned (cleanupOf now) b) em.buckets b).trans (by simp [hr])

/-- a bucket out of range stays in the index -/
theorem grab_miss {em : Em} {now : Time} {b : Int} (hr : inRange em.lastCleaned (cleanupOf now) b = false) :
    (em.grab now).1.buckets.lookup b = em.buckets.lookup b := by
  rw [grab_eq]
  exact (amap_lookup_filter (fun b => !inRange em.lastCleaned (cleanupOf now) b) em.buckets b).trans (by simp [hr])

/-- every grabbed bucket was a bucket of the index, in range -/
theorem grab_mem {em : Em} {now : Time} {m : AMap Hash Conf} (h : m ∈ (em.grab now).2) :
    ∃ b, (b, m) ∈ em.buckets.toList ∧ inRange em.lastCleaned (cleanupOf now) b = true := by
  rw [grab_eq] at h
  obtain ⟨⟨b, m'⟩, hm, rfl⟩ := List.mem_map.mp h
  rw [mem_foldr_insertSorted] at hm
  obtain ⟨h1, h2⟩ := List.mem_filter.mp hm
  exact ⟨b, h1, h2⟩

theorem grab_lastCleaned (em : Em) (now : Time) : (em.grab now).1.lastCleaned = cleanupOf now := rfl

end RV.Cache
