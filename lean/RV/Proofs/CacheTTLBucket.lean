import RV.Proofs.CacheTTLSweep
/-!
# Bucket arithmetic and the bucket grab of the sweep (C14 liveness, `registered_inv`)

`storageBucket`/`cleanupBucket` are the generated int64 kernels; over times whose Unix seconds are far
from the int64 limits (`TimeOk`) they are `secs/5 + 1` and `secs/5` (Go's truncating division), hence
`bucket_lt`: a bucket covered by the sweep at `now` only holds expirations before `now`.
-/
namespace RV.Cache
open Gen.Cache

/-- times whose Unix seconds fit comfortably into an int64 (|t| < 2^62 s ≈ 1.4·10^11 years) -/
def TimeOk (t : Int) : Prop := -(2:Int)^62 * 1000000000 ≤ t ∧ t < (2:Int)^62 * 1000000000

theorem unixSecs_toInt (t : Int) (h : TimeOk t) : (Gen.unixSecs t).toInt = t / 1000000000 := by
  obtain ⟨h1, h2⟩ := h
  unfold Gen.unixSecs
  rw [BitVec.toInt_ofInt, Int.bmod_def]
  omega

theorem tdiv5 (a : Int) : a.tdiv 5 = a / 5 + if 0 ≤ a ∨ a % 5 = 0 then 0 else 1 := by
  rw [Int.tdiv_eq_ediv]
  have : (5 : Int) ∣ a ↔ a % 5 = 0 := Int.dvd_iff_emod_eq_zero
  simp only [this]
  rfl

theorem storageBucket_toInt (t : Int) (h : TimeOk t) :
    (storageBucket t).toInt = (t / 1000000000).tdiv 5 + 1 := by
  have hs := unixSecs_toInt t h
  obtain ⟨h1, h2⟩ := h
  unfold storageBucket
  rw [BitVec.toInt_add, BitVec.toInt_sdiv, hs]
  have h5 : (5#64).toInt = 5 := by decide
  have h1' : (1#64).toInt = 1 := by decide
  rw [h5, h1', tdiv5]
  simp only [Int.bmod_def]
  split <;> omega

theorem cleanupBucket_toInt (t : Int) (h : TimeOk t) :
    (cleanupBucket t).toInt = (t / 1000000000).tdiv 5 := by
  have hs := storageBucket_toInt t h
  obtain ⟨h1, h2⟩ := h
  unfold cleanupBucket
  rw [BitVec.toInt_sub, hs]
  have h1' : (1#64).toInt = 1 := by decide
  rw [h1', tdiv5]
  simp only [Int.bmod_def]
  split <;> omega

/-- a bucket that the sweep at `now` covers only holds expirations before `now` -/
theorem bucket_lt {exp now : Int} (he : TimeOk exp) (hn : TimeOk now) (h : bucketOf exp ≤ cleanupOf now) :
    exp < now := by
  unfold bucketOf cleanupOf at h
  rw [storageBucket_toInt exp he, cleanupBucket_toInt now hn, tdiv5, tdiv5] at h
  split at h <;> split at h <;> omega

/-- conversely: an expiration at least one bucket period (5 s) plus one second before `now` lies in a
bucket that the sweep at `now` covers -/
theorem bucket_le_of_old {exp now : Int} (he : TimeOk exp) (hn : TimeOk now) (h : exp + 10000000000 ≤ now) :
    bucketOf exp ≤ cleanupOf now := by
  unfold bucketOf cleanupOf
  rw [storageBucket_toInt exp he, cleanupBucket_toInt now hn, tdiv5, tdiv5]
  split <;> split <;> omega

theorem zeroTime_ok : TimeOk Gen.zeroTime := by
  unfold TimeOk Gen.zeroTime; omega

/-! ### the range test of `cleanup`'s loop -/

/-- the loop of `cleanup` visits bucket `b` -/
def inRange (lastCleaned cur b : Int) : Bool :=
  decide ((sweepFirst (BitVec.ofInt 64 lastCleaned)).toInt ≤ b) &&
    sweepLoopCond (BitVec.ofInt 64 b) (BitVec.ofInt 64 cur)

theorem bucketOf_bounds (t : Time) : -(2:Int)^63 ≤ bucketOf t ∧ bucketOf t < (2:Int)^63 := by
  unfold bucketOf
  have := BitVec.toInt_lt (x := storageBucket t)
  have := BitVec.le_toInt (x := storageBucket t)
  omega

/-- bucket numbers that are int64 values -/
def BucketOk (b : Int) : Prop := -(2:Int)^63 ≤ b ∧ b < (2:Int)^63

/-- `lastCleaned` values far from the int64 limits (true for `cleanupOf` of sane times) -/
def LcOk (lc : Int) : Prop := -(2:Int)^62 ≤ lc ∧ lc < (2:Int)^62

theorem bucketOf_ok (t : Time) : BucketOk (bucketOf t) := bucketOf_bounds t

theorem cleanupOf_lcOk {t : Time} (h : TimeOk t) : LcOk (cleanupOf t) := by
  unfold cleanupOf LcOk
  rw [cleanupBucket_toInt t h, tdiv5]
  obtain ⟨h1, h2⟩ := h
  split <;> omega

theorem cleanupOf_mono {t t' : Time} (h : TimeOk t) (h' : TimeOk t') (hle : t ≤ t') : cleanupOf t ≤ cleanupOf t' := by
  unfold cleanupOf
  rw [cleanupBucket_toInt t h, cleanupBucket_toInt t' h', tdiv5, tdiv5]
  simp only [Time] at hle
  split <;> split <;> omega

theorem ofInt_toInt_of_ok {b : Int} (h : BucketOk b) : (BitVec.ofInt 64 b).toInt = b := by
  obtain ⟨h1, h2⟩ := h
  rw [BitVec.toInt_ofInt, Int.bmod_def]
  omega

theorem next_toInt {lc : Int} (h : LcOk lc) : ((BitVec.ofInt 64 lc) + 1#64).toInt = lc + 1 := by
  obtain ⟨h1, h2⟩ := h
  rw [BitVec.toInt_add, BitVec.toInt_ofInt]
  have h1' : (1#64).toInt = 1 := by decide
  rw [h1']
  simp only [Int.bmod_def]
  split <;> split <;> omega

theorem inRange_iff {lc cur b : Int} (hlc : LcOk lc) (hb : BucketOk b) (hcur : BucketOk cur) :
    inRange lc cur b = true ↔ lc < b ∧ b ≤ cur := by
  unfold inRange sweepFirst sweepLoopCond
  rw [Bool.and_eq_true, decide_eq_true_eq, next_toInt hlc, BitVec.sle_iff_toInt_le, ofInt_toInt_of_ok hb,
    ofInt_toInt_of_ok hcur]
  omega

theorem cleanupOf_ok (t : Time) : BucketOk (cleanupOf t) := by
  unfold cleanupOf BucketOk
  have := BitVec.toInt_lt (x := cleanupBucket t)
  have := BitVec.le_toInt (x := cleanupBucket t)
  omega

theorem LcOk.bucketOk {lc : Int} (h : LcOk lc) : BucketOk lc := by
  unfold LcOk at h; unfold BucketOk; omega

/-- the bucket a new registration goes to (`expirationMap.add` after the repair of F6): the bucket of the
expiration, or — when that one has already been cleaned up — the next one to be cleaned up -/
theorem addBucket_spec {em : Em} {exp : Time} (hlc : LcOk em.lastCleaned) :
    em.lastCleaned < addBucket em exp ∧ bucketOf exp ≤ addBucket em exp ∧ BucketOk (addBucket em exp) ∧
      (addBucket em exp = bucketOf exp ∨ addBucket em exp = em.lastCleaned + 1) := by
  have hb := bucketOf_ok exp
  have hs : ((BitVec.ofInt 64 (bucketOf exp)).sle (BitVec.ofInt 64 em.lastCleaned) = true) ↔
      bucketOf exp ≤ em.lastCleaned := by
    rw [BitVec.sle_iff_toInt_le, ofInt_toInt_of_ok hb, ofInt_toInt_of_ok hlc.bucketOk]
  have hn := next_toInt hlc
  unfold addBucket emAddLate emAddNext
  dsimp only
  unfold LcOk at hlc; unfold BucketOk at hb ⊢
  split
  · rename_i h; rw [hs] at h; rw [hn]; omega
  · rename_i h; rw [hs] at h; omega

theorem updateBucket_spec {em : Em} {exp : Time} (hlc : LcOk em.lastCleaned) :
    em.lastCleaned < updateBucket em exp ∧ bucketOf exp ≤ updateBucket em exp ∧ BucketOk (updateBucket em exp) ∧
      (updateBucket em exp = bucketOf exp ∨ updateBucket em exp = em.lastCleaned + 1) := by
  have hb := bucketOf_ok exp
  have hs : ((BitVec.ofInt 64 (bucketOf exp)).sle (BitVec.ofInt 64 em.lastCleaned) = true) ↔
      bucketOf exp ≤ em.lastCleaned := by
    rw [BitVec.sle_iff_toInt_le, ofInt_toInt_of_ok hb, ofInt_toInt_of_ok hlc.bucketOk]
  have hn := next_toInt hlc
  unfold updateBucket emUpdateLate emUpdateNext
  dsimp only
  unfold LcOk at hlc; unfold BucketOk at hb ⊢
  split
  · rename_i h; rw [hs] at h; rw [hn]; omega
  · rename_i h; rw [hs] at h; omega

/-! ### `Em.grab` -/

theorem mem_insertSorted {x y : Int × AMap Hash Conf} {l : List (Int × AMap Hash Conf)} :
    y ∈ insertSorted x l ↔ y = x ∨ y ∈ l := by
  induction l with
  | nil => simp [insertSorted]
  | cons z l ih =>
    unfold insertSorted
    split
    · simp
    · simp only [List.mem_cons, ih]
      constructor
      · rintro (h | h | h)
        · exact Or.inr (Or.inl h)
        · exact Or.inl h
        · exact Or.inr (Or.inr h)
      · rintro (h | h | h)
        · exact Or.inr (Or.inl h)
        · exact Or.inl h
        · exact Or.inr (Or.inr h)

theorem mem_foldr_insertSorted {y : Int × AMap Hash Conf} {l : List (Int × AMap Hash Conf)} :
    y ∈ l.foldr insertSorted [] ↔ y ∈ l := by
  induction l with
  | nil => simp
  | cons z l ih => simp only [List.foldr_cons, mem_insertSorted, ih, List.mem_cons]

theorem amap_mem_of_lookup {κ ν : Type} [DecidableEq κ] {m : AMap κ ν} {k : κ} {v : ν}
    (h : m.lookup k = some v) : (k, v) ∈ m.toList := by
  induction m with
  | nil => simp [AMap.lookup] at h
  | cons p rest ih =>
    obtain ⟨k', v'⟩ := p
    by_cases hk : k' = k
    · simp only [AMap.lookup, hk, if_true, Option.some.injEq] at h
      subst h; subst hk; exact List.mem_cons_self ..
    · simp only [AMap.lookup, hk, if_false] at h
      exact List.mem_cons_of_mem _ (ih h)

theorem amap_lookup_filter {ν : Type} (f : Int → Bool) (l : AMap Int ν) (b : Int) :
    AMap.lookup (List.filter (fun p => f p.1) l : AMap Int ν) b = if f b then AMap.lookup l b else none := by
  induction l with
  | nil => simp [AMap.lookup]
  | cons p rest ih =>
    obtain ⟨b', v⟩ := p
    by_cases hf : f b' = true
    · rw [List.filter_cons_of_pos (by simpa using hf)]
      by_cases hb : b' = b
      · subst hb; simp [AMap.lookup, hf]
      · simp only [AMap.lookup, hb, if_false]; exact ih
    · rw [List.filter_cons_of_neg (by simpa using hf)]
      by_cases hb : b' = b
      · subst hb
        rw [ih]; simp [hf]
      · simp only [AMap.lookup, hb, if_false]; exact ih

theorem grab_eq (em : Em) (now : Time) :
    em.grab now =
      ({ buckets := em.buckets.toList.filter (fun p => !inRange em.lastCleaned (cleanupOf now) p.1),
         lastCleaned := cleanupOf now },
       ((em.buckets.toList.filter (fun p => inRange em.lastCleaned (cleanupOf now) p.1)).foldr insertSorted []).map (·.2)) :=
  rfl

/-- a bucket in range is handed to the sweep and disappears from the index -/
theorem grab_hit {em : Em} {now : Time} {b : Int} {m : AMap Hash Conf} (hl : em.buckets.lookup b = some m)
    (hr : inRange em.lastCleaned (cleanupOf now) b = true) :
    m ∈ (em.grab now).2 ∧ (em.grab now).1.buckets.lookup b = none := by
  rw [grab_eq]
  constructor
  · refine List.mem_map.mpr ⟨(b, m), ?_, rfl⟩
    rw [mem_foldr_insertSorted]
    exact List.mem_filter.mpr ⟨amap_mem_of_lookup hl, hr⟩
  · exact (amap_lookup_filter (fun b => !inRange em.lastCleaned (cleanupOf now) b) em.buckets b).trans (by simp [hr])

/-- a bucket out of range stays in the index -/
theorem grab_miss {em : Em} {now : Time} {b : Int} (hr : inRange em.lastCleaned (cleanupOf now) b = false) :
    (em.grab now).1.buckets.lookup b = em.buckets.lookup b := by
  rw [grab_eq]
  exact (amap_lookup_filter (fun b => !inRange em.lastCleaned (cleanupOf now) b) em.buckets b).trans (by simp [hr])

/-- every grabbed bucket was a bucket of the index, in range -/
theorem grab_mem {em : Em} {now : Time} {m : AMap Hash Conf} (h : m ∈ (em.grab now).2) :
    ∃ b, (b, m) ∈ em.buckets.toList ∧ inRange em.lastCleaned (cleanupOf now) b = true := by
  rw [grab_eq] at h
  obtain ⟨⟨b, m'⟩, hm, rfl⟩ := List.mem_map.mp h
  rw [mem_foldr_insertSorted] at hm
  obtain ⟨h1, h2⟩ := List.mem_filter.mp hm
  exact ⟨b, h1, h2⟩

theorem grab_lastCleaned (em : Em) (now : Time) : (em.grab now).1.lastCleaned = cleanupOf now := rfl

end RV.Cache
