import RV.Proofs.NodeFlatTop
/-!
# Flat pages: `node.iterate`
-/
namespace RV.NodeFlat
open RV.Tree (Key Val w w_toNat w_toInt w_slt w_sle w_beq SortedFrom)
open Gen.Tree
variable {mk : Nat} {p : Page}

/-- `fn` on the slots `i, i+1, …, i+c-1`, in order, threading the page (`none` = `fn` panicked) -/
def iterFrom (fn : Page → BitVec 64 → Option Page) : Nat → Nat → Page → Option Page
  | 0, _, q => some q
  | c + 1, i, q => (fn q (w i)).bind fun q' => iterFrom fn c (i + 1) q'

/-- one round of `iterate`, whichever way the source spells the test (`k > 0 … else break`,
`k == 0 → break`, `k != 0 …`): stop at a zero key, else call `fn` and go on -/
theorem iterate_loop1_char (fn : Page → BitVec 64 → Option Page) (i : BitVec 64) (q : Page) :
    Gen.Node.iterate_loop1 fn i q = (Gen.Node.key q i).bind fun k =>
      if k = 0#64 then some (Gen.LoopOut.brk q) else (fn q i).bind fun q' => some (Gen.LoopOut.next q') := by
  unfold Gen.Node.iterate_loop1
  dsimp only
  generalize Gen.Node.key q i = r
  cases r with
  | none => simp
  | some k =>
    simp only [Option.bind_some]
    by_cases hk : k = 0#64
    · subst hk; simp [BitVec.ult]
    · have hpos : BitVec.ult 0#64 k = true := by
        simp only [BitVec.ult, decide_eq_true_eq]
        have : k.toNat ≠ 0 := fun h0 => hk (BitVec.eq_of_toNat_eq (by simpa using h0))
        simp; omega
      first
        | simp [hk, hpos]
        | simp [hk]

theorem iterate_go (hs : p.size = 2 * (mk + 1)) (hmk : mk < 2 ^ 31) (hn : nkeys mk p ≤ mk)
    (hnz : ∀ i, i < nkeys mk p → keyW p i ≠ 0#64)
    (hzero : ∀ i, i < mk → nkeys mk p ≤ i → keyW p i = 0#64)
    (fn : Page → BitVec 64 → Option Page)
    (hfn : ∀ q i q', fn q i = some q' → q'.size = q.size ∧ ∀ j, j < mk → keyW q' j = keyW q j) :
    ∀ c i q, i + c = nkeys mk p → q.size = p.size → (∀ j, j < mk → keyW q j = keyW p j) →
      Gen.forGo (w mk) (Gen.Node.iterate_loop1 fn) (mk - i) (w i) q =
        (iterFrom fn c i q).map fun q' => Gen.LoopRes.done q' (w (nkeys mk p)) := by
  intro c
  induction c with
  | zero =>
    intro i q hi hsz hk
    have hin : i = nkeys mk p := by omega
    subst hin
    simp only [iterFrom, Option.map_some]
    by_cases hfull : nkeys mk p = mk
    · rw [hfull, Nat.sub_self]
      simp [Gen.forGo, w_slt (show mk < 2 ^ 63 by omega) (show mk < 2 ^ 63 by omega)]
    · obtain ⟨f, hf⟩ : ∃ f, mk - nkeys mk p = f + 1 := ⟨mk - nkeys mk p - 1, by omega⟩
      rw [hf]
      unfold Gen.forGo
      rw [w_slt (by omega) (by omega)]
      have hlt : nkeys mk p < mk := by omega
      have hk0 : keyW q (nkeys mk p) = 0#64 := by rw [hk _ hlt]; exact hzero _ hlt (Nat.le_refl _)
      simp only [hlt, decide_true, if_true, iterate_loop1_char,
        key_w (show 2 * nkeys mk p < q.size by omega) (show q.size ≤ 2 ^ 64 by omega), Option.bind_some, hk0]
      try simp
  | succ c ih =>
    intro i q hi hsz hk
    have hlt : i < nkeys mk p := by omega
    obtain ⟨f, hf⟩ : ∃ f, mk - i = f + 1 := ⟨mk - i - 1, by omega⟩
    rw [hf]
    unfold Gen.forGo
    rw [w_slt (by omega) (by omega)]
    have hki : keyW q i ≠ 0#64 := by rw [hk _ (by omega)]; exact hnz _ hlt
    have hpos : BitVec.ult 0#64 (keyW q i) = true := by
      simp only [BitVec.ult, decide_eq_true_eq]
      have : (keyW q i).toNat ≠ 0 := fun h => hki (BitVec.eq_of_toNat_eq (by simpa using h))
      simp; omega
    simp only [show i < mk by omega, decide_true, if_true, iterate_loop1_char,
      key_w (show 2 * i < q.size by omega) (show q.size ≤ 2 ^ 64 by omega), Option.bind_some, if_neg hki, iterFrom]
    cases hq : fn q (w i) with
    | none => simp
    | some q' =>
      obtain ⟨h1, h2⟩ := hfn _ _ _ hq
      simp only [Option.bind_some, w_add_one]
      have hf' : f = mk - (i + 1) := by omega
      rw [hf']
      exact ih (i + 1) q' (by omega) (by omega) (fun j hj => by rw [h2 j hj, hk j hj])

/-- `n.iterate(fn)` on a well-formed page calls `fn` for the slots `0 … numKeys-1`, in order, and
stops there (at the zeroed slot behind the last key, or at `maxKeys`), for every callback that
leaves the key words and the size of the page alone (it may rewrite values); a panic of `fn` is
a panic of `iterate`. -/
theorem iterate_w (hok : PageOk mk p) (hmk : mk < 2 ^ 31) (fn : Page → BitVec 64 → Option Page)
    (hfn : ∀ q i q', fn q i = some q' → q'.size = q.size ∧ ∀ j, j < mk → keyW q' j = keyW q j) :
    Gen.Node.iterate p (w mk) fn = iterFrom fn (nkeys mk p) 0 p := by
  obtain ⟨hs, hn, hnz, _, hzero⟩ := hok
  have hgo := iterate_go hs hmk hn hnz (fun i h1 h2 => (hzero i h1 h2).1) fn hfn (nkeys mk p) 0 p (by omega) rfl
    (fun _ _ => rfl)
  unfold Gen.Node.iterate Gen.forRange
  rw [show (0#64 : BitVec 64) = w 0 from rfl, w_toInt (show mk < 2 ^ 63 by omega), w_toInt (show 0 < 2 ^ 63 by omega)]
  have hfuel : ((mk : Int) - ((0 : Nat) : Int)).toNat = mk - 0 := by omega
  rw [hfuel, hgo]
  cases iterFrom fn (nkeys mk p) 0 p <;> simp


end RV.NodeFlat
