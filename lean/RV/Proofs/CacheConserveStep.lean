import RV.Proofs.CacheConserveDefs
/-!
# `conserved_step`: one abstract step preserves `Conserved v` (see `CacheConserveDefs.lean`)
-/
namespace RV.Cache
open Gen.Cache

theorem heldV_store {w : View} {v : Val} (h : InStore w.store v) : HeldV w v := Or.inl h
theorem heldV_buf {w : View} {v : Val} {x : BufElem} (hx : x ∈ w.buf) (h : holdE x = v) : HeldV w v :=
  Or.inr (Or.inl ⟨x, hx, h⟩)
theorem heldV_sendq {w : View} {v : Val} {p : Tid × BufElem} (hp : p ∈ w.sendq) (h : holdE p.2 = v) : HeldV w v :=
  Or.inr (Or.inr (Or.inl ⟨p, hp, h⟩))
theorem heldV_app {w : View} {v : Val} (h : holdA w.app = v) : HeldV w v := Or.inr (Or.inr (Or.inr (Or.inl h)))
theorem heldV_cl {w : View} {v : Val} (t : Tid) (h : holdC (w.cl t) = v) : HeldV w v :=
  Or.inr (Or.inr (Or.inr (Or.inr ⟨t, h⟩)))

/-- a client move logs a `Set` call of `v` only when it starts that `Set` -/
theorem cmove_call {w : View} {t : Tid} {pc pc' : CPc} {l : List Ev} (v : Val) (hm : CMove w t pc pc' l) :
    (∃ h c cost ttl, pc' = .setStart h c v cost ttl) ∨ ∀ t' h c cost ttl, Ev.setCall t' h c v cost ttl ∉ l := by
  cases hm
  case spSet h c v' cost ttl =>
    by_cases hvv : v' = v
    · subst hvv; exact Or.inl ⟨h, c, cost, ttl, rfl⟩
    · right; intro t' h' c' cost' ttl' hm
      simp only [List.mem_cons, Ev.setCall.injEq, List.not_mem_nil, or_false] at hm
      exact hvv hm.2.2.2.1.symm
  all_goals (right; intro t' h' c' cost' ttl' hm; simp at hm)

theorem amove_call {pc pc' : APc} {l : List Ev} (v : Val) (hm : AMove pc pc' l) :
    ∀ t' h c cost ttl, Ev.setCall t' h c v cost ttl ∉ l := by
  cases hm <;> (intro t' h' c' cost' ttl' hm; simp at hm)

theorem evLog_call (st : Store) (ks : List Hash) (v : Val) :
    ∀ t' h c cost ttl, Ev.setCall t' h c v cost ttl ∉ evLog st ks := by
  induction ks with
  | nil => intro t' h c cost ttl hm; cases hm
  | cons k rest ih =>
    intro t' h c cost ttl hm
    unfold evLog at hm
    rcases List.mem_append.mp hm with hm | hm
    · exact ih t' h c cost ttl hm
    · split at hm <;> simp at hm

theorem drainLog_call (i : Item) (v : Val) : ∀ t' h c cost ttl, Ev.setCall t' h c v cost ttl ∉ drainLog i := by
  intro t' h c cost ttl hm
  unfold drainLog at hm
  split at hm <;> simp at hm

theorem cv_afterVictims_ne_added (vs : List (Hash × Int)) (i : Item) (vs' : List (Hash × Int)) (b : Bool) :
    afterVictims vs ≠ .added i vs' b := by
  unfold afterVictims; split <;> intro h <;> cases h

theorem isSend_hold {pc : CPc} {e : BufElem} {sent blocked : CPc} (h : IsSend pc e sent blocked) :
    holdC pc = 0 ∧ holdE e = 0 ∧ holdC sent = 0 ∧ holdC blocked = 0 := by
  cases h <;> simp [holdC, holdE, holdI]

/-- One abstract step preserves `Conserved v`, given the three facts the value-flow abstraction does
not carry (see the header of `CacheConserveDefs.lean`). -/
theorem conserved_step {w w' : View} {v : Val} (h : AStep w w') (hv : v ≠ 0)
    (hrestart : ∀ t closing, w.cl t = .clrRestart closing → holdA w.app = 0)
    (hfinish : ∀ t, w.cl t = .clsFinish → holdA w.app = 0)
    (hadd : ∀ i vs, w.app = .added i vs true → w.store.lookup i.key = none ∧
      (w'.app = w.app ∨ w'.store = w.store.insert i.key ⟨i.conflict, i.value, i.exp⟩))
    (hc : Conserved v w) : Conserved v w' := by
  have h0 : ∀ {x : Val}, x = 0 → x = v → False := fun h1 h2 => hv (h2.symm.trans h1)
  cases h with
  | client t pc pc' l hpc hm =>
    rcases cmove_call v hm with ⟨h', c, cost, ttl, rfl⟩ | hcall
    · intro _
      exact Or.inr (Or.inr (heldV_cl t (by simp [holdC])))
    · refine conserved_of l rfl hcall (fun hh => held_upd_cl (fun hpcv => ?_) hh) hc
      rw [hpc] at hpcv
      rcases cmove_hold hv hm hpcv with h1 | h1 | h1
      · exact Or.inl h1
      · exact Or.inr (Or.inl h1)
      · exact Or.inr (Or.inr ⟨t, h1⟩)
  | applier pc' l hm =>
    refine conserved_of l rfl (amove_call v hm) (fun hh => ?_) hc
    rcases hh with hs | hb | hq | ha | hcl
    · exact Or.inl (Or.inl hs)
    · exact Or.inl (Or.inr (Or.inl hb))
    · exact Or.inl (Or.inr (Or.inr (Or.inl hq)))
    · rcases amove_hold hv hm ha with h1 | h1
      · exact Or.inl (heldV_app h1)
      · exact Or.inr (Or.inl h1)
    · exact Or.inl (Or.inr (Or.inr (Or.inr (Or.inr hcl))))
  | setUpdOk t i e hpc he hcf =>
    refine conserved_of [] rfl (no_call_nil v) (fun hh => Or.inl ?_) hc
    rcases hh with ⟨h1, e1, hl1, hv1⟩ | hb | hq | ha | ⟨t1, ht1⟩
    · by_cases hk : h1 = i.key
      · subst hk
        rw [he] at hl1; cases hl1
        exact heldV_cl t (by simpa [holdC] using hv1)
      · exact heldV_store (inStore_insert_other hl1 hv1 hk)
    · exact Or.inr (Or.inl hb)
    · exact Or.inr (Or.inr (Or.inl hq))
    · exact heldV_app ha
    · by_cases e1 : t1 = t
      · subst e1
        rw [hpc] at ht1
        obtain ⟨_, hval⟩ := holdI_value hv ht1
        exact heldV_store ⟨i.key, ⟨i.conflict, i.value, i.exp⟩, by simp, hval⟩
      · exact heldV_cl t1 (by simpa [updCl_ne _ _ e1] using ht1)
  | delOk t h c e hpc he hcf =>
    refine conserved_of [] rfl (no_call_nil v) (fun hh => Or.inl ?_) hc
    rcases hh with ⟨h1, e1, hl1, hv1⟩ | hb | hq | ha | ⟨t1, ht1⟩
    · by_cases hk : h1 = h
      · subst hk
        rw [he] at hl1; cases hl1
        exact heldV_cl t (by simpa [holdC] using hv1)
      · exact heldV_store (inStore_erase_other hl1 hv1 hk)
    · exact Or.inr (Or.inl hb)
    · exact Or.inr (Or.inr (Or.inl hq))
    · exact heldV_app ha
    · by_cases e1 : t1 = t
      · subst e1
        rw [hpc] at ht1
        exact (h0 rfl ht1).elim
      · exact heldV_cl t1 (by simpa [updCl_ne _ _ e1] using ht1)
  | sendOk t i hpc =>
    refine conserved_of [] rfl (no_call_nil v) (fun hh => Or.inl ?_) hc
    rcases hh with hs | ⟨x, hx, hxv⟩ | hq | ha | ⟨t1, ht1⟩
    · exact Or.inl hs
    · exact heldV_buf (w := { w with buf := w.buf ++ [.item i], cl := updCl w.cl t (.setRetTrue i) })
        (List.mem_append_left _ hx) hxv
    · exact Or.inr (Or.inr (Or.inl hq))
    · exact heldV_app ha
    · by_cases e1 : t1 = t
      · subst e1
        rw [hpc] at ht1
        exact heldV_buf (w := { w with buf := w.buf ++ [.item i], cl := updCl w.cl t1 (.setRetTrue i) })
          (x := .item i) (by simp) ht1
      · exact heldV_cl t1 (by simpa [updCl_ne _ _ e1] using ht1)
  | sendNow t pc e sent blocked hpc hsnd =>
    obtain ⟨g1, g2, g3, g4⟩ := isSend_hold hsnd
    refine conserved_of [] rfl (no_call_nil v) (fun hh => Or.inl ?_) hc
    rcases hh with hs | ⟨x, hx, hxv⟩ | hq | ha | ⟨t1, ht1⟩
    · exact Or.inl hs
    · exact heldV_buf (w := { w with buf := w.buf ++ [e], cl := updCl w.cl t sent }) (List.mem_append_left _ hx) hxv
    · exact Or.inr (Or.inr (Or.inl hq))
    · exact heldV_app ha
    · by_cases e1 : t1 = t
      · subst e1
        rw [hpc] at ht1
        exact (h0 g1 ht1).elim
      · exact heldV_cl t1 (by simpa [updCl_ne _ _ e1] using ht1)
  | sendBlock t pc e sent blocked hpc hsnd =>
    obtain ⟨g1, g2, g3, g4⟩ := isSend_hold hsnd
    refine conserved_of [] rfl (no_call_nil v) (fun hh => Or.inl ?_) hc
    rcases hh with hs | hb | ⟨p, hp, hpv⟩ | ha | ⟨t1, ht1⟩
    · exact Or.inl hs
    · exact Or.inr (Or.inl hb)
    · exact heldV_sendq (w := { w with sendq := w.sendq ++ [(t, e)], cl := updCl w.cl t blocked })
        (List.mem_append_left _ hp) hpv
    · exact heldV_app ha
    · by_cases e1 : t1 = t
      · subst e1
        rw [hpc] at ht1
        exact (h0 g1 ht1).elim
      · exact heldV_cl t1 (by simpa [updCl_ne _ _ e1] using ht1)
  | drainMarker t closing id w1 hpc hr =>
    refine conserved_of [] (by simpa using (recv_hold hr).2.2.1) (no_call_nil v) (fun hh => Or.inl ?_) hc
    rcases recv_held hr hh with h1 | h1
    · exact h1
    · exact (h0 rfl h1).elim
  | drainItem t closing i w1 hpc hr =>
    refine conserved_of (drainLog i) (by show drainLog i ++ w1.log = _; rw [(recv_hold hr).2.2.1])
      (drainLog_call i v) (fun hh => ?_) hc
    rcases recv_held hr hh with h1 | h1
    · exact Or.inl h1
    · obtain ⟨hfl, hval⟩ := holdI_value hv h1
      refine Or.inr (Or.inl ?_)
      unfold drainLog
      rw [if_neg (by rw [hfl]; simp), hval]
      simp
  | selItem x w1 happ hr =>
    obtain ⟨g1, g2, g3, _⟩ := recv_hold hr
    refine conserved_of [] (by simpa using g3) (no_call_nil v) (fun hh => Or.inl ?_) hc
    rcases recv_held hr hh with h1 | h1
    · rcases h1 with hs | hb | hq | ha | hcl
      · exact Or.inl hs
      · exact Or.inr (Or.inl hb)
      · exact Or.inr (Or.inr (Or.inl hq))
      · rw [g2, happ] at ha
        exact (h0 rfl ha).elim
      · exact Or.inr (Or.inr (Or.inr (Or.inr hcl)))
    · exact heldV_app (w := { w1 with app := recvPc x }) ((holdA_recvPc x).trans h1)
  | clrShard t closing k ks pc' hpc hord hpc' =>
    refine conserved_of (evLog w.store ks) rfl (evLog_call _ _ v) (fun hh => ?_) hc
    rcases hh with ⟨h1, e1, hl1, hv1⟩ | hb | hq | ha | ⟨t1, ht1⟩
    · by_cases hk : h1 ∈ ks
      · exact Or.inr (Or.inl (hv1 ▸ evLog_exit hk hl1))
      · exact Or.inl (heldV_store ⟨h1, e1, by rw [eraseAll_lookup_keep hk]; exact hl1, hv1⟩)
    · exact Or.inl (Or.inr (Or.inl hb))
    · exact Or.inl (Or.inr (Or.inr (Or.inl hq)))
    · exact Or.inl (heldV_app ha)
    · by_cases e1 : t1 = t
      · subst e1
        rw [hpc] at ht1
        exact (h0 rfl ht1).elim
      · exact Or.inl (heldV_cl t1 (by simpa [updCl_ne _ _ e1] using ht1))
  | clrRestart t closing pc' l hpc hpc' =>
    have hl : ∀ t' h c cost ttl, Ev.setCall t' h c v cost ttl ∉ l := by
      intro t' h c cost ttl hm
      rcases hpc' with ⟨_, rfl⟩ | ⟨_, rfl⟩ <;> simp at hm
    refine conserved_of l rfl hl (fun hh => Or.inl ?_) hc
    rcases hh with hs | hb | hq | ha | ⟨t1, ht1⟩
    · exact Or.inl hs
    · exact Or.inr (Or.inl hb)
    · exact Or.inr (Or.inr (Or.inl hq))
    · exact (h0 (hrestart t closing hpc) ha).elim
    · by_cases e1 : t1 = t
      · subst e1
        rw [hpc] at ht1
        exact (h0 rfl ht1).elim
      · exact heldV_cl t1 (by simpa [updCl_ne _ _ e1] using ht1)
  | clsFinish t hpc =>
    refine conserved_of [.closeRet t] rfl (by intro t' h c cost ttl hm; simp at hm) (fun hh => Or.inl ?_) hc
    rcases hh with hs | hb | hq | ha | ⟨t1, ht1⟩
    · exact Or.inl hs
    · exact Or.inr (Or.inl hb)
    · exact Or.inr (Or.inr (Or.inl hq))
    · exact (h0 (hfinish t hpc) ha).elim
    · by_cases e1 : t1 = t
      · subst e1
        rw [hpc] at ht1
        exact (h0 rfl ht1).elim
      · exact heldV_cl t1 (by simpa [updCl_ne _ _ e1] using ht1)
  | selStop t pc' happ hpc' =>
    refine conserved_of [] rfl (no_call_nil v) (fun hh => Or.inl ?_) hc
    rcases hh with hs | hb | hq | ha | ⟨t1, ht1⟩
    · exact Or.inl hs
    · exact Or.inr (Or.inl hb)
    · exact Or.inr (Or.inr (Or.inl hq))
    · rw [happ] at ha; exact (h0 rfl ha).elim
    · by_cases e1 : t1 = t
      · subst e1
        rcases hpc' with ⟨closing, g1, _⟩ | ⟨g1, _⟩ <;> (rw [g1] at ht1; exact (h0 rfl ht1).elim)
      · exact heldV_cl t1 (by simpa [updCl_ne _ _ e1] using ht1)
  | done t pc' happ hpc' =>
    refine conserved_of [] rfl (no_call_nil v) (fun hh => Or.inl ?_) hc
    rcases hh with hs | hb | hq | ha | ⟨t1, ht1⟩
    · exact Or.inl hs
    · exact Or.inr (Or.inl hb)
    · exact Or.inr (Or.inr (Or.inl hq))
    · rw [happ] at ha; exact (h0 rfl ha).elim
    · by_cases e1 : t1 = t
      · subst e1
        rcases hpc' with ⟨closing, g1, _⟩ | ⟨g1, _⟩ <;> (rw [g1] at ht1; exact (h0 rfl ht1).elim)
      · exact heldV_cl t1 (by simpa [updCl_ne _ _ e1] using ht1)
  | addedOk i vs st' happ hst =>
    obtain ⟨hnone, hins⟩ := hadd i vs happ
    have hst' : st' = w.store.insert i.key ⟨i.conflict, i.value, i.exp⟩ := by
      rcases hins with h1 | h1
      · exact absurd (h1.trans happ) (cv_afterVictims_ne_added _ _ _ _)
      · exact h1
    subst hst'
    refine conserved_of [] rfl (no_call_nil v) (fun hh => Or.inl ?_) hc
    rcases hh with ⟨h1, e1, hl1, hv1⟩ | hb | hq | ha | hcl
    · have hk : h1 ≠ i.key := by
        intro hk; subst hk; rw [hnone] at hl1; cases hl1
      exact heldV_store (inStore_insert_other hl1 hv1 hk)
    · exact Or.inr (Or.inl hb)
    · exact Or.inr (Or.inr (Or.inl hq))
    · rw [happ] at ha
      obtain ⟨_, hval⟩ := holdI_value hv ha
      exact heldV_store ⟨i.key, ⟨i.conflict, i.value, i.exp⟩, by simp, hval⟩
    · exact Or.inr (Or.inr (Or.inr (Or.inr hcl)))
  | victims h cost rest st' c v' happ hd =>
    refine conserved_of [] rfl (no_call_nil v) (fun hh => Or.inl ?_) hc
    rcases hh with hs | hb | hq | ha | hcl
    · rcases delRes_hold hd hs with h1 | h1
      · exact heldV_store h1
      · exact heldV_app (w := { w with store := st', app := .victimEvict h cost c v' rest }) h1
    · exact Or.inr (Or.inl hb)
    · exact Or.inr (Or.inr (Or.inl hq))
    · rw [happ] at ha; exact (h0 rfl ha).elim
    · exact Or.inr (Or.inr (Or.inr (Or.inr hcl)))
  | tombPolicy i st' c v' happ hd =>
    refine conserved_of [] rfl (no_call_nil v) (fun hh => Or.inl ?_) hc
    rcases hh with hs | hb | hq | ha | hcl
    · rcases delRes_hold hd hs with h1 | h1
      · exact heldV_store h1
      · exact heldV_app (w := { w with store := st', app := .tombStore v' }) h1
    · exact Or.inr (Or.inl hb)
    · exact Or.inr (Or.inr (Or.inl hq))
    · rw [happ] at ha; exact (h0 rfl ha).elim
    · exact Or.inr (Or.inr (Or.inr (Or.inr hcl)))
  | swKeyDel now k c bs e happ he hcf =>
    refine conserved_of [] rfl (no_call_nil v) (fun hh => Or.inl ?_) hc
    rcases hh with hs | hb | hq | ha | hcl
    · rcases delRes_hold (DelRes.some e he hcf) hs with h1 | h1
      · exact heldV_store h1
      · exact heldV_app (w := { w with store := w.store.erase k, app := .swStoreDel now k c e.exp e.value bs }) h1
    · exact Or.inr (Or.inl hb)
    · exact Or.inr (Or.inr (Or.inl hq))
    · rw [happ] at ha; exact (h0 rfl ha).elim
    · exact Or.inr (Or.inr (Or.inr (Or.inr hcl)))
  | tick => exact hc

end RV.Cache
