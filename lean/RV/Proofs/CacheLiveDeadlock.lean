import RV.Proofs.CacheLiveMark
/-!
# C08 (2): deadlock freedom of the model

A client that is inside a call either has an enabled own step, or it sits at one of the
blocking points (`delBlocked`, `waitBlocked`, `waitRecv id` with `id` not yet closed,
`clrStop`, `clrDone`) and a step of another thread that *helps* it is enabled (`Progress`):
the applier finishing its current item, the applier receiving the next channel element / the
stop request, the `done` rendezvous, or the unique active `Clear` client moving on.
-/
namespace RV.Cache
open Gen.Cache

/-- the blocking points of the client programs -/
def BlockedAt (s : State) : CPc → Prop
  | .delBlocked _ => True
  | .waitBlocked _ => True
  | .waitRecv id => id ∉ s.closedMarkers
  | .clrStop _ => True
  | .clrDone _ => True
  | .clsStop => True
  | .clsDone => True
  | _ => False

theorem isShardOrder_self (st : Store) (k : Nat) : isShardOrder st k (shardKeys st k) = true := by
  simp [isShardOrder]

/-- a client that is neither idle nor at a blocking point has an enabled step -/
theorem client_enabled {cfg : Cfg} {s : State} {t : Tid} (hwf : (s.cl t).wf = true)
    (hmid : s.cl t ≠ .idle) (hnb : ¬ BlockedAt s (s.cl t)) : ∃ ch s', clientStep cfg s t ch = some s' := by
  cases hpc : s.cl t <;> rw [hpc] at hwf hnb
  case idle => exact absurd hpc hmid
  case delBlocked => exact absurd trivial hnb
  case waitBlocked => exact absurd trivial hnb
  case clrStop => exact absurd trivial hnb
  case clrDone => exact absurd trivial hnb
  case clsStop => exact absurd trivial hnb
  case clsDone => exact absurd trivial hnb
  case waitRecv id =>
    have hin : id ∈ s.closedMarkers := by
      change ¬ (id ∉ s.closedMarkers) at hnb; exact Classical.not_not.mp hnb
    exact ⟨.none, Option.isSome_iff_exists.mp (by simp [clientStep, hpc, needNone, stWaitRecv, hin])⟩
  case getStart h c =>
    by_cases hc : s.closed = true
    · exact ⟨.none, Option.isSome_iff_exists.mp (by simp [clientStep, hpc, stGetStart, hc])⟩
    · exact ⟨.none, Option.isSome_iff_exists.mp (by simp [clientStep, hpc, stGetStart, hc])⟩
  case iterShard k n seen =>
    have hk : k < numShards.toNat := by simpa [CPc.wf] using hwf
    by_cases hlast : (iterVisit s.store s.clock n (shardKeys s.store k) seen).2 = true ∨ k + 1 = numShards.toNat
    · exact ⟨.order (shardKeys s.store k), Option.isSome_iff_exists.mp (by
        simp only [clientStep, hpc, stIterShard, isShardOrder_self]
        rw [if_neg (by omega)]; simp [hlast])⟩
    · exact ⟨.order (shardKeys s.store k), Option.isSome_iff_exists.mp (by
        simp only [clientStep, hpc, stIterShard, isShardOrder_self]
        rw [if_neg (by omega)]; simp [hlast])⟩
  case clrShard c k =>
    have hk : k < numShards.toNat := by simpa [CPc.wf] using hwf
    exact ⟨.order (shardKeys s.store k), Option.isSome_iff_exists.mp (by
      simp only [clientStep, hpc, stClrShard, isShardOrder_self]
      rw [if_neg (by omega)]; simp)⟩
  all_goals exact ⟨.none, Option.isSome_iff_exists.mp (by simp [clientStep, hpc, needNone])⟩

/-- some outcome of `defaultPolicy.Add` is always admissible in the model -/
theorem polAdd_total (on : Bool) (p : Pol) (m : Met) (k : Hash) (cost : Int) :
    ∃ victims added r, polAdd on p m k cost victims added = some r := by
  unfold polAdd
  by_cases h1 : cost > p.maxCost
  · exact ⟨[], false, Option.isSome_iff_exists.mp (by simp [h1])⟩
  · simp only [h1, if_false]
    cases hu : polUpdate on p m k cost with
    | mk p1 r =>
      obtain ⟨m1, b⟩ := r
      cases b
      · by_cases h2 : p.maxCost - (p.used + cost) ≥ 0
        · exact ⟨[], true, Option.isSome_iff_exists.mp (by simp; omega)⟩
        · exact ⟨[], false, Option.isSome_iff_exists.mp (by simp [polDelAll]; omega)⟩
      · exact ⟨[], false, Option.isSome_iff_exists.mp (by simp)⟩

theorem firstNonEmpty_head {bs : List (AMap Hash Conf)} {b : AMap Hash Conf} {rest : List (AMap Hash Conf)}
    (h : firstNonEmpty bs = b :: rest) : ∃ k c tl, b = (k, c) :: tl := by
  induction bs with
  | nil => simp [firstNonEmpty] at h
  | cons x xs ih =>
    unfold firstNonEmpty at h
    split at h
    · exact ih h
    · rename_i hne
      simp only [List.cons.injEq] at h
      obtain ⟨rfl, _⟩ := h
      cases hx : x with
      | nil => simp [AMap.toList, hx] at hne
      | cons p tl => obtain ⟨k, c⟩ := p; exact ⟨k, c, tl, rfl⟩

/-- the applier, once it has taken an element or a tick, always has an enabled step -/
theorem applier_mid_enabled {cfg : Cfg} {s : State} (hwf : s.app.wf = true) (hrun : s.app.running = true)
    (hni : s.app ≠ .idle) : ∃ ch s', applierStep cfg s ch = some s' := by
  cases hpc : s.app <;> rw [hpc] at hwf hrun
  case idle => exact absurd hpc hni
  case stopAck => cases hrun
  case dead => cases hrun
  case costed i =>
    cases hf : i.flag
    · obtain ⟨victims, added, r, hr⟩ := polAdd_total cfg.metricsOn s.pol s.met i.key i.cost
      exact ⟨.add victims added, Option.isSome_iff_exists.mp (by simp [applierStep, hpc, apCosted, hf, apCostedNew, hr])⟩
    · exact ⟨.none, Option.isSome_iff_exists.mp (by simp [applierStep, hpc, apCosted, hf, needNone])⟩
    · exact ⟨.none, Option.isSome_iff_exists.mp (by simp [applierStep, hpc, apCosted, hf, needNone])⟩
  case victims vs =>
    cases vs with
    | nil => simp [APc.wf] at hwf
    | cons v rest => obtain ⟨h, c⟩ := v; exact ⟨.none, Option.isSome_iff_exists.mp (by simp [applierStep, hpc, needNone, apVictims])⟩
  case sweep now bs =>
    cases hfe : firstNonEmpty bs with
    | nil => exact ⟨.none, Option.isSome_iff_exists.mp (by simp [applierStep, hpc, apSweep, hfe])⟩
    | cons b rest =>
      obtain ⟨k, c, tl, rfl⟩ := firstNonEmpty_head hfe
      exact ⟨.key k, Option.isSome_iff_exists.mp (by simp [applierStep, hpc, apSweep, hfe, AMap.lookup])⟩
  all_goals exact ⟨.none, Option.isSome_iff_exists.mp (by simp [applierStep, hpc, needNone])⟩

theorem recv_enabled {s : State} (h : s.buf ≠ []) : ∃ x s1, recvBuf s = some (x, s1) := by
  unfold recvBuf
  cases hb : s.buf with
  | nil => exact absurd hb h
  | cons x rest =>
    cases hq : s.sendq with
    | nil => exact ⟨x, _, rfl⟩
    | cons p q => obtain ⟨t, e⟩ := p; exact ⟨x, _, rfl⟩

theorem idle_recv_enabled {cfg : Cfg} {s : State} (hidle : s.app = .idle) (h : s.buf ≠ []) :
    ∃ s', applierStep cfg s .selItem = some s' := by
  obtain ⟨x, s1, hr⟩ := recv_enabled h
  cases x with
  | item i => exact Option.isSome_iff_exists.mp (by simp [applierStep, hidle, apIdle, apSelItem, hr])
  | marker id => exact Option.isSome_iff_exists.mp (by simp [applierStep, hidle, apIdle, apSelItem, hr])

theorem idle_stop_enabled {cfg : Cfg} {s : State} {t : Tid} {c : Bool} (hidle : s.app = .idle)
    (hpc : s.cl t = .clrStop c) : ∃ s', applierStep cfg s (.selStop t) = some s' :=
  Option.isSome_iff_exists.mp (by simp [applierStep, hidle, apIdle, apSelStop, hpc])

theorem done_enabled {s : State} {t : Tid} (happ : s.app = .stopAck) (hw : (s.cl t).waitingDone = true) :
    ∃ s', doneStep s t = some s' := by
  cases hpc : s.cl t <;> rw [hpc] at hw <;> first | cases hw | skip
  · exact Option.isSome_iff_exists.mp (by simp [doneStep, happ, hpc])
  · exact Option.isSome_iff_exists.mp (by simp [doneStep, happ, hpc])

/-- a step of another thread that brings a blocked client `t` closer to being released -/
inductive Progress (cfg : Cfg) (s : State) (t : Tid) : Prop
  /-- the idle applier can receive the next element of `setBuf` -/
  | recv : s.app = .idle → (∃ s', applierStep cfg s .selItem = some s') → Progress cfg s t
  /-- the idle applier can take `t`'s stop request -/
  | stop : s.app = .idle → (∃ s', applierStep cfg s (.selStop t) = some s') → Progress cfg s t
  /-- the applier is in the middle of an item / a sweep and can go on -/
  | work : s.app.running = true → s.app ≠ .idle → (∃ ch s', applierStep cfg s ch = some s') → Progress cfg s t
  /-- the `done` rendezvous is enabled -/
  | done (t' : Tid) : (∃ s', doneStep s t' = some s') → Progress cfg s t
  /-- the applier is stopped and the (unique) client that stopped it can move -/
  | clear (t' : Tid) : t' ≠ t → (s.cl t').busy = true → (∃ ch s', clientStep cfg s t' ch = some s') →
      Progress cfg s t

/-- "some OTHER thread has an enabled step" -/
def OtherEnabled (cfg : Cfg) (s : State) (t : Tid) : Prop :=
  (∃ ch s', applierStep cfg s ch = some s') ∨ (∃ t' s', doneStep s t' = some s') ∨
    (∃ t' ch s', t' ≠ t ∧ clientStep cfg s t' ch = some s')

theorem Progress.other {cfg : Cfg} {s : State} {t : Tid} (h : Progress cfg s t) : OtherEnabled cfg s t := by
  cases h with
  | recv _ h => obtain ⟨s', h⟩ := h; exact Or.inl ⟨_, s', h⟩
  | stop _ h => obtain ⟨s', h⟩ := h; exact Or.inl ⟨_, s', h⟩
  | work _ _ h => exact Or.inl h
  | done t' h => exact Or.inr (Or.inl ⟨t', h⟩)
  | clear t' hne _ h => obtain ⟨ch, s', h⟩ := h; exact Or.inr (Or.inr ⟨t', ch, s', hne, h⟩)

theorem busy_not_blocked (s : State) {pc : CPc} (h : pc.busy = true) : ¬ BlockedAt s pc ∧ pc ≠ .idle := by
  cases pc <;> first | exact ⟨fun h => False.elim h, fun h => CPc.noConfusion h⟩ | cases h

/-- with the applier not idle, whatever its state, somebody who helps is enabled -/
theorem progress_nonidle {cfg : Cfg} {s : State} {t : Tid} (hh : Handshake s) (hl : LiveInv cfg s)
    (hclosed : s.closed = false) (hnb : (s.cl t).busy = false) (hni : s.app ≠ .idle) : Progress cfg s t := by
  by_cases hrun : s.app.running = true
  · exact .work hrun hni (applier_mid_enabled hl.appwf hrun hni)
  · have hcases : s.app = .stopAck ∨ s.app = .dead := by
      cases hpc : s.app <;> rw [hpc] at hrun <;> first | exact absurd rfl hrun | exact Or.inl rfl | exact Or.inr rfl
    rcases hcases with ha | ha
    · obtain ⟨t', ht'⟩ := hh.ack ha
      exact .done t' (done_enabled ha ht')
    · rcases hh.dead ha with hc | ⟨t', ht'⟩
      · rw [hclosed] at hc; cases hc
      · have hne : t' ≠ t := by intro e; subst e; rw [hnb] at ht'; cases ht'
        obtain ⟨h1, h2⟩ := busy_not_blocked s ht'
        exact .clear t' hne ht' (client_enabled (hl.pcwf t') h2 h1)

/-- **C08 (2), invariant form.**  In a state satisfying the handshake and queue invariants,
not closed and with nobody inside `Close`, a client inside a call is enabled or blocked with
a helping step of another thread enabled. -/
theorem deadlock_free_inv {cfg : Cfg} {s : State} (hh : Handshake s) (hl : LiveInv cfg s) (hnc : NCInv s)
    (hcap : 1 ≤ cfg.bufCap) (t : Tid) (hmid : s.cl t ≠ .idle) :
    (∃ ch s', clientStep cfg s t ch = some s') ∨ (BlockedAt s (s.cl t) ∧ Progress cfg s t) := by
  by_cases hb : BlockedAt s (s.cl t)
  · right
    refine ⟨hb, ?_⟩
    have hbufne : s.sendq ≠ [] ∨ chan s ≠ [] → s.buf ≠ [] := by
      intro h
      intro hbe
      have hq : s.sendq ≠ [] := by
        rcases h with h | h
        · exact h
        · intro hq; apply h; simp [chan, hbe, hq]
      have := hl.full hq
      rw [hbe] at this; simp at this; omega
    -- blocked on the channel: the buffer is not empty or the applier holds the marker
    have hchanCase : (s.cl t).busy = false → (s.buf ≠ [] ∨ s.app ≠ .idle) → Progress cfg s t := by
      intro hnb h
      by_cases hidle : s.app = .idle
      · rcases h with h | h
        · exact .recv hidle (idle_recv_enabled hidle h)
        · exact absurd hidle h
      · exact progress_nonidle hh hl hnc.closed hnb hidle
    cases hpc : s.cl t <;> rw [hpc] at hb <;> first | exact False.elim hb | skip
    case delBlocked h =>
      obtain ⟨e, he⟩ := hl.blocked t (by rw [hpc]; rfl)
      exact hchanCase (by rw [hpc]; rfl) (Or.inl (hbufne (Or.inl (List.ne_nil_of_mem he))))
    case waitBlocked id =>
      obtain ⟨e, he⟩ := hl.blocked t (by rw [hpc]; rfl)
      exact hchanCase (by rw [hpc]; rfl) (Or.inl (hbufne (Or.inl (List.ne_nil_of_mem he))))
    case waitRecv id =>
      rcases hl.waiting t id (by rw [hpc]; rfl) with h1 | h1 | h1
      · exact absurd h1 hb
      · exact hchanCase (by rw [hpc]; rfl) (Or.inl (hbufne (Or.inr (List.ne_nil_of_mem h1))))
      · exact hchanCase (by rw [hpc]; rfl) (Or.inr (by rw [h1]; simp))
    case clrStop c =>
      by_cases hidle : s.app = .idle
      · exact .stop hidle (idle_stop_enabled hidle hpc)
      · exact progress_nonidle hh hl hnc.closed (by rw [hpc]; rfl) hidle
    case clrDone c =>
      have ha := hh.wd t (by rw [hpc]; rfl)
      exact .done t (done_enabled ha (by rw [hpc]; rfl))
    case clsStop => have := hnc.closing t; rw [hpc] at this; cases this
    case clsDone => have := hnc.closing t; rw [hpc] at this; cases this
  · exact Or.inl (client_enabled (hl.pcwf t) hmid hb)

/-- **C08 (2).**  Deadlock freedom in every state reachable without `Close`. -/
theorem deadlock_free {cfg : Cfg} {s : State} (hr : ReachNC cfg s) (hcap : 1 ≤ cfg.bufCap) (t : Tid)
    (hmid : s.cl t ≠ .idle) :
    (∃ ch s', clientStep cfg s t ch = some s') ∨ (BlockedAt s (s.cl t) ∧ Progress cfg s t) :=
  deadlock_free_inv (handshake_reach hr.reach) (live_reach hr.reach) (ncinv_reach hr) hcap t hmid

end RV.Cache
