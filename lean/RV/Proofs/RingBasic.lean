import RV.Model.Ring
/-!
Basic lemmas about the exact ring-buffer / policy-Push model (`RV/Model/Ring.lean`): list
counting under `set` / `eraseIdx`, the drain decision of `ringStripe.Push` read off the generated
kernel `Gen.Ring.stripeFull`, case principles for `pushAt` and `Pol.push`, and the induction
principle over runs.
-/
namespace RV.Ring
open Gen.Ring

/-! ### lists -/

theorem count_flatten_set {α : Type} (f : α → List Key) (k : Key) :
    ∀ (l : List α) (i : Nat) (x y : α), l[i]? = some x →
      List.count k ((l.set i y).map f).flatten + List.count k (f x)
        = List.count k (l.map f).flatten + List.count k (f y)
  | [], i, x, y, h => by simp at h
  | a :: l, 0, x, y, h => by
    simp at h; subst h
    simp [List.count_append]; omega
  | a :: l, i+1, x, y, h => by
    have := count_flatten_set f k l i x y (by simpa using h)
    simp [List.count_append] at this ⊢; omega

theorem count_flatten_eraseIdx {α : Type} (f : α → List Key) (k : Key) :
    ∀ (l : List α) (i : Nat) (x : α), l[i]? = some x →
      List.count k ((l.eraseIdx i).map f).flatten + List.count k (f x)
        = List.count k (l.map f).flatten
  | [], i, x, h => by simp at h
  | a :: l, 0, x, h => by
    simp at h; subst h
    simp [List.count_append]; omega
  | a :: l, i+1, x, h => by
    have := count_flatten_eraseIdx f k l i x (by simpa using h)
    simp [List.count_append] at this ⊢; omega

theorem length_flatten_set {α : Type} (f : α → List Key) :
    ∀ (l : List α) (i : Nat) (x y : α), l[i]? = some x →
      ((l.set i y).map f).flatten.length + (f x).length = (l.map f).flatten.length + (f y).length
  | [], i, x, y, h => by simp at h
  | a :: l, 0, x, y, h => by
    simp at h; subst h
    simp [List.length_append]; omega
  | a :: l, i+1, x, y, h => by
    have := length_flatten_set f l i x y (by simpa using h)
    simp [List.length_append] at this ⊢; omega

theorem mem_of_getElem? {α : Type} {l : List α} {i : Nat} {x : α} (h : l[i]? = some x) : x ∈ l :=
  List.mem_of_getElem? h

/-! ### words -/

theorem toInt_ofNat_small (n : Nat) (h : n < 2 ^ 63) : (BitVec.ofNat 64 n).toInt = n := by
  rw [BitVec.toInt_eq_toNat_cond, BitVec.toNat_ofNat]
  have : n % 2 ^ 64 = n := Nat.mod_eq_of_lt (by omega)
  rw [this]; split <;> omega

theorem capaN_pos (c : BitVec 64) : 1 ≤ capaN c := by unfold capaN; omega

theorem capaN_lt (c : BitVec 64) : capaN c < 2 ^ 63 := by
  have := @BitVec.toInt_lt 64 c
  unfold capaN; omega

/-- for `BufferItems ≥ 1` (what `NewCache` enforces) the batch size is `BufferItems` -/
theorem capaN_eq (c : BitVec 64) (h : 1 ≤ c.toInt) : (capaN c : Int) = c.toInt := by
  unfold capaN; omega

/-! ### the generated decisions -/

/-- the drain decision `len(s.data) >= s.capa` after the append, for a stripe that was not yet
full: it drains exactly when the new key is its `capaN`-th -/
theorem full_iff (c : BitVec 64) (data : List Key) (k : Key) (h : data.length < capaN c) :
    stripeFull (data ++ [k]).toArray c = decide (data.length + 1 = capaN c) := by
  have h1 := capaN_lt c
  have h2 := @BitVec.toInt_lt 64 c
  unfold stripeFull
  rw [BitVec.sle_eq_decide]
  simp only [List.size_toArray, List.length_append, List.length_singleton]
  rw [toInt_ofNat_small _ (by omega)]
  unfold capaN at h ⊢
  simp only [decide_eq_decide]
  omega

/-- both reset branches leave the stripe empty -/
theorem resetData_nil (data : List Key) (c : BitVec 64) (ok : Bool) : resetData data c ok = [] := by
  unfold resetData keptResetLen dropResetLen keptResetFresh dropResetFresh
  cases ok <;> simp

/-- `len(keys) == 0` is false for a batch of `1 … 2^63` keys -/
theorem pushEmpty_false (keys : List Key) (h0 : 0 < keys.length) (h1 : keys.length < 2 ^ 64) :
    pushEmpty keys.toArray = false := by
  unfold pushEmpty
  simp only [List.size_toArray, beq_eq_false_iff_ne, ne_eq]
  intro h
  have := congrArg BitVec.toNat h
  simp only [BitVec.toNat_ofNat] at this
  rw [Nat.mod_eq_of_lt h1] at this
  omega

theorem keepDelta_eq (keys : List Key) : keepDelta keys.toArray = BitVec.ofNat 64 keys.length := by
  unfold keepDelta; simp

theorem dropDelta_eq (keys : List Key) : dropDelta keys.toArray = BitVec.ofNat 64 keys.length := by
  unfold dropDelta; simp

/-! ### projections of the metric adds -/

section proj
variable (p : Pol) (keys : List Key)
@[simp] theorem addKeep_chan : (p.addKeep keys).chan = p.chan := by unfold Pol.addKeep; split <;> rfl
@[simp] theorem addKeep_held : (p.addKeep keys).held = p.held := by unfold Pol.addKeep; split <;> rfl
@[simp] theorem addKeep_closed : (p.addKeep keys).closed = p.closed := by unfold Pol.addKeep; split <;> rfl
@[simp] theorem addKeep_running : (p.addKeep keys).running = p.running := by unfold Pol.addKeep; split <;> rfl
@[simp] theorem addKeep_admit : (p.addKeep keys).lfu = p.lfu := by unfold Pol.addKeep; split <;> rfl
@[simp] theorem addKeep_metricsOn : (p.addKeep keys).metricsOn = p.metricsOn := by unfold Pol.addKeep; split <;> rfl
@[simp] theorem addKeep_dropGets : (p.addKeep keys).dropGets = p.dropGets := by unfold Pol.addKeep; split <;> rfl
@[simp] theorem addDrop_chan : (p.addDrop keys).chan = p.chan := by unfold Pol.addDrop; split <;> rfl
@[simp] theorem addDrop_held : (p.addDrop keys).held = p.held := by unfold Pol.addDrop; split <;> rfl
@[simp] theorem addDrop_closed : (p.addDrop keys).closed = p.closed := by unfold Pol.addDrop; split <;> rfl
@[simp] theorem addDrop_running : (p.addDrop keys).running = p.running := by unfold Pol.addDrop; split <;> rfl
@[simp] theorem addDrop_admit : (p.addDrop keys).lfu = p.lfu := by unfold Pol.addDrop; split <;> rfl
@[simp] theorem addDrop_metricsOn : (p.addDrop keys).metricsOn = p.metricsOn := by unfold Pol.addDrop; split <;> rfl
@[simp] theorem addDrop_keepGets : (p.addDrop keys).keepGets = p.keepGets := by unfold Pol.addDrop; split <;> rfl
end proj

/-! ### case principles -/

/-- the four ways `defaultPolicy.Push` ends -/
theorem Pol.push_cases (p : Pol) (keys : List Key) :
    (p.closed = true ∧ p.push keys = (p, .closed)) ∨
    (p.closed = false ∧ pushEmpty keys.toArray = true ∧ p.push keys = (p, .empty)) ∨
    (p.closed = false ∧ pushEmpty keys.toArray = false ∧ p.chan.length < chanCap ∧
      p.push keys = (({ p with chan := p.chan ++ [keys] }).addKeep keys, .kept)) ∨
    (p.closed = false ∧ pushEmpty keys.toArray = false ∧ ¬ p.chan.length < chanCap ∧
      p.push keys = (p.addDrop keys, .dropped)) := by
  unfold Pol.push pushClosed
  cases hc : p.closed <;> simp
  cases he : pushEmpty keys.toArray <;> simp
  by_cases hl : p.chan.length < chanCap <;> simp [hl]
  omega

/-- the state after a push that did not fill the stripe -/
def afterQuiet (s : Sys) (i : Nat) (st : Stripe) (k : Key) : Sys :=
  { s with pool := s.pool.set i { st with data := st.data ++ [k], hist := st.hist ++ [k] },
           pushed := s.pushed ++ [k] }

/-- the state after a push that filled the stripe: the batch `st.data ++ [k]` went to
`defaultPolicy.Push`, which answered `r` -/
def afterDrain (s : Sys) (i : Nat) (st : Stripe) (k : Key) (r : Pol × Outcome) : Sys :=
  { s with
    pool := s.pool.set i { st with data := resetData (st.data ++ [k]) st.capa r.2.ret,
                                   hist := st.hist ++ [k], out := st.out ++ [st.data ++ [k]] }
    pol := r.1, pushed := s.pushed ++ [k]
    handed := s.handed ++ [(st.data ++ [k], r.2)]
    dropped := if r.2 = .dropped then s.dropped ++ (st.data ++ [k]) else s.dropped
    lostClosed := if r.2 = .closed then s.lostClosed ++ (st.data ++ [k]) else s.lostClosed }

theorem pushAt_cases {s s' : Sys} {i : Nat} {k : Key} (h : pushAt s i k = some s') :
    ∃ st, s.pool[i]? = some st ∧
      ((stripeFull (st.data ++ [k]).toArray st.capa = false ∧ s' = afterQuiet s i st k) ∨
       (stripeFull (st.data ++ [k]).toArray st.capa = true ∧
        s' = afterDrain s i st k (s.pol.push (st.data ++ [k])))) := by
  unfold pushAt at h
  cases hp : s.pool[i]? with
  | none => simp [hp] at h
  | some st =>
    refine ⟨st, rfl, ?_⟩
    simp only [hp] at h
    cases hf : stripeFull (st.data ++ [k]).toArray st.capa
    · left; simp only [hf] at h; simp at h; exact ⟨rfl, h.symm⟩
    · right; simp only [hf] at h; simp at h; exact ⟨rfl, h.symm⟩

/-- the state in which `pool.Get()` has just created a stripe -/
def withNew (s : Sys) : Sys := { s with pool := s.pool ++ [Stripe.new s.capa] }

theorem step_pushNew (s : Sys) (k : Key) : step s (.pushNew k) = pushAt (withNew s) s.pool.length k := rfl

/-! ### induction over runs -/

theorem inv_run {P : Sys → Prop} (hstep : ∀ s a s', P s → step s a = some s' → P s') :
    ∀ (acts : List Act) (s0 s : Sys), P s0 → run s0 acts = some s → P s
  | [], s0, s, h0, hr => by simp [run] at hr; subst hr; exact h0
  | a :: as, s0, s, h0, hr => by
    simp only [run] at hr
    cases hs : step s0 a with
    | none => simp [hs] at hr
    | some s1 =>
      simp only [hs] at hr
      exact inv_run hstep as s1 s (hstep s0 a s1 h0 hs) hr

theorem run_append (s : Sys) (as bs : List Act) :
    run s (as ++ bs) = (run s as).bind (fun s' => run s' bs) := by
  induction as generalizing s with
  | nil => simp [run]
  | cons a as ih =>
    simp only [List.cons_append, run]
    cases step s a with
    | none => simp
    | some s1 => simpa using ih s1

theorem Reach.init (capa : BitVec 64) (m : Bool) (t : RV.TinyLFU.TinyLFU) : Reach capa m t (init capa m t) :=
  ⟨[], rfl⟩

theorem Reach.step {capa : BitVec 64} {m : Bool} {t : RV.TinyLFU.TinyLFU} {s s' : Sys} {a : Act}
    (h : Reach capa m t s) (hs : step s a = some s') : Reach capa m t s' := by
  obtain ⟨acts, hr⟩ := h
  refine ⟨acts ++ [a], ?_⟩
  rw [run_append, hr]
  simp [run, hs]

end RV.Ring
