import RV.Proofs.CacheLiveClose
/-!
# C15 (6), (7): `Clear` releases the waiters and the values

* `drain_end_releases` — when the drain loop of the active `Clear` finds the buffer empty, every
  client that is inside `Wait` waits for a marker that is already closed (so its `<-wait`
  is enabled).  No non-overlap hypothesis.
* `markers_closed_when_empty` — every marker that is in the channel at some state is closed in
  every later state whose channel is empty and whose applier holds no marker (in particular
  at the end of the drain).  No non-overlap hypothesis.
* `clear_releases_values` — under the non-overlap hypothesis every buffered new item / tombstone
  at drain start and every store entry gets its `evict` + `exit` events during the `Clear`
  (buffered overwrites — `upd` — get none: their value is in the store; tombstones carry the
  zero value), mirroring cache.go `Clear`.
-/
namespace RV.Cache
open Gen.Cache

/-! ### (6) waiters -/

theorem drain_end_releases {cfg : Cfg} {s : State} {t : Tid} {c : Bool} (hr : Reach cfg s)
    (hcap : 1 ≤ cfg.bufCap) (hpc : s.cl t = .clrDrain c) (hnone : recvBuf s = none) :
    s.buf = [] ∧ s.sendq = [] ∧
      ∀ t' id, (s.cl t').waitsFor = some id → id ∈ s.closedMarkers ∧ s.cl t' = .waitRecv id := by
  have hh := handshake_reach hr
  have hl := live_reach (cfg := cfg) hr
  have hdead : s.app = .dead := hh.busy t (by rw [hpc]; rfl)
  have hbe : s.buf = [] := (recvBuf_none_iff s).mp hnone
  have hqe : s.sendq = [] := by
    cases hsq : s.sendq with
    | nil => rfl
    | cons p q =>
      have := hl.full (by rw [hsq]; simp)
      rw [hbe] at this; simp at this; omega
  refine ⟨hbe, hqe, fun t' id hw => ?_⟩
  constructor
  · rcases hl.waiting t' id hw with h1 | h1 | h1
    · exact h1
    · simp [chan, hbe, hqe] at h1
    · rw [hdead] at h1; cases h1
  · cases hpc' : s.cl t' <;> rw [hpc'] at hw <;> first | (cases hw; done) | skip
    · obtain ⟨e, he⟩ := hl.blocked t' (by rw [hpc']; rfl)
      rw [hqe] at he; cases he
    · cases hw; rfl

theorem mcount_mono_run {cfg : Cfg} {s0 s1 : State} {acts : List Action} (hr : Reach cfg s0)
    (hrun : run cfg s0 acts = some s1) (id : Nat) : mcount s0 id ≤ mcount s1 id := by
  have : Reach cfg s1 ∧ mcount s0 id ≤ mcount s1 id := by
    refine run_induction (P := fun s => Reach cfg s ∧ mcount s0 id ≤ mcount s id) ⟨hr, Nat.le_refl _⟩
      (fun s a s' _ hp hs => ⟨hp.1.of_step hs, ?_⟩) hrun
    exact Nat.le_trans hp.2 (mcount_mono (handshake_reach hp.1) hs id)
  exact this.2

/-- **C15 (6).**  A marker that is in `buf ++ sendq` at `s0` is closed in every later state in
which the channel is empty and the applier holds no marker — e.g. when the drain ends. -/
theorem markers_closed_when_empty {cfg : Cfg} {s0 s1 : State} {acts : List Action} (hr : Reach cfg s0)
    (hrun : run cfg s0 acts = some s1) {id : Nat} (hm : .marker id ∈ chan s0)
    (hempty : chan s1 = []) (happ : s1.app.marker? = none) : id ∈ s1.closedMarkers := by
  have h0 : 1 ≤ mcount s0 id := by
    have : 1 ≤ (markers (chan s0)).count id := List.count_pos_iff.mpr (mem_markers.mpr hm)
    unfold mcount; omega
  have h1 := mcount_mono_run hr hrun id
  have e1 : mcount s1 id = s1.closedMarkers.count id := by
    simp [mcount, hempty, markers, appCount, happ]
  have : 1 ≤ s1.closedMarkers.count id := by omega
  exact List.count_pos_iff.mp this

/-! ### (7) values -/

theorem evictAll_log_lv (s : State) (st : Store) (ks : List Hash) :
    ∃ l, (evictAll s st ks).log = l ++ s.log ∧
      ∀ h ∈ ks, ∀ e, st.lookup h = some e → .evict h e.conflict e.value 0 ∈ l ∧ .exit e.value ∈ l := by
  induction ks generalizing s with
  | nil => exact ⟨[], rfl, by simp⟩
  | cons k rest ih =>
    unfold evictAll
    cases hk : st.lookup k with
    | none =>
      obtain ⟨l, hl, hall⟩ := ih s
      refine ⟨l, hl, fun h hm e he => ?_⟩
      rcases List.mem_cons.mp hm with rfl | hm'
      · rw [hk] at he; cases he
      · exact hall h hm' e he
    | some e0 =>
      obtain ⟨l, hl, hall⟩ := ih (cbEvict s k e0.conflict e0.value 0)
      refine ⟨l ++ [.exit e0.value, .evict k e0.conflict e0.value 0], by simp [hl], fun h hm e he => ?_⟩
      rcases List.mem_cons.mp hm with rfl | hm'
      · rw [hk] at he; cases he; simp
      · have := hall h hm' e he
        exact ⟨List.mem_append_left _ this.1, List.mem_append_left _ this.2⟩

/-- what one step does to channel, store and log while `t` clears un-overlapped -/
inductive ClrDesc (s s' : State) (t : Tid) (c : Bool) : Prop
  | logOnly : chan s' = chan s → s'.store = s.store → (∃ l, s'.log = l ++ s.log) → ClrDesc s s' t c
  | drainItem (i : Item) : chan s = .item i :: chan s' → s'.store = s.store →
      s'.log = (if clearEvictsItem i.flag.code then [.exit i.value, .evict i.key i.conflict i.value i.cost] else [])
        ++ s.log → ClrDesc s s' t c
  | drainMarker (id : Nat) : chan s = .marker id :: chan s' → s'.store = s.store → s'.log = s.log →
      ClrDesc s s' t c
  | shard (k : Nat) (ks : List Hash) : chan s' = chan s → isShardOrder s.store k ks = true →
      s'.store = eraseAll s.store ks → s'.log = (evictAll s s.store ks).log → ClrDesc s s' t c

theorem clr_step_desc {cfg : Cfg} {s s' : State} {a : Action} {t : Tid} {c : Bool} {m0 : Int}
    (hr : Reach cfg s) (hi : ClrInv cfg t c m0 s) (ha : a.isSpawn = false)
    (hs : step cfg s a = some s') : ClrDesc s s' t c := by
  have hh := handshake_reach hr
  have hbusy := clrFacts_busy hi.facts
  have hdead : s.app = .dead := hh.busy t hbusy
  cases a with
  | spawn t0 c0 => simp [Action.isSpawn] at ha
  | tick d =>
    simp only [step, Option.some.injEq] at hs; subst hs
    exact .logOnly rfl rfl ⟨[], rfl⟩
  | done t0 =>
    have hs' : doneStep s t0 = some s' := hs
    have := (done_shape hs').1
    rw [hdead] at this; cases this
  | applier ch =>
    have hs' : applierStep cfg s ch = some s' := hs
    unfold applierStep at hs'; rw [hdead] at hs'; simp at hs'
  | client t0 ch =>
    have hs' : clientStep cfg s t0 ch = some s' := hs
    by_cases ht : t0 = t
    · subst ht
      have hf := hi.facts
      have hcf := hi.cflag
      cases hpc : s.cl t0 <;> rw [hpc] at hf hcf <;> first | exact False.elim hf | skip
      all_goals (unfold clientStep at hs'; rw [hpc] at hs'; dsimp only at hs')
      case clrDrain c' =>
        obtain ⟨-, hs'⟩ := needNone_some hs'
        simp only [Option.some.injEq] at hs'; subst hs'
        rcases drain_shape s t0 c' with ⟨hnone, he⟩ | ⟨x, s1, hrecv, _, hbuf, hq, _, _, _, hst, _, _, _, _, hx⟩
        · rw [he]; exact .logOnly rfl rfl ⟨[], rfl⟩
        · have hchan : chan s = x :: chan (stClrDrain s t0 c') := by
            rw [chan_recv hrecv]; simp [chan, hbuf, hq]
          rcases hx with ⟨id, rfl, _, hlog⟩ | ⟨i, rfl, _, hlog⟩
          · exact .drainMarker id hchan hst hlog
          · refine .drainItem i hchan hst ?_
            rw [hlog]; split <;> rfl
      case clrPolicy c' =>
        obtain ⟨-, hs'⟩ := needNone_some hs'
        simp only [Option.some.injEq] at hs'; subst hs'
        exact .logOnly rfl rfl ⟨[], rfl⟩
      case clrShard c' k =>
        unfold stClrShard at hs'
        split at hs'
        · rename_i ks
          split at hs'
          · simp at hs'
          · split at hs'
            · simp at hs'
            · rename_i hord
              simp only [Option.some.injEq] at hs'; subst hs'
              have hord' : isShardOrder s.store k ks = true := by simpa using hord
              exact .shard k ks (by simp [chan, evictAll_buf_lv, evictAll_sendq_lv]) hord'
                (by simp [evictAll_store_lv]) rfl
        · simp at hs'
      case clrEm c' =>
        obtain ⟨-, hs'⟩ := needNone_some hs'
        simp only [Option.some.injEq] at hs'; subst hs'
        exact .logOnly rfl rfl ⟨[], rfl⟩
      case clrMetrics c' =>
        obtain ⟨-, hs'⟩ := needNone_some hs'
        simp only [Option.some.injEq] at hs'; subst hs'
        exact .logOnly (by simp [chan]) (stClrMetrics_store ..) ⟨[], by rw [stClrMetrics_log]; rfl⟩
      case clrRestart c' =>
        obtain ⟨-, hs'⟩ := needNone_some hs'
        simp only [Option.some.injEq] at hs'; subst hs'
        refine .logOnly (by simp [chan]) (stClrRestart_store ..) ?_
        unfold stClrRestart; dsimp only
        split
        · exact ⟨[], rfl⟩
        · exact ⟨[.clearRet t0], rfl⟩
    · obtain ⟨h1, _, _, _, h5, h6, _, _, _, _, _, hlog⟩ := quiet_step (hi.quiet t0 ht) hs'
      exact .logOnly (by simp [chan, h5, h6]) h1 hlog

/-- the release invariant relative to the state `s0` at drain start -/
structure Released (s0 s : State) : Prop where
  ex : ∃ l, s.log = l ++ s0.log ∧
    (∀ i, .item i ∈ chan s0 → clearEvictsItem i.flag.code = true →
      .item i ∈ chan s ∨ (.evict i.key i.conflict i.value i.cost ∈ l ∧ .exit i.value ∈ l)) ∧
    (∀ h e, s0.store.lookup h = some e →
      s.store.lookup h = some e ∨ (.evict h e.conflict e.value 0 ∈ l ∧ .exit e.value ∈ l))

theorem released_step {s0 s s' : State} {t : Tid} {c : Bool} (hrel : Released s0 s)
    (hd : ClrDesc s s' t c) : Released s0 s' := by
  obtain ⟨l, hl, hitems, hstore⟩ := hrel.ex
  cases hd with
  | logOnly hchan hst hlog =>
    obtain ⟨l2, hl2⟩ := hlog
    refine ⟨l2 ++ l, by rw [hl2, hl]; simp, fun i hi hf => ?_, fun h e he => ?_⟩
    · rcases hitems i hi hf with h1 | ⟨h1, h2⟩
      · exact Or.inl (by rw [hchan]; exact h1)
      · exact Or.inr ⟨List.mem_append_right _ h1, List.mem_append_right _ h2⟩
    · rcases hstore h e he with h1 | ⟨h1, h2⟩
      · exact Or.inl (by rw [hst]; exact h1)
      · exact Or.inr ⟨List.mem_append_right _ h1, List.mem_append_right _ h2⟩
  | drainItem i0 hchan hst hlog =>
    refine ⟨(if clearEvictsItem i0.flag.code then [.exit i0.value, .evict i0.key i0.conflict i0.value i0.cost] else [])
      ++ l, by rw [hlog, hl]; simp, fun i hi hf => ?_, fun h e he => ?_⟩
    · rcases hitems i hi hf with h1 | ⟨h1, h2⟩
      · rw [hchan] at h1
        rcases List.mem_cons.mp h1 with h2 | h2
        · cases h2
          right; simp [hf]
        · exact Or.inl h2
      · exact Or.inr ⟨List.mem_append_right _ h1, List.mem_append_right _ h2⟩
    · rcases hstore h e he with h1 | ⟨h1, h2⟩
      · exact Or.inl (by rw [hst]; exact h1)
      · exact Or.inr ⟨List.mem_append_right _ h1, List.mem_append_right _ h2⟩
  | drainMarker id hchan hst hlog =>
    refine ⟨l, by rw [hlog, hl], fun i hi hf => ?_, fun h e he => ?_⟩
    · rcases hitems i hi hf with h1 | h1
      · rw [hchan] at h1
        rcases List.mem_cons.mp h1 with h2 | h2
        · cases h2
        · exact Or.inl h2
      · exact Or.inr h1
    · rcases hstore h e he with h1 | h1
      · exact Or.inl (by rw [hst]; exact h1)
      · exact Or.inr h1
  | shard k ks hchan hord hst hlog =>
    obtain ⟨l2, hl2, hall⟩ := evictAll_log_lv s s.store ks
    refine ⟨l2 ++ l, by rw [hlog, hl2, hl]; simp, fun i hi hf => ?_, fun h e he => ?_⟩
    · rcases hitems i hi hf with h1 | ⟨h1, h2⟩
      · exact Or.inl (by rw [hchan]; exact h1)
      · exact Or.inr ⟨List.mem_append_right _ h1, List.mem_append_right _ h2⟩
    · rcases hstore h e he with h1 | ⟨h1, h2⟩
      · by_cases hm : h ∈ ks
        · have := hall h hm e h1
          exact Or.inr ⟨List.mem_append_left _ this.1, List.mem_append_left _ this.2⟩
        · exact Or.inl (by rw [hst, eraseAll_lookup_not_mem hm]; exact h1)
      · exact Or.inr ⟨List.mem_append_right _ h1, List.mem_append_right _ h2⟩

/-- **C15 (7).**  Un-overlapped `Clear` of client `t`, from drain start `s0` to the point before the
restart `s1`: every buffered new item and tombstone got `OnEvict` (with its own value — zero for
a tombstone) and `OnExit`, every store entry got `OnEvict` (cost 0, as `lockedMap.Clear` passes
no cost) and `OnExit`; these events are in the part `l` of the log written since `s0`. -/
theorem clear_releases_values {cfg : Cfg} {s0 s1 : State} {t : Tid} {c : Bool} {acts : List Action}
    (hr : Reach cfg s0) (hcap : 1 ≤ cfg.bufCap) (hpc0 : s0.cl t = .clrDrain c)
    (hq : ∀ t', t' ≠ t → (s0.cl t').quiet = true) (hns : ∀ a ∈ acts, a.isSpawn = false)
    (hrun : run cfg s0 acts = some s1) (hpc1 : s1.cl t = .clrRestart c) :
    ∃ l, s1.log = l ++ s0.log ∧
      (∀ i, .item i ∈ chan s0 → clearEvictsItem i.flag.code = true →
        .evict i.key i.conflict i.value i.cost ∈ l ∧ .exit i.value ∈ l) ∧
      (∀ h e, s0.store.lookup h = some e → .evict h e.conflict e.value 0 ∈ l ∧ .exit e.value ∈ l) := by
  have hinv0 : ClrInv cfg t c s0.pol.maxCost s0 :=
    ⟨hq, rfl, by rw [hpc0]; rfl, by rw [hpc0]; trivial⟩
  have hrel0 : Released s0 s0 :=
    ⟨[], rfl, fun i hi _ => Or.inl hi, fun h e he => Or.inl he⟩
  have key : Reach cfg s1 ∧ ((ClrInv cfg t c s0.pol.maxCost s1 ∧ Released s0 s1) ∨ (s1.cl t).left = true) := by
    refine run_induction
      (P := fun s => Reach cfg s ∧ ((ClrInv cfg t c s0.pol.maxCost s ∧ Released s0 s) ∨ (s.cl t).left = true))
      ⟨hr, Or.inl ⟨hinv0, hrel0⟩⟩ (fun s a s' hmem hp hs => ?_) hrun
    refine ⟨hp.1.of_step hs, ?_⟩
    rcases hp.2 with ⟨hi, hrel⟩ | hleft
    · rcases clr_step hp.1 hcap hi (hns a hmem) hs with h1 | ⟨hpc, h2⟩
      · exact Or.inl ⟨h1, released_step hrel (clr_step_desc hp.1 hi (hns a hmem) hs)⟩
      · right; subst h2; unfold stClrRestart; dsimp only; cases c <;> simp <;> rfl
    · exact Or.inr (left_stable hleft (hns a hmem) hs)
  obtain ⟨_, ⟨hi, hrel⟩ | hleft⟩ := key
  · have hf := hi.facts
    rw [hpc1] at hf
    have hf' : s1.buf = [] ∧ s1.sendq = [] ∧ s1.pol.costs = AMap.empty ∧ s1.pol.used = 0 ∧
        s1.store = AMap.empty ∧ (s1.em.buckets = AMap.empty ∧ ∃ now, s1.em.lastCleaned = cleanupOf now) ∧
        (cfg.metricsOn = true → s1.met = {}) := hf
    obtain ⟨l, hl, hitems, hstore⟩ := hrel.ex
    refine ⟨l, hl, fun i hi' hfl => ?_, fun h e he => ?_⟩
    · rcases hitems i hi' hfl with h1 | h1
      · simp [chan, hf'.1, hf'.2.1] at h1
      · exact h1
    · rcases hstore h e he with h1 | h1
      · rw [hf'.2.2.2.2.1] at h1; simp at h1
      · exact h1
  · rw [hpc1] at hleft; cases hleft

end RV.Cache
