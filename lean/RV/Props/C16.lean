import RV.Proofs.TreeFileFree
import RV.Gen.TreeLint
/-!
# C16 — A persistent z.Tree reopens to the same contents

Property theorems only.  `encode` / `reinit` are in `RV/Model/TreeFile.lean`; the loop
bound of `reinit`, the `pageID() == 0` test, the `nextPageId != 0` test and the layout kernels
are regenerated from z/btree.go on every run.  `TreeInv` / `PidInv` are the invariants of C10
(`RV/Props/C10.lean` proves that every operation preserves them).
-/
namespace RV.C16
open RV.Tree Gen.Tree

/-- **`c16_roundtrip`** — for every tree satisfying the invariants (hence after every history,
including recycled pages), whose root is page 1 and whose pages fit the file (`FileOk`: the code
grows the buffer before it uses a page; sizes fit a Go `int`): `reinit` of the file it leaves
behind succeeds and yields the same labelled tree, the same frontier, the same free list — head
**and order** — and the recounted statistics; the mapped size becomes the file size. -/
theorem c16_roundtrip (cfg : Cfg) (hc : CfgOk cfg) (t : Tree) (hinv : TreeInv cfg t) (hp : PidInv t)
    (hroot : t.root.pid = 1) (hf : FileOk cfg t) :
    reinit cfg (encode t) = some (reopened t) ∧
    (reopened t).root = t.root ∧ (reopened t).a.nextPage = t.a.nextPage ∧ (reopened t).a.free = t.a.free ∧
    (reopened t).a.leafKeys = countLeafKeys t.root ∧ (reopened t).a.pagesFree = t.a.free.length ∧
    (reopened t).a.dataLen = t.a.curSz - 8 ∧ (reopened t).a.curSz = t.a.curSz :=
  ⟨reinit_encode hc t hinv hp hroot hf, rfl, rfl, rfl, rfl, rfl, rfl, rfl⟩

/-- `NewTreePersistent` on that file takes the `reinit` branch (page 1 is initialised). -/
theorem c16_open_is_reinit (cfg : Cfg) (t : Tree) (hroot : t.root.pid = 1) (hnull : t.root ≠ .null) :
    openFile cfg (encode t) = reinit cfg (encode t) := by
  have hmem : 1 ∈ pids t.root := by rw [← hroot]; exact pid_mem_pids hnull
  obtain ⟨l, es, e⟩ := findNode_some t.root 1 hmem
  unfold openFile encode
  have h1 : (w 1 != 0#64) = true := by decide
  simp only [encodePage, e, Page.pageId, isInitialized, h1, if_true]

/-- With statistics that agree with the structure (`StatsOk`), the reopened tree is the tree
that was closed, up to the mapped size: same key-count and page statistics, same mapping. -/
theorem c16_roundtrip_same_stats (cfg : Cfg) (hc : CfgOk cfg) (t : Tree) (hinv : TreeInv cfg t)
    (hp : PidInv t) (hroot : t.root.pid = 1) (hf : FileOk cfg t) (hs : StatsOk t) (hfault : t.a.fault = none) :
    ∃ t', reinit cfg (encode t) = some t' ∧ t'.root = t.root ∧ t'.a = { t.a with dataLen := t.a.curSz - 8 } ∧
      (∀ k, abs t' k = abs t k) ∧
      stats cfg t' = { stats cfg t with allocated := t.a.curSz - 8 } := by
  refine ⟨_, (c16_roundtrip cfg hc t hinv hp hroot hf).1, rfl, ?_, fun _ => rfl, ?_⟩
  · obtain ⟨h1, h2⟩ := hs
    unfold reopened
    cases ha : t.a with
    | mk np fr lk pf dl cs fa =>
      rw [ha] at h1 h2 hfault
      simp only at h1 h2 hfault
      simp [h1, h2, hfault]
  · obtain ⟨h1, h2⟩ := hs
    simp [stats, reopened, h1, h2]

/-- **`c16_continues`** — the reopened tree satisfies the invariants of C10 again, so all of
C10's theorems apply to it: it keeps behaving as a correct map (`c10_get_set`, `c10_delete_below`,
`c10_iterate`, `c10_abs` from this state), the pages on the reconstructed free list are reused
by `newNode` (`PidInv` is preserved by every operation: a page is never live twice, never both
live and free, never lost). -/
theorem c16_continues (cfg : Cfg) (hc : CfgOk cfg) (t : Tree) (hinv : TreeInv cfg t) (hp : PidInv t)
    (hroot : t.root.pid = 1) (hf : FileOk cfg t) :
    ∃ t', reinit cfg (encode t) = some t' ∧ TreeInv cfg t' ∧ PidInv t' ∧ t'.root.pid = 1 ∧
      (∀ k v, setKeyPanic k = false →
        TreeInv cfg (set cfg t' k v) ∧ PidInv (set cfg t' k v) ∧
        ∀ k', getKeyPanic k' = false → get (set cfg t' k v) k' = if k' = k then some v else get t k') := by
  have hinv' : TreeInv cfg (reopened t) := ⟨hinv.root_inner, hinv.ok, rfl⟩
  have hp' : PidInv (reopened t) := ⟨hp.1, hp.2⟩
  refine ⟨_, (c16_roundtrip cfg hc t hinv hp hroot hf).1, hinv', hp', hroot, ?_⟩
  · intro k v hk
    obtain ⟨s1, s2, s3, _⟩ := set_spec hc _ k v hinv' hk
    refine ⟨s1, hp'.step s3, ?_⟩
    intro k' hk'
    rw [get_spec hc _ s1 k' hk', get_spec hc t hinv k' hk']
    unfold abs
    rw [s2, lookupD_ins]
    split <;> rfl

/-! ## every history of a persistent tree -/

/-- the page sizes covered: positive, at most 2^19 (the first pages must fit the initial 1 MiB file) -/
def PsOk (cfg : Cfg) : Prop := 0 < cfg.pageSize ∧ cfg.pageSize ≤ 2 ^ 19

/-- the invariants a persistent tree carries between operations: C10's ordering and page
invariants, statistics that agree with the structure, root on page 1, and the pages in use fit
the mapped data which fits the file behind its 8 bytes of padding (`AllocFits`) -/
structure Persist (cfg : Cfg) (t : Tree) : Prop where
  inv : TreeInv cfg t
  pid : PidInv t
  stats : StatsOk t
  root : t.root.pid = 1
  fits : AllocFits cfg t.a

/-- `Persist` implies the hypothesis `FileOk` of `c16_roundtrip` (sizes below 2^61). -/
theorem persist_fileOk (cfg : Cfg) (hps : PsOk cfg) (t : Tree) (h : Persist cfg t) (hb : Bounded cfg t.a) :
    FileOk cfg t :=
  ⟨hps.1, by have := hps.2; omega, by have := hb.1; omega, by have := h.fits.2; omega, h.fits.fileOk_fits⟩

/-- operations on a persistent tree (`Op.reopen` = clean `Close` + `NewTreePersistent`) -/
inductive Op where
  | set (k : Key) (v : Val)
  | del (ts : Val)
  | iter (f : Key → Val → Val)
  | reopen

def Op.legal : Op → Prop
  | .set k _ => setKeyPanic k = false
  | _ => True

def applyOp (cfg : Cfg) (t : Tree) : Op → Tree
  | .set k v => set cfg t k v
  | .del ts => deleteBelow t ts
  | .iter f => iterateKV t f
  | .reopen => (reinit cfg (encode t)).getD t

/-- **`c16_reopen_exact`** — for a tree satisfying `Persist` (hence at any point of any history,
with recycled pages on the free list) a clean close + reopen is an exact round trip: `reinit` of
the file succeeds with the same labelled tree (walk), frontier, free list (head and order),
statistics (all but the mapped size) and mapping.  No hypothesis about room in the file: that the
pages in use fit is part of the invariant (`newNode` grows the buffer first).  Side condition: the
sizes stay below 2^61 (they fit a Go `int`). -/
theorem c16_reopen_exact (cfg : Cfg) (hc : CfgOk cfg) (hps : PsOk cfg) (t : Tree) (h : Persist cfg t)
    (hb : Bounded cfg t.a) :
    reinit cfg (encode t) = some (reopened t) ∧ applyOp cfg t .reopen = reopened t ∧
    Persist cfg (reopened t) ∧ (∀ k, abs (reopened t) k = abs t k) ∧
    stats cfg (reopened t) = { stats cfg t with allocated := t.a.curSz - 8 } ∧
    walk (reopened t) = walk t ∧ (reopened t).a.free = t.a.free ∧ (reopened t).a.nextPage = t.a.nextPage := by
  have hf := persist_fileOk cfg hps t h hb
  have hr := reinit_encode hc t h.inv h.pid h.root hf
  obtain ⟨s1, s2⟩ := h.stats
  refine ⟨hr, by simp [applyOp, hr], ⟨⟨h.inv.root_inner, h.inv.ok, rfl⟩, ⟨h.pid.1, h.pid.2⟩, ⟨rfl, rfl⟩, h.root, ?_⟩,
    fun _ => rfl, ?_, rfl, rfl, rfl⟩
  · have h1 := hf.fits
    have h2 := hf.sz_ge
    exact ⟨h1, by show t.a.curSz - 8 + 8 ≤ t.a.curSz; omega⟩
  · simp [stats, reopened, s1, s2]

/-- **`c16_persist_step`** — every operation, including reopening, preserves `Persist`.  Side
conditions: the key of a `Set` is legal; the sizes before and after stay below 2^61. -/
theorem c16_persist_step (cfg : Cfg) (hc : CfgOk cfg) (hps : PsOk cfg) (t : Tree) (h : Persist cfg t) (op : Op)
    (hl : op.legal) (hb : Bounded cfg t.a) (hb' : Bounded cfg (applyOp cfg t op).a) :
    Persist cfg (applyOp cfg t op) := by
  have hn : t.a.nextPage ≤ 2 ^ 64 := by
    have h1 : t.a.nextPage * 1 ≤ t.a.nextPage * cfg.pageSize := Nat.mul_le_mul_left _ hps.1
    have := hb.2; omega
  cases op with
  | set k v =>
    have hs := set_stats hc t k v h.inv hl h.stats
    exact ⟨(set_spec hc t k v h.inv hl).1, set_pidInv hc t k v h.inv hl h.pid, hs.1, hs.2.trans h.root,
      set_fits hc t k v h.inv hl h.fits hb'⟩
  | del ts =>
    have hp := h.pid.posPid hn
    have hs := deleteBelow_stats hc t ts h.inv hp h.stats
    exact ⟨(deleteBelow_spec hc t h.inv hp ts).1, deleteBelow_pidInv hc t ts h.inv h.pid hn, hs.1,
      hs.2.trans h.root, deleteBelow_fits hc t ts h.inv hp h.fits⟩
  | iter f =>
    have hs := iterateKV_stats t f h.inv h.stats
    exact ⟨(iterateKV_spec t h.inv f).1, iterateKV_pidInv t f h.inv h.pid, hs.1, hs.2.trans h.root,
      iterateKV_fits t f h.inv h.fits⟩
  | reopen =>
    obtain ⟨_, he, hp, _⟩ := c16_reopen_exact cfg hc hps t h hb
    rw [he]; exact hp

theorem c16_persist_new (cfg : Cfg) (hc : CfgOk cfg) (hps : PsOk cfg) (hb : Bounded cfg (newTreeFile cfg).a) :
    Persist cfg (newTreeFile cfg) :=
  ⟨(initRoot_spec hc _ rfl).1, newTreeFile_pidInv hc, (newTreeFile_stats hc).1, (newTreeFile_stats hc).2,
   newTreeFile_fits hc hps.2 hb⟩

def runOps (cfg : Cfg) (t : Tree) (ops : List Op) : Tree := ops.foldl (applyOp cfg) t

/-- **`c16_history`** — every history of legal `Set` / `DeleteBelow` / `IterateKV` / reopen on a new
persistent tree (sizes of all intermediate states below 2^61) ends in a state satisfying
`Persist`; hence at every point of every history a clean close + reopen is the exact round trip
of `c16_reopen_exact`, without any further hypothesis. -/
theorem c16_history (cfg : Cfg) (hc : CfgOk cfg) (hps : PsOk cfg) (ops : List Op) (hl : ∀ op ∈ ops, op.legal)
    (hb : ∀ pre, pre <+: ops → Bounded cfg (runOps cfg (newTreeFile cfg) pre).a) :
    Persist cfg (runOps cfg (newTreeFile cfg) ops) := by
  have key : ∀ (ops : List Op) (t : Tree), Persist cfg t → (∀ op ∈ ops, op.legal) →
      (∀ pre, pre <+: ops → Bounded cfg (runOps cfg t pre).a) → Persist cfg (runOps cfg t ops) := by
    intro ops
    induction ops with
    | nil => intro t h _ _; exact h
    | cons op rest ih =>
      intro t h hl hb
      have hb0 := hb [] List.nil_prefix
      have hb1 := hb [op] (by simp)
      exact ih (applyOp cfg t op) (c16_persist_step cfg hc hps t h op (hl op (by simp)) hb0 hb1)
        (fun o ho => hl o (by simp [ho])) (fun pre hpre => hb (op :: pre) (List.cons_prefix_cons.mpr ⟨rfl, hpre⟩))
  exact key ops _ (c16_persist_new cfg hc hps (hb [] List.nil_prefix)) hl hb

/-- Where the room in the file (`FileOk.fits`) comes from: `newNode`, the only place that moves
the frontier, grows the buffer first (generated comparisons of `newNode` and `Buffer.Grow`), so
"the pages in use fit the data and the data fits the buffer behind its 8 bytes of padding" is
kept.  Threaded through every operation as `Geo` (`RV/Proofs/TreeGeo.lean`), it makes `AllocFits`
part of `Persist`, which discharges `FileOk` (`persist_fileOk`). -/
theorem c16_newNode_keeps_room (cfg : Cfg) (a : Alloc) (h : AllocFits cfg a) (hb1 : a.curSz < 2 ^ 61)
    (hb2 : (a.nextPage + 1) * cfg.pageSize < 2 ^ 61) :
    AllocFits cfg (newNode cfg a).2 ∧ (newNode cfg a).2.nextPage * cfg.pageSize ≤ (newNode cfg a).2.curSz - 8 :=
  ⟨newNode_fits cfg a h hb1 hb2, (newNode_fits cfg a h hb1 hb2).fileOk_fits⟩

/-! ## Static obligation on z/btree.go: no read through a stale node slice either

For an in-memory tree a read through a stale `node` sees the old (still readable) buffer; for a
persistent tree the old mapping is gone after `mremap` and the read faults (finding F11: `right`
kept across `newNode`, `root.bits()` read after `split`, both in `Tree.Set`).  The lint
(`go2lean/treelint.go`, see `c10_no_stale_node_writes`) must not find any. -/
theorem c16_no_stale_node_reads : Gen.TreeLint.staleNodeReads = [] ∧ Gen.TreeLint.staleNodeWrites = [] :=
  ⟨rfl, rfl⟩

/-! ## non-vacuity: a concrete tree with recycled pages, evaluated by the kernel -/

def cfg80 : Cfg := Cfg.ofPageSize 80

/-- A persistent tree in a (for the sake of kernel evaluation: tiny, 1 KiB) file. -/
def tinyFile : Tree :=
  initRoot cfg80 { nextPage := 1, free := [], leafKeys := 0, pagesFree := 0, dataLen := 1016, curSz := 1024 }

/-- a tree with two levels of inner nodes and released pages on the free list -/
def sample : Tree :=
  deleteBelow ((List.range 12).foldl (fun t k => set cfg80 t (w (k + 1)) (w (10 * (k + 1)))) tinyFile) 95#64

/-- Non-vacuity of the side conditions of the history theorems: the default and the smallest
page size are covered, and the concrete sample is within the size bound. -/
example : PsOk (Cfg.ofPageSize 4096) ∧ PsOk cfg80 ∧ CfgOk (Cfg.ofPageSize 4096) ∧ CfgOk cfg80 ∧
    Bounded cfg80 sample.a ∧ AllocFits cfg80 sample.a := by
  refine ⟨⟨by decide, by decide⟩, ⟨by decide, by decide⟩, ⟨by decide, by decide⟩, ⟨by decide, by decide⟩, ?_, ?_⟩
  · exact ⟨by decide +kernel, by decide +kernel⟩
  · exact ⟨by decide +kernel, by decide +kernel⟩

/-- Concrete round trip (kernel-evaluated): reopening the sample tree gives back the same
labelled tree, frontier, free list (head and order) and statistics; the hypotheses of
`c16_roundtrip` that are decidable hold for it. -/
theorem c16_roundtrip_sample :
    (reinit cfg80 (encode sample)).map (fun t => (walk t, t.a.nextPage, t.a.free, t.a.leafKeys, t.a.pagesFree))
      = some (walk sample, sample.a.nextPage, sample.a.free, sample.a.leafKeys, sample.a.pagesFree)
    ∧ sample.a.free = [4, 2] ∧ sample.root.pid = 1
    ∧ sample.a.leafKeys = countLeafKeys sample.root ∧ sample.a.pagesFree = sample.a.free.length
    ∧ sample.a.nextPage * cfg80.pageSize ≤ sample.a.curSz - 8 := by
  decide +kernel

end RV.C16
