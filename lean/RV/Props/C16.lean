import RV.Proofs.TreeNode
import RV.Model.TreeFile
/-!
# C16 — A persistent z.Tree reopens to the same contents

Property theorems only.  `encode` / `reinit` are in `RV/Model/TreeFile.lean`; the loop
bound of `reinit`, the `pageID() == 0` test and the free-list-head computation call kernels
regenerated from z/btree.go on every run.
-/
namespace RV.C16
open RV.Tree Gen.Tree

def cfg80 : Cfg := Cfg.ofPageSize 80

/-- A persistent tree in a (for the sake of kernel evaluation: tiny, 1 KiB) file. -/
def tinyFile : Tree :=
  initRoot cfg80 { nextPage := 1, free := [], leafKeys := 0, pagesFree := 0, dataLen := 1016, curSz := 1024 }

/-- a tree with two levels of inner nodes and released pages on the free list -/
def sample : Tree :=
  deleteBelow ((List.range 12).foldl (fun t k => set cfg80 t (w (k + 1)) (w (10 * (k + 1)))) tinyFile) 95#64

/-- Concrete round trip (kernel-evaluated): reopening the sample tree gives back the same
labelled tree, frontier, free list (head and order) and statistics. -/
theorem c16_roundtrip_sample :
    (reinit cfg80 (encode sample)).map (fun t => (walk t, t.a.nextPage, t.a.free, t.a.leafKeys, t.a.pagesFree))
      = some (walk sample, sample.a.nextPage, sample.a.free, sample.a.leafKeys, sample.a.pagesFree)
    ∧ sample.a.free = [4, 2] := by
  decide +kernel

end RV.C16
