import RV.Proofs.CacheAcctInv
import RV.Proofs.CacheAcctCount
import RV.Proofs.CacheAcctRun
import RV.Proofs.CacheAcctAgree
/-!
# C17 — Metrics obey conservation laws

Theorems over the small-step Cache model (`RV/Model/Cache.lean`): for **every** reachable state
(any number of clients, any interleaving, any outcome of `policy.Add`, any ring-buffer flush
pattern), with metrics enabled.  Counters are 64-bit words (`BitVec 64`); equalities hold
modulo 2^64, wrap-around included.  The 256-way striping of the real counters is abstracted
to their sum (what the accessors return).

* `c17_cost`  — outside *Clear's window* (no client between `policy.Clear` and
  `Metrics.Clear`): `CostAdded − CostEvicted = used`, in every such state (not only drained
  ones); `c17_cost_remaining`: `= MaxCost − RemainingCost()`.
* `c17_keys`  — outside the window: `KeysAdded (+1 while the applier sits between policy.Add
  and the keyAdd metric) − KeysEvicted = number of accounted keys`; `c17_keys_drained`;
  `c17_keys_resident`: in drained states of collision-free runs this is the number of stored keys.
* `c17_hits_misses` — in Clear-free histories `Hits + Misses` = number of returned `Get`s.
* `c17_drops` — in Clear-free histories `SetsDropped` = number of new-item drops, and every
  drop is immediately followed by its `Set` returning `false` (`c17_drop_returns_false`).
* `c17_gets_kept` — `GetsKept + GetsDropped (+ keys still in the ring) ≤` number of `Get` calls,
  as natural numbers, in every reachable state (no hypothesis needed: the counter value read
  as a natural number never exceeds the true count).
-/
namespace RV.C17
open RV RV.Cache

/-- what `RemainingCost()` returns in state `s` -/
abbrev remaining (s : State) : Int := s.pol.maxCost - s.pol.used

/-- the number of keys the capacity accounting holds -/
abbrev accountedKeys (s : State) : Nat := s.pol.costs.size

/-! ### concrete runs for the non-vacuity examples -/
def cfg0 : Cfg :=
  { bufCap := 1, ignoreInternal := true, costFn := none, shouldUpdate := none, metricsOn := true, maxCost := 10 }
def setRun (t : Tid) (h : Hash) (v : Val) (cost : Int) : List Action :=
  [.spawn t (.set h 0 v cost 0), .client t .none, .client t .none, .client t .none, .client t .none,
   .applier .selItem, .applier .none, .applier (.add [] true), .applier .none]
def evictRun (t : Tid) (h : Hash) (v : Val) (cost : Int) (victim : Hash × Int) : List Action :=
  [.spawn t (.set h 0 v cost 0), .client t .none, .client t .none, .client t .none, .client t .none,
   .applier .selItem, .applier .none, .applier (.add [victim] true), .applier .none, .applier .none, .applier .none]
/-- `Get(h)` by thread `t`, the ring stripe not flushed -/
def getRun (t : Tid) (h : Hash) : List Action :=
  [.spawn t (.get h 0), .client t .none, .client t .none, .client t .none, .client t .none]
/-- `Get(h)` by thread `t` whose push flushes `n` keys to the policy (kept) -/
def getFlushRun (t : Tid) (h : Hash) (n : Nat) : List Action :=
  [.spawn t (.get h 0), .client t (.flush true n), .client t .none, .client t .none, .client t .none]
/-- two `Set`s of new keys racing for a buffer of capacity 1: the second is dropped -/
def dropRun : List Action :=
  [.spawn 0 (.set 1 0 7 3 0), .client 0 .none, .client 0 .none, .client 0 .none,
   .spawn 1 (.set 2 0 8 3 0), .client 1 .none, .client 1 .none, .client 1 .none, .client 1 .none]
def fillActs : List Action := setRun 0 1 7 3 ++ setRun 0 2 8 7 ++ evictRun 0 3 9 3 (1, 3)

/-- `c17_cost`: outside Clear's window, `CostAdded − CostEvicted` equals the accounted cost. -/
theorem c17_cost {cfg : Cfg} {s : State} (h : Reach cfg s) (hon : cfg.metricsOn = true)
    (hout : ∀ t, (s.cl t).inWin = false) : s.met.costAdd - s.met.costEvict = w64 s.pol.used := by
  have hnw : ¬ InWin s := fun ⟨t, ht⟩ => by rw [hout t] at ht; cases ht
  exact ((acct_reach h).pm hnw).cost hon

/-- … hence `= MaxCost − RemainingCost()`. -/
theorem c17_cost_remaining {cfg : Cfg} {s : State} (h : Reach cfg s) (hon : cfg.metricsOn = true)
    (hout : ∀ t, (s.cl t).inWin = false) :
    s.met.costAdd - s.met.costEvict = w64 (s.pol.maxCost - remaining s) := by
  rw [c17_cost h hon hout]; congr 1; unfold remaining; omega

example : ∃ s, Reach cfg0 s ∧ cfg0.metricsOn = true ∧ (∀ t, (s.cl t).inWin = false) ∧
    s.met.costAdd = 13#64 ∧ s.met.costEvict = 3#64 ∧ s.pol.used = 10 := by
  refine ⟨exState cfg0 fillActs, exState_reach (by decide), rfl, fun t => ?_, by decide, by decide, by decide⟩
  by_cases ht : t ∈ [0]
  · simp only [List.mem_singleton] at ht; subst ht; decide
  · rw [exState_idle [0] (by decide) (by decide) ht]; rfl

/-- Inside the window the equation can fail (the policy is already cleared, the metrics not yet):
the side condition of `c17_cost` is necessary. -/
theorem c17_cost_window : ∃ cfg s, Reach cfg s ∧ cfg.metricsOn = true ∧
    s.met.costAdd - s.met.costEvict ≠ w64 s.pol.used :=
  ⟨cfg0, exState cfg0 (setRun 0 1 7 3 ++
      [.spawn 1 .clear, .client 1 .none, .applier (.selStop 1), .done 1, .client 1 .none, .client 1 .none]),
    exState_reach (by decide), rfl, by decide⟩

/-- `c17_keys`: outside Clear's window, `KeysAdded − KeysEvicted` is the number of accounted keys,
counting the key whose `keyAdd` increment is pending while the applier is between `policy.Add`
and `store.Set`. -/
theorem c17_keys {cfg : Cfg} {s : State} (h : Reach cfg s) (hon : cfg.metricsOn = true)
    (hout : ∀ t, (s.cl t).inWin = false) :
    s.met.keyAdd + s.app.pend - s.met.keyEvict = BitVec.ofNat 64 (accountedKeys s) := by
  have hnw : ¬ InWin s := fun ⟨t, ht⟩ => by rw [hout t] at ht; cases ht
  exact ((acct_reach h).pm hnw).keys hon

/-- In states in which the applier is idle (in particular drained states):
`KeysAdded − KeysEvicted = number of accounted keys`. -/
theorem c17_keys_drained {cfg : Cfg} {s : State} (h : Reach cfg s) (hon : cfg.metricsOn = true)
    (hout : ∀ t, (s.cl t).inWin = false) (happ : s.app = .idle) :
    s.met.keyAdd - s.met.keyEvict = BitVec.ofNat 64 (accountedKeys s) := by
  have := c17_keys h hon hout
  rw [happ] at this
  simpa [APc.pend] using this

example : ∃ s, Reach cfg0 s ∧ cfg0.metricsOn = true ∧ (∀ t, (s.cl t).inWin = false) ∧ s.app = .idle ∧
    s.met.keyAdd = 3#64 ∧ s.met.keyEvict = 1#64 ∧ accountedKeys s = 2 := by
  refine ⟨exState cfg0 fillActs, exState_reach (by decide), rfl, fun t => ?_, rfl, by decide, by decide, by decide⟩
  by_cases ht : t ∈ [0]
  · simp only [List.mem_singleton] at ht; subst ht; decide
  · rw [exState_idle [0] (by decide) (by decide) ht]; rfl

/-- In a drained state of a collision-free run (`CollisionFree`, C13) the accounted keys are exactly the
stored keys, hence `KeysAdded − KeysEvicted` is the number of resident keys. -/
theorem c17_keys_resident {cfg : Cfg} {now : Time} {acts : List Action} {s : State}
    (hr : run cfg (init cfg now) acts = some s) (hcf : CollisionFree s.log) (hd : Drained s)
    (hon : cfg.metricsOn = true) : s.met.keyAdd - s.met.keyEvict = BitVec.ofNat 64 s.store.size := by
  have hreach := reach_of_run hr
  have hout : ∀ t, (s.cl t).inWin = false := fun t => by rw [hd.cl t]; rfl
  rw [c17_keys_drained hreach hon hout hd.app]
  show BitVec.ofNat 64 s.pol.costs.size = _
  rw [(agree_reachC (reachC_of_collisionFree hr hcf) hd).2]

/-- `c17_hits_misses`: while neither `Clear` nor `Close` has been called, `Hits + Misses` is the
number of `Get` calls that have returned (modulo 2^64). -/
theorem c17_hits_misses {cfg : Cfg} {s : State} (h : Reach cfg s) (hon : cfg.metricsOn = true)
    (hcf : ClearFree s.log) : s.met.hit + s.met.miss = BitVec.ofNat 64 (s.log.countP Ev.isGetRet) :=
  (cnt_reach h).hm hon hcf

/-- … and in such histories the cache is open and nobody is inside `Clear`/`Close`. -/
theorem c17_clearfree_open {cfg : Cfg} {s : State} (h : Reach cfg s) (hcf : ClearFree s.log) :
    s.closed = false ∧ ∀ t, (s.cl t).isClr = false := (cnt_reach h).noclr hcf

example : ∃ s, Reach cfg0 s ∧ ClearFree s.log ∧ s.met.hit = 1#64 ∧ s.met.miss = 1#64 ∧
    s.log.countP Ev.isGetRet = 2 := by
  refine ⟨exState cfg0 (setRun 0 1 7 3 ++ getRun 1 1 ++ getRun 2 5), exState_reach (by decide), ?_, by decide, by decide, by decide⟩
  intro e he
  revert e
  decide

/-- `c17_drops`: while neither `Clear` nor `Close` has been called, `SetsDropped` is the number of
new-key `Set`s refused because the write buffer was full (modulo 2^64). -/
theorem c17_drops {cfg : Cfg} {s : State} (h : Reach cfg s) (hon : cfg.metricsOn = true)
    (hcf : ClearFree s.log) : s.met.dropSets = BitVec.ofNat 64 (s.log.countP Ev.isDrop) :=
  (cnt_reach h).drops hon hcf

/-- every `drop t v` event is immediately followed (next newer event) by `Set` returning `false` -/
theorem c17_drop_returns_false {cfg : Cfg} {s : State} (h : Reach cfg s) {i : Nat} {t : Tid} {v : Val}
    (hi : s.log[i]? = some (.drop t v)) : ∃ j, i = j + 1 ∧ s.log[j]? = some (.setRet t v false) :=
  (cnt_reach h).dok i t v hi

example : ∃ s, Reach cfg0 s ∧ ClearFree s.log ∧ s.met.dropSets = 1#64 ∧ s.log.countP Ev.isDrop = 1 ∧
    s.log[1]? = some (.drop 1 8) := by
  refine ⟨exState cfg0 dropRun, exState_reach (by decide), ?_, by decide, by decide, by decide⟩
  intro e he
  revert e
  decide

/-- `c17_gets_kept`: `GetsKept + GetsDropped` (read as a natural number), plus the keys still
waiting in the ring buffer, never exceeds the number of `Get` calls. -/
theorem c17_gets_kept {cfg : Cfg} {s : State} (h : Reach cfg s) :
    (s.met.keepGets + s.met.dropGets).toNat + s.ringPending ≤ s.log.countP Ev.isGetCall := by
  obtain ⟨P, _, _, h3⟩ := (cnt_reach h).gk
  omega

/-- The version with the explicit no-overflow hypothesis asked for in the design: if fewer than
2^64 `Get`s were issued, the counters are the true numbers of flushed keys. -/
theorem c17_gets_kept_exact {cfg : Cfg} {s : State} (h : Reach cfg s)
    (_hno : s.log.countP Ev.isGetCall < 2 ^ 64) :
    (s.met.keepGets + s.met.dropGets).toNat ≤ s.log.countP Ev.isGetCall := by
  have := c17_gets_kept h; omega

example : ∃ s, Reach cfg0 s ∧ s.met.keepGets = 2#64 ∧ s.ringPending = 1 ∧ s.log.countP Ev.isGetCall = 3 :=
  ⟨exState cfg0 (getRun 0 1 ++ getFlushRun 1 2 2 ++ getRun 0 3), exState_reach (by decide), by decide, by decide,
    by decide⟩


/-- `Metrics.add` indexes its 256 striped counters with the generated expression `(hash % 25) * 10`:
the index is always in range (so the striped sum the model uses is well defined and `add` cannot
panic), for every key hash. -/
theorem c17_stripe_index_in_range (hash : BitVec 64) : (Gen.Cache.metricStripe hash).toNat < 256 := by
  unfold Gen.Cache.metricStripe
  have h : (hash % 25#64).toNat < 25 := by
    rw [BitVec.toNat_umod]; exact Nat.mod_lt _ (by decide)
  rw [BitVec.toNat_mul]
  have h1 : (hash % 25#64).toNat * (10#64).toNat < 250 := by
    show (hash % 25#64).toNat * 10 < 250
    omega
  have h2 : (hash % 25#64).toNat * (10#64).toNat % 2 ^ 64 = (hash % 25#64).toNat * (10#64).toNat :=
    Nat.mod_eq_of_lt (by omega)
  omega

end RV.C17
