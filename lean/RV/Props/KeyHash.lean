import RV.Gen.KeyToHash
import RV.Props.C01
import RV.Proofs.CacheAcctLog
/-!
# KeyHash — `z.KeyToHash` on the integer key kinds (C01: "for key types string, []byte and the integer kinds")

`Gen.KeyToHash` is regenerated from `z/z.go` on every run: for every integer kind of the `z.Key`
constraint (`uint64`, `byte`, `uint`, `int`, `int32`, `uint32`, `int64`) the two results of its case
of the type switch (`prim<Kind>`, `conf<Kind>`, over the key `k : BitVec w` of that very type), and
the two results of its case of the reflect fallback used for named types (`reflPrim<Kind>`,
`reflConf<Kind>`, over what `v.Int()` / `v.Uint()` return).  Sign extension is explicit in the
generated text (`BitVec.signExtend 64 k` for `uint64(k)` with `k : int32`) and in the model of the
reflect accessors below (`reflInt`).

Proved, for every integer kind, both paths:
* the conflict hash is `0` (`conflict_zero`);
* the primary hash is injective on the kind (`prim_injective_*`, `refl_prim_injective_*`): two
  distinct keys of one integer type never share the primary hash.  The proofs only use that the low
  `w` bits of the hash are the key's bits, so they hold for sign- and for zero-extension alike (both
  are injective); truncation (`uint64(uint16(k))`) breaks them.

Hence (`int_keys_collision_free`, `int_keys_distinct_hash`) a cache keyed by one integer type is
`CollisionFree` by construction, and (`c01_int_get_same_key`, composing `c01_get_provenance`) a `Get`
with conflict hash 0 — C01's "cg = 0" case — returns only values that a `Set` of that very key
supplied: keys cannot be mixed.

NOT proved here: anything about `string` / `[]byte` keys.  `MemHash`/`MemHashString` (the runtime's
`memhash`) and `xxhash.Sum64` are arbitrary functions in the model; C01 is proved for every pair of
hash functions (keys are arbitrary (primary, conflict) pairs), and what it gives for colliding
primary hashes is the conflict-hash guarantee (`c01_no_cross_key`), not injectivity.  Also assumed:
`int`/`uint` are 64 bits wide (amd64/arm64), and package reflect's documented behaviour (`reflInt`,
`reflUint`).
-/
namespace RV.KeyHash
open Gen.KeyToHash RV.Cache

set_option linter.unusedSimpArgs false

/-! ## the reflect accessors -/

/-- `reflect.Value.Int()` on a value whose kind is a signed integer of width `w`: the integer,
sign-extended to `int64` -/
def reflInt {w : Nat} (k : BitVec w) : BitVec 64 := BitVec.signExtend 64 k
/-- `reflect.Value.Uint()` on a value whose kind is an unsigned integer of width `w`: the integer,
zero-extended to `uint64` -/
def reflUint {w : Nat} (k : BitVec w) : BitVec 64 := BitVec.setWidth 64 k

/-! ## injectivity from the low bits -/

/-- a map into 64-bit words that keeps the `w` bits of its argument readable in place is injective -/
theorem inj_of_low {w : Nat} (f : BitVec w → BitVec 64)
    (hf : ∀ (x : BitVec w) (i : Nat), i < w → (f x).getLsbD i = x.getLsbD i) (a b : BitVec w) (h : f a = f b) :
    a = b := by
  apply BitVec.eq_of_getLsbD_eq
  intro i hi
  rw [← hf a i hi, ← hf b i hi, h]

/-- discharges `(f x).getLsbD i = x.getLsbD i` for `f` built from sign / zero extensions that do not
cut below the key's width (`i < w ≤ 64`) -/
macro "low_bits" d:ident : tactic => `(tactic|
  (simp only [$d:ident, reflInt, reflUint, BitVec.getLsbD_signExtend, BitVec.getLsbD_setWidth, decide_true, Bool.true_and, if_true, *]))

/-! ## the conflict hash is 0 -/

/-- **Conflict hash**: for every integer kind, direct case and reflect fallback, the second result
of `z.KeyToHash` is `0` (whatever the key). -/
theorem conflict_zero :
    (∀ k, confUint64 k = 0#64) ∧ (∀ k, confUint8 k = 0#64) ∧ (∀ k, confUint k = 0#64) ∧ (∀ k, confInt k = 0#64) ∧
    (∀ k, confInt32 k = 0#64) ∧ (∀ k, confUint32 k = 0#64) ∧ (∀ k, confInt64 k = 0#64) ∧
    (∀ a b, reflConfUint64 a b = 0#64) ∧ (∀ a b, reflConfUint8 a b = 0#64) ∧ (∀ a b, reflConfUint a b = 0#64) ∧
    (∀ a b, reflConfInt a b = 0#64) ∧ (∀ a b, reflConfInt32 a b = 0#64) ∧ (∀ a b, reflConfUint32 a b = 0#64) ∧
    (∀ a b, reflConfInt64 a b = 0#64) :=
  ⟨fun _ => rfl, fun _ => rfl, fun _ => rfl, fun _ => rfl, fun _ => rfl, fun _ => rfl, fun _ => rfl,
   fun _ _ => rfl, fun _ _ => rfl, fun _ _ => rfl, fun _ _ => rfl, fun _ _ => rfl, fun _ _ => rfl, fun _ _ => rfl⟩

/-! ## the primary hash is injective on each kind — direct cases of the type switch -/

theorem prim_injective_uint64 (a b : BitVec 64) (h : primUint64 a = primUint64 b) : a = b := by
  refine inj_of_low primUint64 (fun x i hi => ?_) a b h
  have h64 : i < 64 := by omega
  low_bits primUint64

theorem prim_injective_uint8 (a b : BitVec 8) (h : primUint8 a = primUint8 b) : a = b := by
  refine inj_of_low primUint8 (fun x i hi => ?_) a b h
  have h64 : i < 64 := by omega
  low_bits primUint8

theorem prim_injective_uint (a b : BitVec 64) (h : primUint a = primUint b) : a = b := by
  refine inj_of_low primUint (fun x i hi => ?_) a b h
  have h64 : i < 64 := by omega
  low_bits primUint

theorem prim_injective_int (a b : BitVec 64) (h : primInt a = primInt b) : a = b := by
  refine inj_of_low primInt (fun x i hi => ?_) a b h
  have h64 : i < 64 := by omega
  low_bits primInt

/-- `int32`: `uint64(k)` sign-extends (`Gen.KeyToHash.primInt32 k = BitVec.signExtend 64 k`); distinct
`int32` keys, negative ones included, get distinct hashes. -/
theorem prim_injective_int32 (a b : BitVec 32) (h : primInt32 a = primInt32 b) : a = b := by
  refine inj_of_low primInt32 (fun x i hi => ?_) a b h
  have h64 : i < 64 := by omega
  low_bits primInt32

theorem prim_injective_uint32 (a b : BitVec 32) (h : primUint32 a = primUint32 b) : a = b := by
  refine inj_of_low primUint32 (fun x i hi => ?_) a b h
  have h64 : i < 64 := by omega
  low_bits primUint32

theorem prim_injective_int64 (a b : BitVec 64) (h : primInt64 a = primInt64 b) : a = b := by
  refine inj_of_low primInt64 (fun x i hi => ?_) a b h
  have h64 : i < 64 := by omega
  low_bits primInt64

/-! ## … and the reflect fallback (named types such as `type ID int32`)

For a key of an unsigned kind `v.Uint()` is `reflUint k` and `v.Int()` would panic; for a signed
kind `v.Int()` is `reflInt k` and `v.Uint()` would panic.  The accessor that would panic is an
arbitrary word `u` (the same for both keys): a case that used it would not be injective. -/

theorem refl_prim_injective_uint64 (u : BitVec 64) (a b : BitVec 64)
    (h : reflPrimUint64 u (reflUint a) = reflPrimUint64 u (reflUint b)) : a = b := by
  refine inj_of_low (fun k => reflPrimUint64 u (reflUint k)) (fun x i hi => ?_) a b h
  have h64 : i < 64 := by omega
  low_bits reflPrimUint64

theorem refl_prim_injective_uint8 (u : BitVec 64) (a b : BitVec 8)
    (h : reflPrimUint8 u (reflUint a) = reflPrimUint8 u (reflUint b)) : a = b := by
  refine inj_of_low (fun k => reflPrimUint8 u (reflUint k)) (fun x i hi => ?_) a b h
  have h64 : i < 64 := by omega
  low_bits reflPrimUint8

theorem refl_prim_injective_uint (u : BitVec 64) (a b : BitVec 64)
    (h : reflPrimUint u (reflUint a) = reflPrimUint u (reflUint b)) : a = b := by
  refine inj_of_low (fun k => reflPrimUint u (reflUint k)) (fun x i hi => ?_) a b h
  have h64 : i < 64 := by omega
  low_bits reflPrimUint

theorem refl_prim_injective_int (u : BitVec 64) (a b : BitVec 64)
    (h : reflPrimInt (reflInt a) u = reflPrimInt (reflInt b) u) : a = b := by
  refine inj_of_low (fun k => reflPrimInt (reflInt k) u) (fun x i hi => ?_) a b h
  have h64 : i < 64 := by omega
  low_bits reflPrimInt

theorem refl_prim_injective_int32 (u : BitVec 64) (a b : BitVec 32)
    (h : reflPrimInt32 (reflInt a) u = reflPrimInt32 (reflInt b) u) : a = b := by
  refine inj_of_low (fun k => reflPrimInt32 (reflInt k) u) (fun x i hi => ?_) a b h
  have h64 : i < 64 := by omega
  low_bits reflPrimInt32

theorem refl_prim_injective_uint32 (u : BitVec 64) (a b : BitVec 32)
    (h : reflPrimUint32 u (reflUint a) = reflPrimUint32 u (reflUint b)) : a = b := by
  refine inj_of_low (fun k => reflPrimUint32 u (reflUint k)) (fun x i hi => ?_) a b h
  have h64 : i < 64 := by omega
  low_bits reflPrimUint32

theorem refl_prim_injective_int64 (u : BitVec 64) (a b : BitVec 64)
    (h : reflPrimInt64 (reflInt a) u = reflPrimInt64 (reflInt b) u) : a = b := by
  refine inj_of_low (fun k => reflPrimInt64 (reflInt k) u) (fun x i hi => ?_) a b h
  have h64 : i < 64 := by omega
  low_bits reflPrimInt64

/-- Non-vacuity: concrete keys of several kinds, on both paths.  Only facts that do not depend on how
the upper bits are filled are stated (the low `w` bits of the hash are the key; positive keys hash to
themselves), so that an injective rewrite such as `uint64(uint32(k))` for `int32` keeps this example
true.  With the code as it is, `int32(-1)` hashes to `(0xffffffffffffffff, 0)` on both paths. -/
example : primInt32 1#32 = 1#64 ∧
    BitVec.setWidth 32 (primInt32 (BitVec.ofInt 32 (-1))) = BitVec.ofInt 32 (-1) ∧
    primInt32 (BitVec.ofInt 32 (-1)) ≠ primInt32 1#32 ∧
    BitVec.setWidth 32 (reflPrimInt32 (reflInt (BitVec.ofInt 32 (-1))) 0#64) = BitVec.ofInt 32 (-1) ∧
    primUint8 255#8 = 255#64 ∧ reflPrimUint8 0#64 (reflUint 255#8) = 255#64 ∧
    primUint32 0xffffffff#32 = 0xffffffff#64 ∧ confInt32 (BitVec.ofInt 32 (-1)) = 0#64 := by decide

/-! ## consequences for the cache -/

/-- what the cache sees of an integer key kind: the two hashes, the primary one injective and the
conflict one `0` -/
structure IntKind (w : Nat) where
  prim : BitVec w → Hash
  conf : BitVec w → Conf
  inj : ∀ a b, prim a = prim b → a = b
  conf0 : ∀ a, conf a = 0#64

/-- the fourteen (kind, path) combinations of `z.KeyToHash` -/
def kUint64 : IntKind 64 := ⟨primUint64, confUint64, prim_injective_uint64, conflict_zero.1⟩
def kUint8 : IntKind 8 := ⟨primUint8, confUint8, prim_injective_uint8, conflict_zero.2.1⟩
def kUint : IntKind 64 := ⟨primUint, confUint, prim_injective_uint, conflict_zero.2.2.1⟩
def kInt : IntKind 64 := ⟨primInt, confInt, prim_injective_int, conflict_zero.2.2.2.1⟩
def kInt32 : IntKind 32 := ⟨primInt32, confInt32, prim_injective_int32, conflict_zero.2.2.2.2.1⟩
def kUint32 : IntKind 32 := ⟨primUint32, confUint32, prim_injective_uint32, conflict_zero.2.2.2.2.2.1⟩
def kInt64 : IntKind 64 := ⟨primInt64, confInt64, prim_injective_int64, conflict_zero.2.2.2.2.2.2.1⟩
def kNamedUint64 : IntKind 64 :=
  ⟨fun k => reflPrimUint64 0#64 (reflUint k), fun k => reflConfUint64 0#64 (reflUint k),
   refl_prim_injective_uint64 _, fun _ => rfl⟩
def kNamedUint8 : IntKind 8 :=
  ⟨fun k => reflPrimUint8 0#64 (reflUint k), fun k => reflConfUint8 0#64 (reflUint k),
   refl_prim_injective_uint8 _, fun _ => rfl⟩
def kNamedUint : IntKind 64 :=
  ⟨fun k => reflPrimUint 0#64 (reflUint k), fun k => reflConfUint 0#64 (reflUint k),
   refl_prim_injective_uint _, fun _ => rfl⟩
def kNamedInt : IntKind 64 :=
  ⟨fun k => reflPrimInt (reflInt k) 0#64, fun k => reflConfInt (reflInt k) 0#64,
   refl_prim_injective_int _, fun _ => rfl⟩
def kNamedInt32 : IntKind 32 :=
  ⟨fun k => reflPrimInt32 (reflInt k) 0#64, fun k => reflConfInt32 (reflInt k) 0#64,
   refl_prim_injective_int32 _, fun _ => rfl⟩
def kNamedUint32 : IntKind 32 :=
  ⟨fun k => reflPrimUint32 0#64 (reflUint k), fun k => reflConfUint32 0#64 (reflUint k),
   refl_prim_injective_uint32 _, fun _ => rfl⟩
def kNamedInt64 : IntKind 64 :=
  ⟨fun k => reflPrimInt64 (reflInt k) 0#64, fun k => reflConfInt64 (reflInt k) 0#64,
   refl_prim_injective_int64 _, fun _ => rfl⟩

/-- the log of a cache keyed by the integer kind `K`: every `Set` / `Del` call carries the two
hashes of some key of that kind -/
def KeyedBy {w : Nat} (K : IntKind w) (l : List Ev) : Prop :=
  ∀ e ∈ l, ∀ h c, callHC e = some (h, c) → ∃ k : BitVec w, h = K.prim k ∧ c = K.conf k

/-- **`CollisionFree` by construction**: in a cache keyed by one integer kind, all calls for one
primary hash carry the same conflict hash (namely 0) — the hypothesis of C02/C04/C05/C06/C13's
collision-free theorems is met. -/
theorem int_keys_collision_free {w : Nat} (K : IntKind w) (l : List Ev) (hk : KeyedBy K l) :
    Cache.CollisionFree l := by
  intro e1 h1 e2 h2 h c1 c2 hc1 hc2
  obtain ⟨k1, _, e1'⟩ := hk e1 h1 h c1 hc1
  obtain ⟨k2, _, e2'⟩ := hk e2 h2 h c2 hc2
  rw [e1', e2', K.conf0, K.conf0]

/-- … and distinct keys have distinct (primary, conflict) pairs, indeed distinct primary hashes: the
model's identification of a key with its pair of hashes loses nothing for integer keys. -/
theorem int_keys_distinct_hash {w : Nat} (K : IntKind w) (a b : BitVec w) (hne : a ≠ b) :
    K.prim a ≠ K.prim b ∧ (K.prim a, K.conf a) ≠ (K.prim b, K.conf b) :=
  ⟨fun h => hne (K.inj a b h), fun h => hne (K.inj a b (congrArg Prod.fst h))⟩

/-- **C01's "cg = 0" case cannot mix integer keys** (composition with `c01_get_provenance`): in a
cache keyed by the integer kind `K`, if `Get(kg)` returned `(v, true)` then a `Set(ks, v)` with
`ks = kg` had begun before — the value was written under that very key, although the `Get`'s
conflict hash 0 matches every entry of its primary hash. -/
theorem c01_int_get_same_key {w : Nat} (K : IntKind w) {cfg : Cfg} {s : State} (hr : Reach cfg s)
    (hk : KeyedBy K s.log) {newer older : List Ev} {t : Tid} {kg : BitVec w} {v : Val}
    (hlog : s.log = newer ++ .getRet t (K.prim kg) (K.conf kg) (some v) :: older) :
    ∃ t' ks cost ttl, Ev.setCall t' (K.prim ks) (K.conf ks) v cost ttl ∈ older ∧ ks = kg := by
  obtain ⟨t', cw, cost, ttl, hm, _⟩ := RV.C01.c01_get_provenance hr hlog
  have hmem : Ev.setCall t' (K.prim kg) cw v cost ttl ∈ s.log := by
    rw [hlog]; exact List.mem_append_right _ (List.mem_cons_of_mem _ hm)
  obtain ⟨ks, h1, h2⟩ := hk _ hmem (K.prim kg) cw rfl
  have : ks = kg := (K.inj kg ks h1).symm
  subst this
  exact ⟨t', ks, cost, ttl, by rw [← h2]; exact hm, rfl⟩

/-- Non-vacuity: an `int32`-keyed log with two `Set`s of the keys `-1` and `1` is `KeyedBy kInt32`, hence
collision free, and the two keys have different primary hashes. -/
example :
    let l : List Ev := [.setCall 1 (kInt32.prim 1#32) (kInt32.conf 1#32) 8 1 0,
                        .setCall 0 (kInt32.prim (BitVec.ofInt 32 (-1))) (kInt32.conf (BitVec.ofInt 32 (-1))) 7 1 0]
    KeyedBy kInt32 l ∧ Cache.CollisionFree l ∧ kInt32.prim 1#32 ≠ kInt32.prim (BitVec.ofInt 32 (-1)) := by
  intro l
  have hk : KeyedBy kInt32 l := by
    intro e he h c hc
    simp only [l, List.mem_cons, List.not_mem_nil, or_false] at he
    rcases he with rfl | rfl
    · simp only [callHC, Option.some.injEq, Prod.mk.injEq] at hc; exact ⟨1#32, hc.1.symm, hc.2.symm⟩
    · simp only [callHC, Option.some.injEq, Prod.mk.injEq] at hc; exact ⟨BitVec.ofInt 32 (-1), hc.1.symm, hc.2.symm⟩
  exact ⟨hk, int_keys_collision_free kInt32 l hk, (int_keys_distinct_hash kInt32 _ _ (by decide)).1⟩

end RV.KeyHash
