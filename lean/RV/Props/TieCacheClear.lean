import RV.Proofs.TieCacheClearDefs
import RV.Props.TieCacheApp
/-!
# TieCacheClear — `Cache.Clear` (cache.go) cut at its yield points: every generated section computes
# what the model's step for that program counter computes

`RV/Gen/CacheC.lean` is regenerated from /repo's cache.go on every run (go2lean/cachea.go on top of
cachem.go).  `Clear` is: closed check, `c.stop <- struct{}{}` (parked until the applier takes it),
`<-c.done` (parked until the applier offers it), the drain loop
`for { select { case i := <-c.setBuf: … default: break loop } }` — its head is a parking point and ONE
ITERATION is one section (`Clear_loop`: the non-blocking receive decides) —, `cachePolicy.Clear()`,
the callee `storedItems.Clear` (cut: it has the yield point `vpClearShard` of its own), the metrics
reset, `go c.processItems()`.  The theorems are EQUALITIES between the model's step functions
(`stClrStart`, `apSelStop`, `doneStep`, `stClrDrain`, `stClrPolicy`, `stClrMetrics`, `stClrRestart`)
and the landed generated sections (`landClr`), for `Clear` called directly (`closing = false`) and
inside `Close` (`closing = true`).  NOT covered: the callee `shardedMap.Clear` (the model's
`stClrShard` / `stClrEm` steps, between `call_store_Clear` and `Clear_after_store_Clear`),
`Cache.Close`'s own sections, `Cache.Wait`.
-/
set_option linter.unusedSimpArgs false
namespace RV.TieCacheClear
open RV RV.Cache Gen.Cache Gen.CacheC RV.TieCache RV.TieCacheApp

theorem tie_clear_entry (cfg : Cfg) (s : State) (t : Tid) (rep : BufElem → GItem × Option Nat) :
    stClrStart s t false = landClr t false (Clear_entry (cI cfg rep) false s) := by
  unfold stClrStart Clear_entry
  cases hc : s.closed <;> simp [cI, hc, landClr, pcClr]

/-- inside `Close` (which has checked `isClosed` itself) -/
theorem tie_clear_entry_closing (cfg : Cfg) (s : State) (t : Tid) (rep : BufElem → GItem × Option Nat)
    (hc : s.closed = false) :
    stClrStart s t true = landClr t true (Clear_entry (cI cfg rep) false s) := by
  unfold stClrStart Clear_entry
  simp [cI, hc, landClr, pcClr]

theorem tie_clear_nil (cfg : Cfg) (s : State) (rep : BufElem → GItem × Option Nat) :
    Clear_entry (cI cfg rep) true s = (s, .ret) := by
  simp [Clear_entry]

/-- the applier takes the `stop`: the parked sender is at the parking point `Clear_unblocked` names -/
theorem tie_clear_stopTaken (s : State) (t : Tid) (closing : Bool)
    (hpc : s.cl t = pcClr closing .vpClearStopSent_blocked) :
    apSelStop s t = some (setCl { s with app := .stopAck } t
      (pcClr closing (Clear_unblocked .vpClearStopSent_blocked))) := by
  simp [apSelStop, hpc, pcClr, Clear_unblocked]

/-- `vpClearStopSent`: the section only starts the receive on `done`, which parks (same model pc) -/
theorem tie_clear_stopSent (cfg : Cfg) (s : State) (t : Tid) (closing : Bool)
    (rep : BufElem → GItem × Option Nat) (hpc : s.cl t = pcClr closing .vpClearStopSent) :
    landClr t closing (Clear_vpClearStopSent (cI cfg rep) s) = setCl s t (s.cl t) := by
  simp [Clear_vpClearStopSent, cI, landClr, pcClr, hpc]

/-- the rendezvous on `done` -/
theorem tie_clear_doneTaken (s : State) (t : Tid) (closing : Bool) (happ : s.app = .stopAck)
    (hpc : s.cl t = pcClr closing .vpClearDone_blocked) :
    doneStep s t = some (setCl { s with app := .dead } t
      (pcClr closing (Clear_unblocked .vpClearDone_blocked))) := by
  simp [doneStep, happ, hpc, pcClr, Clear_unblocked]

/-- `vpClearDone`: the section only enters the drain loop (same model pc) -/
theorem tie_clear_done (cfg : Cfg) (s : State) (t : Tid) (closing : Bool)
    (rep : BufElem → GItem × Option Nat) (hpc : s.cl t = pcClr closing .vpClearDone) :
    landClr t closing (Clear_vpClearDone (cI cfg rep) s) = setCl s t (s.cl t) := by
  simp [Clear_vpClearDone, landClr, pcClr, hpc]

/-- ONE ITERATION of the drain loop.  `hrep`: the Go value the receive binds represents the element
the model's channel delivers.  When an element was received the model leaves the pc of `t` alone
(it is `clrDrain` already), the landing sets it again. -/
theorem tie_clear_drain (cfg : Cfg) (s : State) (t : Tid) (closing : Bool)
    (rep : BufElem → GItem × Option Nat)
    (hrep : ∀ e s1, recvBuf s = some (e, s1) → RepElem e (rep e).1 (rep e).2) :
    landClr t closing (Clear_loop (cI cfg rep) s) =
      match recvBuf s with
      | none => stClrDrain s t closing
      | some _ => setCl (stClrDrain s t closing) t (.clrDrain closing) := by
  unfold stClrDrain Clear_loop
  cases hr : recvBuf s with
  | none => simp [cI, hr, landClr, pcClr]
  | some p =>
    obtain ⟨e, s1⟩ := p
    have h := hrep e s1 hr
    cases e with
    | marker id =>
      simp only [RepElem] at h
      simp [cI, hr, h, landClr, pcClr]
    | item it =>
      rcases hp : rep (BufElem.item it) with ⟨gi, wt⟩
      simp only [RepElem, hp] at h
      obtain ⟨h1, h2⟩ := h
      subst h1; subst h2
      have hf : ∀ f : BitVec 8, ((flagOf f).code != 2#8) = (f != 2#8) := by decide
      have hf' : ((absItem gi).flag.code != 2#8) = (gi.flag != 2#8) := hf gi.flag
      simp only [cI, hr, hp, Option.isSome_none, Bool.false_eq_true, if_false, clearEvictsItem, hf']
      by_cases hz : (gi.flag != 2#8) = true
      · simp only [hz, if_true, landClr, pcClr]
        rfl
      · simp only [hz, Bool.false_eq_true, if_false, landClr, pcClr]

theorem tie_clear_policy (cfg : Cfg) (s : State) (t : Tid) (closing : Bool)
    (rep : BufElem → GItem × Option Nat) :
    stClrPolicy s t closing = landClr t closing (Clear_vpClearDrained (cI cfg rep) s) := by
  simp [stClrPolicy, Clear_vpClearDrained, cI, landClr, pcClr]

/-- `vpClearPolicy`: the section only calls `storedItems.Clear` (same model pc: shard 0 is next) -/
theorem tie_clear_beforeStore (cfg : Cfg) (s : State) (t : Tid) (closing : Bool)
    (rep : BufElem → GItem × Option Nat) (hpc : s.cl t = pcClr closing .vpClearPolicy) :
    landClr t closing (Clear_vpClearPolicy (cI cfg rep) s) = setCl s t (s.cl t) := by
  simp [Clear_vpClearPolicy, landClr, pcClr, hpc]

/-- the return of `storedItems.Clear` lands where the model is after its last step (`stClrEm`) -/
theorem tie_clear_afterStore (cfg : Cfg) (s : State) (t : Tid) (closing : Bool)
    (rep : BufElem → GItem × Option Nat) :
    landClr t closing (Clear_after_store_Clear (cI cfg rep) s) = setCl s t (.clrMetrics closing) := by
  simp [Clear_after_store_Clear, landClr, pcClr]

theorem tie_clear_metrics (cfg : Cfg) (s : State) (t : Tid) (closing : Bool)
    (rep : BufElem → GItem × Option Nat) :
    stClrMetrics cfg s t closing = landClr t closing (Clear_vpClearStore (cI cfg rep) s) := by
  unfold stClrMetrics Clear_vpClearStore
  cases hm : cfg.metricsOn <;> simp [cI, hm, landClr, pcClr]

theorem tie_clear_restart (cfg : Cfg) (s : State) (t : Tid) (closing : Bool)
    (rep : BufElem → GItem × Option Nat) :
    stClrRestart s t closing = landClr t closing (Clear_vpClearMetrics (cI cfg rep) s) := by
  unfold stClrRestart Clear_vpClearMetrics
  cases closing <;> simp [cI, landClr, pcClr]

/-! ## The dispatcher: `clientStep` at the pc of a parking point = the generated `Clear_step` there -/

/-- parking points of `Clear` whose section is one step of the model taken by the client alone (the
drain loop head is `tie_clear_step_loop`; the two handshakes are `tie_clear_stopTaken` /
`tie_clear_doneTaken`) -/
def isClrStepPoint : Clear_Out Key Nat → Bool
  | .vpClearDrained | .vpClearStore | .vpClearMetrics => true
  | _ => false

theorem tie_clear_step (cfg : Cfg) (s : State) (t : Tid) (closing : Bool)
    (rep : BufElem → GItem × Option Nat) (o : Clear_Out Key Nat)
    (hpc : s.cl t = pcClr closing o) (hst : isClrStepPoint o = true) :
    clientStep cfg s t .none = some (landClr t closing (Clear_step (cI cfg rep) s o)) := by
  cases o <;> simp only [isClrStepPoint, Bool.false_eq_true] at hst
  case vpClearDrained =>
    simp only [clientStep, hpc, pcClr, needNone, Clear_step]; rw [tie_clear_policy cfg s t closing rep]
  case vpClearStore =>
    simp only [clientStep, hpc, pcClr, needNone, Clear_step]; rw [tie_clear_metrics cfg s t closing rep]
  case vpClearMetrics =>
    simp only [clientStep, hpc, pcClr, needNone, Clear_step]; rw [tie_clear_restart cfg s t closing rep]

/-- the drain loop head when the buffer is empty: the loop ends -/
theorem tie_clear_step_loop_empty (cfg : Cfg) (s : State) (t : Tid) (closing : Bool)
    (rep : BufElem → GItem × Option Nat) (hpc : s.cl t = pcClr closing .loop) (hr : recvBuf s = none) :
    clientStep cfg s t .none = some (landClr t closing (Clear_step (cI cfg rep) s .loop)) := by
  have h := tie_clear_drain cfg s t closing rep (by intro e s1 h; rw [hr] at h; cases h)
  simp only [hr] at h
  simp only [clientStep, hpc, pcClr, needNone, Clear_step]; rw [h]

/-! ## Non-vacuity: a buffer holding a new item (key 8, value 7, cost 3) then a marker: the first
iteration hands the item to `OnEvict` then `OnExit`, the second closes the marker, the third leaves
the loop; with metrics on the reset zeroes the counters; the restart makes the applier idle. -/

def itC : RV.Cache.Item := ⟨.new, 8#64, 1#64, 7, 3, Gen.zeroTime⟩
def repC : BufElem → GItem × Option Nat
  | .item it => (⟨it.flag.code, it.key, it.conflict, it.value, w64 it.cost, it.exp⟩, none)
  | .marker id => (Gen.Methods.Item.zero 0, some id)
def sC : State := { init cfgA 5 with buf := [.item itC, .marker 4], app := .dead, met := { hit := 2#64 } }

example : RepElem (.item itC) (repC (.item itC)).1 (repC (.item itC)).2 := by
  refine ⟨rfl, ?_⟩
  decide
example : (Clear_loop (cI cfgA repC) sC).1.log = [.exit 7, .evict 8#64 1#64 7 3] := by decide
example : (Clear_loop (cI cfgA repC) (Clear_loop (cI cfgA repC) sC).1).1.closedMarkers = [4] := by decide
example : (Clear_loop (cI cfgA repC) { sC with buf := [] }).2 matches .vpClearDrained := by decide
example : (Clear_vpClearStore (cI cfgA repC) sC).1.met.hit = 0#64 := by decide
example : (Clear_vpClearMetrics (cI cfgA repC) sC).1.app matches .idle := by decide

end RV.TieCacheClear
