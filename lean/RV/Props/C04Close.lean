import RV.Props.C04Conserve
import RV.Props.C15
/-!
# C04, positive half, for `Close` — stated over the un-overlapped-`Close` runs of C15

`C04Conserve.c04_close_exactly_once` takes "the cache holds nothing" as hypotheses;
`C15.c15_close_empty` proves exactly that for every state reachable by a run in which `Close` is
not overlapped by other calls (`ReachX`) once `closed = true`.  Together: after an un-overlapped
`Close` has returned, every value whose `Set`/`SetWithTTL` returned true has been passed to `OnExit`
exactly once (collision-free, fresh values).  With colliding primary hashes this is false (F8,
`C04Conserve.conserve_collision_counterexample`), and for `Clear` it is false when a `Set` is in
flight (F12, `C04.c04_clear_limbo_counterexample`).
-/
namespace RV.C04Close
open RV RV.Cache

/-- **Exactly once by the return of `Close`.**  `s` is reachable by a run in which `Close` is not
overlapped (`ReachX`), the cache is closed and every client is idle (all calls have returned);
the `Set` values are pairwise distinct and non-zero (`Fresh`), no two keys share a primary hash.
Then every value whose `Set` returned true has exactly one `OnExit` event. -/
theorem c04_close_exactly_once_reachX {cfg : Cfg} {s : State} (hcap : 1 ≤ cfg.bufCap)
    (hx : ReachX cfg s) (hc : s.closed = true) (hidle : ∀ t, s.cl t = .idle)
    (hf : Fresh s.log) (hcf : C04.CollisionFree s.log) {v : Val} (hv : v ≠ 0) {t : Tid}
    (ha : Ev.setRet t v true ∈ s.log) : exitCnt v s.log = 1 := by
  have he := C15.c15_close_empty hcap hx hc
  exact C04Conserve.c04_close_exactly_once hx.reach hf hcf he.1.store he.1.buf he.1.sendq he.2.1 hidle hv ha

/-! ### non-vacuity: `C04Conserve.closeDemo` is an un-overlapped-`Close` run -/

/-- a run `pre ++ [spawn t Close] ++ tail` from the initial state, where `pre` contains no `Close`,
every client is idle after `pre`, and `tail` spawns nothing, is an un-overlapped-`Close` run -/
theorem reachX_of_close_run {cfg : Cfg} {pre tail : List Action} {t : Tid} {s : State}
    (hnc : pre.all (fun a => !a.isClose) = true)
    (hidle : ∀ s0, run cfg (init cfg 0) pre = some s0 → ∀ t', s0.cl t' = .idle)
    (htail : ∀ a ∈ tail, a.isSpawn = false)
    (hr : run cfg (init cfg 0) (pre ++ (.spawn t .close :: tail)) = some s) : ReachX cfg s := by
  obtain ⟨s0, h0, h1⟩ := run_split hr
  have hncr : ReachNC cfg s0 := reachNC_of_run (now := 0) (noClose_of_all hnc) h0
  simp only [run] at h1
  cases hsp : step cfg s0 (.spawn t .close) with
  | none => simp [hsp] at h1
  | some s1 =>
    simp only [hsp] at h1
    have hx1 : ReachX cfg s1 :=
      ReachBy.step (a := .spawn t .close) (reachX_of_reachNC hncr)
        (show (∀ t', (s0.cl t').closing = false) ∧ (Call.close = Call.close → ∀ t', s0.cl t' = .idle) from
          ⟨(ncinv_reach hncr).closing, fun _ => hidle s0 h0⟩) hsp
    exact reachBy_of_run' (p := fun a => a.isSpawn = false)
      (fun s a hp => by cases a <;> first | trivial | (simp [Action.isSpawn] at hp))
      hx1 htail h1

def closePre : List Action := C04Conserve.closeDemo.take (C04Conserve.closeDemo.length - (C04Conserve.closeActs 3 1 (fun _ => [])).length)
def closeTail : List Action := (C04Conserve.closeDemo.drop closePre.length).tail

def isClose3 : Action → Bool
  | .spawn 3 .close => true
  | _ => false

theorem isClose3_eq {a : Action} (h : isClose3 a = true) : a = .spawn 3 .close := by
  unfold isClose3 at h
  split at h
  · rfl
  · cases h

set_option maxRecDepth 100000 in
theorem closeDemo_head : ((C04Conserve.closeDemo.drop closePre.length).head?.map isClose3) = some true := by decide

theorem closeDemo_split : C04Conserve.closeDemo = closePre ++ (.spawn 3 .close :: closeTail) := by
  have hh := closeDemo_head
  have h1 : C04Conserve.closeDemo = C04Conserve.closeDemo.take closePre.length ++ C04Conserve.closeDemo.drop closePre.length :=
    (List.take_append_drop _ _).symm
  have h2 : C04Conserve.closeDemo.take closePre.length = closePre := by
    unfold closePre; simp
  cases hd : C04Conserve.closeDemo.drop closePre.length with
  | nil => rw [hd] at hh; simp at hh
  | cons a rest =>
    rw [hd] at hh
    simp only [List.head?_cons, Option.map_some, Option.some.injEq] at hh
    have ha := isClose3_eq hh
    subst ha
    have ht : closeTail = rest := by unfold closeTail; rw [hd]; rfl
    rw [ht]
    conv => lhs; rw [h1, h2, hd]

set_option maxRecDepth 100000 in
theorem closePre_noClose : closePre.all (fun a => !a.isClose) = true := by decide

set_option maxRecDepth 100000 in
theorem closeTail_nospawn : closeTail.all (fun a => !a.isSpawn) = true := by decide

set_option maxRecDepth 100000 in
theorem closePre_idle : (run C04.cfg0 (init C04.cfg0 0) closePre).map (fun s => (List.range 4).all fun t => s.cl t == .idle) = some true := by
  decide

set_option maxRecDepth 100000 in
theorem closePre_tids : (closePre.all fun a => a.tids.all fun t => [0, 1, 2, 3].contains t) = true := by decide

set_option maxRecDepth 100000 in
theorem closeDemo_tids : (C04Conserve.closeDemo.all fun a => a.tids.all fun t => [0, 1, 2, 3].contains t) = true := by decide

set_option maxRecDepth 100000 in
/-- the hypotheses of `c04_close_exactly_once_reachX` are satisfiable together, on the end state of
`C04Conserve.closeDemo` (an applied `Set`, a rejected one, an overwritten one, a `Del`, a policy
eviction, a resident entry and a buffered item, then a complete `Close`), where seven values were
accepted. -/
example : ∃ s, ReachX C04.cfg0 s ∧ 1 ≤ C04.cfg0.bufCap ∧ s.closed = true ∧ (∀ t, s.cl t = .idle) ∧
    Fresh s.log ∧ C04.CollisionFree s.log ∧ Ev.setRet 1 7 true ∈ s.log := by
  have hsome := C04Conserve.closeDemo_isSome
  have hrun := exState_run hsome
  have hx : ReachX C04.cfg0 (exState C04.cfg0 C04Conserve.closeDemo) := by
    refine reachX_of_close_run (pre := closePre) (tail := closeTail) (t := 3) closePre_noClose ?_ ?_ ?_
    · intro s0 h0 t'
      have hi := closePre_idle
      rw [h0] at hi
      simp only [Option.map_some, Option.some.injEq] at hi
      by_cases ht : t' < 4
      · rw [List.all_eq_true] at hi
        simpa using hi t' (List.mem_range.mpr ht)
      · exact run_init_idle [0, 1, 2, 3] h0 closePre_tids (C04Conserve.not_mem_of_ge4 ht)
    · intro a ha
      have := List.all_eq_true.mp closeTail_nospawn a ha
      simpa using this
    · rw [← closeDemo_split]; exact hrun
  have hsh := C04Conserve.closeDemo_shape
  simp only [Prod.mk.injEq] at hsh
  obtain ⟨_, _, _, h4, h5⟩ := hsh
  have hidle : ∀ t, (exState C04.cfg0 C04Conserve.closeDemo).cl t = .idle := by
    intro t
    by_cases ht : t < 4
    · rw [List.all_eq_true] at h5
      simpa using h5 t (List.mem_range.mpr ht)
    · exact exState_idle [0, 1, 2, 3] hsome closeDemo_tids (C04Conserve.not_mem_of_ge4 ht)
  have hf : Fresh (exState C04.cfg0 C04Conserve.closeDemo).log := by
    rw [C04Conserve.closeDemo_log]; unfold Fresh; decide
  have hcf : C04.CollisionFree (exState C04.cfg0 C04Conserve.closeDemo).log := by
    rw [C04Conserve.collisionFree_iff, C04Conserve.closeDemo_log]; exact cv_collisionFree_of_B (by decide)
  refine ⟨_, hx, by decide, h4, hidle, hf, hcf, ?_⟩
  rw [C04Conserve.closeDemo_log]; decide

end RV.C04Close
