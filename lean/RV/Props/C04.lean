import RV.Proofs.CacheOwnGet
/-!
# C04 — Every accepted value leaves through OnExit exactly once

Theorems about `RV/Model/Cache.lean` for every configuration, every number of client threads and
every interleaving (`Reach cfg s`); `Fresh s.log` = the values handed to `Set` are pairwise distinct
and non-zero.  The log is newest first.  Built on the ownership invariant (`own_reach`,
`RV/Proofs/CacheOwn.lean`; stated as `C02.own_unique`).

Proved (safety half, "at most once, never while retrievable, never for a refused value"):
* `c04_at_most_once` — at most one `exit v`, one `evict _ _ v _`, one `reject _ _ v _`; even
  `#evict + #reject ≤ #exit ≤ 1`.
* `c04_evict_then_exit`, `c04_reject_then_exit` — `OnEvict`/`OnReject` are immediately followed by the
  `OnExit` of the same value (no freshness needed).
* `c04_not_retrievable` — a value that has been passed to `OnExit` is not in the store.
* `c04_false_never` — a value whose `Set` returned false is never passed to any callback.

NOT proved (liveness half, "at least once, no later than the return of the next Clear/Close"): it
is false on the model without further hypotheses, see the two counterexamples at the end:
* `c04_collision_counterexample` — finding F8: with two keys sharing the primary hash the value of an
  accepted `Set` is dropped silently and not even `Clear` releases it.
* `c04_clear_limbo_counterexample` — without any collision: a value overwritten by a `Set` that is
  still between `store.Update` and its `OnExit(prev)` call when a concurrent `Clear` runs to
  completion is passed to `OnExit` only *after* that `Clear` has returned.
-/
namespace RV.C04
open RV.Cache

/-- `c04_at_most_once`: under `Fresh`, for a non-zero value there is at most one `exit v` event, and the
`evict _ _ v _` and `reject _ _ v _` events together are at most as many as the `exit v` events; in
particular at most one `OnEvict` and at most one `OnReject` per value, never both. -/
theorem c04_at_most_once {cfg : Cfg} {s : State} (hr : Reach cfg s) (hf : Fresh s.log) {v : Val} (hv : v ≠ 0) :
    exitCnt v s.log ≤ 1 ∧ evictCnt v s.log + rejectCnt v s.log ≤ exitCnt v s.log ∧
    evictCnt v s.log ≤ 1 ∧ rejectCnt v s.log ≤ 1 := by
  have h1 := (own_reach hr hv hf).1
  have h2 := deadCnt_split hv s.log
  have h3 := (delta_reach hr).2 v
  rw [cbCnt_eq] at h3
  unfold View.cnt at h1
  have : deadCnt v s.view.log = deadCnt v s.log := rfl
  omega

/-- `c04_evict_then_exit`: an `OnEvict(item)` event is immediately followed by `OnExit(item.Value)` — the
wrapper logs both in one step — in every reachable state, no freshness needed. -/
theorem c04_evict_then_exit {cfg : Cfg} {s : State} (hr : Reach cfg s) {newer older : List Ev} {h : Hash}
    {c : Conf} {v : Val} {k : Int} (hlog : s.log = newer ++ Ev.evict h c v k :: older) :
    ∃ newer', newer = newer' ++ [Ev.exit v] :=
  (delta_reach hr).1.1 newer older h c v k hlog

/-- `c04_reject_then_exit`: the same for `OnReject`. -/
theorem c04_reject_then_exit {cfg : Cfg} {s : State} (hr : Reach cfg s) {newer older : List Ev} {h : Hash}
    {c : Conf} {v : Val} {k : Int} (hlog : s.log = newer ++ Ev.reject h c v k :: older) :
    ∃ newer', newer = newer' ++ [Ev.exit v] :=
  (delta_reach hr).1.2 newer older h c v k hlog

/-- `c04_not_retrievable`: a value that has been passed to `OnExit` is not in the store (neither at the
end of that step nor ever after), so no map read can return it. -/
theorem c04_not_retrievable {cfg : Cfg} {s : State} (hr : Reach cfg s) (hf : Fresh s.log) {v : Val} (hv : v ≠ 0)
    (hex : Ev.exit v ∈ s.log) {h : Hash} {e : Entry} (hl : s.store.lookup h = some e) : e.value ≠ v :=
  fun he => own_no_exit hv (own_reach hr hv hf) hl he hex

/-- an exited value is also in no buffer, at no applier pc and at no client: it occupies no other place -/
theorem c04_exit_is_last {cfg : Cfg} {s : State} (hr : Reach cfg s) (hf : Fresh s.log) {v : Val} (hv : v ≠ 0)
    (hex : Ev.exit v ∈ s.log) :
    bufCnt v s.buf = 0 ∧ sqCnt v s.sendq = 0 ∧ appCnt v s.app = 0 ∧ storeCnt v s.store = 0 ∧
    ∀ t, (s.cl t).own ≠ v := by
  have ho := own_reach hr hv hf
  have h1 := ho.1
  have h2 := deadCnt_split hv s.log
  have h3 := exitCnt_pos hex
  unfold View.cnt at h1
  have e1 : deadCnt v s.view.log = deadCnt v s.log := rfl
  have e2 : bufCnt v s.view.buf = bufCnt v s.buf := rfl
  have e3 : sqCnt v s.view.sendq = sqCnt v s.sendq := rfl
  have e4 : appCnt v s.view.app = appCnt v s.app := rfl
  have e5 : storeCnt v s.view.store = storeCnt v s.store := rfl
  refine ⟨by omega, by omega, by omega, by omega, fun t ht => ?_⟩
  have := (ho.2 t ht).1
  unfold View.cnt at this
  omega

/-- `c04_false_never`: a value whose `Set` returned false (cache closed, negative TTL, or a new item
dropped because the buffer was full) is never passed to `OnExit`, `OnEvict` or `OnReject`.  (An
*update* whose buffer send failed returns true in the real code and in the model.) -/
theorem c04_false_never {cfg : Cfg} {s : State} (hr : Reach cfg s) (hf : Fresh s.log) {v : Val} (hv : v ≠ 0)
    {t : Tid} (hret : Ev.setRet t v false ∈ s.log) :
    Ev.exit v ∉ s.log ∧ (∀ h c k, Ev.evict h c v k ∉ s.log) ∧ (∀ h c k, Ev.reject h c v k ∉ s.log) := by
  have h1 := (own_reach hr hv hf).1
  have h2 := deadCnt_split hv s.log
  have h3 := retFalseCnt_pos hret
  have h4 := (delta_reach hr).2 v
  unfold View.cnt at h1
  have e1 : deadCnt v s.view.log = deadCnt v s.log := rfl
  refine ⟨fun hex => ?_, fun h c k hm => ?_, fun h c k hm => ?_⟩
  · have := exitCnt_pos hex; omega
  · have := cbCnt_pos_evict hm; omega
  · have := cbCnt_pos_reject hm; omega

/-- `Clear`/`Close` release what they find, atomically: one shard step passes every entry of the shard to
`OnEvict` and `OnExit` and removes it from the store in the same step (one critical section of the real
code), and one iteration of the drain loop does the same for a buffered new item. -/
theorem c04_clear_releases {s s' : State} {t : Tid} {closing : Bool} {k : Nat} {ch : Choice}
    (hs : stClrShard s t closing k ch = some s') {h : Hash} {e : Entry} (hl : s.store.lookup h = some e)
    (hk : shardIdx h = k) :
    Ev.exit e.value ∈ s'.log ∧ Ev.evict h e.conflict e.value 0 ∈ s'.log ∧ s'.store.lookup h = none :=
  clrShard_releases hs hl hk

theorem c04_drain_releases {s s1 : State} {t : Tid} {closing : Bool} {i : Item}
    (hr : recvBuf s = some (.item i, s1)) (hf : i.flag ≠ .upd) :
    Ev.exit i.value ∈ (stClrDrain s t closing).log ∧
    Ev.evict i.key i.conflict i.value i.cost ∈ (stClrDrain s t closing).log :=
  clrDrain_releases hr hf

/-! ## Non-vacuity -/

def cfg0 : Cfg :=
  { bufCap := 2, ignoreInternal := true, costFn := none, shouldUpdate := none, metricsOn := false, maxCost := 100 }

theorem reach_of_run {cfg : Cfg} {now : Time} {acts : List Action} {s : State}
    (h : run cfg (init cfg now) acts = some s) : Reach cfg s := ⟨now, acts, h⟩

/-- `Set(h/c, v)` by thread `t`, applied by the applier (admitted, no victims) -/
def setApplied (t : Tid) (h : Hash) (c : Conf) (v : Val) : List Action :=
  [.spawn t (.set h c v 1 0), .client t .none, .client t .none, .client t .none, .client t .none,
   .applier .selItem, .applier .none, .applier (.add [] true), .applier .none]

/-- `Del(h/c)` by thread `t`, its tombstone applied by the applier -/
def delApplied (t : Tid) (h : Hash) (c : Conf) : List Action :=
  [.spawn t (.del h c), .client t .none, .client t .none, .client t .none, .client t .none,
   .applier .selItem, .applier .none, .applier .none, .applier .none, .applier .none]

/-- a complete `Clear` by thread `t` when the only stored primary hash is `5` -/
def clearActs (t : Tid) : List Action :=
  [.spawn t .clear, .client t .none, .applier (.selStop t), .done t, .client t .none, .client t .none] ++
  (List.range 256).map (fun k => Action.client t (.order (if k = 5 then [5#64] else []))) ++
  [.client t .none, .client t .none, .client t .none]

/-- `Set(5/1, 7)` applied; `Set(6/1, 8)` with a cost above `MaxCost` is rejected (`OnReject`, `OnExit`);
`Set(5/1, 9)` overwrites 7 (`OnExit(7)`) and its update item stays in the buffer; `Set(7/1, 10)`,
`Set(8/1, 11)`: the second finds the buffer (capacity 2) full, is dropped and returns false. -/
def demoRun : List Action :=
  setApplied 1 5#64 1#64 7 ++
  [.spawn 1 (.set 6#64 1#64 8 1000 0), .client 1 .none, .client 1 .none, .client 1 .none, .client 1 .none,
   .applier .selItem, .applier .none, .applier (.add [] false), .applier .none,
   .spawn 1 (.set 5#64 1#64 9 1 0), .client 1 .none, .client 1 .none, .client 1 .none, .client 1 .none, .client 1 .none,
   .spawn 1 (.set 7#64 1#64 10 1 0), .client 1 .none, .client 1 .none, .client 1 .none, .client 1 .none,
   .spawn 1 (.set 8#64 1#64 11 1 0), .client 1 .none, .client 1 .none, .client 1 .none, .client 1 .none]

theorem demo_log : (run cfg0 (init cfg0 0) demoRun).map (·.log) =
    some [.setRet 1 11 false, .drop 1 11, .setExp 1 11 Gen.zeroTime, .setCall 1 8#64 1#64 11 1 0,
          .setRet 1 10 true, .setExp 1 10 Gen.zeroTime, .setCall 1 7#64 1#64 10 1 0,
          .setRet 1 9 true, .exit 7, .setExp 1 9 Gen.zeroTime, .setCall 1 5#64 1#64 9 1 0,
          .exit 8, .reject 6#64 1#64 8 1000, .setRet 1 8 true, .setExp 1 8 Gen.zeroTime, .setCall 1 6#64 1#64 8 1000 0,
          .setRet 1 7 true, .setExp 1 7 Gen.zeroTime, .setCall 1 5#64 1#64 7 1 0] := by decide

/-- the safety theorems are not vacuous: a reachable state with a `Fresh` log containing an `OnReject`
followed by its `OnExit`, the `OnExit` of an overwritten value, a `Set` that returned false, while
another value (9) is still in the store. -/
example : ∃ s, Reach cfg0 s ∧ Fresh s.log ∧ Ev.exit 7 ∈ s.log ∧ Ev.exit 8 ∈ s.log ∧
    Ev.reject 6#64 1#64 8 1000 ∈ s.log ∧ Ev.setRet 1 11 false ∈ s.log ∧
    s.store.lookup 5#64 = some ⟨1#64, 9, Gen.zeroTime⟩ := by
  have hst : (run cfg0 (init cfg0 0) demoRun).map (fun s => s.store.lookup 5#64) =
      some (some ⟨1#64, 9, Gen.zeroTime⟩) := by decide
  obtain ⟨s, hs, hl⟩ := Option.map_eq_some_iff.mp demo_log
  obtain ⟨s', hs', hl'⟩ := Option.map_eq_some_iff.mp hst
  have : s' = s := by rw [hs] at hs'; exact (Option.some.inj hs').symm
  subst this
  refine ⟨s', reach_of_run hs, ?_, ?_, ?_, ?_, ?_, hl'⟩ <;> rw [hl]
  · unfold Fresh; decide
  all_goals decide

set_option maxRecDepth 100000 in
/-- `c04_evict_then_exit` is not vacuous: after a `Clear` the log contains `OnEvict` events. -/
example : ∃ s, Reach cfg0 s ∧ ∃ newer older, s.log = newer ++ Ev.evict 5#64 1#64 7 0 :: older := by
  have : (run cfg0 (init cfg0 0) (setApplied 1 5#64 1#64 7 ++ clearActs 3)).map (·.log) =
      some [.clearRet 3, .exit 7, .evict 5#64 1#64 7 0, .clearCall 3, .setRet 1 7 true, .setExp 1 7 Gen.zeroTime,
            .setCall 1 5#64 1#64 7 1 0] := by decide
  obtain ⟨s, hs, hl⟩ := Option.map_eq_some_iff.mp this
  exact ⟨s, reach_of_run hs, [.clearRet 3, .exit 7], _, hl⟩

/-! ## Why "released no later than the next Clear" is not a theorem of the model -/

/-- all `setCall`/`delCall` events for the same primary hash carry the same conflict hash -/
def CollisionFree (log : List Ev) : Prop :=
  ∀ e1 ∈ log, ∀ e2 ∈ log, ∀ h c1 c2, (∃ t v k l, e1 = Ev.setCall t h c1 v k l) ∨ (∃ t, e1 = Ev.delCall t h c1) →
    (∃ t v k l, e2 = Ev.setCall t h c2 v k l) ∨ (∃ t, e2 = Ev.delCall t h c2) → c1 = c2

/-- finding F8: keys `a = 5/1`, `b = 5/2` share the primary hash. `Set(a, 7)` applied; `Del(b)` applied (its
tombstone removes *a's* cost accounting); `Set(b, 9)` is admitted by the policy but `store.Set` silently
refuses it on the conflict mismatch; `Clear`. -/
def f8Acts : List Action :=
  setApplied 1 5#64 1#64 7 ++ delApplied 2 5#64 2#64 ++ setApplied 2 5#64 2#64 9 ++ clearActs 3

set_option maxRecDepth 100000 in
theorem f8_log : (run cfg0 (init cfg0 0) f8Acts).map (·.log) =
    some [.clearRet 3, .exit 7, .evict 5#64 1#64 7 0, .clearCall 3,
          .setRet 2 9 true, .setExp 2 9 Gen.zeroTime, .setCall 2 5#64 2#64 9 1 0,
          .exit 0, .delRet 2 5#64, .exit 0, .delCall 2 5#64 2#64,
          .setRet 1 7 true, .setExp 1 7 Gen.zeroTime, .setCall 1 5#64 1#64 7 1 0] := by decide

set_option maxRecDepth 100000 in
/-- `c04_collision_counterexample` (finding F8 on the model): a reachable state with a `Fresh` log in
which `Set(…, 9)` returned true, a later `Clear` has returned, the store, the buffer and the queue of
blocked senders are empty, the applier and the threads 0–3 (all that ever ran) are idle — and `OnExit(9)`
was never called.  The value is lost for good: there is no place left from which it could still be
released. -/
theorem c04_collision_counterexample : ∃ s, Reach cfg0 s ∧ Fresh s.log ∧
    (∃ l3 l2 l1, s.log = l3 ++ Ev.clearRet 3 :: (l2 ++ Ev.clearCall 3 :: l1) ∧ Ev.setRet 2 9 true ∈ l1) ∧
    Ev.exit 9 ∉ s.log ∧ s.store.toList.length = 0 ∧ s.buf.length = 0 ∧ s.sendq.length = 0 ∧ appCnt 9 s.app = 0 ∧
    ((List.range 4).all fun t => s.cl t == .idle) = true := by
  have hrest : (run cfg0 (init cfg0 0) f8Acts).map
      (fun s => (s.store.toList.length, s.buf.length, s.sendq.length, appCnt 9 s.app,
        (List.range 4).all fun t => s.cl t == .idle)) = some (0, 0, 0, 0, true) := by decide
  obtain ⟨s, hs, hl⟩ := Option.map_eq_some_iff.mp f8_log
  obtain ⟨s', hs', hl'⟩ := Option.map_eq_some_iff.mp hrest
  have : s' = s := by rw [hs] at hs'; exact (Option.some.inj hs').symm
  subst this
  simp only [Prod.mk.injEq] at hl'
  refine ⟨s', reach_of_run hs, ?_, ⟨[], [.exit 7, .evict 5#64 1#64 7 0], _, hl, ?_⟩, ?_, hl'.1, hl'.2.1, hl'.2.2.1,
    hl'.2.2.2.1, hl'.2.2.2.2⟩
  · rw [hl]; unfold Fresh; decide
  · decide
  · rw [hl]; decide

/-- `Set(5/1, 7)` applied; thread 2's `Set(5/1, 8)` has overwritten it in the store (`store.Update`) and is
about to call `OnExit(7)`; thread 3 runs a complete `Clear`. -/
def limboActs : List Action :=
  setApplied 1 5#64 1#64 7 ++ [.spawn 2 (.set 5#64 1#64 8 1 0), .client 2 .none, .client 2 .none] ++ clearActs 3

set_option maxRecDepth 100000 in
theorem limbo_log : (run cfg0 (init cfg0 0) limboActs).map (·.log) =
    some [.clearRet 3, .exit 8, .evict 5#64 1#64 8 0, .clearCall 3,
          .setExp 2 8 Gen.zeroTime, .setCall 2 5#64 1#64 8 1 0,
          .setRet 1 7 true, .setExp 1 7 Gen.zeroTime, .setCall 1 5#64 1#64 7 1 0] := by decide

set_option maxRecDepth 100000 in
/-- `c04_clear_limbo_counterexample`: no colliding keys at all (`CollisionFree`), `Set(…, 7)` returned true
before the `Clear` was called, the `Clear` has returned — and `OnExit(7)` has not been called yet: the value
is in limbo at thread 2 (`setExit _ 7`), whose `OnExit(7)` call will come after the `Clear`'s return.  So
"every accepted value is passed to OnExit no later than the return of the next Clear" holds on the model
(and in cache.go, where `SetWithTTL` calls `c.onExit(prev)` outside every lock) only for `Clear`s that do
not overlap an overwriting `Set` / a `Del` of that value. -/
theorem c04_clear_limbo_counterexample : ∃ s, Reach cfg0 s ∧ Fresh s.log ∧ CollisionFree s.log ∧
    (∃ l3 l2 l1, s.log = l3 ++ Ev.clearRet 3 :: (l2 ++ Ev.clearCall 3 :: l1) ∧ Ev.setRet 1 7 true ∈ l1) ∧
    Ev.exit 7 ∉ s.log ∧ (s.cl 2).limbo = 7 := by
  have hrest : (run cfg0 (init cfg0 0) limboActs).map (fun s => (s.cl 2).limbo) = some 7 := by decide
  obtain ⟨s, hs, hl⟩ := Option.map_eq_some_iff.mp limbo_log
  obtain ⟨s', hs', hl'⟩ := Option.map_eq_some_iff.mp hrest
  have : s' = s := by rw [hs] at hs'; exact (Option.some.inj hs').symm
  subst this
  refine ⟨s', reach_of_run hs, ?_, ?_, ⟨[], [.exit 8, .evict 5#64 1#64 8 0], _, hl, ?_⟩, ?_, hl'⟩
  · rw [hl]; unfold Fresh; decide
  · rw [hl]
    intro e1 h1 e2 h2 h c1 c2 hc1 hc2
    simp only [List.mem_cons, List.not_mem_nil, or_false] at h1 h2
    rcases hc1 with ⟨t, v, k, l, rfl⟩ | ⟨t, rfl⟩ <;> rcases hc2 with ⟨t', v', k', l', rfl⟩ | ⟨t', rfl⟩ <;>
      simp only [reduceCtorEq, Ev.setCall.injEq, false_or, or_false] at h1 h2 <;>
      (rcases h1 with h1 | h1 <;> rcases h2 with h2 | h2 <;> (rw [h1.2.2.1, h2.2.2.1]))
  · decide
  · rw [hl]; decide

end RV.C04
