import RV.Proofs.CacheTTLRead
/-!
# C07 — Items are never served after their TTL has elapsed

Model: `RV/Model/Cache.lean` (small-step, any number of clients, one applier, explicit clock).
Times are `Int` nanoseconds; `Gen.zeroTime` is Go's zero `time.Time` = "no expiration".  Every
`SetWithTTL` logs `setExp t v exp` at the step that reads the clock (`exp = clock + ttl` for
`ttl > 0`, `zeroTime` for `ttl = 0`, nothing for `ttl < 0`); reads log the clock at call start
(`getCall/ttlCall/iterCall … now`).  The log is newest-first.  All statements hold for **every**
reachable state: any interleaving, any lag of the applier and of the expiry sweep.

`Fresh log` = the values passed to `Set` are pairwise distinct and non-zero, so that a value
identifies the `SetWithTTL` call (and hence the expiration instant) it came from.

* (a) `clock_mono`, `run_clock_mono`, `call_now_le_clock`
* (b) `exp_of_value`, `exp_of_value_store`, `setExp_unique`
* (c) `c07_never_after` (Get), `c07_never_after_iter` (IterValues), `c07_never_after_ttl` (GetTTL)
* (d) `c07_not_before`, `c07_not_before_step`, `c07_not_before_iter`
* (e) `c07_getttl_bound`
* (f) `c07_negative_ttl`
* (g) `c07_zero_ttl_no_expiry`
-/
namespace RV.C07
open RV RV.Cache Gen.Cache

/-! ## (a) the clock -/

/-- Along every step the clock does not decrease. -/
theorem clock_mono {cfg : Cfg} {s s' : State} {a : Action} (hs : step cfg s a = some s') : s.clock ≤ s'.clock :=
  step_clock_le hs

/-- … hence along every run. -/
theorem run_clock_mono {cfg : Cfg} {s s' : State} {acts : List Action} (hr : run cfg s acts = some s') :
    s.clock ≤ s'.clock := by
  induction acts generalizing s with
  | nil => simp [run] at hr; subst hr; exact Int.le_refl _
  | cons a as ih =>
    simp only [run] at hr
    cases hs : step cfg s a with
    | none => simp [hs] at hr
    | some s1 =>
      simp only [hs] at hr
      exact Int.le_trans (step_clock_le hs) (ih hr)

/-- The start time recorded by every `Get`/`GetTTL`/`IterValues` call is ≤ the current clock. -/
theorem call_now_le_clock {cfg : Cfg} {s : State} (hr : Reach cfg s) :
    (∀ t h c now, Ev.getCall t h c now ∈ s.log → now ≤ s.clock) ∧
    (∀ t h c now, Ev.ttlCall t h c now ∈ s.log → now ≤ s.clock) ∧
    (∀ t now, Ev.iterCall t now ∈ s.log → now ≤ s.clock) :=
  ⟨fun _ _ _ now hm => callNow_reach hr _ hm now rfl, fun _ _ _ now hm => callNow_reach hr _ hm now rfl,
   fun _ now hm => callNow_reach hr _ hm now rfl⟩

/-! ## (b) values are never re-stamped -/

/-- Under `Fresh` a value has at most one `setExp` event: its expiration instant is well defined. -/
theorem setExp_unique {cfg : Cfg} {s : State} (hr : Reach cfg s) (hf : Fresh s.log) {t t' : Tid} {v : Val}
    {e e' : Time} (h1 : Ev.setExp t v e ∈ s.log) (h2 : Ev.setExp t' v e' ∈ s.log) : e = e' :=
  (uniq_reach hr hf).uniq t t' v e e' h1 h2

/-- … it belongs to the one `Set` call that supplied the value, and is that call's clock read plus
its ttl (`exp - ttl` is a past clock value), or `zeroTime` for `ttl = 0`. -/
theorem setExp_of_call {cfg : Cfg} {s : State} (hr : Reach cfg s) (hf : Fresh s.log) {t : Tid} {v : Val} {e : Time}
    (h1 : Ev.setExp t v e ∈ s.log) :
    v ≠ 0 ∧ ∃ h c cost ttl, Ev.setCall t h c v cost ttl ∈ s.log ∧
      ((ttl = 0 ∧ e = Gen.zeroTime) ∨ (0 < ttl ∧ e - ttl ≤ s.clock)) := by
  obtain ⟨h, c, cost, ttl, hc⟩ := (uniq_reach hr hf).call t v e h1
  exact ⟨hf.ne_zero hc, h, c, cost, ttl, hc, (uniq_reach hr hf).exp t v e h c cost ttl h1 hc⟩

/-- `exp_of_value`: wherever a non-zero value travels together with an expiration (store entry,
item in a client pc / the write buffer / a blocked send / an applier pc, the entry copy held by a
`Get`/`GetTTL`, the pair held by the sweep) it carries the expiration logged by the `setExp` event of
that value — and under `Fresh` that event is the only one for the value. -/
theorem exp_of_value {cfg : Cfg} {s : State} (hr : Reach cfg s) (hf : Fresh s.log) {v : Val} {exp : Time}
    (hc : Car s (v, exp)) (hv : v ≠ 0) :
    (∃ t, Ev.setExp t v exp ∈ s.log) ∧ ∀ t' exp', Ev.setExp t' v exp' ∈ s.log → exp' = exp := by
  rcases expInv_reach hr (v, exp) hc with ⟨h0, _⟩ | ⟨t, ht⟩
  · exact absurd h0 hv
  · exact ⟨⟨t, ht⟩, fun t' exp' h' => setExp_unique hr hf h' ht⟩

/-- the store instance of `exp_of_value` -/
theorem exp_of_value_store {cfg : Cfg} {s : State} (hr : Reach cfg s) (hf : Fresh s.log) {k : Hash} {e : Entry}
    (hl : s.store.lookup k = some e) (hv : e.value ≠ 0) :
    (∃ t, Ev.setExp t e.value e.exp ∈ s.log) ∧ ∀ t' exp', Ev.setExp t' e.value exp' ∈ s.log → exp' = e.exp :=
  exp_of_value hr hf (.store k e hl rfl) hv

/-- … and an entry that does expire was stamped by a `SetWithTTL`, whatever its value -/
theorem exp_of_entry {cfg : Cfg} {s : State} (hr : Reach cfg s) {k : Hash} {e : Entry}
    (hl : s.store.lookup k = some e) (hz : e.exp ≠ Gen.zeroTime) : ∃ t, Ev.setExp t e.value e.exp ∈ s.log := by
  rcases expInv_reach hr (e.value, e.exp) (.store k e hl rfl) with ⟨_, h0⟩ | h
  · exact absurd h0 hz
  · exact h

/-! ## (c) never after -/

/-- a logged value is not the zero value -/
theorem logged_value_ne_zero {cfg : Cfg} {s : State} (hr : Reach cfg s) (hf : Fresh s.log) {t : Tid} {v : Val}
    {e : Time} (h : Ev.setExp t v e ∈ s.log) : v ≠ 0 := (setExp_of_call hr hf h).1

theorem notAfter_contra {cfg : Cfg} {s : State} (hr : Reach cfg s) (hf : Fresh s.log) {tl : List Ev}
    (hsub : ∀ e ∈ tl, e ∈ s.log) {now : Time} {v : Val} (hna : NotAfter tl now v) {t' : Tid} {exp : Time}
    (hexp : Ev.setExp t' v exp ∈ s.log) (hz : exp ≠ Gen.zeroTime) (hlt : exp < now) : False := by
  obtain ⟨exp', hlg, hle⟩ := hna
  rcases hlg with ⟨h0, _⟩ | ⟨t'', hset⟩
  · exact logged_value_ne_zero hr hf hexp h0
  · have : exp = exp' := setExp_unique hr hf hexp (hsub _ hset)
    subst this
    rcases hle with hle | hle
    · exact hz hle
    · exact absurd hlt (Int.not_lt.mpr hle)

/-- **Get never serves an item after its expiration.**  If a `Get` call of thread `t` started at clock
`now` (`getCall`) and returned the value `v` (`getRet … (some v)`, the first one after that call),
and `v` was supplied by a `SetWithTTL` whose expiration instant `exp` is set and lies before `now`:
contradiction — whether or not the sweep has run, whatever was re-written in between. -/
theorem c07_never_after {cfg : Cfg} {s : State} (hr : Reach cfg s) (hf : Fresh s.log)
    {t t' : Tid} {h : Hash} {c : Conf} {v : Val} {now exp : Time} {l1 l2 l3 : List Ev}
    (hlog : s.log = l3 ++ Ev.getRet t h c (some v) :: (l2 ++ Ev.getCall t h c now :: l1))
    (hl2 : ∀ h' c' now', Ev.getCall t h' c' now' ∉ l2)
    (hexp : Ev.setExp t' v exp ∈ s.log) (hz : exp ≠ Gen.zeroTime) (hlt : exp < now) : False := by
  have hq := (readInv_reach hr).get l3 _ hlog
  have hopen : OpenCall (IsGetCall t) (l2 ++ Ev.getCall t h c now :: l1) (.getCall t h c now) :=
    ⟨l2, l1, rfl, fun y hy ⟨h', c', now', e⟩ => hl2 h' c' now' (e ▸ hy)⟩
  have hna := hq t h c v _ now rfl hopen
  refine notAfter_contra hr hf (fun e he => ?_) hna hexp hz hlt
  rw [hlog]; exact List.mem_append_right _ (List.mem_cons_of_mem _ he)

/-- **IterValues never visits an item after its expiration** (same statement for every value the
callback was given by an `IterValues` call that started at `now`). -/
theorem c07_never_after_iter {cfg : Cfg} {s : State} (hr : Reach cfg s) (hf : Fresh s.log)
    {t t' : Tid} {seen : List Val} {v : Val} {now exp : Time} {l1 l2 l3 : List Ev}
    (hlog : s.log = l3 ++ Ev.iterRet t seen :: (l2 ++ Ev.iterCall t now :: l1))
    (hl2 : ∀ now', Ev.iterCall t now' ∉ l2) (hv : v ∈ seen)
    (hexp : Ev.setExp t' v exp ∈ s.log) (hz : exp ≠ Gen.zeroTime) (hlt : exp < now) : False := by
  have hq := (readInv_reach hr).iter l3 _ hlog
  have hopen : OpenCall (IsIterCall t) (l2 ++ Ev.iterCall t now :: l1) (.iterCall t now) :=
    ⟨l2, l1, rfl, fun y hy ⟨now', e⟩ => hl2 now' (e ▸ hy)⟩
  have hna := hq t seen _ now rfl hopen v hv
  refine notAfter_contra hr hf (fun e he => ?_) hna hexp hz hlt
  rw [hlog]; exact List.mem_append_right _ (List.mem_cons_of_mem _ he)

/-- **GetTTL** (the entry it reads): if the entry `e` read by a `GetTTL` that started at `now` carries
an expiration that is set and before `now`, the call answers `(0, false)` at its expiry check —
it never reaches the part that reports a remaining time.  (`exp_of_entry` ties `e.exp` to the
`setExp` event of `e.value`.) -/
theorem c07_never_after_ttl {cfg : Cfg} {s : State} (hr : Reach cfg s) {t : Tid} {h : Hash} {c : Conf} {e : Entry}
    (hpc : s.cl t = .ttlCheck h c (some e)) (hz : e.exp ≠ Gen.zeroTime) :
    (∃ now, OpenCall (IsTtlCall t) s.log (.ttlCall t h c now) ∧ now ≤ s.clock ∧
      (e.exp < now → stTtlCheck s t h c (some e) = logEv (setCl s t .idle) (.ttlRet t h c 0 false))) ∧
    ∃ t', Ev.setExp t' e.value e.exp ∈ s.log := by
  have hp := (readInv_reach hr).pc t
  rw [hpc] at hp
  obtain ⟨now, hopen⟩ := hp
  have hn : now ≤ s.clock := callNow_reach hr _ hopen.mem now rfl
  refine ⟨⟨now, hopen, hn, fun hlt => ?_⟩, ?_⟩
  · have hx : getExpired e.exp s.clock = true := by
      simp only [getExpired, Bool.and_eq_true, Bool.not_eq_eq_eq_not, Bool.not_true, beq_eq_false_iff_ne,
        decide_eq_true_eq]
      exact ⟨hz, Int.lt_of_lt_of_le hlt hn⟩
    have : getResult c (some e) s.clock = none := by
      unfold getResult; dsimp only; split
      · rfl
      · rfl
    unfold stTtlCheck; rw [this]
  · rcases expInv_reach hr (e.value, e.exp) (.cl t (by rw [hpc]; simp [cpcCar])) with ⟨_, h0⟩ | h'
    · exact absurd h0 hz
    · exact h'

/-! ## (d) the TTL alone never hides an item before its expiration -/

/-- The check of `lockedMap.get`: an entry with matching conflict whose expiration is unset or not
yet passed (`clock ≤ exp`: it is still served at `clock = exp` exactly) is returned. -/
theorem c07_not_before {c : Conf} {e : Entry} {clock : Time} (hc : getConflictMismatch c e.conflict = false)
    (h : e.exp = Gen.zeroTime ∨ clock ≤ e.exp) : getResult c (some e) clock = some e.value := by
  have hx : getExpired e.exp clock = false := by
    simp only [getExpired, Bool.and_eq_false_imp, Bool.not_eq_eq_eq_not, Bool.not_true, beq_eq_false_iff_ne,
      decide_eq_false_iff_not, Int.not_lt]
    intro hz
    rcases h with h | h
    · exact absurd h hz
    · exact h
  unfold getResult; simp [hc, hx]

/-- … as a statement about the `Get` step that compares with the clock. -/
theorem c07_not_before_step (s : State) (t : Tid) (h : Hash) (c : Conf) (e : Entry)
    (hc : getConflictMismatch c e.conflict = false) (hexp : e.exp = Gen.zeroTime ∨ s.clock ≤ e.exp) :
    stGetCheck s t h c (some e) = setCl s t (.getMetric h c (some e.value)) := by
  unfold stGetCheck; rw [c07_not_before hc hexp]

/-- the seen list only grows -/
theorem iterVisit_seen_sub {st : Store} {now : Time} {n : Nat} {ks : List Hash} {seen : List Val} {v : Val}
    (hv : v ∈ seen) : v ∈ (iterVisit st now n ks seen).1 := by
  induction ks generalizing seen with
  | nil => exact hv
  | cons k rest ih =>
    unfold iterVisit
    split
    · exact ih hv
    · split
      · exact ih hv
      · dsimp only
        split
        · exact List.mem_append_left _ hv
        · exact ih (List.mem_append_left _ hv)

/-- IterValues (callback never asks to stop): every entry of the enumerated shard whose expiration is
unset or not yet passed at the shard's clock read is handed to the callback. -/
theorem c07_not_before_iter {st : Store} {now : Time} {ks : List Hash} {seen : List Val} {k : Hash} {e : Entry}
    (hk : k ∈ ks) (hl : st.lookup k = some e) (hexp : e.exp = Gen.zeroTime ∨ now ≤ e.exp) :
    e.value ∈ (iterVisit st now 0 ks seen).1 := by
  have hx : iterExpired e.exp now = false := by
    simp only [iterExpired, Bool.and_eq_false_imp, Bool.not_eq_eq_eq_not, Bool.not_true, beq_eq_false_iff_ne,
      decide_eq_false_iff_not, Int.not_lt]
    intro hz
    rcases hexp with h | h
    · exact absurd h hz
    · exact h
  induction ks generalizing seen with
  | nil => simp at hk
  | cons k' rest ih =>
    unfold iterVisit
    rcases List.mem_cons.mp hk with rfl | hk
    · simp only [hl, hx]
      simp only [Bool.false_eq_true, ↓reduceIte, ne_eq, not_true_eq_false, false_and]
      exact iterVisit_seen_sub (by simp)
    · split
      · exact ih hk
      · split
        · exact ih hk
        · dsimp only
          simp only [ne_eq, not_true_eq_false, false_and, ↓reduceIte]
          exact ih hk

/-! ## (e) GetTTL's answer -/

/-- **`GetTTL = (d, true)`**: either `d = 0` (no expiry — or the clock reached the expiration exactly
at the last read), or `d` was computed as `exp − clock₃` from an expiration `exp ≠ zeroTime` that was
stamped by a `SetWithTTL` (`setExp t' v exp`), that is not before the start `now` of the call
(`now ≤ exp`), `d ≤ exp − now`, and — under `Fresh` — `d` is at most the ttl given to that
`SetWithTTL`.  Note: `d` comes from a clock read *after* the expiry comparison, so `d ≤ 0` with
`ok = true` is possible when the clock passes `exp` between the two reads (the model keeps both reads). -/
theorem c07_getttl_bound {cfg : Cfg} {s : State} (hr : Reach cfg s)
    {t : Tid} {h : Hash} {c : Conf} {d : Int} {now : Time} {l1 l2 l3 : List Ev}
    (hlog : s.log = l3 ++ Ev.ttlRet t h c d true :: (l2 ++ Ev.ttlCall t h c now :: l1))
    (hl2 : ∀ h' c' now', Ev.ttlCall t h' c' now' ∉ l2) :
    d = 0 ∨ ∃ t' v exp, Ev.setExp t' v exp ∈ s.log ∧ exp ≠ Gen.zeroTime ∧ now ≤ exp ∧ d ≤ exp - now ∧
      (Fresh s.log → ∃ h' c' cost ttl, Ev.setCall t' h' c' v cost ttl ∈ s.log ∧ d ≤ ttl) := by
  have hq := (readInv_reach hr).ttl l3 _ hlog
  have hopen : OpenCall (IsTtlCall t) (l2 ++ Ev.ttlCall t h c now :: l1) (.ttlCall t h c now) :=
    ⟨l2, l1, rfl, fun y hy ⟨h', c', now', e⟩ => hl2 h' c' now' (e ▸ hy)⟩
  have hsub : ∀ e ∈ l2 ++ Ev.ttlCall t h c now :: l1, e ∈ s.log := fun e he => by
    rw [hlog]; exact List.mem_append_right _ (List.mem_cons_of_mem _ he)
  rcases hq t h c d _ now rfl hopen with h0 | ⟨t', v, exp, hset, hz, hle, hd, hb⟩
  · exact Or.inl h0
  · refine Or.inr ⟨t', v, exp, hsub _ hset, hz, hle, hd, fun hf => ?_⟩
    have hf' : Fresh (l2 ++ Ev.ttlCall t h c now :: l1) := by
      have : s.log = (l3 ++ [Ev.ttlRet t h c d true]) ++ (l2 ++ Ev.ttlCall t h c now :: l1) := by simp [hlog]
      rw [this] at hf; exact hf.suffix
    obtain ⟨h', c', cost, ttl, hcall, hb⟩ := hb hf'
    exact ⟨h', c', cost, ttl, hsub _ hcall, hb⟩

/-! ## (f) negative ttl -/

/-- `SetWithTTL` with a negative ttl returns false and does nothing else: the step that would read
the clock logs `setRet t v false`, the thread is back at idle, and store, expiry index, policy,
metrics, write buffer and applier are untouched; no `setExp` is logged (no expiration is
computed), nothing is buffered. -/
theorem c07_negative_ttl (s : State) (t : Tid) (h : Hash) (c : Conf) (v : Val) (cost ttl : Int) (hneg : ttl < 0) :
    stSetStart s t h c v cost ttl = logEv (setCl s t .idle) (.setRet t v false) ∧
    (stSetStart s t h c v cost ttl).log = .setRet t v false :: s.log ∧
    (stSetStart s t h c v cost ttl).cl t = .idle ∧
    (stSetStart s t h c v cost ttl).store = s.store ∧ (stSetStart s t h c v cost ttl).em = s.em ∧
    (stSetStart s t h c v cost ttl).pol = s.pol ∧ (stSetStart s t h c v cost ttl).buf = s.buf ∧
    (stSetStart s t h c v cost ttl).sendq = s.sendq ∧ (stSetStart s t h c v cost ttl).app = s.app := by
  have h1 : ttlNone ttl = false := by simp [ttlNone]; omega
  have h2 : ttlNegative ttl = true := by simp [ttlNegative]; exact hneg
  have : stSetStart s t h c v cost ttl = logEv (setCl s t .idle) (.setRet t v false) := by
    unfold stSetStart; split
    · rfl
    · simp [h1]
  rw [this]
  exact ⟨rfl, rfl, by simp [logEv], rfl, rfl, rfl, rfl, rfl, rfl⟩

/-! ## (g) ttl = 0 means no expiry -/

/-- An item written with `ttl = 0` is stamped `zeroTime`; such an entry never counts as expired, for
`Get`, `IterValues` and the sweep alike; and `GetTTL` answers `(0, true)` for it. -/
theorem c07_zero_ttl_no_expiry :
    (∀ (s : State) t h c v cost, s.closed = false →
      stSetStart s t h c v cost 0 =
        logEv (setCl s t (.setUpd ⟨.new, h, c, v, cost, Gen.zeroTime⟩)) (.setExp t v Gen.zeroTime)) ∧
    (∀ clock, getExpired Gen.zeroTime clock = false) ∧
    (∀ clock, iterExpired Gen.zeroTime clock = false) ∧
    (∀ now, sweepSkip Gen.zeroTime now = true) ∧
    (∀ (s : State) t h c, expirationOf s.store h = Gen.zeroTime →
      stTtlExp s t h c = logEv (setCl s t .idle) (.ttlRet t h c 0 true)) := by
  refine ⟨?_, ?_, ?_, ?_, ?_⟩
  · intro s t h c v cost hcl
    unfold stSetStart; simp [hcl, ttlNone]
  · intro clock; simp [getExpired]
  · intro clock; simp [iterExpired]
  · intro now; simp [sweepSkip]
  · intro s t h c hz
    unfold stTtlExp; simp [hz, getTTLNoExpiry]

/-! ## Non-vacuity: concrete runs -/

def exCfg : Cfg :=
  { bufCap := 4, ignoreInternal := true, costFn := none, shouldUpdate := none, metricsOn := false, maxCost := 100 }

/-- `SetWithTTL(1, 7, cost 1, ttl 1s)` at clock 0, applied and admitted -/
def exSet : List Action :=
  [.spawn 0 (.set 1#64 0#64 7 1 1000000000), .client 0 .none, .client 0 .none, .client 0 .none, .client 0 .none,
   .applier .selItem, .applier .none, .applier (.add [] true), .applier .none]

def exGet (t : Tid) : List Action :=
  [.spawn t (.get 1#64 0#64), .client t .none, .client t .none, .client t .none, .client t .none]

def exGetTTL (t : Tid) : List Action :=
  [.spawn t (.getTTL 1#64 0#64), .client t .none, .client t .none, .client t .none, .client t .none, .client t .none]

/-- a `GetTTL` that finds the entry expired at its first check -/
def exGetTTLMiss (t : Tid) : List Action :=
  [.spawn t (.getTTL 1#64 0#64), .client t .none, .client t .none]

/-- the first two of the 256 shard steps of an `IterValues` (key 1 lives in shard 1) -/
def exIter (t : Tid) : List Action :=
  [.spawn t (.iter 0), .client t .none, .client t (.order []), .client t (.order [1#64])]

/-- (c, d) A `Get` at clock = exp exactly is served (boundary), a `Get` 1 ns later is not — with the
sweep never having run; the log is `Fresh` and has the shape required by `c07_never_after`. -/
example :
    (run exCfg (init exCfg 0) (exSet ++ [.tick 1000000000] ++ exGet 1 ++ [.tick 1] ++ exGet 2)).map
      (fun s => (s.log.take 5, decide (Fresh s.log), decide (Ev.setExp 0 7 1000000000 ∈ s.log), s.store.lookup 1#64)) =
    some ([.getRet 2 1#64 0#64 none, .getCall 2 1#64 0#64 1000000001, .getRet 1 1#64 0#64 (some 7),
           .getCall 1 1#64 0#64 1000000000, .setRet 0 7 true], true, true, some ⟨0#64, 7, 1000000000⟩) := by
  decide

/-- (e) `GetTTL` half-way: `(0.5 s, true)`, `d ≤ ttl`; after expiry `(0, false)`. -/
example :
    (run exCfg (init exCfg 0) (exSet ++ [.tick 500000000] ++ exGetTTL 1 ++ [.tick 600000000] ++ exGetTTLMiss 2)).map
      (fun s => s.log.take 4) =
    some [.ttlRet 2 1#64 0#64 0 false, .ttlCall 2 1#64 0#64 1100000000, .ttlRet 1 1#64 0#64 500000000 true,
          .ttlCall 1 1#64 0#64 500000000] := by
  decide

/-- (e) the model keeps the two last clock reads of `GetTTL` apart: the clock passes `exp` between the
expiry comparison and `time.Until`: the answer is `(-1 ns, true)`. -/
example :
    (run exCfg (init exCfg 0) (exSet ++ [.tick 1000000000] ++ (exGetTTL 1).take 5 ++ [.tick 1, .client 1 .none])).map
      (fun s => s.log.head?) = some (some (.ttlRet 1 1#64 0#64 (-1) true)) := by
  decide

/-- (c, d) `IterValues` at clock = exp visits the item, 1 ns later it does not (sweep not run):
the values seen after the shard holding key 1. -/
example :
    (run exCfg (init exCfg 0) (exSet ++ [.tick 1000000000] ++ exIter 1 ++ [.tick 1] ++ exIter 2)).map
      (fun s => (s.cl 1, s.cl 2, s.log.take 2)) =
    some (.iterShard 2 0 [7], .iterShard 2 0 [], [.iterCall 2 1000000001, .iterCall 1 1000000000]) := by
  decide

/-- (f) negative ttl: `false`, nothing logged but the return, nothing buffered. -/
example :
    (run exCfg (init exCfg 0) [.spawn 0 (.set 1#64 0#64 7 1 (-5)), .client 0 .none]).map
      (fun s => (s.log, s.buf.length, s.store.lookup 1#64)) =
    some ([.setRet 0 7 false, .setCall 0 1#64 0#64 7 1 (-5)], 0, none) := by
  decide

/-- (g) `ttl = 0`: stamped `zeroTime`; a year later `Get` still serves it and `GetTTL` answers `(0, true)`. -/
example :
    (run exCfg (init exCfg 0)
      ([.spawn 0 (.set 1#64 0#64 7 1 0), .client 0 .none, .client 0 .none, .client 0 .none, .client 0 .none,
        .applier .selItem, .applier .none, .applier (.add [] true), .applier .none, .tick 31536000000000000] ++
       exGet 1 ++ [.spawn 2 (.getTTL 1#64 0#64), .client 2 .none, .client 2 .none, .client 2 .none])).map
      (fun s => (s.log.take 4, s.store.lookup 1#64)) =
    some ([.ttlRet 2 1#64 0#64 0 true, .ttlCall 2 1#64 0#64 31536000000000000, .getRet 1 1#64 0#64 (some 7),
           .getCall 1 1#64 0#64 31536000000000000], some ⟨0#64, 7, Gen.zeroTime⟩) := by
  decide

end RV.C07
