import RV.Gen.CacheFlow
/-!
# Control-flow skeletons of policy.go (policy, sampledLFU, tinyLFU) and ring.go

The order of the atomic actions (store / policy / expiry-index calls, callbacks, channel and lock
operations, clock reads, returns) of each function below is what the hand-written models
mirror.  `Gen.CacheFlow.*` is re-extracted from /repo on every run (`go2lean/flow.go`); the
theorems state, by `rfl`, that each flow is still the sequence the model was written against.
A reordered, removed or added action breaks the corresponding theorem.
-/
namespace RV.FlowPolicy

/-- actions of defaultPolicy.Add in source order -/
theorem flow_policyAdd : Gen.CacheFlow.policyAdd = [
  "call p.Lock", "defer p.Unlock", "call p.evict.getMaxCost", "if{",
  "return", "}", "call p.evict.updateIfHas", "if{",
  "return", "}", "call p.evict.roomLeft", "if{",
  "call p.evict.add", "call p.metrics.add", "return", "}",
  "call p.admit.Estimate", "call make", "call make", "for{",
  "call p.evict.fillSample", "range sample{", "call p.admit.Estimate", "}",
  "if{", "call p.metrics.add", "return", "}",
  "call p.evict.del", "call p.evict.roomLeft", "}", "call p.evict.add",
  "call p.metrics.add", "return"] := rfl

/-- actions of defaultPolicy.Del in source order -/
theorem flow_policyDel : Gen.CacheFlow.policyDel = [
  "call p.Lock", "call p.evict.del", "call p.Unlock"] := rfl

/-- actions of defaultPolicy.Update in source order -/
theorem flow_policyUpdate : Gen.CacheFlow.policyUpdate = [
  "call p.Lock", "call p.evict.updateIfHas", "call p.Unlock"] := rfl

/-- actions of defaultPolicy.Clear in source order -/
theorem flow_policyClear : Gen.CacheFlow.policyClear = [
  "call p.Lock", "call p.admit.clear", "call p.evict.clear", "call p.Unlock"] := rfl

/-- actions of defaultPolicy.Cap in source order -/
theorem flow_policyCap : Gen.CacheFlow.policyCap = [
  "call p.Lock", "call p.evict.getMaxCost", "call p.Unlock", "return"] := rfl

/-- actions of defaultPolicy.Cost in source order -/
theorem flow_policyCost : Gen.CacheFlow.policyCost = [
  "call p.Lock", "if{", "call p.Unlock", "return",
  "}", "call p.Unlock", "return"] := rfl

/-- actions of defaultPolicy.Push in source order -/
theorem flow_policyPush : Gen.CacheFlow.policyPush = [
  "if{", "return", "}", "if{",
  "return", "}", "select{", "case:",
  "send p.itemsCh", "call p.metrics.add", "return", "default:",
  "call p.metrics.add", "return", "}"] := rfl

/-- actions of defaultPolicy.processItems in source order -/
theorem flow_policyProcess : Gen.CacheFlow.policyProcess = [
  "for{", "select{", "case:", "recv p.itemsCh",
  "call p.Lock", "call p.admit.Push", "call p.Unlock", "case:",
  "recv p.stop", "send p.done", "return", "}",
  "}"] := rfl

/-- actions of sampledLFU.del in source order -/
theorem flow_evictDel : Gen.CacheFlow.evictDel = [
  "if{", "return", "}", "write p.used",
  "call delete", "call p.metrics.add", "call p.metrics.add"] := rfl

/-- actions of sampledLFU.add in source order -/
theorem flow_evictAdd : Gen.CacheFlow.evictAdd = [
  "write p.keyCosts", "write p.used"] := rfl

/-- actions of sampledLFU.updateIfHas in source order -/
theorem flow_evictUpdateIfHas : Gen.CacheFlow.evictUpdateIfHas = [
  "if{", "call p.metrics.add", "if{", "call p.metrics.add",
  "}else{", "if{", "call p.metrics.add", "}",
  "}", "write p.used", "write p.keyCosts", "return",
  "}", "return"] := rfl

/-- actions of tinyLFU.Increment in source order -/
theorem flow_tinyIncrement : Gen.CacheFlow.tinyIncrement = [
  "call p.door.AddIfNotHas", "if{", "call p.freq.Increment", "}",
  "incdec p.incrs", "if{", "call p.reset", "}"] := rfl

/-- actions of tinyLFU.Estimate in source order -/
theorem flow_tinyEstimate : Gen.CacheFlow.tinyEstimate = [
  "call p.freq.Estimate", "call p.door.Has", "if{", "incdec hits",
  "}", "return"] := rfl

/-- actions of tinyLFU.reset in source order -/
theorem flow_tinyReset : Gen.CacheFlow.tinyReset = [
  "write p.incrs", "call p.door.Clear", "call p.freq.Reset"] := rfl

/-- actions of ringStripe.Push in source order -/
theorem flow_ringPush : Gen.CacheFlow.ringPush = [
  "write s.data", "if{", "call s.cons.Push", "if{",
  "call make", "write s.data", "}else{", "write s.data",
  "}", "}"] := rfl

end RV.FlowPolicy
