import RV.Props.C04
import RV.Proofs.CacheConserveOwn
import RV.Proofs.CacheAcctRun
/-!
# C04, the positive half — "at least once": nothing is lost

Theorems about `RV/Model/Cache.lean` for every configuration, any number of clients, every
interleaving (`Reach cfg s`).  Hypotheses: `C04.CollisionFree s.log` (all `Set`/`Del` calls for one
primary hash carry the same conflict hash — without it finding F8 loses values, see
`conserve_collision_counterexample`, `conserve_overwrite_counterexample`), and `Fresh s.log` where a value has to identify its `Set` call.

* `Held s v` (`RV/Proofs/CacheConserveDefs.lean`, spelled out by `held_iff`): `v` is the value of a
  store entry, of a buffered / blocked **new** item, of the applier's local data (new item being
  processed, or a value between its removal from the store and its callback), or of a client's local
  data (`Set` before its buffer send; `prev` between `store.Update`/`store.Del` and `OnExit(prev)`).
  Update items and tombstones hold nothing (an update item's value is in the store).
* `conserve_tracked` — **conservation**: every non-zero value supplied by a logged `Set` call was
  passed to `OnExit`, or its `Set` returned false, or it is `Held`.  (No freshness needed.)
* `conserve` — under `Fresh`: a value whose `Set` returned true was passed to `OnExit` or is `Held`;
  `c04_held_not_exited`: the two are exclusive (and a refused value is not held).
* `c04_quiescent_exactly_once`, `c04_close_exactly_once`, `c04_clear_exactly_once` — in a state where
  nothing is held (store, buffer, blocked senders empty; applier dead / idle; every client idle) every
  accepted value has exactly one `exit` event.  These are the facts `C15.c15_close_empty` proves for
  every state reached by an un-overlapped `Close` (`ReachX`, `closed = true`), resp. `C15.c15_clear_fresh`
  + `c15_fresh_equiv` for an un-overlapped `Clear` with every other client idle.  They are hypotheses
  here because the C15 development (`RV/Proofs/CacheLive*.lean`) and the C04/C13 developments cannot be
  imported into one Lean environment (clashing helper names `RV.Cache.Own`, `RV.Cache.Fresh`,
  `RV.Cache.shardIdx_lt`); the example at the end evaluates a complete un-overlapped `Close`.

What makes conservation true (and where it would fail): the only step that can drop a value is the
applier's `store.Set` for an admitted new item — on a conflict mismatch or a `ShouldUpdate` refusal the
new value vanishes, otherwise a resident value is overwritten, in both cases without any callback
(`lockedMap.Set` in store.go).  For collision-free runs that step always finds its key absent
(`addedFresh_reachC`, from the store/policy consistency invariant of C13), so neither happens.
-/
namespace RV.C04Conserve
open RV RV.Cache

/-- the two formulations of collision-freedom (C04's and C13's) agree -/
theorem collisionFree_iff (log : List Ev) : C04.CollisionFree log ↔ Cache.CollisionFree log := by
  have key : ∀ (e : Ev) (x : Hash) (c : Conf), callHC e = some (x, c) ↔
      ((∃ t v k l, e = Ev.setCall t x c v k l) ∨ (∃ t, e = Ev.delCall t x c)) := by
    intro e x c
    constructor
    · intro h
      cases e <;> simp only [callHC, Option.some.injEq, Prod.mk.injEq, reduceCtorEq] at h
      · obtain ⟨rfl, rfl⟩ := h; exact Or.inl ⟨_, _, _, _, rfl⟩
      · obtain ⟨rfl, rfl⟩ := h; exact Or.inr ⟨_, rfl⟩
    · rintro (⟨t, v, k, l, rfl⟩ | ⟨t, rfl⟩) <;> rfl
  constructor
  · intro h e1 he1 e2 he2 x c1 c2 h1 h2
    exact h e1 he1 e2 he2 x c1 c2 ((key _ _ _).mp h1) ((key _ _ _).mp h2)
  · intro h e1 he1 e2 he2 x c1 c2 h1 h2
    exact h e1 he1 e2 he2 x c1 c2 ((key _ _ _).mpr h1) ((key _ _ _).mpr h2)

/-- `Held`, spelled out -/
theorem held_iff (s : State) (v : Val) : Held s v ↔
    ((∃ h e, s.store.lookup h = some e ∧ e.value = v) ∨ (∃ x ∈ s.buf, holdE x = v) ∨
      (∃ p ∈ s.sendq, holdE p.2 = v) ∨ holdA s.app = v ∨ ∃ t, holdC (s.cl t) = v) := Iff.rfl

/-- **Conservation** (`conserve_tracked`): in every reachable state of a collision-free run, every non-zero
value that a logged `Set`/`SetWithTTL` call supplied was passed to `OnExit`, or its `Set` returned
false, or it is held somewhere (store / buffer / applier / a client).  Nothing is lost. -/
theorem conserve_tracked {cfg : Cfg} {s : State} (hr : Reach cfg s) (hcf : C04.CollisionFree s.log) {v : Val}
    (hv : v ≠ 0) (htr : ∃ t h c cost ttl, Ev.setCall t h c v cost ttl ∈ s.log) :
    Ev.exit v ∈ s.log ∨ (∃ t, Ev.setRet t v false ∈ s.log) ∨ Held s v :=
  conserved_reach hr ((collisionFree_iff _).mp hcf) hv htr

/-- `conserve`: under `Fresh`, a value whose `Set` returned true was passed to `OnExit` or is still held. -/
theorem conserve {cfg : Cfg} {s : State} (hr : Reach cfg s) (hf : Fresh s.log) (hcf : C04.CollisionFree s.log)
    {v : Val} (hv : v ≠ 0) {t : Tid} (ha : Ev.setRet t v true ∈ s.log) : Ev.exit v ∈ s.log ∨ Held s v :=
  accepted_exited_or_held hr hf ((collisionFree_iff _).mp hcf) hv ⟨t, ha⟩

/-- under `Fresh` the alternatives of `conserve_tracked` are exclusive: a held value has not been passed
to `OnExit` and was not refused ("never while still retrievable", for every place, not only the store) -/
theorem c04_held_not_exited {cfg : Cfg} {s : State} (hr : Reach cfg s) (hf : Fresh s.log) {v : Val} (hv : v ≠ 0)
    (hh : Held s v) : Ev.exit v ∉ s.log ∧ ∀ t, Ev.setRet t v false ∉ s.log :=
  ⟨fun hex => exited_not_held hr hf hv hex hh, fun _ hret => refused_not_held hr hf hv hret hh⟩

/-- a `Set` of a given value returns once: true and false exclude each other (under `Fresh`) -/
theorem c04_ret_once {cfg : Cfg} {s : State} (hr : Reach cfg s) (hf : Fresh s.log) {v : Val} (hv : v ≠ 0)
    {t t' : Tid} (h1 : Ev.setRet t v true ∈ s.log) : Ev.setRet t' v false ∉ s.log :=
  fun h2 => accepted_not_refused hr hv hf h1 h2

/-- **Exactly once in a quiescent state**: if the store, the buffer and the queue of blocked senders are
empty, the applier is idle or dead and every client is idle, then every value whose `Set` returned true
has exactly one `exit` event. -/
theorem c04_quiescent_exactly_once {cfg : Cfg} {s : State} (hr : Reach cfg s) (hf : Fresh s.log)
    (hcf : C04.CollisionFree s.log) (hst : s.store = AMap.empty) (hbuf : s.buf = []) (hsq : s.sendq = [])
    (happ : s.app = .idle ∨ s.app = .dead) (hidle : ∀ t, s.cl t = .idle) {v : Val} (hv : v ≠ 0) {t : Tid}
    (ha : Ev.setRet t v true ∈ s.log) : exitCnt v s.log = 1 := by
  have hA : holdA s.app = 0 := by rcases happ with h | h <;> rw [h] <;> rfl
  have hex : Ev.exit v ∈ s.log := by
    rcases conserve hr hf hcf hv ha with h | h
    · exact h
    · exact absurd h (quiescent_not_held hst hbuf hsq hA hidle hv)
  have h1 := (C04.c04_at_most_once hr hf hv).1
  have h2 := exitCnt_pos hex
  omega

/-- **`c04_close_exactly_once`**: after an un-overlapped `Close` has returned — the store, the buffer and the
queue of blocked senders are empty and the applier is dead (`C15.c15_close_empty` for `ReachX` states with
`closed = true`), every client idle — every value whose `Set` returned true has been passed to `OnExit`
exactly once. -/
theorem c04_close_exactly_once {cfg : Cfg} {s : State} (hr : Reach cfg s) (hf : Fresh s.log)
    (hcf : C04.CollisionFree s.log) (hst : s.store = AMap.empty) (hbuf : s.buf = []) (hsq : s.sendq = [])
    (hdead : s.app = .dead) (hidle : ∀ t, s.cl t = .idle) {v : Val} (hv : v ≠ 0) {t : Tid}
    (ha : Ev.setRet t v true ∈ s.log) : exitCnt v s.log = 1 :=
  c04_quiescent_exactly_once hr hf hcf hst hbuf hsq (Or.inr hdead) hidle hv ha

/-- the same after an un-overlapped `Clear` that began with no call in flight and has returned: the
restarted applier is idle, store and buffer are empty (`C15.c15_clear_fresh`), every client idle -/
theorem c04_clear_exactly_once {cfg : Cfg} {s : State} (hr : Reach cfg s) (hf : Fresh s.log)
    (hcf : C04.CollisionFree s.log) (hst : s.store = AMap.empty) (hbuf : s.buf = []) (hsq : s.sendq = [])
    (happ : s.app = .idle) (hidle : ∀ t, s.cl t = .idle) {v : Val} (hv : v ≠ 0) {t : Tid}
    (ha : Ev.setRet t v true ∈ s.log) : exitCnt v s.log = 1 :=
  c04_quiescent_exactly_once hr hf hcf hst hbuf hsq (Or.inl happ) hidle hv ha

/-! ## `CollisionFree` is necessary: finding F8 -/

theorem not_mem_of_ge4 {t : Tid} (ht : ¬ t < 4) : t ∉ [0, 1, 2, 3] := by
  intro hm
  simp only [List.mem_cons, List.not_mem_nil, or_false] at hm
  rcases hm with rfl | rfl | rfl | rfl <;> exact ht (by decide)

set_option maxRecDepth 100000 in
theorem f8_isSome : (run C04.cfg0 (init C04.cfg0 0) C04.f8Acts).isSome = true := by decide

set_option maxRecDepth 100000 in
theorem f8_shape : ((exState C04.cfg0 C04.f8Acts).store.toList.length, (exState C04.cfg0 C04.f8Acts).buf.length,
    (exState C04.cfg0 C04.f8Acts).sendq.length, holdA (exState C04.cfg0 C04.f8Acts).app,
    (List.range 4).all fun t => (exState C04.cfg0 C04.f8Acts).cl t == .idle) = (0, 0, 0, 0, true) := by decide

set_option maxRecDepth 100000 in
/-- `conserve_collision_counterexample` (finding F8 on the model): without `CollisionFree` conservation is
false.  Keys `a = 5/1`, `b = 5/2` share the primary hash: `Set(a,7)` applied, `Del(b)` applied (its tombstone
removes `a`'s cost accounting), `Set(b,9)` is admitted by the policy but `lockedMap.Set` silently refuses it
on the conflict mismatch, `Clear`.  `Set(b,9)` returned true, `OnExit(9)` was never called, and `9` is held
nowhere. -/
theorem conserve_collision_counterexample : ∃ s, Reach C04.cfg0 s ∧ Fresh s.log ∧ Ev.setRet 2 9 true ∈ s.log ∧
    Ev.exit 9 ∉ s.log ∧ ¬ Held s 9 := by
  have hrun := exState_run f8_isSome
  have hlog := C04.f8_log
  rw [hrun, Option.map_some] at hlog
  have hlog := Option.some.inj hlog
  have hsh := f8_shape
  simp only [Prod.mk.injEq] at hsh
  obtain ⟨h1, h2, h3, h4, h5⟩ := hsh
  have hidle : ∀ t, (exState C04.cfg0 C04.f8Acts).cl t = .idle := by
    intro t
    by_cases ht : t < 4
    · rw [List.all_eq_true] at h5
      simpa using h5 t (List.mem_range.mpr ht)
    · exact exState_idle [0, 1, 2, 3] f8_isSome (by decide) (not_mem_of_ge4 ht)
  refine ⟨_, exState_reach f8_isSome, ?_, ?_, ?_, ?_⟩
  · rw [hlog]; unfold Fresh; decide
  · rw [hlog]; decide
  · rw [hlog]; decide
  · exact quiescent_not_held (List.eq_nil_of_length_eq_zero h1) (List.eq_nil_of_length_eq_zero h2)
      (List.eq_nil_of_length_eq_zero h3) h4 hidle (by decide)

/-- the second way `lockedMap.Set` loses a value when primary hashes collide (keys `5/0`, `5/1`, `5/3`):
thread 1's `Set(5/0,9)` finds the key absent (`store.Update` fails) and is delayed before its buffer send;
`Set(5/1,7)` is applied; `Del(5/3)` is applied (its tombstone removes the accounting of hash 5, the store
refuses the delete on the conflict mismatch); now thread 1's new item is admitted by the policy and
`store.Set` (conflict 0 matches everything) **overwrites** the resident 7 without any callback; `Clear`. -/
def overwriteActs : List Action :=
  [.spawn 1 (.set 5#64 0#64 9 1 0), .client 1 .none, .client 1 .none] ++
  C04.setApplied 2 5#64 1#64 7 ++
  C04.delApplied 3 5#64 3#64 ++
  [.client 1 .none, .client 1 .none, .applier .selItem, .applier .none, .applier (.add [] true), .applier .none] ++
  C04.clearActs 4

set_option maxRecDepth 100000 in
theorem overwrite_isSome : (run C04.cfg0 (init C04.cfg0 0) overwriteActs).isSome = true := by decide

set_option maxRecDepth 100000 in
theorem overwrite_log : (exState C04.cfg0 overwriteActs).log =
    [.clearRet 4, .exit 9, .evict 5#64 0#64 9 0, .clearCall 4, .setRet 1 9 true,
     .exit 0, .delRet 3 5#64, .exit 0, .delCall 3 5#64 3#64,
     .setRet 2 7 true, .setExp 2 7 Gen.zeroTime, .setCall 2 5#64 1#64 7 1 0,
     .setExp 1 9 Gen.zeroTime, .setCall 1 5#64 0#64 9 1 0] := by decide

set_option maxRecDepth 100000 in
theorem overwrite_shape : ((exState C04.cfg0 overwriteActs).store.toList.length, (exState C04.cfg0 overwriteActs).buf.length,
    (exState C04.cfg0 overwriteActs).sendq.length, holdA (exState C04.cfg0 overwriteActs).app,
    (List.range 5).all fun t => (exState C04.cfg0 overwriteActs).cl t == .idle) = (0, 0, 0, 0, true) := by decide

theorem not_mem_of_ge5 {t : Tid} (ht : ¬ t < 5) : t ∉ [0, 1, 2, 3, 4] := by
  intro hm
  simp only [List.mem_cons, List.not_mem_nil, or_false] at hm
  rcases hm with rfl | rfl | rfl | rfl | rfl <;> exact ht (by decide)

set_option maxRecDepth 100000 in
/-- `conserve_overwrite_counterexample` (finding F8, second flavour): a resident value whose `Set` returned
true is overwritten by the applier's `store.Set` and is lost — never passed to `OnExit`, held nowhere —
although a `Clear` has run since. -/
theorem conserve_overwrite_counterexample : ∃ s, Reach C04.cfg0 s ∧ Fresh s.log ∧ Ev.setRet 2 7 true ∈ s.log ∧
    Ev.clearRet 4 ∈ s.log ∧ Ev.exit 7 ∉ s.log ∧ ¬ Held s 7 := by
  have hsh := overwrite_shape
  simp only [Prod.mk.injEq] at hsh
  obtain ⟨h1, h2, h3, h4, h5⟩ := hsh
  have hidle : ∀ t, (exState C04.cfg0 overwriteActs).cl t = .idle := by
    intro t
    by_cases ht : t < 5
    · rw [List.all_eq_true] at h5
      simpa using h5 t (List.mem_range.mpr ht)
    · exact exState_idle [0, 1, 2, 3, 4] overwrite_isSome (by decide) (not_mem_of_ge5 ht)
  refine ⟨_, exState_reach overwrite_isSome, ?_, ?_, ?_, ?_, ?_⟩
  · rw [overwrite_log]; unfold Fresh; decide
  · rw [overwrite_log]; decide
  · rw [overwrite_log]; decide
  · rw [overwrite_log]; decide
  · exact quiescent_not_held (List.eq_nil_of_length_eq_zero h1) (List.eq_nil_of_length_eq_zero h2)
      (List.eq_nil_of_length_eq_zero h3) h4 hidle (by decide)

/-! ## Non-vacuity -/

/-- in the end state of `C04.demoRun` all three alternatives of `conserve_tracked` occur: 7 (overwritten)
and 8 (rejected) were passed to `OnExit`, 9 is held by the store, 10 by the buffer, and the `Set` of 11
returned false (dropped on a full buffer) — the log is `Fresh` and `CollisionFree`. -/
example : ∃ s, Reach C04.cfg0 s ∧ Fresh s.log ∧ C04.CollisionFree s.log ∧
    (∀ v ∈ [7, 8, 9, 10, 11], ∃ t h c cost ttl, Ev.setCall t h c v cost ttl ∈ s.log) ∧
    Ev.exit 7 ∈ s.log ∧ Ev.exit 8 ∈ s.log ∧ Held s 9 ∧ Ev.exit 9 ∉ s.log ∧ Held s 10 ∧ Ev.exit 10 ∉ s.log ∧
    Ev.setRet 1 11 false ∈ s.log ∧ ¬ Held s 11 := by
  have hsome : (run C04.cfg0 (init C04.cfg0 0) C04.demoRun).isSome = true := by decide
  have hrun := exState_run hsome
  have hlog := C04.demo_log
  rw [hrun, Option.map_some] at hlog
  have hlog := Option.some.inj hlog
  have hst : (exState C04.cfg0 C04.demoRun).store.lookup 5#64 = some ⟨1#64, 9, Gen.zeroTime⟩ := by decide
  have hbuf : BufElem.item ⟨.new, 7#64, 1#64, 10, 1, Gen.zeroTime⟩ ∈ (exState C04.cfg0 C04.demoRun).buf := by decide
  have hr := exState_reach hsome
  have hf : Fresh (exState C04.cfg0 C04.demoRun).log := by rw [hlog]; unfold Fresh; decide
  refine ⟨_, hr, hf, ?_, ?_, ?_, ?_, ?_, ?_, ?_, ?_, ?_, ?_⟩
  · rw [collisionFree_iff, hlog]; exact cv_collisionFree_of_B (by decide)
  · rw [hlog]
    intro v hv
    simp only [List.mem_cons, List.not_mem_nil, or_false] at hv
    rcases hv with rfl | rfl | rfl | rfl | rfl
    · exact ⟨1, 5#64, 1#64, 1, 0, by decide⟩
    · exact ⟨1, 6#64, 1#64, 1000, 0, by decide⟩
    · exact ⟨1, 5#64, 1#64, 1, 0, by decide⟩
    · exact ⟨1, 7#64, 1#64, 1, 0, by decide⟩
    · exact ⟨1, 8#64, 1#64, 1, 0, by decide⟩
  · rw [hlog]; decide
  · rw [hlog]; decide
  · exact Or.inl ⟨5#64, _, hst, rfl⟩
  · rw [hlog]; decide
  · exact Or.inr (Or.inl ⟨_, hbuf, rfl⟩)
  · rw [hlog]; decide
  · rw [hlog]; decide
  · exact refused_not_held hr hf (by decide) (t := 1) (by rw [hlog]; decide)

/-- a complete `Close` by thread `t`: `drain` buffered elements, `ord k` the enumeration of shard `k` -/
def closeActs (t : Tid) (drain : Nat) (ord : Nat → List Hash) : List Action :=
  [.spawn t .close, .client t .none, .applier (.selStop t), .done t] ++
  List.replicate (drain + 1) (.client t .none) ++
  [.client t .none] ++
  (List.range 256).map (fun k => Action.client t (.order (ord k))) ++
  [.client t .none, .client t .none, .client t .none, .applier (.selStop t), .done t, .client t .none]

/-- `Set(5/1,7)` applied; `Set(6/1,8)` (cost above `MaxCost`) rejected; `Set(5/1,9)` overwrites 7 and its
update item is applied; `Del(5/1)` removes 9, its tombstone is applied; `Set(7/1,10)` applied;
`Set(9/1,12)` (cost 60) applied; `Set(10/1,13)` (cost 60) admitted after evicting key 9 (value 12);
`Set(8/1,11)` stays in the buffer; then an un-overlapped `Close` by thread 3 (drains 11, clears 10 and 13). -/
def closeDemo : List Action :=
  C04.setApplied 1 5#64 1#64 7 ++
  [.spawn 1 (.set 6#64 1#64 8 1000 0), .client 1 .none, .client 1 .none, .client 1 .none, .client 1 .none,
   .applier .selItem, .applier .none, .applier (.add [] false), .applier .none] ++
  [.spawn 1 (.set 5#64 1#64 9 1 0), .client 1 .none, .client 1 .none, .client 1 .none, .client 1 .none, .client 1 .none,
   .applier .selItem, .applier .none, .applier .none] ++
  C04.delApplied 2 5#64 1#64 ++
  C04.setApplied 1 7#64 1#64 10 ++
  [.spawn 1 (.set 9#64 1#64 12 60 0), .client 1 .none, .client 1 .none, .client 1 .none, .client 1 .none,
   .applier .selItem, .applier .none, .applier (.add [] true), .applier .none] ++
  [.spawn 1 (.set 10#64 1#64 13 60 0), .client 1 .none, .client 1 .none, .client 1 .none, .client 1 .none,
   .applier .selItem, .applier .none, .applier (.add [(9#64, 60)] true), .applier .none, .applier .none, .applier .none] ++
  [.spawn 1 (.set 8#64 1#64 11 1 0), .client 1 .none, .client 1 .none, .client 1 .none, .client 1 .none] ++
  closeActs 3 1 (fun k => if k = 7 then [7#64] else if k = 10 then [10#64] else [])

set_option maxRecDepth 100000 in
theorem closeDemo_isSome : (run C04.cfg0 (init C04.cfg0 0) closeDemo).isSome = true := by decide

set_option maxRecDepth 100000 in
theorem closeDemo_log : (exState C04.cfg0 closeDemo).log =
    [.closeRet 3, .exit 13, .evict 10#64 1#64 13 0, .exit 10, .evict 7#64 1#64 10 0, .exit 11, .evict 8#64 1#64 11 1,
     .closeCall 3,
     .setRet 1 11 true, .setExp 1 11 Gen.zeroTime, .setCall 1 8#64 1#64 11 1 0,
     .exit 12, .evict 9#64 1#64 12 60, .setRet 1 13 true, .setExp 1 13 Gen.zeroTime, .setCall 1 10#64 1#64 13 60 0,
     .setRet 1 12 true, .setExp 1 12 Gen.zeroTime, .setCall 1 9#64 1#64 12 60 0,
     .setRet 1 10 true, .setExp 1 10 Gen.zeroTime, .setCall 1 7#64 1#64 10 1 0,
     .exit 0, .delRet 2 5#64, .exit 9, .delCall 2 5#64 1#64,
     .setRet 1 9 true, .exit 7, .setExp 1 9 Gen.zeroTime, .setCall 1 5#64 1#64 9 1 0,
     .exit 8, .reject 6#64 1#64 8 1000, .setRet 1 8 true, .setExp 1 8 Gen.zeroTime, .setCall 1 6#64 1#64 8 1000 0,
     .setRet 1 7 true, .setExp 1 7 Gen.zeroTime, .setCall 1 5#64 1#64 7 1 0] := by decide

set_option maxRecDepth 100000 in
theorem closeDemo_shape : ((exState C04.cfg0 closeDemo).store.toList.length, (exState C04.cfg0 closeDemo).buf.length,
    (exState C04.cfg0 closeDemo).sendq.length, (exState C04.cfg0 closeDemo).closed,
    (List.range 4).all fun t => (exState C04.cfg0 closeDemo).cl t == .idle) = (0, 0, 0, true, true) := by decide

set_option maxRecDepth 100000 in
theorem closeDemo_dead : (match (exState C04.cfg0 closeDemo).app with | .dead => true | _ => false) = true := by decide

set_option maxRecDepth 100000 in
/-- the hypotheses of `c04_close_exactly_once` are satisfiable and the interesting case occurs: the end state
of `closeDemo` (an un-overlapped `Close` after an applied `Set`, a rejected one, an overwritten one, a `Del`, a
policy eviction, a resident entry and a buffered new item) is closed with empty store / buffer / queue, dead
applier, every client idle, its log is `Fresh` and `CollisionFree`, and the `Set`s of 7, 8, 9, 10, 11, 12, 13 all
returned true — so each of them has exactly one `exit` event (7: overwritten, 8: rejected, 9: `Del`,
12: evicted by the policy, 11: `Close`'s drain, 10 and 13: `Close`'s shard steps). -/
example : ∃ s, Reach C04.cfg0 s ∧ Fresh s.log ∧ C04.CollisionFree s.log ∧ s.closed = true ∧ s.store = AMap.empty ∧
    s.buf = [] ∧ s.sendq = [] ∧ s.app = .dead ∧ (∀ t, s.cl t = .idle) ∧
    (∀ v ∈ [7, 8, 9, 10, 11, 12, 13], Ev.setRet 1 v true ∈ s.log ∧ exitCnt v s.log = 1) := by
  have hsh := closeDemo_shape
  simp only [Prod.mk.injEq] at hsh
  obtain ⟨h1, h2, h3, h4, h5⟩ := hsh
  have hdead : (exState C04.cfg0 closeDemo).app = .dead := by
    have := closeDemo_dead
    split at this
    · assumption
    · cases this
  have hidle : ∀ t, (exState C04.cfg0 closeDemo).cl t = .idle := by
    intro t
    by_cases ht : t < 4
    · rw [List.all_eq_true] at h5
      simpa using h5 t (List.mem_range.mpr ht)
    · exact exState_idle [0, 1, 2, 3] closeDemo_isSome (by decide) (not_mem_of_ge4 ht)
  have hr := exState_reach closeDemo_isSome
  have hf : Fresh (exState C04.cfg0 closeDemo).log := by rw [closeDemo_log]; unfold Fresh; decide
  have hcf : C04.CollisionFree (exState C04.cfg0 closeDemo).log := by
    rw [collisionFree_iff, closeDemo_log]; exact cv_collisionFree_of_B (by decide)
  have hst := List.eq_nil_of_length_eq_zero h1
  have hbuf := List.eq_nil_of_length_eq_zero h2
  have hsq := List.eq_nil_of_length_eq_zero h3
  refine ⟨_, hr, hf, hcf, h4, hst, hbuf, hsq, hdead, hidle, fun v hv => ?_⟩
  have hacc : Ev.setRet 1 v true ∈ (exState C04.cfg0 closeDemo).log := by
    rw [closeDemo_log]
    simp only [List.mem_cons, List.not_mem_nil, or_false] at hv
    rcases hv with rfl | rfl | rfl | rfl | rfl | rfl | rfl <;> decide
  have hv0 : v ≠ 0 := by
    simp only [List.mem_cons, List.not_mem_nil, or_false] at hv
    rcases hv with rfl | rfl | rfl | rfl | rfl | rfl | rfl <;> decide
  exact ⟨hacc, c04_close_exactly_once hr hf hcf hst hbuf hsq hdead hidle hv0 hacc⟩

set_option maxRecDepth 100000 in
/-- the `Held` alternative of `conserve` is what remains of "released no later than the next `Clear`" in the
limbo race (`C04.c04_clear_limbo_counterexample`, finding F12): the `Clear` has returned, `OnExit(7)` has
not been called yet, but 7 is not lost — it is held by client 2 (between `store.Update` and `OnExit(prev)`). -/
example : ∃ s, Reach C04.cfg0 s ∧ Fresh s.log ∧ C04.CollisionFree s.log ∧ Ev.setRet 1 7 true ∈ s.log ∧
    Ev.clearRet 3 ∈ s.log ∧ Ev.exit 7 ∉ s.log ∧ Held s 7 ∧ holdC (s.cl 2) = 7 := by
  have hsome : (run C04.cfg0 (init C04.cfg0 0) C04.limboActs).isSome = true := by decide
  have hrun := exState_run hsome
  have hlog := C04.limbo_log
  rw [hrun, Option.map_some] at hlog
  have hlog := Option.some.inj hlog
  have hcl : holdC ((exState C04.cfg0 C04.limboActs).cl 2) = 7 := by decide
  refine ⟨_, exState_reach hsome, ?_, ?_, ?_, ?_, ?_, Or.inr (Or.inr (Or.inr (Or.inr ⟨2, hcl⟩))), hcl⟩
  · rw [hlog]; unfold Fresh; decide
  · rw [collisionFree_iff, hlog]; exact cv_collisionFree_of_B (by decide)
  · rw [hlog]; decide
  · rw [hlog]; decide
  · rw [hlog]; decide

end RV.C04Conserve
