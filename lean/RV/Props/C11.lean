import RV.Proofs.BufferSortTop
import RV.Proofs.BufferFast
/-!
# C11 — z.Buffer returns what was written, in order, and sorts correctly

Property theorems only (helper lemmas live in `RV/Proofs/Buffer*.lean`).  The model
is `RV/Model/Buffer.lean`; every comparison and every piece of offset / capacity
arithmetic in it is a kernel regenerated from z/buffer.go on every run
(`Gen.Buffer.*`), including the byte order and the width of the length prefix.

Reading guide.
* `WF b`: `data` is the used prefix, `padding ≤ offset ≤ curSz`, sizes `< 2^62`.
* `Room b n` / `Fits b ops`: no Go `int` overflow while growing (`8·curSz + 8·n + 128 < 2^62`
  before every call) — an explicit hypothesis: real buffers are below 2^59 bytes.
* calloc / mmap / the automatic switch differ only in `mode`; none of the theorems
  restricts the mode, the threshold or the initial capacity.
* Assumed (not modelled): what mmap/mremap/ftruncate/msync do, that `Calloc` zeroes,
  that `sort.Slice` meets `SortContract`.  (`merge` is modelled in place; that it never
  overwrites the unread part of its right run is proved: `merge_inplace_refines`.)
-/
namespace RV.C11
open RV.Buffer Gen.Buffer

/-! ## The length prefix -/

/-- `writeLen(n)` stores 8 bytes from which both `Slice` and `rawSlice` read `n` back,
for every length that fits a `uint64` (in particular every `n < 2^63`). -/
theorem prefix_roundtrip (n : Nat) (hn : n < 2 ^ 64) (rest : Bytes) :
    ∃ pre, lenPrefix n = some pre ∧ pre.length = 8 ∧
      (getU64 sliceBigEndian (pre ++ rest)).toNat = n ∧
      (getU64 rawSliceBigEndian (pre ++ rest)).toNat = n := by
  refine ⟨be64 (w n), lenPrefix_eq n, be64_length _, ?_, ?_⟩
  · rw [getU64_slice_be64, toNat_w n hn]
  · rw [getU64_raw_be64, toNat_w n hn]

example : lenPrefix 258 = some [0, 0, 0, 0, 0, 0, 1, 2] := by decide

/-! ## Grow -/

/-- Every successful `Grow(n)` — early return, calloc reallocation, calloc→mmap switch,
mmap truncation — keeps the used prefix and the offset, never shrinks, and leaves room
for `n` more bytes (`offset + n ≤ curSz`). -/
theorem grow_preserves (b : Buf) (n : Nat) (h : WF b) (hr : Room b n) (b' : Buf)
    (hg : grow b n = .ok b') :
    b'.data = b.data ∧ bytes b' = bytes b ∧ b'.offset = b.offset ∧ b.offset + n ≤ b'.curSz ∧
      b.curSz ≤ b'.curSz ∧ WF b' := by
  unfold Room at hr
  rcases grow_spec b n h (by omega) with ⟨he, _⟩ | ⟨b1, he, g⟩
  · rw [he] at hg; cases hg
  · rw [he] at hg; cases hg
    exact ⟨g.data, by unfold bytes; rw [g.data, g.padding], g.offset, g.fits, g.mono, g.wf⟩

/-- Which path runs, and what it does to capacity and mode.  Note the strict `<`: a request
that would fill the buffer *exactly* (`offset + n = curSz`) is not an early return; it grows. -/
theorem grow_paths (b : Buf) (n : Nat) (h : WF b) (hr : Room b n) :
    growPath b n =
      (if 0 < b.maxSz ∧ b.maxSz < b.offset + n then GrowPath.panicMax
       else if b.offset + n < b.curSz then GrowPath.noop
       else match b.mode with
         | .calloc =>
           if 0 < b.autoMmapAfter ∧ b.autoMmapAfter < growSizeNat b.curSz n then GrowPath.callocToMmap
           else GrowPath.callocRealloc
         | .mmap => GrowPath.mmapTruncate) ∧
    (∀ b', grow b n = .ok b' →
      match growPath b n with
      | .panicMax => False
      | .noop => b' = b
      | .callocRealloc => b.mode = .calloc ∧ b'.mode = .calloc ∧ b'.curSz = growSizeNat b.curSz n
      | .callocToMmap => b.mode = .calloc ∧ b'.mode = .mmap ∧ b'.curSz = growSizeNat b.curSz n
      | .mmapTruncate => b.mode = .mmap ∧ b'.mode = .mmap ∧ b'.curSz = growSizeNat b.curSz n) := by
  unfold Room at hr
  have hp := growPath_eq b n h (by omega)
  refine ⟨hp, ?_⟩
  intro b' hg
  have hgs : growSize b.curSz n = growSizeNat b.curSz n := k_growSize _ _ (by have := h.curSmall; omega)
  -- the mode in which each path is taken
  have hmode : (growPath b n = .callocRealloc ∨ growPath b n = .callocToMmap → b.mode = .calloc) ∧
      (growPath b n = .mmapTruncate → b.mode = .mmap) := by
    rw [hp]; unfold growPathNat
    split
    · exact ⟨fun h => (by rcases h with h | h <;> cases h), fun h => (by cases h)⟩
    · split
      · exact ⟨fun h => (by rcases h with h | h <;> cases h), fun h => (by cases h)⟩
      · cases b.mode with
        | calloc => exact ⟨fun _ => rfl, fun h => (by simp only at h; split at h <;> cases h)⟩
        | mmap => exact ⟨fun h => (by rcases h with h | h <;> cases h), fun _ => rfl⟩
  unfold grow at hg
  cases hpath : growPath b n with
  | panicMax => rw [hpath] at hg; cases hg
  | noop => rw [hpath] at hg; simp only at hg; cases hg; rfl
  | callocRealloc =>
    rw [hpath] at hg hmode; simp only at hg
    have hm := hmode.1 (Or.inl rfl)
    split at hg
    · cases hg; exact ⟨hm, hm, hgs⟩
    · cases hg
  | callocToMmap =>
    rw [hpath] at hg hmode; simp only at hg
    have hm := hmode.1 (Or.inr rfl)
    split at hg
    · cases hg; exact ⟨hm, rfl, hgs⟩
    · cases hg
  | mmapTruncate =>
    rw [hpath] at hg hmode; simp only at hg
    have hm := hmode.2 rfl
    cases hg
    exact ⟨hm, hm, hgs⟩

/-- non-vacuity: the three growth paths and the exactly-full case on concrete buffers -/
example : growPath (newBuffer 64) 100 = .callocRealloc ∧
    (grow (newBuffer 64) 100).toOption.map (·.curSz) = some 228 := by decide
example : (withAutoMmap (newBuffer 64) 65).toOption.map (fun b => growPath b 100) = some .callocToMmap := by decide
example : growPath (newBufferTmp 64) 100 = .mmapTruncate := by decide
example : growPath (newBuffer 64) 56 = .callocRealloc ∧ growPath (newBuffer 64) 55 = .noop := by decide

/-! ## What was written is what `Bytes()` holds -/

theorem wf_newBuffer (capacity : Nat) (h : capacity < 2 ^ 62) : WF (newBuffer capacity) := by
  unfold newBuffer
  rw [k_newCapSmall _ (by omega), k_defaultCapacity]
  by_cases hc : capacity < 64
  · simp only [hc, decide_true, if_true]
    exact ⟨by simp, by simp, by simp, by simp, by simp, by simp⟩
  · simp only [hc, decide_false, Bool.false_eq_true, if_false]
    exact ⟨by simp, by simp, by simp; omega, by simpa using h, by simp, by simp⟩

theorem wf_newBufferTmp (capacity : Nat) (h : capacity < 2 ^ 62) : WF (newBufferTmp capacity) := by
  unfold newBufferTmp
  rw [k_newFileCapSmall _ (by omega), k_defaultCapacity]
  by_cases hc : capacity < 64
  · simp only [hc, decide_true, if_true]
    exact ⟨by simp, by simp, by simp, by simp, by simp, by simp⟩
  · simp only [hc, decide_false, Bool.false_eq_true, if_false]
    exact ⟨by simp, by simp, by simp; omega, by simpa using h, by simp, by simp⟩

/-- A buffer as the constructors and options make it: `NewBuffer`/`NewBufferTmp` with any
capacity, optionally `WithAutoMmap(threshold)` (calloc only), optionally `WithMaxSize`. -/
inductive Fresh : Buf → Prop
  | calloc (capacity : Nat) : capacity < 2 ^ 62 → Fresh (newBuffer capacity)
  | mmap (capacity : Nat) : capacity < 2 ^ 62 → Fresh (newBufferTmp capacity)
  | autoMmap (b b' : Buf) (threshold : Nat) : Fresh b → threshold < 2 ^ 62 →
      withAutoMmap b threshold = .ok b' → Fresh b'
  | maxSize (b : Buf) (size : Nat) : Fresh b → size < 2 ^ 62 → Fresh (withMaxSize b size)

theorem Fresh.wf_empty {b : Buf} (h : Fresh b) : WF b ∧ bytes b = [] ∧ b.offset = b.padding := by
  induction h with
  | calloc c hc => exact ⟨wf_newBuffer c hc, by simp [bytes, newBuffer], by simp [newBuffer]⟩
  | mmap c hc => exact ⟨wf_newBufferTmp c hc, by simp [bytes, newBufferTmp], by simp [newBufferTmp]⟩
  | autoMmap b b' t _ ht he ih =>
    unfold withAutoMmap at he
    split at he
    · cases he
    · cases he
      obtain ⟨w1, w2, w3⟩ := ih
      exact ⟨⟨w1.len, w1.pad, w1.cap, w1.curSmall, w1.maxSmall, ht⟩, w2, w3⟩
  | maxSize b s _ hs ih =>
    obtain ⟨w1, w2, w3⟩ := ih
    exact ⟨⟨w1.len, w1.pad, w1.cap, w1.curSmall, hs, w1.autoSmall⟩, w2, w3⟩

/-- **c11_bytes.**  For every history of `Write`/`WriteSlice`/`SliceAllocate`/`Allocate`/
`AllocateOffset`/`Reset` (regions handed out are filled by the caller with the bytes the
operation carries) on every well-formed buffer — any mode, capacity, auto-mmap threshold,
max size — `Bytes()` is exactly what was written since the last `Reset`, in order; a call
refused by the max-size check contributes nothing. -/
theorem c11_bytes (b : Buf) (ops : List Op) (h : WF b) (hf : Fits b ops) :
    bytes (run b ops).1 = written (bytes b) (ops.zip ((run b ops).2.map Out.isFault)) ∧
      WF (run b ops).1 :=
  ⟨(run_spec ops b h hf).2, (run_spec ops b h hf).1⟩

/-- The no-overflow hypothesis `Fits` follows from a bound on the sizes: `Grow` never makes
the capacity larger than `max(initial capacity, 3·(initial offset + total bytes asked for))`.
E.g. initial capacity and total size below 2^54 suffice. -/
theorem fits_of_total (b : Buf) (ops : List Op) (h : WF b)
    (hk : 8 * max b.curSz (3 * (b.offset + totalSize ops)) + 8 * totalSize ops + 128 < 2 ^ 62) :
    Fits b ops :=
  RV.Buffer.fits_of_total (max b.curSz (3 * (b.offset + totalSize ops))) ops b h
    (Nat.le_max_left _ _) (Nat.le_max_right _ _) hk

/-- the same from any constructor configuration: the log starts empty -/
theorem c11_bytes_fresh (b : Buf) (ops : List Op) (h : Fresh b) (hf : Fits b ops) :
    bytes (run b ops).1 = written [] (ops.zip ((run b ops).2.map Out.isFault)) := by
  have := (c11_bytes b ops h.wf_empty.1 hf).1
  rwa [h.wf_empty.2.1] at this

/-- non-vacuity: a history that grows twice, switches to mmap, and resets in the middle -/
private def exB0 : Buf := { newBuffer 10 with autoMmapAfter := 70 }
private def exOps : List Op :=
  [.write [1, 2, 3], .writeSlice (List.replicate 50 7), .reset, .sliceAllocate [9], .allocate [4, 5]]
set_option maxRecDepth 8000 in
example : (withAutoMmap (newBuffer 10) 70).toOption = some exB0 ∧
    Fits exB0 exOps ∧ (run exB0 exOps).1.mode = .mmap ∧ (run exB0 exOps).1.curSz = 186 ∧
      bytes (run exB0 exOps).1 = [0, 0, 0, 0, 0, 0, 0, 1, 9, 4, 5] := by
  refine ⟨by decide, ?_, by decide, by decide, by decide⟩
  simp only [Fits, Room, exOps]
  decide

/-! ## MaxSize -/

/-- **c11_maxsz.**  (1) With a limit set, the written length never exceeds
`max maxSz padding` (a limit below the 8 bytes of padding cannot be met by the empty
buffer; then nothing can ever be written).  (2) A call is refused exactly when
`offset + size > maxSz > 0`; the refusal is the max-size panic and leaves the buffer
unchanged; every other call succeeds. -/
theorem c11_maxsz (b : Buf) (h : WF b) :
    (∀ ops, Fits b ops → MaxInv b → MaxInv (run b ops).1) ∧
    (∀ op, op ≠ .reset → Room b (opSize op) →
      ((0 < b.maxSz ∧ b.maxSz < b.offset + opSize op) → step b op = (b, .fault .maxSize)) ∧
      (¬ (0 < b.maxSz ∧ b.maxSz < b.offset + opSize op) →
        (step b op).2.isFault = false ∧ (step b op).1.offset = b.offset + opSize op)) := by
  refine ⟨fun ops hf hm => run_maxInv ops b h hf hm, ?_⟩
  intro op hne hr
  rcases step_spec b op hne h hr with ⟨he, hm⟩ | ⟨b', out, he, ho, a⟩
  · exact ⟨fun _ => he, fun hn => absurd hm hn⟩
  · refine ⟨fun hm => absurd hm (by rw [← opBytes_length]; exact a.noMax), fun _ => ?_⟩
    rw [he]; exact ⟨ho, by rw [← opBytes_length]; exact a.offset⟩

/-- the invariant holds initially for every constructor configuration -/
theorem maxInv_fresh (b : Buf) (h : Fresh b) : MaxInv b := by
  intro _; rw [h.wf_empty.2.2]; omega

private def exB1 : Buf := withMaxSize (newBuffer 64) 20
example :
    (step exB1 (.write (List.replicate 12 1))).2 = .n 12 ∧        -- 8 + 12 = 20: accepted
    step exB1 (.write (List.replicate 13 1)) = (exB1, .fault .maxSize) ∧  -- 21 > 20: refused, unchanged
    step exB1 (.writeSlice [1, 2, 3, 4, 5]) = (exB1, .fault .maxSize) := by decide

/-! ## Slices -/

/-- the slices written since the last `Reset` (a refused call writes nothing) -/
def slicesWritten (acc : List Bytes) : List (Op × Bool) → List Bytes
  | [] => acc
  | (.reset, _) :: rest => slicesWritten [] rest
  | (.writeSlice p, r) :: rest => slicesWritten (if r then acc else acc ++ [p]) rest
  | (.sliceAllocate p, r) :: rest => slicesWritten (if r then acc else acc ++ [p]) rest
  | (_, _) :: rest => slicesWritten acc rest

def isSliceOp : Op → Bool
  | .writeSlice _ | .sliceAllocate _ | .reset => true
  | _ => false

theorem written_slices (log : List (Op × Bool)) : ∀ (acc : List Bytes), (∀ x ∈ log, isSliceOp x.1 = true) →
    written (encAll acc) log = encAll (slicesWritten acc log) := by
  induction log with
  | nil => intro acc _; rfl
  | cons x rest ih =>
    intro acc hall
    have hrest : ∀ y ∈ rest, isSliceOp y.1 = true := fun y hy => hall y (List.mem_cons_of_mem _ hy)
    have hx := hall x List.mem_cons_self
    obtain ⟨op, r⟩ := x
    cases op with
    | reset => simp only [written, slicesWritten]; exact ih [] hrest
    | writeSlice p =>
      simp only [written, slicesWritten, opBytes]
      cases r
      · simp only [Bool.false_eq_true, if_false]
        have := ih (acc ++ [p]) hrest
        rwa [encAll_append, encAll_cons, encAll_nil, List.append_nil] at this
      · simp only [if_true]; exact ih acc hrest
    | sliceAllocate p =>
      simp only [written, slicesWritten, opBytes]
      cases r
      · simp only [Bool.false_eq_true, if_false]
        have := ih (acc ++ [p]) hrest
        rwa [encAll_append, encAll_cons, encAll_nil, List.append_nil] at this
      · simp only [if_true]; exact ih acc hrest
    | write p => simp [isSliceOp] at hx
    | allocate p => simp [isSliceOp] at hx
    | allocateOffset p => simp [isSliceOp] at hx

/-- **c11_slices.**  After any history consisting only of `WriteSlice`, `SliceAllocate`
and `Reset` (empty slices and slices larger than the capacity included) on a freshly
constructed buffer, with `S` the slices written since the last `Reset`:
* `SliceIterate` hands out exactly the non-empty slices of `S`, in order;
* `SliceOffsets` returns the offsets at which they were written — except that for an
  *empty* buffer it returns the start offset although there is no slice (observation);
* `Slice` at the offset of the `i`-th slice returns it and the offset of the next one
  (`-1`, here `none`, after the last). -/
theorem c11_slices (b : Buf) (ops : List Op) (h : Fresh b) (hf : Fits b ops)
    (hall : ∀ op ∈ ops, isSliceOp op = true) :
    let b' := (run b ops).1
    let S := slicesWritten [] (ops.zip ((run b ops).2.map Out.isFault))
    bytes b' = encAll S ∧
    sliceIterate b' = .ok (S.filter (fun s => s.length != 0)) ∧
    sliceOffsets b' = .ok (if S = [] then [b'.padding] else offsetsFrom b'.padding S) ∧
    (∀ i (hi : i < S.length),
      slice b' (b'.padding + (encAll (S.take i)).length) =
        .ok (S[i], if i + 1 = S.length then none
                   else some (b'.padding + (encAll (S.take (i + 1))).length))) := by
  intro b' S
  have hb := c11_bytes_fresh b ops h hf
  have hw := (c11_bytes b ops h.wf_empty.1 hf).2
  have hlog : ∀ x ∈ ops.zip ((run b ops).2.map Out.isFault), isSliceOp x.1 = true := by
    intro x hx
    exact hall x.1 (List.of_mem_zip hx).1
  have henc : bytes b' = encAll S := by
    have := written_slices _ [] hlog
    rw [encAll_nil] at this
    exact hb.trans this
  have hh : Holds b' S := ⟨hw, henc⟩
  exact ⟨henc, sliceIterate_spec b' S hh, sliceOffsets_spec b' S hh, fun i hi => slice_spec b' S hh i hi⟩

/-- the same three read-back facts for any well-formed buffer whose bytes are an
encoding (this is the form used after a sort) -/
theorem c11_slices_holds (b : Buf) (S : List Bytes) (h : Holds b S) :
    sliceIterate b = .ok (S.filter (fun s => s.length != 0)) ∧
    sliceOffsets b = .ok (if S = [] then [b.padding] else offsetsFrom b.padding S) :=
  ⟨sliceIterate_spec b S h, sliceOffsets_spec b S h⟩

private def exB2 : Buf := (run (newBuffer 0) [.writeSlice [3, 1], .writeSlice [], .sliceAllocate [2], .reset,
      .writeSlice [5], .writeSlice [], .writeSlice (List.replicate 50 6)]).1
set_option maxRecDepth 8000 in
example :
    (sliceIterate exB2).toOption = some [[5], List.replicate 50 6] ∧
      (sliceOffsets exB2).toOption = some [8, 17, 25] ∧
      (slice exB2 17).toOption = some ([], some 25) ∧
      (slice exB2 25).toOption = some (List.replicate 50 6, none) ∧
      (sliceOffsets (newBuffer 0)).toOption = some [8] := by decide

/-! ## Sorting -/

/-- The merge runs *in place*: the left run is copied to `tmp`, the right run is read
from the very buffer that is being overwritten.  With `|G| = |left|` bytes between the
write cursor and the right run (initially the left run's own bytes) no write ever reaches
an unread byte of the right run: the in-place loop computes exactly what the pure loop
computes on a snapshot, and touches nothing outside `[start, end)`. -/
theorem merge_inplace_refines (less : Bytes → Bytes → Bool) (fuel : Nat) (pre G right post left : Bytes)
    (hG : G.length = left.length) (hb : pre.length + G.length + right.length < 2 ^ 62) :
    mergeInPlace less (pre.length + G.length + right.length) fuel (pre ++ G ++ right ++ post) pre.length left
        (pre.length + G.length) =
      match mergeLoop less (pre.length + G.length + right.length) fuel pre.length left right with
      | .ok out => .ok (pre ++ out ++ post)
      | .error f => .error f :=
  mergeInPlace_eq less fuel pre G right post left hG hb

/-- **merge_spec.**  `sortHelper.merge` on two adjacent runs of length-prefixed slices:
the region ends up holding a permutation of the slices of both runs; if both runs are
ordered and `less` is asymmetric and negatively transitive (i.e. a strict weak order),
the result is ordered.  Ties go to the *right* run first (`copyRight`), which is why
asymmetry is needed in the `less a c` case and negative transitivity in both. -/
theorem merge_spec (less : Bytes → Bytes → Bool) (pre post : Bytes) (L R : List Bytes)
    (hb : pre.length + (encAll L).length + (encAll R).length < 2 ^ 62) :
    ∃ M, merge less (pre ++ encAll L ++ encAll R ++ post) pre.length (pre.length + (encAll L).length)
        (pre.length + (encAll L).length + (encAll R).length) = .ok (pre ++ encAll M ++ post) ∧
      M.Perm (L ++ R) ∧
      (StrictWeak less → Sorted less L → Sorted less R → Sorted less M) :=
  ⟨mergeSl less L R, merge_enc less pre post L R hb, mergeSl_perm less L R,
    fun sw hl hr => mergeSl_sorted less sw L R hl hr⟩

/-- on ties the right run goes first: the merge is not stable -/
example : mergeSl (fun a b => decide (a.length < b.length)) [[1]] [[2]] = [[2], [1]] := by
  simp [mergeSl]

/-- **c11_sort.**  `SortSliceBetween(start, end, less)` on a well-formed buffer (any mode)
whose range `[start,end)` holds the encoded slices `S` (both ends on slice boundaries,
`start ≠ 0`), for every number of slices (the stride-1024 chunking is a generated
kernel), every `less`, and every `sort.Slice` that meets its contract:
the range ends up holding a permutation `S'` of `S`, everything else is untouched, and if
`less` is a strict weak order `S'` is ordered (no later slice is less than an earlier one). -/
theorem c11_sort (sortFn : SortFn) (sc : SortContract sortFn) (less : Bytes → Bytes → Bool)
    (b : Buf) (h : WF b) (pre post : Bytes) (S : List Bytes)
    (hd : b.data = pre ++ encAll S ++ post) (h0 : pre.length ≠ 0) :
    ∃ S', sortSliceBetween sortFn less b pre.length (pre.length + (encAll S).length) =
        .ok { b with data := pre ++ encAll S' ++ post } ∧
      S'.Perm S ∧ (StrictWeak less → Sorted less S') := by
  by_cases hS : S = []
  · subst hS
    refine ⟨[], ?_, List.Perm.refl _, fun _ => List.Pairwise.nil⟩
    have hl : b.data.length = pre.length + post.length := by rw [hd]; simp [encAll_nil]
    have := h.len; have := h.cap; have := h.curSmall
    rw [sortSliceBetween_empty sortFn less b _ _ (by omega) (by simp [encAll_nil]; omega) (by simp [encAll_nil])]
    rw [← hd]
  · exact sortSliceBetween_spec sortFn sc less b h pre post S hd hS h0

/-- `SortSlice` on a buffer holding `S`: afterwards it holds a sorted permutation, and
the walkers of `c11_slices` see exactly that. -/
theorem c11_sortSlice (sortFn : SortFn) (sc : SortContract sortFn) (less : Bytes → Bytes → Bool)
    (b : Buf) (S : List Bytes) (h : Holds b S) (hp : b.padding ≠ 0) :
    ∃ S' b', sortSlice sortFn less b = .ok b' ∧ Holds b' S' ∧ S'.Perm S ∧
      (StrictWeak less → Sorted less S') ∧ b'.offset = b.offset ∧ b'.curSz = b.curSz ∧ b'.mode = b.mode := by
  have hd := h.data
  have hpl := h.preLen
  obtain ⟨S', he, hperm, hs⟩ := c11_sort sortFn sc less b h.wf (b.data.take b.padding) [] S hd (by rw [hpl]; exact hp)
  refine ⟨S', { b with data := b.data.take b.padding ++ encAll S' ++ [] }, ?_, ?_, hperm, hs, rfl, rfl, rfl⟩
  · unfold sortSlice
    rw [hpl, ← h.offset] at he
    exact he
  · have hl := encAll_length_perm hperm
    refine ⟨wf_setData b h.wf _ ?_, ?_⟩
    · have e := congrArg List.length hd
      rw [List.length_append, List.length_append, hpl, List.length_nil] at e
      show (b.data.take b.padding ++ encAll S' ++ []).length = b.data.length
      rw [List.length_append, List.length_append, hpl, hl, List.length_nil]
      exact e.symm
    · unfold bytes
      show (b.data.take b.padding ++ encAll S' ++ []).drop b.padding = encAll S'
      rw [List.append_nil]
      exact List.drop_left' hpl

/-- `start == 0` with a non-empty range panics; an empty or inverted range is a no-op. -/
theorem c11_sort_edges (sortFn : SortFn) (less : Bytes → Bytes → Bool) (b : Buf)
    (start end_ : Nat) (hs : start < 2 ^ 62) (he : end_ < 2 ^ 62) :
    (end_ ≤ start → sortSliceBetween sortFn less b start end_ = .ok b) ∧
    (start = 0 → 0 < end_ → sortSliceBetween sortFn less b start end_ = .error .startZero) :=
  ⟨fun hle => sortSliceBetween_empty sortFn less b start end_ hs he hle,
   fun h0 hp => h0 ▸ sortSliceBetween_zero sortFn less b end_ he hp⟩

/-- The trace validator runs `sortSliceBetweenFast` (pure merge loop, linear per merge)
instead of the model's in-place `sortSliceBetween`; they are the same function. -/
theorem validator_runs_the_model (sortFn : SortFn) (less : Bytes → Bytes → Bool) (b : Buf) (start end_ : Nat) :
    sortSliceBetweenFast sortFn less b start end_ = sortSliceBetween sortFn less b start end_ :=
  sortSliceBetweenFast_eq sortFn less b start end_

/-- the contract assumed of `sort.Slice` is satisfiable -/
theorem sortContract_satisfiable : SortContract insertionSort := insertionSort_contract

/-- non-vacuity: a strict weak order, a concrete buffer, the sorted result -/
private def exLess : Bytes → Bytes → Bool := fun a b => decide (a.length < b.length)
private def exB3 : Buf :=
  (run (newBuffer 0) [.writeSlice [3, 1, 2], .writeSlice [], .writeSlice [2], .writeSlice [9, 9]]).1
example :
    (sortSlice insertionSort exLess exB3).toOption.map (fun b' => (sliceIterate b').toOption) =
      some (some [[2], [9, 9], [3, 1, 2]]) := by decide

example : StrictWeak (fun a b => decide (a.length < b.length)) :=
  ⟨fun a b h => by simp at h ⊢; omega, fun a b c h1 h2 => by simp at h1 h2 ⊢; omega⟩

end RV.C11
