import RV.Gen.SketchM
import RV.Model.Sketch
import RV.Proofs.TieLfuLemmas
import RV.Proofs.SketchSize
/-!
# `cmRow.{get, increment, reset, clear}` and `cmSketch.{Increment, Estimate, Reset, Clear}`
# (sketch.go): generated whole-method translation = the hand-written sketch model

`RV/Gen/SketchM.lean` is regenerated from sketch.go on every run (go2lean/lfu*.go): the method
bodies as a whole, in state-passing style, every slice / array access bounds-checked
(`GenL.Res`: `ok` / `panic` / `stuck`), the loops over the rows and over the bytes of a row as
`GenL.forL`.  The model `RV/Model/Sketch.lean` (on which the C18 theorems rest) has hand-written
loops (`List.mapIdx`, `foldl`) around the generated arithmetic kernels `Gen.Sketch.*`, totalised
with `[i]!`.  The theorems below say the two agree, under the guard the real code needs
(`Guard`: what Go's array types and `newCmSketch` guarantee), and that the guard is kept.

`absSk` / `conSk` are mutually inverse (the model keeps the rows as a `List`, the translation as
an `Array`).
-/
namespace RV.TieSketch
open GenL Gen.SketchM RV.TieL

/-- abstraction: generated `cmSketch` state ↦ the sketch model's state -/
def absSk (g : CmSketch) : RV.Sketch.Sketch := { rows := g.rows.toList, seed := g.seed, mask := g.mask' }
/-- its inverse -/
def conSk (s : RV.Sketch.Sketch) : CmSketch := { rows := s.rows.toArray, seed := s.seed, mask' := s.mask }

theorem conSk_absSk (g : CmSketch) : conSk (absSk g) = g := rfl
theorem absSk_conSk (s : RV.Sketch.Sketch) : absSk (conSk s) = s := rfl

/-- What the real code relies on: `rows` and `seed` are arrays of the same length (`[cmDepth]…`), every
row holds the counters `0 … mask` (two per byte; `newCmSketch`), and lengths fit a machine word. -/
structure Guard (g : CmSketch) : Prop where
  seeds : g.rows.size ≤ g.seed.size
  depth : g.rows.size ≤ 2 ^ 64
  rowsOK : ∀ r ∈ g.rows, g.mask'.toNat / 2 < r.size
  rowsSmall : ∀ r ∈ g.rows, r.size ≤ 2 ^ 64

/-- the guard follows from the well-formedness predicate `RV.Sketch.WF` under which the C18
theorems are stated (and which `newCmSketch` establishes, `RV.Sketch.new_wf`) -/
theorem guard_of_wf (g : CmSketch) (w : RV.Sketch.WF (absSk g)) : Guard g := by
  have hd : g.rows.size = Gen.Sketch.cmDepth.toNat := by simpa [absSk] using w.depth
  have hs : g.seed.size = Gen.Sketch.cmDepth.toNat := w.seeds
  have h4 : Gen.Sketch.cmDepth.toNat = 4 := by decide
  refine ⟨by omega, by omega, ?_, ?_⟩
  · intro r hr
    have := (w.rows r (by simpa [absSk] using hr)).1
    simp only [absSk] at this
    omega
  · intro r hr
    exact (w.rows r (by simpa [absSk] using hr)).2

/-! ## rows -/

/-- `cmRow.get`: the generated kernel's value when the byte exists … -/
theorem cmRow_get_eq (r : Array (BitVec 8)) (n : BitVec 64) (h : n.toNat / 2 < r.size) :
    cmRow_get r n = .ok (Gen.Sketch.rowGet r n) := by
  unfold cmRow_get Gen.Sketch.rowGet
  try simp only [RV.Sketch.shr1_eq_div2, RV.Sketch.shl2_eq_mul4]
  rw [rd_ok _ _ (by simpa using h)]
  rfl

/-- … and a Go panic (index out of range) when it does not. -/
theorem cmRow_get_panic (r : Array (BitVec 8)) (n : BitVec 64) (h : r.size ≤ n.toNat / 2) :
    cmRow_get r n = .panic := by
  unfold cmRow_get
  try simp only [RV.Sketch.shr1_eq_div2, RV.Sketch.shl2_eq_mul4]
  rw [rd_panic _ _ (by simpa using h)]
  rfl

theorem cmRow_increment_eq (r : Array (BitVec 8)) (n : BitVec 64) (h : n.toNat / 2 < r.size) :
    cmRow_increment r n = .ok (Gen.Sketch.rowIncrement r n) := by
  unfold cmRow_increment Gen.Sketch.rowIncrement
  try simp only [RV.Sketch.shr1_eq_div2, RV.Sketch.shl2_eq_mul4]
  have h' : (n / 2#64).toNat < r.size := by simpa using h
  simp only [rd_ok _ _ h', wr_ok _ _ _ h', Res.bind_ok]
  split <;> rfl

theorem cmRow_increment_panic (r : Array (BitVec 8)) (n : BitVec 64) (h : r.size ≤ n.toNat / 2) :
    cmRow_increment r n = .panic := by
  unfold cmRow_increment
  try simp only [RV.Sketch.shr1_eq_div2, RV.Sketch.shl2_eq_mul4]
  simp only [rd_panic _ _ (show r.size ≤ (n / 2#64).toNat by simpa using h), Res.bind_panic]

theorem cmRow_reset_eq (r : Array (BitVec 8)) (hsz : r.size ≤ 2 ^ 64) :
    cmRow_reset r = .ok (Gen.Sketch.rowReset r) := by
  unfold cmRow_reset
  rw [forL_idxs_foldl r cmRow_reset_loop1 _ (Gen.Sketch.rowReset r) rfl (by intro s k; simp)]
  · rfl
  · intro k s hk hs
    have hk' : (BitVec.ofNat 64 k).toNat < s.size := by rw [ofNat_toNat_lt hk hsz]; omega
    unfold cmRow_reset_loop1
    simp only [rd_ok _ _ hk', wr_ok _ _ _ hk', Res.bind_ok]

theorem cmRow_clear_eq (r : Array (BitVec 8)) (hsz : r.size ≤ 2 ^ 64) :
    cmRow_clear r = .ok (Gen.Sketch.rowClear r) := by
  unfold cmRow_clear
  rw [forL_idxs_foldl r cmRow_clear_loop1 _ (Gen.Sketch.rowClear r) rfl (by intro s k; simp)]
  · rfl
  · intro k s hk hs
    have hk' : (BitVec.ofNat 64 k).toNat < s.size := by rw [ofNat_toNat_lt hk hsz]; omega
    unfold cmRow_clear_loop1
    simp only [wr_ok _ _ _ hk', Res.bind_ok]

/-! the model's row operations keep the row length -/

theorem size_rowIncrement (r : Array (BitVec 8)) (n : BitVec 64) : (Gen.Sketch.rowIncrement r n).size = r.size := by
  unfold Gen.Sketch.rowIncrement; dsimp only; split <;> simp

theorem size_foldl_set {α : Type} (f : Array α → Nat → α) (ix : Nat → Nat) (l : List Nat) (r : Array α) :
    (l.foldl (fun a i => a.set! (ix i) (f a i)) r).size = r.size := by
  induction l generalizing r with
  | nil => rfl
  | cons x xs ih => rw [List.foldl_cons, ih]; simp

theorem size_rowReset (r : Array (BitVec 8)) : (Gen.Sketch.rowReset r).size = r.size := by
  unfold Gen.Sketch.rowReset
  exact size_foldl_set (fun a i => _) (fun i => (BitVec.ofNat 64 i).toNat) _ r

theorem size_rowClear (r : Array (BitVec 8)) : (Gen.Sketch.rowClear r).size = r.size := by
  unfold Gen.Sketch.rowClear
  exact size_foldl_set (fun _ _ => _) (fun i => (BitVec.ofNat 64 i).toNat) _ r

theorem mapIdx_const {α β : Type} (f : α → β) (l : List α) : List.mapIdx (fun _ r => f r) l = l.map f := by
  apply List.ext_getElem?; intro i; simp [List.getElem?_mapIdx]

/-! ## the sketch -/

/-- `cmSketch.Increment` = the model's `increment` -/
theorem cmSketch_Increment_eq (g : CmSketch) (h : BitVec 64) (G : Guard g) :
    cmSketch_Increment g h = .ok (conSk (RV.Sketch.increment (absSk g) h)) := by
  unfold cmSketch_Increment
  rw [forL_rows (fun s : CmSketch => s.rows) (fun s rs => { s with rows := rs }) (by intros; rfl)
    g (cmSketch_Increment_loop1 h)
    (fun i r => Gen.Sketch.rowIncrement r (Gen.Sketch.incrIndex h g.seed (BitVec.ofNat 64 i) g.mask'))]
  · simp only [Res.bind_ok, conSk, RV.Sketch.increment, absSk, mapIdx_rows]
  · intro k rs row hk hsz hrow hrow0
    have hkn : (BitVec.ofNat 64 k).toNat = k := ofNat_toNat_lt hk G.depth
    have hseed : (BitVec.ofNat 64 k).toNat < g.seed.size := by rw [hkn]; have := G.seeds; omega
    have hmem : row ∈ g.rows := Array.mem_of_getElem? hrow0
    unfold cmSketch_Increment_loop1
    simp only []
    rw [rd_ok' rs _ row (by rw [hkn]; exact hrow), Res.bind_ok, rd_ok _ _ hseed, Res.bind_ok,
      cmRow_increment_eq _ _ (by
        have := and_mask_le (h ^^^ g.seed[(BitVec.ofNat 64 k).toNat]!) g.mask'
        have := G.rowsOK row hmem; omega),
      Res.bind_ok, wr_ok _ _ _ (by rw [hkn]; omega), Res.bind_ok]
    simp only [Gen.Sketch.incrIndex, hkn]

/-- `cmSketch.Estimate` = `int64(min)` of the model's `estimate` -/
theorem cmSketch_Estimate_eq (g : CmSketch) (h : BitVec 64) (G : Guard g) :
    cmSketch_Estimate g h = .ok ((RV.Sketch.estimate (absSk g) h).setWidth 64) := by
  unfold cmSketch_Estimate
  obtain ⟨m, hm, pm⟩ := forL_idxs_inv g.rows.size (cmSketch_Estimate_loop1 g h)
    (fun k m => m = ((RV.Sketch.reads (absSk g) h).take k).foldl
      (fun m v => if Gen.Sketch.estLess v m then v else m) Gen.Sketch.estInit) 255#8 rfl
    (by
      intro k m hk hm
      have hkn : (BitVec.ofNat 64 k).toNat = k := ofNat_toNat_lt hk G.depth
      have hrows : (BitVec.ofNat 64 k).toNat < g.rows.size := by rw [hkn]; exact hk
      have hseed : (BitVec.ofNat 64 k).toNat < g.seed.size := by rw [hkn]; have := G.seeds; omega
      have hmem : g.rows[(BitVec.ofNat 64 k).toNat]! ∈ g.rows := by
        rw [getElem!_pos g.rows _ hrows]; exact Array.getElem_mem _
      have hb : cmSketch_Estimate_loop1 g h (BitVec.ofNat 64 k) m = .ok
          (if Gen.Sketch.estLess (Gen.Sketch.rowGet g.rows[(BitVec.ofNat 64 k).toNat]!
            ((h ^^^ g.seed[(BitVec.ofNat 64 k).toNat]!) &&& g.mask')) m then
            (Gen.Sketch.rowGet g.rows[(BitVec.ofNat 64 k).toNat]! ((h ^^^ g.seed[(BitVec.ofNat 64 k).toNat]!) &&& g.mask'))
          else m) := by
        unfold cmSketch_Estimate_loop1
        simp only []
        rw [rd_ok _ _ hrows, Res.bind_ok, rd_ok _ _ hseed, Res.bind_ok,
          cmRow_get_eq _ _ (by
            have := and_mask_le (h ^^^ g.seed[(BitVec.ofNat 64 k).toNat]!) g.mask'
            have := G.rowsOK _ hmem; omega), Res.bind_ok]
        rfl
      refine ⟨_, hb, ?_⟩
      have hread : (RV.Sketch.reads (absSk g) h)[k]? = some (Gen.Sketch.rowGet g.rows[(BitVec.ofNat 64 k).toNat]!
          ((h ^^^ g.seed[(BitVec.ofNat 64 k).toNat]!) &&& g.mask')) := by
        simp only [RV.Sketch.reads, absSk, List.getElem?_mapIdx, Gen.Sketch.estIndex, hkn]
        rw [getElem!_pos g.rows _ hk]
        simp [hk]
      rw [List.take_add_one, hread, List.foldl_append, ← hm]
      rfl)
  dsimp only
  rw [hm, pm, Res.bind_ok]
  have hlen : (RV.Sketch.reads (absSk g) h).length = g.rows.size := by simp [RV.Sketch.reads, absSk]
  rw [List.take_of_length_le (by omega)]
  rfl

/-- `cmSketch.Reset` = the model's `reset` -/
theorem cmSketch_Reset_eq (g : CmSketch) (G : Guard g) :
    cmSketch_Reset g = .ok (conSk (RV.Sketch.reset (absSk g))) := by
  unfold cmSketch_Reset
  rw [forL_rows (fun s : CmSketch => s.rows) (fun s rs => { s with rows := rs }) (by intros; rfl)
    g cmSketch_Reset_loop1 (fun _ r => Gen.Sketch.rowReset r)]
  · simp only [Res.bind_ok, conSk, RV.Sketch.reset, absSk, mapIdx_rows, mapIdx_const]
  · intro k rs row hk hsz hrow hrow0
    have hkn : (BitVec.ofNat 64 k).toNat = k := ofNat_toNat_lt hk G.depth
    have hmem : row ∈ g.rows := Array.mem_of_getElem? hrow0
    unfold cmSketch_Reset_loop1
    simp only []
    rw [rd_ok' rs _ row (by rw [hkn]; exact hrow), Res.bind_ok, cmRow_reset_eq _ (G.rowsSmall row hmem),
      Res.bind_ok, wr_ok _ _ _ (by rw [hkn]; omega), Res.bind_ok, hkn]

/-- `cmSketch.Clear` = the model's `clear` -/
theorem cmSketch_Clear_eq (g : CmSketch) (G : Guard g) :
    cmSketch_Clear g = .ok (conSk (RV.Sketch.clear (absSk g))) := by
  unfold cmSketch_Clear
  rw [forL_rows (fun s : CmSketch => s.rows) (fun s rs => { s with rows := rs }) (by intros; rfl)
    g cmSketch_Clear_loop1 (fun _ r => Gen.Sketch.rowClear r)]
  · simp only [Res.bind_ok, conSk, RV.Sketch.clear, absSk, mapIdx_rows, mapIdx_const]
  · intro k rs row hk hsz hrow hrow0
    have hkn : (BitVec.ofNat 64 k).toNat = k := ofNat_toNat_lt hk G.depth
    have hmem : row ∈ g.rows := Array.mem_of_getElem? hrow0
    unfold cmSketch_Clear_loop1
    simp only []
    rw [rd_ok' rs _ row (by rw [hkn]; exact hrow), Res.bind_ok, cmRow_clear_eq _ (G.rowsSmall row hmem),
      Res.bind_ok, wr_ok _ _ _ (by rw [hkn]; omega), Res.bind_ok, hkn]

/-! ## the guard is an invariant of the four operations -/

theorem guard_of_rows {g : CmSketch} (G : Guard g) (f : Nat → Array (BitVec 8) → Array (BitVec 8))
    (hf : ∀ i r, (f i r).size = r.size) (s : RV.Sketch.Sketch)
    (hs : s = { absSk g with rows := (absSk g).rows.mapIdx f }) : Guard (conSk s) := by
  subst hs
  have hmem : ∀ r ∈ (g.rows.toList.mapIdx f).toArray, ∃ r0 ∈ g.rows, r.size = r0.size := by
    intro r hr
    obtain ⟨i, hi, rfl⟩ : ∃ i, ∃ h : i < g.rows.size, f i g.rows[i] = r := by simpa using hr
    exact ⟨g.rows[i], Array.getElem_mem _, hf _ _⟩
  refine ⟨by simpa [conSk, absSk] using G.seeds, by simpa [conSk, absSk] using G.depth, ?_, ?_⟩
  · intro r hr
    obtain ⟨r0, h0, e⟩ := hmem r hr
    rw [e]; exact G.rowsOK r0 h0
  · intro r hr
    obtain ⟨r0, h0, e⟩ := hmem r hr
    rw [e]; exact G.rowsSmall r0 h0

theorem guard_increment {g : CmSketch} (G : Guard g) (h : BitVec 64) :
    Guard (conSk (RV.Sketch.increment (absSk g) h)) :=
  guard_of_rows G _ (fun _ _ => size_rowIncrement _ _) _ rfl

theorem guard_reset {g : CmSketch} (G : Guard g) : Guard (conSk (RV.Sketch.reset (absSk g))) :=
  guard_of_rows G (fun _ r => Gen.Sketch.rowReset r) (fun _ _ => size_rowReset _) _
    (by simp [RV.Sketch.reset, mapIdx_const])

theorem guard_clear {g : CmSketch} (G : Guard g) : Guard (conSk (RV.Sketch.clear (absSk g))) :=
  guard_of_rows G (fun _ r => Gen.Sketch.rowClear r) (fun _ _ => size_rowClear _) _
    (by simp [RV.Sketch.clear, mapIdx_const])

/-! ## `newCmSketch`: sizing, masks, seeds -/

variable {Rand : Type}

/-- the four seeds `newCmSketch` draws from its random source, in order -/
def drawSeeds (rnd : RandOps Rand) (src : Rand) : Array (BitVec 64) :=
  #[(rnd.Uint64 src).2, (rnd.Uint64 (rnd.Uint64 src).1).2, (rnd.Uint64 (rnd.Uint64 (rnd.Uint64 src).1).1).2,
    (rnd.Uint64 (rnd.Uint64 (rnd.Uint64 (rnd.Uint64 src).1).1).1).2]

theorem set4 {α : Type} (z a b c d : α) :
    ((((Array.replicate 4 z).setIfInBounds 0 a).setIfInBounds 1 b).setIfInBounds 2 c).setIfInBounds 3 d = #[a, b, c, d] := by
  rfl

theorem countUp_depth : countUp 0#64 4#64 = [0#64, 1#64, 2#64, 3#64] := by decide

/-- the on-demand translation of `next2Power` is the KFunc kernel the model uses -/
theorem fn_next2Power_eq (x : BitVec 64) : fn_next2Power x = Gen.Sketch.next2Power x := rfl

theorem fn_newCmRow_eq (n : BitVec 64) (h : BitVec.slt (BitVec.sdiv n 2#64) 0#64 = false) :
    fn_newCmRow n = .ok (Array.replicate (Gen.Sketch.rowLen n).toNat 0#8) := by
  unfold fn_newCmRow mkArr Gen.Sketch.rowLen
  simp [h]

/-- `newCmSketch(numCounters)` = the model's `new` with the seeds drawn from the source: table sized to
`next2Power`, mask `size - 1`, `cmDepth` zeroed rows of `size / 2` bytes. -/
theorem newCmSketch_eq (rnd : RandOps Rand) (n : BitVec 64) (src : Rand) (h1 : 1 ≤ n.toNat) (h2 : n.toNat ≤ 2 ^ 62) :
    newCmSketch rnd n src = .ok (conSk (RV.Sketch.new n (drawSeeds rnd src))) := by
  obtain ⟨e, he, hp, hge, hlt⟩ := RV.Sketch.next2Power_spec n h1 h2
  have hlt64 : 2 ^ e < 2 ^ 63 := Nat.pow_lt_pow_right (by omega) (by omega)
  have hrow : BitVec.slt (BitVec.sdiv (Gen.Sketch.next2Power n) 2#64) 0#64 = false := by
    have := RV.Sketch.rowLen_toNat (Gen.Sketch.next2Power n) (by omega)
    unfold Gen.Sketch.rowLen at this
    rw [BitVec.slt_eq_decide, BitVec.toInt_eq_toNat_of_lt (by rw [this]; omega)]
    simp
  have hn0 : (n == 0#64) = false := by
    simp; intro h; subst h; simp at h1
  unfold newCmSketch
  simp only [hn0, Bool.false_eq_true, if_false, countUp_depth, forL_cons, forL_nil, newCmSketch_loop1,
    fn_next2Power_eq, fn_newCmRow_eq _ hrow, Res.bind_ok]
  simp [wr, conSk, RV.Sketch.new, drawSeeds, Gen.Sketch.sketchMask, Gen.Sketch.cmDepth, set4]

/-- `newCmSketch(0)` panics -/
theorem newCmSketch_zero (rnd : RandOps Rand) (src : Rand) : newCmSketch rnd 0#64 src = .panic := rfl

/-- … and for `2 ≤ numCounters ≤ 2^62` the new sketch satisfies the guard (for `numCounters = 1` the rows
are empty and the first `Increment` panics: `cmRow_increment_panic`) -/
theorem newCmSketch_guard (rnd : RandOps Rand) (n : BitVec 64) (src : Rand) (h1 : 2 ≤ n.toNat) (h2 : n.toNat ≤ 2 ^ 62) :
    Guard (conSk (RV.Sketch.new n (drawSeeds rnd src))) :=
  guard_of_wf _ (RV.Sketch.new_wf n (drawSeeds rnd src) (by rfl) h1 h2)

/-! ## non-vacuity: a concrete sketch built like `newCmSketch(8)` satisfies the guard, and the
generated functions run on it -/

def demo : CmSketch := conSk (RV.Sketch.new 8#64 #[1#64, 2#64, 3#64, 4#64])

theorem demo_guard : Guard demo := by
  refine ⟨by decide, by decide, ?_, ?_⟩ <;> intro r hr <;>
    (have : r = Array.replicate 4 0#8 := by
      simp [demo, conSk, RV.Sketch.new, Gen.Sketch.cmDepth, Gen.Sketch.rowLen, Gen.Sketch.next2Power] at hr
      first | exact hr | (obtain ⟨_, rfl⟩ := hr; rfl)) <;> subst this <;> decide

example : (cmSketch_Increment demo 5#64).bind (fun g => cmSketch_Estimate g 5#64) = .ok 1#64 := by decide
example : (cmSketch_Increment demo 5#64).bind (fun g => cmSketch_Estimate g 6#64) = .ok 0#64 := by decide

end RV.TieSketch
