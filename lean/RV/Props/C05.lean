import RV.Proofs.CacheFifoEx
/-!
# C05 — A completed Del wins over every earlier Set once writes have drained

Theorems over the small-step interleaving model `RV/Model/Cache.lean` (any number of clients, any
interleaving, any lag of the applier, any choices of the policy, sweeps and `Clear`s running
concurrently), for every reachable state.

* `queue_inv` (a), `fifo_order` (b): the write buffer (`buf` + blocked senders + the element the
  applier holds = `pending`) is a bounded FIFO with a single consumer; tombstones and markers are
  always enqueued (`tomb_enqueued`, `marker_enqueued`), only new-item `Set`s are dropped.
* `c05_del_wins`: any run from a reachable state `s0` in which no `Set` of `k` is in flight or
  issued and whose log shows a complete `Del k` followed by a complete `Wait` ends — if the cache
  is not closed — in a state where `k` is gone (`Gone`: not resident, not accounted, no `Set`-item
  of `k` pending), **or** a concurrent `Clear` that drained the tombstone is still between its
  drain loop and `k`'s shard (`ClearPending`).  A `Clear` acts on `k` itself and is therefore
  outside C05's quantifier ("every concurrent activity on other keys"); the alternative is real
  (`c05_clear_counterexample`, kept as documentation: `Clear` closes the `Wait` markers it drains
  *before* it empties the store, so `Del k; Wait; Get k` can hit while a concurrent `Clear` is in
  that window).  `c05_del_wins_partial` is the statement of the property, with the hypothesis
  that no client is in that window at the end of the run.
* `c05_get_misses`: from a state where `k` is gone (or the cache is closed), every `Get k` that
  has not yet read the store returns a miss, in every continuation without a new `Set` of `k`.
* `c05_released`, `c05_released_tomb`: the value the `Del` (resp. its tombstone) removes from the
  store is passed to `OnExit`.

`CollisionFree`: all logged `Set`/`Del`/`Get` calls of one key hash carry the same conflict hash
(otherwise a tombstone with another conflict does not delete: finding F8).
-/
namespace RV.C05
open RV RV.Cache RV.Cache.Fifo

/-- (a) the queue discipline holds in every reachable state -/
theorem queue_inv {cfg : Cfg} {s : State} (h : Reach cfg s) : QueueInv cfg s := Cache.queue_inv h

/-- (b) a step leaves the pending sequence unchanged, appends one element at its end, removes its
first element, or pre-processes the cost of the element the applier holds -/
theorem fifo_order {cfg : Cfg} {s s' : State} {a : Action} (h : Reach cfg s) (hs : step cfg s a = some s') :
    PendStep (pending s) (pending s') := Cache.fifo_order h hs

/-- tombstones and markers are never dropped; a `Set`'s item is appended or dropped, never blocks -/
theorem sends_enqueue (cfg : Cfg) (s : State) (t : Tid) :
    (∀ h c, pending (stDelSend cfg s t h c) = pending s ++ [tomb h c]) ∧
    pending (stWaitSend cfg s t) = pending s ++ [.marker s.nextMarker] ∧
    (∀ i, pending (stSetSend cfg s t i) = pending s ++ [.item i] ∨ pending (stSetSend cfg s t i) = pending s) :=
  ⟨fun h c => tomb_enqueued cfg s t h c, marker_enqueued cfg s t,
   fun i => (set_send_pending cfg s t i).imp And.left And.left⟩

theorem noSpawnSet_of {k : Hash} {acts : List Action}
    (hsp : ∀ t c v cost ttl, Action.spawn t (.set k c v cost ttl) ∉ acts) : ∀ a ∈ acts, ¬ a.isSpawnSet k := by
  intro a ha hi
  cases a with
  | spawn t c =>
    cases c <;> simp only [Action.isSpawnSet] at hi
    subst hi
    exact hsp _ _ _ _ _ ha
  | _ => exact hi

/-- (c) general form: after a complete `Del k` and a later complete `Wait` — in a run from a
reachable state with no `Set` of `k` in flight or issued, under `CollisionFree` — the cache is
closed, or `k` is gone, or a concurrent `Clear` that drained the tombstone has not yet emptied
`k`'s shard. -/
theorem c05_del_wins {cfg : Cfg} {k : Hash} {s0 s : State} {acts : List Action} {td tw : Tid} {c : Conf}
    {l0 l1 l2 l3 l4 : List Ev}
    (h0 : Reach cfg s0) (hns : ∀ t, ¬ (s0.cl t).inSetK k)
    (hsp : ∀ t c v cost ttl, Action.spawn t (.set k c v cost ttl) ∉ acts)
    (hr : run cfg s0 acts = some s) (hcf : CollisionFree s.log)
    (hlog : s.log = (l4 ++ .waitRet tw :: (l3 ++ .waitCall tw :: (l2 ++ .delRet td k :: (l1 ++ .delCall td k c :: l0)))) ++ s0.log) :
    s.closed = true ∨ Gone k s ∨ ClearPending k s :=
  (del_wait_done h0 hns (noSpawnSet_of hsp) hr (hcf.confAgree k) hlog WaitDone.of_shape).2

/-- (c) `c05_del_wins_partial`: the property's statement, with the extra hypothesis (see
`c05_clear_counterexample`) that at the end of the run no client is inside the window of a
`Clear`/`Close` between its drain loop and the last store shard.  Then `k` is not resident, not
accounted, and no `Set`-item of `k` is in `buf`, in `sendq` or held by the applier. -/
theorem c05_del_wins_partial {cfg : Cfg} {k : Hash} {s0 s : State} {acts : List Action} {td tw : Tid} {c : Conf}
    {l0 l1 l2 l3 l4 : List Ev}
    (h0 : Reach cfg s0) (hns : ∀ t, ¬ (s0.cl t).inSetK k)
    (hsp : ∀ t c v cost ttl, Action.spawn t (.set k c v cost ttl) ∉ acts)
    (hr : run cfg s0 acts = some s) (hcf : CollisionFree s.log)
    (hlog : s.log = (l4 ++ .waitRet tw :: (l3 ++ .waitCall tw :: (l2 ++ .delRet td k :: (l1 ++ .delCall td k c :: l0)))) ++ s0.log)
    (hopen : s.closed = false) (hnoclr : ∀ t, (s.cl t).clrWit = false) :
    s.store.lookup k = none ∧ s.pol.costs.lookup k = none ∧
    (∀ i, .item i ∈ pending s → i.key = k → i.flag = .del) ∧ (∀ t, ¬ (s.cl t).inSetK k) := by
  have h := del_wait_done h0 hns (noSpawnSet_of hsp) hr (hcf.confAgree k) hlog WaitDone.of_shape
  rcases h.2 with hc | hg | hcp
  · rw [hopen] at hc; cases hc
  · refine ⟨hg.1, hg.2.1, ?_, h.1⟩
    intro i hi hk
    cases hf : i.flag <;> first | rfl | exact absurd ⟨hk, by simp [hf]⟩ (hg.2.2 _ hi)
  · obtain ⟨t, ht⟩ := hcp.clrWit
    rw [hnoclr t] at ht; cases ht

/-- Once `k` is gone (or the cache is closed), every `Get k` by a client that is not already past
its store read misses, in every continuation in which no `Set` of `k` is issued; and `k` stays
gone. -/
theorem c05_get_misses {cfg : Cfg} {k : Hash} {t : Tid} {s s' : State} {acts : List Action} {new : List Ev}
    (h0 : Reach cfg s) (hns : ∀ t, ¬ (s.cl t).inSetK k) (hg : s.closed = true ∨ Gone k s)
    (hfresh : ∀ c, s.cl t ≠ .getRead k c ∧ (∀ e, s.cl t ≠ .getCheck k c e) ∧ (∀ r, s.cl t ≠ .getMetric k c r))
    (hsp : ∀ t c v cost ttl, Action.spawn t (.set k c v cost ttl) ∉ acts)
    (hr : run cfg s acts = some s') (hcf : CollisionFree s'.log) (hlog : s'.log = new ++ s.log) :
    (s'.closed = true ∨ Gone k s') ∧ ∀ c res, .getRet t k c res ∈ new → res = none := by
  have hok : GetOK k t s :=
    ⟨fun c e => absurd e (hfresh c).1, fun c e' e => absurd e ((hfresh c).2.1 e'), fun c r e => absurd e ((hfresh c).2.2 r)⟩
  have := get_misses h0 hns hg hok (noSpawnSet_of hsp) hr (hcf.confAgree k) hlog
  exact ⟨this.1, this.2.2⟩

/-- (d) the value `Del`'s immediate store delete removed has been passed to `OnExit` by the time
the `Del` returns -/
theorem c05_released {cfg : Cfg} {s0 s2 : State} {t : Tid} {h : Hash} {c : Conf} {acts : List Action}
    {new : List Ev} (h0 : Reach cfg s0) (hpc : s0.cl t = .delStart h c) (hc : s0.closed = false)
    (hr : run cfg (stDelStart s0 t h c) acts = some s2)
    (hlog : s2.log = new ++ (stDelStart s0 t h c).log) (hret : .delRet t h ∈ new) :
    .exit (delRemoved s0 h c) ∈ new := del_released h0 hpc hc hr hlog hret

/-- (d) the value the tombstone's store delete removes is passed to `OnExit` by the applier's next
step; until then the applier does nothing else -/
theorem c05_released_tomb {cfg : Cfg} {s0 s2 : State} {i : Item} {acts : List Action} {new : List Ev}
    (h0 : Reach cfg s0) (hpc : s0.app = .tombPolicy i)
    (hr : run cfg (apTombPolicy s0 i) acts = some s2) (hlog : s2.log = new ++ s0.log) :
    s2.app = .tombStore (delRemoved s0 i.key i.conflict) ∨ .exit (delRemoved s0 i.key i.conflict) ∈ new :=
  tomb_released h0 hpc hr hlog

/-- what `delRemoved` is when the key is resident with a matching conflict -/
theorem delRemoved_eq (s : State) (h : Hash) (c : Conf) (e : Entry) (he : s.store.lookup h = some e)
    (hm : Gen.Cache.delConflictMismatch c e.conflict = false) : delRemoved s h c = e.value :=
  storeDel_value s.store s.em h c e he hm

/-! ## Concrete runs -/

def cfgX : Cfg :=
  { bufCap := 4, ignoreInternal := true, costFn := none, shouldUpdate := none, metricsOn := false, maxCost := 100 }
def kX : Hash := 7#64
def cl (t : Tid) (n : Nat) : List Action := List.replicate n (.client t .none)

/-- two `Set`s of `k` by client 1, both still in the buffer (the applier has not run) -/
def preA : List Action :=
  [.spawn 1 (.set kX 0#64 11 1 0)] ++ cl 1 4 ++ [.spawn 1 (.set kX 0#64 12 1 0)] ++ cl 1 4
/-- `Del k` (the applier still parked), then the applier applies new, new, tombstone; `Wait`;
then `Get k` -/
def restA : List Action :=
  [.spawn 1 (.del kX 0#64)] ++ cl 1 4 ++
  [.applier .selItem, .applier .none, .applier (.add [] true), .applier .none] ++
  [.applier .selItem, .applier .none, .applier (.add [] false), .applier .none] ++
  [.applier .selItem, .applier .none, .applier .none, .applier .none, .applier .none] ++
  [.spawn 1 .wait] ++ cl 1 2 ++ [.applier .selItem, .applier .none] ++ cl 1 2
def getA : List Action := [.spawn 1 (.get kX 0#64)] ++ cl 1 4

theorem preA_ok : (run cfgX (init cfgX 0) preA).isSome = true := by rfl
def s0A : State := (run cfgX (init cfgX 0) preA).get preA_ok
theorem restA_ok : (run cfgX (init cfgX 0) (preA ++ restA)).isSome = true := by rfl
def sA : State := (run cfgX (init cfgX 0) (preA ++ restA)).get restA_ok
theorem getA_ok : (run cfgX (init cfgX 0) ((preA ++ restA) ++ getA)).isSome = true := by rfl
def sA' : State := (run cfgX (init cfgX 0) ((preA ++ restA) ++ getA)).get getA_ok

theorem run_preA : run cfgX (init cfgX 0) preA = some s0A := by simp [s0A]
theorem run_restA : run cfgX s0A restA = some sA := run_append_some run_preA (by simp [sA])
theorem run_getA : run cfgX sA getA = some sA' :=
  run_append_some (show run cfgX (init cfgX 0) (preA ++ restA) = some sA by simp [sA]) (by simp [sA'])

theorem idle_of_other {s : State} {acts : List Action} (hr : run cfgX (init cfgX 0) acts = some s)
    (t : Tid) (ht : t ∉ tidsOf acts) : s.cl t = .idle :=
  run_idle (Reach.of_init cfgX 0) rfl (not_mem_tidsOf ht) hr

theorem cl1_s0A : s0A.cl 1 = .idle := by rfl
theorem cl1_sA : sA.cl 1 = .idle := by rfl

theorem idle_s0A (t : Tid) : s0A.cl t = .idle := by
  by_cases h : t = 1
  · subst h; exact cl1_s0A
  · exact idle_of_other run_preA t (fun hm => h ((by decide : ∀ x ∈ tidsOf preA, x = 1) t hm))

theorem idle_sA (t : Tid) : sA.cl t = .idle := by
  by_cases h : t = 1
  · subst h; exact cl1_sA
  · exact idle_of_other (show run cfgX (init cfgX 0) (preA ++ restA) = some sA by simp [sA]) t
      (fun hm => h ((by decide : ∀ x ∈ tidsOf (preA ++ restA), x = 1) t hm))

theorem log_sAg : sA'.log =
    [.getRet 1 kX 0#64 none, .getCall 1 kX 0#64 0] ++
    (([] ++ .waitRet 1 :: ([] ++ .waitCall 1 :: ([.exit 11, .exit 12, .reject kX 0#64 12 1] ++
      .delRet 1 kX :: ([.exit 0] ++ .delCall 1 kX 0#64 :: [])))) ++
    [.setRet 1 12 true, .setExp 1 12 Gen.zeroTime, .setCall 1 kX 0#64 12 1 0,
     .setRet 1 11 true, .setExp 1 11 Gen.zeroTime, .setCall 1 kX 0#64 11 1 0]) := by rfl
theorem log_sA : sA.log =
    ([] ++ .waitRet 1 :: ([] ++ .waitCall 1 :: ([.exit 11, .exit 12, .reject kX 0#64 12 1] ++
      .delRet 1 kX :: ([.exit 0] ++ .delCall 1 kX 0#64 :: [])))) ++ s0A.log := by rfl
theorem log_sAg_sA : sA'.log = [.getRet 1 kX 0#64 none, .getCall 1 kX 0#64 0] ++ sA.log := by rfl

/-- in the example runs every call uses conflict 0 -/
theorem cf_sAg : CollisionFree sA'.log := by
  have key : ∀ h c, KeyConf sA'.log h c → c = 0#64 := by
    intro h c hk
    rw [log_sAg] at hk
    rcases hk with ⟨t, v, cost, ttl, hm⟩ | ⟨t, hm⟩ | ⟨t, now, hm⟩ <;> simp at hm <;> grind
  intro h c1 c2 h1 h2
  rw [key h c1 h1, key h c2 h2]

theorem CollisionFree.of_append {evs l : List Ev} (h : CollisionFree (evs ++ l)) : CollisionFree l := by
  intro k c1 c2 h1 h2
  have up : ∀ c, KeyConf l k c → KeyConf (evs ++ l) k c := by
    intro c hc
    rcases hc with hc | hc | ⟨t, now, hc⟩
    · exact Or.inl (hc.mono evs)
    · exact Or.inr (Or.inl (hc.mono evs))
    · exact Or.inr (Or.inr ⟨t, now, List.mem_append.mpr (Or.inr hc)⟩)
  exact h k c1 c2 (up c1 h1) (up c2 h2)

theorem cf_sA : CollisionFree sA.log := by
  have := cf_sAg; rw [log_sAg_sA] at this; exact CollisionFree.of_append this

theorem noSet_restA : ∀ t c v cost ttl, Action.spawn t (.set kX c v cost ttl) ∉ restA := by
  intro t c v cost ttl; simp [restA, cl, List.replicate]
theorem noSet_getA : ∀ t c v cost ttl, Action.spawn t (.set kX c v cost ttl) ∉ getA := by
  intro t c v cost ttl; simp [getA, cl, List.replicate]

/-- Non-vacuity of `c05_del_wins_partial`: `Set k; Set k` (both still buffered), then `Del k` with
the applier parked, then the applier applies new-item, new-item, tombstone, then `Wait`: all
hypotheses hold for this run, and the entry the first `Set` made resident *after* the `Del`'s own
store delete is gone. -/
example : sA.store.lookup kX = none ∧ sA.pol.costs.lookup kX = none ∧
    (∀ i, BufElem.item i ∈ pending sA → i.key = kX → i.flag = .del) ∧ (∀ t, ¬ (sA.cl t).inSetK kX) :=
  c05_del_wins_partial (s0 := s0A) (acts := restA) (reach_of_run_f run_preA)
    (fun t => by rw [idle_s0A t]; simp [CPc.inSetK]) noSet_restA run_restA cf_sA log_sA rfl
    (fun t => by rw [idle_sA t]; rfl)

/-- the run really goes through the interesting case: both new-items were still pending when the
`Del` ran (`s0A.buf` holds them), and the first became resident before the tombstone was applied -/
example : s0A.buf.length = 2 ∧ s0A.store.lookup kX = none ∧
    (run cfgX s0A (restA.take 9)).map (fun s => (s.store.lookup kX).map (·.value)) = some (some 11) := by
  refine ⟨by rfl, by rfl, by rfl⟩

/-- Non-vacuity of `c05_get_misses`: the `Get k` issued after the `Wait` returned misses. -/
example : ∀ c res, Ev.getRet 1 kX c res ∈ [Ev.getRet 1 kX 0#64 none, .getCall 1 kX 0#64 0] → res = none :=
  (c05_get_misses (t := 1) (reach_of_run_f (show run cfgX (init cfgX 0) (preA ++ restA) = some sA by simp [sA]))
    (fun t => by rw [idle_sA t]; simp [CPc.inSetK])
    (Or.inr ⟨by rfl, by rfl, by
      intro e he
      have : pending sA = [] := by rfl
      rw [this] at he; cases he⟩)
    (fun c => by rw [idle_sA 1]; simp) noSet_getA run_getA cf_sAg log_sAg_sA).2

/-! ### The counterexample with a concurrent `Clear` -/

/-- `Set k` by client 1, still buffered -/
def preB : List Action := [.spawn 1 (.set kX 0#64 11 1 0)] ++ cl 1 4
/-- `Del k` starts (store delete: nothing there yet); the applier applies the new-item (now `k` is
resident); the `Del` enqueues its tombstone and returns; client 2 starts a `Clear` and stops the
applier; client 1 calls `Wait` (marker behind the tombstone); `Clear`'s drain loop drains the
tombstone and closes the marker; `Wait` returns; `Get k` by client 1 — hits, because `Clear` has
not yet emptied the store. -/
def restB : List Action :=
  [.spawn 1 (.del kX 0#64)] ++ cl 1 2 ++
  [.applier .selItem, .applier .none, .applier (.add [] true), .applier .none] ++ cl 1 2 ++
  [.spawn 2 .clear, .client 2 .none, .applier (.selStop 2), .done 2] ++
  [.spawn 1 .wait] ++ cl 1 2 ++ [.client 2 .none, .client 2 .none] ++ cl 1 2 ++
  [.spawn 1 (.get kX 0#64)] ++ cl 1 4

theorem preB_ok : (run cfgX (init cfgX 0) preB).isSome = true := by rfl
def s0B : State := (run cfgX (init cfgX 0) preB).get preB_ok
theorem restB_ok : (run cfgX (init cfgX 0) (preB ++ restB)).isSome = true := by rfl
def sB : State := (run cfgX (init cfgX 0) (preB ++ restB)).get restB_ok
theorem run_preB : run cfgX (init cfgX 0) preB = some s0B := by simp [s0B]
theorem run_restB : run cfgX s0B restB = some sB := run_append_some run_preB (by simp [sB])

theorem log_sB : sB.log =
    [.getRet 1 kX 0#64 (some 11), .getCall 1 kX 0#64 0] ++
    (([] ++ .waitRet 1 :: ([.exit 0, .evict kX 0#64 0 0] ++ .waitCall 1 :: ([.clearCall 2] ++
      .delRet 1 kX :: ([.exit 0] ++ .delCall 1 kX 0#64 :: [])))) ++ s0B.log) := by rfl

theorem log_s0B : s0B.log = [.setRet 1 11 true, .setExp 1 11 Gen.zeroTime, .setCall 1 kX 0#64 11 1 0] := by rfl

theorem cf_sB : CollisionFree sB.log := by
  have key : ∀ h c, KeyConf sB.log h c → c = 0#64 := by
    intro h c hk
    rw [log_sB, log_s0B] at hk
    rcases hk with ⟨t, v, cost, ttl, hm⟩ | ⟨t, hm⟩ | ⟨t, now, hm⟩ <;> simp at hm <;> grind
  intro h c1 c2 h1 h2
  rw [key h c1 h1, key h c2 h2]

/-- **Observation (documentation): `Wait` can return while a concurrent `Clear` has dropped the
tombstone but not yet reached `k`'s shard.**  `Clear` acts on `k` itself, so it is outside C05's
quantifier ("every concurrent activity on *other* keys"); this theorem shows why the hypothesis of
`c05_del_wins_partial` (no client between `Clear`'s drain loop and the last store shard) cannot be
dropped.  In cache.go `Clear` closes `i.wait` inside its drain loop, before
`cachePolicy.Clear()` / `storedItems.Clear()`; closing the drained wait channels only after
`storedItems.Clear` would remove the window.  The run: from a reachable state with no `Set` of `k`
in flight or issued, `CollisionFree`, cache not closed: `Del k` returns, then `Wait` is called and
returns, then `Get k` is called — and hits (`some 11`): the value of the earlier `Set`, resident
again although the `Del` is complete. -/
theorem c05_clear_counterexample :
    ∃ (s0 s : State) (acts : List Action) (new : List Ev),
      Reach cfgX s0 ∧ (∀ t, ¬ (s0.cl t).inSetK kX) ∧
      (∀ t c v cost ttl, Action.spawn t (.set kX c v cost ttl) ∉ acts) ∧
      run cfgX s0 acts = some s ∧ CollisionFree s.log ∧ s.closed = false ∧
      s.log = [.getRet 1 kX 0#64 (some 11), .getCall 1 kX 0#64 0] ++ (new ++ s0.log) ∧ WaitDone kX new ∧
      (s.store.lookup kX).map (·.value) = some 11 := by
  refine ⟨s0B, sB, restB, _, reach_of_run_f run_preB, ?_, ?_, run_restB, cf_sB, by rfl, log_sB, WaitDone.of_shape, by rfl⟩
  · intro t
    have : s0B.cl t = .idle := by
      by_cases h : t = 1
      · subst h; rfl
      · exact idle_of_other run_preB t (fun hm => h ((by decide : ∀ x ∈ tidsOf preB, x = 1) t hm))
    rw [this]; simp [CPc.inSetK]
  · intro t c v cost ttl; simp [restB, cl, List.replicate]

end RV.C05
