import RV.Proofs.CacheBasic
import RV.Proofs.PolicyRefine
import RV.Props.C09
/-!
# C09 (cache level) — rejected newcomers and evicted items are reported

Step lemmas over the small-step Cache model (`RV/Model/Cache.lean`) for the applier's
processing of a *new* item, from `.costed i` back to `.idle`:

* `c09_exact_add_enabled` — the outcome `(victims, admitted)` of the exact sampled-LFU `Add`
  (`RV/Model/Policy.lean`) is always one of the choices the cache model's `polAdd` accepts, and
  the cache model then holds exactly the exact model's policy state (`RV/Proofs/PolicyRefine.lean`:
  `add_refines_polAdd_on`); so everything the cache-level theorems state "for every choice
  accepted by `polAdd`" holds in particular for what the real `Add` does.
* `c09_rejected_reported` — a newcomer that is not admitted is passed to `OnReject` and then
  `OnExit`, and the store is left unchanged; `c09_admitted_stored` — an admitted newcomer is
  stored (`lockedMap.Set`) and no callback runs for it.
* `c09_victim_reported` — each victim is deleted from the store with conflict 0 and then
  reported: `OnEvict(key, conflict, value, cost)` and `OnExit(value)` with the conflict and
  value that were removed (zero for a phantom victim or an entry already gone).
* `c09_add_reported` — the composition: along the applier steps from `.costed i` to `.idle` the
  log gains exactly [reject + exit of the newcomer, iff it is not admitted] followed by
  evict + exit for each victim in list order, for every accepted choice.
* `c09_reported` — the same for the exact `Add`, with the reason of a rejection spelled out
  (`C09.c09_reject_iff`).
-/
namespace RV.C09Cache
open RV RV.Cache

/-- an applier step without a nondeterministic choice -/
abbrev ap : Action := .applier .none

/-- **A newcomer that is not admitted is reported**: `OnReject(item)` then `OnExit(value)`;
store, expiry index and policy are untouched. -/
theorem c09_rejected_reported (cfg : Cfg) (s : State) (i : Item) (vs : List (Hash × Int))
    (h : s.app = .added i vs false) :
    ∃ s', step cfg s ap = some s' ∧
      s'.log = .exit i.value :: .reject i.key i.conflict i.value i.cost :: s.log ∧
      s'.store = s.store ∧ s'.em = s.em ∧ s'.pol = s.pol ∧ s'.app = afterVictims vs := by
  refine ⟨apAdded cfg s i vs false, by simp [step, applierStep, h, needNone], ?_⟩
  simp [apAdded]

/-- **An admitted newcomer is stored**, and no callback is invoked for it. -/
theorem c09_admitted_stored (cfg : Cfg) (s : State) (i : Item) (vs : List (Hash × Int))
    (h : s.app = .added i vs true) :
    ∃ s', step cfg s ap = some s' ∧ s'.log = s.log ∧
      s'.store = (storeSet cfg s.store s.em i).1 ∧ s'.em = (storeSet cfg s.store s.em i).2 ∧
      s'.pol = s.pol ∧ s'.app = afterVictims vs := by
  refine ⟨apAdded cfg s i vs true, by simp [step, applierStep, h, needNone], ?_⟩
  simp [apAdded]

/-- **A victim is removed and reported**: two applier steps — `lockedMap.Del(key, 0)`, then
`OnEvict` and `OnExit` with the removed conflict and value and the cost the policy reported. -/
theorem c09_victim_reported (cfg : Cfg) (s : State) (h : Hash) (c : Int) (rest : List (Hash × Int))
    (hs : s.app = .victims ((h, c) :: rest)) :
    ∃ s', run cfg s [ap, ap] = some s' ∧
      s'.log = .exit (storeDel s.store s.em h 0#64).2.2.2 ::
        .evict h (storeDel s.store s.em h 0#64).2.2.1 (storeDel s.store s.em h 0#64).2.2.2 c :: s.log ∧
      s'.store = (storeDel s.store s.em h 0#64).1 ∧ s'.em = (storeDel s.store s.em h 0#64).2.1 ∧
      s'.pol = s.pol ∧ s'.app = afterVictims rest := by
  simp [run, step, applierStep, hs, needNone, apVictims, apVictimEvict]

/-- the callbacks for a list of victims, in chronological order -/
def victimLog (st : Store) (em : Em) : List (Hash × Int) → List Ev
  | [] => []
  | (h, c) :: rest =>
    .evict h (storeDel st em h 0#64).2.2.1 (storeDel st em h 0#64).2.2.2 c ::
      .exit (storeDel st em h 0#64).2.2.2 ::
      victimLog (storeDel st em h 0#64).1 (storeDel st em h 0#64).2.1 rest

/-- store and expiry index after deleting the victims in order -/
def victimStore (st : Store) (em : Em) : List (Hash × Int) → Store × Em
  | [] => (st, em)
  | (h, _) :: rest => victimStore (storeDel st em h 0#64).1 (storeDel st em h 0#64).2.1 rest

theorem replicate_two_mul_succ (n : Nat) (a : Action) :
    List.replicate (2 * (n + 1)) a = a :: a :: List.replicate (2 * n) a := by
  have : 2 * (n + 1) = (2 * n + 1) + 1 := by omega
  rw [this, List.replicate_succ, List.replicate_succ]

/-- **All victims are reported, in list order.** -/
theorem c09_victims_run (cfg : Cfg) (vs : List (Hash × Int)) (s : State) (h : s.app = afterVictims vs) :
    ∃ s', run cfg s (List.replicate (2 * vs.length) ap) = some s' ∧ s'.app = .idle ∧
      s'.log = (victimLog s.store s.em vs).reverse ++ s.log ∧
      (s'.store, s'.em) = victimStore s.store s.em vs ∧ s'.pol = s.pol := by
  induction vs generalizing s with
  | nil =>
    refine ⟨s, by simp [run], ?_, by simp [victimLog], by simp [victimStore], rfl⟩
    simpa [afterVictims] using h
  | cons v rest ih =>
    obtain ⟨k, c⟩ := v
    have hs : s.app = .victims ((k, c) :: rest) := by simpa [afterVictims] using h
    obtain ⟨s1, hrun, hlog, hst, hem, hpol, happ⟩ := c09_victim_reported cfg s k c rest hs
    obtain ⟨s2, hrun2, happ2, hlog2, hst2, hpol2⟩ := ih s1 happ
    refine ⟨s2, ?_, happ2, ?_, ?_, by rw [hpol2, hpol]⟩
    · rw [List.length_cons, replicate_two_mul_succ]
      simp only [run] at hrun ⊢
      cases h1 : step cfg s ap with
      | none => rw [h1] at hrun; cases hrun
      | some t1 =>
        rw [h1] at hrun
        simp only at hrun ⊢
        cases h2 : step cfg t1 ap with
        | none => rw [h2] at hrun; cases hrun
        | some t2 =>
          rw [h2] at hrun
          simp only [Option.some.injEq] at hrun ⊢
          subst hrun
          exact hrun2
    · rw [hlog2, hlog, hst, hem]
      simp [victimLog]
    · rw [hst2, hst, hem]; rfl

/-- what the newcomer contributes to the log (newest first) -/
def newcomerLog (i : Item) (ok : Bool) : List Ev :=
  if ok then [] else [.exit i.value, .reject i.key i.conflict i.value i.cost]

/-- **Composition**: for every outcome `(vs, ok)` that `polAdd` accepts for the new item `i`, the
applier goes from `.costed i` back to `.idle` in `2 + 2·|vs|` steps, and the log gains exactly:
`OnReject`+`OnExit` of the newcomer iff it was not admitted, followed by `OnEvict`+`OnExit` of
every victim in list order (with the conflict and value removed from the store at that moment). -/
theorem c09_add_reported (cfg : Cfg) (s : State) (i : Item) (vs : List (Hash × Int)) (ok : Bool)
    (pm : Pol × Met) (hs : s.app = .costed i) (hnew : i.flag = .new)
    (hp : polAdd cfg.metricsOn s.pol s.met i.key i.cost vs ok = some pm) :
    ∃ s', run cfg s (.applier (.add vs ok) :: ap :: List.replicate (2 * vs.length) ap) = some s' ∧
      s'.app = .idle ∧ s'.pol = pm.1 ∧
      s'.log = (victimLog (if ok then (storeSet cfg s.store s.em i).1 else s.store)
                  (if ok then (storeSet cfg s.store s.em i).2 else s.em) vs).reverse ++
                newcomerLog i ok ++ s.log := by
  have h1 : step cfg s (.applier (.add vs ok)) =
      some { s with pol := pm.1, met := pm.2, app := .added i vs ok } := by
    simp [step, applierStep, hs, apCosted, hnew, apCostedNew, hp]
  cases ok with
  | false =>
    obtain ⟨s2, h2, hlog2, hst2, hem2, hpol2, happ2⟩ :=
      c09_rejected_reported cfg { s with pol := pm.1, met := pm.2, app := .added i vs false } i vs rfl
    obtain ⟨s3, h3, happ3, hlog3, _, hpol3⟩ := c09_victims_run cfg vs s2 happ2
    refine ⟨s3, by simp only [run, h1, h2]; exact h3, happ3, by rw [hpol3, hpol2], ?_⟩
    rw [hlog3, hlog2, hst2, hem2]
    simp [newcomerLog]
  | true =>
    obtain ⟨s2, h2, hlog2, hst2, hem2, hpol2, happ2⟩ :=
      c09_admitted_stored cfg { s with pol := pm.1, met := pm.2, app := .added i vs true } i vs rfl
    obtain ⟨s3, h3, happ3, hlog3, _, hpol3⟩ := c09_victims_run cfg vs s2 happ2
    refine ⟨s3, by simp only [run, h1, h2]; exact h3, happ3, by rw [hpol3, hpol2], ?_⟩
    rw [hlog3, hlog2, hst2, hem2]
    simp [newcomerLog]

open RV.Policy in
/-- **The exact `Add` is an accepted choice**: in a state whose policy part is well-formed and does
not overflow, for every estimator with `int64` estimates and every list of admissible
enumerations, the outcome of the exact sampled-LFU `Add` is enabled as the applier's choice at
`.costed i`, and afterwards the cache model holds the exact model's policy state. -/
theorem c09_exact_add_enabled (cfg : Cfg) (s : State) (i : Item) (est : Policy.Hash → Int) (hest : EstOK est)
    (enums : List (List KC)) (hs : s.app = .costed i) (hnew : i.flag = .new)
    (hwf : (toPolicy s.pol).wf) (hno : (toPolicy s.pol).NoOvf i.cost)
    (hadm : ((toPolicy s.pol).addFull est enums i.key i.cost).Admissible) :
    ∃ pm s1, polAdd cfg.metricsOn s.pol s.met i.key i.cost
        ((toPolicy s.pol).addFull est enums i.key i.cost).victims
        ((toPolicy s.pol).addFull est enums i.key i.cost).admitted = some pm ∧
      toPolicy pm.1 = ((toPolicy s.pol).addFull est enums i.key i.cost).pol ∧
      step cfg s (.applier (.add ((toPolicy s.pol).addFull est enums i.key i.cost).victims
        ((toPolicy s.pol).addFull est enums i.key i.cost).admitted)) = some s1 ∧
      s1.pol = pm.1 ∧ s1.store = s.store ∧ s1.log = s.log ∧
      s1.app = .added i ((toPolicy s.pol).addFull est enums i.key i.cost).victims
        ((toPolicy s.pol).addFull est enums i.key i.cost).admitted := by
  obtain ⟨pm, h1, h2, _⟩ :=
    add_refines_polAdd_on cfg.metricsOn s.pol s.met est hest enums i.key i.cost hwf hno hadm
  refine ⟨pm, { s with pol := pm.1, met := pm.2, app := .added i _ _ }, h1, h2, ?_, rfl, rfl, rfl, rfl⟩
  simp [step, applierStep, hs, apCosted, hnew, apCostedNew, h1]

open RV.Policy in
/-- **C09, reporting**: when the applier processes a new item with the exact sampled-LFU `Add`
(completed: `status = ok`), it returns to `.idle` having logged `OnReject`+`OnExit` of the
newcomer **iff** the newcomer is larger than the whole cache, or its key is already accounted,
or in some round its estimate was strictly below that of every sampled candidate — and then
`OnEvict`+`OnExit` for every victim in the order `Add` returned them. -/
theorem c09_reported (cfg : Cfg) (s : State) (i : Item) (est : Policy.Hash → Int) (hest : EstOK est)
    (enums : List (List KC)) (hs : s.app = .costed i) (hnew : i.flag = .new)
    (hwf : (toPolicy s.pol).wf) (hno : (toPolicy s.pol).NoOvf i.cost)
    (hadm : ((toPolicy s.pol).addFull est enums i.key i.cost).Admissible)
    (hok : ((toPolicy s.pol).addFull est enums i.key i.cost).status = .ok) :
    let o := (toPolicy s.pol).addFull est enums i.key i.cost
    ∃ s', run cfg s (.applier (.add o.victims o.admitted) :: ap :: List.replicate (2 * o.victims.length) ap) = some s' ∧
      s'.app = .idle ∧ toPolicy s'.pol = o.pol ∧
      s'.log = (victimLog (if o.admitted then (storeSet cfg s.store s.em i).1 else s.store)
                  (if o.admitted then (storeSet cfg s.store s.em i).2 else s.em) o.victims).reverse ++
                newcomerLog i o.admitted ++ s.log ∧
      (newcomerLog i o.admitted = [.exit i.value, .reject i.key i.conflict i.value i.cost] ↔
        (i.cost > (toPolicy s.pol).maxCost ∨ (Policy.lookup (toPolicy s.pol).keyCosts i.key).isSome ∨
          ∃ r ∈ o.rounds, ∀ kc ∈ r.sample, est i.key < est kc.1)) := by
  intro o
  obtain ⟨pm, _, h1, h2, _⟩ := c09_exact_add_enabled cfg s i est hest enums hs hnew hwf hno hadm
  obtain ⟨s', hr, happ, hpol, hlog⟩ := c09_add_reported cfg s i o.victims o.admitted pm hs hnew h1
  refine ⟨s', hr, happ, by rw [hpol]; exact h2, hlog, ?_⟩
  have hiff := C09.c09_reject_iff (toPolicy s.pol) est hest enums i.key i.cost hwf hno hok
  rw [← hiff]
  cases hadmit : o.admitted <;> simp [newcomerLog, o] at * <;> simp_all

/-! ### non-vacuity: a concrete run with an admission, an eviction and a rejection -/

def exCfg : Cfg :=
  { bufCap := 2, ignoreInternal := true, costFn := none, shouldUpdate := none, metricsOn := true, maxCost := 10 }

/-- `Set(h, v, cost)` by thread `t`, applied with the policy outcome `(vs, ok)` and `n` victim steps -/
def exSet (t : Tid) (h : Hash) (v : Val) (cost : Int) (vs : List (Hash × Int)) (ok : Bool) : List Action :=
  [.spawn t (.set h 0 v cost 0), .client t .none, .client t .none, .client t .none, .client t .none,
   .applier .selItem, ap, .applier (.add vs ok), ap] ++ List.replicate (2 * vs.length) ap

/-- key 1 (value 7, cost 6) is admitted; key 2 (value 8, cost 6) is admitted after evicting key 1;
key 3 (value 9, cost 7) is rejected -/
def exActs : List Action :=
  exSet 0 1 7 6 [] true ++ exSet 0 2 8 6 [(1, 6)] true ++ exSet 0 3 9 7 [] false

def isCallback : Ev → Bool
  | .exit _ => true
  | .evict .. => true
  | .reject .. => true
  | _ => false

example : (run exCfg (init exCfg 0) exActs).map (fun s => (s.log.filter isCallback).reverse) =
    some [.evict 1 0 7 6, .exit 7, .reject 3 0 9 7, .exit 9] ∧
    (run exCfg (init exCfg 0) exActs).map (fun s => (s.store.keys, s.pol.costs.toList, s.pol.used)) =
      some ([2], [(2, 6)], 6) := by decide

end RV.C09Cache
