import RV.Proofs.TiePolicyAddLoop
import RV.Props.TieTinyLFU
/-!
# `sampledLFU.fillSample` and `defaultPolicy.Add` (policy.go): generated whole-method translation
# = the exact policy model (`RV/Model/Policy.lean`: `fillSample`, `Pol.addFull`, `Pol.add`)

`RV/Gen/PolicyM.lean` is regenerated from policy.go on every run (go2lean/lfu*.go): the whole body of
`Add` — the too-big test, `updateIfHas`, the room test, the eviction loop (`fillSample`, the minimum
scan over the sample with `tinyLFU.Estimate`, the reject test, `p.evict.del`, the swap-remove of the
sample slice, the victims append, the recomputation of `room`) and the final `add` — with

* Go's map enumeration order as an explicit oracle `orc` (one enumeration per executed `range`;
  `fillSample` consumes one exactly when the sample is not yet full, which in `Add` is every round),
* the unbounded `for ; room < 0; …` loop run with `fuel` (more fuel than enumerations is enough:
  the oracle runs out first, which is the model's `Status.stuck`),
* Go panics (`sample[len(sample)-1]` on an empty sample) as `Res.panic` = the model's `Status.panic`,
* the `Metrics.add` calls as an ordered effect list.

`defaultPolicy_Add_ok` says: whatever the model's `addFull` returns (new accounting, victims in order,
admitted, status, rounds) is what the generated function returns, through the abstraction
`absPol` / `absV` (`int64` words read as `Int`s), together with the exact effect list, the rest of
the oracle and the untouched fields.  Nothing is assumed about costs (wrapping arithmetic on both
sides), about the enumerations, or about the estimator beyond "it is what `tinyLFU.Estimate`
returns on `p.admit_`"; `defaultPolicy_Add_tinylfu` discharges that with `TieTinyLFU`.
-/
set_option linter.unusedSimpArgs false
namespace RV.TiePolicyAdd
open GenL Gen.PolicyM Gen.TinyLFUM RV.Policy RV.Tie RV.TieL

variable {Door V : Type} {ops : BloomOps Door}

/-! ## fillSample -/

/-- `sampledLFU.fillSample(in)`: unchanged when already full (no `range` is executed); otherwise the
next enumeration of the oracle is consumed and the result is `fillArr`; no enumeration left = stuck. -/
theorem tie_fillSample (p : SampledLFU) (s : Array PolicyPair) (orc : Orc) :
    sampledLFU_fillSample p s orc =
      if fullBefore s.size then .ok (s, orc)
      else match orc with
        | [] => .stuck
        | e :: rest => .ok (fillArr s e, rest) :=
  sampledLFU_fillSample_eq p s orc

/-- … and `fillArr` is the model's `fillSample` (append, then test `len(in) >= lfuSample`). -/
theorem tie_fillSample_model (s : Array PolicyPair) (e : List (BitVec 64 × BitVec 64)) :
    RV.Policy.fillSample (absS s) (absE e) = if fullBefore s.size then absS s else absS (fillArr s e) :=
  absS_fillSample s e

/-- without the early exit the loop would take the whole enumeration: the sample never exceeds
`lfuSample` entries -/
theorem tie_fillSample_size (s : Array PolicyPair) (e : List (BitVec 64 × BitVec 64))
    (hs : s.size < Gen.Policy.lfuSample.toNat) : (fillArr s e).size ≤ Gen.Policy.lfuSample.toNat :=
  size_fillArr_le s e hs

/-! ## Add -/

/-- everything `defaultPolicy.Add` returns, given what the model's `addFull` returns -/
def AddOK (p : DefaultPolicy Door) (key cost : BitVec 64) (orc : Orc) (o : AddOut)
    (r : Res (AddRes Door V)) : Prop :=
  match o.status with
  | .stuck => r = .stuck
  | .panic => r = .panic
  | .ok =>
    ∃ p' v', r = .ok (p', v', o.admitted,
        (if tooBig cost.toInt (absPol p.evict).maxCost then [] else updEffs p.evict.metrics_nonnil (absPol p.evict) key cost)
          ++ loopEffs p.metrics_nonnil p.evict.metrics_nonnil key cost o,
        orc.drop o.rounds.length) ∧
      absPol p'.evict = o.pol ∧ absV v' = o.victims ∧ Frame p p'

/-- **`defaultPolicy.Add` = the model's `addFull`** (hence `Pol.add`): for every oracle `orc` of map
enumerations and every `fuel` exceeding their number, with the estimator `ee` that
`tinyLFU.Estimate` computes on `p.admit_`. -/
theorem defaultPolicy_Add_ok (zeroV : V) (p : DefaultPolicy Door) (ee : BitVec 64 → BitVec 64)
    (hE : ∀ k, tinyLFU_Estimate ops p.admit_ k = .ok (ee k)) (key cost : BitVec 64) (orc : Orc) (fuel : Nat)
    (hf : orc.length < fuel) :
    AddOK p key cost orc
      ((absPol p.evict).addFull (fun k => (ee k).toInt) (orc.map absE) key cost.toInt)
      (defaultPolicy_Add zeroV ops fuel p key cost orc) := by
  unfold defaultPolicy_Add Pol.addFull
  simp only [AddOK, tooBig_eq]
  by_cases htb : BitVec.slt (sampledLFU_getMaxCost p.evict) cost = true
  · simp only [htb, if_true, loopEffs, List.flatMap_nil, Bool.false_eq_true, if_false, List.append_nil,
      List.length_nil, List.drop_zero]
    exact ⟨p, #[], rfl, rfl, rfl, rfl, rfl, rfl, rfl⟩
  · simp only [htb, if_false, Bool.false_eq_true]
    have hupd := sampledLFU_updateIfHas_eq p.evict key cost
    simp only at hupd
    rw [← hupd]
    cases hhas : (sampledLFU_updateIfHas p.evict key cost).2.1
    · -- not accounted yet
      obtain ⟨hu1, hu2, hu3⟩ := sampledLFU_updateIfHas_false p.evict key cost hhas
      have hueff : updEffs p.evict.metrics_nonnil (absPol p.evict) key cost = [] := by
        simp [updEffs, hu3]
      simp only [Bool.false_eq_true, if_false, hu1, hu2, hueff, List.append_nil, List.nil_append, roomOk_eq]
      by_cases hroom : BitVec.sle 0#64 (sampledLFU_roomLeft p.evict cost) = true
      · simp only [hroom, if_true, loopEffs, List.flatMap_nil, List.nil_append, List.length_nil, List.drop_zero]
        exact ⟨{ p with evict := sampledLFU_add p.evict key cost }, #[], by simp [metric_costAdd],
          sampledLFU_add_eq _ _ _, rfl, rfl, rfl, rfl, by simp [sampledLFU_add]⟩
      · simp only [hroom, if_false, Bool.false_eq_true, hE key, Res.bind_ok]
        have L := loop_spec (ops := ops) zeroV p.admit_ ee hE key cost (ee key) orc fuel p #[] (#[] : Array (Item V)) []
          hf rfl (by simp [lfuSample_eq])
        have hS : absS #[] = [] := rfl
        rw [hS] at L
        revert L
        generalize evictLoop (fun k => (ee k).toInt) key cost.toInt (ee key).toInt (orc.map absE)
          (absPol p.evict) [] = o
        generalize whileL fuel defaultPolicy_Add_cond1 (defaultPolicy_Add_loop1 zeroV ops key cost (ee key))
          (p, sampledLFU_roomLeft p.evict cost, #[], #[], [], orc) = r
        intro L
        simp only [LoopOK] at L
        cases hst : o.status <;> simp only [hst] at L ⊢
        · by_cases hadmit : o.admitted = true
          · simp only [hadmit, if_true] at L ⊢
            obtain ⟨p', room', s'', v', h1, h2, h3, h4, h5', h6, h7⟩ := L
            rw [h1]
            simp only [Res.bind_ok, loopEffs, hadmit, if_true]
            refine ⟨{ p' with evict := sampledLFU_add p'.evict key cost }, v', ?_, ?_, by simpa [absV] using h3, ?_⟩
            · simp [metric_costAdd, h6]
            · rw [sampledLFU_add_eq]; exact h2
            · exact ⟨h4, h5', h6, by simp [sampledLFU_add, h7]⟩
          · simp only [hadmit, if_false, Bool.false_eq_true] at L ⊢
            obtain ⟨p', v', h1, h2, h3, h4, h5', h6, h7⟩ := L
            rw [h1]
            have hadm' : o.admitted = false := by simpa using hadmit
            simp only [Res.bind_ok, loopEffs, hadm', Bool.false_eq_true, if_false, List.append_nil]
            exact ⟨p', v', rfl, h2, by simpa [absV] using h3, h4, h5', h6, h7⟩
        · rw [L]; rfl
        · rw [L]; rfl
    · have hueff := sampledLFU_updateIfHas_effs p.evict key cost
      simp only [if_true, loopEffs, List.flatMap_nil, Bool.false_eq_true, if_false, List.append_nil,
        List.length_nil, List.drop_zero, hueff]
      exact ⟨{ p with evict := (sampledLFU_updateIfHas p.evict key cost).1 }, #[], by simp, rfl, rfl, rfl, rfl, rfl,
        sampledLFU_updateIfHas_frame _ _ _⟩


/-- the result of a run of the model as a `Res` -/
def resOf (o : AddOut) : Res (Pol × List KC × Bool) :=
  match o.status with
  | .ok => .ok (o.pol, o.victims, o.admitted)
  | .panic => .panic
  | .stuck => .stuck

/-- abstraction of what `Add` returns: accounting, victims `(key, cost)` in order, admitted -/
def absOut (r : AddRes Door V) : Pol × List KC × Bool := (absPol r.1.evict, absV r.2.1, r.2.2.1)

/-- `defaultPolicy.Add` through the abstraction is the model's run: the same accounting, the same
victims in the same order, the same verdict; it panics iff the model panics and is stuck iff the
model is stuck (the enumerations ran out while `room < 0`). -/
theorem defaultPolicy_Add_eq (zeroV : V) (p : DefaultPolicy Door) (ee : BitVec 64 → BitVec 64)
    (hE : ∀ k, tinyLFU_Estimate ops p.admit_ k = .ok (ee k)) (key cost : BitVec 64) (orc : Orc) (fuel : Nat)
    (hf : orc.length < fuel) :
    (defaultPolicy_Add zeroV ops fuel p key cost orc).map absOut =
      resOf ((absPol p.evict).addFull (fun k => (ee k).toInt) (orc.map absE) key cost.toInt) := by
  have h := defaultPolicy_Add_ok zeroV p ee hE key cost orc fuel hf
  revert h
  generalize (absPol p.evict).addFull (fun k => (ee k).toInt) (orc.map absE) key cost.toInt = o
  generalize defaultPolicy_Add zeroV ops fuel p key cost orc = r
  intro h
  simp only [AddOK, resOf] at h ⊢
  cases hst : o.status <;> simp only [hst] at h ⊢
  · obtain ⟨p', v', h1, h2, h3, _⟩ := h
    rw [h1, Res.map_ok, absOut, h2, h3]
  · rw [h]; rfl
  · rw [h]; rfl

/-- in terms of `Pol.add` when the run completes -/
theorem defaultPolicy_Add_add (zeroV : V) (p : DefaultPolicy Door) (ee : BitVec 64 → BitVec 64)
    (hE : ∀ k, tinyLFU_Estimate ops p.admit_ k = .ok (ee k)) (key cost : BitVec 64) (orc : Orc) (fuel : Nat)
    (hf : orc.length < fuel)
    (hok : ((absPol p.evict).addFull (fun k => (ee k).toInt) (orc.map absE) key cost.toInt).status = .ok) :
    (defaultPolicy_Add zeroV ops fuel p key cost orc).map absOut =
      .ok ((absPol p.evict).add (fun k => (ee k).toInt) (orc.map absE) key cost.toInt) := by
  rw [defaultPolicy_Add_eq zeroV p ee hE key cost orc fuel hf]
  simp only [resOf, hok, Pol.add]

/-- every victim record is `{Key, Conflict: 0, Cost}` with a zero value, as `Add` builds it -/
theorem victimOf_fields (zeroV : V) (k c : BitVec 64) :
    (victimOf zeroV k c).Key = k ∧ (victimOf zeroV k c).Cost = c ∧ (victimOf zeroV k c).Conflict = 0#64 ∧
      (victimOf zeroV k c).Value = zeroV := ⟨rfl, rfl, rfl, rfl⟩

/-- the estimator is `tinyLFU.Estimate`, i.e. the TinyLFU model's `estimate` (C18), when the
doorkeeper meets its specification and the sketch its guard -/
theorem defaultPolicy_Add_tinylfu (zeroV : V) (p : DefaultPolicy Door) (absD : Door → RV.Bloom.Bloom)
    (S : RV.TieTinyLFU.DoorSpec ops absD) (G : RV.TieSketch.Guard p.admit_.freq)
    (key cost : BitVec 64) (orc : Orc) (fuel : Nat) (hf : orc.length < fuel) :
    (defaultPolicy_Add zeroV ops fuel p key cost orc).map absOut =
      resOf ((absPol p.evict).addFull
        (fun k => (RV.TinyLFU.estimate (RV.TieTinyLFU.absT absD p.admit_) k).toInt) (orc.map absE) key cost.toInt) :=
  defaultPolicy_Add_eq zeroV p _ (fun k => RV.TieTinyLFU.tinyLFU_Estimate_eq S p.admit_ k G) key cost orc fuel hf

/-! ## non-vacuity: a concrete policy (MaxCost 10, keys 1 and 2 accounted with costs 6 and 4, the
TinyLFU of `TieTinyLFU.demoT`), one `Add(3, 5)` that must evict -/

def demoP : DefaultPolicy RV.Bloom.Bloom :=
  { admit_ := RV.TieTinyLFU.demoT
    evict := { maxCost := 10#64, used := 10#64, metrics_nonnil := true,
               keyCosts := [(1#64, 6#64), (2#64, 4#64)] }
    isClosed := false, metrics_nonnil := true }

def demoOrc : Orc := [[(2#64, 4#64), (1#64, 6#64)], [(1#64, 6#64)]]

/-- the hypotheses of `defaultPolicy_Add_tinylfu` hold on the demo -/
example : (defaultPolicy_Add (0 : Nat) RV.TieTinyLFU.bloomOps 3 demoP 3#64 5#64 demoOrc).map absOut =
    resOf ((absPol demoP.evict).addFull
      (fun k => (RV.TinyLFU.estimate (RV.TieTinyLFU.absT id demoP.admit_) k).toInt) (demoOrc.map absE) 3#64 (5#64 : BitVec 64).toInt) :=
  defaultPolicy_Add_tinylfu 0 demoP id RV.TieTinyLFU.doorSpec_model RV.TieSketch.demo_guard 3#64 5#64 demoOrc 3 (by decide)

end RV.TiePolicyAdd
