import RV.Proofs.AllocMem
import RV.Proofs.AllocTrim
import RV.Proofs.AllocReplay
import RV.Proofs.AllocNoWrap
/-!
# C12 — z.Allocator hands out disjoint, stable, exactly sized memory, also concurrently

Model: `RV/Model/Alloc.lean` (small-step interleaving semantics of `Allocate`, one step per
atomic section between the `verif` yield points; any number `n` of goroutines, any first
chunk length `c0`, any schedule).  All comparisons / packing / size arithmetic are the
generated kernels `Gen.Alloc.*`.

Hypothesis of the safety theorems: `ReachNW`, i.e. no atomic add of the run carries out of
the 32-bit offset half of `compIdx` (`NoCarry`).  It cannot be dropped:
`c12_wrap_counterexample` (finding F7).  `c12_nowrap_sufficient` gives a condition on the
number of goroutines and the request sizes under which it holds automatically.

`Reset`/`TrimTo` are steps that are only enabled while no goroutine is inside the
allocator (the code gives no protection otherwise).
-/
namespace RV.C12
open RV.Alloc Gen.Alloc

/-- What the caller asked for, in bytes. -/
def requested : Op → Nat
  | .alloc sz => sz.toNat
  | .aligned sz => sz.toNat
  | .copy d => d.length

/-- **Disjoint, inside their chunk, exactly sized.**  In every state reachable without a
carrying add – any number of goroutines, any interleaving, any sizes, any Reset/TrimTo
history – the slices handed out since the last `Reset` are pairwise disjoint, lie inside
their chunk, have exactly the length handed to `Allocate`, and no goroutine has run into an
index / slice-bounds panic. -/
theorem c12_disjoint (c0 n : Nat) (hc : c0 < 2 ^ 63) (s : State) (h : ReachNW (init c0 n) s) :
    (s.grants.Pairwise fun g g' => Disj g.reg g'.reg) ∧
    (∀ g ∈ s.grants, g.reg.off + g.reg.len ≤ chunkLen s.chunks g.reg.chunk ∧
      g.reg.len = g.op.inner.toNat ∧ 0 < g.reg.len) ∧
    NoBoundsPanic s := by
  obtain ⟨hI, hP⟩ := safe_reachNW hc h
  refine ⟨hI.grantDisj, fun g hg => ?_, hP⟩
  obtain ⟨_, h2, h3, _, h5⟩ := hI.grantIn g hg
  exact ⟨h2, h5, h3⟩

/-- The slice the *caller* receives (for `AllocateAligned` the aligned sub-slice) has exactly
the requested length and lies inside the granted region – so the received slices are pairwise
disjoint as well.  Sizes are non-negative Go ints (`< 2^63`), addresses do not wrap. -/
theorem c12_exact_length (c0 n : Nat) (hc : c0 < 2 ^ 63) (s : State) (h : ReachNW (init c0 n) s)
    (base : Nat → W) (g : Grant) (hg : g ∈ s.grants)
    (hnonneg : ∀ sz, g.op = .aligned sz → sz.toNat < 2 ^ 63)
    (hcopy : ∀ d, g.op = .copy d → d.length < 2 ^ 64)
    (haddr : (base g.reg.chunk).toNat + g.reg.off + g.reg.len < 2 ^ 64) :
    (resultOf base g).len = requested g.op ∧ (resultOf base g).chunk = g.reg.chunk ∧
    g.reg.off ≤ (resultOf base g).off ∧
    (resultOf base g).off + (resultOf base g).len ≤ g.reg.off + g.reg.len := by
  obtain ⟨_, hin, _⟩ := c12_disjoint c0 n hc s h
  obtain ⟨_, hlen, _⟩ := hin g hg
  cases hop : g.op with
  | alloc sz =>
    simp only [resultOf, hop, requested]
    refine ⟨?_, trivial, Nat.le_refl _, Nat.le_refl _⟩
    rw [hlen, hop]; simp [Op.inner]
  | copy d =>
    simp only [resultOf, hop, requested]
    refine ⟨?_, trivial, Nat.le_refl _, Nat.le_refl _⟩
    rw [hlen, hop]
    have := hcopy d hop
    simp only [Op.inner, BitVec.toNat_ofNat]
    omega
  | aligned sz =>
    have hs := hnonneg sz hop
    have hl : g.reg.len = sz.toNat + 7 := by
      rw [hlen, hop]; simp only [Op.inner]; exact alignedTotal_toNat sz (by omega)
    obtain ⟨a1, _, a3, a4, a5⟩ := alignedSub_spec (base g.reg.chunk) g.reg sz hl haddr
    simp only [resultOf, hop, requested]
    exact ⟨a5, a1, a3, a4⟩

/-- **Stable.**  No step other than `TrimTo` removes, replaces or resizes a chunk: the table
keeps its 64 slots and every non-empty slot keeps its length (new chunks only go into empty
slots).  So a returned slice is never moved. -/
theorem c12_stable (c0 n : Nat) (hc : c0 < 2 ^ 63) (s s' : State) (h : ReachNW (init c0 n) s)
    (a : Action) (ha : ∀ mx, a ≠ .trim mx) (hs : step s a = some s') :
    s'.chunks.length = s.chunks.length ∧
    ∀ i, chunkLen s.chunks i ≠ 0 → chunkLen s'.chunks i = chunkLen s.chunks i :=
  stable_step (safe_reachNW hc h).1 ha hs

/-- … and it is never handed out again before `Reset`: only `Reset`/`TrimTo` forget a grant,
every other step keeps the list or puts one new grant in front (which `c12_disjoint` shows
disjoint from all the older ones). -/
theorem c12_never_reused (s s' : State) (a : Action) (ha : a ≠ .reset) (ha' : ∀ mx, a ≠ .trim mx)
    (hs : step s a = some s') : s'.grants = s.grants ∨ ∃ g, s'.grants = g :: s.grants :=
  grants_step ha ha' hs

/-- **Never overwritten.**  The only bytes the allocator itself writes (`ZeroOut` in
`AllocateAligned`, `copy` in `Copy`) lie in the slice granted by that very step; every byte of
every slice handed out earlier (since the last Reset) is unchanged. -/
theorem c12_not_overwritten (c0 n : Nat) (hc : c0 < 2 ^ 63) (ms ms' : MState)
    (h : ReachNW (init c0 n) ms.st) (a : Action) (hN : NoCarry ms.st a)
    (hs : mstep ms a = some ms') (g : Grant) (hg : g ∈ ms.st.grants) (c o : Nat)
    (hin : inRegion g.reg c o) : ms'.mem c o = ms.mem c o :=
  not_overwritten (safe_reachNW hc h).1 hN hs g hg c o hin

/-- **AllocateAligned.**  For every base address of the chunk: the returned slice is 8-byte
aligned, has length `sz`, lies inside the `sz+7` bytes obtained from `Allocate`, and all of
its bytes are zero when the call returns. -/
theorem c12_aligned_zeroed (ms ms' : MState) (t : Nat) (g : Grant) (sz : W) (base : W)
    (hs : mstep ms (.check t) = some ms') (hg : ms'.st.grants = g :: ms.st.grants)
    (hop : g.op = .aligned sz) (hlen : g.reg.len = sz.toNat + 7)
    (haddr : base.toNat + g.reg.off + g.reg.len < 2 ^ 64) :
    (base.toNat + (alignedSub base g.reg sz).off) % 8 = 0 ∧
    (alignedSub base g.reg sz).len = sz.toNat ∧
    g.reg.off ≤ (alignedSub base g.reg sz).off ∧
    (alignedSub base g.reg sz).off + (alignedSub base g.reg sz).len ≤ g.reg.off + g.reg.len ∧
    ∀ i, i < (alignedSub base g.reg sz).len →
      ms'.mem g.reg.chunk ((alignedSub base g.reg sz).off + i) = 0#8 := by
  obtain ⟨a1, a2, a3, a4, a5⟩ := alignedSub_spec base g.reg sz hlen haddr
  refine ⟨a2, a5, a3, a4, fun i hi => ?_⟩
  exact (granted_mem hs hg).1 sz hop _ _ ⟨rfl, by omega, by omega⟩

/-- **Copy** returns a slice holding exactly the bytes of its argument. -/
theorem c12_copy (ms ms' : MState) (t : Nat) (g : Grant) (d : List (BitVec 8))
    (hs : mstep ms (.check t) = some ms') (hg : ms'.st.grants = g :: ms.st.grants)
    (hop : g.op = .copy d) (hlen : g.reg.len = d.length) :
    ∀ i (hi : i < d.length), ms'.mem g.reg.chunk (g.reg.off + i) = d[i] := by
  intro i hi
  rw [(granted_mem hs hg).2 d hop i (by omega)]
  simp [List.getD_eq_getElem?_getD, hi]

/-- **Reset and replay.**  From a quiescent allocator whose offset word is 0 run any schedule
(any goroutines, interleaving, sizes; no carrying add, nobody dies inside the critical
section) to a quiescent state, `Reset`, and run the same schedule again: every step is enabled
again and the run ends in the *same state* – the same slices in the same order for the same
callers, and the same chunk table: no memory is acquired.  (The sequential case is the
schedule of one goroutine.) -/
theorem c12_reset_replay (c0 n : Nat) (hc : c0 < 2 ^ 63) (hc0 : c0 ≠ 0) (acts : List Action)
    (s1 : State) (hN : NoCarryRun (init c0 n) acts) (hp : ∀ a ∈ acts, Plain a)
    (hrun : run (init c0 n) acts = some s1) (hl : s1.lockHeld = false) (hidle : allIdle s1 = true) :
    ∃ s1r, step s1 .reset = some s1r ∧ run s1r acts = some s1 := by
  have hL : Live (init c0 n) := by
    intro i hi
    have : B (init c0 n) = 0 := by simp [B_def, init]
    rw [this] at hi
    have : i = 0 := by omega
    subst this
    simpa [init, chunkLen] using hc0
  have hidle0 : allIdle (init c0 n) = true := by simp [allIdle, init]
  exact reset_replay (inv_init c0 n hc) hL rfl rfl hidle0 hN hp hrun hl hidle

/-- The same from any quiescent state reached earlier (e.g. after a previous `Reset`, with
chunks left over from earlier epochs). -/
theorem c12_reset_replay_from (s0 s1 : State) (acts : List Action) (hI : Inv s0) (hL : Live s0)
    (h0 : s0.compIdx = 0#64) (hg : s0.grants = []) (hidle0 : allIdle s0 = true)
    (hN : NoCarryRun s0 acts) (hp : ∀ a ∈ acts, Plain a) (hrun : run s0 acts = some s1)
    (hl : s1.lockHeld = false) (hidle1 : allIdle s1 = true) :
    ∃ s1r, step s1 .reset = some s1r ∧ run s1r acts = some s1 :=
  reset_replay hI hL h0 hg hidle0 hN hp hrun hl hidle1

/-- **TrimTo** keeps the first `k` chunks and empties every later non-empty slot (total size
below 2^63).  NB `k = 0` is possible (`max ≤ len(chunk 0)`): then the allocator has no chunk
left and the next `Allocate` never returns – see `trim_then_allocate_hangs`. -/
theorem trim_suffix (mx : W) (cs : List Nat) (h : cs.sum < 2 ^ 63) :
    ∃ k, k ≤ nonEmptyPrefix cs ∧ ∀ i, chunkLen (trimTo mx cs) i =
      if i < k then chunkLen cs i else if i < nonEmptyPrefix cs then 0 else chunkLen cs i :=
  trimFrom_suffix mx cs 0#64 (by simpa using h)

/-! ## When the hypothesis holds by itself -/

/-- **NoWrap for free.**  `n` goroutines, every request at most `S` bytes, every chunk at most
`M ≥ maxAlloc` bytes (first chunk `c0 ≤ M`; new chunks are capped at `maxAlloc`): if
`M + n·S < 2^32` then *no* run (`ReachOK`: any interleaving, any Reset/TrimTo history, as long
as nobody has died inside the critical section) ever carries, so all the theorems above apply
unconditionally.  Instances below.  The bound is sharp: with `M = S = 2^30` it allows
`n ≤ 2`; three goroutines on a full 1 GiB chunk and four in general do carry (F7). -/
theorem c12_nowrap_sufficient (c0 n M S : Nat) (hc : c0 ≤ M) (hM : 2 ^ 30 ≤ M)
    (hb : M + n * S < 2 ^ 32) (s : State) (h : ReachOK S (init c0 n) s) :
    ReachNW (init c0 n) s :=
  (nowrap_sufficient hc hM hb h).1

/-- Up to two goroutines, any legal request sizes (`≤ maxAlloc`), first chunk up to 1 GiB. -/
theorem c12_two_goroutines (c0 n : Nat) (hc : c0 ≤ 2 ^ 30) (hn : n ≤ 2) (s : State)
    (h : ReachOK (2 ^ 30) (init c0 n) s) : ReachNW (init c0 n) s := by
  refine c12_nowrap_sufficient c0 n (2 ^ 30) (2 ^ 30) hc (Nat.le_refl _) ?_ s h
  have : n * 2 ^ 30 ≤ 2 * 2 ^ 30 := Nat.mul_le_mul_right _ hn
  omega

/-- Sequential use (one goroutine): first chunk up to 2 GiB. -/
theorem c12_sequential (c0 : Nat) (hc : c0 ≤ 2 ^ 31) (s : State)
    (h : ReachOK (2 ^ 30) (init c0 1) s) : ReachNW (init c0 1) s :=
  c12_nowrap_sufficient c0 1 (2 ^ 31) (2 ^ 30) hc (by decide) (by decide) s h

/-- Up to five goroutines with requests of at most 512 MiB. -/
theorem c12_five_goroutines_half_gib (c0 n : Nat) (hc : c0 ≤ 2 ^ 30) (hn : n ≤ 5) (s : State)
    (h : ReachOK (2 ^ 29) (init c0 n) s) : ReachNW (init c0 n) s := by
  refine c12_nowrap_sufficient c0 n (2 ^ 30) (2 ^ 29) hc (Nat.le_refl _) ?_ s h
  have : n * 2 ^ 29 ≤ 5 * 2 ^ 29 := Nat.mul_le_mul_right _ hn
  omega

/-- **No spinning.**  While every chunk up to the current one exists (`Live`: true initially,
preserved by every step except a `TrimTo` that frees the first or the current chunk –
`live_step`) and chunks are below 2^60 bytes, the critical section never hangs in
`for pageSize < minSz { pageSize *= 2 }`. -/
theorem c12_no_hang (s s' : State) (t : Nat) (hI : Inv s) (hL : Live s)
    (hle : ∀ c ∈ s.chunks, c ≤ 2 ^ 60) (h : step s (.grow t) = some s') :
    ∀ th, s'.threads[t]? = some th → th.pc ≠ .hung :=
  no_hang hI hL hle h

/-! ## The hypothesis cannot be dropped (finding F7) -/

def f7Size : W := 1073741824#64

/-- Four goroutines call `Allocate(1<<30)` on an allocator with a 512-byte first chunk
(`NewAllocator(512)`) and all do their atomic add before the first bounds check. -/
def f7Schedule : List Action :=
  [.start 0 (.alloc f7Size), .start 1 (.alloc f7Size), .start 2 (.alloc f7Size), .start 3 (.alloc f7Size),
   .add 0, .add 1, .add 2, .add 3, .check 3]

/-- Without `NoCarry`: the fourth add carries into the chunk index (`compIdx = 1<<32`), the
fourth goroutine indexes the nil chunk 1 with offset 0 and `buf[0-1<<30 : 0]` panics
(slice bounds out of range) – replayed on the real allocator by the stream `alloc_f7`. -/
theorem c12_wrap_counterexample :
    ∃ s, run (init 512 4) f7Schedule = some s ∧ s.compIdx = 4294967296#64 ∧
      (s.threads[3]?).map (·.pc) = some (.panicked .bounds) ∧ ¬ NoBoundsPanic s ∧
      runNW (init 512 4) f7Schedule = none := by
  have h : ∃ s, run (init 512 4) f7Schedule = some s ∧ s.compIdx = 4294967296#64 ∧
      (s.threads[3]?).map (·.pc) = some (.panicked .bounds) ∧
      runNW (init 512 4) f7Schedule = none := by decide
  obtain ⟨s, h1, h2, h3, h4⟩ := h
  refine ⟨s, h1, h2, h3, ?_, h4⟩
  intro hP
  cases hth : s.threads[3]? with
  | none => simp [hth] at h3
  | some th =>
    simp only [hth, Option.map_some, Option.some.injEq] at h3
    exact hP 3 th hth h3

/-- `TrimTo(max)` with `max ≤ len(chunk 0)` frees every chunk; the next `Allocate` spins forever
in `for pageSize < minSz { pageSize *= 2 }` with `pageSize = 0`, holding the mutex. -/
theorem trim_then_allocate_hangs :
    ∃ s, run (init 16 1)
        [.trim 16#64, .reset, .start 0 (.alloc 1#64), .add 0, .check 0, .grow 0] = some s ∧
      (s.threads[0]?).map (·.pc) = some .hung ∧ s.lockHeld = true := by
  decide

/-! ## Non-vacuity -/

/-- A concrete concurrent run without carry: two goroutines, growth, a lost race, three
grants – the hypotheses of `c12_disjoint` are satisfiable on a non-trivial state. -/
def demoSchedule : List Action :=
  [.start 0 (.alloc 40#64), .start 1 (.aligned 30#64), .add 0, .add 1, .check 1, .check 0,
   .grow 1, .add 1, .check 1, .start 0 (.copy [1#8, 2#8, 3#8]), .add 0, .check 0]

example : ∃ s, ReachNW (init 64 2) s ∧ s.grants.length = 3 ∧ s.chunks.take 2 = [64, 128] ∧
    s.grants.map (·.reg) = [⟨1, 37, 3⟩, ⟨1, 0, 37⟩, ⟨0, 0, 40⟩] := by
  have h : ∃ s, runNW (init 64 2) demoSchedule = some s ∧ s.grants.length = 3 ∧
      s.chunks.take 2 = [64, 128] ∧
      s.grants.map (·.reg) = [⟨1, 37, 3⟩, ⟨1, 0, 37⟩, ⟨0, 0, 40⟩] := by decide
  obtain ⟨s, h1, h2⟩ := h
  exact ⟨s, reachNW_of_runNW ReachNW.init h1, h2⟩

/-- `c12_reset_replay`'s hypotheses hold for that schedule: it ends quiescent, lock free. -/
example : ∃ s1, runNW (init 64 2) demoSchedule = some s1 ∧ s1.lockHeld = false ∧
    allIdle s1 = true ∧ ∀ a ∈ demoSchedule, a ≠ .reset := by decide

/-- `alignedSub` on a concrete unaligned address: base 0x1003, region at offset 2 of 17 bytes,
10 requested: the result starts at offset 5 (address 0x1008). -/
example : alignedSub 0x1003#64 ⟨0, 2, 17⟩ 10#64 = ⟨0, 5, 10⟩ := by decide

/-- `TrimTo(25)` on chunks 10, 20, 40: the running total reaches 25 at the second chunk, which
is freed together with everything after it. -/
example : trimTo 25#64 [10, 20, 40, 0] = [10, 0, 0, 0] := by decide

end RV.C12
