import RV.Proofs.TieAllocGrow
import RV.Proofs.TieAllocMisc
import RV.Proofs.TieAllocStep
/-!
# TieAlloc — z/allocator.go translated WHOLE (`RV/Gen/AllocM.lean`, regenerated from /repo on every
run by go2lean/allocm*.go) is the model `RV/Model/Alloc.lean` that the C12 theorems are about.

`Gen.AllocM` has one Lean function per Go function (`parse`, `log2`, `NewAllocator`, `Reset`, `Size`,
`Allocated`, `TrimTo`, `addBufferAt`) and, for the functions with yield points (`Allocate`, and its
callers `AllocateAligned`, `Copy`), one function per SECTION between two yield points, cut
automatically; a section maps the allocator and the live locals to the allocator and an
`Allocate_Out` value (where it stopped, live locals).  The hand-written meaning of the Go constructs
is `RV/GenAlloc.lean` (`Bytes`, the result type `Res` = value / panic / spin / blocked, loops with fuel).

Abstraction (`RV/Proofs/TieAllocBase.lean`): the model's chunk table is `chunksOf a` = the lengths
of `a.buffers`; `compIdx` is the same word; the model's `lockHeld` is `a.locked`; Go `int`s are
`BitVec 64` on both sides; a Go panic is `Res.panic` (model: `Checked.panic`, `GrowRes.outOfSlots`,
`Pc.panicked`), a loop that never ends is `Res.spin` for EVERY fuel (model: `GrowRes.hang`).
`WfA a`: every slot is nil or a whole `Calloc` block (offset 0, cap = len < 2^63), < 2^63 slots.

Correspondence of the sections of `Allocate` with the model's steps (`RV.Alloc.step`):
`Allocate_entry` = `start`; `Allocate_top` = `add`; `Allocate_vpAllocAdded` = `check` (`checkPos`);
`Allocate_vpAllocBeforeLock` followed by `Allocate_vpAllocRetry_k` = `grow`.
-/
namespace RV.TieAlloc
open Gen.AM Gen.AllocM Gen.Alloc RV.Alloc

-- the `example`s evaluate the generated functions / the model in the kernel (`decide`)
set_option maxRecDepth 40000

/-! ## concrete allocators for the examples -/

/-- an allocator with chunks of 512 and 1024 bytes and (to keep kernel evaluation small) 4 slots -/
def ex2 : Allocator :=
  { buffers := #[⟨0, 512, 512⟩, ⟨0, 1024, 1024⟩, Bytes.nil, Bytes.nil] }

theorem ex2_wf : WfA ex2 := wfA_of_wfB (by decide)

/-- `NewAllocator(1024); TrimTo(1024); Reset()`: every slot is nil (finding F10); 4 slots -/
def exTrimmed : Allocator := { buffers := #[Bytes.nil, Bytes.nil, Bytes.nil, Bytes.nil] }

theorem exTrimmed_wf : WfA exTrimmed := wfA_of_wfB (by decide)

/-! ## sequential helpers -/

/-- `parse`: the generated whole function is the kernel the model uses. -/
theorem tie_parse (pos : W) : Gen.AllocM.parse pos = .ok (Gen.Alloc.parse pos) := rfl

example : Gen.AllocM.parse 0x0000000300000010#64 = .ok (3#64, 16#64) := by decide

/-- `log2` (table `calculatedLog2` := the model's `log2Table`, loop `for sz > 1`): for every
non-negative argument and fuel ≥ 65 the generated function returns the model's `log2`. -/
theorem tie_log2 (sz : W) (fuel : Nat) (h : 0 ≤ sz.toInt) (hf : 65 ≤ fuel) :
    Gen.AllocM.log2 fuel log2Table sz = .ok (RV.Alloc.log2 sz) :=
  log2_spec sz fuel h hf

/-- … and for a negative argument the real code panics (index out of range in the table); the
model's totalised `log2` is never called with one (`NewAllocator` clamps to ≥ 512). -/
theorem tie_log2_negative_panics (sz : W) (fuel : Nat) (h : sz.toInt < 0) :
    Gen.AllocM.log2 fuel log2Table sz = .panic .bounds () :=
  log2_negative sz fuel log2Table h (by simp [log2Table])

example : Gen.AllocM.log2 70 log2Table 1000000#64 = .ok 19#64 := by
  have hs : log2Table.size = 1025 := by simp [log2Table]
  have h : log2InTable 1000000#64 log2Table = false := by unfold log2InTable; rw [hs]; decide
  rw [tie_log2 _ _ (by decide) (by decide)]
  unfold RV.Alloc.log2
  simp only [h]
  decide

/-- `NewAllocator(sz)`: 64 slots, slot 0 a zeroed block of the model's `chunk0Len sz` bytes, word 0,
mutex free, for every `sz` whose first chunk fits a Go int (`chunk0Len sz < 2^63`, i.e. sz ≤ 2^62). -/
theorem tie_newAllocator (sz allocRef : W) (fuel n : Nat) (hf : 65 ≤ fuel) (hc : chunk0Len sz < 2 ^ 63) :
    ∃ a, NewAllocator fuel allocRef log2Table sz = .ok a ∧
      chunksOf a = (RV.Alloc.newAllocator sz n).chunks ∧ a.compIdx = (RV.Alloc.newAllocator sz n).compIdx ∧
      a.locked = false ∧ a.log = [] ∧ a.Ref = allocRef + 1#64 ∧ WfA a :=
  newAllocator_spec sz allocRef fuel n hf hc

example : chunk0Len 1500#64 = 2048 := by
  have hs : log2Table.size = 1025 := by simp [log2Table]
  have h : log2InTable 1500#64 log2Table = false := by unfold log2InTable; rw [hs]; decide
  have hl : RV.Alloc.log2 1500#64 = 10#64 := by
    unfold RV.Alloc.log2
    rw [if_neg (by rw [h]; decide)]
    decide
  unfold chunk0Len
  simp only [show newTooSmall 1500#64 = false by decide, Bool.false_eq_true, if_false, hl]
  decide

/-- `Reset` = the model's `reset` on the word (the ghost grant list is the model's own). -/
theorem tie_reset (a : Allocator) : Reset a = .ok ({ a with compIdx := 0#64 }, ()) := rfl

/-- `TrimTo(max)`: never panics, the chunk table becomes the model's `trimTo max`, nothing else
changes (the `Free` calls are logged). -/
theorem tie_trimTo (a : Allocator) (max : W) (hn : a.buffers.size < 2 ^ 64) :
    ∃ a', TrimTo a max = .ok (a', ()) ∧ chunksOf a' = trimTo max (chunksOf a) ∧
      a'.compIdx = a.compIdx ∧ a'.locked = a.locked ∧ a'.Ref = a.Ref ∧
      a'.buffers.size = a.buffers.size ∧ (WfA a → WfA a') :=
  trimTo_spec a max hn

example : trimTo 600#64 (chunksOf ex2) = [512, 0, 0, 0] := by decide

/-- `Size()` = Σ of the chunks before the current one + the offset (Go int arithmetic), and the
panic "Size should not reach here" exactly when the chunk index is not a slot.  (No model function
corresponds; the closed form is the specification.) -/
theorem tie_size (a : Allocator) (hw : WfA a) :
    Size a =
      if (Gen.Alloc.parse a.compIdx).1.toNat < a.buffers.size then
        .ok (a, sumFrom 0#64 ((chunksOf a).take (Gen.Alloc.parse a.compIdx).1.toNat) + (Gen.Alloc.parse a.compIdx).2)
      else .panic .user a :=
  size_spec a hw

example : Size { ex2 with compIdx := 0x0000000100000010#64 } =
    .ok ({ ex2 with compIdx := 0x0000000100000010#64 }, 528#64) := by decide

/-- `Allocated()` = Σ cap of all slots. -/
theorem tie_allocated (a : Allocator) (hn : a.buffers.size < 2 ^ 64) :
    Allocated a = .ok (a, sumCaps 0#64 a.buffers.toList) :=
  allocated_spec a hn

example : Allocated ex2 = .ok (ex2, 1536#64) := by decide

/-! ## addBufferAt -/

/-- `addBufferAt(bufIdx, minSz)` (search loop, doubling loop, `maxAlloc` clamp, `Calloc`, both
asserts, the slot write) against the model's `addBufferAt`, for 1 ≤ bufIdx ≤ number of slots and
minSz ≥ 0:
* model `ok cs'`  ⇒ with fuel for the slots and 64 doublings the generated function returns an
  allocator whose chunk table is `cs'` and nothing else changed;
* model `outOfSlots` ⇒ the generated function panics ("can not allocate more than 64 buffers");
* model `hang` ⇒ the generated function is `spin` **for every fuel**: the doubling loop
  `for pageSize < minSz { pageSize *= 2 }` never ends (finding F10). -/
theorem tie_addBufferAt (a : Allocator) (hw : WfA a) (idx minSz : W) (fuel : Nat)
    (h1 : 1 ≤ idx.toNat) (h2 : idx.toNat ≤ a.buffers.size) (hmin : 0 ≤ minSz.toInt) :
    match RV.Alloc.addBufferAt (chunksOf a) idx minSz with
    | .ok cs' => a.buffers.size + 1 ≤ fuel + idx.toNat → 65 ≤ fuel →
        ∃ a', Gen.AllocM.addBufferAt fuel a idx minSz = .ok (a', ()) ∧ chunksOf a' = cs' ∧ Frame a a' ∧ WfA a'
    | .outOfSlots => a.buffers.size + 1 ≤ fuel + idx.toNat →
        Gen.AllocM.addBufferAt fuel a idx minSz = .panic .user a
    | .hang => Gen.AllocM.addBufferAt fuel a idx minSz = .spin a :=
  addBufferAt_spec a hw idx minSz fuel h1 h2 hmin

example : RV.Alloc.addBufferAt (chunksOf ex2) 2#64 5000#64 =
    .ok ((chunksOf ex2).set 2 8192) := by decide

/-- F10 on the generated code: after `TrimTo` freed every chunk, `addBufferAt(1, 1)` spins for
every fuel. -/
theorem tie_f10_addBufferAt_spins (fuel : Nat) :
    Gen.AllocM.addBufferAt fuel exTrimmed 1#64 1#64 = .spin exTrimmed := by
  have h := tie_addBufferAt exTrimmed exTrimmed_wf 1#64 1#64 fuel (by decide) (by decide) (by decide)
  have hm : RV.Alloc.addBufferAt (chunksOf exTrimmed) 1#64 1#64 = .hang := by decide
  rw [hm] at h
  exact h

/-! ## Allocate, section by section -/

/-- section from the entry (`a != nil`) = the tests of the model's `start` step: too big ⇒ panic
with the allocator untouched, 0 ⇒ `return nil`, else enter the loop. -/
theorem tie_allocate_entry (a : Allocator) (n : W) :
    Allocate_entry false a n =
      if allocTooBig n then .panic .user a
      else if allocZero n then .ok (a, .ret Bytes.nil)
      else .ok (a, .top n) := by
  unfold Allocate_entry allocTooBig allocZero
  simp

/-- section `top` = the model's `add` step: the word grows by `uint64(sz)`, the goroutine holds the
new word; the observation the harness traces is logged. -/
theorem tie_allocate_add (a : Allocator) (sz : W) :
    Allocate_top a sz =
      .ok ({ a with compIdx := a.compIdx + allocAddend sz,
                    log := .obs 1#64 (a.compIdx + allocAddend sz) sz :: a.log },
           .vpAllocAdded sz (a.compIdx + allocAddend sz)) := rfl

/-- section `vpAllocAdded` = the model's `checkPos` (beyond ⇒ go for the mutex with the chunk
index; else the slice `buf[posIdx-sz : posIdx]` with Go's bounds checks; index / slice bounds
panic ⇔ `Checked.panic`). -/
theorem tie_allocate_check (a : Allocator) (hw : WfA a) (sz pos : W) :
    checkedOf (Allocate_vpAllocAdded a sz pos) = checkPos (chunksOf a) sz pos :=
  check_spec a hw sz pos

/-- … and it changes nothing but the log, and passes `sz` on. -/
theorem tie_allocate_check_frame (a : Allocator) (sz pos : W) :
    (∃ b, Allocate_vpAllocAdded a sz pos = .ok (a, .vpAllocBeforeLock sz b)) ∨
    (∃ r b p, Allocate_vpAllocAdded a sz pos = .ok ({ a with log := .obs 4#64 b p :: a.log }, .ret r)) ∨
    (∃ a', Allocate_vpAllocAdded a sz pos = .panic .bounds a' ∧ a'.buffers = a.buffers ∧
      a'.compIdx = a.compIdx ∧ a'.locked = a.locked) := by
  unfold Allocate_vpAllocAdded
  simp only [Gen.AllocM.parse, lift_ok, bind_ok]
  unfold rd slice
  split
  · simp only [bind_ok]
    split
    · exact Or.inl ⟨_, rfl⟩
    · split
      · exact Or.inr (Or.inl ⟨_, _, _, rfl⟩)
      · exact Or.inr (Or.inr ⟨_, rfl, rfl, rfl, rfl⟩)
  · exact Or.inr (Or.inr ⟨_, rfl, rfl, rfl, rfl⟩)

example : checkedOf (Allocate_vpAllocAdded ex2 10#64 0x0000000100000010#64) = .slice ⟨1, 6, 10⟩ := by decide
example : checkedOf (Allocate_vpAllocAdded ex2 10#64 0x0000000000000205#64) = .beyond 0#64 := by decide

/-- critical section, mutex held by a goroutine that died in it ⇒ blocked (model: `grow` disabled). -/
theorem tie_allocate_grow_blocked (a : Allocator) (sz b : W) (fuel : Nat) (hl : a.locked = true) :
    Allocate_vpAllocBeforeLock fuel a sz b = .blocked a :=
  grow_blocked a sz b fuel hl

/-- critical section, the re-check `newBufIdx != bufIdx` (model: `allocMoved`) fires ⇒ nothing
changes, retry. -/
theorem tie_allocate_grow_moved (a : Allocator) (sz b : W) (fuel : Nat) (hl : a.locked = false)
    (hm : allocMoved (Gen.Alloc.parse a.compIdx).1 b = true) :
    Allocate_vpAllocBeforeLock fuel a sz b =
      .ok ({ a with log := .obs 3#64 0#64 0#64 :: a.log }, .vpAllocRetry_1 sz) :=
  grow_moved a sz b fuel hl hm

/-- critical section otherwise = the model's `grow` step: `addBufferAt(bufIdx+1, sz)`, then the word
`(bufIdx+1)<<32` is stored and the mutex released; the 64-chunk panic and the F10 spin leave the
mutex LOCKED (model: `lockHeld := true`). -/
theorem tie_allocate_grow (a : Allocator) (hw : WfA a) (sz b : W) (fuel : Nat) (hl : a.locked = false)
    (hb : b.toNat < a.buffers.size) (hsz : 0 ≤ sz.toInt)
    (hm : allocMoved (Gen.Alloc.parse a.compIdx).1 b = false) :
    match RV.Alloc.addBufferAt (chunksOf a) (allocNextIdx b) sz with
    | .ok cs' => a.buffers.size ≤ fuel + b.toNat → 65 ≤ fuel →
        ∃ a', Allocate_vpAllocBeforeLock fuel a sz b = .ok (a', .vpAllocRetry_2 sz) ∧
          chunksOf a' = cs' ∧ a'.compIdx = allocStore b ∧ a'.locked = false ∧
          a'.log = .obs 3#64 1#64 0#64 :: a.log ∧ a'.Ref = a.Ref ∧ WfA a' ∧
          a'.buffers.size = a.buffers.size
    | .outOfSlots => a.buffers.size ≤ fuel + b.toNat →
        Allocate_vpAllocBeforeLock fuel a sz b = .panic .user { a with locked := true }
    | .hang => Allocate_vpAllocBeforeLock fuel a sz b = .spin { a with locked := true } :=
  grow_spec a hw sz b fuel hl hb hsz hm

/-- both retry points go back to the head of the loop with the same size (model: pc `toAdd sz`). -/
theorem tie_allocate_retry (a : Allocator) (sz : W) :
    Allocate_vpAllocRetry_1 a sz = .ok (a, .top sz) ∧ Allocate_vpAllocRetry_2 a sz = .ok (a, .top sz) :=
  ⟨rfl, rfl⟩

/-- F10 end to end on the generated sections: on the trimmed allocator the critical section of
`Allocate(1)` spins for every fuel, holding the mutex. -/
theorem tie_f10_allocate_spins (fuel : Nat) :
    Allocate_vpAllocBeforeLock fuel exTrimmed 1#64 0#64 = .spin { exTrimmed with locked := true } := by
  have h := tie_allocate_grow exTrimmed exTrimmed_wf 1#64 0#64 fuel rfl (by decide) (by decide) (by decide)
  have hm : RV.Alloc.addBufferAt (chunksOf exTrimmed) (allocNextIdx 0#64) 1#64 = .hang := by decide
  rw [hm] at h
  exact h

example : ∃ a', Allocate_vpAllocBeforeLock 70 { ex2 with compIdx := 0x0000000100000500#64 } 300#64 1#64 =
    .ok (a', .vpAllocRetry_2 300#64) ∧ chunksOf a' = [512, 1024, 2048, 0] ∧
    a'.compIdx = 0x0000000200000000#64 := by
  have hw : WfA { ex2 with compIdx := 0x0000000100000500#64 } := wfA_congr ex2_wf rfl
  have h := tie_allocate_grow _ hw 300#64 1#64 70 rfl (by decide) (by decide) (by decide)
  have hm : RV.Alloc.addBufferAt (chunksOf { ex2 with compIdx := 0x0000000100000500#64 }) (allocNextIdx 1#64) 300#64 =
      .ok ((chunksOf ex2).set 2 2048) := by decide
  rw [hm] at h
  obtain ⟨a', h1, h2, h3, _⟩ := h (by decide) (by decide)
  exact ⟨a', h1, by rw [h2]; decide, by rw [h3]; decide⟩

/-! ## AllocateAligned, Copy -/

/-- `AllocateAligned(sz)` asks the inner `Allocate` for the model's `Op.inner (.aligned sz)`. -/
theorem tie_aligned_entry (a : Allocator) (sz : W) :
    AllocateAligned_entry a sz = .ok (a, .call_Allocate (Op.inner (.aligned sz)) sz) := rfl

/-- … and, given the slice `out` of region `r` (sz+7 bytes) that `Allocate` returned, and the
address `base` of the chunk's first byte: it logs `ZeroOut(out, 0, len(out))` (the model's
`writeGrant` for `.aligned`: the whole region is zeroed), does not panic, and returns the model's
`alignedSub base r sz`. -/
theorem tie_aligned_after (a : Allocator) (sz base : W) (r : Region) (out : Bytes)
    (ho : out.off = r.off) (hl : out.len = r.len) (hcap : out.len ≤ out.cap)
    (hlen : r.len = sz.toNat + 7) (haddr : base.toNat + r.off + r.len < 2 ^ 64) (hsz : sz.toNat < 2 ^ 62) :
    ∃ res, AllocateAligned_after_Allocate a sz out base =
        .ok ({ a with log := .zeroOut out 0#64 (BitVec.ofNat 64 out.len) :: a.log }, .ret res) ∧
      (⟨r.chunk, res.off, res.len⟩ : Region) = alignedSub base r sz :=
  aligned_after_spec a sz base r out ho hl hcap hlen haddr hsz

example : AllocateAligned_after_Allocate {} 10#64 ⟨2, 17, 30⟩ 0x1003#64 =
    .ok ({ log := [.zeroOut ⟨2, 17, 30⟩ 0#64 17#64] }, .ret ⟨5, 10, 27⟩) := by decide

/-- `Copy(buf)` on a non-nil allocator asks the inner `Allocate` for `len(buf)` bytes
(model: `Op.inner (.copy d)` with `d.length = len(buf)`) … -/
theorem tie_copy_entry (a : Allocator) (buf : Bytes) (d : List (BitVec 8)) (h : buf.len = d.length) :
    Copy_entry false a buf = .ok (a, .call_Allocate (Op.inner (.copy d)) buf) := by
  unfold Copy_entry Op.inner
  rw [h]; rfl

/-- … then logs `copy(out, buf)` (the model's `writeGrant` for `.copy`) and returns the very slice
`Allocate` returned (model: `resultOf` = the granted region). -/
theorem tie_copy_after (a : Allocator) (buf out : Bytes) :
    Copy_after_Allocate a buf out = .ok ({ a with log := .copy out buf :: a.log }, .ret out) := rfl

/-- a nil allocator: `Copy` clones, `Allocate` makes a fresh slice (or panics for a negative size);
the model has no nil allocators. -/
theorem tie_nil_receiver (a : Allocator) (buf : Bytes) (sz : W) :
    Copy_entry true a buf = .ok (a, .ret (clone buf)) ∧
    Allocate_entry true a sz = (calloc a sz).bind fun t => .ok (a, .ret t) :=
  ⟨rfl, rfl⟩

/-! ## the whole step relation

`gstep` (`RV/Proofs/TieAllocStep.lean`) is the machine whose transitions are the GENERATED sections:
for one model `Action` it runs `Allocate_entry` (start), `Allocate_step` at the goroutine's yield point
(add / check / grow; for grow also the retry section), `Reset`, `TrimTo`.  `abs` maps it to the model's
`State` (`compIdx` = the word, `chunks` = `chunksOf`, `lockHeld` = `locked`, `Allocate_Out` ↦ `Pc`). -/

/-- **`abs ∘ gstep = step ∘ abs`**: on every state of the generated machine that satisfies `GInv`
(well-formed chunk table; fuel ≥ slots + 65; every goroutine idle / dead / parked at a yield point of
`Allocate` with a non-negative size), one step of the generated sections is exactly one step of the
model's `step` — same enabledness, same successor. -/
theorem tie_step {fuel : Nat} {g : GState} (hi : GInv fuel g) (act : Action) :
    (gstep fuel g act).map abs = step (abs g) act :=
  step_eq hi act

/-- `GInv` is preserved by every step whose request size is a non-negative Go int. -/
theorem tie_step_inv {fuel : Nat} {g g' : GState} (hi : GInv fuel g) (act : Action) (hact : ActOk act)
    (h : gstep fuel g act = some g') : GInv fuel g' :=
  inv_step hi act hact h

/-- `NewAllocator(sz)` with `n` goroutines outside: the generated machine starts in (the abstraction
of) the model's initial state and satisfies `GInv`. -/
theorem tie_init (sz allocRef : W) (fuel n : Nat) (hf : 129 ≤ fuel) (hc : chunk0Len sz < 2 ^ 63) :
    ∃ a, NewAllocator fuel allocRef log2Table sz = .ok a ∧
      GInv fuel ⟨a, List.replicate n {}, []⟩ ∧
      abs ⟨a, List.replicate n {}, []⟩ = RV.Alloc.newAllocator sz n :=
  init_eq sz allocRef fuel n hf hc

/-- **Whole runs**: every schedule of starts, adds, checks, critical sections, `Reset`s and `TrimTo`s
(non-negative request sizes), run on the generated sections, is the model's run — so every
C12 theorem about `RV.Alloc.run` / `Reach` speaks about the code as translated on this run. -/
theorem tie_run {fuel : Nat} (acts : List Action) (g : GState) (hi : GInv fuel g)
    (hok : ∀ a ∈ acts, ActOk a) :
    (grun fuel g acts).map abs = run (abs g) acts :=
  run_eq acts g hi hok

/-- two goroutines on a 4-slot allocator with chunks 512 and 1024, current chunk 1 at offset 1000:
goroutine 0 asks for 100 bytes, overshoots, takes the critical section, appends a 2048-byte chunk,
retries and is served from it; goroutine 1 (AllocateAligned(3) = 10 bytes, added in between) finds its
position beyond the old chunk and is left waiting for the mutex. -/
def exSchedule : List Action :=
  [.start 0 (.alloc 100#64), .start 1 (.aligned 3#64), .add 0, .add 1, .check 0, .grow 0, .check 1,
   .add 0, .check 0]

def exG : GState := ⟨{ ex2 with compIdx := 0x00000001000003E8#64 }, [{}, {}], []⟩

theorem exG_inv : GInv 70 exG :=
  ⟨wfA_congr ex2_wf rfl, by decide, by intro th hth; simp [exG] at hth; subst hth; simp [okPc]⟩

example : ∀ a ∈ exSchedule, ActOk a := by decide

example : ((grun 70 exG exSchedule).map fun g => (g.a.compIdx, chunksOf g.a, g.grants.map (·.reg))) =
    some (0x0000000200000064#64, [512, 1024, 2048, 0], [⟨2, 0, 100⟩]) := by decide

end RV.TieAlloc
