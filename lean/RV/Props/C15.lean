import RV.Proofs.CacheLiveExamples
/-!
# C15 — Close and Clear leave a consistent cache: inert after Close, fresh after Clear

Theorems about the small-step model `RV/Model/Cache.lean` (any number of clients, every
interleaving, every choice of the environment).  Quantifiers:

* "after Close returns": every state reachable by runs in which `Close` is not overlapped by
  another call (`ReachX`: a `Close` is spawned only when every client is idle, nothing is
  spawned while a client is inside `Close` — the property excludes `Close` from concurrency),
  with `closed = true`.  The *first-step* facts (`c15_closed_first_step`) need no such
  hypothesis: they hold in every state with `closed = true`, under every interleaving.
* "after Clear returns": a `Clear` (or the `Clear` inside `Close`, flag `c = true`) that is not
  overlapped from its drain phase on: every other client is *quiet* (`CPc.quiet`: idle, blocked in
  a send, blocked offering `stop`, or in the log-only tail of `Del`/`Wait`) and nothing is spawned
  until the restart.  The history before the drain is arbitrary (any `Reach` state): resident
  entries, buffered new items, overwrites, tombstones, markers, TTL entries, repetitions.
  Waiter release (`c15_clear_releases_waiters`) needs no non-overlap hypothesis at all.

Not modelled (stated, not proved): the policy goroutine and the ticker (`cachePolicy.Close()`,
`cleanupTicker.Stop()`); the applier goroutine is `app` and is `dead` after `Close`.
`GetTTL`, `MaxCost`, `RemainingCost`, `UpdateMaxCost` have no closed check in cache.go: on a closed
cache they read/write the emptied structures (`GetTTL` answers `(0,false)` in two steps).
`fresh_bisim` is delivered as the state equality `c15_fresh_equiv` (the returned-from-Clear state
*is* `init cfg' now` up to the listed fields) plus `c15_fresh_run`; a bisimulation up to renaming of
marker ids / ghost log / stale Get-ring entries (`ringPending` is NOT reset by `Clear`: pre-Clear
`Get`s still sitting in ring stripes are pushed to the policy afterwards) is not proved.
-/
namespace RV.C15
open RV RV.Cache Gen.Cache

/-- **Inert after Close (first step, every interleaving).**  In any state with `closed = true` the
first own step of `Set`/`Get`/`Del`/`Wait`/`Clear`/`Close`/`IterValues` is enabled and, whatever the
choice, returns the inert result (`Set → false`, `Get → miss`, others just return) and changes only
the caller's pc and the log. -/
theorem c15_closed_first_step {cfg : Cfg} {s : State} {t : Tid} {ev : Ev} (hc : s.closed = true)
    (hev : inertRet t (s.cl t) = some ev) :
    clientStep cfg s t .none = some (logEv (setCl s t .idle) ev) ∧
      ∀ ch s', clientStep cfg s t ch = some s' →
        s' = logEv (setCl s t .idle) ev ∧ s'.store = s.store ∧ s'.em = s.em ∧ s'.pol = s.pol ∧
          s'.met = s.met ∧ s'.buf = s.buf ∧ s'.sendq = s.sendq ∧ s'.app = s.app ∧
          s'.closedMarkers = s.closedMarkers := by
  refine ⟨(closed_first_step hc hev).1, fun ch s' hs => ?_⟩
  have := closed_first_step_fields hc hev hs
  exact ⟨(closed_first_step hc hev).2 ch s' hs, this.1, this.2.1, this.2.2.1, this.2.2.2.1, this.2.2.2.2.1,
    this.2.2.2.2.2.1, this.2.2.2.2.2.2.1, this.2.2.2.2.2.2.2.1⟩

/-- `closed` is never reset. -/
theorem c15_closed_stable {cfg : Cfg} {s s' : State} {a : Action} (hc : s.closed = true)
    (hs : step cfg s a = some s') : s'.closed = true := closed_stable hc hs

/-- **After an un-overlapped Close the cache holds nothing**: buffer, blocked senders, policy
accounting, store, expiry index empty, metrics zero (when on); the applier goroutine is gone; every
client is idle or in a call that returns inertly.  (Every value that was held or buffered has been
released through the callbacks: `c15_clear_releases_values` for the `Clear` inside `Close`.) -/
theorem c15_close_empty {cfg : Cfg} {s : State} (hcap : 1 ≤ cfg.bufCap) (h : ReachX cfg s)
    (hc : s.closed = true) : Empty cfg s ∧ s.app = .dead ∧ ∀ t, (s.cl t).inert = true :=
  closed_empty hcap h hc

/-- Without the non-overlap hypothesis "closed ⇒ store empty" is false (in the model as in cache.go,
where `isClosed` is set only after the second stop/done handshake): a `Set` issued while `Close`
offers its second stop is applied by the restarted applier; the cache ends closed with a resident
entry.  `Close` is excluded from concurrency by the property, so this is not a finding. -/
theorem c15_overlapped_close_counterexample :
    ∃ s, Reach exCfg s ∧ s.closed = true ∧ s.store.lookup 5#64 ≠ none := overlapped_close_counterexample

/-- **Inert after Close (whole calls).**  After an un-overlapped `Close`, every call of an idle
client runs to completion in one own step (two for `GetTTL`, which has no closed check and reads the
emptied store), returns the inert result and leaves the state unchanged except for the log (and the
capacity word for `UpdateMaxCost`, which has no closed check either). -/
theorem c15_closed_inert {cfg : Cfg} {s : State} {t : Tid} (hcap : 1 ≤ cfg.bufCap) (h : ReachX cfg s)
    (hc : s.closed = true) (hidle : s.cl t = .idle) (call : Call) :
    run cfg s (.spawn t call :: List.replicate (inertSteps call) (.client t .none)) =
      some { s with log := inertEvents s t call ++ s.log, pol := inertPol s.pol call } :=
  closed_call_inert hc (closed_empty hcap h hc).1.store hidle call

/-- **FreshSt after Clear.**  See `clear_fresh`: at the point before the restart the restart step is
enabled and yields a state with empty store / accounting / expiry index, `lastCleaned =
cleanupBucket now`, zero metrics (when on), empty buffer, idle applier, not closed, and the
`MaxCost` the cache had at drain start (capacity is kept); the other clients are still quiet. -/
theorem c15_clear_fresh {cfg : Cfg} {s0 s1 : State} {t : Tid} {c : Bool} {acts : List Action}
    (hr : Reach cfg s0) (hcap : 1 ≤ cfg.bufCap) (hpc0 : s0.cl t = .clrDrain c)
    (hq : ∀ t', t' ≠ t → (s0.cl t').quiet = true) (hns : ∀ a ∈ acts, a.isSpawn = false)
    (hrun : run cfg s0 acts = some s1) (hpc1 : s1.cl t = .clrRestart c) :
    step cfg s1 (.client t .none) = some (stClrRestart s1 t c) ∧ FreshSt cfg (stClrRestart s1 t c) ∧
      (stClrRestart s1 t c).pol.maxCost = s0.pol.maxCost ∧
      (∀ t', t' ≠ t → ((stClrRestart s1 t c).cl t').quiet = true) :=
  clear_fresh hr hcap hpc0 hq hns hrun hpc1

/-- **`fresh_equiv`.**  A `FreshSt` state with every client idle *is* the initial state of a cache
created with the current `MaxCost`, up to `closedMarkers / nextMarker / clock / log / ringPending`
(and `met` when metrics are off), with `lastCleaned` the cleanup bucket of some instant. -/
theorem c15_fresh_equiv {cfg : Cfg} {s : State} (hf : FreshSt cfg s) (hidle : ∀ t, s.cl t = .idle) :
    s = freshOf cfg s ∧ ∃ now, (freshOf cfg s).em = (init { cfg with maxCost := s.pol.maxCost } now).em :=
  fresh_equiv hf hidle

/-- every continuation of the cleared cache is a continuation of `freshOf` -/
theorem c15_fresh_run {cfg : Cfg} {s : State} (hf : FreshSt cfg s) (hidle : ∀ t, s.cl t = .idle)
    (acts : List Action) : run cfg s acts = run cfg (freshOf cfg s) acts := by
  have h := (fresh_equiv hf hidle).1
  exact congrArg (fun x => run cfg x acts) h

/-- **Clear releases the waiters** (no non-overlap hypothesis).  (a) every marker that is in
`buf ++ sendq` at a reachable state `s0` is closed in every later state whose channel is empty and
whose applier holds no marker; (b) when the drain loop of the active `Clear` finds the buffer empty,
channel is empty and every client inside `Wait` is at `waitRecv id` with `id` closed, i.e. can
return. -/
theorem c15_clear_releases_waiters {cfg : Cfg} :
    (∀ {s0 s1 : State} {acts : List Action} {id : Nat}, Reach cfg s0 → run cfg s0 acts = some s1 →
        .marker id ∈ chan s0 → chan s1 = [] → s1.app.marker? = none → id ∈ s1.closedMarkers) ∧
    (∀ {s : State} {t : Tid} {c : Bool}, Reach cfg s → 1 ≤ cfg.bufCap → s.cl t = .clrDrain c →
        recvBuf s = none →
        s.buf = [] ∧ s.sendq = [] ∧ ∀ t' id, (s.cl t').waitsFor = some id →
          id ∈ s.closedMarkers ∧ s.cl t' = .waitRecv id ∧ ∃ s', clientStep cfg s t' .none = some s') := by
  refine ⟨fun hr hrun hm he ha => markers_closed_when_empty hr hrun hm he ha, fun hr hcap hpc hnone => ?_⟩
  obtain ⟨h1, h2, h3⟩ := drain_end_releases hr hcap hpc hnone
  exact ⟨h1, h2, fun t' id hw => ⟨(h3 t' id hw).1, (h3 t' id hw).2,
    closed_marker_releases (h3 t' id hw).2 (h3 t' id hw).1⟩⟩

/-- **Clear releases the values.**  Un-overlapped `Clear` from drain start `s0` to the point before
the restart `s1`: every buffered new item and tombstone (`clearEvictsItem`: flag ≠ update; a
tombstone carries the zero value) got `OnEvict` + `OnExit`, every store entry got `OnEvict` (cost 0)
+ `OnExit`, all within the log segment `l` written during the `Clear`.  Buffered overwrites get no
callback from the drain (their value is in the store and is released from there). -/
theorem c15_clear_releases_values {cfg : Cfg} {s0 s1 : State} {t : Tid} {c : Bool} {acts : List Action}
    (hr : Reach cfg s0) (hcap : 1 ≤ cfg.bufCap) (hpc0 : s0.cl t = .clrDrain c)
    (hq : ∀ t', t' ≠ t → (s0.cl t').quiet = true) (hns : ∀ a ∈ acts, a.isSpawn = false)
    (hrun : run cfg s0 acts = some s1) (hpc1 : s1.cl t = .clrRestart c) :
    ∃ l, s1.log = l ++ s0.log ∧
      (∀ i, .item i ∈ chan s0 → clearEvictsItem i.flag.code = true →
        .evict i.key i.conflict i.value i.cost ∈ l ∧ .exit i.value ∈ l) ∧
      (∀ h e, s0.store.lookup h = some e → .evict h e.conflict e.value 0 ∈ l ∧ .exit e.value ∈ l) :=
  clear_releases_values hr hcap hpc0 hq hns hrun hpc1

/-- **Idempotence of Clear**: the states after two un-overlapped `Clear`s agree on every shared
field except the sweep position `lastCleaned` (the clock moved). -/
theorem c15_clear_idempotent {cfg : Cfg} {s s' : State} (h : FreshSt cfg s) (h' : FreshSt cfg s')
    (hm : s'.pol.maxCost = s.pol.maxCost) :
    s'.store = s.store ∧ s'.pol = s.pol ∧ s'.em.buckets = s.em.buckets ∧
      (cfg.metricsOn = true → s'.met = s.met) ∧ s'.buf = s.buf ∧ s'.sendq = s.sendq ∧ s'.app = s.app ∧
      s'.closed = s.closed := fresh_agree h h' hm

/-- **Idempotence of Close**: on a closed cache `Close` (and `Clear`) return in their first step. -/
theorem c15_close_idempotent {cfg : Cfg} {s : State} {t : Tid} {c : Bool} (hc : s.closed = true)
    (hpc : s.cl t = .clrStart c) :
    clientStep cfg s t .none = some (logEv (setCl s t .idle) (if c then .closeRet t else .clearRet t)) :=
  (closed_first_step hc (by rw [hpc]; rfl)).1

/-! ### non-vacuity: concrete runs (see `RV/Proofs/CacheLiveExamples.lean`) -/

/-- a full `Close` on a cache holding a resident entry, a buffered new item and a pending `Wait`
marker is an un-overlapped-Close run ending in a closed state with client 1 idle: the hypotheses
of `c15_closed_inert` / `c15_close_empty` hold there -/
example : ∃ s, ReachX exCfg s ∧ 1 ≤ exCfg.bufCap ∧ s.closed = true ∧ s.cl 1 = .idle ∧
    inertRet 1 (.setStart 5#64 0#64 7 1 0) = some (.setRet 1 7 false) := exClosed

/-- the hypotheses of `c15_clear_fresh` / `c15_clear_releases_values` hold for a `Clear` issued
with a resident entry (key 5), a buffered new item (key 6) and a buffered `Wait` marker while
client 2 is blocked in `Wait`; the interesting case occurs: the channel and the store are not
empty at drain start -/
example : ∃ s0 s1 acts, Reach exCfg s0 ∧ s0.cl 0 = .clrDrain false ∧
    (∀ t', t' ≠ 0 → (s0.cl t').quiet = true) ∧ (∀ a ∈ acts, a.isSpawn = false) ∧
    run exCfg s0 acts = some s1 ∧ s1.cl 0 = .clrRestart false ∧
    chan s0 ≠ [] ∧ s0.store.lookup 5#64 ≠ none ∧ s0.cl 2 = .waitRecv 0 := exClear

end RV.C15
