import RV.Proofs.CacheLiveExamples
import RV.Proofs.Locks
/-!
# C08 — Concurrent use of the public API is free of data races, panics and deadlocks

**Partial by nature.**  A data race is a fact about the Go memory model and the runtime; no Lean
theorem about an executable model can state it.  What is proved here:

(A) on the small-step model `RV/Model/Cache.lean` (any number of clients issuing `Get`, `Set`,
    `SetWithTTL`, `Del`, `GetTTL`, `IterValues`, `Wait`, `Clear`, `UpdateMaxCost`, `MaxCost`,
    `RemainingCost`, every interleaving, every environment choice; `Close` excluded as in the
    property: `ReachNC` = reachable by runs without a `Close` call):
    * `c08_no_panic`: the three modelled panic sources are unreachable — send on a closed
      `setBuf` (`closed = false` throughout), second `close` of a `Wait` marker (marker ids are
      closed at most once; a marker still in the channel or in the applier's hands is not closed).
      Index errors inside `defaultPolicy.Add`'s victim loop belong to the policy model (C09).
    * `c08_deadlock_free`: a client inside a call has an enabled own step, or is at a blocking
      point and a *helping* step of another thread is enabled (`Progress`).
    * bounded return: `client_step_decreases` (every own step strictly decreases `rankC`, bound
      `numShards + |buf| + |sendq| + 11`) and `applier_progress_unblocks` (applier-local
      lexicographic rank; FIFO positions of blocked senders / `Wait` markers never grow and
      shrink with every receive; bounded by `|buf| + |sendq|`).  The termination theorem over
      infinite fair executions built on these lemmas is in `RV/Props/C08Fair.lean`
      (`c08_non_clear_calls_return`, `c08_every_call_returns`; `Clear` needs "sends cease":
      `c08_clear_livelock_counterexample`, finding F13).
(B) `c08_lock_discipline`: a kernel `decide` over the table `Gen.Locks.accesses` extracted from
    cache.go / store.go / policy.go / ring.go / ttl.go / sketch.go by `go2lean/locks.go`: any two
    accesses to the same field of a shared struct, one of them a write, are both atomic, or hold a
    common mutex (not both in read mode), or are confined to one goroutine by an ownership
    transfer, or one of them is constructor-time; accesses inside `Close` are excluded.
    `c08_lockset_sound`: in the abstract RW-mutex semantics two accesses that share a
    write-excluding mutex are never simultaneously enabled for two threads.
(C) supporting search only: stream `cache_race` and `TestRaceStress` (real goroutines, `-race`).

Assumed, not proved: the Go memory model and runtime (mutexes exclude, channel operations and
`sync.Pool` hand-offs order the accesses as listed in `Gen.Locks.transfers`); completeness of the
extracted table (fields of the listed shared types only; locks identified by owning *type*, not
instance; function values stored in fields are reads of the field); that one model step is one
atomic section of the real code (tied by trace validation under the cooperative scheduler).
-/
namespace RV.C08
open RV RV.Cache Gen.Cache

/-! ## (A) model theorems -/

/-- `ReachNC` in list form: the end state of any run from the initial state whose actions contain no
`spawn _ .close` (`NoCloseRun`). -/
theorem reachNC_of_noCloseRun {cfg : Cfg} {now : Time} {acts : List Action} {s : State}
    (hn : NoCloseRun acts) (hr : run cfg (init cfg now) acts = some s) : ReachNC cfg s :=
  reachNC_of_run hn hr

/-- pcs at which the client is about to send (or is blocked sending) on `setBuf` / `stop` -/
def sending : CPc → Bool
  | .setSend _ => true | .delSend .. => true | .waitSend => true | .delBlocked _ => true
  | .waitBlocked _ => true | .clrStop _ => true | .clsStop => true | _ => false

theorem inert_not_sending {pc : CPc} (h : pc.inert = true) : sending pc = false := by
  cases pc <;> first | rfl | (cases h; done)

/-- **No send on a closed channel.**  (a) Without `Close` the cache is never closed (so `setBuf`,
`stop`, `done` are never closed) and nobody is inside `Close`.  (b) With `Close` not overlapped by
any call (`ReachX`), no client is at a sending pc once `closed` is true. -/
theorem c08_no_send_on_closed {cfg : Cfg} {s : State} :
    (ReachNC cfg s → s.closed = false ∧ ∀ t, (s.cl t).closing = false) ∧
    (1 ≤ cfg.bufCap → ReachX cfg s → s.closed = true → ∀ t, sending (s.cl t) = false) :=
  ⟨fun h => ⟨(ncinv_reach h).closed, (ncinv_reach h).closing⟩,
   fun hcap h hc t => inert_not_sending ((closed_empty hcap h hc).2.2 t)⟩

/-- **No second close of a marker.**  In every reachable state: the closed marker ids are
duplicate-free, the markers in the channel are pairwise distinct, a marker that is still in
`buf ++ sendq` or in the applier's hands (`app = .marker id`, about to `close(i.wait)`) has not been
closed, and only issued ids occur. -/
theorem c08_no_double_close {cfg : Cfg} {s : State} (h : Reach cfg s) :
    s.closedMarkers.Nodup ∧ (markers (chan s)).Nodup ∧
      (∀ id, .marker id ∈ chan s → id ∉ s.closedMarkers) ∧
      (∀ id, s.app = .marker id → id ∉ s.closedMarkers) ∧
      (∀ id, id ∈ s.closedMarkers → id < s.nextMarker) := by
  have hm := mark_reach h
  refine ⟨closedMarkers_nodup hm, chan_markers_nodup hm, fun id hid => chan_marker_not_closed hm hid,
    fun id hid => app_marker_not_closed hm hid, fun id hid => hm.lt id ?_⟩
  have : 1 ≤ s.closedMarkers.count id := List.count_pos_iff.mpr hid
  unfold mcount; omega

/-- **No modelled panic.**  Without `Close`: never closed (no send on / close of a closed channel),
and the marker-close discipline of `c08_no_double_close` holds. -/
theorem c08_no_panic {cfg : Cfg} {s : State} (h : ReachNC cfg s) :
    s.closed = false ∧ (∀ t, (s.cl t).closing = false) ∧ s.closedMarkers.Nodup ∧
      (∀ id, .marker id ∈ chan s → id ∉ s.closedMarkers) ∧ (∀ id, s.app = .marker id → id ∉ s.closedMarkers) :=
  ⟨(ncinv_reach h).closed, (ncinv_reach h).closing, (c08_no_double_close h.reach).1,
    (c08_no_double_close h.reach).2.2.1, (c08_no_double_close h.reach).2.2.2.1⟩

/-- the hypothesis is satisfiable on a non-trivial state (a full buffer and a blocked `Del`) -/
example : ∃ s, ReachNC exCfg1 s ∧ s.cl 2 ≠ .idle := by
  obtain ⟨s, h, _, h2, _⟩ := exBlocked; exact ⟨s, h, h2⟩

/-- **Deadlock freedom (with the helping step named).**  For every state reachable without `Close`
and every client inside a call: it has an enabled step, or it is at a blocking point and a step of
another thread that helps it is enabled (`Progress`: applier receives / takes the stop / finishes
its item, the `done` rendezvous, or the active `Clear` client moves). -/
theorem c08_deadlock_free_progress {cfg : Cfg} {s : State} (hr : ReachNC cfg s) (hcap : 1 ≤ cfg.bufCap)
    (t : Tid) (hmid : s.cl t ≠ .idle) :
    (∃ ch s', clientStep cfg s t ch = some s') ∨ (BlockedAt s (s.cl t) ∧ Progress cfg s t) :=
  deadlock_free hr hcap t hmid

/-- **Deadlock freedom.**  …, or it is blocked at one of the blocking points and some OTHER thread
has an enabled step: the system is never stuck while a call is in progress. -/
theorem c08_deadlock_free {cfg : Cfg} {s : State} (hr : ReachNC cfg s) (hcap : 1 ≤ cfg.bufCap)
    (t : Tid) (hmid : s.cl t ≠ .idle) :
    (∃ ch s', clientStep cfg s t ch = some s') ∨ (BlockedAt s (s.cl t) ∧ OtherEnabled cfg s t) := by
  rcases deadlock_free hr hcap t hmid with h | ⟨h1, h2⟩
  · exact Or.inl h
  · exact Or.inr ⟨h1, h2.other⟩

/-- the blocked branch occurs: client 2 is blocked in `Del`'s send on a full one-slot buffer -/
example : ∃ s, ReachNC exCfg1 s ∧ 1 ≤ exCfg1.bufCap ∧ s.cl 2 ≠ .idle ∧ BlockedAt s (s.cl 2) := by
  obtain ⟨s, h1, h2, h3, h4, _⟩ := exBlocked; exact ⟨s, h1, h2, h3, h4⟩

/-- **Bounded return, clients.**  Every enabled own step of a client strictly decreases `rankC`
(own steps left until the call returns; for `IterValues`/`Clear` it involves `numShards`, for the
drain loop also `|buf| + |sendq|`).  The pc well-formedness hypothesis holds in every reachable
state (`LiveInv.pcwf`). -/
theorem client_step_decreases {cfg : Cfg} {s s' : State} {t : Tid} {ch : Choice} (hr : Reach cfg s)
    (hs : clientStep cfg s t ch = some s') : rankC s' (s'.cl t) < rankC s (s.cl t) :=
  Cache.client_step_decreases ((live_reach (cfg := cfg) hr).pcwf t) hs

/-- `rankC` is bounded by `|buf| + |sendq| + numShards + 11`. -/
theorem rankC_bound (s : State) (pc : CPc) : rankC s pc ≤ s.buf.length + s.sendq.length + numShards.toNat + 11 := by
  have h256 : numShards.toNat = 256 := by decide
  cases pc <;> simp only [rankC, rankN, restRank] <;> (try split) <;> omega

example : ∃ s, Reach exCfg1 s ∧ rankC s (s.cl 2) = 2 := by
  obtain ⟨s, h1, _, _, _, _, h6⟩ := exBlocked; exact ⟨s, h1.reach, h6⟩

/-- **Bounded return, blocking points** (`applier_progress_unblocks`).
(1) outside its `select` every applier step strictly decreases the lexicographic rank `rankA`
    (well-founded), so the applier is back at `idle` after finitely many own steps;
(2) a queued sender keeps its place under every step that is not a receive; a receive releases the
    first queued sender and moves the others one place forward; places are `< |sendq|`;
(3) a `Wait` marker in the channel never moves backwards; a receive takes it or moves it one place
    forward; places are `< |buf| + |sendq|`; once the applier holds it, the applier's next step
    closes it; a closed marker releases its waiter.
With `c08_deadlock_free_progress` (the receive / stop / done / Clear step is enabled whenever the
client is blocked) this is the ranking argument for "released after at most `|buf| + |sendq|`
receives, each preceded by finitely many applier steps". -/
theorem applier_progress_unblocks {cfg : Cfg} :
    (∀ {s s' : State} {ch : Choice}, s.app ≠ .idle → applierStep cfg s ch = some s' →
        LexLt (rankA s'.app) (rankA s.app)) ∧ WellFounded LexLt ∧
    (∀ {s s' : State} {a : Action} {t : Tid}, Reach cfg s → step cfg s a = some s' → t ∈ tids s →
        (t ∈ tids s' ∧ (tids s').idxOf t = (tids s).idxOf t) ∨
        (∃ x s1, recvBuf s = some (x, s1) ∧ s'.sendq = s1.sendq ∧ s'.cl = s1.cl)) ∧
    (∀ {s s1 : State} {x : BufElem} {t : Tid}, recvBuf s = some (x, s1) → t ∈ tids s →
        ((tids s).idxOf t = 0 ∧ s1.cl t = unblockedPc (s.cl t)) ∨
        (t ∈ tids s1 ∧ (tids s1).idxOf t + 1 = (tids s).idxOf t)) ∧
    (∀ {s : State} {t : Tid}, t ∈ tids s → (tids s).idxOf t < s.sendq.length) ∧
    (∀ {s s' : State} {a : Action} {id : Nat}, Reach cfg s → step cfg s a = some s' → .marker id ∈ chan s →
        (.marker id ∈ chan s' ∧ (chan s').idxOf (.marker id) ≤ (chan s).idxOf (.marker id)) ∨
          s'.app = .marker id ∨ id ∈ s'.closedMarkers) ∧
    (∀ {s s1 : State} {x : BufElem} {id : Nat}, recvBuf s = some (x, s1) → .marker id ∈ chan s →
        x = .marker id ∨ (.marker id ∈ chan s1 ∧ (chan s1).idxOf (.marker id) + 1 = (chan s).idxOf (.marker id))) ∧
    (∀ {s : State} {id : Nat}, .marker id ∈ chan s →
        (chan s).idxOf (.marker id) < s.buf.length + s.sendq.length) ∧
    (∀ {s s' : State} {ch : Choice} {id : Nat}, s.app = .marker id → applierStep cfg s ch = some s' →
        id ∈ s'.closedMarkers) ∧
    (∀ {s : State} {t : Tid} {id : Nat}, s.cl t = .waitRecv id → id ∈ s.closedMarkers →
        ∃ s', clientStep cfg s t .none = some s') :=
  ⟨fun hni hs => applier_step_decreases hni hs, lexLt_wf,
   fun hr hs ht => sender_stable (handshake_reach hr) hs ht,
   fun hr ht => recv_sender_progress hr ht,
   fun ht => sender_pos_bound ht,
   fun hr hs hm => marker_stable (handshake_reach hr) hs hm,
   fun hr hm => recv_marker_progress hr hm,
   fun hm => marker_pos_bound hm,
   fun hm hs => applier_closes_marker hm hs,
   fun hpc hc => closed_marker_releases hpc hc⟩

/-- in the blocked-`Del` state client 2 is queued (place 0 of 1) and the buffer is full -/
example : ∃ s, Reach exCfg1 s ∧ s.sendq.length = 1 ∧ s.buf.length = exCfg1.bufCap := by
  obtain ⟨s, h1, _, _, _, _, _⟩ := exBlocked
  have hl := live_reach (cfg := exCfg1) h1.reach
  have hf := exBlock_facts
  cases hfull : run exCfg1 (init exCfg1 0) exBlock with
  | none => rw [hfull] at hf; simp at hf
  | some s2 =>
    rw [hfull] at hf
    simp only [Option.map_some, Option.some.injEq, Prod.mk.injEq] at hf
    exact ⟨s2, ⟨0, exBlock, hfull⟩, hf.2.2, hf.2.1⟩

/-! ## (B) lock discipline (table extracted from the Go sources by `go2lean/locks.go`) -/

/-- **Lock discipline.**  The whole extracted table `Gen.Locks.accesses` (every read/write of a field
of `Cache`, `shardedMap`, `lockedMap`, `expirationMap`, `defaultPolicy`, `sampledLFU`, `tinyLFU`,
`cmSketch`, `ringBuffer`, `ringStripe`, `Metrics` in the six source files, with the mutexes held, the
atomic flag and the confinement tag) satisfies the discipline.  Kernel `decide` over the finite
table, which is the whole quantifier. -/
theorem c08_lock_discipline : RV.Locks.disciplined Gen.Locks.accesses = true :=
  RV.Locks.c08_lock_discipline

/-- the same, as a statement about pairs: any two accesses outside `Close` to the same field, at
least one a write, are both atomic, or share a mutex with at least one side holding it exclusively
(reads under `RLock` + writes under `Lock` is fine), or are confined to the same owner (ring stripe
between `pool.Get` and `pool.Put`), or one of them is constructor-time code. -/
theorem c08_lock_discipline_pairs :
    ∀ a ∈ Gen.Locks.accesses, ∀ b ∈ Gen.Locks.accesses, a.tag ≠ .close → b.tag ≠ .close →
      a.field = b.field → (a.kind = .write ∨ b.kind = .write) →
      (a.atomic = true ∧ b.atomic = true) ∨ RV.Locks.sharesMutex a b = true ∨
      (a.tag = b.tag ∧ (a.tag = .stripe ∨ a.tag = .applier)) ∨ a.tag = .ctor ∨ b.tag = .ctor :=
  RV.Locks.c08_lock_discipline_pairs

/-- **`lockset_sound`.**  In the abstract RW-mutex semantics (a writer excludes everybody, readers
exclude writers; an access can execute only while its thread holds its lock set) two accesses that
share a write-excluding mutex are never simultaneously enabled for two different threads. -/
theorem c08_lockset_sound {σ : RV.Locks.LState} {t1 t2 : RV.Locks.Tid} {a b : RV.Locks.Access}
    (hr : RV.Locks.Reach σ) (hne : t1 ≠ t2) (ha : RV.Locks.enabled σ t1 a) (hb : RV.Locks.enabled σ t2 b)
    (hs : RV.Locks.sharesMutex a b = true) : False :=
  RV.Locks.lockset_sound_reach hr hne ha hb hs

/-- combined: two conflicting table accesses outside `Close` that are simultaneously enabled for two
threads in a reachable lock state are both atomic, or confined to one owner, or one is
constructor-time. -/
theorem c08_conflicts_protected {σ : RV.Locks.LState} {t1 t2 : RV.Locks.Tid} {a b : RV.Locks.Access}
    (ha : a ∈ Gen.Locks.accesses) (hb : b ∈ Gen.Locks.accesses)
    (hca : a.tag ≠ .close) (hcb : b.tag ≠ .close)
    (hf : a.field = b.field) (hw : a.kind = .write ∨ b.kind = .write)
    (hr : RV.Locks.Reach σ) (hne : t1 ≠ t2) (h1 : RV.Locks.enabled σ t1 a) (h2 : RV.Locks.enabled σ t2 b) :
    (a.atomic = true ∧ b.atomic = true) ∨
    (a.tag = b.tag ∧ (a.tag = .stripe ∨ a.tag = .applier)) ∨ a.tag = .ctor ∨ b.tag = .ctor :=
  RV.Locks.c08_conflicts_protected ha hb hca hcb hf hw hr hne h1 h2

set_option maxRecDepth 100000 in
/-- the table is not trivial -/
example : Gen.Locks.accesses.length > 200 := by decide

end RV.C08
