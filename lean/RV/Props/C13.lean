import RV.Proofs.CacheAcctAgree
import RV.Proofs.CacheAcctIter
import RV.Proofs.CacheAcctRun
/-!
# C13 — The map, the capacity accounting and IterValues agree on what is resident

Theorems over the small-step Cache model (`RV/Model/Cache.lean`), for every run — any number
of clients, any interleaving, any outcome of `policy.Add` allowed by `polAdd`, any sweep order —
whose `Set`/`Del` calls are *collision-free* (`CollisionFree s.log`: calls with the same hash carry
the same conflict).

* `c13_explained` — in **every** state of such a run: a hash is accounted but not stored, or stored
  but not accounted, only if one of the in-flight situations listed in `Reason` holds.
* `c13_agree` — in a drained state (`Drained`: buffer empty, no blocked sender, applier idle,
  every client idle) no reason holds, so the accounting charges exactly the stored keys;
  `c13_count`: the two key sets have the same size.
* `c13_iter` — one whole `IterValues` call on a fixed store at a fixed clock passes to the callback
  the values of the unexpired entries, each stored key considered exactly once, and stops right
  after the call at which the callback asks to stop; `c13_iter_run`: the model's shard-by-shard
  steps compute exactly this.
* `c13_empty` — drained and nothing stored ⟹ `used = 0`, i.e. `RemainingCost() = MaxCost`, and
  `IterValues` enumerates nothing.
* `store_nodup` — no key is stored twice (every reachable state).
-/
namespace RV.C13
open RV RV.Cache

/-- The in-flight situations that excuse a disagreement about hash `h` in state `s`. -/
def Reason (s : State) (h : Hash) : Prop :=
  -- (R1) the applier is between `policy.Add` (admitted) and `store.Set` of a new item for `h`
  (∃ i vs, s.app = .added i vs true ∧ i.key = h) ∨
  -- (R2) `h` is a victim of the running `policy.Add` that is not yet removed from the map
  (∃ i vs ok, s.app = .added i vs ok ∧ h ∈ vs.map (·.1)) ∨
  (∃ vs, s.app = .victims vs ∧ h ∈ vs.map (·.1)) ∨
  (∃ h' cost c v rest, s.app = .victimEvict h' cost c v rest ∧ h ∈ rest.map (·.1)) ∨
  -- (R3) a client is inside `Del(h)`: the map delete is done, the tombstone not yet sent
  (∃ t c prev, s.cl t = .delExit h c prev) ∨ (∃ t c, s.cl t = .delSend h c) ∨
  -- (R4) a tombstone for `h` waits in the write buffer or with a blocked sender
  (∃ e ∈ s.buf, e.isTomb h = true) ∨ (∃ p ∈ s.sendq, p.2.isTomb h = true) ∨
  -- (R5) the applier holds a tombstone for `h`: received, or between `policy.Del` and `store.Del`
  (∃ i, (s.app = .item i ∨ s.app = .costed i) ∧ i.flag = .del ∧ i.key = h) ∨
  (∃ i, s.app = .tombPolicy i ∧ i.key = h) ∨
  -- (R6) the sweep is between its map delete and its `policy.Del` of `h`
  (∃ now c expr v bs, s.app = .swStoreDel now h c expr v bs) ∨
  -- (R7) `Clear` is between the stop handshake and `policy.Clear` (it may have drained a tombstone)
  (∃ t b, s.cl t = .clrDrain b ∨ s.cl t = .clrPolicy b) ∨
  -- (R8) `Clear` has cleared the policy but not yet the shard of `h`
  (∃ t b k, s.cl t = .clrShard b k ∧ k ≤ shardIdx h)

theorem reason_of_A {s : State} {h : Hash} (hr : ReasonA s h) : Reason s h := by
  unfold Reason
  rcases hr with ⟨t, ht⟩ | ha | hc
  · cases hpc : s.cl t <;> rw [hpc] at ht <;> simp only [CPc.rA, beq_iff_eq] at ht <;> try (cases ht; done)
    · subst ht; exact Or.inr (Or.inr (Or.inr (Or.inr (Or.inl ⟨t, _, _, hpc⟩))))
    · subst ht; exact Or.inr (Or.inr (Or.inr (Or.inr (Or.inr (Or.inl ⟨t, _, hpc⟩)))))
    · exact Or.inr (Or.inr (Or.inr (Or.inr (Or.inr (Or.inr (Or.inr (Or.inr (Or.inr (Or.inr (Or.inr (Or.inl ⟨t, _, Or.inl hpc⟩)))))))))))
    · exact Or.inr (Or.inr (Or.inr (Or.inr (Or.inr (Or.inr (Or.inr (Or.inr (Or.inr (Or.inr (Or.inr (Or.inl ⟨t, _, Or.inr hpc⟩)))))))))))
  · cases hpc : s.app <;> rw [hpc] at ha <;> simp only [APc.rA] at ha <;> try (cases ha; done)
    · rename_i i
      simp only [Bool.and_eq_true, beq_iff_eq] at ha
      exact Or.inr (Or.inr (Or.inr (Or.inr (Or.inr (Or.inr (Or.inr (Or.inr (Or.inl ⟨i, Or.inl rfl, ha.1, ha.2⟩))))))))
    · rename_i i
      simp only [Bool.and_eq_true, beq_iff_eq] at ha
      exact Or.inr (Or.inr (Or.inr (Or.inr (Or.inr (Or.inr (Or.inr (Or.inr (Or.inl ⟨i, Or.inr rfl, ha.1, ha.2⟩))))))))
    · rename_i i vs ok
      cases ok
      · simp at ha
      · simp only [beq_iff_eq] at ha
        exact Or.inl ⟨i, vs, rfl, ha⟩
    · simp only [beq_iff_eq] at ha
      subst ha
      exact Or.inr (Or.inr (Or.inr (Or.inr (Or.inr (Or.inr (Or.inr (Or.inr (Or.inr (Or.inr (Or.inl ⟨_, _, _, _, _, rfl⟩))))))))))
  · unfold chanTomb at hc
    simp only [Bool.or_eq_true, List.any_eq_true] at hc
    rcases hc with ⟨e, he, h1⟩ | ⟨p, hp, h1⟩
    · exact Or.inr (Or.inr (Or.inr (Or.inr (Or.inr (Or.inr (Or.inl ⟨e, he, h1⟩))))))
    · exact Or.inr (Or.inr (Or.inr (Or.inr (Or.inr (Or.inr (Or.inr (Or.inl ⟨p, hp, h1⟩)))))))

theorem mem_keys_of_any {vs : List (Hash × Int)} {h : Hash} (ha : vs.any (·.1 == h) = true) : h ∈ vs.map (·.1) := by
  obtain ⟨v, hv, hv2⟩ := List.any_eq_true.mp ha
  exact List.mem_map.mpr ⟨v, hv, by simpa using hv2⟩

theorem reason_of_B {s : State} {h : Hash} (hr : ReasonB s h) : Reason s h := by
  unfold Reason
  rcases hr with ⟨t, k, ht, hk⟩ | hb
  · cases hpc : s.cl t <;> rw [hpc] at ht <;> simp only [CPc.shardK] at ht <;> try (cases ht; done)
    rename_i b k'
    simp only [Option.some.injEq] at ht; subst ht
    exact Or.inr (Or.inr (Or.inr (Or.inr (Or.inr (Or.inr (Or.inr (Or.inr (Or.inr (Or.inr (Or.inr (Or.inr ⟨t, b, _, hpc, hk⟩)))))))))))
  · cases hpc : s.app <;> rw [hpc] at hb <;> simp only [APc.rB] at hb <;> try (cases hb; done)
    · exact Or.inr (Or.inl ⟨_, _, _, rfl, mem_keys_of_any hb⟩)
    · exact Or.inr (Or.inr (Or.inl ⟨_, rfl, mem_keys_of_any hb⟩))
    · exact Or.inr (Or.inr (Or.inr (Or.inl ⟨_, _, _, _, _, rfl, mem_keys_of_any hb⟩)))
    · simp only [beq_iff_eq] at hb
      exact Or.inr (Or.inr (Or.inr (Or.inr (Or.inr (Or.inr (Or.inr (Or.inr (Or.inr (Or.inl ⟨_, rfl, hb⟩)))))))))

/-! ### concrete runs for the non-vacuity examples -/
def cfg0 : Cfg :=
  { bufCap := 2, ignoreInternal := true, costFn := none, shouldUpdate := none, metricsOn := true, maxCost := 10 }
def setRun (t : Tid) (h : Hash) (v : Val) (cost : Int) : List Action :=
  [.spawn t (.set h 0 v cost 0), .client t .none, .client t .none, .client t .none, .client t .none,
   .applier .selItem, .applier .none, .applier (.add [] true), .applier .none]
def evictRun (t : Tid) (h : Hash) (v : Val) (cost : Int) (victim : Hash × Int) : List Action :=
  [.spawn t (.set h 0 v cost 0), .client t .none, .client t .none, .client t .none, .client t .none,
   .applier .selItem, .applier .none, .applier (.add [victim] true), .applier .none, .applier .none, .applier .none]
/-- a complete `Del(h)` by thread `t`, tombstone applied -/
def delRun (t : Tid) (h : Hash) : List Action :=
  [.spawn t (.del h 0), .client t .none, .client t .none, .client t .none, .client t .none,
   .applier .selItem, .applier .none, .applier .none, .applier .none, .applier .none]
def fillActs : List Action := setRun 0 1 7 3 ++ setRun 0 2 8 7 ++ evictRun 0 3 9 3 (1, 3)
/-- the identity enumeration of every shard -/
def idOrders (st : Store) : List (List Hash) := (List.range 256).map (shardKeys st)

/-- `Set(1)` with conflict 5 applied, then `Del(1)` with conflict 6 applied -/
def collideActs : List Action :=
  [.spawn 0 (.set 1 5 7 3 0), .client 0 .none, .client 0 .none, .client 0 .none, .client 0 .none,
   .applier .selItem, .applier .none, .applier (.add [] true), .applier .none,
   .spawn 0 (.del 1 6), .client 0 .none, .client 0 .none, .client 0 .none, .client 0 .none,
   .applier .selItem, .applier .none, .applier .none, .applier .none, .applier .none]

theorem isShardOrder_self (st : Store) (k : Nat) : isShardOrder st k (shardKeys st k) = true := by
  unfold isShardOrder
  simp only [beq_self_eq_true, Bool.true_and, Bool.and_eq_true, List.all_eq_true]
  exact ⟨fun x hx => by simpa using hx, fun x hx => by simpa using hx⟩

theorem idOrders_ok (st : Store) : OrdersOk st (idOrders st) := by
  intro k hk
  simp only [idOrders, List.getElem_map, List.getElem_range]
  exact isShardOrder_self st k

/-- executable collision-freedom check (for the examples) -/
def collisionFreeB (l : List Ev) : Bool :=
  l.all fun e1 => l.all fun e2 =>
    match callHC e1, callHC e2 with
    | some (h1, c1), some (h2, c2) => h1 != h2 || c1 == c2
    | _, _ => true

theorem collisionFree_of_B {l : List Ev} (h : collisionFreeB l = true) : CollisionFree l := by
  intro e1 he1 e2 he2 x c1 c2 h1 h2
  unfold collisionFreeB at h
  rw [List.all_eq_true] at h
  have := h e1 he1
  rw [List.all_eq_true] at this
  have := this e2 he2
  simp only [h1, h2, bne_self_eq_false, Bool.false_or, beq_iff_eq] at this
  exact this

/-- `c13_explained`: in every state of a collision-free run, the accounting and the map disagree
about a hash only while one of the in-flight reasons holds. -/
theorem c13_explained {cfg : Cfg} {now : Time} {acts : List Action} {s : State}
    (hr : run cfg (init cfg now) acts = some s) (hcf : CollisionFree s.log) (h : Hash)
    (hne : (s.pol.costs.lookup h).isSome ≠ (s.store.lookup h).isSome) : Reason s h := by
  have he := expl_reachC (reachC_of_collisionFree hr hcf)
  cases ha : (s.pol.costs.lookup h).isSome <;> cases hs : (s.store.lookup h).isSome
  · rw [ha, hs] at hne; exact absurd rfl hne
  · exact reason_of_B (he.eb h hs ha)
  · exact reason_of_A (he.ea h ha hs)
  · rw [ha, hs] at hne; exact absurd rfl hne

/-- the same for states given as `ReachC` (all calls use the conflict function `conf`) -/
theorem c13_explained_reachC {cfg : Cfg} {conf : Hash → Conf} {s : State} (hr : ReachC cfg conf s) (h : Hash)
    (hne : (s.pol.costs.lookup h).isSome ≠ (s.store.lookup h).isSome) : Reason s h := by
  have he := expl_reachC hr
  cases ha : (s.pol.costs.lookup h).isSome <;> cases hs : (s.store.lookup h).isSome
  · rw [ha, hs] at hne; exact absurd rfl hne
  · exact reason_of_B (he.eb h hs ha)
  · exact reason_of_A (he.ea h ha hs)
  · rw [ha, hs] at hne; exact absurd rfl hne

/-- non-vacuity: between `policy.Add` and `store.Set` key 1 is accounted and not stored (R1); while
victim 1 of the third `Set` is not yet removed it is stored and not accounted (R2) -/
example : ∃ s, run cfg0 (init cfg0 0) ((setRun 0 1 7 3).take 8) = some s ∧ CollisionFree s.log ∧
    (s.pol.costs.lookup 1).isSome = true ∧ (s.store.lookup 1).isSome = false :=
  ⟨exState cfg0 ((setRun 0 1 7 3).take 8), exState_run (by decide), collisionFree_of_B (by decide), by decide, by decide⟩
example : ∃ s, run cfg0 (init cfg0 0) (fillActs.take 27) = some s ∧ CollisionFree s.log ∧
    (s.pol.costs.lookup 1).isSome = false ∧ (s.store.lookup 1).isSome = true :=
  ⟨exState cfg0 (fillActs.take 27), exState_run (by decide), collisionFree_of_B (by decide), by decide, by decide⟩

/-- Collision-freedom is necessary: with two conflicts for one hash, `Del` of the second key removes the
first key's accounting but not its entry (finding F8's mechanism) — a drained state with a stored,
unaccounted key. -/
theorem c13_collision_counterexample : ∃ cfg s, Reach cfg s ∧ Drained s ∧
    (s.pol.costs.lookup 1).isSome = false ∧ (s.store.lookup 1).isSome = true := by
  refine ⟨cfg0, exState cfg0 collideActs, exState_reach (by decide), ⟨by decide, by decide, rfl, fun t => ?_⟩, by decide, by decide⟩
  by_cases ht : t ∈ [0]
  · simp only [List.mem_singleton] at ht; subst ht; decide
  · exact exState_idle [0] (by decide) (by decide) ht

/-- In a drained state none of the reasons holds. -/
theorem c13_no_reason {s : State} (hd : Drained s) (h : Hash) : ¬ Reason s h := by
  unfold Reason
  have happ := hd.app
  have hcl := hd.cl
  rintro (⟨_, _, h1, _⟩ | ⟨_, _, _, h1, _⟩ | ⟨_, h1, _⟩ | ⟨_, _, _, _, _, h1, _⟩ | ⟨t, _, _, h1⟩ | ⟨t, _, h1⟩ |
    ⟨e, he, _⟩ | ⟨p, hp, _⟩ | ⟨_, h1 | h1, _⟩ | ⟨_, h1, _⟩ | ⟨_, _, _, _, _, h1⟩ | ⟨t, _, h1 | h1⟩ | ⟨t, _, _, h1, _⟩)
  all_goals first
    | (rw [happ] at h1; cases h1)
    | (rw [hcl t] at h1; cases h1)
    | (rw [hd.buf] at he; cases he)
    | (rw [hd.sendq] at hp; cases hp)

/-- `c13_agree`: in a drained state of a collision-free run the keys the capacity accounting
charges for are exactly the keys held in the map. -/
theorem c13_agree {cfg : Cfg} {now : Time} {acts : List Action} {s : State}
    (hr : run cfg (init cfg now) acts = some s) (hcf : CollisionFree s.log) (hd : Drained s) :
    ∀ h, (s.pol.costs.lookup h).isSome = (s.store.lookup h).isSome :=
  (agree_reachC (reachC_of_collisionFree hr hcf) hd).1

/-- … so both hold the same number of keys (the "number of resident keys" of C17). -/
theorem c13_count {cfg : Cfg} {now : Time} {acts : List Action} {s : State}
    (hr : run cfg (init cfg now) acts = some s) (hcf : CollisionFree s.log) (hd : Drained s) :
    s.pol.costs.size = s.store.size :=
  (agree_reachC (reachC_of_collisionFree hr hcf) hd).2

example : ∃ s, run cfg0 (init cfg0 0) fillActs = some s ∧ CollisionFree s.log ∧ Drained s ∧
    s.store.size = 2 ∧ (s.store.lookup 3).isSome = true := by
  refine ⟨exState cfg0 fillActs, exState_run (by decide), collisionFree_of_B (by decide),
    ⟨by decide, by decide, rfl, fun t => ?_⟩, by decide, by decide⟩
  by_cases ht : t ∈ [0]
  · simp only [List.mem_singleton] at ht; subst ht; decide
  · exact exState_idle [0] (by decide) (by decide) ht

/-- No key is stored twice, in every reachable state. -/
theorem store_nodup {cfg : Cfg} {s : State} (h : Reach cfg s) : AMap.NodupKeys s.store := store_nodup_reach h

/-- `c13_iter`: let `orders` give one enumeration per shard of the store (`isShardOrder`).  Then their
concatenation lists every stored key exactly once, and one whole `IterValues` call (the loop
`iterAll` over all shards, started with nothing seen) with a callback that asks to stop at its
`n`-th call (`n = 0`: never) passes to the callback exactly the values of the unexpired entries
in that order — all of them if it is never asked to stop or there are fewer than `n`, otherwise
the first `n`, reporting that it stopped. -/
theorem c13_iter {cfg : Cfg} {s : State} (h : Reach cfg s) (now : Time) (n : Nat) (orders : List (List Hash))
    (ho : OrdersOk s.store orders) (hlen : orders.length = Gen.Cache.numShards.toNat) :
    orders.flatten.Nodup ∧ (∀ k, k ∈ orders.flatten ↔ (s.store.lookup k).isSome = true) ∧
    iterAll s.store now n orders [] =
      (if n ≠ 0 ∧ n ≤ (orders.flatten.filterMap (liveVal s.store now)).length
       then ((orders.flatten.filterMap (liveVal s.store now)).take n, true)
       else (orders.flatten.filterMap (liveVal s.store now), false)) := by
  obtain ⟨h1, h2⟩ := orders_keys (store_nodup_reach h) ho hlen
  refine ⟨h1, h2, ?_⟩
  rw [iterAll_spec s.store now n orders [] (by simp only [List.length_nil]; omega)]
  unfold cutAt
  simp

/-- The model's `IterValues` (one step per shard) computes `iterAll`: started at shard 0 and run without
interference, the steps of thread `t` end with the event `iterRet t (iterAll … orders []).1`. -/
theorem c13_iter_run {cfg : Cfg} {s : State} {t : Tid} {n : Nat} (orders : List (List Hash))
    (hpc : s.cl t = .iterShard 0 n []) (ho : OrdersOk s.store orders)
    (hlen : orders.length = Gen.Cache.numShards.toNat) :
    ∃ m s', m ≤ orders.length ∧
      run cfg s ((orders.take m).map fun ks => Action.client t (.order ks)) = some s' ∧
      s'.log = .iterRet t (iterAll s.store s.clock n orders []).1 :: s.log ∧ s'.cl t = .idle := by
  have hne : orders ≠ [] := by
    intro e; rw [e] at hlen
    have : Gen.Cache.numShards.toNat = 256 := by decide
    simp [this] at hlen
  obtain ⟨m, s', h1, h2, h3, h4, _⟩ := iter_run cfg t n orders s 0 [] hpc (by omega) hne
    (fun j hj => by simpa using ho j hj)
  exact ⟨m, s', h1, h2, h3, h4⟩

set_option maxRecDepth 20000 in
/-- non-vacuity: the drained state after `fillActs` stores keys 2 and 3 (values 8 and 9); a callback that
stops at its first call sees one value, one that never stops sees both -/
example : OrdersOk (exState cfg0 fillActs).store (idOrders (exState cfg0 fillActs).store) ∧
    (idOrders (exState cfg0 fillActs).store).length = Gen.Cache.numShards.toNat ∧
    iterAll (exState cfg0 fillActs).store 0 1 (idOrders (exState cfg0 fillActs).store) [] = ([8], true) ∧
    iterAll (exState cfg0 fillActs).store 0 0 (idOrders (exState cfg0 fillActs).store) [] = ([8, 9], false) :=
  ⟨idOrders_ok _, by simp [idOrders]; decide, by decide, by decide⟩

/-- `c13_empty`: in a drained state of a collision-free run in which nothing is stored any more (every
key deleted, expired-and-swept or cleared) no capacity is held — `used = 0`, `RemainingCost()`
(= `maxCost − used`) equals `MaxCost` — and `IterValues` enumerates nothing. -/
theorem c13_empty {cfg : Cfg} {now : Time} {acts : List Action} {s : State}
    (hr : run cfg (init cfg now) acts = some s) (hcf : CollisionFree s.log) (hd : Drained s)
    (hempty : ∀ h, (s.store.lookup h).isSome = false) :
    s.pol.used = 0 ∧ s.pol.maxCost - s.pol.used = s.pol.maxCost ∧
    ∀ clock n orders, OrdersOk s.store orders → iterAll s.store clock n orders [] = ([], false) := by
  have hag := c13_agree hr hcf hd
  have hcosts : s.pol.costs = AMap.empty := by
    apply AMap.eq_empty_of_lookup_none
    intro k
    have := hag k
    rw [hempty k] at this
    cases hl : s.pol.costs.lookup k with
    | none => rfl
    | some c => rw [hl] at this; cases this
  have hused : s.pol.used = 0 := by
    rw [(acct_reach (reach_of_run hr)).wf.sum, hcosts]; rfl
  refine ⟨hused, by omega, ?_⟩
  intro clock n orders ho
  have hnil : orders.flatten.filterMap (liveVal s.store clock) = [] := by
    rw [List.filterMap_eq_nil_iff]
    intro k hk
    have := ((orders_flatten_mem ho).mp hk).1
    rw [hempty k] at this; cases this
  rw [iterAll_spec s.store clock n orders [] (by simp only [List.length_nil]; omega), hnil]
  unfold cutAt
  simp only [List.length_nil, Nat.add_zero, List.append_nil, List.take_nil]
  rw [if_neg (by omega)]

/-- non-vacuity: `Set(1)` then `Del(1)`, both fully applied: drained, nothing stored, nothing accounted -/
example : ∃ s, run cfg0 (init cfg0 0) (setRun 0 1 7 3 ++ delRun 0 1) = some s ∧ CollisionFree s.log ∧ Drained s ∧
    (∀ h, (s.store.lookup h).isSome = false) ∧ s.met.costEvict = 3#64 := by
  refine ⟨exState cfg0 (setRun 0 1 7 3 ++ delRun 0 1), exState_run (by decide), collisionFree_of_B (by decide),
    ⟨by decide, by decide, rfl, fun t => ?_⟩, ?_, by decide⟩
  · by_cases ht : t ∈ [0]
    · simp only [List.mem_singleton] at ht; subst ht; decide
    · exact exState_idle [0] (by decide) (by decide) ht
  · have : (exState cfg0 (setRun 0 1 7 3 ++ delRun 0 1)).store = AMap.empty := rfl
    intro h; rw [this]; rfl

end RV.C13
