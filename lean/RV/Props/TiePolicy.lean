import RV.Gen.Methods
import RV.Model.Cache
import RV.Proofs.TiePolicyLemmas
/-!
# `sampledLFU.{getMaxCost, roomLeft, add, del, updateIfHas, clear}` and
# `defaultPolicy.{Has, Del, Cap, Update, Cost}` (policy.go): generated translation = models

Two models describe this code:

* the **exact policy model** `RV/Model/Policy.lean` (`RV.Policy.Pol`): `Int` costs that stand for
  `int64` words, every statement wrapping like Go.  Through `absPol` (words read by `BitVec.toInt`)
  the generated functions are *equal* to it, without any side condition (`…_eq`).
* the **cache model's accounting** `RV.Cache.polDel / polUpdate / polAddKey / polCost`
  (`RV/Model/Cache.lean`): unbounded `Int` arithmetic plus the metric counters `Met`.  The generated
  functions return the `Metrics.add` calls they perform as an ordered effect list (`List Eff`);
  `applyEffs` interprets it on `Met` (a nil `*Metrics` ignores the call).  The metric part is equal
  unconditionally; the `used` sum is equal when the one addition / subtraction performed does not
  wrap (`…_cache_partial`, the hypothesis is the model's documented no-overflow assumption, F9).
-/
set_option linter.unusedSimpArgs false
namespace RV.TiePolicy
open RV Gen.Methods RV.Tie

/-- abstraction: generated `sampledLFU` state ↦ the exact policy model's state -/
def absPol (g : SampledLFU) : RV.Policy.Pol :=
  { keyCosts := absKC g.keyCosts, used := g.used.toInt, maxCost := g.maxCost.toInt }

/-! ## against the exact policy model -/

theorem sampledLFU_getMaxCost_eq (g : SampledLFU) :
    (sampledLFU_getMaxCost g).toInt = (absPol g).maxCost := rfl

theorem sampledLFU_roomLeft_eq (g : SampledLFU) (c : BitVec 64) :
    (sampledLFU_roomLeft g c).toInt = RV.Policy.roomLeft (absPol g).maxCost (absPol g).used c.toInt := by
  simp [sampledLFU_roomLeft, RV.Policy.roomLeft, Gen.Policy.roomLeft, absPol, RV.Policy.w64]

theorem sampledLFU_add_eq (g : SampledLFU) (k c : BitVec 64) :
    absPol (sampledLFU_add g k c) = (absPol g).evictAdd k c.toInt := by
  simp [sampledLFU_add, RV.Policy.Pol.evictAdd, absPol, RV.Policy.plus64, RV.Policy.w64, insert_absKC]

theorem sampledLFU_del_eq (g : SampledLFU) (k : BitVec 64) :
    absPol (sampledLFU_del g k).1 = (absPol g).del k := by
  unfold sampledLFU_del RV.Policy.Pol.del
  simp only [absPol, lookup_absKC]
  cases h : g.keyCosts.lookup k <;> simp [RV.Policy.minus64, RV.Policy.w64, erase_absKC]

theorem sampledLFU_updateIfHas_eq (g : SampledLFU) (k c : BitVec 64) :
    let r := sampledLFU_updateIfHas g k c
    (absPol r.1, r.2.1) = (absPol g).updateIfHas k c.toInt := by
  unfold sampledLFU_updateIfHas RV.Policy.Pol.updateIfHas
  simp only [absPol, lookup_absKC]
  cases h : g.keyCosts.lookup k <;>
    simp [RV.Policy.plus64, RV.Policy.usedDelta, Gen.Policy.updUsedDelta, RV.Policy.w64, insert_absKC]

theorem sampledLFU_clear_eq (g : SampledLFU) : absPol (sampledLFU_clear g) = (absPol g).clear := by
  simp [sampledLFU_clear, RV.Policy.Pol.clear, absPol, absKC, AMap.empty]

theorem defaultPolicy_Has_eq {V : Type} (p : DefaultPolicy V) (k : BitVec 64) :
    defaultPolicy_Has p k = (absPol p.evict).has k := by
  simp [defaultPolicy_Has, RV.Policy.Pol.has, absPol, lookup_absKC]

theorem defaultPolicy_Del_eq {V : Type} (p : DefaultPolicy V) (k : BitVec 64) :
    absPol (defaultPolicy_Del p k).1.evict = (absPol p.evict).del k := by
  simp [defaultPolicy_Del, sampledLFU_del_eq]

theorem defaultPolicy_Cap_eq {V : Type} (p : DefaultPolicy V) :
    (defaultPolicy_Cap p).toInt = (absPol p.evict).cap := by
  simp [defaultPolicy_Cap, RV.Policy.Pol.cap, RV.Policy.capOf, Gen.Policy.capExpr, absPol, RV.Policy.w64]

theorem defaultPolicy_Update_eq {V : Type} (p : DefaultPolicy V) (k c : BitVec 64) :
    absPol (defaultPolicy_Update p k c).1.evict = (absPol p.evict).update k c.toInt := by
  have h := congrArg Prod.fst (sampledLFU_updateIfHas_eq p.evict k c)
  simpa [defaultPolicy_Update, RV.Policy.Pol.update] using h

theorem defaultPolicy_Cost_eq {V : Type} (p : DefaultPolicy V) (k : BitVec 64) :
    (defaultPolicy_Cost p k).toInt = (absPol p.evict).costOf k := by
  unfold defaultPolicy_Cost RV.Policy.Pol.costOf
  simp only [absPol, lookup_absKC]
  cases h : p.evict.keyCosts.lookup k <;> simp

/-- the wrappers leave every other field of the policy alone -/
theorem defaultPolicy_Del_frame {V : Type} (p : DefaultPolicy V) (k : BitVec 64) :
    { (defaultPolicy_Del p k).1 with evict := p.evict } = p := rfl
theorem defaultPolicy_Update_frame {V : Type} (p : DefaultPolicy V) (k c : BitVec 64) :
    { (defaultPolicy_Update p k c).1 with evict := p.evict } = p := rfl
theorem sampledLFU_del_frame (g : SampledLFU) (k : BitVec 64) :
    (sampledLFU_del g k).1.maxCost = g.maxCost ∧ (sampledLFU_del g k).1.metrics_nonnil = g.metrics_nonnil := by
  unfold sampledLFU_del; dsimp only; split <;> simp
theorem sampledLFU_updateIfHas_frame (g : SampledLFU) (k c : BitVec 64) :
    (sampledLFU_updateIfHas g k c).1.maxCost = g.maxCost ∧
    (sampledLFU_updateIfHas g k c).1.metrics_nonnil = g.metrics_nonnil := by
  unfold sampledLFU_updateIfHas; dsimp only; split <;> simp

/-! ## against the cache model's accounting and metrics -/
open RV.Cache

/-- `Metrics.add(t, _, delta)` on the per-kind totals of the model (the stripe is summed away) -/
def bump (m : Met) (t d : BitVec 64) : Met :=
  if t = metric_hit then { m with hit := m.hit + d }
  else if t = metric_miss then { m with miss := m.miss + d }
  else if t = metric_keyAdd then { m with keyAdd := m.keyAdd + d }
  else if t = metric_keyUpdate then { m with keyUpdate := m.keyUpdate + d }
  else if t = metric_keyEvict then { m with keyEvict := m.keyEvict + d }
  else if t = metric_costAdd then { m with costAdd := m.costAdd + d }
  else if t = metric_costEvict then { m with costEvict := m.costEvict + d }
  else if t = metric_dropSets then { m with dropSets := m.dropSets + d }
  else if t = metric_rejectSets then { m with rejectSets := m.rejectSets + d }
  else if t = metric_dropGets then { m with dropGets := m.dropGets + d }
  else if t = metric_keepGets then { m with keepGets := m.keepGets + d }
  else m

/-- one recorded call; a nil `*Metrics` receiver ignores it -/
def applyEff (m : Met) : Eff → Met
  | .Metrics_add nn t _ d => if nn then bump m t d else m

def applyEffs (m : Met) (es : List Eff) : Met := es.foldl applyEff m

/-- abstraction: generated `sampledLFU` state ↦ the cache model's accounting -/
def absCPol (g : SampledLFU) : RV.Cache.Pol :=
  { costs := AMap.mapVals BitVec.toInt g.keyCosts, used := g.used.toInt, maxCost := g.maxCost.toInt }

/-- `sampledLFU.del`: the metric effects are the model's, and so is the accounting when
`p.used -= cost` does not wrap. -/
theorem sampledLFU_del_cache_partial (g : SampledLFU) (met : Met) (k : BitVec 64)
    (hno : ∀ c, g.keyCosts.lookup k = some c → (g.used - c).toInt = g.used.toInt - c.toInt) :
    let r := sampledLFU_del g k
    (absCPol r.1, applyEffs met r.2) = polDel g.metrics_nonnil (absCPol g) met k := by
  unfold sampledLFU_del polDel
  simp only [absCPol, AMap.lookup_mapVals]
  cases h : g.keyCosts.lookup k
  · simp [applyEffs]
  · rename_i c
    have := hno c h
    cases hm : g.metrics_nonnil <;>
      simp [applyEffs, applyEff, bump, metric_costEvict, metric_keyEvict, metric_hit, metric_miss, metric_keyAdd,
        metric_keyUpdate, metric_costAdd, AMap.mapVals_erase, this, hm, RV.Cache.w64]

/-- the metric half of `sampledLFU.del`, with no side condition -/
theorem sampledLFU_del_metrics (g : SampledLFU) (met : Met) (k : BitVec 64) :
    applyEffs met (sampledLFU_del g k).2 = (polDel g.metrics_nonnil (absCPol g) met k).2 := by
  unfold sampledLFU_del polDel
  simp only [absCPol, AMap.lookup_mapVals]
  cases h : g.keyCosts.lookup k
  · simp [applyEffs]
  · cases hm : g.metrics_nonnil <;>
      simp [applyEffs, applyEff, bump, metric_costEvict, metric_keyEvict, metric_hit, metric_miss, metric_keyAdd,
        metric_keyUpdate, metric_costAdd, hm, RV.Cache.w64]

/-- `sampledLFU.updateIfHas`: metric effects as in the model (the two's-complement delta
`^(uint64(diff) - 1)` is `cost - prev` modulo 2^64); accounting equal when `p.used += cost - prev`
does not wrap. -/
theorem sampledLFU_updateIfHas_cache_partial (g : SampledLFU) (met : Met) (k c : BitVec 64)
    (hno : ∀ prev, g.keyCosts.lookup k = some prev →
      (g.used + (c - prev)).toInt = g.used.toInt + (c.toInt - prev.toInt)) :
    let r := sampledLFU_updateIfHas g k c
    (absCPol r.1, applyEffs met r.2.2, r.2.1) = polUpdate g.metrics_nonnil (absCPol g) met k c.toInt := by
  unfold sampledLFU_updateIfHas polUpdate
  simp only [absCPol, AMap.lookup_mapVals]
  cases h : g.keyCosts.lookup k
  · simp [applyEffs]
  · rename_i prev
    have := hno prev h
    rcases slt_trichotomy c prev with h1 | ⟨h1, h2⟩ | e
    · cases hm : g.metrics_nonnil <;>
      simp [applyEffs, applyEff, bump, metric_costEvict, metric_keyEvict, metric_hit, metric_miss, metric_keyAdd,
        metric_keyUpdate, metric_costAdd, AMap.mapVals_insert, hm, not_sub_one, neg_sub_bv, ofInt_toInt_sub, RV.Cache.w64, h1, this]
    · cases hm : g.metrics_nonnil <;>
      simp [applyEffs, applyEff, bump, metric_costEvict, metric_keyEvict, metric_hit, metric_miss, metric_keyAdd,
        metric_keyUpdate, metric_costAdd, AMap.mapVals_insert, hm, not_sub_one, neg_sub_bv, ofInt_toInt_sub, RV.Cache.w64, h1, h2, this]
    · subst e
      have hs := slt_self_false c
      cases hm : g.metrics_nonnil <;>
      simp [applyEffs, applyEff, bump, metric_costEvict, metric_keyEvict, metric_hit, metric_miss, metric_keyAdd,
        metric_keyUpdate, metric_costAdd, AMap.mapVals_insert, hm, not_sub_one, neg_sub_bv, ofInt_toInt_sub, RV.Cache.w64, hs] at this ⊢

/-- the metric half of `sampledLFU.updateIfHas`, with no side condition -/
theorem sampledLFU_updateIfHas_metrics (g : SampledLFU) (met : Met) (k c : BitVec 64) :
    applyEffs met (sampledLFU_updateIfHas g k c).2.2 = (polUpdate g.metrics_nonnil (absCPol g) met k c.toInt).2.1 := by
  unfold sampledLFU_updateIfHas polUpdate
  simp only [absCPol, AMap.lookup_mapVals]
  cases h : g.keyCosts.lookup k
  · simp [applyEffs]
  · rename_i prev
    rcases slt_trichotomy c prev with h1 | ⟨h1, h2⟩ | e
    · cases hm : g.metrics_nonnil <;>
      simp [applyEffs, applyEff, bump, metric_costEvict, metric_keyEvict, metric_hit, metric_miss, metric_keyAdd,
        metric_keyUpdate, metric_costAdd, AMap.mapVals_insert, hm, not_sub_one, neg_sub_bv, ofInt_toInt_sub, RV.Cache.w64, h1]
    · cases hm : g.metrics_nonnil <;>
      simp [applyEffs, applyEff, bump, metric_costEvict, metric_keyEvict, metric_hit, metric_miss, metric_keyAdd,
        metric_keyUpdate, metric_costAdd, AMap.mapVals_insert, hm, not_sub_one, neg_sub_bv, ofInt_toInt_sub, RV.Cache.w64, h1, h2]
    · subst e
      have hs := slt_self_false c
      cases hm : g.metrics_nonnil <;>
      simp [applyEffs, applyEff, bump, metric_costEvict, metric_keyEvict, metric_hit, metric_miss, metric_keyAdd,
        metric_keyUpdate, metric_costAdd, AMap.mapVals_insert, hm, not_sub_one, neg_sub_bv, ofInt_toInt_sub, RV.Cache.w64, hs]

/-- `sampledLFU.add` is the accounting half of the model's `polAddKey` (its `costAdd` metric is
written by `defaultPolicy.Add` itself), when `p.used += cost` does not wrap. -/
theorem sampledLFU_add_cache_partial (g : SampledLFU) (on : Bool) (met : Met) (k c : BitVec 64)
    (hno : (g.used + c).toInt = g.used.toInt + c.toInt) :
    absCPol (sampledLFU_add g k c) = (polAddKey on (absCPol g) met k c.toInt).1 := by
  simp [sampledLFU_add, polAddKey, absCPol, AMap.mapVals_insert, hno]

/-- `defaultPolicy.Cost` is the model's `polCost` -/
theorem defaultPolicy_Cost_cache_eq {V : Type} (p : DefaultPolicy V) (k : BitVec 64) :
    (defaultPolicy_Cost p k).toInt = polCost (absCPol p.evict) k := by
  unfold defaultPolicy_Cost polCost
  simp only [absCPol, AMap.lookup_mapVals]
  cases h : p.evict.keyCosts.lookup k <;> simp

/-- `defaultPolicy.Del` / `defaultPolicy.Update` pass the effects of the helper through unchanged -/
theorem defaultPolicy_Del_effs {V : Type} (p : DefaultPolicy V) (k : BitVec 64) :
    (defaultPolicy_Del p k).2 = (sampledLFU_del p.evict k).2 := by
  simp [defaultPolicy_Del]
theorem defaultPolicy_Update_effs {V : Type} (p : DefaultPolicy V) (k c : BitVec 64) :
    (defaultPolicy_Update p k c).2 = (sampledLFU_updateIfHas p.evict k c).2.2 := by
  simp [defaultPolicy_Update]

/-! Non-vacuity: a concrete accounting state with two keys; the no-wrap hypotheses hold, the
generated methods take their interesting branches and emit the effects in program order. -/
def s0 : SampledLFU := { maxCost := 100#64, used := 30#64, metrics_nonnil := true, keyCosts := [(1#64, 10#64), (2#64, 20#64)] }

example : ∀ c, s0.keyCosts.lookup 2#64 = some c → (s0.used - c).toInt = s0.used.toInt - c.toInt := by
  intro c h; have : c = 20#64 := by simpa [s0, AMap.lookup] using h.symm
  subst this; decide
example : (sampledLFU_del s0 2#64).2 =
    [Eff.Metrics_add true metric_costEvict 2#64 20#64, Eff.Metrics_add true metric_keyEvict 2#64 1#64] := by rfl
example : (sampledLFU_del s0 2#64).1.used = 10#64 := by rfl
example : (sampledLFU_del s0 3#64) = (s0, []) := by rfl
example : (sampledLFU_updateIfHas s0 2#64 5#64).2 =
    (true, [Eff.Metrics_add true metric_keyUpdate 2#64 1#64,
            Eff.Metrics_add true metric_costAdd 2#64 (BitVec.ofInt 64 (-15))]) := by rfl
example : (sampledLFU_updateIfHas s0 2#64 5#64).1.used = 15#64 := by rfl
example : (applyEffs {} (sampledLFU_updateIfHas s0 2#64 25#64).2.2).costAdd = 5#64 := by rfl
example : sampledLFU_roomLeft s0 80#64 = BitVec.ofInt 64 (-10) := by rfl

end RV.TiePolicy
