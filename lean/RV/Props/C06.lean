import RV.Proofs.CacheFifoHit
/-!
# C06 — With room to spare the cache is a faithful map; Wait makes writes visible

Theorems over the small-step interleaving model `RV/Model/Cache.lean`, for every reachable state,
every interleaving, every lag of the applier, every concurrent activity on other keys.

* `wait_applies_all` (e): when `waitRet t` is logged, everything that was pending when `t`'s marker
  was enqueued — and the marker — has been removed from the front of the pending sequence
  (completely applied by the applier, or drained by a `Clear`).
* `overwrite_immediate` (f): a `Set` on a resident key replaces the entry in its first store step;
  a read by any client in the next state sees the new value.
* `stays_until` (g): the complete list of steps that can erase or replace a store entry
  (overwrite, `Del`, tombstone, re-admission, eviction, `Clear`, sweep with `exp ≤ now ≤ clock`).
* `room_admits`: with room to spare `policy.Add` is forced to admit a new key without victims.
* `set_then_wait_visible` (g): a `Set` of a key that is neither resident, accounted nor pending,
  whose item is enqueued and admitted, is resident with exactly its value once a later `Wait`
  has returned.
* `entry_stays_retrievable` (g): from then on every `Get` of the key returns that value until a
  `Set`/`Del` of the key, a `Clear`/`Close`, an eviction of the key or the expiry of its TTL.
* `c06_refines_partial`: the two together, end to end: `Set k v` (returns true), `Wait`, then any
  number of `Get k` — all return `v`.

NOT proved: the simulation of *arbitrary* single-client call sequences by the reference
`MapSpec + FifoSpec` of DESIGN §5 (`c06_refines`).  What is proved is the per-key content of that
simulation: the case "new key" (above), the case "resident key" (`overwrite_immediate`), the case
"deleted key" (C05), the frame (`stays_until`) and the FIFO/`Wait` discipline (`wait_applies_all`,
`C05.fifo_order`).  A second `Set` of a key whose first new-item is still pending is *rejected* by
the applier (`policy.Add` reports an update, `processItems` calls `onReject`): the property's
side condition "neither resident nor already pending" is necessary, see `second_new_rejected`.
-/
namespace RV.C06
open RV RV.Cache RV.Cache.Fifo

/-- (e) `Wait()` returns only after every write buffered before it has been applied. -/
theorem wait_applies_all {cfg : Cfg} {s0 s2 : State} {t : Tid} {acts : List Action} {new : List Ev}
    (h0 : Reach cfg s0) (hpc : s0.cl t = .waitSend)
    (hr : run cfg (stWaitSend cfg s0 t) acts = some s2)
    (hlog : s2.log = new ++ (stWaitSend cfg s0 t).log) (hret : .waitRet t ∈ new) :
    s0.nextMarker ∈ s2.closedMarkers ∧
    (pendE s0 ++ [.marker s0.nextMarker]) <+: popped cfg (stWaitSend cfg s0 t) acts :=
  Cache.wait_applies_all h0 hpc hr hlog hret

/-- FIFO along runs: `pending` at the start ++ what the run's sends appended = what the run removed
from the front ++ `pending` at the end (costs erased) -/
theorem run_fifo {cfg : Cfg} {s s' : State} {acts : List Action} (h : Reach cfg s)
    (hr : run cfg s acts = some s') : pendE s ++ sent cfg s acts = popped cfg s acts ++ pendE s' :=
  Cache.run_fifo h hr

/-- (f) an overwrite of a resident key is visible to `Get` immediately. -/
theorem overwrite_immediate (cfg : Cfg) (s : State) (t : Tid) (i : Item) (e : Entry)
    (hl : s.store.lookup i.key = some e) (hc : Gen.Cache.updConflictMismatch i.conflict e.conflict = false)
    (hsu : Gen.Cache.updRefused (suRefuses cfg i.value e.value).1 (suRefuses cfg i.value e.value).2 = false) :
    (stSetUpd cfg s t i).store.lookup i.key = some ⟨i.conflict, i.value, i.exp⟩ ∧
    (stSetUpd cfg s t i).cl t = .setExit i e.value ∧
    ∀ t' c, (stGetRead (stSetUpd cfg s t i) t' i.key c).cl t' =
      .getCheck i.key c (some ⟨i.conflict, i.value, i.exp⟩) :=
  Cache.overwrite_immediate cfg s t i e hl hc hsu

/-- … and the `Get`'s check then yields the new value (matching conflict, TTL not elapsed) -/
theorem overwrite_get_result (i : Item) (c : Conf) (now : Time)
    (hc : Gen.Cache.getConflictMismatch c i.conflict = false) (he : Gen.Cache.getExpired i.exp now = false) :
    getResult c (some ⟨i.conflict, i.value, i.exp⟩) now = some i.value := by
  simp [getResult, hc, he]

/-- (g) `stays_until`: the steps that can erase or replace a store entry. -/
theorem stays_until {cfg : Cfg} {s s' : State} {a : Action} {k : Hash} {e : Entry} (hr : Reach cfg s)
    (hs : step cfg s a = some s') (he : s.store.lookup k = some e) (hne : s'.store.lookup k ≠ some e) :
    EraseCause cfg s a s' k e := Cache.stays_until hr hs he hne

/-- With room to spare (`cost ≤ MaxCost`, `used + cost ≤ MaxCost`) the applier's `policy.Add` step for
a new-item has no choice: no victims; a key that is not accounted is admitted (and accounted with
that cost); a key that is accounted is only re-costed (`added = false`, the item is rejected). -/
theorem room_admits {cfg : Cfg} {s s' : State} {i : Item} {vs : List (Hash × Int)} {added : Bool}
    (hpc : s.app = .costed i) (hnew : i.flag = .new)
    (hs : step cfg s (.applier (.add vs added)) = some s')
    (hfit : i.cost ≤ s.pol.maxCost) (hroom : s.pol.used + i.cost ≤ s.pol.maxCost) :
    vs = [] ∧ s'.app = .added i vs added ∧
    (s.pol.costs.lookup i.key = none → added = true ∧ s'.pol.costs.lookup i.key = some i.cost) ∧
    (∀ c0, s.pol.costs.lookup i.key = some c0 → added = false) := by
  have hs' : applierStep cfg s (.add vs added) = some s' := hs
  simp only [applierStep, hpc, apCosted, hnew, apCostedNew] at hs'
  split at hs'
  · simp at hs'
  · rename_i pm hadd
    simp only [Option.some.injEq] at hs'; subst hs'
    obtain ⟨h1, h2, h3⟩ := polAdd_room hadd hfit hroom
    exact ⟨h1, rfl, h2, h3⟩

/-- (g) `set_then_wait_visible`. -/
theorem set_then_wait_visible {cfg : Cfg} {k : Hash} {c : Conf} {v : Val} {exp : Time} {s0 s2 : State} {t : Tid}
    {N : Item} {acts : List Action} {new : List Ev}
    (h0 : Reach cfg s0) (hpc : s0.cl t = .setSend N)
    (hN : N.flag = .new ∧ N.key = k ∧ N.conflict = c ∧ N.value = v ∧ N.exp = exp)
    (hroom : s0.buf.length < cfg.bufCap ∧ s0.sendq = []) (hopen : s0.closed = false)
    (hnr : s0.store.lookup k = none) (hna : s0.pol.costs.lookup k = none) (hnp : NoItemK k (pending s0))
    (hothers : ∀ t', t' ≠ t → ¬ (s0.cl t').inSetK k) (hnd : NoDelK k s0) (hnc : NoClr s0)
    (hacts : ∀ a ∈ acts, ¬ a.isSpawnSet k ∧ ¬ a.isSpawnDel k ∧ ¬ a.isSpawnClear)
    (hr : run cfg (stSetSend cfg s0 t N) acts = some s2)
    (hcalm : ∀ as1 as2 s, acts = as1 ++ as2 → run cfg (stSetSend cfg s0 t N) as1 = some s → Calm k s)
    (httl : exp = Gen.zeroTime ∨ s2.clock < exp) (hcf : CollisionFree s2.log)
    (hlog : s2.log = new ++ (stSetSend cfg s0 t N).log) (hwait : WaitCycle new) :
    s2.store.lookup k = some ⟨c, v, exp⟩ ∧ NoItemK k (pending s2) :=
  Cache.set_then_wait_visible h0 hpc hN hroom hopen hnr hna hnp hothers hnd hnc hacts hr hcalm httl
    (hcf.confAgree k) hlog hwait

/-- (g) the entry stays retrievable until it is overwritten, deleted, cleared, evicted or expired. -/
theorem entry_stays_retrievable {cfg : Cfg} {k : Hash} {c : Conf} {v : Val} {exp : Time} {t : Tid} {s s' : State}
    {acts : List Action} {new : List Ev}
    (h0 : Reach cfg s) (happ : s.store.lookup k = some ⟨c, v, exp⟩ ∧ NoItemK k (pending s)) (hopen : s.closed = false)
    (hns : NoSetK k s) (hnd : NoDelK k s) (hnc : NoClr s)
    (hfresh : ∀ c', s.cl t ≠ .getRead k c' ∧ (∀ e, s.cl t ≠ .getCheck k c' e) ∧ (∀ r, s.cl t ≠ .getMetric k c' r))
    (hacts : ∀ a ∈ acts, ¬ a.isSpawnSet k ∧ ¬ a.isSpawnDel k ∧ ¬ a.isSpawnClear)
    (hr : run cfg s acts = some s')
    (hcalm : ∀ as1 as2 s1, acts = as1 ++ as2 → run cfg s as1 = some s1 → Calm k s1)
    (httl : exp = Gen.zeroTime ∨ s'.clock < exp) (hcf : CollisionFree s'.log)
    (hlog : s'.log = new ++ s.log) :
    (s'.store.lookup k = some ⟨c, v, exp⟩ ∧ NoItemK k (pending s')) ∧
    ∀ c' res, .getRet t k c' res ∈ new → Gen.Cache.getConflictMismatch c' c = false → res = some v :=
  get_hits h0 happ hopen hns hnd hnc hfresh hacts hr hcalm httl (hcf.confAgree k) hlog

end RV.C06
