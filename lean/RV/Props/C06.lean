import RV.Proofs.CacheFifoSpecRun
import RV.Props.C05
/-!
# C06 — With room to spare the cache is a faithful map; Wait makes writes visible

Theorems over the small-step interleaving model `RV/Model/Cache.lean`, for every reachable state,
every interleaving, every lag of the applier, every concurrent activity on other keys.

* `wait_applies_all` (e): when `waitRet t` is logged, everything that was pending when `t`'s marker
  was enqueued — and the marker — has been removed from the front of the pending sequence
  (completely applied by the applier, or drained by a `Clear`).
* `overwrite_immediate` (f): a `Set` on a resident key replaces the entry in its first store step;
  a read by any client in the next state sees the new value.
* `stays_until` (g): the complete list of steps that can erase or replace a store entry
  (overwrite, `Del`, tombstone, re-admission, eviction, `Clear`, sweep with `exp ≤ now ≤ clock`).
* `room_admits`: with room to spare `policy.Add` is forced to admit a new key without victims.
* `set_then_wait_visible` (g): a `Set` of a key that is neither resident, accounted nor pending,
  whose item is enqueued and admitted, is resident with exactly its value once a later `Wait`
  has returned.
* `entry_stays_retrievable` (g): from then on every `Get` of the key returns that value until a
  `Set`/`Del` of the key, a `Clear`/`Close`, an eviction of the key or the expiry of its TTL.
* `c06_refines_partial`: the two together, end to end: `Set k v` (returns true), `Wait`, then any
  number of `Get k` — all return `v` (any number of clients on other keys).

* `c06_refines`: **the refinement.**  Every run of the model from its initial state in which a
  single client issues `Set`/`SetWithTTL`/`Get`/`GetTTL`/`Del`/`Wait` calls, with the applier, the
  sweep and the clock interleaved arbitrarily, is matched step by step by a run of the reference
  `Spec` (`RV/Proofs/CacheFifoSpec.lean`: a map `hash ⇀ (conflict, value, expiration)`, the set of
  accounted keys, an explicit FIFO of pending writes, a clock — no capacity, no policy, no expiry
  index, no blocked senders, no applier sub-steps) with the same history of calls and results
  (`obsOf`), ending in `SimR`-related states (same map, same pending sequence, same clock).
  Reference transitions: the atomic sections of the five calls (`specClient`; whether a `Set`'s
  item is enqueued or dropped is the environment's choice — a dropped new `Set` returns false and
  changes nothing), `apply` (pop the oldest pending write and apply it atomically: a new-item
  inserts unless its key is accounted, then it is rejected; a tombstone erases; update-items and
  markers do nothing), `expire` (drop an entry with `exp ≠ 0 ∧ exp ≤ clock`), `tick`.
  Hypotheses: one client tid; only the five map calls (no `Clear`/`Close`/`IterValues`/
  `UpdateMaxCost`); `ShouldUpdate` unset; `RoomAt` in every state of the run (whenever the applier
  offers a new-item to `policy.Add`, `cost ≤ MaxCost` and `used + cost ≤ MaxCost` — then
  `room_admits` forces "admit, no victims").  `CollisionFree` is NOT needed: the reference keeps the
  conflict checks of `lockedMap`.  The callbacks (`OnExit`/`OnEvict`/`OnReject`) are not part of the
  observable history (they are C04's subject).

A second `Set` of a key whose first new-item is still pending is *rejected* by the applier
(`policy.Add` reports an update, `processItems` calls `onReject`) — in the model and in the
reference alike; the property's side condition "neither resident nor already pending" is
necessary, see `second_new_rejected`.
-/
namespace RV.C06
open RV RV.Cache RV.Cache.Fifo

/-- (e) `Wait()` returns only after every write buffered before it has been applied. -/
theorem wait_applies_all {cfg : Cfg} {s0 s2 : State} {t : Tid} {acts : List Action} {new : List Ev}
    (h0 : Reach cfg s0) (hpc : s0.cl t = .waitSend)
    (hr : run cfg (stWaitSend cfg s0 t) acts = some s2)
    (hlog : s2.log = new ++ (stWaitSend cfg s0 t).log) (hret : .waitRet t ∈ new) :
    s0.nextMarker ∈ s2.closedMarkers ∧
    (pendE s0 ++ [.marker s0.nextMarker]) <+: popped cfg (stWaitSend cfg s0 t) acts :=
  Cache.wait_applies_all h0 hpc hr hlog hret

/-- FIFO along runs: `pending` at the start ++ what the run's sends appended = what the run removed
from the front ++ `pending` at the end (costs erased) -/
theorem run_fifo {cfg : Cfg} {s s' : State} {acts : List Action} (h : Reach cfg s)
    (hr : run cfg s acts = some s') : pendE s ++ sent cfg s acts = popped cfg s acts ++ pendE s' :=
  Cache.run_fifo h hr

/-- (f) an overwrite of a resident key is visible to `Get` immediately. -/
theorem overwrite_immediate (cfg : Cfg) (s : State) (t : Tid) (i : Item) (e : Entry)
    (hl : s.store.lookup i.key = some e) (hc : Gen.Cache.updConflictMismatch i.conflict e.conflict = false)
    (hsu : Gen.Cache.updRefused (suRefuses cfg i.value e.value).1 (suRefuses cfg i.value e.value).2 = false) :
    (stSetUpd cfg s t i).store.lookup i.key = some ⟨i.conflict, i.value, i.exp⟩ ∧
    (stSetUpd cfg s t i).cl t = .setExit i e.value ∧
    ∀ t' c, (stGetRead (stSetUpd cfg s t i) t' i.key c).cl t' =
      .getCheck i.key c (some ⟨i.conflict, i.value, i.exp⟩) :=
  Cache.overwrite_immediate cfg s t i e hl hc hsu

/-- … and the `Get`'s check then yields the new value (matching conflict, TTL not elapsed) -/
theorem overwrite_get_result (i : Item) (c : Conf) (now : Time)
    (hc : Gen.Cache.getConflictMismatch c i.conflict = false) (he : Gen.Cache.getExpired i.exp now = false) :
    getResult c (some ⟨i.conflict, i.value, i.exp⟩) now = some i.value := by
  simp [getResult, hc, he]

/-- (g) `stays_until`: the steps that can erase or replace a store entry. -/
theorem stays_until {cfg : Cfg} {s s' : State} {a : Action} {k : Hash} {e : Entry} (hr : Reach cfg s)
    (hs : step cfg s a = some s') (he : s.store.lookup k = some e) (hne : s'.store.lookup k ≠ some e) :
    EraseCause cfg s a s' k e := Cache.stays_until hr hs he hne

/-- With room to spare (`cost ≤ MaxCost`, `used + cost ≤ MaxCost`) the applier's `policy.Add` step for
a new-item has no choice: no victims; a key that is not accounted is admitted (and accounted with
that cost); a key that is accounted is only re-costed (`added = false`, the item is rejected). -/
theorem room_admits {cfg : Cfg} {s s' : State} {i : Item} {vs : List (Hash × Int)} {added : Bool}
    (hpc : s.app = .costed i) (hnew : i.flag = .new)
    (hs : step cfg s (.applier (.add vs added)) = some s')
    (hfit : i.cost ≤ s.pol.maxCost) (hroom : s.pol.used + i.cost ≤ s.pol.maxCost) :
    vs = [] ∧ s'.app = .added i vs added ∧
    (s.pol.costs.lookup i.key = none → added = true ∧ s'.pol.costs.lookup i.key = some i.cost) ∧
    (∀ c0, s.pol.costs.lookup i.key = some c0 → added = false) := by
  have hs' : applierStep cfg s (.add vs added) = some s' := hs
  simp only [applierStep, hpc, apCosted, hnew, apCostedNew] at hs'
  split at hs'
  · simp at hs'
  · rename_i pm hadd
    simp only [Option.some.injEq] at hs'; subst hs'
    obtain ⟨h1, h2, h3⟩ := polAdd_room hadd hfit hroom
    exact ⟨h1, rfl, h2, h3⟩

/-- (g) `set_then_wait_visible`. -/
theorem set_then_wait_visible {cfg : Cfg} {k : Hash} {c : Conf} {v : Val} {exp : Time} {s0 s2 : State} {t : Tid}
    {N : Item} {acts : List Action} {new : List Ev}
    (h0 : Reach cfg s0) (hpc : s0.cl t = .setSend N)
    (hN : N.flag = .new ∧ N.key = k ∧ N.conflict = c ∧ N.value = v ∧ N.exp = exp)
    (hroom : s0.buf.length < cfg.bufCap ∧ s0.sendq = []) (hopen : s0.closed = false)
    (hnr : s0.store.lookup k = none) (hna : s0.pol.costs.lookup k = none) (hnp : NoItemK k (pending s0))
    (hothers : ∀ t', t' ≠ t → ¬ (s0.cl t').inSetK k) (hnd : NoDelK k s0) (hnc : NoClr s0)
    (hacts : ∀ a ∈ acts, ¬ a.isSpawnSet k ∧ ¬ a.isSpawnDel k ∧ ¬ a.isSpawnClear)
    (hr : run cfg (stSetSend cfg s0 t N) acts = some s2)
    (hcalm : ∀ as1 as2 s, acts = as1 ++ as2 → run cfg (stSetSend cfg s0 t N) as1 = some s → Calm k s)
    (httl : exp = Gen.zeroTime ∨ s2.clock < exp) (hcf : CollisionFree s2.log)
    (hlog : s2.log = new ++ (stSetSend cfg s0 t N).log) (hwait : WaitCycle new) :
    (s2.store.lookup k = some ⟨c, v, exp⟩ ∧ NoItemK k (pending s2)) ∧
    NoSetK k s2 ∧ NoDelK k s2 ∧ NoClr s2 ∧ s2.closed = false :=
  Cache.set_then_wait_visible h0 hpc hN hroom hopen hnr hna hnp hothers hnd hnc hacts hr hcalm httl
    (hcf.confAgree k) hlog hwait

/-- (g) the entry stays retrievable until it is overwritten, deleted, cleared, evicted or expired. -/
theorem entry_stays_retrievable {cfg : Cfg} {k : Hash} {c : Conf} {v : Val} {exp : Time} {t : Tid} {s s' : State}
    {acts : List Action} {new : List Ev}
    (h0 : Reach cfg s) (happ : s.store.lookup k = some ⟨c, v, exp⟩ ∧ NoItemK k (pending s)) (hopen : s.closed = false)
    (hns : NoSetK k s) (hnd : NoDelK k s) (hnc : NoClr s)
    (hfresh : ∀ c', s.cl t ≠ .getRead k c' ∧ (∀ e, s.cl t ≠ .getCheck k c' e) ∧ (∀ r, s.cl t ≠ .getMetric k c' r))
    (hacts : ∀ a ∈ acts, ¬ a.isSpawnSet k ∧ ¬ a.isSpawnDel k ∧ ¬ a.isSpawnClear)
    (hr : run cfg s acts = some s')
    (hcalm : ∀ as1 as2 s1, acts = as1 ++ as2 → run cfg s as1 = some s1 → Calm k s1)
    (httl : exp = Gen.zeroTime ∨ s'.clock < exp) (hcf : CollisionFree s'.log)
    (hlog : s'.log = new ++ s.log) :
    (s'.store.lookup k = some ⟨c, v, exp⟩ ∧ NoItemK k (pending s')) ∧
    ∀ c' res, .getRet t k c' res ∈ new → Gen.Cache.getConflictMismatch c' c = false → res = some v :=
  get_hits h0 happ hopen hns hnd hnc hfresh hacts hr hcalm httl (hcf.confAgree k) hlog

/-- `c06_refines_partial` — the per-key content of the refinement, end to end.  Client `t` sends
the new-item of `Set k v` (key neither resident, accounted nor pending; buffer has room, so the
`Set` returns true; cache open); run 1 contains a `Wait` called and returned afterwards; run 2 is
any continuation.  Throughout: nobody else `Set`s/`Del`etes `k`, no `Clear`/`Close`, the policy
admits `k`'s item and never evicts `k` (`Calm`, implied by `room_admits` when there is room), the
TTL has not elapsed, `CollisionFree`.  Then every `Get k` (matching conflict) that client `tg`
performs in run 2 returns exactly `v`, and the entry is still resident at the end.
This is NOT the full simulation by `MapSpec + FifoSpec` (see the header). -/
theorem c06_refines_partial {cfg : Cfg} {k : Hash} {c : Conf} {v : Val} {exp : Time} {s0 s2 s3 : State} {t tg : Tid}
    {N : Item} {acts1 acts2 : List Action} {new1 new2 : List Ev}
    (h0 : Reach cfg s0) (hpc : s0.cl t = .setSend N)
    (hN : N.flag = .new ∧ N.key = k ∧ N.conflict = c ∧ N.value = v ∧ N.exp = exp)
    (hroom : s0.buf.length < cfg.bufCap ∧ s0.sendq = []) (hopen : s0.closed = false)
    (hnr : s0.store.lookup k = none) (hna : s0.pol.costs.lookup k = none) (hnp : NoItemK k (pending s0))
    (hothers : ∀ t', t' ≠ t → ¬ (s0.cl t').inSetK k) (hnd : NoDelK k s0) (hnc : NoClr s0)
    (hacts1 : ∀ a ∈ acts1, ¬ a.isSpawnSet k ∧ ¬ a.isSpawnDel k ∧ ¬ a.isSpawnClear)
    (hr1 : run cfg (stSetSend cfg s0 t N) acts1 = some s2)
    (hcalm1 : ∀ as1 as2 s, acts1 = as1 ++ as2 → run cfg (stSetSend cfg s0 t N) as1 = some s → Calm k s)
    (hlog1 : s2.log = new1 ++ (stSetSend cfg s0 t N).log) (hwait : WaitCycle new1)
    (hfresh : ∀ c', s2.cl tg ≠ .getRead k c' ∧ (∀ e, s2.cl tg ≠ .getCheck k c' e) ∧ (∀ r, s2.cl tg ≠ .getMetric k c' r))
    (hacts2 : ∀ a ∈ acts2, ¬ a.isSpawnSet k ∧ ¬ a.isSpawnDel k ∧ ¬ a.isSpawnClear)
    (hr2 : run cfg s2 acts2 = some s3)
    (hcalm2 : ∀ as1 as2 s, acts2 = as1 ++ as2 → run cfg s2 as1 = some s → Calm k s)
    (httl : exp = Gen.zeroTime ∨ s3.clock < exp) (hcf : CollisionFree s3.log)
    (hlog2 : s3.log = new2 ++ s2.log) :
    s3.store.lookup k = some ⟨c, v, exp⟩ ∧
    ∀ c' res, .getRet tg k c' res ∈ new2 → Gen.Cache.getConflictMismatch c' c = false → res = some v := by
  have hstep : step cfg s0 (.client t .none) = some (stSetSend cfg s0 t N) := by
    simp [step, clientStep, hpc, needNone]
  have hreach2 : Reach cfg s2 := (h0.of_step hstep).run hr1
  have hcf2 : CollisionFree s2.log := by rw [hlog2] at hcf; exact C05.CollisionFree.of_append hcf
  have httl2 : exp = Gen.zeroTime ∨ s2.clock < exp :=
    httl.imp id (fun h => Int.lt_of_le_of_lt (run_clock hr2) h)
  obtain ⟨happ, h1, h2, h3, h4⟩ := set_then_wait_visible h0 hpc hN hroom hopen hnr hna hnp hothers hnd hnc hacts1
    hr1 hcalm1 httl2 hcf2 hlog1 hwait
  have := entry_stays_retrievable (t := tg) hreach2 happ h4 h1 h2 h3 hfresh hacts2 hr2 hcalm2 httl hcf hlog2
  exact ⟨this.1.1, this.2⟩

/-! ## Concrete runs -/

open RV.C05 (cfgX kX cl idle_of_other)

def k9 : Hash := 9#64
def NX : Item := ⟨.new, kX, 0#64, 11, 1, Gen.zeroTime⟩

/-- client 2's `Set` of another key is buffered; client 1's `Set kX 11` is about to send -/
def pre0 : List Action :=
  [.spawn 2 (.set k9 0#64 50 1 0)] ++ cl 2 4 ++ [.spawn 1 (.set kX 0#64 11 1 0)] ++ cl 1 2
/-- the `Set` returns; the applier applies the other key's item; client 1 calls `Wait`; only now
the applier applies `kX`'s item and the marker; `Wait` returns -/
def acts1 : List Action :=
  cl 1 1 ++ [.applier .selItem, .applier .none, .applier (.add [] true), .applier .none] ++
  [.spawn 1 .wait] ++ cl 1 2 ++
  [.applier .selItem, .applier .none, .applier (.add [] true), .applier .none] ++
  [.applier .selItem, .applier .none] ++ cl 1 2
/-- `Get kX` by client 1, time passes, `Get kX` by client 2 -/
def acts2 : List Action := [.spawn 1 (.get kX 0#64)] ++ cl 1 4 ++ [.tick 5] ++ [.spawn 2 (.get kX 0#64)] ++ cl 2 4

theorem pre0_ok : (run cfgX (init cfgX 0) pre0).isSome = true := by rfl
def s0X : State := (run cfgX (init cfgX 0) pre0).get pre0_ok
theorem run_pre0 : run cfgX (init cfgX 0) pre0 = some s0X := by simp [s0X]
def s1X : State := stSetSend cfgX s0X 1 NX
theorem acts1_ok : (run cfgX s1X acts1).isSome = true := by rfl
def s2X : State := (run cfgX s1X acts1).get acts1_ok
theorem run_acts1 : run cfgX s1X acts1 = some s2X := by simp [s2X]
theorem acts2_ok : (run cfgX s2X acts2).isSome = true := by rfl
def s3X : State := (run cfgX s2X acts2).get acts2_ok
theorem run_acts2 : run cfgX s2X acts2 = some s3X := by simp [s3X]

/-- actions that neither spawn a `Set`/`Del` of `k` nor a `Clear`/`Close` (decidable form) -/
def quietFor (k : Hash) : Action → Bool
  | .spawn _ (.set h _ _ _ _) => !(h == k)
  | .spawn _ (.del h _) => !(h == k)
  | .spawn _ .clear => false
  | .spawn _ .close => false
  | _ => true

theorem quietFor_spec {k : Hash} {a : Action} (h : quietFor k a = true) :
    ¬ a.isSpawnSet k ∧ ¬ a.isSpawnDel k ∧ ¬ a.isSpawnClear := by
  cases a with
  | spawn t c => cases c <;> simp_all [quietFor, Action.isSpawnSet, Action.isSpawnDel, Action.isSpawnClear]
  | _ => simp [Action.isSpawnSet, Action.isSpawnDel, Action.isSpawnClear]

theorem quiet_all {k : Hash} {acts : List Action} (h : acts.all (quietFor k) = true) :
    ∀ a ∈ acts, ¬ a.isSpawnSet k ∧ ¬ a.isSpawnDel k ∧ ¬ a.isSpawnClear :=
  fun a ha => quietFor_spec (List.all_eq_true.mp h a ha)

theorem cl_s0X (t : Tid) : s0X.cl t = if t = 1 then .setSend NX else .idle := by
  by_cases h1 : t = 1
  · subst h1; rfl
  · by_cases h2 : t = 2
    · subst h2; rfl
    · rw [if_neg h1]
      exact idle_of_other run_pre0 t (fun hm => by
        have := (by decide : ∀ x ∈ tidsOf pre0, x = 1 ∨ x = 2) t hm
        rcases this with e | e
        · exact h1 e
        · exact h2 e)

theorem reach_s1X : Reach cfgX s1X :=
  (reach_of_run_f run_pre0).of_step (show step cfgX s0X (.client 1 .none) = some s1X by rfl)

theorem idle_s2X (t : Tid) : s2X.cl t = .idle := by
  by_cases h1 : t = 1
  · subst h1; rfl
  · by_cases h2 : t = 2
    · subst h2; rfl
    · have hidle : s1X.cl t = .idle := by
        show (stSetSend cfgX s0X 1 NX).cl t = _
        rw [stSetSend_cl_ne (hne := h1), cl_s0X, if_neg h1]
      exact run_idle reach_s1X hidle (not_mem_tidsOf (fun hm => h1 ((by decide : ∀ x ∈ tidsOf acts1, x = 1) t hm))) run_acts1

theorem log_s3X : s3X.log =
    [.getRet 2 kX 0#64 (some 11), .getCall 2 kX 0#64 5, .getRet 1 kX 0#64 (some 11), .getCall 1 kX 0#64 0] ++
    (([] ++ .waitRet 1 :: ([] ++ .waitCall 1 :: [.setRet 1 11 true])) ++
    [.setExp 1 11 Gen.zeroTime, .setCall 1 kX 0#64 11 1 0, .setRet 2 50 true, .setExp 2 50 Gen.zeroTime,
     .setCall 2 k9 0#64 50 1 0]) := by rfl
theorem log_s3X_s2X : s3X.log =
    [.getRet 2 kX 0#64 (some 11), .getCall 2 kX 0#64 5, .getRet 1 kX 0#64 (some 11), .getCall 1 kX 0#64 0] ++ s2X.log := by rfl
theorem log_s2X : s2X.log = ([] ++ .waitRet 1 :: ([] ++ .waitCall 1 :: [.setRet 1 11 true])) ++ s1X.log := by rfl

theorem cf_s3X : CollisionFree s3X.log := by
  have key : ∀ h c, KeyConf s3X.log h c → c = 0#64 := by
    intro h c hk
    rw [log_s3X] at hk
    rcases hk with ⟨t, v, cost, ttl, hm⟩ | ⟨t, hm⟩ | ⟨t, now, hm⟩ <;> simp at hm <;> grind
  intro h c1 c2 h1 h2
  rw [key h c1 h1, key h c2 h2]

/-- Non-vacuity of `c06_refines_partial` (hence of `set_then_wait_visible` and
`entry_stays_retrievable`): client 2's `Set` of another key is buffered ahead; client 1's `Set kX 11`
is enqueued while the applier lags; `Wait` is called before the applier has touched `kX`'s item;
after the `Wait` both clients' `Get kX` return 11 (the second one after the clock has advanced). -/
example : s3X.store.lookup kX = some ⟨0#64, 11, Gen.zeroTime⟩ ∧
    ∀ c' res, Ev.getRet 2 kX c' res ∈
        [Ev.getRet 2 kX 0#64 (some 11), .getCall 2 kX 0#64 5, .getRet 1 kX 0#64 (some 11), .getCall 1 kX 0#64 0] →
      Gen.Cache.getConflictMismatch c' 0#64 = false → res = some 11 :=
  c06_refines_partial (t := 1) (tg := 2) (N := NX) (s0 := s0X) (acts1 := acts1) (acts2 := acts2)
    (reach_of_run_f run_pre0) (by rfl) ⟨rfl, rfl, rfl, rfl, rfl⟩ ⟨by decide, by rfl⟩ (by rfl) (by rfl) (by rfl)
    (by
      intro e he
      have : pending s0X = [.item ⟨.new, k9, 0#64, 50, 1, Gen.zeroTime⟩] := by rfl
      rw [this] at he; simp at he; subst he
      simp only [isItemK]; decide)
    (fun t' hne => by rw [cl_s0X, if_neg hne]; simp [CPc.inSetK])
    (fun t' => by rw [cl_s0X]; split <;> simp [CPc.inDelK])
    (fun t' => by rw [cl_s0X]; split <;> rfl)
    (quiet_all (by rfl)) run_acts1
    (fun as1 as2 s hsplit hrun => calm_of_calmB (runAllB_spec (by rfl : runAllB cfgX (calmB kX) s1X acts1 = true) as1 as2 s hsplit hrun))
    log_s2X WaitCycle.of_shape
    (fun c' => by rw [idle_s2X 2]; simp)
    (quiet_all (by rfl)) run_acts2
    (fun as1 as2 s hsplit hrun => calm_of_calmB (runAllB_spec (by rfl : runAllB cfgX (calmB kX) s2X acts2 = true) as1 as2 s hsplit hrun))
    (Or.inl rfl) cf_s3X log_s3X_s2X

/-- the interesting case really occurs: when `Wait` is called (9 actions into run 1) `kX`'s item is
still in the buffer and `kX` is not resident; at the end it is. -/
example : (run cfgX s1X (acts1.take 8)).map (fun s => (s.buf.length, s.store.lookup kX)) = some (2, none) := by rfl

theorem sw_ok : (run cfgX s1X (acts1.take 7)).isSome = true := by rfl
/-- the state in which client 1 is about to send its marker -/
def swX : State := (run cfgX s1X (acts1.take 7)).get sw_ok

/-- Non-vacuity of `wait_applies_all`: in the same run, when client 1's `waitRet` is logged the
applier has removed from the front of the pending sequence the item that was pending when the
marker was enqueued, and the marker. -/
example : Reach cfgX swX ∧ swX.cl 1 = .waitSend ∧ run cfgX (stWaitSend cfgX swX 1) (acts1.drop 8) = some s2X ∧
    (pendE swX).length = 1 ∧
    (pendE swX ++ [.marker swX.nextMarker]) <+: popped cfgX (stWaitSend cfgX swX 1) (acts1.drop 8) := by
  have hrun : run cfgX s1X (acts1.take 7) = some swX := by simp [swX]
  have hreach : Reach cfgX swX := reach_s1X.run hrun
  have hpc : swX.cl 1 = .waitSend := by rfl
  have hrest : run cfgX (stWaitSend cfgX swX 1) (acts1.drop 8) = some s2X := by rfl
  have hlog : s2X.log = [.waitRet 1] ++ (stWaitSend cfgX swX 1).log := by rfl
  exact ⟨hreach, hpc, hrest, by rfl, (wait_applies_all hreach hpc hrest hlog (by simp)).2⟩

/-- Non-vacuity of `overwrite_immediate`: in `s2X` (`kX ↦ 11`) a `Set kX 12` by client 1 reaches its
store step; right after it any client's read sees 12, although nothing has been buffered yet. -/
example :
    let s := setCl s2X 1 (.setUpd ⟨.new, kX, 0#64, 12, 1, Gen.zeroTime⟩)
    (stSetUpd cfgX s 1 ⟨.new, kX, 0#64, 12, 1, Gen.zeroTime⟩).store.lookup kX = some ⟨0#64, 12, Gen.zeroTime⟩ ∧
    (stSetUpd cfgX s 1 ⟨.new, kX, 0#64, 12, 1, Gen.zeroTime⟩).buf = [] := by
  intro s
  refine ⟨(overwrite_immediate cfgX s 1 ⟨.new, kX, 0#64, 12, 1, Gen.zeroTime⟩ ⟨0#64, 11, Gen.zeroTime⟩
    (by rfl) (by rfl) (by rfl)).1, by rfl⟩

def actsR : List Action := C05.preA ++
  [.applier .selItem, .applier .none, .applier (.add [] true), .applier .none,
   .applier .selItem, .applier .none, .applier (.add [] false), .applier .none,
   .spawn 1 .wait, .client 1 .none, .client 1 .none, .applier .selItem, .applier .none,
   .client 1 .none, .client 1 .none]
theorem actsR_ok : (run cfgX (init cfgX 0) actsR).isSome = true := by rfl
def sRX : State := (run cfgX (init cfgX 0) actsR).get actsR_ok

/-- The side condition "not already pending" is necessary: `Set kX 11; Set kX 12` with both items
still buffered when the applier runs — the second new-item is *rejected* (`policy.Add` answers
"update", `processItems` calls `onReject`), and after `Wait` the cache holds 11, not 12. -/
theorem second_new_rejected :
    run cfgX (init cfgX 0) actsR = some sRX ∧
    (sRX.store.lookup kX).map (·.value) = some 11 ∧
    sRX.log.take 4 = [.waitRet 1, .waitCall 1, .exit 12, .reject kX 0#64 12 1] :=
  ⟨by simp [sRX], by rfl, by rfl⟩

theorem st_ok : (run cfgX (init cfgX 0) (C05.preA ++ C05.restA.take 16)).isSome = true := by rfl
/-- the applier is about to run the tombstone's store delete -/
def stX : State := (run cfgX (init cfgX 0) (C05.preA ++ C05.restA.take 16)).get st_ok
theorem st_step_ok : (step cfgX stX (.applier .none)).isSome = true := by rfl

/-- Non-vacuity of `stays_until`: the tombstone step of the run `C05.preA ++ C05.restA` erases the
entry `kX ↦ 11`; `stays_until` applies and names a cause. -/
example : EraseCause cfgX stX (.applier .none) ((step cfgX stX (.applier .none)).get st_step_ok) kX
    ⟨0#64, 11, Gen.zeroTime⟩ :=
  stays_until (reach_of_run_f (show run cfgX (init cfgX 0) (C05.preA ++ C05.restA.take 16) = some stX by simp [stX]))
    (Option.some_get st_step_ok).symm (by rfl)
    (by
      have : ((step cfgX stX (.applier .none)).get st_step_ok).store.lookup kX = none := by rfl
      rw [this]; simp)

/-! ## The refinement -/

/-- **`c06_refines`.**  Every observable result equals that of the reference map with an explicit
FIFO of pending writes: for every run of the model from its initial state whose actions are
`ActOk t0` (a single client `t0` issuing only `Set`/`SetWithTTL`/`Get`/`GetTTL`/`Del`/`Wait`;
applier, sweep and clock steps arbitrary), with `ShouldUpdate` unset and `RoomAt` in every state of
the run, there is a run of the reference `Spec` from its initial state with the same history of
call and return events (`obsOf s.log`, results included), ending in a state related to `s` by
`SimR` (same map, same pending sequence up to costs, same clock and marker counter, same call
phase). -/
theorem c06_refines {cfg : Cfg} {t0 : Tid} {now : Time} {s : State} {acts : List Action}
    (hsu : cfg.shouldUpdate = none) (hacts : ∀ a ∈ acts, ActOk t0 a)
    (hr : run cfg (init cfg now) acts = some s)
    (hroom : ∀ as1 as2 s1, acts = as1 ++ as2 → run cfg (init cfg now) as1 = some s1 → RoomAt s1) :
    ∃ sp, SpecRun t0 (Spec.init now) (obsOf s.log) sp ∧ SimR t0 s sp :=
  sim_run hsu hacts hr hroom

/-- one step of the refinement: a model step is matched by one reference transition (possibly a
stutter) with the same observable events -/
theorem c06_refines_step {cfg : Cfg} {t0 : Tid} {s s' : State} {sp : Spec} {a : Action}
    (hsu : cfg.shouldUpdate = none) (hr : Reach cfg s) (hR : SimR t0 s sp) (hroom : RoomAt s)
    (hact : ActOk t0 a) (hs : step cfg s a = some s') :
    ∃ sp' evs, SpecStep t0 sp evs sp' ∧ SimR t0 s' sp' ∧ obsOf s'.log = evs ++ obsOf s.log :=
  sim_step hsu hr hR hroom hact hs

/-- what the relation gives at any point of the run: the reference's map is the store, its FIFO
is the pending sequence (costs erased), and `Get`'s answer is computed from the reference map -/
theorem simR_reads {t0 : Tid} {s : State} {sp : Spec} (hR : SimR t0 s sp) (h : Hash) :
    sp.map h = s.store.lookup h ∧ sp.pend = pendE s ∧ sp.clock = s.clock :=
  ⟨hR.map h, hR.pend, hR.clock⟩

/-- `RoomAt` follows from the decidable check used in the examples -/
theorem roomAt_of_check {s : State} (h : roomB s = true) : RoomAt s := room_of_B h

/-- the single-client run `Set k 11; Set k 12` (both buffered), `Del k` with the applier parked,
applier applies new, new (rejected), tombstone; `Wait`; `Get k` -/
def actsS : List Action := (C05.preA ++ C05.restA) ++ C05.getA

/-- Non-vacuity of `c06_refines`: the hypotheses hold for `actsS` (client 1 only; every new-item
fits: MaxCost 100), and the matched history contains two `Set`s returning true, the `Del`, the
`Wait` and a `Get` that misses. -/
example : ∃ sp, SpecRun 1 (Spec.init 0) (obsOf C05.sA'.log) sp ∧ SimR 1 C05.sA' sp :=
  c06_refines (cfg := cfgX) (t0 := 1) (acts := actsS) rfl
    (fun a ha => actOk_of_B (List.all_eq_true.mp (by rfl : actsS.all (actOkB 1) = true) a ha))
    (by simp [C05.sA', actsS])
    (fun as1 as2 s1 hsplit hrun =>
      room_of_B (runAllB_spec (by rfl : runAllB cfgX roomB (init cfgX 0) actsS = true) as1 as2 s1 hsplit hrun))

example : obsOf C05.sA'.log =
    [.getRet 1 kX 0#64 none, .getCall 1 kX 0#64 0, .waitRet 1, .waitCall 1, .delRet 1 kX, .delCall 1 kX 0#64,
     .setRet 1 12 true, .setCall 1 kX 0#64 12 1 0, .setRet 1 11 true, .setCall 1 kX 0#64 11 1 0] := by rfl

end RV.C06
