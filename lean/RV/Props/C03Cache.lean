import RV.Proofs.CacheAcctBound
import RV.Proofs.CacheAcctRun
/-!
# C03 (cache level) — RemainingCost is exact, and never negative along benign histories

Theorems over the small-step Cache model (`RV/Model/Cache.lean`), for every reachable state,
every number of client threads, every interleaving and every outcome of `policy.Add` that
the constraints of `polAdd` allow.  The policy-level part of C03 (the exact sampled-LFU `Add`)
is `RV/Props/C03.lean`.

* `pol_wf` — in every reachable state `used = Σ accounted costs` and no key is accounted twice;
  `c03_remaining_exact` — the value `RemainingCost()` returns (event `remRet`) is
  `MaxCost − Σ accounted costs` of the state in which the policy lock was held.
* `c03_no_overshoot` — in *every* state of a run all of whose steps are benign
  (`RV.Cache.Benign`: no step raises the accounted cost of a resident key, `MaxCost` is not
  lowered, `Set` costs are ≥ 0) with `MaxCost ≥ 0` and a non-negative `Config.Cost`
  (`CfgOk`): all accounted costs are ≥ 0 and `used ≤ MaxCost`, hence `RemainingCost() ≥ 0`
  (`c03_remaining_nonneg`) — in every state, not only drained ones.
* `c03_overshoot_by_update` — the benign hypothesis is necessary: an overwrite with a larger
  cost is applied by `updateIfHas` without any capacity check.

Costs are mathematical integers here (no int64 overflow, finding F9).
-/
namespace RV.C03Cache
open RV RV.Cache

/-! ### concrete runs for the non-vacuity examples -/
def cfg0 : Cfg :=
  { bufCap := 2, ignoreInternal := true, costFn := none, shouldUpdate := none, metricsOn := true, maxCost := 10 }
/-- a complete `Set(h, v, cost)` of a new key by thread `t`, admitted without victims -/
def setRun (t : Tid) (h : Hash) (v : Val) (cost : Int) : List Action :=
  [.spawn t (.set h 0 v cost 0), .client t .none, .client t .none, .client t .none, .client t .none,
   .applier .selItem, .applier .none, .applier (.add [] true), .applier .none]
/-- a complete `Set` of a new key admitted after evicting `victim` -/
def evictRun (t : Tid) (h : Hash) (v : Val) (cost : Int) (victim : Hash × Int) : List Action :=
  [.spawn t (.set h 0 v cost 0), .client t .none, .client t .none, .client t .none, .client t .none,
   .applier .selItem, .applier .none, .applier (.add [victim] true), .applier .none, .applier .none, .applier .none]
/-- a complete overwrite `Set(h, v, cost)` of a resident key -/
def updRun (t : Tid) (h : Hash) (v : Val) (cost : Int) : List Action :=
  [.spawn t (.set h 0 v cost 0), .client t .none, .client t .none, .client t .none, .client t .none, .client t .none,
   .applier .selItem, .applier .none, .applier .none]
def fillActs : List Action := setRun 0 1 7 3 ++ setRun 0 2 8 7 ++ evictRun 0 3 9 3 (1, 3)

/-- the sum of the costs the cache accounts for its resident keys -/
abbrev accounted (s : State) : Int := s.pol.costs.sum

/-- `pol_wf`: `used` is exactly the sum of the accounted costs, and no key is accounted twice. -/
theorem pol_wf {cfg : Cfg} {s : State} (h : Reach cfg s) :
    s.pol.used = accounted s ∧ AMap.NodupKeys s.pol.costs :=
  ⟨(acct_reach h).wf.sum, (acct_reach h).wf.nodup⟩

/-- `RemainingCost()` (the step `stReadRem`, enabled exactly at pc `readRem`) logs
`MaxCost − Σ accounted costs` of the state in which it runs. -/
theorem c03_remaining_exact {cfg : Cfg} {s : State} {t : Tid} (h : Reach cfg s) (hpc : s.cl t = .readRem) :
    step cfg s (.client t .none) = some (stReadRem s t) ∧
    (stReadRem s t).log = .remRet t (s.pol.maxCost - accounted s) :: s.log := by
  refine ⟨by simp [step, clientStep, hpc, needNone], ?_⟩
  show Ev.remRet t (s.pol.maxCost - s.pol.used) :: s.log = _
  rw [(pol_wf h).1]

example : ∃ s t, Reach cfg0 s ∧ s.cl t = .readRem ∧ accounted s = 3 ∧
    (stReadRem s t).log.head? = some (.remRet t 7) :=
  ⟨exState cfg0 (setRun 0 1 7 3 ++ [.spawn 0 .remainingCost]), 0, exState_reach (by decide), by decide, by decide, by decide⟩

/-- The cost pre-processing of the applier without a `Config.Cost` function: the internal
per-item cost (`itemSize`, generated from store.go) is added unless `IgnoreInternalCost`. -/
theorem c03_internal_cost (cfg : Cfg) (i : Item) (h : cfg.costFn = none) :
    itemCost cfg i = i.cost + (if cfg.ignoreInternal then 0 else 56) := by
  have h56 : Gen.Cache.itemSize.toInt = 56 := by decide
  unfold itemCost Gen.Cache.addInternalCost
  rw [h]; dsimp only
  cases cfg.ignoreInternal <;> simp [h56]

/-- `c03_no_overshoot`: in every state of a benign run the accounted costs are non-negative and
their sum does not exceed `MaxCost` — stronger than "whenever buffered writes have drained". -/
theorem c03_no_overshoot {cfg : Cfg} (hcfg : CfgOk cfg) {s : State} (h : ReachB cfg s) :
    s.pol.used ≤ s.pol.maxCost ∧ accounted s ≤ s.pol.maxCost ∧ AMap.Nonneg s.pol.costs := by
  have hb := bound_reachB hcfg h
  have hw := pol_wf h.reach
  exact ⟨hb.le, by rw [← hw.1]; exact hb.le, hb.nonneg⟩

/-- The same over action lists: if every step of `acts` is benign in the state in which it is
taken (`runB`), then every prefix of the run ends in a state with `used ≤ maxCost`. -/
theorem c03_no_overshoot_run {cfg : Cfg} (hcfg : CfgOk cfg) (now : Time) (acts : List Action)
    (hb : runB cfg (init cfg now) acts) :
    ∀ pre post s, acts = pre ++ post → run cfg (init cfg now) pre = some s → s.pol.used ≤ s.pol.maxCost := by
  intro pre post s he hr
  subst he
  exact (c03_no_overshoot hcfg (reachB_of_runB (ReachB.init now) (runB_prefix hb) hr)).1

/-- `RemainingCost() ≥ 0` at every point of a benign run. -/
theorem c03_remaining_nonneg {cfg : Cfg} (hcfg : CfgOk cfg) {s : State} {t : Tid} (h : ReachB cfg s) :
    ∃ m, (stReadRem s t).log = .remRet t m :: s.log ∧ 0 ≤ m ∧ m = s.pol.maxCost - accounted s := by
  refine ⟨s.pol.maxCost - s.pol.used, rfl, ?_, by rw [(pol_wf h.reach).1]⟩
  have := (c03_no_overshoot hcfg h).1
  omega

/-- non-vacuity: a benign run that fills the cache exactly (`3 + 7 = MaxCost`), evicting nothing,
followed by an admission that must evict (victim key 1) -/
example : ∃ s, CfgOk cfg0 ∧ runB cfg0 (init cfg0 0) fillActs ∧ run cfg0 (init cfg0 0) fillActs = some s ∧
    s.pol.used = 10 ∧ s.pol.maxCost = 10 ∧ s.pol.costs.size = 2 := by
  exact ⟨exState cfg0 fillActs, ⟨by decide, fun f hf => by cases hf⟩, runB_of_runBB (by decide),
    exState_run (by decide), by decide, by decide, by decide⟩

/-- The benign hypothesis is necessary: overwriting a resident key with a larger cost is applied
by `sampledLFU.updateIfHas` without a capacity check (`MaxCost = 10`, accounted cost `20`). -/
theorem c03_overshoot_by_update : ∃ cfg s, CfgOk cfg ∧ Reach cfg s ∧ s.pol.used = 20 ∧ s.pol.maxCost = 10 ∧
    s.buf = [] ∧ s.app = .idle :=
  ⟨cfg0, exState cfg0 (setRun 0 1 7 3 ++ updRun 0 1 8 20), ⟨by decide, fun f hf => by cases hf⟩,
    exState_reach (by decide), by decide, by decide, by decide, rfl⟩

end RV.C03Cache
