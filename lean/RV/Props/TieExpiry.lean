import RV.Gen.Methods
import RV.Model.Cache
import RV.Proofs.TieLemmas
/-!
# `expirationMap.add / update / del` (ttl.go): generated whole-method translation = model

`RV/Gen/Methods.lean` is regenerated from /repo on every run: each Go method is translated
mechanically, statement by statement, into a Lean function over the Lean image of the receiver
struct.  The theorems below state that these generated functions, seen through the abstraction
`absEm` (bucket numbers, which are Go `int64`s, read as `Int`s by the injective `BitVec.toInt`),
are **equal** to the hand-written `Em.add`, `Em.update`, `Em.del` of `RV/Model/Cache.lean`,
for every state and every argument.  A semantic change of the Go method changes the generated
function and breaks the theorem; a behaviour-preserving rewrite is followed by the same script
(case split on every `if`/`match`, then `simp_all`).

The receiver is a pointer; `m == nil` is the Boolean argument `m_nonnil`.  `…_eq` is the case of a
real receiver (the only one that occurs: `newShardedMap` always creates the index), `…_nil` says
that on a nil receiver nothing happens.
-/
set_option linter.unusedSimpArgs false
namespace RV.TieExpiry
open RV RV.Cache Gen.Cache Gen.Methods RV.Tie

/-- abstraction: state of the generated `expirationMap` ↦ the model's expiry index -/
def absEm {V : Type} (g : ExpirationMap V) : Em :=
  { buckets := AMap.mapKeys BitVec.toInt g.buckets, lastCleaned := g.lastCleanedBucketNum.toInt }

/-- `expirationMap.add` -/
theorem expirationMap_add_eq {V : Type} (g : ExpirationMap V) (k c : BitVec 64) (exp : Int) :
    absEm (expirationMap_add true g k c exp) = (absEm g).add k c exp := by
  unfold expirationMap_add Em.add addBucket bucketOf emAddSkip emAddLate emAddNext
  simp only [absEm, BitVec.ofInt_toInt, Bool.not_true]
  repeat' split
  all_goals simp_all [-BitVec.toInt_add, ← AMap.mapKeys_insert toInt_inj, ← AMap.mapKeys_erase toInt_inj,
    AMap.lookup_mapKeys toInt_inj, AMap.insert_insert_self]

theorem expirationMap_add_nil {V : Type} (g : ExpirationMap V) (k c : BitVec 64) (exp : Int) :
    expirationMap_add false g k c exp = g := by
  simp [expirationMap_add]

/-- `expirationMap.update` -/
theorem expirationMap_update_eq {V : Type} (g : ExpirationMap V) (k c : BitVec 64) (old new : Int) :
    absEm (expirationMap_update true g k c old new) = (absEm g).update k c old new := by
  unfold expirationMap_update Em.update updateBucket bucketOf emUpdateSkip emUpdateLate emUpdateNext
  simp only [absEm, BitVec.ofInt_toInt, Bool.not_true]
  repeat' split
  all_goals simp_all [-BitVec.toInt_add, ← AMap.mapKeys_insert toInt_inj, ← AMap.mapKeys_erase toInt_inj,
    AMap.lookup_mapKeys toInt_inj, AMap.insert_insert_self]

theorem expirationMap_update_nil {V : Type} (g : ExpirationMap V) (k c : BitVec 64) (old new : Int) :
    expirationMap_update false g k c old new = g := by
  simp [expirationMap_update]

/-- `expirationMap.del` -/
theorem expirationMap_del_eq {V : Type} (g : ExpirationMap V) (k : BitVec 64) (exp : Int) :
    absEm (expirationMap_del true g k exp) = (absEm g).del k exp := by
  unfold expirationMap_del Em.del bucketOf
  simp only [absEm, BitVec.ofInt_toInt, Bool.not_true]
  repeat' split
  all_goals simp_all [-BitVec.toInt_add, ← AMap.mapKeys_insert toInt_inj, ← AMap.mapKeys_erase toInt_inj,
    AMap.lookup_mapKeys toInt_inj, AMap.insert_insert_self]

theorem expirationMap_del_nil {V : Type} (g : ExpirationMap V) (k : BitVec 64) (exp : Int) :
    expirationMap_del false g k exp = g := by
  simp [expirationMap_del]

/-! Non-vacuity: the generated functions really compute something on a concrete index (an entry
expiring at second 12 goes to bucket 3; a late arrival for the cleaned bucket 3 goes to bucket 8;
`update` moves the key, `del` removes it from its bucket but keeps the bucket). -/
def g0 : ExpirationMap Nat := { buckets := AMap.empty, lastCleanedBucketNum := 0#64 }
def g7 : ExpirationMap Nat := { buckets := AMap.empty, lastCleanedBucketNum := 7#64 }

abbrev Buckets := List (BitVec 64 × List (BitVec 64 × BitVec 64))

example : ((expirationMap_add true g0 5#64 9#64 12000000000).buckets : Buckets) = [(3#64, [(5#64, 9#64)])] := by rfl
example : ((expirationMap_add true g7 5#64 9#64 12000000000).buckets : Buckets) = [(8#64, [(5#64, 9#64)])] := by rfl
example : ((expirationMap_update true (expirationMap_add true g0 5#64 9#64 12000000000) 5#64 9#64
    12000000000 31000000000).buckets : Buckets) = [(7#64, [(5#64, 9#64)]), (3#64, [])] := by rfl
example : ((expirationMap_del true (expirationMap_add true g0 5#64 9#64 12000000000) 5#64 12000000000).buckets : Buckets)
    = [(3#64, [])] := by rfl
example : ((absEm (expirationMap_add true g7 5#64 9#64 12000000000)).buckets : List (Int × List (BitVec 64 × BitVec 64)))
    = [(8, [(5#64, 9#64)])] := by rfl

end RV.TieExpiry
