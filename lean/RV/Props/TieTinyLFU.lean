import RV.Gen.TinyLFUM
import RV.Model.TinyLFU
import RV.Props.TieSketch
/-!
# `tinyLFU.{Estimate, Increment, Push, reset, clear}` (policy.go): generated whole-method
# translation = the hand-written TinyLFU model

`RV/Gen/TinyLFUM.lean` is regenerated from policy.go on every run (go2lean/lfu*.go).  The
doorkeeper `*z.Bloom` is not translated (unsafe-pointer code; its model and property are C19):
the generated functions take its operations as a structure `BloomOps Door` over an abstract type
`Door`.  `DoorSpec` says what is assumed of them: through an abstraction `absD` they are the
operations of the bloom-filter model `RV.Bloom` that `RV/Model/TinyLFU.lean` uses
(`bloomOps` is that model itself, `doorSpec_model`).

What this pins to the source text: `Estimate` = sketch estimate, `+ 1` iff the doorkeeper has the
key; `Increment` touches the sketch only when the doorkeeper already had the key, then `incrs++`,
then `reset()` exactly when `incrs >= resetAt`; `reset` zeroes `incrs`, clears the doorkeeper and
halves the counters; `Push` is `Increment` for every key in order.
-/
set_option linter.unusedSimpArgs false
namespace RV.TieTinyLFU
open GenL Gen.TinyLFUM RV.TieL RV.TieSketch

variable {Door : Type}

/-- the doorkeeper operations are those of the bloom-filter model, seen through `absD` -/
structure DoorSpec (ops : BloomOps Door) (absD : Door → RV.Bloom.Bloom) : Prop where
  has : ∀ d k, ops.Has d k = RV.Bloom.has (absD d) k
  add : ∀ d k, (absD (ops.AddIfNotHas d k).1, (ops.AddIfNotHas d k).2) = RV.Bloom.addIfNotHas (absD d) k
  clear : ∀ d, absD (ops.Clear d) = RV.Bloom.clear (absD d)

/-- the bloom-filter model itself as the doorkeeper -/
def bloomOps : BloomOps RV.Bloom.Bloom :=
  { Has := RV.Bloom.has, AddIfNotHas := RV.Bloom.addIfNotHas, Clear := RV.Bloom.clear }

theorem doorSpec_model : DoorSpec bloomOps id := ⟨fun _ _ => rfl, fun _ _ => rfl, fun _ => rfl⟩

/-- abstraction: generated `tinyLFU` state ↦ the TinyLFU model's state -/
def absT (absD : Door → RV.Bloom.Bloom) (g : TinyLFU Door) : RV.TinyLFU.TinyLFU :=
  { freq := absSk g.freq, door := absD g.door, incrs := g.incrs, resetAt := g.resetAt }

variable {ops : BloomOps Door} {absD : Door → RV.Bloom.Bloom}

/-- `tinyLFU.Estimate` = the model's `estimate`: the sketch estimate plus one iff the doorkeeper has the key -/
theorem tinyLFU_Estimate_eq (S : DoorSpec ops absD) (g : TinyLFU Door) (k : BitVec 64) (G : Guard g.freq) :
    tinyLFU_Estimate ops g k = .ok (RV.TinyLFU.estimate (absT absD g) k) := by
  unfold tinyLFU_Estimate RV.TinyLFU.estimate
  simp only [cmSketch_Estimate_eq _ _ G, Res.bind_ok, S.has, absT]
  by_cases hh : RV.Bloom.has (absD g.door) k = true <;> simp [hh, BitVec.zeroExtend]

/-- `tinyLFU.reset`: result, and the guard is kept -/
theorem tinyLFU_reset_ok (S : DoorSpec ops absD) (g : TinyLFU Door) (G : Guard g.freq) :
    ∃ g', tinyLFU_reset ops g = .ok g' ∧ absT absD g' = RV.TinyLFU.reset (absT absD g) ∧ Guard g'.freq := by
  unfold tinyLFU_reset
  simp only [cmSketch_Reset_eq _ G, Res.bind_ok]
  exact ⟨_, rfl, by simp [absT, RV.TinyLFU.reset, S.clear, absSk_conSk], guard_reset G⟩

theorem tinyLFU_clear_ok (S : DoorSpec ops absD) (g : TinyLFU Door) (G : Guard g.freq) :
    ∃ g', tinyLFU_clear ops g = .ok g' ∧ absT absD g' = RV.TinyLFU.clear (absT absD g) ∧ Guard g'.freq := by
  unfold tinyLFU_clear
  simp only [cmSketch_Clear_eq _ G, Res.bind_ok]
  exact ⟨_, rfl, by simp [absT, RV.TinyLFU.clear, S.clear, absSk_conSk], guard_clear G⟩

/-- `tinyLFU.Increment`: result, and the guard is kept -/
theorem tinyLFU_Increment_ok (S : DoorSpec ops absD) (g : TinyLFU Door) (k : BitVec 64) (G : Guard g.freq) :
    ∃ g', tinyLFU_Increment ops g k = .ok g' ∧ absT absD g' = RV.TinyLFU.increment (absT absD g) k ∧ Guard g'.freq := by
  have hd : (RV.Bloom.addIfNotHas (absD g.door) k).1 = absD (ops.AddIfNotHas g.door k).1 :=
    (congrArg Prod.fst (S.add g.door k)).symm
  have hf : (RV.Bloom.addIfNotHas (absD g.door) k).2 = (ops.AddIfNotHas g.door k).2 :=
    (congrArg Prod.snd (S.add g.door k)).symm
  unfold tinyLFU_Increment RV.TinyLFU.increment RV.TinyLFU.touch
  simp only [absT, hd, hf]
  cases hb : (ops.AddIfNotHas g.door k).2
  · -- the doorkeeper had the key: the sketch is incremented
    simp only [Bool.not_false, if_true, cmSketch_Increment_eq _ _ G, Res.bind_ok, Bool.false_eq_true, if_false]
    by_cases hr : Gen.TinyLFU.resetCond (g.incrs + 1#64) g.resetAt = true
    · have hr' : BitVec.sle g.resetAt (g.incrs + 1#64) = true := hr
      obtain ⟨g', h1, h2, h3⟩ := tinyLFU_reset_ok S
        { g with door := (ops.AddIfNotHas g.door k).1, freq := conSk (RV.Sketch.increment (absSk g.freq) k),
                 incrs := g.incrs + 1#64 } (guard_increment G k)
      simp only [hr', if_true, h1, Res.bind_ok, hr]
      exact ⟨g', rfl, by simpa [absT, absSk_conSk] using h2, h3⟩
    · have hr' : BitVec.sle g.resetAt (g.incrs + 1#64) = false := by
        simpa [Gen.TinyLFU.resetCond] using hr
      simp only [hr', Bool.false_eq_true, if_false, Res.bind_ok, hr]
      exact ⟨_, rfl, by simp [absT, absSk_conSk], guard_increment G k⟩
  · simp only [Bool.not_true, Bool.false_eq_true, if_false, Res.bind_ok, if_true]
    by_cases hr : Gen.TinyLFU.resetCond (g.incrs + 1#64) g.resetAt = true
    · have hr' : BitVec.sle g.resetAt (g.incrs + 1#64) = true := hr
      obtain ⟨g', h1, h2, h3⟩ := tinyLFU_reset_ok S
        { g with door := (ops.AddIfNotHas g.door k).1, incrs := g.incrs + 1#64 } G
      simp only [hr', if_true, h1, Res.bind_ok, hr]
      exact ⟨g', rfl, by simpa [absT] using h2, h3⟩
    · have hr' : BitVec.sle g.resetAt (g.incrs + 1#64) = false := by
        simpa [Gen.TinyLFU.resetCond] using hr
      simp only [hr', Bool.false_eq_true, if_false, Res.bind_ok, hr]
      exact ⟨_, rfl, by simp [absT], G⟩

/-- `tinyLFU.Push`: `Increment` for every key, in order -/
theorem tinyLFU_Push_ok (S : DoorSpec ops absD) (g : TinyLFU Door) (keys : Array (BitVec 64)) (G : Guard g.freq) :
    ∃ g', tinyLFU_Push ops g keys = .ok g' ∧ absT absD g' = RV.TinyLFU.push (absT absD g) keys.toList ∧ Guard g'.freq := by
  unfold tinyLFU_Push RV.TinyLFU.push
  suffices h : ∀ (l : List (BitVec 64)) (g : TinyLFU Door), Guard g.freq →
      ∃ g', forL l (tinyLFU_Push_loop1 ops) g = .ok g' ∧
        absT absD g' = l.foldl RV.TinyLFU.increment (absT absD g) ∧ Guard g'.freq by
    obtain ⟨g', h1, h2, h3⟩ := h keys.toList g G
    exact ⟨g', by simp only [h1, Res.bind_ok], h2, h3⟩
  intro l
  induction l with
  | nil => intro g G; exact ⟨g, rfl, rfl, G⟩
  | cons k l ih =>
    intro g G
    obtain ⟨g1, h1, h2, h3⟩ := tinyLFU_Increment_ok S g k G
    obtain ⟨g2, h4, h5, h6⟩ := ih g1 h3
    refine ⟨g2, ?_, by rw [h5, h2]; rfl, h6⟩
    rw [forL_cons]
    unfold tinyLFU_Push_loop1
    simp only [h1, Res.bind_ok]
    exact h4

/-! ### the same as equalities through the abstraction -/

theorem tinyLFU_Increment_eq (S : DoorSpec ops absD) (g : TinyLFU Door) (k : BitVec 64) (G : Guard g.freq) :
    (tinyLFU_Increment ops g k).map (absT absD) = .ok (RV.TinyLFU.increment (absT absD g) k) := by
  obtain ⟨g', h1, h2, _⟩ := tinyLFU_Increment_ok S g k G
  rw [h1, Res.map_ok, h2]

theorem tinyLFU_Push_eq (S : DoorSpec ops absD) (g : TinyLFU Door) (keys : Array (BitVec 64)) (G : Guard g.freq) :
    (tinyLFU_Push ops g keys).map (absT absD) = .ok (RV.TinyLFU.push (absT absD g) keys.toList) := by
  obtain ⟨g', h1, h2, _⟩ := tinyLFU_Push_ok S g keys G
  rw [h1, Res.map_ok, h2]

theorem tinyLFU_reset_eq (S : DoorSpec ops absD) (g : TinyLFU Door) (G : Guard g.freq) :
    (tinyLFU_reset ops g).map (absT absD) = .ok (RV.TinyLFU.reset (absT absD g)) := by
  obtain ⟨g', h1, h2, _⟩ := tinyLFU_reset_ok S g G
  rw [h1, Res.map_ok, h2]

theorem tinyLFU_clear_eq (S : DoorSpec ops absD) (g : TinyLFU Door) (G : Guard g.freq) :
    (tinyLFU_clear ops g).map (absT absD) = .ok (RV.TinyLFU.clear (absT absD g)) := by
  obtain ⟨g', h1, h2, _⟩ := tinyLFU_clear_ok S g G
  rw [h1, Res.map_ok, h2]

/-- the reset fires exactly when `incrs` reaches `resetAt` (the generated function ends in the
model's `reset` iff the model's trigger `fires`) -/
theorem tinyLFU_Increment_fires (S : DoorSpec ops absD) (g : TinyLFU Door) (k : BitVec 64) (G : Guard g.freq) :
    (tinyLFU_Increment ops g k).map (absT absD) = .ok
      (if RV.TinyLFU.fires (absT absD g) then RV.TinyLFU.reset (RV.TinyLFU.touch (absT absD g) k)
       else RV.TinyLFU.touch (absT absD g) k) := by
  rw [tinyLFU_Increment_eq S g k G]
  rfl

/-! ## non-vacuity: a TinyLFU built like `newTinyLFU(8)` with the bloom model as doorkeeper -/

def demoT : TinyLFU RV.Bloom.Bloom :=
  { freq := RV.TieSketch.demo, door := RV.Bloom.new 8#64 7#64, incrs := 0#64, resetAt := 8#64 }

example : absT id demoT = RV.TinyLFU.new 8#64 #[1#64, 2#64, 3#64, 4#64] 8#64 7#64 := rfl

end RV.TieTinyLFU
