import RV.Proofs.TieTree2Top
import RV.Proofs.TieTree2Reset
import RV.Proofs.TieTree2Compact
import RV.Proofs.TieTree2Iter
import RV.Proofs.TieTree2Reinit
import RV.Proofs.TreeOps
import RV.Props.C10
/-!
# TieTree2 — `Tree.set` / `Tree.Set` with splits, new children and the root split; `initRootNode`; `Reset` (C10 / C16)

Continuation of `RV/Props/TieTree.lean`: the *code* side is again `Gen.TreeM.*` (z/btree.go translated
whole over flat memory by go2lean), the *model* side `RV/Model/Tree.lean` (what the C10 / C16 theorems
are about).  `TieTree.lean` proved the read-only functions, `newNode`, `split` and `set` on the path
that neither splits nor creates a child.  Here:

* `tie_tree_set` — the generated `Tree.set`, **all paths** on a well-formed node (`okNode`, the ordering
  invariant of C10: every inner entry has a child, nodes below the one being written are not full):
  leaf write, descent, and — when the child is full after the recursive call — `split` plus the two
  `n.set` calls of the parent, at every level (induction over the tree, fuel `≥ height`);
* `tie_tree_set_split` — that split phase on its own (for any parent page, no ordering hypothesis);
* `tie_tree_set_newchild` / `tie_tree_set_newchild_nil` — the path on which `Tree.set` creates a child
  (`n.key(idx) == 0`: key stored, count bumped, `newNode(bitLeaf)` hung in; or an entry whose value
  word is 0), flat side and structural side; well-formed trees never take it except `initRootNode`;
* `tie_tree_Set_rootsplit` — the root split of `Tree.Set`;
* `tie_tree_Set` — the public `Tree.Set(k, v)`, all paths, on every represented well-formed tree
  (`TreeInv`, what `c10_abs` maintains): generated `Set` = structural `set`, result represented,
  allocator corresponds, liveness re-established — so the statement iterates (`tie_tree_Sets`) and
  `c10_get_set` speaks about the memory the generated code leaves (`tie_tree_Set_abs`);
* `tie_initRootNode`, `tie_Reset` — the initial tree;
* `tie_tree_compact`, `tie_DeleteBelow` — `Tree.compact` (the recursion with its `for` loop, pages pushed on
  the free list, `n.compact(1)` of the parent) and `Tree.DeleteBelow`; `tie_tree_ops`: any history of legal
  `Set`s and `DeleteBelow`s run on the generated code keeps representing the structural tree;
* `tie_IterateKV` — `Tree.IterateKV(f)`, the walk whose callback rewrites leaf values;
* `tie_reinit` — `Tree.reinit` (what `NewTreePersistent` runs on an existing file) recomputes frontier, free-list
  head and both statistics from the page contents of a cleanly closed tree (C16);
* `tie_c10_step` / `tie_c10_ops` — C10's own `Op` / `applyOp` / `runOps` / `runSpec`: every history of `Set`,
  `DeleteBelow`, `IterateKV`, `Reset` run on the generated functions returns, leaves `runOps cfg tr ops`
  represented, and that tree denotes `runSpec (abs tr) ops` — `c10_abs` now speaks about the generated code.

`AllocInv cfg t a`: `AllocScal` (scalars), `FreeChain` (free pages chained through word 0), free pages
distinct and below the frontier, memory below 2^40 words.  `Live a n`: the pages of `n` are pairwise
distinct, not free, below the frontier (a consequence of `PidInv`).  Bounds: the frontier stays below
2^40 words (8 TiB), so that Go `int` offsets do not wrap.  Helper lemmas: `RV/Proofs/TieTree2*.lean`.
-/
namespace RV.TieTree2
open RV.Tree RV.NodeFlat RV.TreeFlat Gen.TreeM

/-! ## `Tree.set`, all paths of a well-formed node -/

/-- For a represented node satisfying the ordering invariant, with live pages, the generated `Tree.set`
returns the window of the node's page (in the possibly new epoch), the structural `setNode` result is
represented in the new memory, the allocator state corresponds again, the data only grows, and every
page outside (not of the node, not free, below the frontier) reads as before. -/
theorem tie_tree_set (cfg : Cfg) (hc : CfgFlat cfg) (hok : CfgOk cfg) (k : Key) (v : Val)
    (fuel : Nat) (n : Node) (lo hi : Key) (t : St) (a : Alloc)
    (hn : okNode cfg.maxKeys (cfg.maxKeys - 1) n lo hi) (hk1 : lo < k) (hk2 : k ≤ hi)
    (hr : TreeFlat.Repr cfg t.data n) (hinv : AllocInv cfg t a) (hlive : Live a n)
    (hb : ((setNode cfg n k v a).2.nextPage + 1) * pw cfg < 2 ^ 40) (hfuel : height n ≤ fuel) :
    ∃ t', Gen.TreeM.set (w cfg.pageSize) (w cfg.maxKeys) fuel t (w n.pid) k v = some (t', refOf cfg t' n.pid) ∧
      TreeFlat.Repr cfg t'.data (setNode cfg n k v a).1 ∧ AllocInv cfg t' (setNode cfg n k v a).2 ∧
      t.data.size ≤ t'.data.size ∧
      (∀ r, r ∉ pids n → r ∉ a.free → r < a.nextPage → (r + 1) * pw cfg ≤ t.data.size →
        pageOf cfg t'.data r = pageOf cfg t.data r) :=
  set_refines hc hok k v fuel n lo hi t a hn hk1 hk2 hr hinv hlive hb hfuel

/-- The split phase of `Tree.set` (`if child.isFull() { nn := t.split(child.pageID()); … n.set(child.maxKey(),
child.pageID()); n.set(nn.maxKey(), nn.pageID()) }`) on a full represented child `c1` hanging on entry
`i` of the parent page `p`: with `(L, R, a') = splitNode cfg c1 a` of the structural model and `es2`,
`es3` the results of its two `nodeSet` calls, the parent page holds `entWords es3` afterwards, both
halves are represented, the allocator corresponds, three pages changed. -/
theorem tie_tree_set_split (cfg : Cfg) (hc : CfgFlat cfg) (hmk2 : 2 ≤ cfg.maxKeys) (t : St) (a : Alloc)
    (hinv : AllocInv cfg t a) (hb1 : (a.nextPage + 1) * pw cfg < 2 ^ 40)
    (p : Nat) (c1 : Node) (hc0 : c1 ≠ .null) (hrc : TreeFlat.Repr cfg t.data c1) (hfull : c1.len = cfg.maxKeys)
    (hlive : Live a c1) (hpc : p ∉ pids c1) (hpfree : p ∉ a.free) (hplt : p < a.nextPage)
    (esL es2 es3 : List (Key × Node)) (i : Nat) (ki : Key) (ad1 ad2 : Nat)
    (hi : esL[i]? = some (ki, (splitNode cfg c1 a).1))
    (hpg : PageOf cfg t.data p false (entWords esL))
    (hk1 : (splitNode cfg c1 a).1.maxKey ≠ 0#64) (hk2 : (splitNode cfg c1 a).2.1.maxKey ≠ 0#64)
    (q1 : nodeSet cfg.maxKeys esL (splitNode cfg c1 a).1.maxKey (splitNode cfg c1 a).1 = some (es2, ad1))
    (q2 : nodeSet cfg.maxKeys es2 (splitNode cfg c1 a).2.1.maxKey (splitNode cfg c1 a).2.1 = some (es3, ad2))
    (nref : NodeRef) :
    ∃ t' cref, setSplit (w cfg.pageSize) (w cfg.maxKeys) t nref (refOf cfg t c1.pid) (w p) (w i) true =
        some (t', refOf cfg t' p, cref) ∧
      PageOf cfg t'.data p false (entWords es3) ∧
      TreeFlat.Repr cfg t'.data (splitNode cfg c1 a).1 ∧ TreeFlat.Repr cfg t'.data (splitNode cfg c1 a).2.1 ∧
      AllocInv cfg t' (splitNode cfg c1 a).2.2 ∧ t.data.size ≤ t'.data.size ∧
      (∀ r, r ≠ p → r ≠ c1.pid → r ≠ (RV.Tree.newNode cfg a).1 → (r + 1) * pw cfg ≤ t.data.size →
        pageOf cfg t'.data r = pageOf cfg t.data r) :=
  setSplit_refines hc hmk2 t a hinv hb1 p c1 hc0 hrc hfull hlive hpc hpfree hplt esL es2 es3 i ki ad1 ad2 hi hpg
    hk1 hk2 q1 q2 nref

/-- `setSplit` is literally the split phase of the generated `Tree.set` (and `setSlot`, `setChild` the two
phases in front of the recursive call): the cut is definitional. -/
theorem tie_tree_set_phases (pageSize maxKeys : BitVec 64) (fuel : Nat) (t : St) (pid k v : BitVec 64) :
    Gen.TreeM.set pageSize maxKeys (fuel + 1) t pid k v =
      (node pageSize maxKeys t pid).bind fun n_2 =>
      (Gen.TreeM.rdNode t n_2 (fun p => Gen.Node.isLeaf p maxKeys)).bind fun x_3 =>
      if x_3 then
        (Gen.TreeM.wrNodeR t n_2 (fun p => Gen.Node.set p maxKeys k v)).bind fun x =>
        some ({ x.1 with numLeafKeys := (x.1.numLeafKeys + x.2) }, n_2)
      else
      (Gen.TreeM.rdNode t n_2 (fun p => Gen.Node.search p maxKeys k)).bind fun idx_8 =>
      if (BitVec.sle maxKeys idx_8) then none else
      (Gen.TreeM.rdNode t n_2 (fun p => Gen.Node.key p idx_8)).bind fun x_9 =>
      (setSlot maxKeys t n_2 idx_8 k x_9).bind fun t_13 =>
      (Gen.TreeM.rdNode t_13 n_2 (fun p => Gen.Node.val p idx_8)).bind fun x_14 =>
      (node pageSize maxKeys t_13 x_14).bind fun child_16 =>
      (setChild pageSize maxKeys t_13 n_2 child_16 pid idx_8).bind fun y =>
      (Gen.TreeM.rdNode y.1 y.2.2 (fun p => Gen.Node.pageID p maxKeys)).bind fun x_27 =>
      (Gen.TreeM.set pageSize maxKeys fuel y.1 x_27 k v).bind fun z =>
      (node pageSize maxKeys z.1 pid).bind fun n_32 =>
      (Gen.TreeM.rdNode z.1 z.2 (fun p => Gen.Node.isFull p maxKeys)).bind fun x_33 =>
      (setSplit pageSize maxKeys z.1 n_32 z.2 pid idx_8 x_33).bind fun u =>
      some (u.1, u.2.1) :=
  set_succ pageSize maxKeys fuel t pid k v

/-! ## the new-child path -/

/-- `Tree.set` on an inner page whose slot for `k` is empty (`search = numKeys < maxKeys`, so
`n.key(idx) == 0`): the generated code stores the key, bumps the count, allocates a leaf (the page `q`
the structural `newNode` hands out), hangs it in and writes `(k, v)` into it; the structural `setNode`
computes exactly this node and allocator state.  (`NewChildOut`: parent page, child page, `AllocInv` for
`{ a1 with leafKeys + 1 }`, growth, frame for every page but `p` and `q`.) -/
theorem tie_tree_set_newchild (cfg : Cfg) (hc : CfgFlat cfg) (hmk2 : 2 ≤ cfg.maxKeys) (t : St) (a : Alloc)
    (hinv : AllocInv cfg t a) (hb1 : (a.nextPage + 1) * pw cfg < 2 ^ 40)
    (p : Nat) (es : List (Key × Node)) (k : Key) (v : Val) (hk0 : k ≠ 0#64)
    (hpg : PageOf cfg t.data p false (entWords es)) (hlen : es.length < cfg.maxKeys)
    (hs : search es k = es.length) (hpfree : p ∉ a.free) (hplt : p < a.nextPage) (fuel : Nat) :
    (∃ t', Gen.TreeM.set (w cfg.pageSize) (w cfg.maxKeys) (fuel + 2) t (w p) k v = some (t', refOf cfg t' p) ∧
      NewChildOut cfg t a p (es ++ [(k, Node.null)]) es.length k k v t') ∧
    (es ++ [(k, Node.null)]).set es.length (k, Node.leaf (RV.Tree.newNode cfg a).1 [(k, v)]) =
      es ++ [(k, Node.leaf (RV.Tree.newNode cfg a).1 [(k, v)])] ∧
    setNode cfg (.inner p es) k v a =
      (.inner p (es ++ [(k, Node.leaf (RV.Tree.newNode cfg a).1 [(k, v)])]),
       { (RV.Tree.newNode cfg a).2 with leafKeys := (RV.Tree.newNode cfg a).2.leafKeys + (1 : Nat) }) :=
  ⟨set_newchild_append hc hmk2 t a hinv hb1 p es k v hk0 hpg hlen hs hpfree hplt fuel, by simp,
    setNode_newchild_append cfg hmk2 (by have := hc.mkLt; omega) p es k v hk0 hs hlen a⟩

/-- the same when the routing entry `(ki, nil)` exists but has lost its child page (value word 0) -/
theorem tie_tree_set_newchild_nil (cfg : Cfg) (hc : CfgFlat cfg) (hmk2 : 2 ≤ cfg.maxKeys) (t : St) (a : Alloc)
    (hinv : AllocInv cfg t a) (hb1 : (a.nextPage + 1) * pw cfg < 2 ^ 40)
    (p : Nat) (l : List (Key × Node)) (ki : Key) (r : List (Key × Node)) (k : Key) (v : Val) (hk0 : k ≠ 0#64)
    (hpg : PageOf cfg t.data p false (entWords (l ++ (ki, Node.null) :: r)))
    (hlt : ∀ e ∈ l, e.1 < k) (hle : k ≤ ki) (hki0 : ki ≠ 0#64)
    (hpfree : p ∉ a.free) (hplt : p < a.nextPage) (fuel : Nat) :
    (∃ t', Gen.TreeM.set (w cfg.pageSize) (w cfg.maxKeys) (fuel + 2) t (w p) k v = some (t', refOf cfg t' p) ∧
      NewChildOut cfg t a p (l ++ (ki, Node.null) :: r) l.length ki k v t') ∧
    (l ++ (ki, Node.null) :: r).set l.length (ki, Node.leaf (RV.Tree.newNode cfg a).1 [(k, v)]) =
      l ++ (ki, Node.leaf (RV.Tree.newNode cfg a).1 [(k, v)]) :: r ∧
    setNode cfg (.inner p (l ++ (ki, Node.null) :: r)) k v a =
      (.inner p (l ++ (ki, Node.leaf (RV.Tree.newNode cfg a).1 [(k, v)]) :: r),
       { (RV.Tree.newNode cfg a).2 with leafKeys := (RV.Tree.newNode cfg a).2.leafKeys + (1 : Nat) }) := by
  have hlen : (l ++ (ki, Node.null) :: r).length ≤ cfg.maxKeys := by
    have := hpg.ok.2.1
    rw [← ents_length, hpg.ents, entWords_length] at this; exact this
  exact ⟨set_newchild_null hc hmk2 t a hinv hb1 p l ki r k v hk0 hpg hlt hle hki0 hpfree hplt fuel, by simp,
    setNode_newchild_null cfg hmk2 (by have := hc.mkLt; omega) p l ki r k v hk0 hlt hle hki0 hlen a⟩

/-! ## `Tree.Set` -/

/-- The root split of `Tree.Set` (`right := t.split(1); left := t.newNode(root.bits()); copy; root emptied;
root.set(left…); root.set(right…)`) on a full represented root `.inner 1 es`: with `es1`, `es2` the results
of the structural model's two `nodeSet` calls, afterwards page 1 holds `entWords es2`, both halves are
represented in their new pages, the allocator corresponds (two `newNode`s), every other page is framed.
(`SetRootSplit` is the root-split phase of the generated `Set`, cut out definitionally: `tie_tree_Set_phases`.) -/
theorem tie_tree_Set_rootsplit (cfg : Cfg) (hc : CfgFlat cfg) (hmk2 : 2 ≤ cfg.maxKeys) (t : St) (a : Alloc)
    (hinv : AllocInv cfg t a) (hb1 : (a.nextPage + 2) * pw cfg < 2 ^ 40)
    (es : List (Key × Node)) (hr : TreeFlat.Repr cfg t.data (.inner 1 es)) (hfull : es.length = cfg.maxKeys)
    (hlive : Live a (.inner 1 es))
    (es1 es2 : List (Key × Node)) (ad1 ad2 : Nat)
    (h1 : nodeSet cfg.maxKeys ([] : List (Key × Node))
        (Node.inner (RV.Tree.newNode cfg (RV.Tree.newNode cfg a).2).1 (splitLeft cfg.maxKeys es)).maxKey
        (Node.inner (RV.Tree.newNode cfg (RV.Tree.newNode cfg a).2).1 (splitLeft cfg.maxKeys es)) = some (es1, ad1))
    (h2 : nodeSet cfg.maxKeys es1
        (Node.inner (RV.Tree.newNode cfg a).1 (splitRight cfg.maxKeys es)).maxKey
        (Node.inner (RV.Tree.newNode cfg a).1 (splitRight cfg.maxKeys es)) = some (es2, ad2)) :
    ∃ t', SetRootSplit (w cfg.pageSize) (w cfg.maxKeys) t (refOf cfg t 1) = some (t', refOf cfg t' 1) ∧
      TreeFlat.Repr cfg t'.data (.inner 1 es2) ∧
      AllocInv cfg t' (RV.Tree.newNode cfg (RV.Tree.newNode cfg a).2).2 ∧
      t.data.size ≤ t'.data.size ∧
      (∀ r, r ≠ 1 → r ≠ (RV.Tree.newNode cfg a).1 → r ≠ (RV.Tree.newNode cfg (RV.Tree.newNode cfg a).2).1 →
        (r + 1) * pw cfg ≤ t.data.size → pageOf cfg t'.data r = pageOf cfg t.data r) :=
  SetRootSplit_refines hc hmk2 t a hinv hb1 es hr hfull hlive es1 es2 ad1 ad2 h1 h2

theorem tie_tree_Set_phases (pageSize maxKeys : BitVec 64) (fuel : Nat) (t : St) (k v : BitVec 64) :
    Gen.TreeM.Set pageSize maxKeys fuel t k v =
      if ((k == 18446744073709551615#64) || (k == 0#64)) then none else
      (Gen.TreeM.set pageSize maxKeys fuel t 1#64 k v).bind fun x =>
      (Gen.TreeM.rdNode x.1 x.2 (fun p => Gen.Node.isFull p maxKeys)).bind fun x_4 =>
      (if x_4 then SetRootSplit pageSize maxKeys x.1 x.2 else some (x.1, x.2)).bind fun y =>
      some y.1 :=
  Set_unfold pageSize maxKeys fuel t k v

/-- **`Tree.Set(k, v)`, all paths.**  For every well-formed tree (`TreeInv`: what `c10_abs` maintains) that
is represented in the flat memory (root in page 1, allocator corresponding, pages live) and every legal
key, the generated `Tree.Set` returns (no panic, no stale window, fuel `≥ height`), the structural
`set cfg tr k v` is represented in the new memory, the allocator corresponds again, the pages of the new
tree are live again, the data only grows, pages outside are framed. -/
theorem tie_tree_Set (cfg : Cfg) (hc : CfgFlat cfg) (hok : CfgOk cfg) (t : St) (tr : Tree)
    (hti : TreeInv cfg tr) (hroot : tr.root.pid = 1) (hr : TreeFlat.Repr cfg t.data tr.root)
    (hinv : AllocInv cfg t tr.a) (hlive : Live tr.a tr.root) (k : Key) (v : Val)
    (hk : Gen.Tree.setKeyPanic k = false)
    (hb : ((RV.Tree.set cfg tr k v).a.nextPage + 2) * pw cfg < 2 ^ 40)
    (fuel : Nat) (hfuel : height tr.root ≤ fuel) :
    ∃ t', Gen.TreeM.Set (w cfg.pageSize) (w cfg.maxKeys) fuel t k v = some t' ∧
      TreeFlat.Repr cfg t'.data (RV.Tree.set cfg tr k v).root ∧ AllocInv cfg t' (RV.Tree.set cfg tr k v).a ∧
      Live (RV.Tree.set cfg tr k v).a (RV.Tree.set cfg tr k v).root ∧
      t.data.size ≤ t'.data.size ∧
      (∀ r, r ∉ pids tr.root → r ∉ tr.a.free → r < tr.a.nextPage → (r + 1) * pw cfg ≤ t.data.size →
        pageOf cfg t'.data r = pageOf cfg t.data r) :=
  Set_refines hc hok t tr hti hroot hr hinv hlive k v hk hb fuel hfuel

/-- What C10 proves about the structural `set` therefore holds of the tree the generated `Set` leaves in
memory: it is well-formed again, its root stays in page 1, and it denotes the updated map
(`abs … k' = if k' = k then v else abs tr k'`, `c10_get_set`'s core). -/
theorem tie_tree_Set_abs (cfg : Cfg) (hc : CfgFlat cfg) (hok : CfgOk cfg) (t : St) (tr : Tree)
    (hti : TreeInv cfg tr) (hroot : tr.root.pid = 1) (hr : TreeFlat.Repr cfg t.data tr.root)
    (hinv : AllocInv cfg t tr.a) (hlive : Live tr.a tr.root) (k : Key) (v : Val)
    (hk : Gen.Tree.setKeyPanic k = false)
    (hb : ((RV.Tree.set cfg tr k v).a.nextPage + 2) * pw cfg < 2 ^ 40)
    (fuel : Nat) (hfuel : height tr.root ≤ fuel) :
    ∃ t' tr', Gen.TreeM.Set (w cfg.pageSize) (w cfg.maxKeys) fuel t k v = some t' ∧
      TreeFlat.Repr cfg t'.data tr'.root ∧ AllocInv cfg t' tr'.a ∧ Live tr'.a tr'.root ∧
      TreeInv cfg tr' ∧ tr'.root.pid = 1 ∧ toList tr'.root = ins (toList tr.root) k v := by
  obtain ⟨t', h1, h2, h3, h4, _, _⟩ := Set_refines hc hok t tr hti hroot hr hinv hlive k v hk hb fuel hfuel
  obtain ⟨s1, s2, _, _, s5, _⟩ := set_spec hok tr k v hti hk
  exact ⟨t', RV.Tree.set cfg tr k v, h1, h2, h3, h4, s1, by rw [s5]; exact hroot, s2⟩

/-! ## `initRootNode`, `Reset` -/

/-- `initRootNode` (`t.newNode(0)` then `t.Set(absoluteMax, 0)`) on an empty page table (`nextPage = 1`, no
free pages): the generated function returns (fuel `≥ 2`), the structural `initRoot cfg a` — root in page 1
with the single routing entry `absoluteMax`, the leaf with the placeholder in page 2 — is represented, the
allocator corresponds, the pages are live, every other page is framed. -/
theorem tie_initRootNode (cfg : Cfg) (hc : CfgFlat cfg) (hmk2 : 2 ≤ cfg.maxKeys) (t : St) (a : Alloc)
    (hinv : AllocInv cfg t a) (h1 : a.nextPage = 1) (h2 : a.free = []) (fuel : Nat) :
    ∃ t', initRootNode (w cfg.pageSize) (w cfg.maxKeys) (fuel + 2) t = some t' ∧
      TreeFlat.Repr cfg t'.data (initRoot cfg a).root ∧ AllocInv cfg t' (initRoot cfg a).a ∧
      (initRoot cfg a).root.pid = 1 ∧ Live (initRoot cfg a).a (initRoot cfg a).root ∧
      t.data.size ≤ t'.data.size ∧
      (∀ r, r ≠ 1 → r ≠ 2 → (r + 1) * pw cfg ≤ t.data.size → pageOf cfg t'.data r = pageOf cfg t.data r) :=
  initRootNode_refines hc hmk2 t a hinv h1 h2 fuel

/-- `Tree.Reset()` from ANY flat state: `Memclr`, `buffer.Reset()`, `AllocateOffset(1 MiB)`, `Bytes()`,
statistics and page table reset, `initRootNode`.  The generated function returns (fuel `≥ 2`); the result
represents the structural `reset cfg curSz` (`curSz` = the capacity the buffer has reached), the allocator
corresponds, the pages are live, and the memory is wiped: every page but the root (1) and its leaf (2)
within the first MiB is zero. -/
theorem tie_Reset (cfg : Cfg) (hc : CfgFlat cfg) (hmk2 : 2 ≤ cfg.maxKeys) (t : St) (fuel : Nat) :
    ∃ t', Reset (w cfg.pageSize) (w cfg.maxKeys) (fuel + 2) t = some t' ∧
      TreeFlat.Repr cfg t'.data (reset cfg t.bufCurSz.toNat).root ∧
      AllocInv cfg t' (reset cfg t.bufCurSz.toNat).a ∧
      (reset cfg t.bufCurSz.toNat).root.pid = 1 ∧
      Live (reset cfg t.bufCurSz.toNat).a (reset cfg t.bufCurSz.toNat).root ∧
      131072 ≤ t'.data.size ∧
      (∀ r, r ≠ 1 → r ≠ 2 → (r + 1) * pw cfg ≤ 131072 → ∀ j, j < pw cfg → (pageOf cfg t'.data r)[j]! = 0#64) :=
  Reset_refines hc hmk2 t fuel

/-- `Reset` followed by any number of legal `Set`s: by induction with `tie_tree_Set` the generated code
never panics and the memory always represents the structural tree the C10 theorems are about
(as long as the frontier stays below 2^40 words). -/
theorem tie_tree_Sets (cfg : Cfg) (hc : CfgFlat cfg) (hok : CfgOk cfg) :
    ∀ (ops : List (Key × Val)) (t : St) (tr : Tree),
    TreeInv cfg tr → tr.root.pid = 1 → TreeFlat.Repr cfg t.data tr.root → AllocInv cfg t tr.a → Live tr.a tr.root →
    (∀ kv ∈ ops, Gen.Tree.setKeyPanic kv.1 = false) →
    (∀ n, n ≤ ops.length →
      (((ops.take n).foldl (fun tr kv => RV.Tree.set cfg tr kv.1 kv.2) tr).a.nextPage + 2) * pw cfg < 2 ^ 40) →
    (∀ n, n ≤ ops.length → height ((ops.take n).foldl (fun tr kv => RV.Tree.set cfg tr kv.1 kv.2) tr).root ≤ 64) →
    ∃ t', ops.foldlM (fun t kv => Gen.TreeM.Set (w cfg.pageSize) (w cfg.maxKeys) 64 t kv.1 kv.2) t = some t' ∧
      TreeFlat.Repr cfg t'.data (ops.foldl (fun tr kv => RV.Tree.set cfg tr kv.1 kv.2) tr).root ∧
      AllocInv cfg t' (ops.foldl (fun tr kv => RV.Tree.set cfg tr kv.1 kv.2) tr).a
  | [], t, tr, _, _, hr, hinv, _, _, _, _ => ⟨t, rfl, hr, hinv⟩
  | (k, v) :: rest, t, tr, hti, hroot, hr, hinv, hlive, hk, hb, hh => by
    have hk1 := hk (k, v) (by simp)
    have hb1 := hb 1 (by simp)
    have hh0 := hh 0 (by simp)
    simp only [List.take_succ_cons, List.take_zero, List.foldl_cons, List.foldl_nil] at hb1 hh0
    obtain ⟨t1, h1, h2, h3, h4, _, _⟩ := Set_refines hc hok t tr hti hroot hr hinv hlive k v hk1 hb1 64 hh0
    obtain ⟨s1, _, _, _, s5, _⟩ := set_spec hok tr k v hti hk1
    obtain ⟨t', g1, g2, g3⟩ := tie_tree_Sets cfg hc hok rest t1 (RV.Tree.set cfg tr k v) s1 (by rw [s5]; exact hroot)
      h2 h3 h4 (fun kv hkv => hk kv (by simp [hkv]))
      (fun n hn => by have := hb (n + 1) (by simp; omega); simpa using this)
      (fun n hn => by have := hh (n + 1) (by simp; omega); simpa using this)
    refine ⟨t', ?_, g2, g3⟩
    simp only [List.foldlM_cons, h1]
    exact g1

/-! ## `Tree.compact`, `Tree.DeleteBelow` -/

/-- The generated `Tree.compact(n, ts)` on the window of a represented well-formed node: it returns what
the structural `compactNode` returns, the structural result (children whose page was released are `null`,
their pages pushed on the free list through word 0) is represented, the allocator corresponds (free list,
`NumPagesFree`, `NumLeafKeys`), the data and the epoch are unchanged, pages outside are framed. -/
theorem tie_tree_compact (cfg : Cfg) (hc : CfgFlat cfg) (hok : CfgOk cfg) (ts : Val)
    (fuel : Nat) (n : Node) (b : Nat) (lo hi : Key) (t : St) (a : Alloc)
    (hn : okNode cfg.maxKeys b n lo hi) (hb : b ≤ cfg.maxKeys)
    (hr : TreeFlat.Repr cfg t.data n) (hinv : AllocInv cfg t a) (hlive : Live a n) (hfuel : height n ≤ fuel) :
    ∃ t', Gen.TreeM.compact (w cfg.pageSize) (w cfg.maxKeys) fuel t (refOf cfg t n.pid) ts =
        some (t', w (compactNode ts n a).2.2) ∧
      TreeFlat.Repr cfg t'.data (compactNode ts n a).1 ∧ AllocInv cfg t' (compactNode ts n a).2.1 ∧
      t'.data.size = t.data.size ∧ t'.epoch = t.epoch ∧
      (∀ r, r ∉ pids n → r ∉ a.free → r < a.nextPage → (r + 1) * pw cfg ≤ t.data.size →
        pageOf cfg t'.data r = pageOf cfg t.data r) :=
  compact_refines hc hok ts fuel n b lo hi t a hn hb hr hinv hlive hfuel

/-- **`Tree.DeleteBelow(ts)`** on a represented well-formed tree: the generated function returns (no
panic, `assert(root.numKeys() >= 1)` holds), the structural `deleteBelow tr ts` — about which
`c10_delete_below` speaks — is represented, the allocator corresponds, the new tree is well-formed with
its root in page 1 and live pages (so the statement iterates), the data size is unchanged. -/
theorem tie_DeleteBelow (cfg : Cfg) (hc : CfgFlat cfg) (hok : CfgOk cfg) (t : St) (tr : Tree)
    (hti : TreeInv cfg tr) (hroot : tr.root.pid = 1) (hr : TreeFlat.Repr cfg t.data tr.root)
    (hinv : AllocInv cfg t tr.a) (hlive : Live tr.a tr.root) (ts : Val) (fuel : Nat) (hfuel : height tr.root ≤ fuel) :
    ∃ t', Gen.TreeM.DeleteBelow (w cfg.pageSize) (w cfg.maxKeys) fuel t ts = some t' ∧
      TreeFlat.Repr cfg t'.data (deleteBelow tr ts).root ∧ AllocInv cfg t' (deleteBelow tr ts).a ∧
      Live (deleteBelow tr ts).a (deleteBelow tr ts).root ∧ TreeInv cfg (deleteBelow tr ts) ∧
      (deleteBelow tr ts).root.pid = 1 ∧ t'.data.size = t.data.size := by
  obtain ⟨t', h1, h2, h3, h4⟩ := DeleteBelow_refines hc hok t tr hti hroot hr hinv hlive ts fuel hfuel
  have hp : ∀ p ∈ pids tr.root, PosPid p := by
    intro p hp
    have := repr_fits tr.root hr p hp
    have hs := hinv.small
    have hpos := pw_pos cfg
    refine ⟨this.1, ?_⟩
    have e := succ_mul_pw cfg p
    rcases Nat.lt_or_ge p (2 ^ 40) with h | h
    · omega
    · have : 2 ^ 40 * 1 ≤ p * pw cfg := Nat.mul_le_mul h hpos
      omega
  obtain ⟨s1, _, _, s4, _, _, s7, _, _⟩ := deleteBelow_spec hok tr hti hp ts
  obtain ⟨y1, y2, _, _, _⟩ := live_of_cons s4 hlive.nodup hlive.live hinv.nodup hinv.below
  exact ⟨t', h1, h2, h3, ⟨y1, y2⟩, s1, by rw [s7]; exact hroot, h4⟩

/-- the operations whose generated code is proved to refine the model -/
inductive FOp where
  | set (k : Key) (v : Val)
  | del (ts : Val)

def FOp.legal : FOp → Prop
  | .set k _ => Gen.Tree.setKeyPanic k = false
  | .del _ => True

/-- the structural model's step (`applyOp` of C10 on these operations) -/
def applyF (cfg : Cfg) (tr : Tree) : FOp → Tree
  | .set k v => RV.Tree.set cfg tr k v
  | .del ts => deleteBelow tr ts

/-- the generated code's step on the flat state (fuel 64) -/
def stepF (cfg : Cfg) (t : St) : FOp → Option St
  | .set k v => Gen.TreeM.Set (w cfg.pageSize) (w cfg.maxKeys) 64 t k v
  | .del ts => Gen.TreeM.DeleteBelow (w cfg.pageSize) (w cfg.maxKeys) 64 t ts

/-- Any history of legal `Set`s and `DeleteBelow`s: the generated code never panics and the memory it
leaves represents the structural tree after the same history — the tree `c10_abs` is about — as long as
the frontier stays below 2^40 words and the height below the fuel 64. -/
theorem tie_tree_ops (cfg : Cfg) (hc : CfgFlat cfg) (hok : CfgOk cfg) :
    ∀ (ops : List FOp) (t : St) (tr : Tree),
    TreeInv cfg tr → tr.root.pid = 1 → TreeFlat.Repr cfg t.data tr.root → AllocInv cfg t tr.a → Live tr.a tr.root →
    (∀ op ∈ ops, op.legal) →
    (∀ n, n ≤ ops.length → (((ops.take n).foldl (applyF cfg) tr).a.nextPage + 2) * pw cfg < 2 ^ 40) →
    (∀ n, n ≤ ops.length → height ((ops.take n).foldl (applyF cfg) tr).root ≤ 64) →
    ∃ t', ops.foldlM (stepF cfg) t = some t' ∧
      TreeFlat.Repr cfg t'.data (ops.foldl (applyF cfg) tr).root ∧ AllocInv cfg t' (ops.foldl (applyF cfg) tr).a ∧
      TreeInv cfg (ops.foldl (applyF cfg) tr)
  | [], t, tr, hti, _, hr, hinv, _, _, _, _ => ⟨t, rfl, hr, hinv, hti⟩
  | op :: rest, t, tr, hti, hroot, hr, hinv, hlive, hl, hb, hh => by
    have hb1 := hb 1 (by simp)
    have hh0 := hh 0 (by simp)
    simp only [List.take_succ_cons, List.take_zero, List.foldl_cons, List.foldl_nil] at hb1 hh0
    have hstep : ∃ t1, stepF cfg t op = some t1 ∧ TreeFlat.Repr cfg t1.data (applyF cfg tr op).root ∧
        AllocInv cfg t1 (applyF cfg tr op).a ∧ Live (applyF cfg tr op).a (applyF cfg tr op).root ∧
        TreeInv cfg (applyF cfg tr op) ∧ (applyF cfg tr op).root.pid = 1 := by
      cases op with
      | set k v =>
        have hk : Gen.Tree.setKeyPanic k = false := hl (.set k v) (by simp)
        obtain ⟨t1, h1, h2, h3, h4, _, _⟩ := Set_refines hc hok t tr hti hroot hr hinv hlive k v hk hb1 64 hh0
        obtain ⟨s1, _, _, _, s5, _⟩ := set_spec hok tr k v hti hk
        exact ⟨t1, h1, h2, h3, h4, s1, by show (RV.Tree.set cfg tr k v).root.pid = 1; rw [s5]; exact hroot⟩
      | del ts =>
        obtain ⟨t1, h1, h2, h3, h4, h5, h6, _⟩ := tie_DeleteBelow cfg hc hok t tr hti hroot hr hinv hlive ts 64 hh0
        exact ⟨t1, h1, h2, h3, h4, h5, h6⟩
    obtain ⟨t1, h1, h2, h3, h4, h5, h6⟩ := hstep
    obtain ⟨t', g1, g2, g3, g4⟩ := tie_tree_ops cfg hc hok rest t1 (applyF cfg tr op) h5 h6 h2 h3 h4
      (fun o ho => hl o (by simp [ho]))
      (fun n hn => by have := hb (n + 1) (by simp; omega); simpa using this)
      (fun n hn => by have := hh (n + 1) (by simp; omega); simpa using this)
    refine ⟨t', ?_, g2, g3, g4⟩
    simp only [List.foldlM_cons, h1]
    exact g1

/-! ## `Tree.IterateKV`, and every history of C10's operations on the generated code -/

theorem pid_of_pids {n n' : Node} (h : pids n' = pids n) (hn : n ≠ .null) (hn' : n' ≠ .null) : n'.pid = n.pid := by
  cases n with
  | null => exact absurd rfl hn
  | leaf p es =>
    cases n' with
    | null => exact absurd rfl hn'
    | leaf p' es' => simp only [pids, List.cons.injEq] at h; exact h.1
    | inner p' es' => simp only [pids, List.cons.injEq] at h; exact h.1
  | inner p es =>
    cases n' with
    | null => exact absurd rfl hn'
    | leaf p' es' => simp only [pids, List.cons.injEq] at h; exact h.1
    | inner p' es' => simp only [pids, List.cons.injEq] at h; exact h.1

/-- **`Tree.IterateKV(f)`** (the walk whose callback rewrites leaf values) on a represented well-formed tree:
the generated function returns, the structural `iterateKV tr f` — about which `c10_iterate` speaks — is
represented, allocator and liveness are unchanged, the new tree is well-formed with its root in page 1. -/
theorem tie_IterateKV (cfg : Cfg) (hc : CfgFlat cfg) (hok : CfgOk cfg) (t : St) (tr : Tree)
    (hti : TreeInv cfg tr) (hroot : tr.root.pid = 1) (hr : TreeFlat.Repr cfg t.data tr.root)
    (hinv : AllocInv cfg t tr.a) (hlive : Live tr.a tr.root) (f : Key → Val → Val)
    (fuel : Nat) (hfuel : height tr.root ≤ fuel) :
    ∃ t', Gen.TreeM.IterateKV (w cfg.pageSize) (w cfg.maxKeys) fuel t f = some t' ∧
      TreeFlat.Repr cfg t'.data (iterateKV tr f).root ∧ AllocInv cfg t' (iterateKV tr f).a ∧
      Live (iterateKV tr f).a (iterateKV tr f).root ∧ TreeInv cfg (iterateKV tr f) ∧
      (iterateKV tr f).root.pid = 1 ∧ t'.data.size = t.data.size := by
  obtain ⟨t', h1, h2, h3, h4⟩ := IterateKV_refines hc hok t tr hti hroot hr hinv hlive f fuel hfuel
  obtain ⟨s1, _, _, s4, _, s6⟩ := iterateKV_spec tr hti f
  have hpid : (iterateKV tr f).root.pid = tr.root.pid :=
    pid_of_pids s4 (okNode_ne_null hti.ok) (okNode_ne_null s1.ok)
  refine ⟨t', h1, h2, h3, ?_, s1, by rw [hpid]; exact hroot, h4⟩
  rw [s6]
  exact ⟨by rw [s4]; exact hlive.nodup, fun r hr => hlive.live r (by rw [s4] at hr; exact hr)⟩

/-- the generated code's step for C10's operations (fuel 64) -/
def stepOp (cfg : Cfg) (t : St) : RV.C10.Op → Option St
  | .set k v => Gen.TreeM.Set (w cfg.pageSize) (w cfg.maxKeys) 64 t k v
  | .del ts => Gen.TreeM.DeleteBelow (w cfg.pageSize) (w cfg.maxKeys) 64 t ts
  | .iter f => Gen.TreeM.IterateKV (w cfg.pageSize) (w cfg.maxKeys) 64 t f
  | .reset => Gen.TreeM.Reset (w cfg.pageSize) (w cfg.maxKeys) 64 t

/-- what has to stay in range along a history: the frontier below 2^40 words after a `Set`, the height
below the fuel, the buffer capacity a Go `int` -/
def InRange (cfg : Cfg) (tr : Tree) : Prop :=
  (tr.a.nextPage + 2) * pw cfg < 2 ^ 40 ∧ height tr.root ≤ 64 ∧ tr.a.curSz < 2 ^ 64

/-- One step of C10's `applyOp`, run on the generated code. -/
theorem tie_c10_step (cfg : Cfg) (hc : CfgFlat cfg) (hok : CfgOk cfg) (t : St) (tr : Tree)
    (hti : TreeInv cfg tr) (hroot : tr.root.pid = 1) (hr : TreeFlat.Repr cfg t.data tr.root)
    (hinv : AllocInv cfg t tr.a) (hlive : Live tr.a tr.root) (op : RV.C10.Op) (hl : op.legal)
    (h0 : InRange cfg tr) (h1 : InRange cfg (RV.C10.applyOp cfg tr op)) :
    ∃ t', stepOp cfg t op = some t' ∧ TreeFlat.Repr cfg t'.data (RV.C10.applyOp cfg tr op).root ∧
      AllocInv cfg t' (RV.C10.applyOp cfg tr op).a ∧
      Live (RV.C10.applyOp cfg tr op).a (RV.C10.applyOp cfg tr op).root ∧
      TreeInv cfg (RV.C10.applyOp cfg tr op) ∧ (RV.C10.applyOp cfg tr op).root.pid = 1 := by
  cases op with
  | set k v =>
    have hk : Gen.Tree.setKeyPanic k = false := hl
    obtain ⟨t1, g1, g2, g3, g4, _, _⟩ := Set_refines hc hok t tr hti hroot hr hinv hlive k v hk h1.1 64 h0.2.1
    obtain ⟨s1, _, _, _, s5, _⟩ := set_spec hok tr k v hti hk
    exact ⟨t1, g1, g2, g3, g4, s1, by show (RV.Tree.set cfg tr k v).root.pid = 1; rw [s5]; exact hroot⟩
  | del ts =>
    obtain ⟨t1, g1, g2, g3, g4, g5, g6, _⟩ := tie_DeleteBelow cfg hc hok t tr hti hroot hr hinv hlive ts 64 h0.2.1
    exact ⟨t1, g1, g2, g3, g4, g5, g6⟩
  | iter f =>
    obtain ⟨t1, g1, g2, g3, g4, g5, g6, _⟩ := tie_IterateKV cfg hc hok t tr hti hroot hr hinv hlive f 64 h0.2.1
    exact ⟨t1, g1, g2, g3, g4, g5, g6⟩
  | reset =>
    have hmk2 : 2 ≤ cfg.maxKeys := by have := hok.ge4; omega
    obtain ⟨t1, g1, g2, g3, g4, g5, _⟩ := tie_Reset cfg hc hmk2 t 62
    have hcur : t.bufCurSz.toNat = tr.a.curSz := by
      rw [hinv.scal.curSz]; exact w_toNat h0.2.2
    rw [hcur] at g2 g3 g4 g5
    exact ⟨t1, g1, g2, g3, g5, (reset_spec hok _).1, g4⟩

/-- **Every history of C10's operations** (`Set`, `DeleteBelow`, `IterateKV` with any callback, `Reset`), run on
the generated code from a represented well-formed tree: the generated functions never panic, the memory
they leave represents `runOps cfg tr ops` — the structural tree of `c10_abs` — and (with the page invariant)
that tree denotes exactly the map the history denotes.  Side condition `InRange` after every prefix. -/
theorem tie_c10_ops (cfg : Cfg) (hc : CfgFlat cfg) (hok : CfgOk cfg) :
    ∀ (ops : List RV.C10.Op) (t : St) (tr : Tree),
    TreeInv cfg tr → PidInv tr → tr.root.pid = 1 → TreeFlat.Repr cfg t.data tr.root → AllocInv cfg t tr.a →
    Live tr.a tr.root → (∀ op ∈ ops, op.legal) →
    (∀ n, n ≤ ops.length → InRange cfg (RV.C10.runOps cfg tr (ops.take n))) →
    ∃ t', ops.foldlM (stepOp cfg) t = some t' ∧
      TreeFlat.Repr cfg t'.data (RV.C10.runOps cfg tr ops).root ∧ AllocInv cfg t' (RV.C10.runOps cfg tr ops).a ∧
      TreeInv cfg (RV.C10.runOps cfg tr ops) ∧ PidInv (RV.C10.runOps cfg tr ops) ∧
      abs (RV.C10.runOps cfg tr ops) = RV.C10.runSpec (abs tr) ops
  | [], t, tr, hti, hp, _, hr, hinv, _, _, _ => ⟨t, rfl, hr, hinv, hti, hp, rfl⟩
  | op :: rest, t, tr, hti, hp, hroot, hr, hinv, hlive, hl, hb => by
    have h0 := hb 0 (by simp)
    have h1 := hb 1 (by simp)
    simp only [List.take_zero, List.take_succ_cons, RV.C10.runOps, List.foldl_nil, List.foldl_cons] at h0 h1
    obtain ⟨t1, g1, g2, g3, g4, g5, g6⟩ :=
      tie_c10_step cfg hc hok t tr hti hroot hr hinv hlive op (hl op (by simp)) h0 h1
    have hn : tr.a.nextPage ≤ 2 ^ 64 := by
      have := h0.1
      have hpos := pw_pos cfg
      rcases Nat.lt_or_ge tr.a.nextPage (2 ^ 40) with h | h
      · omega
      · have : 2 ^ 40 * 1 ≤ (tr.a.nextPage + 2) * pw cfg := Nat.mul_le_mul (by omega) hpos
        omega
    obtain ⟨_, s2, s3⟩ := RV.C10.c10_step cfg hok tr hti hp hn op (hl op (by simp))
    obtain ⟨t', e1, e2, e3, e4, e5, e6⟩ := tie_c10_ops cfg hc hok rest t1 (RV.C10.applyOp cfg tr op) g5 s2 g6 g2 g3 g4
      (fun o ho => hl o (by simp [ho]))
      (fun n hn => by have := hb (n + 1) (by simp; omega); simpa [RV.C10.runOps] using this)
    refine ⟨t', ?_, ?_, ?_, ?_, ?_, ?_⟩
    · simp only [List.foldlM_cons, g1]; exact e1
    · simpa [RV.C10.runOps] using e2
    · simpa [RV.C10.runOps] using e3
    · simpa [RV.C10.runOps] using e4
    · simpa [RV.C10.runOps] using e5
    · simp only [RV.C10.runOps, RV.C10.runSpec, List.foldl_cons] at e6 ⊢
      rw [e6, s3]

/-! ## `Tree.reinit` (C16) -/

/-- **`Tree.reinit()`**: let `tr` be a well-formed tree (`TreeInv`, `PidInv`, root in page 1) laid out in the data
of `t` (`Repr`, free pages chained through word 0 and still carrying their stale non-zero page id, nothing
behind the frontier: the data ends there or the frontier page has page id 0) — the memory a cleanly closed
persistent tree leaves in its file.  From a state `t0` with that data and a fresh `Tree` struct (zero
statistics; `nextPage` arbitrary; `freePage = 0` if the free list is empty, because the code assigns it only
when it finds a head) the generated `reinit` returns (frontier scan, marking walk, the three `tailPages`
loops; fuel `≥ height`), leaves the data alone and recomputes exactly the allocator scalars of `tr`:
frontier, head of the free list, `NumLeafKeys` (the recount `countLeafKeys`), `NumPagesFree`. -/
theorem tie_reinit (cfg : Cfg) (hc : CfgFlat cfg) (tr : Tree) (t t0 : St)
    (hinv : TreeInv cfg tr) (hpid : PidInv tr) (hroot : tr.root.pid = 1)
    (hr : TreeFlat.Repr cfg t.data tr.root) (hch : FreeChain cfg t.data tr.a.free)
    (hsmall : t.data.size < 2 ^ 40)
    (hstale : ∀ q ∈ tr.a.free, pidW cfg.maxKeys (pageOf cfg t.data q) ≠ 0#64)
    (hend : t.data.size < (tr.a.nextPage + 1) * pw cfg ∨
      pidW cfg.maxKeys (pageOf cfg t.data tr.a.nextPage) = 0#64)
    (hd0 : t0.data = t.data) (he0 : t0.epoch = t.epoch)
    (hlk0 : t0.numLeafKeys = 0#64) (hpf0 : t0.numPagesFree = 0#64)
    (hfp0 : tr.a.free = [] → t0.freePage = 0#64)
    (fuel : Nat) (hfuel : height tr.root ≤ fuel) :
    ∃ t', reinit (w cfg.pageSize) (w cfg.maxKeys) fuel t0 = some t' ∧
      t'.data = t.data ∧ t'.epoch = t.epoch ∧ t'.nextPage = w tr.a.nextPage ∧
      t'.freePage = w tr.a.freeHead ∧ t'.numLeafKeys = w (countLeafKeys tr.root) ∧
      t'.numPagesFree = w tr.a.free.length :=
  reinit_refines hc tr t t0 hinv hpid hroot hr hch hsmall hstale hend hd0 he0 hlk0 hpf0 hfp0 fuel hfuel

/-! ## non-vacuity -/

def exCfg : Cfg := Cfg.ofPageSize 80

theorem exCfg_flat : CfgFlat exCfg := ⟨by decide, by decide, by decide⟩
theorem exCfg_ok : CfgOk exCfg := ⟨by decide, by decide⟩

/-- the hypotheses of `tie_tree_Set` / `tie_tree_Sets` are satisfiable: `Reset` from any state produces a
flat state and a structural tree (the model's `reset`) that satisfy all of them -/
example (cfg : Cfg) (hc : CfgFlat cfg) (hok : CfgOk cfg) (t0 : St) :
    ∃ t tr, TreeInv cfg tr ∧ tr.root.pid = 1 ∧ TreeFlat.Repr cfg t.data tr.root ∧
      AllocInv cfg t tr.a ∧ Live tr.a tr.root := by
  have hmk2 : 2 ≤ cfg.maxKeys := by have := hok.ge4; omega
  have h := tie_Reset cfg hc hmk2 t0 0
  exact h.elim fun t' ht =>
    ⟨t', reset cfg t0.bufCurSz.toNat, (reset_spec hok _).1, ht.2.2.2.1, ht.2.1, ht.2.2.1, ht.2.2.2.2.1⟩

/-- the hypotheses of `tie_initRootNode` hold of an all-zero 40-word memory with an empty page table -/
example : AllocInv exCfg
    { data := Array.replicate 40 0#64, epoch := 0, nextPage := 1#64, freePage := 0#64, numLeafKeys := 0#64,
      numPagesFree := 0#64, bufOffset := 328#64, bufCurSz := 1048576#64 }
    { nextPage := 1, free := [], leafKeys := 0, pagesFree := 0, dataLen := 320, curSz := 1048576 } := by
  refine ⟨⟨?_, ?_, ?_, ?_, ?_, ?_, ?_, ?_⟩, trivial, List.nodup_nil, (fun q hq => by cases hq), Nat.one_pos, ?_⟩
  all_goals first | decide | trivial

/-! A concrete tree on which one `Set` splits a leaf AND the root (page size 80, `maxKeys = 4`, 10 words
per page): root (page 1) with three leaves in pages 2, 3, 4; the leaf in page 3 has three keys. -/

def ex2Data : Words := #[
  0#64, 0#64, 0#64, 0#64, 0#64, 0#64, 0#64, 0#64, 0#64, 0#64,
  -- page 1: inner, (20 -> 2), (40 -> 3), (2^64-2 -> 4)
  20#64, 2#64, 40#64, 3#64, 18446744073709551614#64, 4#64, 0#64, 0#64, 1#64, 3#64,
  -- page 2: leaf (10,1) (20,2)
  10#64, 1#64, 20#64, 2#64, 0#64, 0#64, 0#64, 0#64, 2#64, 9223372036854775810#64,
  -- page 3: leaf (30,3) (35,4) (40,5)
  30#64, 3#64, 35#64, 4#64, 40#64, 5#64, 0#64, 0#64, 3#64, 9223372036854775811#64,
  -- page 4: leaf (50,6) (2^64-2, placeholder)
  50#64, 6#64, 18446744073709551614#64, 0#64, 0#64, 0#64, 0#64, 0#64, 4#64, 9223372036854775810#64]

def ex2St : St :=
  { data := ex2Data, epoch := 0, nextPage := 5#64, freePage := 0#64, numLeafKeys := 7#64, numPagesFree := 0#64,
    bufOffset := 408#64, bufCurSz := 1048576#64 }

def ex2Alloc : Alloc := { nextPage := 5, free := [], leafKeys := 7, pagesFree := 0, dataLen := 400, curSz := 1048576 }

def ex2Root : Node :=
  .inner 1 [(20#64, .leaf 2 [(10#64, 1#64), (20#64, 2#64)]),
            (40#64, .leaf 3 [(30#64, 3#64), (35#64, 4#64), (40#64, 5#64)]),
            (18446744073709551614#64, .leaf 4 [(50#64, 6#64), (18446744073709551614#64, 0#64)])]

/-- the hypotheses of `tie_tree_Set` hold of the example … -/
theorem ex2_hyps : TreeInv exCfg ⟨ex2Root, ex2Alloc⟩ ∧ TreeFlat.Repr exCfg ex2Data ex2Root ∧
    AllocInv exCfg ex2St ex2Alloc ∧ Live ex2Alloc ex2Root ∧ height ex2Root = 2 := by
  refine ⟨⟨rfl, ?_, rfl⟩, ?_, ?_, ⟨by decide, by decide⟩, by decide⟩
  · simp only [ex2Root, okNode, okEnts, SortedFrom, LastKeyIs, lastKeyD]
    decide
  · simp only [ex2Root, TreeFlat.Repr, ReprEnts, and_true]
    refine ⟨⟨?_, ?_, ?_, ?_, ?_, ?_, ?_⟩, ⟨?_, ?_, ?_, ?_, ?_, ?_, ?_⟩, ⟨?_, ?_, ?_, ?_, ?_, ?_, ?_⟩,
      ⟨?_, ?_, ?_, ?_, ?_, ?_, ?_⟩⟩ <;> decide
  · refine ⟨⟨rfl, rfl, rfl, rfl, by decide, rfl, rfl, rfl⟩, trivial, List.nodup_nil, (fun q hq => by cases hq),
      by decide, by decide⟩

/-- … and both sides of it, evaluated by the kernel: `Set(33, 9)` fills the leaf in page 3, which is split
(new page 5); the root gets its fourth entry and is split as well (pages 6 and 7): three levels, pages
1, 7, 2, 3, 6, 5, 4 in walk order; the generated code and the structural model agree on the whole walk. -/
example : (Gen.TreeM.Set (w 80) (w 4) 2 ex2St 33#64 9#64).map
      (fun x => (x.nextPage, x.numLeafKeys, x.data.size, walkFlat exCfg x.data 3 1)) =
    some (8#64, 8#64, 80, walk (RV.Tree.set exCfg ⟨ex2Root, ex2Alloc⟩ 33#64 9#64)) ∧
    (walk (RV.Tree.set exCfg ⟨ex2Root, ex2Alloc⟩ 33#64 9#64)).map (·.pid) = [1, 7, 2, 3, 6, 5, 4] ∧
    (RV.Tree.set exCfg ⟨ex2Root, ex2Alloc⟩ 33#64 9#64).a.fault = none ∧
    ((RV.Tree.set exCfg ⟨ex2Root, ex2Alloc⟩ 33#64 9#64).a.nextPage + 2) * pw exCfg < 2 ^ 40 := by
  decide +kernel

/-- `tie_initRootNode`, evaluated: from the all-zero 40-word memory the generated `initRootNode` builds the
two pages of the structural `initRoot` -/
example : (initRootNode (w 80) (w 4) 2
      { data := Array.replicate 40 0#64, epoch := 0, nextPage := 1#64, freePage := 0#64, numLeafKeys := 0#64,
        numPagesFree := 0#64, bufOffset := 328#64, bufCurSz := 1048576#64 }).map
      (fun x => (x.nextPage, x.numLeafKeys, walkFlat exCfg x.data 2 1)) =
    some (3#64, 1#64, walk (initRoot exCfg
      { nextPage := 1, free := [], leafKeys := 0, pagesFree := 0, dataLen := 320, curSz := 1048576 })) := by
  decide +kernel

/-- `tie_DeleteBelow`, evaluated on the example tree: `DeleteBelow(4)` empties the leaf in page 2 (values 1, 2),
which is released (free list head 2, one page free) and its routing entry dropped by `n.compact(1)`; the
generated code and the structural model agree on the walk and on the allocator scalars -/
example : (Gen.TreeM.DeleteBelow (w 80) (w 4) 2 ex2St 4#64).map
      (fun x => (x.freePage, x.numPagesFree, x.numLeafKeys, walkFlat exCfg x.data 2 1)) =
    some (w (deleteBelow ⟨ex2Root, ex2Alloc⟩ 4#64).a.freeHead,
      BitVec.ofInt 64 (deleteBelow ⟨ex2Root, ex2Alloc⟩ 4#64).a.pagesFree,
      BitVec.ofInt 64 (deleteBelow ⟨ex2Root, ex2Alloc⟩ 4#64).a.leafKeys,
      walk (deleteBelow ⟨ex2Root, ex2Alloc⟩ 4#64)) ∧
    (deleteBelow ⟨ex2Root, ex2Alloc⟩ 4#64).a.free = [2] := by
  decide +kernel

/-- the remaining hypotheses of `tie_reinit` hold of the example (no free pages, the data ends at the frontier) -/
example : PidInv ⟨ex2Root, ex2Alloc⟩ ∧ FreeChain exCfg ex2St.data ex2Alloc.free ∧
    ex2St.data.size < (ex2Alloc.nextPage + 1) * pw exCfg := by
  refine ⟨⟨by decide, fun x => ?_⟩, trivial, by decide⟩
  show List.count x (pids ex2Root) + List.count x [] = List.count x (List.range' 1 (5 - 1))
  rw [show pids ex2Root = [1, 2, 3, 4] from by decide, show List.range' 1 (5 - 1) = [1, 2, 3, 4] from by decide]
  simp

/-- `tie_reinit`, evaluated: a fresh `Tree` struct over the example's memory gets frontier 5, no free page,
7 leaf keys -/
example : (reinit (w 80) (w 4) 2
      { ex2St with nextPage := 0#64, freePage := 0#64, numLeafKeys := 0#64, numPagesFree := 0#64 }).map
      (fun x => (x.nextPage, x.freePage, x.numLeafKeys, x.numPagesFree, x.data == ex2Data)) =
    some (5#64, 0#64, 7#64, 0#64, true) ∧ countLeafKeys ex2Root = 7 := by
  decide +kernel

end RV.TieTree2
