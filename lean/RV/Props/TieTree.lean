import RV.Proofs.TieTreeSplit
import RV.Proofs.TieTreeSet
import RV.Proofs.TieTreeIter
import RV.Proofs.TieTreeWalk
/-!
# TieTree — the tree-level methods of z/btree.go, generated whole over flat memory, refine the structural model (C10 / C16)

`RV/Model/Tree.lean` (what the C10 / C16 theorems are about) is a labelled inductive tree plus
allocator state; its recursion structure was hand-written and tied to the code by trace
validation only.  Here the *code* side is `Gen.TreeM.*`: the methods of `*Tree` translated whole by
go2lean (`go2lean/treem.go`) into functions over the flat state `Gen.TreeM.St` — `t.data` as one
array of 64-bit words, `nextPage`, `freePage`, the two maintained statistics — in the `Option`
monad (`none` = a Go panic, or leaving the model: a stale node slice, a read beyond `len(t.data)`),
on top of the generated `node` methods `Gen.Node.*` (TieNode).  Recursion is by explicit fuel.

The abstraction (`RV/Model/TreeFlat.lean`): `Repr cfg d n` — the structural node `n`, with its page
ids, is laid out in the words `d`: every page is well-formed (`PageOk`), carries its kind bit and
its page id, a leaf page reads as the node's entries (`ents`), an inner page holds the children's
page ids as value words (`entWords`), children are represented recursively; `null` children are
the zero value words.  Configurations: `CfgFlat` — `pageSize = 16 * (maxKeys + 1)`,
`1 ≤ maxKeys < 2^15`.  Memory below 2^40 words (8 TiB) so that Go `int` offsets do not wrap.

Helper lemmas: `RV/Proofs/TieTree*.lean`.  Execution tie: component `treem` (`Drive/TreeM.lean`)
replays the `tree`, `tree_grow` and `treefile` streams on the generated functions.
-/
namespace RV.TieTree
open RV.Tree RV.NodeFlat RV.TreeFlat Gen.TreeM

/-! ## `Tree.node` -/

/-- `t.node(p)` of an allocated page is the window of that page, tagged with the current epoch;
`t.node(0)` is nil. -/
theorem tie_node (cfg : Cfg) (hc : CfgFlat cfg) (t : St) (hsmall : t.data.size < 2 ^ 40) (p : Nat) (hp : 0 < p)
    (hfit : (p + 1) * pw cfg ≤ t.data.size) :
    node (w cfg.pageSize) (w cfg.maxKeys) t (w p) = some (refOf cfg t p) ∧
      view t (refOf cfg t p) = some (pageOf cfg t.data p) ∧
      node (w cfg.pageSize) (w cfg.maxKeys) t 0#64 = some NodeRef.nil :=
  ⟨node_w hc t p hp hfit hsmall, view_refOf t p hfit, node_zero _ _ t⟩

/-! ## `Tree.get` / `Tree.Get` (read-only recursion) -/

/-- Under `Repr`, the generated `Tree.get` on the window of a node's page returns what the
structural `getNode` returns — the value, 0, or the `assert(child != nil)` panic — for every fuel
`≥ height` (a leaf has height 1). -/
theorem tie_tree_get (cfg : Cfg) (hc : CfgFlat cfg) (t : St) (hsmall : t.data.size < 2 ^ 40)
    (n : Node) (hn : n ≠ .null) (hr : TreeFlat.Repr cfg t.data n) (k : Key) (fuel : Nat) (hfuel : height n ≤ fuel) :
    Gen.TreeM.get (w cfg.pageSize) (w cfg.maxKeys) fuel t (refOf cfg t n.pid) k = getNode n k :=
  get_refines hc t hsmall fuel n k hn hr hfuel

/-- `Tree.Get(k)`: the root lives in page 1. -/
theorem tie_tree_Get (cfg : Cfg) (hc : CfgFlat cfg) (t : St) (hsmall : t.data.size < 2 ^ 40)
    (tr : Tree) (hroot : tr.root.pid = 1) (hr : TreeFlat.Repr cfg t.data tr.root) (k : Key)
    (fuel : Nat) (hfuel : height tr.root ≤ fuel) :
    Gen.TreeM.Get (w cfg.pageSize) (w cfg.maxKeys) fuel t k = RV.Tree.get tr k := by
  have hn : tr.root ≠ .null := by intro h; rw [h] at hroot; simp [Node.pid] at hroot
  have hfit : (1 + 1) * pw cfg ≤ t.data.size := by
    cases hroot' : tr.root with
    | null => exact absurd hroot' hn
    | leaf p es => rw [hroot'] at hr hroot; simp only [Node.pid] at hroot; subst hroot; exact (repr_leaf hr).fit
    | inner p es => rw [hroot'] at hr hroot; simp only [Node.pid] at hroot; subst hroot; exact (repr_inner hr).1.fit
  unfold Gen.TreeM.Get RV.Tree.get Gen.Tree.getKeyPanic
  by_cases hk : ((k == 18446744073709551615#64) || (k == 0#64)) = true
  · simp only [hk, if_true]
  · simp only [hk, Bool.false_eq_true, if_false]
    have h1 := node_w hc t 1 (by omega) hfit hsmall
    rw [show (w 1 : BitVec 64) = 1#64 from rfl] at h1
    rw [h1]
    simp only [Option.bind_some]
    have := get_refines hc t hsmall fuel tr.root k hn hr hfuel
    rw [hroot] at this
    rw [this]; cases getNode tr.root k <;> rfl

/-! ## the canonical walk -/

/-- The walk the trace validator decodes from the flat memory (`walkFlat`: page id, kind bit, count,
entries of every reachable page, pre-order, a zero value word is no child) is, on a represented
node, the walk of the structural model — what `Drive/TreeM.lean` checks after every `walk` record is
therefore a necessary condition for `Repr`. -/
theorem tie_walk (cfg : Cfg) (hc : CfgFlat cfg) (d : Words) (hsmall : d.size < 2 ^ 40) (n : Node) (hn : n ≠ .null)
    (hr : TreeFlat.Repr cfg d n) (fuel : Nat) (hfuel : height n ≤ fuel) :
    walkFlat cfg d fuel n.pid = walkNode n :=
  walkFlat_refines hc d hsmall fuel n hn hr hfuel

/-! ## `Tree.iterate` (read-only form) -/

/-- For a callback that leaves the tree alone (`fn t c r = some (t, g c r)`: it only accumulates in
its own state), the generated `Tree.iterate` on a represented node none of whose inner entries has
lost its child page (`NoNil`; otherwise the code runs into `assert(childID > 0)`) visits the windows
of the node's pages in pre-order — `pids`, the order of the canonical walk — and stops at the zeroed
slot behind the last key of every inner node.  Fuel `≥ height` suffices. -/
theorem tie_tree_iterate {κ : Type} (cfg : Cfg) (hc : CfgFlat cfg) (t : St) (hsmall : t.data.size < 2 ^ 40)
    (fn : St → κ → NodeRef → Option (St × κ)) (g : κ → NodeRef → κ) (hfn : ∀ c r, fn t c r = some (t, g c r))
    (n : Node) (c : κ) (hnn : NoNil n) (hr : TreeFlat.Repr cfg t.data n) (fuel : Nat) (hfuel : height n ≤ fuel) :
    iterate (w cfg.pageSize) (w cfg.maxKeys) fuel t c (refOf cfg t n.pid) fn =
      some (t, (pids n).foldl (fun c p => g c (refOf cfg t p)) c) :=
  iterate_refines hc t hsmall fn g hfn fuel n c hnn hr hfuel

/-! ## `Tree.set` on the no-split path (stretch goal e) -/

/-- `SetPath cfg k v n`: on the way of `k` down from `n` every inner node has a routing entry with a
child for `k` and is not full, and the leaf is not full after `node.set` — `Tree.set` then neither
creates a child nor splits.  On that path the generated `Tree.set` and the structural `setNode`
agree: the same node comes back (`refOf … n.pid`), `NumLeafKeys` grows by the same `numAdded`, the
allocator is untouched, the new structural tree is represented in the new memory, and every page
outside the subtree is unchanged (frame; in fact exactly one leaf page is rewritten). -/
theorem tie_tree_set_nosplit (cfg : Cfg) (hc : CfgFlat cfg) (t : St) (hsmall : t.data.size < 2 ^ 40)
    (k : Key) (v : Val) (hk0 : k ≠ 0#64) (n : Node) (a : Alloc) (hp : SetPath cfg k v n)
    (hr : TreeFlat.Repr cfg t.data n) (hnd : (pids n).Nodup) (fuel : Nat) (hfuel : height n ≤ fuel) :
    ∃ d' n' added,
      setNode cfg n k v a = (n', { a with leafKeys := a.leafKeys + (added : Nat) }) ∧
      Gen.TreeM.set (w cfg.pageSize) (w cfg.maxKeys) fuel t (w n.pid) k v =
        some ({ t with data := d', numLeafKeys := t.numLeafKeys + w added }, refOf cfg t n.pid) ∧
      d'.size = t.data.size ∧ TreeFlat.Repr cfg d' n' ∧ n'.pid = n.pid ∧ pids n' = pids n ∧
      (∀ q, q ∉ pids n → (q + 1) * pw cfg ≤ t.data.size → pageOf cfg d' q = pageOf cfg t.data q) := by
  obtain ⟨d', h1, h2, h3, h4⟩ := set_path_refines hc t hsmall k v hk0 fuel n hp hr hnd hfuel
  have hm := (setNode_path cfg (by have := hc.mkLt; omega) k v n a hp).1
  exact ⟨d', _, _, hm, h1, h2, h3, setPathNode_pid _ _ _ _, setPathNode_pids _ _ _ _, h4⟩

/-- The public `Tree.Set(k, v)` on that path (legal key, root in page 1, root not full afterwards): the
generated `Set` returns, the structural `set` does not fault, the new structural tree is
represented in the new memory, the allocator state (incl. `NumLeafKeys`) corresponds again, every
page outside the tree is unchanged. -/
theorem tie_tree_Set_nosplit (cfg : Cfg) (hc : CfgFlat cfg) (t : St) (hsmall : t.data.size < 2 ^ 40) (tr : Tree)
    (hs : AllocScal t tr.a) (k : Key) (v : Val) (hk : Gen.Tree.setKeyPanic k = false)
    (hroot : tr.root.pid = 1) (hp : SetPath cfg k v tr.root) (hr : TreeFlat.Repr cfg t.data tr.root)
    (hnd : (pids tr.root).Nodup) (fuel : Nat) (hfuel : height tr.root ≤ fuel) :
    ∃ t', Gen.TreeM.Set (w cfg.pageSize) (w cfg.maxKeys) fuel t k v = some t' ∧
      TreeFlat.Repr cfg t'.data (RV.Tree.set cfg tr k v).root ∧ AllocScal t' (RV.Tree.set cfg tr k v).a ∧
      t'.data.size = t.data.size ∧ (RV.Tree.set cfg tr k v).a.fault = none ∧
      (∀ q, q ∉ pids tr.root → (q + 1) * pw cfg ≤ t.data.size → pageOf cfg t'.data q = pageOf cfg t.data q) :=
  Set_path_refines hc t hsmall tr hs k v hk hroot hp hr hnd fuel hfuel

/-! ## `Tree.newNode`

The allocator state of the flat side against the structural `Alloc`: `AllocScal` (frontier, free
list head, both statistics, `len(t.data)`, the buffer's offset and capacity agree) and `FreeChain`
(the free pages are chained through their word 0, as `newNode` pops and `Tree.compact` pushes them). -/

/-- `t.newNode(bit)` (`bit` = `bitLeaf` or 0) hands out exactly the page the structural `newNode`
hands out — the head of the free list, whose link becomes the new head, or the frontier page, after
growing the buffer with zero words when it does not fit — and leaves it wiped: an empty well-formed
node of the requested kind that knows its page id (`FreshPage`).  The allocator state corresponds
again, every other page reads as before (frame), the data only grows. -/
theorem tie_newNode (cfg : Cfg) (hc : CfgFlat cfg) (t : St) (a : Alloc) (hs : AllocScal t a)
    (hch : FreeChain cfg t.data a.free) (hnd : a.free.Nodup) (hfl : ∀ q ∈ a.free, q < a.nextPage)
    (hnp : 0 < a.nextPage) (hb1 : (a.nextPage + 1) * pw cfg < 2 ^ 40) (hb2 : t.data.size < 2 ^ 40) (leaf : Bool) :
    ∃ t', newNode (w cfg.pageSize) (w cfg.maxKeys) t (kindWord leaf) =
        some (t', refOf cfg t' (RV.Tree.newNode cfg a).1) ∧
      NewNodeOut cfg leaf t a t' (RV.Tree.newNode cfg a).1 (RV.Tree.newNode cfg a).2 :=
  newNode_refines hc t a hs hch hnd hfl hnp hb1 hb2 leaf

/-! ## `Tree.split` -/

/-- `t.split(q)` on a full page (`numKeys = maxKeys`; otherwise the code panics): with `p` the page
`newNode` hands out, afterwards page `q` holds the lower `maxKeys/2` entries, page `p` the upper
`maxKeys - maxKeys/2` (`splitLeft` / `splitRight` of the structural model), both well-formed with the
kind of the old page; two pages changed, every other page is framed; the allocator corresponds. -/
theorem tie_split_pages (cfg : Cfg) (hc : CfgFlat cfg) (hmk2 : 2 ≤ cfg.maxKeys) (t : St) (a : Alloc)
    (hs : AllocScal t a) (hch : FreeChain cfg t.data a.free) (hnd : a.free.Nodup)
    (hfl : ∀ r ∈ a.free, r < a.nextPage) (hnp : 0 < a.nextPage)
    (hb1 : (a.nextPage + 1) * pw cfg < 2 ^ 40) (hb2 : t.data.size < 2 ^ 40)
    (q : Nat) (leaf : Bool) (kv : List (Key × Val)) (hq : PageOf cfg t.data q leaf kv)
    (hfull : kv.length = cfg.maxKeys) (hqfree : q ∉ a.free) (hqlt : q < a.nextPage) :
    ∃ t', split (w cfg.pageSize) (w cfg.maxKeys) t (w q) = some (t', refOf cfg t' (RV.Tree.newNode cfg a).1) ∧
      SplitOut cfg leaf kv t a q t' (RV.Tree.newNode cfg a).1 (RV.Tree.newNode cfg a).2 :=
  split_refines hc hmk2 t a hs hch hnd hfl hnp hb1 hb2 q leaf kv hq hfull hqfree hqlt

/-- In terms of the structural model: for a represented full node `c` (leaf or inner) whose pages
are live (not free, below the frontier, pairwise distinct), the generated `split` returns the window
of the right half's page and both halves of `splitNode cfg c a` are represented afterwards. -/
theorem tie_split (cfg : Cfg) (hc : CfgFlat cfg) (hmk2 : 2 ≤ cfg.maxKeys) (t : St) (a : Alloc)
    (hs : AllocScal t a) (hch : FreeChain cfg t.data a.free) (hnd : a.free.Nodup)
    (hfl : ∀ r ∈ a.free, r < a.nextPage) (hnp : 0 < a.nextPage)
    (hb1 : (a.nextPage + 1) * pw cfg < 2 ^ 40) (hb2 : t.data.size < 2 ^ 40)
    (c : Node) (hc0 : c ≠ .null) (hr : TreeFlat.Repr cfg t.data c) (hfull : c.len = cfg.maxKeys)
    (hpn : (pids c).Nodup) (hlive : ∀ r ∈ pids c, r ∉ a.free ∧ r < a.nextPage) :
    ∃ t', split (w cfg.pageSize) (w cfg.maxKeys) t (w c.pid) =
        some (t', refOf cfg t' (splitNode cfg c a).2.1.pid) ∧
      TreeFlat.Repr cfg t'.data (splitNode cfg c a).1 ∧ TreeFlat.Repr cfg t'.data (splitNode cfg c a).2.1 ∧
      AllocScal t' (splitNode cfg c a).2.2 ∧ FreeChain cfg t'.data (splitNode cfg c a).2.2.free ∧
      t.data.size ≤ t'.data.size ∧ t'.data.size < 2 ^ 40 ∧
      (∀ r, r ≠ (splitNode cfg c a).2.1.pid → r ≠ c.pid → (r + 1) * pw cfg ≤ t.data.size →
        pageOf cfg t'.data r = pageOf cfg t.data r) :=
  splitNode_refines hc hmk2 t a hs hch hnd hfl hnp hb1 hb2 c hc0 hr hfull hpn hlive

/-! ## a concrete tree (non-vacuity; evaluated by the kernel)

Page size 80 (`maxKeys = 4`, 10 words per page): the root (page 1) is an inner node with the two
leaves in pages 2 (full) and 3. -/

def exCfg : Cfg := Cfg.ofPageSize 80

def exData : Words := #[
  -- page 0: never used
  0#64, 0#64, 0#64, 0#64, 0#64, 0#64, 0#64, 0#64, 0#64, 0#64,
  -- page 1: inner, (40 -> page 2), (2^64-2 -> page 3)
  40#64, 2#64, 18446744073709551614#64, 3#64, 0#64, 0#64, 0#64, 0#64, 1#64, 2#64,
  -- page 2: leaf (10,1) (20,2) (30,3) (40,4): full
  10#64, 1#64, 20#64, 2#64, 30#64, 3#64, 40#64, 4#64, 2#64, 9223372036854775812#64,
  -- page 3: leaf (50,5) (2^64-2, placeholder)
  50#64, 5#64, 18446744073709551614#64, 0#64, 0#64, 0#64, 0#64, 0#64, 3#64, 9223372036854775810#64]

def exSt : St :=
  { data := exData, epoch := 0, nextPage := 4#64, freePage := 0#64, numLeafKeys := 6#64, numPagesFree := 0#64,
    bufOffset := 328#64, bufCurSz := 1048576#64 }

def exAlloc : Alloc := { nextPage := 4, free := [], leafKeys := 6, pagesFree := 0, dataLen := 320, curSz := 1048576 }

def exLeaf2 : Node := .leaf 2 [(10#64, 1#64), (20#64, 2#64), (30#64, 3#64), (40#64, 4#64)]

def exRoot : Node :=
  .inner 1 [(40#64, exLeaf2),
            (18446744073709551614#64, .leaf 3 [(50#64, 5#64), (18446744073709551614#64, 0#64)])]

theorem exCfg_flat : CfgFlat exCfg := ⟨by decide, by decide, by decide⟩

/-- the hypotheses of `tie_tree_get` / `tie_tree_Get` are satisfiable -/
theorem exRepr : TreeFlat.Repr exCfg exData exRoot := by
  simp only [exRoot, exLeaf2, TreeFlat.Repr, ReprEnts, and_true]
  refine ⟨⟨?_, ?_, ?_, ?_, ?_, ?_, ?_⟩, ⟨?_, ?_, ?_, ?_, ?_, ?_, ?_⟩, ⟨?_, ?_, ?_, ?_, ?_, ?_, ?_⟩⟩ <;> decide

example : height exRoot = 2 := by decide

/-- both sides of `tie_tree_Get`, evaluated: a hit in each leaf, a miss, the placeholder -/
example : Gen.TreeM.Get (w 80) (w 4) 2 exSt 20#64 = some 2#64 ∧ RV.Tree.get ⟨exRoot, exAlloc⟩ 20#64 = some 2#64 ∧
    Gen.TreeM.Get (w 80) (w 4) 2 exSt 50#64 = some 5#64 ∧ Gen.TreeM.Get (w 80) (w 4) 2 exSt 25#64 = some 0#64 ∧
    Gen.TreeM.Get (w 80) (w 4) 2 exSt 18446744073709551614#64 = some 0#64 ∧
    Gen.TreeM.Get (w 80) (w 4) 2 exSt 0#64 = none := by decide

/-- fuel below the height: the generated function gives up (`none`), it never returns a wrong value -/
example : Gen.TreeM.Get (w 80) (w 4) 1 exSt 20#64 = none := by decide

/-- `tie_walk`, evaluated -/
example : walkFlat exCfg exData 2 1 = walkNode exRoot ∧ (walkNode exRoot).map (·.pid) = [1, 2, 3] := by
  decide +kernel

/-- `tie_tree_iterate`, evaluated: the callback collects the page ids it is shown (pre-order 1, 2, 3) -/
example : (iterate (κ := List Nat) (w 80) (w 4) 2 exSt [] (refOf exCfg exSt 1)
      (fun t c r => some (t, match r with | .win off _ _ => c ++ [off / 10] | .nil => c))).map (·.2) =
    some [1, 2, 3] ∧ pids exRoot = [1, 2, 3] ∧ NoNil exRoot := by
  refine ⟨by decide +kernel, by decide, ?_⟩
  simp [exRoot, exLeaf2, NoNil, NoNilEnts]

/-- `tie_tree_set_nosplit`: `Set(55, 9)` goes to the leaf in page 3, which has room: `SetPath` holds … -/
theorem exSetPath : SetPath exCfg 55#64 9#64 exRoot := by
  simp only [exRoot, exLeaf2, SetPath, SetPathEnts]
  refine ⟨by decide, ⟨fun h => absurd h (by decide), fun _ => ⟨fun _ => ⟨by decide, ?_⟩, fun h => absurd h (by decide)⟩⟩⟩
  exact ⟨[(50#64, 5#64), (55#64, 9#64), (18446744073709551614#64, 0#64)], 1, by decide +kernel, by decide⟩

/-- … only page 3 changes, the key is inserted in front of the placeholder, one key is added -/
example : (Gen.TreeM.set (w 80) (w 4) 2 exSt 1#64 55#64 9#64).map
      (fun x => (x.2, x.1.numLeafKeys, ents 4 (pageOf exCfg x.1.data 3))) =
    some (NodeRef.win 10 10 0, 7#64, [(50#64, 5#64), (55#64, 9#64), (18446744073709551614#64, 0#64)]) ∧
    (Gen.TreeM.set (w 80) (w 4) 2 exSt 1#64 55#64 9#64).map
      (fun x => pageOf exCfg x.1.data 1 == pageOf exCfg exData 1 && pageOf exCfg x.1.data 2 == pageOf exCfg exData 2) =
    some true := by decide +kernel

/-- `tie_tree_Set_nosplit`, evaluated: the public `Set` on the flat state and on the structural tree -/
example : (Gen.TreeM.Set (w 80) (w 4) 2 exSt 55#64 9#64).map
      (fun x => (x.numLeafKeys, walkFlat exCfg x.data 2 1)) =
    some (7#64, walk (RV.Tree.set exCfg ⟨exRoot, exAlloc⟩ 55#64 9#64)) ∧
    (RV.Tree.set exCfg ⟨exRoot, exAlloc⟩ 55#64 9#64).a.leafKeys = 7 := by decide +kernel

/-- the allocator hypotheses of `tie_newNode` / `tie_split` hold of the example -/
theorem exAllocScal : AllocScal exSt exAlloc ∧ FreeChain exCfg exSt.data exAlloc.free ∧
    (exAlloc.nextPage + 1) * pw exCfg < 2 ^ 40 := by
  refine ⟨⟨?_, ?_, ?_, ?_, ?_, ?_, ?_, ?_⟩, ?_, ?_⟩
  all_goals first | decide | trivial

/-- `tie_newNode`, evaluated: the frontier page 4 does not fit the 40 words, the data grows to 50
words (the buffer has room: no new epoch), page 4 is an empty leaf that knows its id -/
example : (newNode (w 80) (w 4) exSt Gen.Tree.bitLeaf).map
      (fun x => (x.1.nextPage, x.1.data.size, x.2, pageOf exCfg x.1.data 4)) =
    some (5#64, 50, NodeRef.win 40 10 0,
      #[0#64, 0#64, 0#64, 0#64, 0#64, 0#64, 0#64, 0#64, 4#64, 9223372036854775808#64]) ∧
    (RV.Tree.newNode exCfg exAlloc).1 = 4 := by decide +kernel

/-- `tie_split`, evaluated on the full leaf in page 2: the lower half stays, the upper half moves to
the new page 4 (pages 1 and 3 are untouched) … -/
example : (split (w 80) (w 4) exSt 2#64).map (fun x => x.2) = some (NodeRef.win 40 10 0) ∧
    (split (w 80) (w 4) exSt 2#64).map (fun x => ents 4 (pageOf exCfg x.1.data 2)) =
      some [(10#64, 1#64), (20#64, 2#64)] ∧
    (split (w 80) (w 4) exSt 2#64).map (fun x => ents 4 (pageOf exCfg x.1.data 4)) =
      some [(30#64, 3#64), (40#64, 4#64)] ∧
    (split (w 80) (w 4) exSt 2#64).map (fun x => pageOf exCfg x.1.data 1 == pageOf exCfg exData 1) = some true ∧
    (split (w 80) (w 4) exSt 2#64).map (fun x => pageOf exCfg x.1.data 3 == pageOf exCfg exData 3) = some true := by
  decide +kernel

/-- … and the structural `splitNode` says the same -/
example : walkNode (splitNode exCfg exLeaf2 exAlloc).1 =
      [{ pid := 2, leaf := true, numKeys := 2, kv := [(10#64, 1#64), (20#64, 2#64)] }] ∧
    walkNode (splitNode exCfg exLeaf2 exAlloc).2.1 =
      [{ pid := 4, leaf := true, numKeys := 2, kv := [(30#64, 3#64), (40#64, 4#64)] }] := by decide +kernel

end RV.TieTree
