import RV.Props.TieExpiry
/-!
# `lockedMap.get / Expiration / Set / Update / Del / DelExpired` (store.go):
# generated whole-method translation = the model's store functions

The generated functions of `RV/Gen/Methods.lean` (regenerated from /repo on every run) work on the
Lean image `LockedMap V` of the Go struct: `data : map[uint64]storeItem[V]`, the shared expiry
index `em` (with `em_nonnil`), and the callback `shouldUpdate` (with `shouldUpdate_nonnil`).
The model (`RV/Model/Cache.lean`) works on `Store = AMap Hash Entry`, `Em`, `Cfg`.  The abstraction:

* `absStore`: every `storeItem{key, conflict, value, expiration}` becomes the `Entry{conflict, value,
  exp}` — the model does not store the redundant `key` field (it is the map key);
* `absEm` (TieExpiry): bucket numbers read as `Int`;
* values `V := Nat` with Go's zero value `0`;
* `SUAgree cfg m`: the model's `Config.ShouldUpdate` is the callback stored in the shard
  (`newLockedMap` installs the always-true callback, `setShouldUpdateFn` the user's);
* `absItem`: the fields `Key, Conflict, Value, Expiration` (and `Cost`) of the Go `*Item`; the
  model functions do not read `flag`.

Each theorem says: the generated method, run on any shard state with a real expiry index, returns
exactly the model's new store, new expiry index and results; `…_frame` says the remaining fields
of the shard are untouched.
-/
set_option linter.unusedSimpArgs false
namespace RV.TieStore
open RV RV.Cache Gen.Cache Gen.Methods RV.Tie RV.TieExpiry

def absEntry (it : StoreItem Nat) : Entry := ⟨it.conflict, it.value, it.expiration⟩
def absStore (d : AMap (BitVec 64) (StoreItem Nat)) : Store := AMap.mapVals absEntry d
def absItem (fl : Flag) (i : Gen.Methods.Item Nat) : RV.Cache.Item :=
  ⟨fl, i.Key, i.Conflict, i.Value, i.Cost.toInt, i.Expiration⟩
/-- the model's `Config.ShouldUpdate` is the callback stored in the shard -/
def SUAgree (cfg : Cfg) (m : LockedMap Nat) : Prop :=
  cfg.shouldUpdate = if m.shouldUpdate_nonnil then some m.shouldUpdate else none

/-- `lockedMap.get`: the map read followed by the conflict and expiry checks at clock `now` -/
theorem lockedMap_get_eq (m : LockedMap Nat) (k c : BitVec 64) (now : Int) :
    lockedMap_get 0 m k c now =
      match getResult c ((absStore m.data).lookup k) now with
      | some v => (v, true)
      | none => (0, false) := by
  unfold lockedMap_get getResult getConflictMismatch getExpired
  simp only [absStore, AMap.lookup_mapVals]
  cases h : m.data.lookup k <;> simp [absEntry]
  repeat' split
  all_goals simp_all

/-- `lockedMap.Expiration` -/
theorem lockedMap_Expiration_eq (m : LockedMap Nat) (k : BitVec 64) :
    lockedMap_Expiration 0 m k = expirationOf (absStore m.data) k := by
  unfold lockedMap_Expiration expirationOf
  simp only [absStore, AMap.lookup_mapVals]
  cases h : m.data.lookup k <;> simp [absEntry, StoreItem.zero]

/-- `lockedMap.Set` -/
theorem lockedMap_Set_eq (cfg : Cfg) (m : LockedMap Nat) (fl : Flag) (i : Gen.Methods.Item Nat)
    (hsu : SUAgree cfg m) (hem : m.em_nonnil = true) :
    let r := lockedMap_Set 0 m true i
    (absStore r.data, absEm r.em) = storeSet cfg (absStore m.data) (absEm m.em) (absItem fl i) := by
  unfold lockedMap_Set storeSet setConflictMismatch setRefused suRefuses SUAgree at *
  simp only [absStore, AMap.lookup_mapVals, absItem, hem, hsu]
  cases h : m.data.lookup i.Key <;> simp [absEntry]
  repeat' split
  all_goals simp_all [expirationMap_update_eq, expirationMap_add_eq, AMap.mapVals_insert, absEntry]

theorem lockedMap_Set_nil (m : LockedMap Nat) (i : Gen.Methods.Item Nat) :
    lockedMap_Set 0 m false i = m := by
  simp [lockedMap_Set]

theorem lockedMap_Set_frame (m : LockedMap Nat) (nn : Bool) (i : Gen.Methods.Item Nat) :
    { lockedMap_Set 0 m nn i with data := m.data, em := m.em } = m := by
  unfold lockedMap_Set
  dsimp only
  repeat' split
  all_goals rfl

/-- `lockedMap.Update`: (store, index, previous value, updated) -/
theorem lockedMap_Update_eq (cfg : Cfg) (m : LockedMap Nat) (fl : Flag) (i : Gen.Methods.Item Nat)
    (hsu : SUAgree cfg m) (hem : m.em_nonnil = true) :
    let r := lockedMap_Update 0 m i
    (absStore r.1.data, absEm r.1.em, r.2.1, r.2.2) =
      storeUpdate cfg (absStore m.data) (absEm m.em) (absItem fl i) := by
  unfold lockedMap_Update storeUpdate updConflictMismatch updRefused suRefuses SUAgree at *
  simp only [absStore, AMap.lookup_mapVals, absItem, hem, hsu]
  cases h : m.data.lookup i.Key <;> simp [absEntry]
  repeat' split
  all_goals simp_all [expirationMap_update_eq, expirationMap_add_eq, AMap.mapVals_insert, absEntry]

theorem lockedMap_Update_frame (m : LockedMap Nat) (i : Gen.Methods.Item Nat) :
    { (lockedMap_Update 0 m i).1 with data := m.data, em := m.em } = m := by
  unfold lockedMap_Update
  dsimp only
  repeat' split
  all_goals rfl

/-- `lockedMap.Del`: (store, index, conflict, value) -/
theorem lockedMap_Del_eq (m : LockedMap Nat) (k c : BitVec 64) (hem : m.em_nonnil = true) :
    let r := lockedMap_Del 0 m k c
    (absStore r.1.data, absEm r.1.em, r.2.1, r.2.2) = storeDel (absStore m.data) (absEm m.em) k c := by
  unfold lockedMap_Del storeDel delConflictMismatch delHasExpiry
  simp only [absStore, AMap.lookup_mapVals, hem]
  cases h : m.data.lookup k <;> simp [absEntry]
  repeat' split
  all_goals simp_all [expirationMap_del_eq, AMap.mapVals_erase, absEntry]

theorem lockedMap_Del_frame (m : LockedMap Nat) (k c : BitVec 64) :
    { (lockedMap_Del 0 m k c).1 with data := m.data, em := m.em } = m := by
  unfold lockedMap_Del
  dsimp only
  repeat' split
  all_goals rfl

/-- `lockedMap.DelExpired` (the sweep's check-and-delete): (store, index, value, expiration, removed) -/
theorem lockedMap_DelExpired_eq (m : LockedMap Nat) (k c : BitVec 64) (now : Int) (hem : m.em_nonnil = true) :
    let r := lockedMap_DelExpired 0 m k c now
    (absStore r.1.data, absEm r.1.em, r.2.1, r.2.2.1, r.2.2.2) =
      storeDelExpired (absStore m.data) (absEm m.em) k c now := by
  unfold lockedMap_DelExpired storeDelExpired sweepConflictMismatch sweepSkip
  simp only [absStore, AMap.lookup_mapVals, hem]
  cases h : m.data.lookup k <;> simp [absEntry]
  repeat' split
  all_goals simp_all [expirationMap_del_eq, AMap.mapVals_erase, absEntry]

theorem lockedMap_DelExpired_frame (m : LockedMap Nat) (k c : BitVec 64) (now : Int) :
    { (lockedMap_DelExpired 0 m k c now).1 with data := m.data, em := m.em } = m := by
  unfold lockedMap_DelExpired
  dsimp only
  repeat' split
  all_goals rfl

/-! Non-vacuity: a concrete shard (ShouldUpdate = "new value is larger"), one resident key with a
TTL; the hypotheses of the theorems hold and the generated methods take their interesting branches. -/
def cfg0 : Cfg :=
  { bufCap := 1
    ignoreInternal := true
    costFn := none
    shouldUpdate := some (fun cur prev => decide (prev < cur))
    metricsOn := false
    maxCost := 100 }
def m0 : LockedMap Nat :=
  { data := [(5#64, { key := 5#64, conflict := 9#64, value := 7, expiration := 12000000000 })],
    em_nonnil := true,
    em := { buckets := [(3#64, [(5#64, 9#64)])], lastCleanedBucketNum := 0#64 },
    shouldUpdate_nonnil := true, shouldUpdate := fun cur prev => decide (prev < cur) }
def i0 : Gen.Methods.Item Nat := { flag := 0#8, Key := 5#64, Conflict := 9#64, Value := 8, Cost := 1#64, Expiration := 31000000000 }

example : SUAgree cfg0 m0 ∧ m0.em_nonnil = true := ⟨by simp [SUAgree, cfg0, m0], rfl⟩
example : lockedMap_get 0 m0 5#64 9#64 11000000000 = (7, true) := by rfl
example : lockedMap_get 0 m0 5#64 9#64 13000000000 = (0, false) := by rfl
example : lockedMap_get 0 m0 5#64 8#64 11000000000 = (0, false) := by rfl
example : ((lockedMap_Update 0 m0 i0).2 = (7, true)) := by rfl
example : ((lockedMap_Update 0 m0 { i0 with Value := 6 }).2 = (7, false)) := by rfl
example : (((lockedMap_Update 0 m0 i0).1.em.buckets : TieExpiry.Buckets) = [(7#64, [(5#64, 9#64)]), (3#64, [])]) := by rfl
example : ((lockedMap_Del 0 m0 5#64 0#64).2 = (9#64, 7)) := by rfl
example : ((lockedMap_DelExpired 0 m0 5#64 9#64 13000000000).2 = (7, 12000000000, true)) := by rfl
example : ((lockedMap_DelExpired 0 m0 5#64 9#64 11000000000).2 = (0, Gen.zeroTime, false)) := by rfl

end RV.TieStore
