import RV.Gen.CacheFlow
/-!
# Control-flow skeletons of cache.go, store.go, ttl.go

The order of the atomic actions (store / policy / expiry-index calls, callbacks, channel and lock
operations, clock reads, returns) of each function below is what the hand-written models
mirror.  `Gen.CacheFlow.*` is re-extracted from /repo on every run (`go2lean/flow.go`); the
theorems state, by `rfl`, that each flow is still the sequence the model was written against.
A reordered, removed or added action breaks the corresponding theorem.
-/
namespace RV.FlowCache

/-- actions of Cache.Wait in source order -/
theorem flow_wait : Gen.CacheFlow.wait = [
  "call c.isClosed.Load", "if{", "return", "}",
  "call make", "send c.setBuf", "recv wait"] := rfl

/-- actions of Cache.Get in source order -/
theorem flow_get : Gen.CacheFlow.get = [
  "call c.isClosed.Load", "if{", "return", "}",
  "call c.keyToHash", "call c.getBuf.Push", "call c.storedItems.Get", "if{",
  "call c.Metrics.add", "}else{", "call c.Metrics.add", "}",
  "return"] := rfl

/-- actions of Cache.SetWithTTL in source order -/
theorem flow_setWithTTL : Gen.CacheFlow.setWithTTL = [
  "call c.isClosed.Load", "if{", "return", "}",
  "switch{", "case ttl==0:", "break", "case ttl<0:",
  "return", "default:", "call time.Now", "call time.Now().Add",
  "}", "call c.keyToHash", "call c.storedItems.Update", "if{",
  "call c.onExit", "write i.flag", "}", "select{",
  "case:", "send c.setBuf", "return", "default:",
  "if{", "return", "}", "call c.Metrics.add",
  "return", "}"] := rfl

/-- actions of Cache.Del in source order -/
theorem flow_del : Gen.CacheFlow.del = [
  "call c.isClosed.Load", "if{", "return", "}",
  "call c.keyToHash", "call c.storedItems.Del", "call c.onExit", "send c.setBuf"] := rfl

/-- actions of Cache.GetTTL in source order -/
theorem flow_getTTL : Gen.CacheFlow.getTTL = [
  "if{", "return", "}", "call c.keyToHash",
  "call c.storedItems.Get", "if{", "return", "}",
  "call c.storedItems.Expiration", "call expiration.IsZero", "if{", "return",
  "}", "call time.Now", "call time.Now().After", "if{",
  "return", "}", "call time.Until", "return"] := rfl

/-- actions of Cache.IterValues in source order -/
theorem flow_iterValues : Gen.CacheFlow.iterValues = [
  "call c.isClosed.Load", "if{", "return", "}",
  "call c.storedItems.IterValues"] := rfl

/-- actions of Cache.Close in source order -/
theorem flow_close : Gen.CacheFlow.close = [
  "call c.isClosed.Load", "if{", "return", "}",
  "call c.Clear", "send c.stop", "recv c.done", "call close",
  "call close", "call close", "call c.cachePolicy.Close", "call c.cleanupTicker.Stop",
  "call c.isClosed.Store"] := rfl

/-- actions of Cache.Clear in source order -/
theorem flow_clear : Gen.CacheFlow.clear = [
  "call c.isClosed.Load", "if{", "return", "}",
  "send c.stop", "recv c.done", "for{", "select{",
  "case:", "recv c.setBuf", "if{", "call close",
  "continue", "}", "if{", "call c.onEvict",
  "}", "default:", "break", "}",
  "}", "call c.cachePolicy.Clear", "call c.storedItems.Clear", "if{",
  "call c.Metrics.Clear", "}", "go c.processItems"] := rfl

/-- actions of Cache.processItems in source order -/
theorem flow_processItems : Gen.CacheFlow.processItems = [
  "call make", "func{", "if{", "return",
  "}", "call time.Now", "if{", "range startTs{",
  "if{", "break", "}", "call delete",
  "}", "}", "}", "func{",
  "if{", "call c.Metrics.trackEviction", "call delete", "}",
  "if{", "call c.onEvict", "}", "}",
  "for{", "select{", "case:", "recv c.setBuf",
  "if{", "call close", "continue", "}",
  "if{", "call c.cost", "write i.Cost", "}",
  "if{", "write i.Cost", "}", "switch{",
  "case itemNew:", "call c.cachePolicy.Add", "if{", "call c.storedItems.Set",
  "call c.Metrics.add", "call trackAdmission", "}else{", "call c.onReject",
  "}", "range victims{", "call c.storedItems.Del", "write victim.Conflict",
  "call onEvict", "}", "case itemUpdate:", "call c.cachePolicy.Update",
  "case itemDelete:", "call c.cachePolicy.Del", "call c.storedItems.Del", "call c.onExit",
  "}", "case:", "recv c.cleanupTicker.C", "call c.storedItems.Cleanup",
  "case:", "recv c.stop", "send c.done", "return",
  "}", "}"] := rfl

/-- actions of expirationMap.cleanup in source order -/
theorem flow_cleanup : Gen.CacheFlow.cleanup = [
  "if{", "return", "}", "call m.Lock",
  "call time.Now", "call cleanupBucket", "for{", "call delete",
  "}", "write m.lastCleanedBucketNum", "call m.Unlock", "range buckets{",
  "range keys{", "call store.DelExpired", "if{", "continue",
  "}", "call policy.Cost", "call policy.Del", "if{",
  "call onEvict", "}", "}", "}",
  "return"] := rfl

/-- actions of expirationMap.add in source order -/
theorem flow_emAdd : Gen.CacheFlow.emAdd = [
  "if{", "return", "}", "call expiration.IsZero",
  "if{", "return", "}", "call storageBucket",
  "call m.Lock", "defer m.Unlock", "if{", "call make",
  "write m.buckets", "}", "write b["] := rfl

/-- actions of expirationMap.update in source order -/
theorem flow_emUpdate : Gen.CacheFlow.emUpdate = [
  "if{", "return", "}", "call m.Lock",
  "defer m.Unlock", "call storageBucket", "if{", "call delete",
  "}", "call newExpTime.IsZero", "if{", "return",
  "}", "call storageBucket", "if{", "call make",
  "write m.buckets", "}", "write newBucket["] := rfl

/-- actions of expirationMap.del in source order -/
theorem flow_emDel : Gen.CacheFlow.emDel = [
  "if{", "return", "}", "call storageBucket",
  "call m.Lock", "defer m.Unlock", "if{", "return",
  "}", "call delete"] := rfl

/-- actions of expirationMap.clear in source order -/
theorem flow_emClear : Gen.CacheFlow.emClear = [
  "if{", "return", "}", "call m.Lock",
  "call make", "write m.buckets", "call time.Now", "call cleanupBucket",
  "write m.lastCleanedBucketNum", "call m.Unlock"] := rfl

/-- actions of lockedMap.get in source order -/
theorem flow_storeGet : Gen.CacheFlow.storeGet = [
  "call m.RLock", "call m.RUnlock", "if{", "return",
  "}", "if{", "return", "}",
  "call item.expiration.IsZero", "call time.Now", "call time.Now().After", "if{",
  "return", "}", "return"] := rfl

/-- actions of lockedMap.Set in source order -/
theorem flow_storeSet : Gen.CacheFlow.storeSet = [
  "if{", "return", "}", "call m.Lock",
  "defer m.Unlock", "if{", "if{", "return",
  "}", "call m.shouldUpdate", "if{", "return",
  "}", "call m.em.update", "}else{", "call m.em.add",
  "}", "write m.data["] := rfl

/-- actions of lockedMap.Del in source order -/
theorem flow_storeDel : Gen.CacheFlow.storeDel = [
  "call m.Lock", "defer m.Unlock", "if{", "return",
  "}", "if{", "return", "}",
  "call item.expiration.IsZero", "if{", "call m.em.del", "}",
  "call delete", "return"] := rfl

/-- actions of lockedMap.DelExpired in source order -/
theorem flow_storeDelExpired : Gen.CacheFlow.storeDelExpired = [
  "call m.Lock", "defer m.Unlock", "if{", "return",
  "}", "if{", "return", "}",
  "call item.expiration.IsZero", "call item.expiration.After", "if{", "return",
  "}", "call m.em.del", "call delete", "return"] := rfl

/-- actions of lockedMap.Update in source order -/
theorem flow_storeUpdate : Gen.CacheFlow.storeUpdate = [
  "call m.Lock", "defer m.Unlock", "if{", "return",
  "}", "if{", "return", "}",
  "call m.shouldUpdate", "if{", "return", "}",
  "call m.em.update", "write m.data[", "return"] := rfl

/-- actions of lockedMap.Clear in source order -/
theorem flow_storeShardClear : Gen.CacheFlow.storeShardClear = [
  "call m.Lock", "defer m.Unlock", "if{", "range m.data{",
  "call onEvict", "}", "}", "call make",
  "write m.data"] := rfl

/-- actions of shardedMap.Clear in source order -/
theorem flow_storeClear : Gen.CacheFlow.storeClear = [
  "for{", "call sm.shards[i].Clear", "}", "call sm.expiryMap.clear"] := rfl

/-- actions of shardedMap.IterValues in source order -/
theorem flow_storeIter : Gen.CacheFlow.storeIter = [
  "range sm.shards{", "if{", "break", "}",
  "}"] := rfl

end RV.FlowCache
