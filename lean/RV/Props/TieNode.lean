import RV.Proofs.NodeFlatMap
import RV.Proofs.NodeFlatIter
/-!
# TieNode — the `node` methods of z/btree.go, generated whole, refine the entry-list model (C10 / C16)

`RV/Model/Tree.lean` (what the C10 / C16 theorems are about) treats a tree node as an entry
list; its node-level functions are `search`, `keyAt`, `maxKey`, `leafGet`, `nodeSet`,
`nodeCompact`, and the meta word `metaWord`.  Flat memory was not part of it.

Here the *code* side is `Gen.Node.*`: the `node` methods translated whole by go2lean
(`go2lean/specs_node.go`, kind `KFuncM`) into functions over the page `Array (BitVec 64)` in the
`Option` monad — `none` is a Go panic: index out of range, slice bounds out of range, failed
`assert`, `panic(..)`.  `maxKeys` is a parameter (`w mk`).  The theorems below say that on every
well-formed page (`RV.NodeFlat.PageOk`: size `2*(maxKeys+1)`, `numKeys ≤ maxKeys`, keys non-zero
and strictly increasing, every key/value word from `numKeys` up to `maxKeys` zero), for every
`maxKeys` in the stated range, the generated functions

* do not panic where the entry-list model returns (so every index they form is in range),
* return what the entry-list function returns on `ents p` (the first `numKeys` pairs),
* leave a page whose `ents` is the model's new entry list and which is again `PageOk` — in
  particular the zero tail behind `numKeys` is kept, which is what `Tree.set`'s `n.key(idx) == 0`
  and the model's `keyAt` ("a slot beyond numKeys reads 0") rely on,
* touch neither the page id word nor the kind bits.

Range of `maxKeys`: `node.search` calls `simd.Search`, which returns an `int16`; everything that
goes through `search` is therefore stated for `maxKeys < 2^15` (pages below 512 KiB; the OS page
sizes the package uses give `maxKeys ≤ 4095`).  `simd.Search(n[:2*N], k)` is modelled by the
generated model of `simd.Naive` (property C20 proves the amd64 assembly + wrapper and the portable
version equal to it).  No lower bound on `maxKeys` is needed except `1 ≤ maxKeys` where an empty
node's slot 0 is read (`maxKey`, `compact`); the package has `maxKeys ≥ 4`.

Helper lemmas: `RV/Proofs/NodeFlat*.lean`.  Execution tie: stream `node` + `Drive/Node.lean`.
-/
namespace RV.TieNode
open RV.NodeFlat RV.Tree

/-! ## the abstraction -/

/-- `PageOk` says exactly that the entries satisfy the ordering predicate of the C10 proofs
(`SortedFrom 0`: strictly increasing, all keys non-zero), plus geometry and the zero tail. -/
theorem tie_pageOk_iff (mk : Nat) (p : Page) : PageOk mk p ↔
    p.size = 2 * (mk + 1) ∧ nkeys mk p ≤ mk ∧ SortedFrom 0#64 (ents mk p) ∧
    (∀ i, i < mk → nkeys mk p ≤ i → keyW p i = 0#64 ∧ valW p i = 0#64) := pageOk_iff

/-- The page `newNode` hands out (zeroed, `setBit`, page id stored) is a well-formed empty node
whose meta word is the model's `metaWord leaf 0`. -/
theorem tie_newNode (mk : Nat) (hmk : mk < 2 ^ 31) (leaf : Bool) (pid : BitVec 64) :
    ∃ p1 p2, Gen.Node.setBit (zeroPage mk) (w mk) (if leaf then Gen.Tree.bitLeaf else 0#64) = some p1 ∧
      Gen.Node.setAt p1 (Gen.Tree.keyOffset (w mk)) pid = some p2 ∧
      PageOk mk p2 ∧ ents mk p2 = [] ∧ pidW mk p2 = pid ∧ leafBit mk p2 = leaf ∧
      metaW mk p2 = metaWord leaf 0 := newNode_page hmk leaf pid

/-! ## reading -/

/-- `n.numKeys()` is the length of the entry list. -/
theorem tie_numKeys (mk : Nat) (p : Page) (hok : PageOk mk p) (hmk : mk < 2 ^ 31) :
    Gen.Node.numKeys p (w mk) = some (w (ents mk p).length) := by
  rw [ents_length]; exact numKeys_w hok.1 (by have := hok.1; omega)

/-- `n.key(i)` for every slot `i < maxKeys` is the model's `keyAt`: a slot behind `numKeys` reads 0. -/
theorem tie_key (mk : Nat) (p : Page) (hok : PageOk mk p) (hmk : mk < 2 ^ 31) (i : Nat) (hi : i < mk) :
    Gen.Node.key p (w i) = some (keyAt (ents mk p) i) := key_keyAt hok hmk hi

/-- `n.val(i)` of a stored pair. -/
theorem tie_val (mk : Nat) (p : Page) (hok : PageOk mk p) (hmk : mk < 2 ^ 31) (i : Nat) (hi : i < nkeys mk p) :
    ∃ e, (ents mk p)[i]? = some e ∧ Gen.Node.val p (w i) = some e.2 := by
  have hs := hok.1; have hn := hok.2.1
  exact ⟨(keyW p i, valW p i), by rw [ents_get?]; simp [hi], val_w (by omega) (by omega)⟩

/-- `n.search(k)` is the model's `search` on the entries. -/
theorem tie_search (mk : Nat) (p : Page) (hok : PageOk mk p) (hmk : mk < 2 ^ 15) (k : Key) :
    Gen.Node.search p (w mk) k = some (w (search (ents mk p) k)) := search_w hok.1 hmk hok.2.1 k

/-- `n.get(k)` is the model's `leafGet`. -/
theorem tie_get (mk : Nat) (p : Page) (hok : PageOk mk p) (hmk : mk < 2 ^ 15) (k : Key) :
    Gen.Node.get p (w mk) k = some (leafGet (ents mk p) k) := get_w hok.1 hmk hok.2.1 k

/-- `n.maxKey()` is the model's `maxKey` (0 for an empty node: slot 0 is zeroed). -/
theorem tie_maxKey (mk : Nat) (p : Page) (hok : PageOk mk p) (h1 : 1 ≤ mk) (hmk : mk < 2 ^ 31) :
    Gen.Node.maxKey p (w mk) = some (maxKey (ents mk p)) :=
  maxKey_w hok.1 hmk hok.2.1 (fun h0 => ⟨h1, (hok.2.2.2.2 0 (by omega) (by omega)).1⟩)

/-- `n.isFull()` -/
theorem tie_isFull (mk : Nat) (p : Page) (hok : PageOk mk p) (hmk : mk < 2 ^ 31) :
    Gen.Node.isFull p (w mk) = some (decide ((ents mk p).length = mk)) := by
  rw [ents_length]; exact isFull_w hok.1 (by have := hok.1; omega) (by omega)

/-! ## the meta word -/

/-- `setNumKeys(n)` then `numKeys()` reads `n` back; the kind bits (`isLeaf`, `bits`), the page id
and every key/value word are unchanged.  (Any page of the right size, any `n < 2^32`.) -/
theorem tie_setNumKeys_roundtrip (mk : Nat) (p : Page) (hs : p.size = 2 * (mk + 1)) (hmk : mk < 2 ^ 31)
    (n : Nat) (hn : n < 2 ^ 32) :
    ∃ p', Gen.Node.setNumKeys p (w mk) (w n) = some p' ∧
      Gen.Node.numKeys p' (w mk) = some (w n) ∧
      Gen.Node.isLeaf p' (w mk) = Gen.Node.isLeaf p (w mk) ∧
      Gen.Node.bits p' (w mk) = Gen.Node.bits p (w mk) ∧
      Gen.Node.pageID p' (w mk) = Gen.Node.pageID p (w mk) ∧
      ∀ j, j ≠ 2 * mk + 1 → p'[j]! = p[j]! := by
  obtain ⟨p', hp, hsz, hmeta, hw⟩ := setNumKeys_w (p := p) (mk := mk) hs (by omega) hn
  have hs' : p'.size = 2 * (mk + 1) := by omega
  refine ⟨p', hp, ?_, ?_, ?_, ?_, hw⟩
  · rw [numKeys_w hs' (by omega), nkeys_of_meta hmeta hn]
  · rw [isLeaf_w hs' (by omega), isLeaf_w hs (by omega), leafBit_of_meta hmeta hn]
  · rw [bits_w hs' (by omega), bits_w hs (by omega), kindBits_of_meta hmeta hn]
  · rw [pageID_w hs' (by omega), pageID_w hs (by omega)]
    unfold pidW; rw [hw _ (by omega)]

/-- `isLeaf()` reads bit 63 of the meta word, whatever the count. -/
theorem tie_isLeaf (mk : Nat) (p : Page) (hs : p.size = 2 * (mk + 1)) (hmk : mk < 2 ^ 31) :
    Gen.Node.isLeaf p (w mk) = some (leafBit mk p) := isLeaf_w hs (by omega)

/-! ## `node.set` -/

/-- Whenever the entry-list `nodeSet` returns, `n.set(k, v)` on the page returns the same
`numAdded`; the new page reads as the model's new entry list; only slot words and the count
changed; the words behind the new `numKeys` are zero. -/
theorem tie_set_returns (mk : Nat) (p : Page) (hok : PageOk mk p) (hmk : mk < 2 ^ 15) (k : Key) (v : Val)
    (es' : List (Key × Val)) (added : Nat) (h : nodeSet mk (ents mk p) k v = some (es', added)) :
    ∃ p', Gen.Node.set p (w mk) k v = some (p', w added) ∧ p'.size = p.size ∧ ents mk p' = es' ∧
      nkeys mk p' = es'.length ∧ nkeys mk p' ≤ mk ∧
      pidW mk p' = pidW mk p ∧ kindBits mk p' = kindBits mk p ∧ leafBit mk p' = leafBit mk p ∧
      (∀ i, i < mk → nkeys mk p' ≤ i → keyW p' i = 0#64 ∧ valW p' i = 0#64) :=
  set_some hok hmk k v es' added h

/-- … and it is again a well-formed page (keys `≠ 0`, as `Tree.Set` enforces). -/
theorem tie_set_pageOk (mk : Nat) (p : Page) (hok : PageOk mk p) (hmk : mk < 2 ^ 15) (k : Key) (v : Val)
    (hk0 : k ≠ 0#64) (es' : List (Key × Val)) (added : Nat)
    (h : nodeSet mk (ents mk p) k v = some (es', added)) (p' : Page) (r : BitVec 64)
    (hp : Gen.Node.set p (w mk) k v = some (p', r)) : PageOk mk p' :=
  set_pageOk hok hmk k v hk0 es' added h p' r hp

/-- Whenever the entry-list `nodeSet` panics — the full-node assertion: the node is full and `k`
is not in it — so does `n.set(k, v)`.  (`search < maxKeys`: the model does not represent reading
the page-id word as a key, see `tie_set_full_pageid_counterexample`.) -/
theorem tie_set_panics (mk : Nat) (p : Page) (hok : PageOk mk p) (hmk : mk < 2 ^ 15) (k : Key) (v : Val)
    (hk0 : k ≠ 0#64) (hlt : search (ents mk p) k < mk) (h : nodeSet mk (ents mk p) k v = none) :
    Gen.Node.set p (w mk) k v = none := set_none hok hmk k v hk0 hlt h

/-- In association-list terms (the form C10's `node_set_correct` has): with room, or with the key
present, `n.set(k, v)` is sorted insertion / overwrite and keeps the page well-formed. -/
theorem tie_set_ins (mk : Nat) (p : Page) (hok : PageOk mk p) (hmk : mk < 2 ^ 15) (k : Key) (v : Val)
    (hk0 : k ≠ 0#64) (hroom : nkeys mk p < mk ∨ hasKey (ents mk p) k = true) :
    ∃ p', Gen.Node.set p (w mk) k v = some (p', w (if hasKey (ents mk p) k then 0 else 1)) ∧
      ents mk p' = ins (ents mk p) k v ∧ PageOk mk p' := by
  obtain ⟨hs, hn, hsorted, _⟩ := pageOk_iff.mp hok
  have hins := nodeSet_eq_ins mk (ents mk p) k v 0#64 hsorted (by bv_omega) (by omega) (by
    rw [ents_length]
    rcases hroom with h | h
    · exact Or.inl h
    · exact Or.inr ⟨h, hn⟩)
  obtain ⟨p', hp, _, hents, _⟩ := set_some hok hmk k v _ _ hins
  exact ⟨p', hp, hents, set_pageOk hok hmk k v hk0 _ _ hins p' _ hp⟩

/-! ## `node.moveRight` -/

/-- `n.moveRight(lo)` on a node with room: the pairs `lo … numKeys-1` move one slot up, slot `lo`
keeps its old content, nothing else (count, page id, kind bits) changes; it does not panic. -/
theorem tie_moveRight (mk : Nat) (p : Page) (hok : PageOk mk p) (hmk : mk < 2 ^ 31) (lo : Nat)
    (hlo : lo ≤ nkeys mk p) (hroom : nkeys mk p < mk) :
    ∃ p', Gen.Node.moveRight p (w mk) (w lo) = some p' ∧ p'.size = p.size ∧
      metaW mk p' = metaW mk p ∧ pidW mk p' = pidW mk p ∧
      ∀ i, i < mk → (keyW p' i, valW p' i) =
        if lo < i ∧ i ≤ nkeys mk p then (keyW p (i - 1), valW p (i - 1)) else (keyW p i, valW p i) :=
  moveRight_slots hok.1 hmk hlo hroom

/-! ## `node.compact` -/

/-- `n.compact(lo)` on the page is the model's `nodeCompact` on the entries (values are the value
words themselves, clearing stores 0 — the leaf instance; `tie_compact_inner` covers inner nodes):
same return value, the new page reads as the model's new entry list, header words untouched, the
freed slots zeroed. -/
theorem tie_compact (mk : Nat) (p : Page) (hok : PageOk mk p) (h1 : 1 ≤ mk) (hmk : mk < 2 ^ 31) (lo : Val) :
    ∃ p', Gen.Node.compact p (w mk) lo = some (p', w (nodeCompact id (fun _ => 0#64) (ents mk p) lo).2) ∧
      p'.size = p.size ∧ ents mk p' = (nodeCompact id (fun _ => 0#64) (ents mk p) lo).1 ∧
      nkeys mk p' ≤ nkeys mk p ∧
      pidW mk p' = pidW mk p ∧ kindBits mk p' = kindBits mk p ∧ leafBit mk p' = leafBit mk p ∧
      (∀ i, i < mk → nkeys mk p' ≤ i → keyW p' i = 0#64 ∧ valW p' i = 0#64) := compact_w hok h1 hmk lo

/-- … and it is again a well-formed page. -/
theorem tie_compact_pageOk (mk : Nat) (p : Page) (hok : PageOk mk p) (h1 : 1 ≤ mk) (hmk : mk < 2 ^ 31) (lo : Val)
    (p' : Page) (r : BitVec 64) (hp : Gen.Node.compact p (w mk) lo = some (p', r)) : PageOk mk p' :=
  compact_pageOk hok h1 hmk lo p' r hp

/-! ## `node.iterate` -/

/-- `n.iterate(fn)` calls `fn(n, i)` for `i = 0 … numKeys-1`, in order (`iterFrom`), and stops
there — at the zeroed slot behind the last key, or at `maxKeys` — for every callback that leaves
key words and page size alone (it may rewrite values; a panic of `fn` is a panic of `iterate`). -/
theorem tie_iterate (mk : Nat) (p : Page) (hok : PageOk mk p) (hmk : mk < 2 ^ 31)
    (fn : Page → BitVec 64 → Option Page)
    (hfn : ∀ q i q', fn q i = some q' → q'.size = q.size ∧ ∀ j, j < mk → keyW q' j = keyW q j) :
    Gen.Node.iterate p (w mk) fn = iterFrom fn (nkeys mk p) 0 p := iterate_w hok hmk fn hfn

/-! ## inner nodes

The page of an inner node holds `(key, childWord child)` — `RV.Tree.entWords es` for the model's
entries `es : List (Key × Node)`.  The model's node-level functions commute with that reading. -/

/-- `n.search(k)` on the page of an inner node. -/
theorem tie_search_inner (mk : Nat) (p : Page) (hok : PageOk mk p) (hmk : mk < 2 ^ 15)
    (es : List (Key × Node)) (hes : ents mk p = entWords es) (k : Key) :
    Gen.Node.search p (w mk) k = some (w (search es k)) := by
  rw [search_w hok.1 hmk hok.2.1 k, hes, entWords_eq_mapV, search_mapV]

/-- `n.set(k, child.pageID())` on the page of an inner node is the model's `nodeSet … k child`. -/
theorem tie_set_inner (mk : Nat) (p : Page) (hok : PageOk mk p) (hmk : mk < 2 ^ 15)
    (es : List (Key × Node)) (hes : ents mk p = entWords es) (k : Key) (c : Node)
    (es' : List (Key × Node)) (added : Nat) (h : nodeSet mk es k c = some (es', added)) :
    ∃ p', Gen.Node.set p (w mk) k (childWord c) = some (p', w added) ∧ ents mk p' = entWords es' ∧
      (k ≠ 0#64 → PageOk mk p') := by
  have h' : nodeSet mk (ents mk p) k (childWord c) = some (entWords es', added) := by
    rw [hes, entWords_eq_mapV, nodeSet_mapV, h, entWords_eq_mapV]; rfl
  obtain ⟨p', hp, _, hents, _⟩ := set_some hok hmk k (childWord c) _ _ h'
  exact ⟨p', hp, hents, fun hk0 => set_pageOk hok hmk k (childWord c) hk0 _ _ h' p' _ hp⟩

/-- `n.compact(lo)` on the page of an inner node (`Tree.compact` calls it with `lo = 1`: drop the
entries whose child page was released) is the model's `nodeCompact childWord (fun _ => null)`. -/
theorem tie_compact_inner (mk : Nat) (p : Page) (hok : PageOk mk p) (h1 : 1 ≤ mk) (hmk : mk < 2 ^ 31)
    (es : List (Key × Node)) (hes : ents mk p = entWords es) (lo : Val) :
    ∃ p', Gen.Node.compact p (w mk) lo =
        some (p', w (nodeCompact childWord (fun _ => Node.null) es lo).2) ∧
      ents mk p' = entWords (nodeCompact childWord (fun _ => Node.null) es lo).1 ∧ PageOk mk p' := by
  obtain ⟨p', hp, _, hents, _⟩ := compact_w hok h1 hmk lo
  have hm := nodeCompact_mapV childWord (fun _ => Node.null) (fun _ => rfl) es lo
  rw [hes, entWords_eq_mapV, hm] at hp hents
  exact ⟨p', hp, by rw [hents, entWords_eq_mapV], compact_pageOk hok h1 hmk lo p' _ hp⟩

/-! ## concrete pages (non-vacuity; evaluated by the kernel) -/

/-- a leaf with `maxKeys = 4` (page size 80): three pairs, one free slot, page id 77 -/
def exLeaf : Page := #[10#64, 1#64, 20#64, 2#64, 30#64, 3#64, 0#64, 0#64, 77#64, 9223372036854775811#64]
/-- the same node, full -/
def exFull : Page := #[10#64, 1#64, 20#64, 2#64, 30#64, 3#64, 40#64, 4#64, 77#64, 9223372036854775812#64]

example : PageOk 4 exLeaf ∧ ents 4 exLeaf = [(10#64, 1#64), (20#64, 2#64), (30#64, 3#64)] := by decide
example : PageOk 4 exFull ∧ leafBit 4 exFull = true ∧ pidW 4 exFull = 77#64 := by decide
/-- `tie_set_returns` / `tie_set_ins`: an insertion in the middle (moveRight) … -/
example : nodeSet 4 (ents 4 exLeaf) 15#64 9#64 = some ([(10#64, 1#64), (15#64, 9#64), (20#64, 2#64), (30#64, 3#64)], 1) ∧
    Gen.Node.set exLeaf (w 4) 15#64 9#64 =
      some (#[10#64, 1#64, 15#64, 9#64, 20#64, 2#64, 30#64, 3#64, 77#64, 9223372036854775812#64], 1#64) := by decide
/-- … `tie_set_panics`: the full-node assertion … -/
example : nodeSet 4 (ents 4 exFull) 25#64 9#64 = none ∧ search (ents 4 exFull) 25#64 < 4 ∧
    Gen.Node.set exFull (w 4) 25#64 9#64 = none := by decide
/-- … `tie_search` through `simd.Search` (four keys), `tie_get`, `tie_maxKey` … -/
example : Gen.Node.search exFull (w 4) 25#64 = some 2#64 ∧ Gen.Node.get exFull (w 4) 30#64 = some 3#64 ∧
    Gen.Node.maxKey exFull (w 4) = some 40#64 := by decide
/-- … `tie_compact`: values below 3 go, the max key would stay as a placeholder. -/
example : (nodeCompact id (fun _ => 0#64) (ents 4 exFull) 3#64) = ([(30#64, 3#64), (40#64, 4#64)], 2) ∧
    Gen.Node.compact exFull (w 4) 3#64 =
      some (#[30#64, 3#64, 40#64, 4#64, 0#64, 0#64, 0#64, 0#64, 77#64, 9223372036854775810#64], 2#64) ∧
    Gen.Node.compact exFull (w 4) 5#64 =
      some (#[40#64, 0#64, 0#64, 0#64, 0#64, 0#64, 0#64, 0#64, 77#64, 9223372036854775809#64], 0#64) := by decide

/-- `tie_iterate`: a callback that marks the value of every slot it is given. -/
example : Gen.Node.iterate exLeaf (w 4) (fun q i => Gen.wr q (Gen.Tree.valOffset i) 99#64) =
    some #[10#64, 99#64, 20#64, 99#64, 30#64, 99#64, 0#64, 0#64, 77#64, 9223372036854775811#64] := by decide

/-- Why `tie_set_panics` needs `search < maxKeys`, and why the model's `nodeSet` refuses
`idx ≥ maxKeys`: on a FULL node, a key above every stored key makes `n.key(idx)` read the page-id
word; if that word happens to equal `k`, the assertion passes and `setAt(valOffset(maxKeys), v)`
overwrites the META word (count and kind bits).  Not reachable through `Tree.Set`: leaves are
split before they are full, and for inner nodes `Tree.set` panics on `idx >= maxKeys` first. -/
theorem tie_set_full_pageid_counterexample :
    PageOk 4 exFull ∧ nodeSet 4 (ents 4 exFull) 77#64 5#64 = none ∧
    ∃ p', Gen.Node.set exFull (w 4) 77#64 5#64 = some (p', 0#64) ∧ metaW 4 p' = 5#64 ∧ ¬ PageOk 4 p' :=
  ⟨by decide, by decide,
    #[10#64, 1#64, 20#64, 2#64, 30#64, 3#64, 40#64, 4#64, 77#64, 5#64], by decide, by decide, by decide⟩

end RV.TieNode
