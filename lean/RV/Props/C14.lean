import RV.Proofs.CacheTTLLiveG
/-!
# C14 — Expiry processing reclaims exactly the expired items, each once

Model: `RV/Model/Cache.lean`; the sweep is the applier path `apTick` (grab the buckets
`lastCleaned < b ≤ cleanupBucket(clock)` out of the index) → `apSweep` (pick a key of the grabbed
buckets) → `apSwKey` (`store.DelExpired(key, conflict, now)`: check **and** delete in one step) →
`apSwStoreDel` (`policy.Del`) → `apSwPolDel` (`OnEvict`, `OnExit`).  It mirrors /repo after the
repair of findings F4 and F5.

Safety (every reachable state, every interleaving):
* `c14_only_expired_step`, `c14_only_expired`, `c14_not_expired_kept`, `c14_evicted_value_expired`,
  `f4_f5_regression_examples`.
Registration (every run from `init`, every interleaving, sane times):
* `registered_inv` — every stored entry with a TTL is registered, with its conflict, in a bucket that is
  still ahead of the sweep (its own bucket, or `lastCleaned + 1` for a late arrival: the repair of F6),
  or is held by the running sweep.  `f6_regression_example`: the former F6 witness run now ends with the
  late item reclaimed by the next sweep.
Liveness (step-indexed: one complete sweep, from the applier's tick step to its return to idle; premise:
the entry is resident with a TTL, the sweep's clock covers its bucket and at least one new bucket):
* `c14_reclaimed_partial` — with arbitrary interleaved client steps that leave `k`'s entry alone: `k` is
  removed from store and policy, one `evict` for `k` directly followed by `exit v`.  (`_partial`: no claim
  about the index in the interleaved case.)
* `c14_reclaimed_isolated` — applier steps only: additionally the registration bucket is gone from the index.
-/
namespace RV.C14
open RV RV.Cache Gen.Cache

/-! ## Safety -/

/-- **The sweep's removal step.**  `DelExpired` either removes the *current* entry `e` of the key —
and then `e.exp ≠ zeroTime ∧ e.exp ≤ now` (`now` = the sweep's clock read), the index registration of
`e.exp` is dropped in the same step and the applier goes on to release the cost and report
`(e.value, e.exp)` — or it changes nothing at all (store, index, policy untouched). -/
theorem c14_only_expired_step (s : State) (now : Time) (k : Hash) (c : Conf) (bs : List (AMap Hash Conf)) :
    (∃ e, s.store.lookup k = some e ∧ e.exp ≠ Gen.zeroTime ∧ e.exp ≤ now ∧
        sweepConflictMismatch c e.conflict = false ∧
        apSwKey s now k c bs =
          { s with store := s.store.erase k, em := s.em.del k e.exp, app := .swStoreDel now k c e.exp e.value bs }) ∨
    apSwKey s now k c bs = { s with app := .sweep now bs } :=
  apSwKey_cases s now k c bs

/-- **`c14_only_expired`.**  In every reachable state: the clock read `now` of a running sweep is ≤ the
clock; and while the applier holds an entry it has just removed by expiry (between `DelExpired`,
`policy.Del` and `OnEvict`), that entry's expiration `expr` — the one *currently* attached to the key at
the removal step, by `c14_only_expired_step` — satisfies `expr ≠ zeroTime ∧ expr ≤ now ≤ clock`. -/
theorem c14_only_expired {cfg : Cfg} {s : State} (hr : Reach cfg s) :
    (∀ now bs, s.app = .sweep now bs → now ≤ s.clock) ∧
    (∀ now k c bs, s.app = .swKey now k c bs → now ≤ s.clock) ∧
    (∀ now k c expr v bs, s.app = .swStoreDel now k c expr v bs → expr ≠ Gen.zeroTime ∧ expr ≤ now ∧ now ≤ s.clock) ∧
    (∀ now k c expr cost v bs, s.app = .swPolDel now k c expr cost v bs →
      expr ≠ Gen.zeroTime ∧ expr ≤ now ∧ now ≤ s.clock) := by
  have h := sweepOk_reach hr
  refine ⟨fun now bs hpc => ?_, fun now k c bs hpc => ?_, fun now k c expr v bs hpc => ?_,
    fun now k c expr cost v bs hpc => ?_⟩ <;> rw [hpc] at h
  · exact h
  · exact h
  · exact ⟨h.2.1, h.2.2, h.1⟩
  · exact ⟨h.2.1, h.2.2, h.1⟩

/-- **Entries without TTL, or re-written with a later (or no) TTL, are never removed by expiry
processing** — whatever happened before (grab, earlier checks, re-writes racing with the sweep): if,
when the sweep reaches its `DelExpired` step for key `k`, the entry currently stored under `k` has no
expiration or one after the current clock, the step changes neither store nor index nor policy. -/
theorem c14_not_expired_kept {cfg : Cfg} {s : State} (hr : Reach cfg s) {now : Time} {k : Hash} {c : Conf}
    {bs : List (AMap Hash Conf)} (hpc : s.app = .swKey now k c bs) {e : Entry}
    (hl : s.store.lookup k = some e) (h : e.exp = Gen.zeroTime ∨ s.clock < e.exp) :
    apSwKey s now k c bs = { s with app := .sweep now bs } := by
  have hn := (c14_only_expired hr).2.1 now k c bs hpc
  refine apSwKey_keeps hl ?_
  rcases h with h | h
  · exact Or.inl h
  · exact Or.inr (Int.lt_of_le_of_lt hn h)

/-- **What the sweep reports through `OnEvict`/`OnExit` has really expired.**  At the callback step of
the sweep (`apSwPolDel`: logs `evict k c v cost` then `exit v`), under `Fresh`, the expiration instant
`exp` of the `SetWithTTL` call that supplied `v` (its `setExp` event) is set and has passed. -/
theorem c14_evicted_value_expired {cfg : Cfg} {s : State} (hr : Reach cfg s) (hf : Fresh s.log)
    {now : Time} {k : Hash} {c : Conf} {expr : Time} {cost : Int} {v : Val} {bs : List (AMap Hash Conf)}
    (hpc : s.app = .swPolDel now k c expr cost v bs) :
    (apSwPolDel s now k c cost v bs).log = .exit v :: .evict k c v cost :: s.log ∧
    (∃ t, Ev.setExp t v expr ∈ s.log) ∧
    ∀ t exp, Ev.setExp t v exp ∈ s.log → exp ≠ Gen.zeroTime ∧ exp ≤ now ∧ now ≤ s.clock := by
  obtain ⟨hz, hle, hn⟩ := (c14_only_expired hr).2.2.2 now k c expr cost v bs hpc
  have hlg : ∃ t, Ev.setExp t v expr ∈ s.log := by
    rcases expInv_reach hr (v, expr) (.app (by rw [hpc]; simp [apcCar])) with ⟨_, h0⟩ | h
    · exact absurd h0 hz
    · exact h
  refine ⟨by simp [apSwPolDel, cbEvict, logEv], hlg, fun t exp hset => ?_⟩
  obtain ⟨t', ht'⟩ := hlg
  have : exp = expr := (uniq_reach hr hf).uniq t t' v exp expr hset ht'
  subst this
  exact ⟨hz, hle, hn⟩

/-! ## The repaired races (findings F4 and F5), as concrete runs -/

def exCfg : Cfg :=
  { bufCap := 4, ignoreInternal := true, costFn := none, shouldUpdate := none, metricsOn := false, maxCost := 100 }

/-- `SetWithTTL(1, 7, cost 1, ttl 1s)` at clock 0 (expiration 1 s, bucket 1), applied and admitted -/
def exSet : List Action :=
  [.spawn 0 (.set 1#64 0#64 7 1 1000000000), .client 0 .none, .client 0 .none, .client 0 .none, .client 0 .none,
   .applier .selItem, .applier .none, .applier (.add [] true), .applier .none]

/-- a client re-writes key 1 with value 8 and the given ttl, up to and including `store.Update` -/
def exRewrite (ttl : Int) : List Action :=
  [.spawn 1 (.set 1#64 0#64 8 1 ttl), .client 1 .none, .client 1 .none]

/-- **`f4_f5_regression_examples`.**
F4: at 10 s the sweep grabs bucket 1 (holding key 1); *then* key 1 is re-written without TTL; the sweep
reaches the key: it is **kept** (old code: deleted, because `zeroTime.After(now)` is false).
F5: the sweep grabs the bucket and picks key 1 (where the old code did its expiry check); *then* key 1 is
re-written with ttl 1 h; the sweep's delete step comes: the entry is **kept** (old code: deleted). -/
theorem f4_f5_regression_examples :
    ((run exCfg (init exCfg 0)
        (exSet ++ [.tick 10000000000, .applier .selTick, .applier .none] ++ exRewrite 0 ++
          [.applier (.key 1#64), .applier .none])).map fun s => s.store.lookup 1#64)
      = some (some ⟨0#64, 8, Gen.zeroTime⟩) ∧
    ((run exCfg (init exCfg 0)
        (exSet ++ [.tick 10000000000, .applier .selTick, .applier .none, .applier (.key 1#64)] ++
          exRewrite 3600000000000 ++ [.applier .none])).map fun s => s.store.lookup 1#64)
      = some (some ⟨0#64, 8, 3610000000000⟩) := by
  decide

/-- non-vacuity of the safety statements: the same sweep without a re-write does remove the entry, and
reports `(7, cost 1)` once. -/
example :
    ((run exCfg (init exCfg 0)
        (exSet ++ [.tick 10000000000, .applier .selTick, .applier .none, .applier (.key 1#64), .applier .none,
          .applier .none, .applier .none, .applier .none])).map
      fun s => (s.store.lookup 1#64, s.pol.costs.lookup 1#64, s.pol.used, s.log.take 2))
      = some (none, none, 0, [.exit 7, .evict 1#64 0#64 7 1]) := by
  decide

/-! ## Registration in the expiry index -/

/-- **`registered_inv`.**  Along every run from the initial state (created at clock `now0`), for sane
times: every stored entry with a TTL is
* registered in the index with its conflict in some bucket `b'` that is still ahead of the sweep
  (`lastCleaned < b'`), where `b'` is `bucketOf e.exp`, or — for an entry that was applied after its own
  bucket had been cleaned up — `lastCleaned + 1`, the next bucket to be cleaned up (`bucketOf e.exp ≤ b'`
  in both cases): the next sweep that covers `b'` visits the key; or
* its bucket has been grabbed by the sweep that is running right now (clock read `now`), which still
  has the key in its todo list (or is at it).
The statement is existential in `b'` and therefore tolerates stale index entries of the key in other
buckets (`Em.del`/`Em.update` look the key up under `bucketOf oldExp` only); the sweep's `DelExpired`
re-checks the store (`c14_only_expired_step`).  The former third case (finding F6: registered in a bucket
`≤ lastCleaned`) is gone. -/
theorem registered_inv {cfg : Cfg} {now0 : Time} {acts : List Action} {s : State}
    (hrun : run cfg (init cfg now0) acts = some s) (h0 : TimeOk now0) (h1 : TimeOk s.clock)
    {k : Hash} {e : Entry} (hl : s.store.lookup k = some e) (hz : e.exp ≠ Gen.zeroTime) (he : TimeOk e.exp) :
    (∃ b', s.em.lastCleaned < b' ∧ bucketOf e.exp ≤ b' ∧
        (b' = bucketOf e.exp ∨ b' = s.em.lastCleaned + 1) ∧
        ∃ m, s.em.buckets.lookup b' = some m ∧ m.lookup k = some e.conflict) ∨
    (∃ now, Todo k e.conflict now s.app ∧ bucketOf e.exp ≤ cleanupOf now ∧ now ≤ s.clock) := by
  rcases ((regInv_run h0 hrun).2 h1).2 k e hl hz with ⟨b', a, b, _, c, d⟩ | ⟨now, _, b, c, d⟩ | h
  · exact Or.inl ⟨b', a, b, c, d⟩
  · exact Or.inr ⟨now, d, c, b⟩
  · exact absurd h (lost_impossible h0 h1 he)

def apIsTick : APc → Bool | .tick => true | _ => false

/-- `SetWithTTL(1, 7, cost 1, ttl 1s)` at clock 0, up to the item sitting in the write buffer -/
def exSetBuffered : List Action :=
  [.spawn 0 (.set 1#64 0#64 7 1 1000000000), .client 0 .none, .client 0 .none, .client 0 .none, .client 0 .none]

/-- a complete (empty) sweep: tick, grab, nothing to do -/
def exEmptySweep : List Action := [.applier .selTick, .applier .none, .applier .none]

/-- the former F6 witness up to the late application of the item: it waits in the write buffer while the
sweep at 10 s passes over its bucket 1 (`lastCleaned := 2`) and is applied afterwards -/
def exF6Late : List Action :=
  exSetBuffered ++ [.tick 10000000000] ++ exEmptySweep ++
    [.applier .selItem, .applier .none, .applier (.add [] true), .applier .none]

/-- **`f6_regression_example`** (finding F6, repaired).  The late item (expiration 1 s, bucket 1 ≤
`lastCleaned = 2`) is now registered in bucket 3 = `lastCleaned + 1`; the next sweep (at 100 s, covering
buckets 3…20) visits key 1 and reclaims it: gone from the store, cost released, reported once. -/
theorem f6_regression_example :
    ((run exCfg (init exCfg 0) exF6Late).map fun s =>
        (s.store.lookup 1#64, s.pol.used, (s.em.buckets.lookup 1).isNone && s.em.lastCleaned == 2,
         (s.em.buckets.lookup 3).map (fun m => m.lookup 1#64)))
      = some (some ⟨0#64, 7, 1000000000⟩, 1, true, some (some 0#64)) ∧
    ((run exCfg (init exCfg 0)
        (exF6Late ++ [.tick 90000000000, .applier .selTick, .applier .none, .applier (.key 1#64), .applier .none,
          .applier .none, .applier .none, .applier .none])).map fun s =>
        ((s.store.lookup 1#64).isNone && (s.pol.costs.lookup 1#64).isNone && APc.isIdle s.app && s.em.lastCleaned == 20,
         s.pol.used, s.log.take 2))
      = some (true, 0, [.exit 7, .evict 1#64 0#64 7 1]) := by
  decide

/-! ## Liveness -/

/-- an applier-only run none of whose steps starts at `idle` is a `runSweep` -/
theorem runSweep_of_run {cfg : Cfg} {s s' : State} {chs : List Choice}
    (hrun : run cfg s (chs.map .applier) = some s')
    (hbusy : ∀ i, i < chs.length → ∀ si, run cfg s ((chs.take i).map .applier) = some si → si.app ≠ .idle) :
    runSweep cfg s chs = some s' := by
  induction chs generalizing s with
  | nil => simpa [runSweep, run] using hrun
  | cons ch rest ih =>
    have h0 : s.app ≠ .idle := hbusy 0 (by simp) s (by simp [run])
    simp only [List.map_cons, run, step] at hrun
    unfold runSweep
    cases hs : applierStep cfg s ch with
    | none => simp [hs] at hrun
    | some s1 =>
      simp only [hs] at hrun
      have := ih hrun (fun i hi si hsi => hbusy (i + 1) (by simp; omega) si
        (by simp only [List.take_succ_cons, List.map_cons, run, step, hs]; exact hsi))
      split
      · rename_i hidle; exact absurd hidle h0
      · exact this

/-- where a resident entry with a TTL is registered when the applier is about to sweep, and that the sweep
covers that bucket as soon as it covers the entry's own bucket and at least one new bucket -/
theorem registration_at_tick {cfg : Cfg} {now0 : Time} {pre : List Action} {s : State} {k : Hash} {e : Entry}
    (hpre : run cfg (init cfg now0) pre = some s) (h0 : TimeOk now0) (hclk : TimeOk s.clock)
    (hpc : s.app = .tick) (hst : s.store.lookup k = some e) (hz : e.exp ≠ Gen.zeroTime) (hexp : TimeOk e.exp)
    (hcov : bucketOf e.exp ≤ cleanupOf s.clock) (hadv : s.em.lastCleaned < cleanupOf s.clock) :
    ∃ b' m, BucketOk b' ∧ bucketOf e.exp ≤ b' ∧ s.em.buckets.lookup b' = some m ∧ m.lookup k = some e.conflict ∧
      LcOk s.em.lastCleaned ∧ s.em.lastCleaned < b' ∧ b' ≤ cleanupOf s.clock := by
  have hbody := (regInv_run h0 hpre).2 hclk
  rcases hbody.2 k e hst hz with ⟨b', a, b, c, d, m, f, g⟩ | ⟨now, _, _, _, d⟩ | h
  · refine ⟨b', m, c, b, f, g, hbody.lcOk h0 hclk, a, ?_⟩
    rcases d with d | d
    · rw [d]; exact hcov
    · rw [d]; omega
  · rw [hpc] at d; simp [Todo] at d
  · exact absurd h (lost_impossible h0 hclk hexp)

/-- **`c14_reclaimed_isolated`** (liveness; the sweep run in isolation).  Take any run from the initial
state to a state `s` where the applier is at its tick step (`apTick`); the store holds `e` under `k` and
`e` has a TTL; the sweep's clock covers the entry's bucket (`bucketOf e.exp ≤ cleanupBucket(clock)`:
the expiration lies at least one bucket period back) and at least one bucket that has not been cleaned
yet (`lastCleaned < cleanupBucket(clock)`); times are sane.  Run applier steps only, none of them
starting at `idle`, until the applier is back at `idle`.  Then `k` is gone from the store and from the
policy's cost table (its capacity is released), the bucket `b'` it was registered in is gone from the
index, and during this run exactly one `OnEvict` for `k` was emitted — `evict k _ e.value _` directly
followed by `exit e.value`.  No premise about where or when the entry was registered: late arrivals are
covered since the repair of F6. -/
theorem c14_reclaimed_isolated {cfg : Cfg} {now0 : Time} {pre : List Action} {s s' : State} {k : Hash} {e : Entry}
    {chs : List Choice}
    (hpre : run cfg (init cfg now0) pre = some s) (h0 : TimeOk now0) (hclk : TimeOk s.clock)
    (hpc : s.app = .tick) (hst : s.store.lookup k = some e) (hz : e.exp ≠ Gen.zeroTime) (hexp : TimeOk e.exp)
    (hcov : bucketOf e.exp ≤ cleanupOf s.clock) (hadv : s.em.lastCleaned < cleanupOf s.clock)
    (hrun : run cfg s (chs.map .applier) = some s')
    (hbusy : ∀ i, i < chs.length → ∀ si, run cfg s ((chs.take i).map .applier) = some si → si.app ≠ .idle)
    (hidle : s'.app = .idle) :
    s'.store.lookup k = none ∧ s'.pol.costs.lookup k = none ∧
    (∃ b' m, bucketOf e.exp ≤ b' ∧ s.em.buckets.lookup b' = some m ∧ m.lookup k = some e.conflict ∧
      s'.em.buckets.lookup b' = none) ∧
    evictCount k s'.log = evictCount k s.log + 1 ∧
    ∃ l1 l2 c cost, s'.log = l1 ++ .exit e.value :: .evict k c e.value cost :: l2 := by
  obtain ⟨b', m, hbok, hle, hreg, hregk, hlc, hnew, hcov'⟩ :=
    registration_at_tick hpre h0 hclk hpc hst hz hexp hcov hadv
  have h := sweep_reclaims hpc hst hz hbok hle hreg hregk hlc hnew hcov' hexp hclk (runSweep_of_run hrun hbusy) hidle
  exact ⟨h.store, h.pol, ⟨b', m, hle, hreg, hregk, h.em⟩, h.once, h.cb⟩

/-- **`c14_reclaimed_partial`** (liveness; any interleaving).  Same premises as `c14_reclaimed_isolated`
(a run from the initial state to a state with the applier at its tick step; `e` resident under `k` with a
TTL; the sweep's clock covers the entry's bucket and at least one new bucket; sane times).  Consider ANY
run segment from there (`SweepSeg`: first the tick step, then applier steps interleaved with arbitrary
spawn / client / tick steps of any number of threads) up to the applier's return to `idle`, during which
no non-applier step changes the store's entry of `k` (`k` is not re-written or deleted by clients).
Then `k` is gone from the store and from the policy's cost table (its capacity is released), and during
the segment exactly one `OnEvict` for `k` was emitted — `evict k _ e.value _` directly followed by
`exit e.value`.  `_partial`: nothing is claimed about the index here (clients may re-create the bucket for
other keys, and a stale index entry of `k` may survive in a clamped bucket);
`c14_reclaimed_isolated` has the index clause. -/
theorem c14_reclaimed_partial {cfg : Cfg} {now0 : Time} {pre : List Action} {s s' : State} {k : Hash} {e : Entry}
    {ch : Choice} {acts : List Action}
    (hpre : run cfg (init cfg now0) pre = some s) (h0 : TimeOk now0) (hclk : TimeOk s.clock)
    (hpc : s.app = .tick) (hst : s.store.lookup k = some e) (hz : e.exp ≠ Gen.zeroTime) (hexp : TimeOk e.exp)
    (hcov : bucketOf e.exp ≤ cleanupOf s.clock) (hadv : s.em.lastCleaned < cleanupOf s.clock)
    (hseg : SweepSeg cfg k s (.applier ch :: acts) s') (hidle : s'.app = .idle) :
    s'.store.lookup k = none ∧ s'.pol.costs.lookup k = none ∧
    evictCount k s'.log = evictCount k s.log + 1 ∧
    ∃ l1 l2 c cost, s'.log = l1 ++ .exit e.value :: .evict k c e.value cost :: l2 := by
  obtain ⟨b', m, hbok, hle, hreg, hregk, hlc, hnew, hcov'⟩ :=
    registration_at_tick hpre h0 hclk hpc hst hz hexp hcov hadv
  have h := sweep_reclaims_interleaved ⟨now0, pre, hpre⟩ hpc hst hz hbok hle hreg hregk hlc hnew hcov' hexp hclk hseg hidle
  exact ⟨h.store, h.pol, h.once, h.cb⟩

/-- non-vacuity of the liveness theorems: the premises hold in the state reached by `exSet`, a tick to
10 s and the applier's `selTick`; the sweep `[none, key 1, none, none, none, none]` returns to idle. -/
example :
    ((run exCfg (init exCfg 0) (exSet ++ [.tick 10000000000, .applier .selTick])).map fun s =>
      (apIsTick s.app, s.store.lookup 1#64, decide (bucketOf 1000000000 ≤ cleanupOf s.clock),
       decide (s.em.lastCleaned < cleanupOf s.clock)))
      = some (true, some ⟨0#64, 7, 1000000000⟩, true, true) := by
  decide

/-- … and in the late-arrival state of the former F6 witness (tick to 100 s, `selTick`) as well. -/
example :
    ((run exCfg (init exCfg 0) (exF6Late ++ [.tick 90000000000, .applier .selTick])).map fun s =>
      (apIsTick s.app, s.store.lookup 1#64, decide (bucketOf 1000000000 ≤ cleanupOf s.clock),
       decide (s.em.lastCleaned < cleanupOf s.clock)))
      = some (true, some ⟨0#64, 7, 1000000000⟩, true, true) := by
  decide

/-- non-vacuity of `c14_reclaimed_partial`: from that state, a segment in which a second client writes key 2
(`SetWithTTL(2, 9, …, 1 h)`, up to its buffer send) and the clock advances *while* the sweep runs is a
`SweepSeg` for key 1, ends with the applier at idle, key 1 reclaimed and reported once. -/
example :
    ((run exCfg (init exCfg 0) (exSet ++ [.tick 10000000000, .applier .selTick])).bind fun s =>
      let seg : List Action :=
        [.applier .none, .spawn 1 (.set 2#64 0#64 9 1 3600000000000), .applier (.key 1#64), .client 1 .none,
         .applier .none, .tick 5, .client 1 .none, .applier .none, .client 1 .none, .applier .none, .applier .none]
      (run exCfg s seg).map fun s' =>
        (segOk exCfg 1#64 s seg && APc.isIdle s'.app && (s'.store.lookup 1#64).isNone &&
          (s'.pol.costs.lookup 1#64).isNone, evictCount 1#64 s'.log, s'.buf.length))
      = some (true, 1, 1) := by
  decide

end RV.C14
