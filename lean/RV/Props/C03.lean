import RV.Proofs.PolicyAdd
/-!
# C03 — Admissions never push the accounted cost above MaxCost (policy level)

Theorems about the sequential policy model `RV.Policy.Pol` (policy.go under the policy
mutex), for **every** frequency estimator `est` and **every** choice `enums` of map
enumerations.  All comparisons and the arithmetic of `Add`, `roomLeft`, `Cap`,
`updateIfHas` are the kernels regenerated from policy.go (`Gen.Policy.*`), connected to
`Int` arithmetic by `RV/Proofs/PolicyBridge.lean` under the explicit no-overflow hypothesis
`Pol.NoOvf` (Σ|accounted costs| + |cost| + |maxCost| < 2^63; finding F9 lives outside it).

`used = Σ keyCosts` (`Pol.wf`) *is* "RemainingCost() = MaxCost − Σ accounted costs":
`cap_eq`.  The cache-level parts of C03 (cost pre-processing with `itemSize`, "whenever
buffered writes have drained") are stated over the Cache model, which imports this file.
-/
namespace RV.C03
open RV.Policy

/-- no-overflow side condition of one operation -/
def StepNoOvf (p : Pol) : Pol.Op → Prop
  | .add _ _ _ cost => p.NoOvf cost
  | .update _ cost => p.NoOvf cost
  | .del _ => p.NoOvf 0
  | .clear => True
  | .setMaxCost _ => True

/-- The freshly built policy is well-formed. -/
theorem pol_wf_empty (m : Int) : (Pol.empty m).wf := Pol.wf_empty m

/-- `pol_wf`: no key is accounted twice and `used` is exactly the sum of the accounted costs,
after every operation, for every estimator and every enumeration choice. -/
theorem pol_wf (p : Pol) (op : Pol.Op) (hwf : p.wf) (hno : StepNoOvf p op) : (p.step op).wf := by
  cases op with
  | add est enums key cost => exact addFull_wf est enums key hwf hno
  | del key => exact Pol.wf_del key hwf hno
  | update key cost => exact Pol.wf_updateIfHas key hwf hno
  | clear => exact Pol.wf_clear p
  | setMaxCost m => exact Pol.wf_setMaxCost m hwf

/-- `Cap() = MaxCost − Σ accounted costs`. -/
theorem cap_eq (p : Pol) (hwf : p.wf) (hno : p.NoOvf 0) : p.cap = p.maxCost - costSum p.keyCosts := by
  rw [Pol.cap_eq' hwf hno, hwf.2]

/-- An item whose cost exceeds MaxCost is never admitted; nothing changes and nobody is evicted. -/
theorem add_too_big (p : Pol) (est : Hash → Int) (enums : List (List KC)) (key : Hash) (cost : Int)
    (hc : I64 cost) (hm : I64 p.maxCost) (h : cost > p.maxCost) :
    p.add est enums key cost = (p, [], false) := by
  simp only [Pol.add, addFull_tooBig est enums key hc hm h]

/-- `Add` of a key that is already accounted is an update: never "admitted", no victims, the
accounted cost becomes `cost` and `used` moves by `cost − prev`. -/
theorem add_existing (p : Pol) (est : Hash → Int) (enums : List (List KC)) (key : Hash) (cost prev : Int)
    (hwf : p.wf) (hno : p.NoOvf cost) (h : ¬ cost > p.maxCost) (hl : lookup p.keyCosts key = some prev) :
    p.add est enums key cost = (p.update key cost, [], false) ∧
      (p.update key cost).used = p.used + (cost - prev) ∧ (p.update key cost).costOf key = cost ∧
      (p.update key cost).maxCost = p.maxCost := by
  have hr := Pol.ranges hwf hno
  refine ⟨?_, Pol.updateIfHas_used hwf hno hl, Pol.costOf_updateIfHas cost hl, Pol.updateIfHas_maxCost p key cost⟩
  simp only [Pol.add, addFull_existing est enums key hr.2.2.1 hr.2.1 h hl]

/-- **No overshoot**: whenever a key that was not accounted is admitted, the accounted cost
afterwards is at most MaxCost — for every estimator, every enumeration, every sign of the
costs. -/
theorem add_no_overshoot (p : Pol) (est : Hash → Int) (enums : List (List KC)) (key : Hash) (cost : Int)
    (hwf : p.wf) (hno : p.NoOvf cost) (hl : lookup p.keyCosts key = none)
    (hadm : (p.add est enums key cost).2.2 = true) :
    (p.add est enums key cost).1.used ≤ (p.add est enums key cost).1.maxCost ∧
      (p.add est enums key cost).1.costOf key = cost := by
  have h := (addFull_new_inv est enums key hwf hno hl).1
  simp only [Pol.add] at hadm ⊢
  exact ⟨h.fits hadm, by simp [Pol.costOf, h.has_new hadm]⟩

/-- **Evict first**: the state after `Add` of a key that is not accounted is the old state with
the victims deleted in the order they are returned and, only then and only if admitted, the
newcomer added. -/
theorem evict_first (p : Pol) (est : Hash → Int) (enums : List (List KC)) (key : Hash) (cost : Int)
    (hl : lookup p.keyCosts key = none) :
    (p.add est enums key cost).1 =
      if (p.add est enums key cost).2.2
      then (delAll p (p.add est enums key cost).2.1).evictAdd key cost
      else delAll p (p.add est enums key cost).2.1 := by
  simp only [Pol.add]
  unfold Pol.addFull
  split
  · simp [delAll]
  · rw [Pol.updateIfHas_none cost hl]
    simp only
    split
    · simp [delAll]
    · exact loop_pol_eq _ _ _ _ _ _ _

/-! ### the run-level statement -/

/-- `cost` does not raise the accounted cost of `key` (vacuous when `key` is not accounted) -/
def NoRaise (p : Pol) (key : Hash) (cost : Int) : Prop :=
  match lookup p.keyCosts key with
  | some prev => cost ≤ prev
  | none => True

instance (p : Pol) (key : Hash) (cost : Int) : Decidable (NoRaise p key cost) := by
  unfold NoRaise; split <;> infer_instance

theorem NoRaise.le {p : Pol} {key : Hash} {cost prev : Int} (h : NoRaise p key cost)
    (hl : lookup p.keyCosts key = some prev) : cost ≤ prev := by
  unfold NoRaise at h; rw [hl] at h; exact h

/-- An operation that neither raises the cost of an accounted key nor lowers MaxCost, with
non-negative `int64` costs.  (`Add` of an accounted key is an overwrite.) -/
def Benign (p : Pol) : Pol.Op → Prop
  | .add _ _ key cost => 0 ≤ cost ∧ cost < 2 ^ 63 ∧ NoRaise p key cost
  | .update key cost => 0 ≤ cost ∧ NoRaise p key cost
  | .del _ => True
  | .clear => True
  | .setMaxCost m => p.maxCost ≤ m ∧ m < 2 ^ 61

instance (p : Pol) (op : Pol.Op) : Decidable (Benign p op) := by
  cases op <;> (unfold Benign; infer_instance)

/-- every operation of the run is benign in the state in which it is applied -/
def BenignRun : Pol → List Pol.Op → Prop
  | _, [] => True
  | p, op :: ops => Benign p op ∧ BenignRun (p.step op) ops

instance : (p : Pol) → (ops : List Pol.Op) → Decidable (BenignRun p ops)
  | _, [] => by unfold BenignRun; infer_instance
  | p, op :: ops =>
    have := instDecidableBenignRun (p.step op) ops
    by unfold BenignRun; infer_instance

structure Good (p : Pol) : Prop where
  wf : p.wf
  nonneg : NonNeg p.keyCosts
  le : p.used ≤ p.maxCost
  m0 : 0 ≤ p.maxCost
  mb : p.maxCost < 2 ^ 61

theorem Good.noOvf {p : Pol} (h : Good p) {c : Int} (h0 : 0 ≤ c) (hc : c ≤ p.maxCost) : p.NoOvf c := by
  have h1 := absSum_eq_costSum h.nonneg
  have h2 := h.wf.2
  have h3 := h.le
  have h4 := h.mb
  have h5 := h.m0
  unfold Pol.NoOvf
  omega

theorem Good.update {p : Pol} (h : Good p) (key : Hash) {cost : Int} (h0 : 0 ≤ cost)
    (hnr : NoRaise p key cost) : Good (p.update key cost) := by
  have hle : ∀ prev, lookup p.keyCosts key = some prev → cost ≤ prev := fun _ hl => hnr.le hl
  cases hl : lookup p.keyCosts key with
  | none => simp only [Pol.update, Pol.updateIfHas_none cost hl]; exact h
  | some prev =>
    have hp : prev ≤ p.maxCost := by
      have h1 := natAbs_le_absSum (lookup_some_mem hl)
      have h2 := absSum_eq_costSum h.nonneg
      have h3 := h.wf.2
      have h4 := h.le
      simp only at h1; omega
    have hno : p.NoOvf cost := h.noOvf h0 (by have := hle prev hl; omega)
    refine ⟨Pol.wf_updateIfHas key h.wf hno, ?_, ?_, ?_, ?_⟩
    · simp only [Pol.update, Pol.updateIfHas_keyCosts cost hl]
      intro x hx
      rcases List.mem_cons.1 hx with hx | hx
      · subst hx; exact h0
      · exact nonNeg_erase key h.nonneg x hx
    · simp only [Pol.update]
      rw [Pol.updateIfHas_used h.wf hno hl, Pol.updateIfHas_maxCost]
      have := hle prev hl; have := h.le; omega
    · simp only [Pol.update]; rw [Pol.updateIfHas_maxCost]; exact h.m0
    · simp only [Pol.update]; rw [Pol.updateIfHas_maxCost]; exact h.mb

theorem Good.step {p : Pol} (h : Good p) (op : Pol.Op) (hb : Benign p op) : Good (p.step op) := by
  cases op with
  | add est enums key cost =>
    obtain ⟨h0, hc, hle⟩ := hb
    have hI : I64 cost := by unfold I64; omega
    have hm : I64 p.maxCost := by have := h.m0; have := h.mb; unfold I64; omega
    by_cases hbig : p.maxCost < cost
    · simp only [Pol.step, Pol.add, addFull_tooBig est enums key hI hm hbig]; exact h
    · cases hl : lookup p.keyCosts key with
      | some prev =>
        simp only [Pol.step, Pol.add, addFull_existing est enums key hI hm hbig hl]
        exact h.update key h0 hle
      | none =>
        have hno := h.noOvf h0 (by omega : cost ≤ p.maxCost)
        obtain ⟨hinv, hmax⟩ := addFull_new_inv est enums key h.wf hno hl
        simp only [Pol.step, Pol.add]
        refine ⟨hinv.wf, hinv.nonneg h.nonneg h0, ?_, by rw [hmax]; exact h.m0, by rw [hmax]; exact h.mb⟩
        cases hadm : (p.addFull est enums key cost).admitted with
        | true => exact hinv.fits hadm
        | false => have := hinv.used_le h.nonneg hadm; have := h.le; omega
  | del key =>
    have hno := h.noOvf (Int.le_refl 0) h.m0
    refine ⟨Pol.wf_del key h.wf hno, nonNeg_del key h.nonneg, ?_, ?_, ?_⟩
    · simp only [Pol.step, Pol.del_maxCost]
      have := del_used_le key h.wf hno h.nonneg; have := h.le; omega
    · simp only [Pol.step, Pol.del_maxCost]; exact h.m0
    · simp only [Pol.step, Pol.del_maxCost]; exact h.mb
  | update key cost => exact h.update key hb.1 hb.2
  | clear =>
    refine ⟨Pol.wf_clear p, ?_, ?_, h.m0, h.mb⟩
    · intro x hx; simp [Pol.step, Pol.clear] at hx
    · simp only [Pol.step, Pol.clear]; exact h.m0
  | setMaxCost m =>
    refine ⟨Pol.wf_setMaxCost m h.wf, h.nonneg, ?_, ?_, hb.2⟩
    · simp only [Pol.step, Pol.setMaxCost]; have := h.le; have := hb.1; omega
    · simp only [Pol.step, Pol.setMaxCost]; have := h.m0; have := hb.1; omega

theorem Good.run {p : Pol} (h : Good p) (ops : List Pol.Op) (hb : BenignRun p ops) : Good (p.run ops) := by
  induction ops generalizing p with
  | nil => exact h
  | cons op ops ih =>
    simp only [Pol.run, List.foldl_cons]
    exact ih (h.step op hb.1) hb.2

/-- **RemainingCost ≥ 0 in every reachable state**: starting from the empty policy with
`0 ≤ MaxCost < 2^61`, after any sequence of `Add/Del/Update/Clear/UpdateMaxCost` — any
estimators, any enumeration choices, any number of steps, also `Add`s cut short — in which all
costs are non-negative, no overwrite raises an accounted cost and MaxCost is never lowered
(nor raised to 2^61 or more: the no-overflow hypothesis): `used ≤ maxCost`, `Cap() ≥ 0`, and
`used` is the sum of the accounted costs. -/
theorem c03_remaining_nonneg (m : Int) (h0 : 0 ≤ m) (hm : m < 2 ^ 61) (ops : List Pol.Op)
    (hb : BenignRun (Pol.empty m) ops) :
    ((Pol.empty m).run ops).used ≤ ((Pol.empty m).run ops).maxCost ∧
      0 ≤ ((Pol.empty m).run ops).cap ∧ ((Pol.empty m).run ops).wf := by
  have hg0 : Good (Pol.empty m) :=
    ⟨Pol.wf_empty m, by intro x hx; simp [Pol.empty] at hx, by simp only [Pol.empty]; exact h0, h0, hm⟩
  have hg := hg0.run ops hb
  refine ⟨hg.le, ?_, hg.wf⟩
  rw [Pol.cap_eq' hg.wf (hg.noOvf (Int.le_refl 0) hg.m0)]
  have := hg.le; omega

/-! ### non-vacuity -/

def exPol : Pol := { keyCosts := [(1#64, 4), (2#64, 5)], used := 9, maxCost := 10 }
def exEst : Hash → Int := fun k => if k = 3#64 then 2 else if k = 1#64 then 1 else 3

/-- `add_no_overshoot` / `evict_first`: the hypotheses hold and an eviction really happens -/
example : exPol.wf ∧ exPol.NoOvf 4 ∧ lookup exPol.keyCosts 3#64 = none ∧
    exPol.add exEst [[(1#64, 4), (2#64, 5)]] 3#64 4 =
      ({ keyCosts := [(3#64, 4), (2#64, 5)], used := 9, maxCost := 10 }, [(1#64, 4)], true) := by decide

/-- `add_too_big`, `add_existing` -/
example : exPol.add exEst [] 3#64 11 = (exPol, [], false) ∧
    exPol.add exEst [] 1#64 2 = ({ keyCosts := [(1#64, 2), (2#64, 5)], used := 7, maxCost := 10 }, [], false) := by
  decide

/-- a benign run with an eviction, a lowering update, a MaxCost raise, a rejected oversize item, a
delete and a clear -/
def exOps : List Pol.Op :=
  [.add exEst [] 1#64 4, .add exEst [] 2#64 5, .add exEst [[(1#64, 4), (2#64, 5)]] 3#64 4,
   .update 2#64 3, .setMaxCost 12, .add exEst [] 7#64 13, .del 3#64,
   .add exEst [] 5#64 6, .add exEst [[(5#64, 6), (2#64, 3)]] 6#64 5]

example : BenignRun (Pol.empty 10) exOps ∧
    (Pol.empty 10).run exOps = { keyCosts := [(6#64, 5), (2#64, 3)], used := 8, maxCost := 12 } := by decide

end RV.C03
