import RV.Proofs.TieBufferTop
/-!
# The sorter of z.Buffer, generated whole, agrees with the model on encoded runs (C11)

`rawSlice`, `sortHelper.sortSmall` (with the closure handed to `sort.Slice`), `sortHelper.merge`
(with its in-place loop, the closures `copyLeft`/`copyRight` expanded), the recursive
`sortHelper.sort`, `SortSliceBetween` and `SortSlice` are translated whole from z/buffer.go
(`RV/Gen/BufferM.lean`) and replayed on the traces by `Drive/BufferM.lean`.

The theorems are `_partial`: they carry the hypothesis under which C11's sort theorems speak about
the model at all — the two runs / the chunks are sequences of ENCODED slices (`encAll`), far from
`int` overflow — plus what the generated code additionally has as state: the temporary buffer
(`TmpInv`: well-formed, no size limit, capacity bounded by `C`) and the platform assumption `os.Ok`.
Under these the generated function succeeds, the model function succeeds, and the resulting
buffers are related by `abs`:

* `tie_rawSlice_partial`: the model's `rawSlice` succeeds on the bytes a window shows ⇒ the
  generated `rawSlice` returns the prefix window with those bytes;
* `tie_merge_partial`: generated `merge` = model `merge` on two adjacent encoded runs (ties: the
  right run first — `mergeSl`), the temporary buffer stays usable;
* `tie_sort_partial`: generated `sort(lo, hi)` = model `sortRec` over the chunk boundaries;
* `tie_sortSmall_partial`: generated `sortSmall` = model `sortSmall` on a chunk (`sort.Slice` is a
  parameter on both sides, `SortAgree`);
* `tie_SortSliceBetween_partial`, `tie_SortSlice_partial`: the whole sorter on a range of encoded
  slices; `tie_SortSliceBetween_empty` / `_startZero`: the empty range and the `start == 0` panic.
-/
namespace RV.TieBufferSort
open Gen.Buf Gen.BufferM RV.Buffer Gen.Buffer RV.TieBuffer

/-- Whenever the model's `rawSlice` succeeds on the visible bytes of a window, the generated
`rawSlice` returns the prefix window of that length, showing the same bytes. -/
theorem tie_rawSlice_partial (a : Array (BitVec 8)) (win : Win) (hw : WinOk a win) (hsz : a.size < 2 ^ 62) (r : Bytes)
    (hm : RV.Buffer.rawSlice (bytesOf a win).toList = .ok r) :
    Gen.BufferM.rawSlice a win = some ⟨win.lo, win.lo + r.length⟩ ∧
      (bytesOf a ⟨win.lo, win.lo + r.length⟩).toList = r :=
  ⟨(rawSlice_agree a win hw hsz r hm).1, (rawSlice_agree a win hw hsz r hm).2.1⟩

/-- `sortHelper.merge` on two adjacent encoded runs `L`, `R` at `[|pre|, …)`: the generated code
and the model both succeed, and the generated buffer abstracts to the model's result. -/
theorem tie_merge_partial (os : OS) (hos : os.Ok) (lessM : Bytes → Bytes → Bool) (C : Nat) (s : sortHelper)
    (pre post : Bytes) (L R : List Bytes)
    (hless : ∀ a b, s.less a b = lessM a.toList b.toList)
    (hbuf : s.b.buf.toList = pre ++ encAll L ++ encAll R ++ post)
    (hoff : pre.length + (encAll L).length + (encAll R).length ≤ s.b.offset.toNat)
    (hbs : s.b.buf.size < 2 ^ 62) (ht : TmpInv C s.tmp)
    (hC1 : 3 * (pre.length + (encAll L).length + (encAll R).length) + 24 ≤ C)
    (hC2 : C + C + (pre.length + (encAll L).length + (encAll R).length) +
      (pre.length + (encAll L).length + (encAll R).length) < 2 ^ 62) :
    ∃ s', Gen.BufferM.merge os s ⟨pre.length, pre.length + (encAll L).length⟩
        ⟨pre.length + (encAll L).length, pre.length + (encAll L).length + (encAll R).length⟩
        (w pre.length) (w (pre.length + (encAll L).length + (encAll R).length)) = some s' ∧
      RV.Buffer.merge lessM (abs s.b).data pre.length (pre.length + (encAll L).length)
        (pre.length + (encAll L).length + (encAll R).length) = .ok (abs s'.b).data ∧
      abs s'.b = { abs s.b with data := (abs s'.b).data } :=
  tie_merge_enc os hos lessM C s pre post L R hless hbuf hoff hbs ht hC1 hC2

/-- What the generated `merge` leaves, slice by slice: the merge with ties resolved to the right
run (`mergeSl`), nothing else touched, the temporary buffer still usable. -/
theorem tie_merge_result (os : OS) (hos : os.Ok) (lessM : Bytes → Bytes → Bool) (C : Nat) (s : sortHelper)
    (pre post : Bytes) (L R : List Bytes)
    (hless : ∀ a b, s.less a b = lessM a.toList b.toList)
    (hbuf : s.b.buf.toList = pre ++ encAll L ++ encAll R ++ post)
    (hbs : s.b.buf.size < 2 ^ 62) (ht : TmpInv C s.tmp)
    (hC1 : 3 * (pre.length + (encAll L).length + (encAll R).length) + 24 ≤ C)
    (hC2 : C + C + (pre.length + (encAll L).length + (encAll R).length) +
      (pre.length + (encAll L).length + (encAll R).length) < 2 ^ 62) :
    ∃ s' a, Gen.BufferM.merge os s ⟨pre.length, pre.length + (encAll L).length⟩
        ⟨pre.length + (encAll L).length, pre.length + (encAll L).length + (encAll R).length⟩
        (w pre.length) (w (pre.length + (encAll L).length + (encAll R).length)) = some s' ∧
      s'.b = { s.b with buf := a } ∧ a.toList = pre ++ encAll (mergeSl lessM L R) ++ post ∧
      s'.offsets = s.offsets ∧ s'.less = s.less ∧ s'.small = s.small ∧ TmpInv C s'.tmp :=
  merge_spec os hos lessM C s pre post L R hless hbuf hbs ht hC1 hC2

/-- `sortHelper.sort(lo, hi)` over the chunks `cs` (boundaries `start, start+|c₀|, …` in
`s.offsets`): generated code and model both succeed with related buffers. -/
theorem tie_sort_partial (os : OS) (hos : os.Ok) (lessM : Bytes → Bytes → Bool) (C : Nat) (cs : List (List Bytes)) (start : Nat)
    (hcs : cs.length < 2 ^ 61)
    (hC1 : 3 * (start + (encAll cs.flatten).length) + 24 ≤ C)
    (hC2 : C + C + (start + (encAll cs.flatten).length) + (start + (encAll cs.flatten).length) < 2 ^ 62)
    (fuel lo hi : Nat) (s : sortHelper) (pre post : Bytes)
    (hle : lo ≤ hi) (hhi : hi ≤ cs.length) (hf : hi - lo < fuel)
    (hpre : pre.length = start + (encAll (cs.take lo).flatten).length)
    (hbuf : s.b.buf.toList = pre ++ encAll ((cs.drop lo).take (hi - lo)).flatten ++ post)
    (hoff : pre.length + (encAll ((cs.drop lo).take (hi - lo)).flatten).length ≤ s.b.offset.toNat)
    (hinv : SortInv lessM C ((boundaries start cs).map w).toArray s) :
    ∃ s' win, Gen.BufferM.sort fuel os s (w lo) (w hi) = some (s', win) ∧
      sortRec lessM (boundaries start cs) fuel (abs s.b).data lo hi = .ok (abs s'.b).data ∧
      abs s'.b = { abs s.b with data := (abs s'.b).data } :=
  tie_sort_enc os hos lessM C cs start hcs hC1 hC2 fuel lo hi s pre post hle hhi hf hpre hbuf hoff hinv

/-- `sortHelper.sortSmall` on a chunk `Cn` of encoded slices at `[|pre|, …)`: `sort.Slice` is a
parameter on both sides (`sortG` on offsets, `sortM` on offset/slice pairs) that makes the same
choices whenever the comparisons agree (`SortAgree`, satisfied by every sort function that only
looks at its comparison, e.g. `insertion_agree`) and permutes (`SortContract`).  Generated code and
model both succeed with related buffers. -/
theorem tie_sortSmall_partial (os : OS) (hos : os.Ok) (lessM : Bytes → Bytes → Bool)
    (sortG : Gen.Buf.SortFn) (sortM : RV.Buffer.SortFn) (hsa : SortAgree sortG sortM) (sc : SortContract sortM)
    (C : Nat) (hC : C + C + C < 2 ^ 62) (s : sortHelper) (h : GWF s.b)
    (hless : ∀ a b, s.less a b = lessM a.toList b.toList)
    (pre post : Bytes) (Cn : List Bytes) (hCn : Cn ≠ [])
    (hbuf : s.b.buf.toList = pre ++ encAll Cn ++ post)
    (hoff : pre.length + (encAll Cn).length ≤ s.b.offset.toNat)
    (ht : TmpInv C s.tmp) (hC1 : 3 * (8 + (encAll Cn).length) ≤ C) :
    ∃ s', Gen.BufferM.sortSmall os sortG s (w pre.length) (w (pre.length + (encAll Cn).length)) = some s' ∧
      RV.Buffer.sortSmall sortM lessM (abs s.b) pre.length (pre.length + (encAll Cn).length) = .ok (abs s'.b) ∧
      s'.offsets = s.offsets ∧ s'.less = s.less ∧ TmpInv C s'.tmp := by
  obtain ⟨s', h1, h2, h3, h4, h5, _⟩ :=
    tie_sortSmall_enc os hos lessM sortG sortM hsa sc C hC s h hless pre post Cn hCn hbuf hoff ht hC1
  exact ⟨s', h1, h2, h3, h4, h5⟩

/-- `SortSliceBetween(start, end, less)` on a range that holds the encoded slices `S` (both ends on
slice boundaries, `start ≠ 0`, sizes below 2^56): the generated function and the model both succeed
and the resulting buffers are related by `abs`. -/
theorem tie_SortSliceBetween_partial (os : OS) (hos : os.Ok) (lessM : Bytes → Bytes → Bool)
    (lessG : Array (BitVec 8) → Array (BitVec 8) → Bool) (hless : ∀ a b, lessG a b = lessM a.toList b.toList)
    (sortG : Gen.Buf.SortFn) (sortM : RV.Buffer.SortFn) (hsa : SortAgree sortG sortM) (sc : SortContract sortM)
    (g : Buffer) (h : GWF g) (pre post : Bytes) (S : List Bytes)
    (hbuf : g.buf.toList = pre ++ encAll S ++ post)
    (hoff : pre.length + (encAll S).length ≤ g.offset.toNat)
    (hS : S ≠ []) (h0 : pre.length ≠ 0) (hsmall : pre.length + (encAll S).length < 2 ^ 56) :
    ∃ g', SortSliceBetween os sortG g (w pre.length) (w (pre.length + (encAll S).length)) lessG = some g' ∧
      sortSliceBetween sortM lessM (abs g) pre.length (pre.length + (encAll S).length) = .ok (abs g') :=
  tie_sortSliceBetween_enc os hos lessM lessG hless sortG sortM hsa sc g h pre post S hbuf hoff hS h0 hsmall

/-- `SortSlice(less)` on a buffer written with `WriteSlice`/`SliceAllocate` only. -/
theorem tie_SortSlice_partial (os : OS) (hos : os.Ok) (lessM : Bytes → Bytes → Bool)
    (lessG : Array (BitVec 8) → Array (BitVec 8) → Bool) (hless : ∀ a b, lessG a b = lessM a.toList b.toList)
    (sortG : Gen.Buf.SortFn) (sortM : RV.Buffer.SortFn) (hsa : SortAgree sortG sortM) (sc : SortContract sortM)
    (g : Buffer) (h : GWF g) (pre post : Bytes) (S : List Bytes)
    (hbuf : g.buf.toList = pre ++ encAll S ++ post)
    (hpad : pre.length = g.padding.toNat) (hoff : pre.length + (encAll S).length = g.offset.toNat)
    (hS : S ≠ []) (h0 : pre.length ≠ 0) (hsmall : pre.length + (encAll S).length < 2 ^ 56) :
    ∃ g', SortSlice os sortG g lessG = some g' ∧ sortSlice sortM lessM (abs g) = .ok (abs g') :=
  tie_sortSlice_enc os hos lessM lessG hless sortG sortM hsa sc g h pre post S hbuf hpad hoff hS h0 hsmall

/-- an empty or inverted range is left alone by both -/
theorem tie_SortSliceBetween_empty (os : OS) (sortG : Gen.Buf.SortFn) (sortM : RV.Buffer.SortFn)
    (lessM : Bytes → Bytes → Bool) (lessG : Array (BitVec 8) → Array (BitVec 8) → Bool) (g : Buffer)
    (start end_ : Nat) (hs : start < 2 ^ 62) (he : end_ < 2 ^ 62) (hle : end_ ≤ start) :
    SortSliceBetween os sortG g (w start) (w end_) lessG = some g ∧
      sortSliceBetween sortM lessM (abs g) start end_ = .ok (abs g) :=
  sortSliceBetween_empty_agree os sortG sortM lessM lessG g start end_ hs he hle

/-- `start == 0` with a non-empty range panics on both sides -/
theorem tie_SortSliceBetween_startZero (os : OS) (sortG : Gen.Buf.SortFn) (sortM : RV.Buffer.SortFn)
    (lessM : Bytes → Bytes → Bool) (lessG : Array (BitVec 8) → Array (BitVec 8) → Bool) (g : Buffer)
    (end_ : Nat) (he : end_ < 2 ^ 62) (hpos : 0 < end_) :
    SortSliceBetween os sortG g (w 0) (w end_) lessG = none ∧
      sortSliceBetween sortM lessM (abs g) 0 end_ = .error .startZero :=
  sortSliceBetween_zero_agree os sortG sortM lessM lessG g end_ he hpos

/-- the sort-function hypotheses of `tie_sortSmall_partial` are satisfiable -/
theorem sort_hyps_satisfiable : SortAgree insertionSortW insertionSort ∧ SortContract insertionSort :=
  ⟨insertion_agree, insertionSort_contract⟩

/-! ## the hypotheses are satisfiable: two one-slice runs `[2]`, `[1]` behind the 8 padding bytes -/

def lessEx (x y : Bytes) : Bool := (x.headD 0).toNat < (y.headD 0).toNat

def tmpEx : Buffer :=
  { padding := 8#64, offset := 8#64, buf := zeros 64, buf_nonnil := true, bufType := 0#64, curSz := 64#64,
    maxSz := 0#64, mmapFile := ⟨#[]⟩, mmapFile_nonnil := false, autoMmapAfter := 0#64 }

def bEx : Buffer :=
  { padding := 8#64, offset := 26#64,
    buf := blit (zeros 64) 8 #[0, 0, 0, 0, 0, 0, 0, 1, 2, 0, 0, 0, 0, 0, 0, 0, 1, 1],
    buf_nonnil := true, bufType := 0#64, curSz := 64#64,
    maxSz := 0#64, mmapFile := ⟨#[]⟩, mmapFile_nonnil := false, autoMmapAfter := 0#64 }

def sEx : sortHelper :=
  { offsets := #[8#64, 17#64, 26#64], b := bEx, tmp := tmpEx,
    less := fun a b => lessEx a.toList b.toList, small := #[] }

theorem bEx_wf : GWF bEx :=
  ⟨rfl, by simp [bEx], Or.inl rfl, ⟨by simp [abs, bEx], by decide, by decide, by decide, by decide, by decide⟩⟩

theorem tmpEx_inv : TmpInv 1000 tmpEx :=
  ⟨⟨rfl, by simp [tmpEx], Or.inl rfl, ⟨by simp [abs, tmpEx], by decide, by decide, by decide, by decide, by decide⟩⟩,
   rfl, by decide, by decide⟩

set_option maxRecDepth 10000 in
theorem sEx_buf : sEx.b.buf.toList =
    List.replicate 8 0 ++ encAll [[2]] ++ encAll [[1]] ++ List.replicate 38 0 := by rfl

set_option maxRecDepth 10000 in
example : (∀ a b, sEx.less a b = lessEx a.toList b.toList) ∧ TmpInv 1000 sEx.tmp ∧ GWF sEx.b ∧ sEx.b.buf.size < 2 ^ 62 ∧
    (List.replicate 8 (0 : BitVec 8)).length + (encAll [[2]]).length + (encAll [[1]]).length ≤ sEx.b.offset.toNat ∧
    3 * ((List.replicate 8 (0 : BitVec 8)).length + (encAll [[2]]).length + (encAll [[1]]).length) + 24 ≤ 1000 :=
  ⟨fun _ _ => rfl, tmpEx_inv, bEx_wf, by simp [sEx, bEx], by decide, by decide⟩

set_option maxRecDepth 10000 in
-- `SortSlice` hypotheses on `bEx` (padding 8, two slices `[2]`, `[1]`, offset 26)
example : GWF bEx ∧ bEx.buf.toList = List.replicate 8 0 ++ encAll [[2], [1]] ++ List.replicate 38 0 ∧
    (List.replicate 8 (0 : BitVec 8)).length = bEx.padding.toNat ∧
    (List.replicate 8 (0 : BitVec 8)).length + (encAll [[2], [1]]).length = bEx.offset.toNat :=
  ⟨bEx_wf, by rfl, by decide, by decide⟩

end RV.TieBufferSort
