import RV.Proofs.SketchRow
import RV.Proofs.TinyLFU
/-!
# C18 — Access-frequency estimates never under-count, saturate, and age by halving

Property theorems only (helper lemmas live in `RV/Proofs`).  Every arithmetic
kernel mentioned here (`rowGet`, `rowIncrement`, `rowReset`, `rowClear`, `next2Power`,
`incrIndex`/`estIndex`, `estLess`/`estInit`, `sketchMask`, `rowLen`, the reset trigger
`Gen.TinyLFU.resetCond` and all doorkeeper kernels of `Gen.Bloom`) is *generated* from
sketch.go / policy.go / z/bbloom.go by go2lean on every run.

Three layers: single counters of a row (first block), the 4-row sketch (`sketch_*`,
`next2power_spec`, `sketch_size`), and TinyLFU = sketch + doorkeeper + reset counter
(`est_*`, `reset_spec`, `clear_spec`, `reset_period`).
-/
namespace RV.C18
open RV.Sketch Gen.Sketch

/-- A counter that is incremented goes to `min(old+1, 15)`: it saturates, never wraps. -/
theorem counter_increment_saturates (r : Row) (n : BitVec 64) (h : byteOf n < r.size) :
    rowGet (rowIncrement r n) n = if BitVec.ult (rowGet r n) 15#8 then rowGet r n + 1 else 15#8 :=
  get_increment_self r n h

/-- Incrementing counter `n` leaves every other counter of the row (in particular the
other half of the same byte) unchanged. -/
theorem counter_increment_frame (r : Row) (n m : BitVec 64) (hne : m ≠ n) :
    rowGet (rowIncrement r n) m = rowGet r m :=
  get_increment_other r n m hne

/-- An aging reset halves every counter independently, rounding down. -/
theorem counter_reset_halves (r : Row) (n : BitVec 64) (h : byteOf n < r.size) (hsz : r.size ≤ 2 ^ 64) :
    rowGet (rowReset r) n = rowGet r n >>> 1 :=
  get_reset r n h hsz

/-- Clear zeroes every counter. -/
theorem counter_clear_zero (r : Row) (n : BitVec 64) (h : byteOf n < r.size) (hsz : r.size ≤ 2 ^ 64) :
    rowGet (rowClear r) n = 0#8 :=
  get_clear r n h hsz

/-- Counters never exceed 15. -/
theorem counter_le_15 (r : Row) (n : BitVec 64) : (rowGet r n).toNat ≤ 15 :=
  rowGet_le_15 r n

/-- Non-vacuity: a concrete row and index satisfy the hypotheses, and saturation is reached. -/
example : byteOf 3#64 < (#[0xff#8, 0xe0#8] : Row).size ∧
    rowGet (rowIncrement #[0xff#8, 0xe0#8] 3#64) 3#64 = 15#8 ∧
    rowGet (rowIncrement #[0xff#8, 0xe0#8] 3#64) 2#64 = 0#8 := by decide


/-! ## Sketch level (all `cmDepth` rows, arbitrary seeds) -/

/-- `Increment h` moves the estimate of `h` to `min(old+1, 15)`: every row counter of `h`
saturates instead of wrapping, so the minimum does. -/
theorem sketch_increment_self (s : Sketch) (w : Sketch.WF s) (h : BitVec 64) :
    estimate (increment s h) h = (if BitVec.ult (estimate s h) 15#8 then estimate s h + 1 else 15#8) :=
  estimate_increment_self w h

/-- Recording an access never lowers any key's estimate (whatever the row collisions). -/
theorem sketch_increment_monotone (s : Sketch) (w : Sketch.WF s) (h k : BitVec 64) :
    (estimate s k).toNat ≤ (estimate (increment s h) k).toNat :=
  estimate_increment_ge w h k

/-- The sketch estimate never exceeds 15. -/
theorem sketch_estimate_le_15 (s : Sketch) (w : Sketch.WF s) (h : BitVec 64) : (estimate s h).toNat ≤ 15 :=
  estimate_le_15 w h

/-- After `n` increments of `h` (interleaved with increments of any other keys) the sketch
estimate of `h` is at least `min(n, 15)`: the sketch never under-counts. -/
theorem sketch_never_undercounts (s : Sketch) (w : Sketch.WF s) (h : BitVec 64) (ks : List (BitVec 64)) :
    min (ks.count h) 15 ≤ (estimate (ks.foldl increment s) h).toNat := by
  suffices H : ∀ (s : Sketch), Sketch.WF s →
      min ((estimate s h).toNat + ks.count h) 15 ≤ (estimate (ks.foldl increment s) h).toNat by
    have := H s w; omega
  induction ks with
  | nil => intro s _; simp; omega
  | cons a ks ih =>
    intro s w
    have ih' := ih (increment s a) (WF_increment w a)
    simp only [List.foldl_cons]
    by_cases ha : a = h
    · subst ha
      have h1 := estimate_increment_self w a
      have h2 := satIncr_toNat (estimate s a)
      rw [← h1] at h2
      simp only [List.count_cons_self]
      split at h2 <;> omega
    · have h1 := estimate_increment_ge w a h
      have hc : (a :: ks).count h = ks.count h := by rw [List.count_cons]; simp [ha]
      rw [hc]; omega

/-- An aging reset halves the estimate, rounding down (the minimum of the independently
halved counters is the half of the minimum). -/
theorem sketch_reset_halves (s : Sketch) (w : Sketch.WF s) (h : BitVec 64) :
    estimate (reset s) h = estimate s h >>> 1 :=
  estimate_reset w h

/-- `Clear` zeroes every estimate. -/
theorem sketch_clear_zero (s : Sketch) (w : Sketch.WF s) (h : BitVec 64) : estimate (clear s) h = 0#8 :=
  estimate_clear w h

/-- `next2Power x` is the least power of two `≥ x`, for **every** `1 ≤ x ≤ 2^62` (x as the
int64 word): it is `2^e`, `x ≤ 2^e` and `2^e < 2x`. -/
theorem next2power_spec (x : BitVec 64) (h1 : 1 ≤ x.toNat) (h2 : x.toNat ≤ 2 ^ 62) :
    ∃ e, e ≤ 62 ∧ (next2Power x).toNat = 2 ^ e ∧ x.toNat ≤ 2 ^ e ∧ 2 ^ e < 2 * x.toNat :=
  next2Power_spec x h1 h2

/-- The counter table of `newCmSketch(NumCounters)`, `2 ≤ NumCounters ≤ 2^62`: `cmDepth` rows of
`2^e / 2` bytes (= `2^e` counters) and mask `2^e - 1`, `2^e` the next power of two of
`NumCounters`; such a sketch is well formed (every masked index is inside every row). -/
theorem sketch_size (n : BitVec 64) (seed : Array (BitVec 64)) (hs : seed.size = cmDepth.toNat)
    (h1 : 2 ≤ n.toNat) (h2 : n.toNat ≤ 2 ^ 62) :
    (∃ e, 1 ≤ e ∧ e ≤ 62 ∧ n.toNat ≤ 2 ^ e ∧ 2 ^ e < 2 * n.toNat ∧
      (Sketch.new n seed).mask.toNat = 2 ^ e - 1 ∧
      (Sketch.new n seed).rows.length = cmDepth.toNat ∧
      ∀ r ∈ (Sketch.new n seed).rows, 2 * r.size = 2 ^ e) ∧
    Sketch.WF (Sketch.new n seed) :=
  ⟨new_size n seed h1 h2, Sketch.new_wf n seed hs h1 h2⟩

/-! ## TinyLFU level (sketch + doorkeeper + reset counter) -/
section TinyLFU
open RV.TinyLFU

/-- `newTinyLFU(NumCounters)` (with whatever doorkeeper parameters the float sizing produced,
`locs ≠ 0`) is well formed and starts counting at `0 < resetAt = NumCounters`. -/
theorem tinylfu_new (n : BitVec 64) (seed : Array (BitVec 64)) (de dl : BitVec 64)
    (hs : seed.size = cmDepth.toNat) (h1 : 2 ≤ n.toNat) (h2 : n.toNat ≤ 2 ^ 62)
    (hde : de.toNat ≤ 2 ^ 63) (hdl : dl ≠ 0#64) :
    TinyLFU.WF (TinyLFU.new n seed de dl) ∧ Counting (TinyLFU.new n seed de dl) :=
  TinyLFU.new_wf n seed de dl hs h1 h2 hde hdl

/-- Well-formedness and `0 ≤ incrs < resetAt` are kept by every operation. -/
theorem tinylfu_invariant (t : TinyLFU) (w : TinyLFU.WF t) (c : Counting t) (k : BitVec 64) :
    TinyLFU.WF (TinyLFU.increment t k) ∧ Counting (TinyLFU.increment t k) ∧
    TinyLFU.WF (TinyLFU.reset t) ∧ TinyLFU.WF (TinyLFU.clear t) :=
  ⟨increment_wf w k, (increment_incrs c k).2.2, reset_wf w, clear_wf w⟩

/-- Between two aging resets: after the accesses `ks` (none of which triggers the reset), the
estimate of `k` is at least `min(n, 15)` where `n` is the number of recorded accesses of `k` —
in fact at least `min(old + n, 16)`. -/
theorem est_lower (t : TinyLFU) (w : TinyLFU.WF t) (k : BitVec 64) (ks : List (BitVec 64)) (q : quiet t ks) :
    min (ks.count k) 15 ≤ est (push t ks) k ∧ min (est t k + ks.count k) 16 ≤ est (push t ks) k := by
  have := est_lower_aux w k ks q
  exact ⟨by omega, this⟩

/-- The estimate never exceeds 16 (15 from the sketch plus the doorkeeper bit). -/
theorem est_upper (t : TinyLFU) (w : TinyLFU.WF t) (k : BitVec 64) :
    est t k ≤ 16 ∧ (TinyLFU.estimate t k).toInt = est t k := by
  have h := TinyLFU.est_upper w k
  refine ⟨h, ?_⟩
  unfold est at h ⊢
  rw [BitVec.toInt_eq_toNat_cond]; split <;> omega

/-- An `Increment` that does not trigger the reset lowers no key's estimate. -/
theorem est_monotone (t : TinyLFU) (w : TinyLFU.WF t) (h k : BitVec 64) (q : fires t = false) :
    est t k ≤ est (TinyLFU.increment t h) k := by
  rw [increment_quiet t h q]; exact touch_mono w h k

/-- The aging reset: `incrs = 0`, the doorkeeper is emptied (every bit zero, `Has` false for
every key), every counter of every row is halved independently, hence every estimate becomes
`⌊sketch estimate / 2⌋`. -/
theorem reset_spec (t : TinyLFU) (w : TinyLFU.WF t) :
    (TinyLFU.reset t).incrs = 0#64 ∧ (TinyLFU.reset t).resetAt = t.resetAt ∧
    (∀ p, RV.Bloom.bitAt (TinyLFU.reset t).door.bytes p = false) ∧
    (∀ k, RV.Bloom.has (TinyLFU.reset t).door k = false) ∧
    (TinyLFU.reset t).freq.rows = t.freq.rows.map rowReset ∧
    (∀ r ∈ t.freq.rows, ∀ n : BitVec 64, n.toNat ≤ t.freq.mask.toNat → rowGet (rowReset r) n = rowGet r n >>> 1) ∧
    (∀ k, est (TinyLFU.reset t) k = (Sketch.estimate t.freq k).toNat / 2) := by
  refine ⟨rfl, rfl, RV.Bloom.bitAt_clear t.door, RV.Bloom.has_clear t.door w.locs, rfl, ?_, est_reset w⟩
  intro r hr n hn
  have := w.freq.rows r hr
  exact get_reset r n (by rw [byteOf_eq]; omega) this.2

/-- `clear()`: `incrs = 0`, doorkeeper emptied, every counter zero, every estimate zero. -/
theorem clear_spec (t : TinyLFU) (w : TinyLFU.WF t) :
    (TinyLFU.clear t).incrs = 0#64 ∧ (TinyLFU.clear t).resetAt = t.resetAt ∧
    (∀ p, RV.Bloom.bitAt (TinyLFU.clear t).door.bytes p = false) ∧
    (∀ r ∈ t.freq.rows, ∀ n : BitVec 64, n.toNat ≤ t.freq.mask.toNat → rowGet (rowClear r) n = 0#8) ∧
    (TinyLFU.clear t).freq.rows = t.freq.rows.map rowClear ∧
    (∀ k, est (TinyLFU.clear t) k = 0) := by
  refine ⟨rfl, rfl, RV.Bloom.bitAt_clear t.door, ?_, rfl, est_clear w⟩
  intro r hr n hn
  have := w.freq.rows r hr
  exact get_clear r n (by rw [byteOf_eq]; omega) this.2

/-- The reset happens exactly at the `resetAt`-th increment: while `0 ≤ incrs < resetAt`
an `Increment` ends with `reset()` iff `incrs + 1 = resetAt`; in particular, counting from
`incrs = 0`, the first `resetAt - 1` increments are quiet and leave `incrs` = their number, and
the next one fires and leaves `incrs = 0`. -/
theorem reset_period (t : TinyLFU) (c : Counting t) :
    fires t = decide (t.incrs.toInt + 1 = t.resetAt.toInt) ∧
    (∀ k, TinyLFU.increment t k = if fires t then TinyLFU.reset (touch t k) else touch t k) ∧
    (∀ ks : List (BitVec 64), t.incrs.toInt + ks.length < t.resetAt.toInt →
      quiet t ks ∧ (push t ks).incrs.toInt = t.incrs.toInt + ks.length ∧
      (∀ k, (fires (push t ks) = true ↔ t.incrs.toInt + ks.length + 1 = t.resetAt.toInt) ∧
            (fires (push t ks) = true → (TinyLFU.increment (push t ks) k).incrs = 0#64))) := by
  refine ⟨fires_iff c, fun k => ?_, fun ks hlen => ?_⟩
  · cases h : fires t
    · simpa using increment_quiet t k h
    · simpa using increment_fires t k h
  · obtain ⟨q, c', hr, hi⟩ := push_counting c ks hlen
    refine ⟨q, hi, fun k => ⟨?_, fun hf => ?_⟩⟩
    · rw [fires_iff c', hi, hr]; simp
    · rw [increment_fires _ k hf]; rfl

end TinyLFU

/-! ### Non-vacuity (sketch and TinyLFU level) -/

/-- a concrete well-formed TinyLFU (`NumCounters = 4`, doorkeeper of 512 bits and 7 locations) -/
example : TinyLFU.WF (TinyLFU.new 4#64 #[1#64, 2#64, 3#64, 4#64] 38#64 7#64) ∧
    RV.TinyLFU.Counting (TinyLFU.new 4#64 #[1#64, 2#64, 3#64, 4#64] 38#64 7#64) :=
  tinylfu_new _ _ _ _ (by decide) (by decide) (by decide) (by decide) (by decide)

/-- on it: three quiet accesses of key 9 give estimate 3, the 4th increment triggers the reset
(estimate back to `⌊2/2⌋ = 1`, `incrs = 0`), and 3 accesses are not yet `resetAt = 4`. -/
example :
    let t := TinyLFU.new 4#64 #[1#64, 2#64, 3#64, 4#64] 38#64 7#64
    RV.TinyLFU.quiet t [9#64, 9#64, 9#64] ∧
    RV.TinyLFU.est (RV.TinyLFU.push t [9#64, 9#64, 9#64]) 9#64 = 3 ∧
    RV.TinyLFU.fires (RV.TinyLFU.push t [9#64, 9#64, 9#64]) = true ∧
    RV.TinyLFU.est (RV.TinyLFU.push t [9#64, 9#64, 9#64, 9#64]) 9#64 = 1 ∧
    (RV.TinyLFU.push t [9#64, 9#64, 9#64, 9#64]).incrs = 0#64 := by
  refine ⟨⟨by decide, by decide, by decide, trivial⟩, by decide, by decide, by decide, by decide⟩

/-- `next2Power` on boundary values -/
example : next2Power 1#64 = 1#64 ∧ next2Power 3#64 = 4#64 ∧ next2Power 4#64 = 4#64 ∧
    next2Power 5#64 = 8#64 ∧ next2Power (BitVec.ofNat 64 (2 ^ 62)) = BitVec.ofNat 64 (2 ^ 62) ∧
    next2Power (BitVec.ofNat 64 (2 ^ 61 + 1)) = BitVec.ofNat 64 (2 ^ 62) := by decide

end RV.C18
