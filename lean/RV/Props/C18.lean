import RV.Proofs.SketchRow
/-!
# C18 — Access-frequency estimates never under-count, saturate, and age by halving

Property theorems only (helper lemmas live in `RV/Proofs`).  Every arithmetic
kernel mentioned here (`rowGet`, `rowIncrement`, `rowReset`, `rowClear`) is
*generated* from sketch.go by go2lean on every run.
-/
namespace RV.C18
open RV.Sketch Gen.Sketch

/-- A counter that is incremented goes to `min(old+1, 15)`: it saturates, never wraps. -/
theorem counter_increment_saturates (r : Row) (n : BitVec 64) (h : byteOf n < r.size) :
    rowGet (rowIncrement r n) n = if BitVec.ult (rowGet r n) 15#8 then rowGet r n + 1 else 15#8 :=
  get_increment_self r n h

/-- Incrementing counter `n` leaves every other counter of the row (in particular the
other half of the same byte) unchanged. -/
theorem counter_increment_frame (r : Row) (n m : BitVec 64) (hne : m ≠ n) :
    rowGet (rowIncrement r n) m = rowGet r m :=
  get_increment_other r n m hne

/-- An aging reset halves every counter independently, rounding down. -/
theorem counter_reset_halves (r : Row) (n : BitVec 64) (h : byteOf n < r.size) (hsz : r.size ≤ 2 ^ 64) :
    rowGet (rowReset r) n = rowGet r n >>> 1 :=
  get_reset r n h hsz

/-- Clear zeroes every counter. -/
theorem counter_clear_zero (r : Row) (n : BitVec 64) (h : byteOf n < r.size) (hsz : r.size ≤ 2 ^ 64) :
    rowGet (rowClear r) n = 0#8 :=
  get_clear r n h hsz

/-- Counters never exceed 15. -/
theorem counter_le_15 (r : Row) (n : BitVec 64) : (rowGet r n).toNat ≤ 15 :=
  rowGet_le_15 r n

/-- Non-vacuity: a concrete row and index satisfy the hypotheses, and saturation is reached. -/
example : byteOf 3#64 < (#[0xff#8, 0xe0#8] : Row).size ∧
    rowGet (rowIncrement #[0xff#8, 0xe0#8] 3#64) 3#64 = 15#8 ∧
    rowGet (rowIncrement #[0xff#8, 0xe0#8] 3#64) 2#64 = 0#8 := by decide

end RV.C18
