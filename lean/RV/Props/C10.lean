import RV.Proofs.TreePids
import RV.Gen.TreeLint
/-!
# C10 — z.Tree is a correct uint64 map with an exact DeleteBelow

Property theorems only (helper lemmas live in `RV/Proofs/Tree*.lean`).  All decision
points and the layout arithmetic are *generated* from z/btree.go on every run
(`Gen.Tree.*`); the recursion structure of the model is tied to the code by the
`tree` trace stream.
-/
namespace RV.C10
open RV.Tree Gen.Tree

/-- Node layout: `numKeys()` reads back what `setNumKeys(n)` stored, for either kind of node. -/
theorem node_numKeys_roundtrip (leaf : Bool) (n : Nat) (h : n < 2 ^ 32) :
    (numKeysOfMeta (metaWord leaf n)).toNat = n := metaWord_numKeys leaf n h

/-- Node layout: `isLeaf()` reads back the kind bit, whatever `setNumKeys` stored later. -/
theorem node_isLeaf_roundtrip (leaf : Bool) (n : Nat) (h : n < 2 ^ 32) :
    isLeaf (bitsOfMeta (metaWord leaf n)) = leaf := metaWord_isLeaf leaf n h

/-- Node layout: with `maxKeys = pageSize/16 - 1` the key / value words of the entries, the
page-id word and the meta word are distinct words inside the page (generated `keyOffset`,
`valOffset`). -/
theorem node_layout_words (ps : Nat) (hps : 32 ≤ ps) (hlt : ps < 2 ^ 40) (i j : Nat)
    (hi : i < (Cfg.ofPageSize ps).maxKeys) (hj : j < (Cfg.ofPageSize ps).maxKeys) :
    (keyOffset (w i)).toNat = 2 * i ∧ (valOffset (w i)).toNat = 2 * i + 1 ∧
    (keyOffset (w (Cfg.ofPageSize ps).maxKeys)).toNat = 2 * (Cfg.ofPageSize ps).maxKeys ∧
    (valOffset (w (Cfg.ofPageSize ps).maxKeys)).toNat = 2 * (Cfg.ofPageSize ps).maxKeys + 1 ∧
    (valOffset (w (Cfg.ofPageSize ps).maxKeys)).toNat < ps / 8 ∧
    (i ≠ j → (keyOffset (w i)).toNat ≠ (keyOffset (w j)).toNat) :=
  layout_words ps hps hlt i j hi hj

/-- `n.search(k)`: the entries before the result have keys `< k`, the entry at the result
(if any) has a key `>= k`. -/
theorem node_search_spec {β : Type} (es : List (Key × β)) (k : Key) :
    ∃ l r, es = l ++ r ∧ l.length = search es k ∧ (∀ e ∈ l, e.1 < k) ∧
      (∀ e r', r = e :: r' → k ≤ e.1) := search_spec es k

/-- `node.set(k, v)` on a node with strictly increasing keys and room for one more key (or
already holding `k`) is sorted insertion / overwrite, and `numAdded` is 1 exactly for a new key. -/
theorem node_set_correct {β : Type} (maxKeys : Nat) (es : List (Key × β)) (k : Key) (v : β) (lo : Key)
    (hs : SortedFrom lo es) (hk : lo < k) (hmk : maxKeys < 2 ^ 63)
    (hlen : es.length < maxKeys ∨ (hasKey es k = true ∧ es.length ≤ maxKeys)) :
    nodeSet maxKeys es k v = some (ins es k v, if hasKey es k then 0 else 1) :=
  nodeSet_eq_ins maxKeys es k v lo hs hk hmk hlen

/-! ## The tree as a map (every page size with `4 ≤ maxKeys < 2^31`, every height, with splits) -/

/-- `tree_inv` (ordering part): `TreeInv cfg t` — the root is an inner node ending in
`absoluteMax`; in every node the keys are strictly increasing; every inner entry has a non-nil,
non-empty child all of whose keys lie in (previous routing key, its key] and whose last key is
that key; every node holds fewer than `maxKeys` keys; the model has not faulted.
It holds for a new / reset tree … -/
theorem c10_inv_new (cfg : Cfg) (hc : CfgOk cfg) (curSz : Nat) :
    TreeInv cfg (newTree cfg) ∧ TreeInv cfg (reset cfg curSz) :=
  ⟨(reset_spec hc _).1, (reset_spec hc _).1⟩

/-- … and is preserved by `Set` of any legal key (including node splits at every level, the root
split, recycled pages and growth of the buffer: the allocator state is arbitrary). -/
theorem c10_inv_set (cfg : Cfg) (hc : CfgOk cfg) (t : Tree) (hinv : TreeInv cfg t) (k : Key) (v : Val)
    (hk : setKeyPanic k = false) : TreeInv cfg (set cfg t k v) :=
  (set_spec hc t k v hinv hk).1

/-- `Get` after `Set`: the value just set for `k`, everything else unchanged.  Keys range over
`[1, 2^64-2]` (`setKeyPanic`/`getKeyPanic` are the generated panic conditions of `Set`/`Get`). -/
theorem c10_get_set (cfg : Cfg) (hc : CfgOk cfg) (t : Tree) (hinv : TreeInv cfg t) (k k' : Key) (v : Val)
    (hk : setKeyPanic k = false) (hk' : getKeyPanic k' = false) :
    get (set cfg t k v) k' = if k' = k then some v else get t k' := by
  obtain ⟨hinv', hl, _⟩ := set_spec hc t k v hinv hk
  rw [get_spec hc _ hinv' k' hk', get_spec hc t hinv k' hk']
  unfold abs
  rw [hl, lookupD_ins]
  split <;> rfl

/-- A new tree and a tree after `Reset` are empty: every legal key reads 0. -/
theorem c10_reset (cfg : Cfg) (hc : CfgOk cfg) (curSz : Nat) (k : Key) (hk : getKeyPanic k = false) :
    get (newTree cfg) k = some 0#64 ∧ get (reset cfg curSz) k = some 0#64 := by
  have h1 := reset_spec hc (minSize.toNat)
  have h2 := reset_spec hc curSz
  exact ⟨by rw [newTree, get_spec hc _ h1.1 k hk, abs_of_toList_sentinel h1.2],
         by rw [get_spec hc _ h2.1 k hk, abs_of_toList_sentinel h2.2]⟩

/-- `DeleteBelow(ts)` removes exactly the keys whose value is below `ts` and changes nothing
else (a kept max key whose value is below `ts` becomes a placeholder and reads 0).  The invariant
is preserved, and no page becomes live that was not live before.
Hypothesis `hp`: the page ids of the live nodes are representable and non-zero (a page id that
is 0 as a 64-bit word would be taken for the nil page by `n.compact(1)`); it is part of the page
invariant `PidInv` (see `c10_pid_inv_*`). -/
theorem c10_delete_below (cfg : Cfg) (hc : CfgOk cfg) (t : Tree) (hinv : TreeInv cfg t)
    (hp : ∀ p ∈ pids t.root, PosPid p) (ts : Val) (k : Key) (hk : getKeyPanic k = false) :
    TreeInv cfg (deleteBelow t ts) ∧
    (∃ v, get t k = some v ∧ get (deleteBelow t ts) k = some (if v < ts then 0#64 else v)) := by
  obtain ⟨h1, h2, _⟩ := deleteBelow_spec hc t hinv hp ts
  exact ⟨h1, abs t k, get_spec hc t hinv k hk, by rw [get_spec hc _ h1 k hk, h2 k]⟩

/-- `IterateKV(f)`: the callback is handed the pairs `visits t`; their keys are strictly increasing
(so no key is visited twice), a pair is visited exactly if it is live (`Get` returns that non-zero
value), and afterwards exactly the non-zero answers of the callback are installed. -/
theorem c10_iterate (cfg : Cfg) (hc : CfgOk cfg) (t : Tree) (hinv : TreeInv cfg t) (f : Key → Val → Val) :
    TreeInv cfg (iterateKV t f) ∧ SortedFrom 0#64 (visits t) ∧
    (∀ k v, getKeyPanic k = false → ((k, v) ∈ visits t ↔ (v ≠ 0#64 ∧ get t k = some v))) ∧
    (∀ k, getKeyPanic k = false → ∃ v, get t k = some v ∧
      get (iterateKV t f) k = some (if v = 0#64 then 0#64 else if f k v ≠ 0#64 then f k v else v)) := by
  obtain ⟨h1, h2, h3, _⟩ := iterateKV_spec t hinv f
  have hs := (okNode_toList cfg.maxKeys t.root _ _ _ hinv.ok).1
  refine ⟨h1, by rw [h2]; exact sortedFrom_filter _ hs, ?_, ?_⟩
  · intro k v hk
    rw [get_spec hc t hinv k hk, h2, List.mem_filter]
    unfold abs iterSkip
    constructor
    · rintro ⟨hm, hv⟩
      have hv' : v ≠ 0#64 := by simpa using hv
      exact ⟨hv', by rw [(mem_iff_lookupD hs k v hv').mp hm]⟩
    · rintro ⟨hv, hg⟩
      injection hg with hg
      exact ⟨(mem_iff_lookupD hs k v hv).mpr hg, by simpa using hv⟩
  · intro k hk
    refine ⟨abs t k, get_spec hc t hinv k hk, ?_⟩
    rw [get_spec hc _ h1 k hk]
    unfold abs
    rw [h3, lookupD_map_rewrite]
    unfold rewrite iterSkip iterWrite
    by_cases hv : lookupD (toList t.root) k = 0#64
    · simp [hv]
    · simp only [beq_iff_eq, hv, if_false]
      by_cases hf : f k (lookupD (toList t.root) k) = 0#64
      · simp [hf]
      · simp [hf]

/-! ## Pages: never handed out twice, never leaked -/

/-- `tree_inv` (page part): `PidInv t` — counted with multiplicity, the page ids of the live
nodes plus the free list are exactly the pages `1 … nextPage-1`.  Consequently the live page
ids are pairwise distinct, disjoint from the duplicate-free free list, all below the frontier,
and every page below the frontier is live or free. -/
theorem c10_pid_inv_meaning (t : Tree) (h : PidInv t) :
    (pids t.root ++ t.a.free).Nodup ∧ ∀ p, p ∈ pids t.root ++ t.a.free ↔ (1 ≤ p ∧ p < t.a.nextPage) :=
  ⟨h.nodup, h.mem_iff⟩

/-- The page invariant holds initially and is preserved by every operation, whatever pages
`Set` takes from the free list or the frontier and whatever `DeleteBelow` releases.
(`DeleteBelow` needs page ids to fit a 64-bit word: fewer than 2^64 pages were ever allocated.) -/
theorem c10_pid_inv_preserved (cfg : Cfg) (hc : CfgOk cfg) :
    (∀ curSz, PidInv (reset cfg curSz)) ∧ PidInv (newTree cfg) ∧
    (∀ t k v, TreeInv cfg t → setKeyPanic k = false → PidInv t → PidInv (set cfg t k v)) ∧
    (∀ t ts, TreeInv cfg t → PidInv t → t.a.nextPage ≤ 2 ^ 64 → PidInv (deleteBelow t ts)) ∧
    (∀ t f, TreeInv cfg t → PidInv t → PidInv (iterateKV t f)) :=
  ⟨fun c => reset_pidInv hc c, reset_pidInv hc _,
   fun t k v hi hk hp => set_pidInv hc t k v hi hk hp,
   fun t ts hi hp hn => deleteBelow_pidInv hc t ts hi hp hn,
   fun t f hi hp => iterateKV_pidInv t f hi hp⟩

/-- `c10_delete_below` with its page hypothesis discharged from the page invariant. -/
theorem c10_delete_below_of_pid_inv (cfg : Cfg) (hc : CfgOk cfg) (t : Tree) (hinv : TreeInv cfg t) (hp : PidInv t)
    (hn : t.a.nextPage ≤ 2 ^ 64) (ts : Val) (k : Key) (hk : getKeyPanic k = false) :
    TreeInv cfg (deleteBelow t ts) ∧
    (∃ v, get t k = some v ∧ get (deleteBelow t ts) k = some (if v < ts then 0#64 else v)) :=
  c10_delete_below cfg hc t hinv (hp.posPid hn) ts k hk

/-! ## The refinement: every history of operations -/

/-- the operations of the property (keys of `set` must be legal, see `Op.legal`) -/
inductive Op where
  | set (k : Key) (v : Val)
  | del (ts : Val)
  | iter (f : Key → Val → Val)
  | reset

def Op.legal : Op → Prop
  | .set k _ => setKeyPanic k = false
  | _ => True

def applyOp (cfg : Cfg) (t : Tree) : Op → Tree
  | .set k v => set cfg t k v
  | .del ts => deleteBelow t ts
  | .iter f => iterateKV t f
  | .reset => reset cfg t.a.curSz

/-- the same operation on a plain total map `Key → Val` (0 = absent) -/
def specOp (m : Key → Val) : Op → Key → Val
  | .set k v => fun k' => if k' = k then v else m k'
  | .del ts => fun k => if m k < ts then 0#64 else m k
  | .iter f => fun k => if m k = 0#64 then 0#64 else if f k (m k) ≠ 0#64 then f k (m k) else m k
  | .reset => fun _ => 0#64

def runOps (cfg : Cfg) (t : Tree) (ops : List Op) : Tree := ops.foldl (applyOp cfg) t
def runSpec (m : Key → Val) (ops : List Op) : Key → Val := ops.foldl specOp m

/-- one step of the refinement -/
theorem c10_step (cfg : Cfg) (hc : CfgOk cfg) (t : Tree) (hinv : TreeInv cfg t) (hp : PidInv t)
    (hn : t.a.nextPage ≤ 2 ^ 64) (op : Op) (hl : op.legal) :
    TreeInv cfg (applyOp cfg t op) ∧ PidInv (applyOp cfg t op) ∧ abs (applyOp cfg t op) = specOp (abs t) op := by
  cases op with
  | set k v =>
    obtain ⟨h1, h2, h3, _⟩ := set_spec hc t k v hinv hl
    refine ⟨h1, hp.step h3, ?_⟩
    funext k'
    show lookupD (toList (set cfg t k v).root) k' = _
    rw [h2, lookupD_ins]; rfl
  | del ts =>
    obtain ⟨h1, h2, _, h4, _⟩ := deleteBelow_spec hc t hinv (hp.posPid hn) ts
    exact ⟨h1, hp.step h4, funext h2⟩
  | iter f =>
    obtain ⟨h1, _, h3, _⟩ := iterateKV_spec t hinv f
    refine ⟨h1, iterateKV_pidInv t f hinv hp, ?_⟩
    funext k
    show lookupD (toList (iterateKV t f).root) k = _
    rw [h3, lookupD_map_rewrite]
    show (rewrite f (k, abs t k)).2 = _
    unfold rewrite iterSkip iterWrite specOp
    by_cases hv : abs t k = 0#64
    · simp [hv]
    · by_cases hf : f k (abs t k) = 0#64 <;> simp [hv, hf]
  | reset =>
    have h := reset_spec hc t.a.curSz
    exact ⟨h.1, reset_pidInv hc _, funext fun k => abs_of_toList_sentinel h.2 k⟩

/-- `c10_abs`: for every history of legal operations on a new tree — any page size with
`4 ≤ maxKeys < 2^31`, any number of splits, recycled pages and buffer growth — the invariants hold
and the tree denotes exactly the map the history denotes.  Side condition: fewer than 2^64 pages
were ever allocated (the frontier never exceeds 2^64; with 80-byte pages that is 2^70 bytes). -/
theorem c10_abs (cfg : Cfg) (hc : CfgOk cfg) (ops : List Op) (hl : ∀ op ∈ ops, op.legal)
    (hb : ∀ pre, pre <+: ops → (runOps cfg (newTree cfg) pre).a.nextPage ≤ 2 ^ 64) :
    TreeInv cfg (runOps cfg (newTree cfg) ops) ∧ PidInv (runOps cfg (newTree cfg) ops) ∧
      abs (runOps cfg (newTree cfg) ops) = runSpec (fun _ => 0#64) ops := by
  have h0 := reset_spec hc minSize.toNat
  have key : ∀ (ops : List Op) (t : Tree) (m : Key → Val), TreeInv cfg t → PidInv t → abs t = m →
      (∀ op ∈ ops, op.legal) → (∀ pre, pre <+: ops → (runOps cfg t pre).a.nextPage ≤ 2 ^ 64) →
      TreeInv cfg (runOps cfg t ops) ∧ PidInv (runOps cfg t ops) ∧ abs (runOps cfg t ops) = runSpec m ops := by
    intro ops
    induction ops with
    | nil => intro t m h1 h2 h3 _ _; exact ⟨h1, h2, h3⟩
    | cons op rest ih =>
      intro t m h1 h2 h3 hl hb
      have hn := hb [] (List.nil_prefix)
      obtain ⟨s1, s2, s3⟩ := c10_step cfg hc t h1 h2 hn op (hl op (by simp))
      refine ih (applyOp cfg t op) (specOp m op) s1 s2 (by rw [s3, h3]) (fun o ho => hl o (by simp [ho])) ?_
      intro pre hpre
      exact hb (op :: pre) (List.cons_prefix_cons.mpr ⟨rfl, hpre⟩)
  exact key ops (newTree cfg) _ h0.1 (reset_pidInv hc _) (funext fun k => abs_of_toList_sentinel h0.2 k) hl hb

/-! ## Static obligation on z/btree.go: no write through a stale node slice

A `node` is a slice into the backing buffer; every call that may allocate a page (`newNode`,
`split`, `set`, `Set`, … — the call graph is computed from `Buffer.AllocateOffset/Allocate/Grow`)
may move that buffer.  The structural model has no notion of a stale slice, so this is checked
on the source itself: `go2lean/treelint.go` walks every function of btree.go and lists the uses
of `node` variables that were obtained before such a call and not re-read (`x = t.node(…)`).
A *write* through a stale node is a lost update (the seeded bug C10-1: the root rewritten in the
discarded buffer); the list must be empty. -/
theorem c10_no_stale_node_writes : Gen.TreeLint.staleNodeWrites = [] := rfl

/-- the lint's call graph did find the allocating functions (non-vacuity of the obligation) -/
example : "Tree.newNode" ∈ Gen.TreeLint.movingFunctions ∧ "Tree.split" ∈ Gen.TreeLint.movingFunctions ∧
    "Tree.set" ∈ Gen.TreeLint.movingFunctions ∧ "Tree.Set" ∈ Gen.TreeLint.movingFunctions := by decide

/-- Non-vacuity of the hypotheses: page size 80 (`maxKeys = 4`) is covered, the empty tree
satisfies the invariant, and twelve inserts build a tree of height 3 (root split twice) on which
the theorems apply; evaluated by the kernel. -/
example : CfgOk (Cfg.ofPageSize 80) ∧ CfgOk (Cfg.ofPageSize 4096) := by
  refine ⟨⟨by decide, by decide⟩, ⟨by decide, by decide⟩⟩

example :
    let cfg := Cfg.ofPageSize 80
    -- (a 4 KiB buffer instead of NewTree's 1 MiB, so that the kernel can evaluate `len(t.data)`)
    let t0 := initRoot cfg { nextPage := 1, free := [], leafKeys := 0, pagesFree := 0, dataLen := 4096, curSz := 8192 }
    let t := (List.range 12).foldl (fun t i => set cfg t (w (i + 1)) (w (10 * (i + 1)))) t0
    t.a.fault = none ∧ t.a.nextPage = 11 ∧ get t 7#64 = some 70#64 ∧ get t 13#64 = some 0#64 ∧
      (walk t).length = 10 := by
  decide +kernel

/-- Non-vacuity: a concrete sorted node, insertion in the middle and overwrite. -/
example : SortedFrom 0#64 [(3#64, 30#64), (7#64, 70#64)] ∧
    nodeSet 4 [(3#64, 30#64), (7#64, 70#64)] 5#64 50#64 = some ([(3#64, 30#64), (5#64, 50#64), (7#64, 70#64)], 1) ∧
    nodeSet 4 [(3#64, 30#64), (7#64, 70#64)] 7#64 71#64 = some ([(3#64, 30#64), (7#64, 71#64)], 0) := by
  refine ⟨⟨by decide, by decide, trivial⟩, by decide, by decide⟩

end RV.C10
