import RV.Proofs.TreeNode
/-!
# C10 — z.Tree is a correct uint64 map with an exact DeleteBelow

Property theorems only (helper lemmas live in `RV/Proofs/Tree*.lean`).  All decision
points and the layout arithmetic are *generated* from z/btree.go on every run
(`Gen.Tree.*`); the recursion structure of the model is tied to the code by the
`tree` trace stream.
-/
namespace RV.C10
open RV.Tree Gen.Tree

/-- Node layout: `numKeys()` reads back what `setNumKeys(n)` stored, for either kind of node. -/
theorem node_numKeys_roundtrip (leaf : Bool) (n : Nat) (h : n < 2 ^ 32) :
    (numKeysOfMeta (metaWord leaf n)).toNat = n := metaWord_numKeys leaf n h

/-- Node layout: `isLeaf()` reads back the kind bit, whatever `setNumKeys` stored later. -/
theorem node_isLeaf_roundtrip (leaf : Bool) (n : Nat) (h : n < 2 ^ 32) :
    isLeaf (bitsOfMeta (metaWord leaf n)) = leaf := metaWord_isLeaf leaf n h

/-- `n.search(k)`: the entries before the result have keys `< k`, the entry at the result
(if any) has a key `>= k`. -/
theorem node_search_spec {β : Type} (es : List (Key × β)) (k : Key) :
    ∃ l r, es = l ++ r ∧ l.length = search es k ∧ (∀ e ∈ l, e.1 < k) ∧
      (∀ e r', r = e :: r' → k ≤ e.1) := search_spec es k

/-- `node.set(k, v)` on a node with strictly increasing keys and room for one more key (or
already holding `k`) is sorted insertion / overwrite, and `numAdded` is 1 exactly for a new key. -/
theorem node_set_correct {β : Type} (maxKeys : Nat) (es : List (Key × β)) (k : Key) (v : β) (lo : Key)
    (hs : SortedFrom lo es) (hk : lo < k) (hmk : maxKeys < 2 ^ 63)
    (hlen : es.length < maxKeys ∨ (hasKey es k = true ∧ es.length ≤ maxKeys)) :
    nodeSet maxKeys es k v = some (ins es k v, if hasKey es k then 0 else 1) :=
  nodeSet_eq_ins maxKeys es k v lo hs hk hmk hlen

/-- Non-vacuity: a concrete sorted node, insertion in the middle and overwrite. -/
example : SortedFrom 0#64 [(3#64, 30#64), (7#64, 70#64)] ∧
    nodeSet 4 [(3#64, 30#64), (7#64, 70#64)] 5#64 50#64 = some ([(3#64, 30#64), (5#64, 50#64), (7#64, 70#64)], 1) ∧
    nodeSet 4 [(3#64, 30#64), (7#64, 70#64)] 7#64 71#64 = some ([(3#64, 30#64), (7#64, 71#64)], 0) := by
  refine ⟨⟨by decide, by decide, trivial⟩, by decide, by decide⟩

end RV.C10
