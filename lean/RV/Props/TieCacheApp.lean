import RV.Proofs.TieCacheAppDefs
/-!
# TieCacheApp — the item branch of the applier `Cache.processItems` (cache.go) cut at its yield
# points: every generated section computes what the model's applier step for that program counter
# computes

`RV/Gen/CacheA.lean` is regenerated from /repo's cache.go on every run (go2lean/cachea.go on top of
go2lean/cachem.go).  `processItems` is `for { select { item / ticker / stop } }`: the loop head is the
parking point `loop`, each clause of the select is a section that takes the received value, every
`verifPoint` starts a new section, the victims loop `for _, victim := range victims` is cut per
element (the parking points inside its body carry the current victim and the elements still to go).
A received `*Item[V]` is the item plus `i_wait : Option Nat` (its `wait` channel, none = nil).  What
the sections call is the generated interface `Iface`; `RV/Proofs/TieCacheAppDefs.lean` instantiates
it with the model's pieces (`aI cfg victims added`: `polAdd` for the outcome `(victims, added)` of
`cachePolicy.Add` — the model's `Choice.add` —, `polUpdate`, `polDel`, `storeSet`, `storeDel`,
`cbExit`, `cbReject`, `cbEvict`, `metAdd`) and maps every parking point to the model's `APc`
(`pcApp`).  `landApp (w, o)` is the state `w` with the applier at the pc of `o`.

Each theorem is an EQUALITY between the model's applier step and the landed generated section: same
next pc with the same locals (item with its computed cost, remaining victims, the victim's conflict
and value read from the store), same policy / store / expiry index / metrics, same callback events
in the same order.  So on this run the model's control flow of the item branch is the code's:
storing the newcomer after the victims loop, dropping `OnReject`, a tombstone that skips
`storedItems.Del`, an update item that calls `Add`, the internal cost added on the other branch,
`close(i.wait)` moved after the yield point, … each falsify one of the equalities.
`tie_app_step` says the same for the dispatcher: `applierStep` at the pc of a parking point is the
generated `processItems_step` there (with the model's choice `chOf`); `tie_app_stutter`: the
sections from `vpAppMarker`, `vpAppStored`, `vpAppUpdated`, `vpAppItemDone` change nothing the model
sees (the code has more yield points than the model has steps).

Hypotheses, all explicit: `CostFits` (no int64 overflow in `i.Cost = c.cost(v)` / `i.Cost += itemSize`
— the model's costs are integers; the excluded corner is the open finding F9), `ValidFlag` (the flag
byte is one of the three constants the code writes), and for a new item that the outcome of
`cachePolicy.Add` is one `polAdd` allows (otherwise the model refuses the step:
`tie_app_costed_new_refused`).

NOT covered here: the body of the applier's local closures `onEvict` / `trackAdmission`
(life-expectancy bookkeeping on the goroutine-local map `startTs`, then `c.onEvict`; they are the
interface functions `local_onEvict` / `local_trackAdmission`), the ticker branch's callee
`storedItems.Cleanup` (yield points 50–54) and the stop / done handshake — their sections are
generated (`processItems_recv_ticker`, `…_recv_stop`, `…_vpAppStop`, …) but not tied here;
`Cache.Wait`, `Clear`, `Close`.
-/
set_option linter.unusedSimpArgs false
namespace RV.TieCacheApp
open RV RV.Cache Gen.Cache Gen.CacheA RV.TieCache

/-! ## the receive -/

theorem tie_app_recv (cfg : Cfg) (s s1 : State) (e : BufElem) (i : GItem) (wt : Option Nat)
    (victims : List GItem) (added : Bool)
    (hr : recvBuf s = some (e, s1)) (he : RepElem e i wt) :
    apIdle s .selItem = some (landApp (processItems_recv_setBuf (aI cfg victims added) s1 i wt)) := by
  unfold apIdle apSelItem processItems_recv_setBuf
  rw [hr]
  cases e with
  | marker id => simp only [RepElem] at he; subst he; simp [landApp, pcApp]
  | item it => simp only [RepElem] at he; obtain ⟨h1, h2⟩ := he; subst h1; subst h2; simp [landApp, pcApp]

theorem tie_app_recv_blocked (s : State) (hr : recvBuf s = none) : apIdle s .selItem = none := by
  simp [apIdle, apSelItem, hr]

theorem tie_app_marker (cfg : Cfg) (s : State) (i : GItem) (id : Nat) (victims : List GItem) (added : Bool) :
    apMarker s id = landApp (processItems_vpAppItem (aI cfg victims added) s i (some id)) := by
  simp [apMarker, processItems_vpAppItem, aI, landApp, pcApp]

/-! ## cost pre-processing -/

theorem tie_app_item (cfg : Cfg) (s : State) (i : GItem) (victims : List GItem) (added : Bool)
    (hfit : CostFits cfg i) :
    apItem cfg s (absItem i) = landApp (processItems_vpAppItem (aI cfg victims added) s i none) := by
  obtain ⟨hf, hsum⟩ := hfit
  have hfl := flagOf_code_ne_del i.flag
  obtain ⟨bufCap, ign, costFn, su, mOn, maxCost⟩ := cfg
  unfold apItem processItems_vpAppItem
  unfold itemCost useCostFn addInternalCost at *
  simp only [aI, Option.isSome_none, Bool.false_eq_true, if_false] at hf hsum ⊢
  have hw : w64 (absItem i).cost = i.Cost := by simp [absItem, w64]
  have hfl' : ((absItem i).flag.code != 1#8) = (i.flag != 1#8) := hfl
  have hv : (absItem i).value = i.Value := rfl
  have hcst : (absItem i).cost = i.Cost.toInt := rfl
  rw [hw, hfl'] at hsum ⊢
  cases costFn with
  | none =>
    cases ign
    · simp only [Option.isSome_none, Bool.and_false, Bool.false_and, Bool.false_eq_true, if_false, Bool.not_false, if_true] at hsum ⊢
      simp [landApp, pcApp, absItem_cost, toInt_add56 i.Cost (by simpa [hcst, itemSize] using hsum), itemSize, hcst]
    · simp [landApp, pcApp]
  | some f =>
    obtain ⟨hf1, hf2⟩ := hf f rfl
    have e1 : (w64 (f i.Value)).toInt = f i.Value := w64_toInt _ hf1 hf2
    simp only [Option.isSome_some, Bool.and_true] at hsum ⊢
    by_cases hz : ((i.Cost == 0#64) && (i.flag != 1#8)) = true
    · simp only [hz, if_true] at hsum ⊢
      cases ign
      · simp only [Bool.not_false, if_true] at hsum ⊢
        simp [landApp, pcApp, absItem_cost, toInt_add56 (w64 (f i.Value)) (by simpa [e1, hv, itemSize] using hsum), itemSize, hv, e1]
      · simp [landApp, pcApp, absItem_cost, hv, e1]
    · simp only [hz, Bool.false_eq_true, if_false] at hsum ⊢
      cases ign
      · simp only [Bool.not_false, if_true] at hsum ⊢
        simp [landApp, pcApp, absItem_cost, toInt_add56 i.Cost (by simpa [hcst, itemSize] using hsum), itemSize, hcst]
      · simp [landApp, pcApp]

/-! ## the policy step (`switch i.flag`) -/

theorem tie_app_costed_new (cfg : Cfg) (s : State) (i : GItem) (victims : List GItem) (added : Bool)
    (pm : Pol × Met) (hflag : i.flag = 0#8)
    (hadd : polAdd cfg.metricsOn s.pol s.met i.Key i.Cost.toInt (victims.map absVictim) added = some pm) :
    apCosted cfg s (absItem i) (.add (victims.map absVictim) added) =
      some (landApp (processItems_vpAppCosted (aI cfg victims added) s i)) := by
  have hf : (absItem i).flag = .new := by simp [absItem, flagOf, hflag, itemUpdate, itemDelete]
  have hk : (absItem i).key = i.Key := rfl
  have hc : (absItem i).cost = i.Cost.toInt := rfl
  unfold apCosted processItems_vpAppCosted
  rw [hf]
  simp only [apCostedNew, hk, hc, hadd, aI, hflag]
  cases added <;> simp [landApp, pcApp]

theorem tie_app_costed_new_refused (cfg : Cfg) (s : State) (i : GItem) (victims : List GItem) (added : Bool)
    (hflag : i.flag = 0#8)
    (hadd : polAdd cfg.metricsOn s.pol s.met i.Key i.Cost.toInt (victims.map absVictim) added = none) :
    apCosted cfg s (absItem i) (.add (victims.map absVictim) added) = none := by
  have hf : (absItem i).flag = .new := by simp [absItem, flagOf, hflag, itemUpdate, itemDelete]
  have hk : (absItem i).key = i.Key := rfl
  have hc : (absItem i).cost = i.Cost.toInt := rfl
  unfold apCosted
  rw [hf]
  simp only [apCostedNew, hk, hc, hadd]

theorem tie_app_costed_upd (cfg : Cfg) (s : State) (i : GItem) (victims : List GItem) (added : Bool)
    (hflag : i.flag = 2#8) :
    apCosted cfg s (absItem i) .none =
      some (landApp (processItems_vpAppCosted (aI cfg victims added) s i)) := by
  have hf : (absItem i).flag = .upd := by simp [absItem, flagOf, hflag, itemUpdate, itemDelete]
  have hk : (absItem i).key = i.Key := rfl
  have hc : (absItem i).cost = i.Cost.toInt := rfl
  unfold apCosted processItems_vpAppCosted
  rw [hf]
  simp [needNone, apCostedUpd, hk, hc, aI, hflag, landApp, pcApp]

theorem tie_app_costed_del (cfg : Cfg) (s : State) (i : GItem) (victims : List GItem) (added : Bool)
    (hflag : i.flag = 1#8) :
    apCosted cfg s (absItem i) .none =
      some (landApp (processItems_vpAppCosted (aI cfg victims added) s i)) := by
  have hf : (absItem i).flag = .del := by simp [absItem, flagOf, hflag, itemUpdate, itemDelete]
  have hk : (absItem i).key = i.Key := rfl
  unfold apCosted processItems_vpAppCosted
  rw [hf]
  simp [needNone, apCostedDel, hk, aI, hflag, landApp, pcApp]

/-! ## the store step of a new item, the victims loop, the tombstone -/

theorem tie_app_added (cfg : Cfg) (s : State) (i : GItem) (victims : List GItem) (added : Bool)
    (vs : List GItem) (ad : Bool) :
    apAdded cfg s (absItem i) (victims.map absVictim) added =
      landApp (processItems_vpAppAdded (aI cfg vs ad) s i victims added) := by
  unfold apAdded processItems_vpAppAdded
  cases added
  · simp [aI, landApp, pcApp, absItem]
  · simp [aI, landApp, pcApp, metAdd, RV.TiePolicy.bump, Gen.Methods.metric_hit, Gen.Methods.metric_miss,
      Gen.Methods.metric_keyAdd]

/-- `vpAppStored` is already the head of the victims loop: the section only inspects the list -/
theorem tie_app_stored (cfg : Cfg) (s : State) (victims : List GItem) (vs : List GItem) (ad : Bool) :
    landApp (processItems_vpAppStored (aI cfg vs ad) s victims) = { s with app := pcApp (.vpAppStored victims) } := by
  unfold processItems_vpAppStored
  cases victims <;> simp [landApp, pcApp, afterVictims]

theorem tie_app_victimDel (cfg : Cfg) (s : State) (v : GItem) (rest : List GItem) (vs : List GItem) (ad : Bool) :
    apVictims s (absVictim v :: rest.map absVictim) =
      some (landApp (processItems_vpAppVictimDel (aI cfg vs ad) s rest v)) := by
  simp [apVictims, processItems_vpAppVictimDel, aI, landApp, pcApp, absVictim]

theorem tie_app_victimEvict (cfg : Cfg) (s : State) (v : GItem) (rest : List GItem) (vs : List GItem) (ad : Bool) :
    apVictimEvict s v.Key v.Cost.toInt v.Conflict v.Value (rest.map absVictim) =
      landApp (processItems_vpAppVictimEvict (aI cfg vs ad) s rest v) := by
  unfold apVictimEvict processItems_vpAppVictimEvict
  cases rest <;> simp [aI, landApp, pcApp, afterVictims]

theorem tie_app_tombPolicy (cfg : Cfg) (s : State) (i : GItem) (vs : List GItem) (ad : Bool) :
    apTombPolicy s (absItem i) = landApp (processItems_vpAppTombPolicy (aI cfg vs ad) s i) := by
  simp [apTombPolicy, processItems_vpAppTombPolicy, aI, landApp, pcApp, absItem]

theorem tie_app_tombStore (cfg : Cfg) (s : State) (v : Val) (vs : List GItem) (ad : Bool) :
    apTombStore s v = landApp (processItems_vpAppTombStore (aI cfg vs ad) s v) := by
  simp [apTombStore, processItems_vpAppTombStore, aI, landApp, pcApp]

/-! ## the sections that are invisible in the model -/

theorem tie_app_markerDone (cfg : Cfg) (s : State) (vs : List GItem) (ad : Bool) :
    landApp (processItems_vpAppMarker (aI cfg vs ad) s) = { s with app := .idle } := by
  simp [processItems_vpAppMarker, landApp, pcApp]

theorem tie_app_updated (cfg : Cfg) (s : State) (vs : List GItem) (ad : Bool) :
    landApp (processItems_vpAppUpdated (aI cfg vs ad) s) = { s with app := .idle } := by
  simp [processItems_vpAppUpdated, landApp, pcApp]

theorem tie_app_itemDone (cfg : Cfg) (s : State) (vs : List GItem) (ad : Bool) :
    landApp (processItems_vpAppItemDone (aI cfg vs ad) s) = { s with app := .idle } := by
  simp [processItems_vpAppItemDone, landApp, pcApp]

/-! ## Non-vacuity: on a concrete state (key 3 resident with conflict 4 and value 9, `Config.Cost` =
identity, internal cost on, metrics on) the sections take their interesting branches: the cost
function and the internal cost (0 ↦ 7 + 56), admission through `polAdd`, the rejected newcomer's
`OnReject` then `OnExit`, the victims loop entered with two victims, a victim's conflict and value
read from the store, `OnEvict` then `OnExit` with the second victim next, the tombstone. -/

def cfgA : Cfg :=
  { bufCap := 2, ignoreInternal := false, costFn := some (fun v => (v : Int)), shouldUpdate := none,
    metricsOn := true, maxCost := 100 }
def sA : State :=
  { init cfgA 5 with store := (AMap.empty : Store).insert 3#64 ⟨4#64, 9, Gen.zeroTime⟩ }
def iA : GItem := { Gen.Methods.Item.zero 0 with Key := 8#64, Conflict := 1#64, Value := 7 }
def vA : GItem := { Gen.Methods.Item.zero 0 with Key := 3#64, Cost := 60#64 }
def vB : GItem := { Gen.Methods.Item.zero 0 with Key := 5#64, Cost := 61#64 }

example : CostFits cfgA iA := by
  refine ⟨fun f h => ?_, by decide⟩
  simp only [cfgA, Option.some.injEq] at h
  subst h
  decide
example : (processItems_vpAppItem (aI cfgA) sA iA none).2 matches .vpAppCosted ⟨0#8, 8#64, 1#64, 7, 63#64, _⟩ := by decide
example : (processItems_vpAppItem (aI cfgA) sA iA (some 4)).1.closedMarkers = [4] := by decide
example : (processItems_vpAppCosted (aI cfgA [] true) sA { iA with Cost := 63#64 }).1.pol.used = 63 := by decide
example : (processItems_vpAppAdded (aI cfgA) sA iA [vA, vB] false).1.log = [.exit 7, .reject 8#64 1#64 7 0] := by decide
example : (processItems_vpAppAdded (aI cfgA) sA iA [] true).1.met.keyAdd = 1#64 := by decide
example : (processItems_vpAppStored (aI cfgA) sA [vA, vB]).2 matches .vpAppVictimDel [_] ⟨_, 3#64, _, _, 60#64, _⟩ := by decide
example : (processItems_vpAppVictimDel (aI cfgA) sA [vB] vA).2 matches .vpAppVictimEvict [_] ⟨_, 3#64, 4#64, 9, 60#64, _⟩ := by decide
example : (processItems_vpAppVictimEvict (aI cfgA) sA [vB] { vA with Conflict := 4#64, Value := 9 }).1.log
    = [.exit 9, .evict 3#64 4#64 9 60] := by decide
example : (processItems_vpAppVictimEvict (aI cfgA) sA [vB] vA).2 matches .vpAppVictimDel [] ⟨_, 5#64, _, _, 61#64, _⟩ := by decide
example : (processItems_vpAppTombPolicy (aI cfgA) sA { iA with flag := 1#8, Key := 3#64, Conflict := 4#64 }).2
    matches .vpAppTombStore 9 := by decide

/-! ## The dispatcher -/

/-- the model's choice for the section that starts at `o`: the outcome of `cachePolicy.Add` for a new
item, nothing otherwise -/
def chOf (victims : List GItem) (added : Bool) : processItems_Out Key Nat → Choice
  | .vpAppCosted i => if i.flag = 0#8 then .add (victims.map absVictim) added else .none
  | _ => .none

/-- parking points of the item branch whose section is one step of the model -/
def isStepPoint : processItems_Out Key Nat → Bool
  | .vpAppItem .. | .vpAppCosted _ | .vpAppAdded .. | .vpAppVictimDel .. | .vpAppVictimEvict ..
  | .vpAppTombPolicy _ | .vpAppTombStore _ => true
  | _ => false

/-- parking points of the item branch whose section the model does not see -/
def isStutterPoint : processItems_Out Key Nat → Bool
  | .vpAppMarker | .vpAppStored _ | .vpAppUpdated | .vpAppItemDone => true
  | _ => false

/-- what the section at `o` needs: no int64 overflow in the cost pre-processing (F9), one of the three
flag bytes, and an outcome of `cachePolicy.Add` that is possible in the state -/
def Pre (cfg : Cfg) (s : State) (victims : List GItem) (added : Bool) : processItems_Out Key Nat → Prop
  | .vpAppItem i none => CostFits cfg i
  | .vpAppCosted i => ValidFlag i ∧
      (i.flag = 0#8 → polAdd cfg.metricsOn s.pol s.met i.Key i.Cost.toInt (victims.map absVictim) added ≠ none)
  | _ => True

example : Pre cfgA sA [] true (.vpAppCosted { iA with Cost := 63#64 }) := by
  refine ⟨Or.inl rfl, fun _ => ?_⟩
  decide
example : isStepPoint (.vpAppCosted { iA with Cost := 63#64 } : processItems_Out Key Nat) = true := rfl

theorem tie_app_step (cfg : Cfg) (s : State) (victims : List GItem) (added : Bool)
    (o : processItems_Out Key Nat) (hpc : s.app = pcApp o) (hstep : isStepPoint o = true)
    (hpre : Pre cfg s victims added o) :
    applierStep cfg s (chOf victims added o) =
      some (landApp (processItems_step (aI cfg victims added) s o)) := by
  cases o <;> simp only [isStepPoint, Bool.false_eq_true] at hstep
  case vpAppItem i wt =>
    cases wt with
    | none =>
      simp only [applierStep, hpc, pcApp, chOf, needNone, processItems_step]
      rw [tie_app_item cfg s i victims added hpre]
    | some id =>
      simp only [applierStep, hpc, pcApp, chOf, needNone, processItems_step]
      rw [tie_app_marker cfg s i id victims added]
  case vpAppCosted i =>
    obtain ⟨hv, hadd⟩ := hpre
    simp only [applierStep, hpc, pcApp, chOf, processItems_step]
    rcases hv with h | h | h
    · simp only [h, if_true]
      cases hp : polAdd cfg.metricsOn s.pol s.met i.Key i.Cost.toInt (victims.map absVictim) added with
      | none => exact absurd hp (hadd h)
      | some pm => exact tie_app_costed_new cfg s i victims added pm h hp
    · have : ¬ i.flag = 0#8 := by rw [h]; decide
      simp only [this, if_false]
      exact tie_app_costed_del cfg s i victims added h
    · have : ¬ i.flag = 0#8 := by rw [h]; decide
      simp only [this, if_false]
      exact tie_app_costed_upd cfg s i victims added h
  case vpAppAdded i vs ad =>
    simp only [applierStep, hpc, pcApp, chOf, needNone, processItems_step]
    rw [tie_app_added cfg s i vs ad victims added]
  case vpAppVictimDel rest v =>
    simp only [applierStep, hpc, pcApp, chOf, needNone, processItems_step]
    rw [tie_app_victimDel cfg s v rest victims added]
  case vpAppVictimEvict rest v =>
    simp only [applierStep, hpc, pcApp, chOf, needNone, processItems_step]
    rw [tie_app_victimEvict cfg s v rest victims added]
  case vpAppTombPolicy i =>
    simp only [applierStep, hpc, pcApp, chOf, needNone, processItems_step]
    rw [tie_app_tombPolicy cfg s i victims added]
  case vpAppTombStore v =>
    simp only [applierStep, hpc, pcApp, chOf, needNone, processItems_step]
    rw [tie_app_tombStore cfg s v victims added]

theorem tie_app_stutter (cfg : Cfg) (s : State) (victims : List GItem) (added : Bool)
    (o : processItems_Out Key Nat) (hpc : s.app = pcApp o) (hst : isStutterPoint o = true) :
    landApp (processItems_step (aI cfg victims added) s o) = s := by
  cases o <;> simp only [isStutterPoint, Bool.false_eq_true] at hst
  case vpAppMarker =>
    have h : APc.idle = s.app := by simp [hpc, pcApp]
    simp only [processItems_step]; rw [tie_app_markerDone, h]
  case vpAppUpdated =>
    have h : APc.idle = s.app := by simp [hpc, pcApp]
    simp only [processItems_step]; rw [tie_app_updated, h]
  case vpAppItemDone =>
    have h : APc.idle = s.app := by simp [hpc, pcApp]
    simp only [processItems_step]; rw [tie_app_itemDone, h]
  case vpAppStored vs => simp only [processItems_step]; rw [tie_app_stored, ← hpc]

end RV.TieCacheApp
