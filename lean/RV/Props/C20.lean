import RV.Proofs.SimdGo
/-!
# C20 — simd.Search agrees with the reference search

Property theorems only (helper lemmas: `RV/Proofs/SimdAsm.lean`, `RV/Proofs/SimdGo.lean`).

What the statements are about, all regenerated from `/repo` on every run:
* `Gen.SimdAsm.searchProg` — the instruction list of `z/simd/search_amd64.s`, run by the
  interpreter `RV.X86` (`RV/Model/X86.lean`);
* `Gen.Simd.*` — every comparison, conversion, index computation and loop header of `Naive`
  (baseline.go), of the portable `Search` (search.go) and of the amd64 wrapper `Search`
  (search_amd64.go).

`Env` collects everything the routine could see that is *not* the slice contents: the address
of the slice, its capacity, the register contents on entry and the memory behind the slice
(`tail`, an arbitrary function).  All theorems quantify over every `Env`.

Results are `Option (BitVec 16)`: `none` would mean a panic / fault / exhausted fuel, so
`= some …` also states that the code returns normally.  A result `BitVec.ofNat 16 j` with
`j ≤ len/2 < 2^15` is the non-negative `int16` value `j`.
-/
namespace RV.C20
open RV.Simd RV.X86 RV.SimdProofs

/-- `Naive xs k` is the index of the first even-position element `≥ k`, else `len/2`
(every even length whose key count fits `int16`). -/
theorem naive_spec (xs : Words) (k : BitVec 64) (heven : xs.size % 2 = 0) (hlen : xs.size / 2 < 2 ^ 15) :
    ∃ j, naive xs k = some (BitVec.ofNat 16 j) ∧ IsFirst (fun i => xs[i]!) (xs.size / 2) k j := by
  have h := naive_isFirst xs k (by omega)
  rwa [show (xs.size + 1) / 2 = xs.size / 2 by omega] at h

/-- The same for odd lengths (the last, value-less word counts as a key position). -/
theorem naive_spec_any_length (xs : Words) (k : BitVec 64) (hlen : (xs.size + 1) / 2 < 2 ^ 15) :
    ∃ j, naive xs k = some (BitVec.ofNat 16 j) ∧ IsFirst (fun i => xs[i]!) ((xs.size + 1) / 2) k j :=
  naive_isFirst xs k hlen

/-- The specification determines the answer. -/
theorem isFirst_unique {f : Nat → BitVec 64} {m : Nat} {k : BitVec 64} {j1 j2 : Nat}
    (h1 : IsFirst f m k j1) (h2 : IsFirst f m k j2) : j1 = j2 :=
  RV.SimdProofs.isFirst_unique h1 h2

/-- The raw assembly routine, on a slice whose length is a non-zero multiple of 8 with
`len/2 < 2^15`: for every `k`, every memory content behind the slice, every entry register
content, address and capacity, running the generated program returns `Naive xs k`
(loop invariant over the interpreter; fuel `2*len+16` suffices). -/
theorem asm_eq_naive (e : Env) (xs : Words) (k : BitVec 64)
    (h8 : xs.size % 8 = 0) (hpos : 0 < xs.size) (hlen : xs.size / 2 < 2 ^ 15) :
    searchAsm e (memOf xs e.tail) (BitVec.ofNat 64 xs.size) k = naive xs k := by
  obtain ⟨j1, h1, f1, _⟩ := asm_spec e (memOf xs e.tail) xs.size k h8 hpos hlen
  obtain ⟨j2, h2, f2⟩ := naive_spec xs k (by omega) hlen
  have f1' : IsFirst (fun i => xs[i]!) (xs.size / 2) k j1 :=
    isFirst_congr (fun i hi => memOf_lt xs e.tail i (by omega)) f1
  rw [h1, h2, RV.SimdProofs.isFirst_unique f1' f2]

/-- … and every memory read of that run is inside the slice. -/
theorem asm_reads_in_bounds (e : Env) (xs : Words) (k : BitVec 64)
    (h8 : xs.size % 8 = 0) (hpos : 0 < xs.size) (hlen : xs.size / 2 < 2 ^ 15) :
    ∀ i ∈ (asmRun e (memOf xs e.tail) (BitVec.ofNat 64 xs.size) k).reads, i < xs.size := by
  obtain ⟨_, _, _, hr⟩ := asm_spec e (memOf xs e.tail) xs.size k h8 hpos hlen
  exact hr

/-- The same two facts stated directly on memories: two memories that agree on the `n` words of
the slice (and differ arbitrarily elsewhere) give the same result, in any two environments. -/
theorem asm_independent_of_memory_beyond (e1 e2 : Env) (m1 m2 : Nat → BitVec 64) (n : Nat) (k : BitVec 64)
    (h8 : n % 8 = 0) (hpos : 0 < n) (hlen : n / 2 < 2 ^ 15) (hagree : ∀ i, i < n → m1 i = m2 i) :
    searchAsm e1 m1 (BitVec.ofNat 64 n) k = searchAsm e2 m2 (BitVec.ofNat 64 n) k := by
  obtain ⟨j1, h1, f1, _⟩ := asm_spec e1 m1 n k h8 hpos hlen
  obtain ⟨j2, h2, f2, _⟩ := asm_spec e2 m2 n k h8 hpos hlen
  have f1' : IsFirst m2 (n / 2) k j1 := isFirst_congr (fun i hi => hagree i (by omega)) f1
  rw [h1, h2, RV.SimdProofs.isFirst_unique f1' f2]

/-- **C20.**  The amd64 `Search` (Go wrapper around the assembly routine) equals `Naive` for
EVERY even length with `len/2 < 2^15` (including 0 and lengths that are not multiples of 8),
every `k`, and every environment — in particular every content of the memory behind the slice.
`cap ≥ len` is what every Go slice satisfies (needed for `xs[:n]` not to panic). -/
theorem c20_search_eq_naive (e : Env) (xs : Words) (k : BitVec 64)
    (heven : xs.size % 2 = 0) (hlen : xs.size / 2 < 2 ^ 15) (hcap : xs.size ≤ e.cap.toNat) :
    search e xs k = naive xs k := by
  obtain ⟨j1, h1, f1⟩ := search_spec e xs k heven hlen hcap
  obtain ⟨j2, h2, f2⟩ := naive_spec xs k heven hlen
  rw [h1, h2, RV.SimdProofs.isFirst_unique f1 f2]

/-- **C20**, in terms of the specification: `Search` returns normally, and what it returns is
the index of the first key `≥ k`, or `len/2` if there is none. -/
theorem c20_search_spec (e : Env) (xs : Words) (k : BitVec 64)
    (heven : xs.size % 2 = 0) (hlen : xs.size / 2 < 2 ^ 15) (hcap : xs.size ≤ e.cap.toNat) :
    ∃ j, search e xs k = some (BitVec.ofNat 16 j) ∧ IsFirst (fun i => xs[i]!) (xs.size / 2) k j :=
  search_spec e xs k heven hlen hcap

/-- **C20**, independence: the result depends only on the contents of `xs` — two runs on the
same slice contents in environments that differ arbitrarily (memory behind the slice,
registers, address, capacity) return the same value. -/
theorem c20_independent_of_tail (e1 e2 : Env) (xs : Words) (k : BitVec 64)
    (heven : xs.size % 2 = 0) (hlen : xs.size / 2 < 2 ^ 15)
    (hcap1 : xs.size ≤ e1.cap.toNat) (hcap2 : xs.size ≤ e2.cap.toNat) :
    search e1 xs k = search e2 xs k := by
  rw [c20_search_eq_naive e1 xs k heven hlen hcap1, c20_search_eq_naive e2 xs k heven hlen hcap2]

/-- The portable `Search` of search.go (`!amd64`) equals `Naive`, for every length whose key
count fits `int16`. -/
theorem portable_eq_naive (xs : Words) (k : BitVec 64) (hlen : (xs.size + 1) / 2 < 2 ^ 15) :
    portable xs k = naive xs k := by
  obtain ⟨j1, h1, f1⟩ := portable_spec xs k hlen
  obtain ⟨j2, h2, f2⟩ := naive_isFirst xs k hlen
  rw [h1, h2, RV.SimdProofs.isFirst_unique f1 f2]

/-! ## Why the wrapper is needed (finding F1, fixed in /repo): the raw routine over-reads -/

/-- a slice of length 10 (5 keys 1…5), all keys `< k = 9` -/
def f1_xs : Words := #[1, 0, 2, 0, 3, 0, 4, 0, 5, 0]
/-- memory behind it: word `len+0` is small, word `len+2` is `≥ k` -/
def f1_env : Env :=
  { base := 0xc000012000#64, cap := 16#64, regs := fun _ => 0#64,
    tail := fun i => if i = 2 then 0xffffffffffffffff#64 else 0#64 }

/-- Called directly on a length that is not a multiple of 8, the assembly routine reads beyond
the slice (word 12 of a 10-word slice) and reports index 6 `> len/2 = 5`; `Naive` says 5.  This
is the defect F1 that `Search`'s wrapper (prefix of length `len &^ 7`, tail in Go) removes. -/
theorem asm_overread_counterexample :
    searchAsm f1_env (memOf f1_xs f1_env.tail) 10#64 9#64 = some 6#16 ∧
    naive f1_xs 9#64 = some 5#16 ∧
    12 ∈ (asmRun f1_env (memOf f1_xs f1_env.tail) 10#64 9#64).reads ∧
    search f1_env f1_xs 9#64 = some 5#16 := by
  decide

/-! ## Non-vacuity -/

/-- `asm_eq_naive` / `asm_reads_in_bounds`: a 16-word slice (8 keys), match in the second group
of four, adversarial memory behind it. -/
example :
    let xs : Words := #[10, 7, 20, 7, 30, 7, 40, 7, 50, 7, 60, 7, 70, 7, 80, 7]
    let e : Env := { base := 0x1000#64, cap := 16#64, regs := fun _ => 0xdeadbeef#64,
                     tail := fun _ => 0xffffffffffffffff#64 }
    xs.size % 8 = 0 ∧ 0 < xs.size ∧ xs.size / 2 < 2 ^ 15 ∧
    searchAsm e (memOf xs e.tail) (BitVec.ofNat 64 xs.size) 55#64 = some 5#16 ∧
    naive xs 55#64 = some 5#16 ∧
    (asmRun e (memOf xs e.tail) (BitVec.ofNat 64 xs.size) 55#64).reads = [10, 8, 6, 4, 2, 0] := by
  decide

/-- `c20_search_eq_naive`: length 10 (not a multiple of 8), no key `≥ k`, memory behind the slice
all ones: the wrapper answers `len/2 = 5`; with `k` equal to the last key it answers 4 (tail loop). -/
example :
    let xs : Words := #[1, 0, 2, 0, 3, 0, 4, 0, 5, 0]
    let e : Env := { base := 0x1000#64, cap := 10#64, regs := fun _ => 0#64,
                     tail := fun _ => 0xffffffffffffffff#64 }
    xs.size % 2 = 0 ∧ xs.size / 2 < 2 ^ 15 ∧ xs.size ≤ e.cap.toNat ∧
    search e xs 9#64 = some 5#16 ∧ naive xs 9#64 = some 5#16 ∧
    search e xs 5#64 = some 4#16 ∧ portable xs 5#64 = some 4#16 ∧
    search e #[] 5#64 = some 0#16 := by
  decide

/-- `IsFirst` is satisfiable and says what it should on a concrete slice. -/
example : IsFirst (fun i => (#[1, 0, 2, 0, 3, 0] : Words)[i]!) 3 2#64 1 := by
  refine ⟨by decide, fun j' hj' => ?_, fun _ => by decide⟩
  have : j' = 0 := by omega
  subst this; decide

end RV.C20
