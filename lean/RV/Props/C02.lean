import RV.Proofs.CacheOwnGet
/-!
# C02 — A value the cache has let go of is never served again

Theorems about `RV/Model/Cache.lean` for every configuration, every number of client threads and
every interleaving (`Reach cfg s`).  `Fresh s.log` (the values handed to `Set` are pairwise distinct
and non-zero) makes "that value" meaningful; it is a hypothesis on the *final* log and implies
freshness of every earlier log.  The log is newest first.

The places a non-zero value can be (`RV/Proofs/CacheOwnDefs.lean`): client-local (`CPc.own`: a new
value in `setStart`/`setUpd`/`setSend`/`setRetDrop`, or a value in *limbo* — removed from the store,
`OnExit` not yet called — in `setExit _ prev`/`delExit _ _ prev`), a buffered or blocked new item
(`BufElem.own`), applier-local (`APc.own`: the new item in `item`/`costed`/`added`, or limbo in
`victimEvict`/`tombStore`/`swStoreDel`/`swPolDel`), a store entry, an `exit v` event, a
`setRet _ v false` event.  Update items (`flag = upd`) carry a value that is also in the store and
own nothing.

* `own_unique` / `own_count` — every non-zero value occupies at most one place, with multiplicity.
* `c02_no_resurrection` — a `Get` that starts after `OnExit(v)` never returns `v`.
* `c02_overwrite_final` — once an overwrite (or a `Del`) has taken the old value out of the store,
  no later state has it in the store, so no later map read returns it.
-/
namespace RV.C02
open RV.Cache

/-- `own_unique`: in every reachable state with a `Fresh` log, a non-zero value `v` occupies at most
one place: the counted places (`View.cnt`: buffer, blocked senders, applier, store entries, `exit v`
and `setRet _ v false` events — with multiplicity) hold it at most once, and if some client thread
holds it then no counted place and no other thread does. -/
theorem own_unique {cfg : Cfg} {s : State} (hr : Reach cfg s) (hf : Fresh s.log) {v : Val} (hv : v ≠ 0) :
    s.view.cnt v ≤ 1 ∧ ∀ t, (s.cl t).own = v → s.view.cnt v = 0 ∧ ∀ t', (s.cl t').own = v → t' = t :=
  own_reach hr hv hf

/-- `own_count`: the count of the non-client places, spelled out. -/
theorem own_count {cfg : Cfg} {s : State} (hr : Reach cfg s) (hf : Fresh s.log) {v : Val} (hv : v ≠ 0) :
    bufCnt v s.buf + sqCnt v s.sendq + appCnt v s.app + storeCnt v s.store + deadCnt v s.log ≤ 1 :=
  (own_reach hr hv hf).1

/-- the places are pairwise disjoint, e.g.: a value held by a client (new or in limbo) is not in the store -/
theorem own_client_not_stored {cfg : Cfg} {s : State} (hr : Reach cfg s) (hf : Fresh s.log) {v : Val} (hv : v ≠ 0)
    {t : Tid} (ht : (s.cl t).own = v) {h : Hash} {e : Entry} (hl : s.store.lookup h = some e) : e.value ≠ v := by
  intro he
  have h0 := ((own_reach hr hv hf).2 t ht).1
  have h1 := storeCnt_pos_of_lookup hl he
  unfold View.cnt at h0
  have : storeCnt v s.view.store = storeCnt v s.store := rfl
  omega

/-- a stored value is stored under one key only -/
theorem own_store_once {cfg : Cfg} {s : State} (hr : Reach cfg s) (hf : Fresh s.log) {v : Val} (hv : v ≠ 0) :
    storeCnt v s.store ≤ 1 := by
  have := own_count hr hf hv; omega

/-- `c02_no_resurrection`: if `Get` call `getCall t h c now` produced the return `getRet t h c (some v)`
(no other `getCall` of thread `t` in between), then `OnExit(v)` had not been called before the call:
a `Get` that starts after `exit v` never returns `v`. -/
theorem c02_no_resurrection {cfg : Cfg} {s : State} (hr : Reach cfg s) (hf : Fresh s.log) {l3 l2 l1 : List Ev}
    {t : Tid} {h : Hash} {c : Conf} {now : Time} {v : Val} (hv : v ≠ 0)
    (hlog : s.log = l3 ++ Ev.getRet t h c (some v) :: (l2 ++ Ev.getCall t h c now :: l1))
    (hl2 : ∀ h' c' now', Ev.getCall t h' c' now' ∉ l2) : Ev.exit v ∉ l1 := by
  have hno : ∀ e ∈ l2, isGetCall t e = false := by
    intro e he
    cases e <;> simp only [isGetCall]
    case getCall t' h' c' now' =>
      by_cases ht : t' = t
      · subst ht; exact absurd he (hl2 h' c' now')
      · simpa using ht
  have := (getwin_reach hr hf).log l3 _ t h c v hlog hv
  rwa [beforeCall_at hno] at this

/-- once a value is in limbo at a client (`setExit _ prev` after the `store.Update` of an overwrite,
`delExit _ _ prev` after the `store.Del` of a `Del`) it is never in the store again -/
theorem c02_limbo_final {cfg : Cfg} {s s2 : State} (hr : Reach cfg s) {t : Tid} {v : Val} (hv : v ≠ 0)
    (hpc : (s.cl t).limbo = v) {acts : List Action} (hrun : run cfg s acts = some s2) (hf : Fresh s2.log)
    {h : Hash} {e : Entry} (hl : s2.store.lookup h = some e) : e.value ≠ v :=
  past_not_stored hv (own_reach (reach_run hr hrun) hv hf) (past_run hv hrun (Or.inl ⟨t, hpc⟩)) hl

/-- `c02_overwrite_final`: after the `store.Update` step of an overwrite (the client is at
`setExit i prev`, about to call `OnExit(prev)`), in no later state — whatever happens in between — is
`prev` in the store; hence no later map read (`getRead`, `ttlRead`, `IterValues`) returns it. -/
theorem c02_overwrite_final {cfg : Cfg} {s s2 : State} (hr : Reach cfg s) {t : Tid} {i : Item} {prev : Val}
    (hv : prev ≠ 0) (hpc : s.cl t = .setExit i prev) {acts : List Action} (hrun : run cfg s acts = some s2)
    (hf : Fresh s2.log) {h : Hash} {e : Entry} (hl : s2.store.lookup h = some e) : e.value ≠ prev :=
  c02_limbo_final hr hv (by rw [hpc]; rfl) hrun hf hl

/-- the same after `OnExit(v)` has been called: `v` is never in the store again -/
theorem c02_exited_final {cfg : Cfg} {s s2 : State} (hr : Reach cfg s) {v : Val} (hv : v ≠ 0)
    (hex : Ev.exit v ∈ s.log) {acts : List Action} (hrun : run cfg s acts = some s2) (hf : Fresh s2.log)
    {h : Hash} {e : Entry} (hl : s2.store.lookup h = some e) : e.value ≠ v :=
  past_not_stored hv (own_reach (reach_run hr hrun) hv hf) (past_run hv hrun (Or.inr hex)) hl

/-! ## Non-vacuity -/

def cfg0 : Cfg :=
  { bufCap := 2, ignoreInternal := true, costFn := none, shouldUpdate := none, metricsOn := false, maxCost := 100 }

/-- `Set(h/c, v)` by thread `t`, applied by the applier (admitted, no victims) -/
def setApplied (t : Tid) (h : Hash) (c : Conf) (v : Val) : List Action :=
  [.spawn t (.set h c v 1 0), .client t .none, .client t .none, .client t .none, .client t .none,
   .applier .selItem, .applier .none, .applier (.add [] true), .applier .none]

/-- `Set(5/1, 7)` applied; thread 2's `Get(5/1)` reads the entry; thread 3's `Set(5/1, 8)` overwrites it and
calls `OnExit(7)`; then the `Get` returns the `7` it had read: `exit 7` lies between the call and the return. -/
def demoStaleGet : List Action :=
  setApplied 1 5#64 1#64 7 ++
  [.spawn 2 (.get 5#64 1#64), .client 2 .none, .client 2 .none,
   .spawn 3 (.set 5#64 1#64 8 1 0), .client 3 .none, .client 3 .none, .client 3 .none,
   .client 2 .none, .client 2 .none]

theorem demo_stale_log : (run cfg0 (init cfg0 0) demoStaleGet).map (·.log) =
    some [.getRet 2 5#64 1#64 (some 7), .exit 7, .setExp 3 8 Gen.zeroTime, .setCall 3 5#64 1#64 8 1 0,
          .getCall 2 5#64 1#64 0, .setRet 1 7 true, .setExp 1 7 Gen.zeroTime, .setCall 1 5#64 1#64 7 1 0] := by
  decide

theorem reach_of_run {cfg : Cfg} {now : Time} {acts : List Action} {s : State}
    (h : run cfg (init cfg now) acts = some s) : Reach cfg s := ⟨now, acts, h⟩

/-- `c02_no_resurrection` is not vacuous, and tight: a reachable state with a `Fresh` log in which a
`Get` returns `7` *after* `exit 7` — possible only because the `Get` had started before the exit. -/
example : ∃ s, Reach cfg0 s ∧ Fresh s.log ∧ ∃ l2 l1, s.log =
    [] ++ Ev.getRet 2 5#64 1#64 (some 7) :: (l2 ++ Ev.getCall 2 5#64 1#64 0 :: l1) ∧
    (∀ h' c' now', Ev.getCall 2 h' c' now' ∉ l2) ∧ Ev.exit 7 ∈ l2 ∧ Ev.exit 7 ∉ l1 := by
  obtain ⟨s, hs, hl⟩ := Option.map_eq_some_iff.mp demo_stale_log
  refine ⟨s, reach_of_run hs, ?_, [.exit 7, .setExp 3 8 Gen.zeroTime, .setCall 3 5#64 1#64 8 1 0], _, hl, ?_, ?_, ?_⟩
  · rw [hl]; unfold Fresh; decide
  · intro h' c' now'; simp
  · simp
  · simp

/-- `own_unique` / `c02_overwrite_final` are not vacuous: a reachable state in which thread 3 is at
`setExit _ 7` (the overwrite has taken effect, `OnExit(7)` not yet called): `7` is in limbo, `8` is in
the store. -/
example : ∃ s, Reach cfg0 s ∧ Fresh s.log ∧ (s.cl 3).limbo = 7 ∧
    s.store.lookup 5#64 = some ⟨1#64, 8, Gen.zeroTime⟩ := by
  have : (run cfg0 (init cfg0 0) (demoStaleGet.take 15)).map
      (fun s => (s.log, (s.cl 3).limbo, s.store.lookup 5#64)) =
      some ([.setExp 3 8 Gen.zeroTime, .setCall 3 5#64 1#64 8 1 0,
          .getCall 2 5#64 1#64 0, .setRet 1 7 true, .setExp 1 7 Gen.zeroTime, .setCall 1 5#64 1#64 7 1 0],
        7, some ⟨1#64, 8, Gen.zeroTime⟩) := by decide
  obtain ⟨s, hs, hl⟩ := Option.map_eq_some_iff.mp this
  simp only [Prod.mk.injEq] at hl
  refine ⟨s, reach_of_run hs, ?_, hl.2.1, hl.2.2⟩
  rw [hl.1]; unfold Fresh; decide

end RV.C02
