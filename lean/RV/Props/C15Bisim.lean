import RV.Proofs.CacheBisimExamples
/-!
# C15 — "after `Clear` the cache behaves like a newly created cache": the bisimulation

`RV/Props/C15.lean` proves that an un-overlapped `Clear` leaves a `FreshSt` state
(`c15_clear_fresh`) and that such a state with every client idle *equals* the initial state of a
new cache up to `closedMarkers / nextMarker / clock / log / ringPending / lastCleaned`
(`c15_fresh_equiv`).  This file proves the behavioural statement: the cleared cache and a newly
created cache are **bisimilar** (`c15_sim_step`, `c15_sim_run_*`, `c15_fresh_bisim`): every
action sequence is enabled on the one iff it is enabled on the other, and the two runs append
literally the same events (calls, results, callbacks) to the ghost log.

## The relation `Sim d s₁ s₂` (`RV.Cache.BSim`, `RV/Proofs/CacheBisimDefs.lean`)

`s₁` (cleared cache) is `s₂` (new cache) with every wait-marker id shifted by the constant `d`:

* **markers.**  Marker ids occur only in `BufElem.marker` (in `buf`, `sendq`), `APc.marker`,
  `CPc.waitBlocked`, `CPc.waitRecv`, `nextMarker`, `closedMarkers`.  `Action`, `Choice` and `Ev`
  carry none, so the matching action is the *same* action and the appended events are *equal*,
  not merely equal up to renaming.  At the base point (`FreshSt`, all clients idle, hence empty
  buffer and no blocked sender) no marker id is in use, so the renaming is the shift by
  `d = s₁.nextMarker` (the new cache starts counting at 0): `buf`, `sendq`, `app`, `cl` are related
  by `bsE/bsQ/bsA/bsC d`, `s₁.nextMarker = s₂.nextMarker + d`, and
  `id + d ∈ s₁.closedMarkers ↔ id ∈ s₂.closedMarkers`.  The ids `< d` in `s₁.closedMarkers` are
  stale garbage of the time before the `Clear`: nothing in `s₁` refers to them (every id in use is
  `≥ d`), so they are unconstrained.
* **equal**: `store`, `em` (including the sweep position `lastCleaned`), `pol` (including the
  current `MaxCost`), `met`, `closed`, and
  * `clock`: the clocks must be EQUAL, not merely related: `getCall / ttlCall / iterCall` events
    carry the clock, and TTL decisions (`Get`, `GetTTL`, `IterValues`, the sweep) read it;
  * `ringPending`: the enabledness of `Choice.flush kept n` depends on it (`n ≤ ringPending + 1`)
    and the flush adds `n` to the `GetsKept / GetsDropped` metrics.  `Clear` does not reset the `Get`
    ring, in the model as in cache.go (DESIGN.md 0a "Observation"): the bisimulation holds from a
    cleared cache whose ring is empty and is FALSE otherwise
    (`c15_fresh_bisim_ring_counterexample`).
* **logs** are unrelated (the cleared cache has a history); the step / run theorems say that both
  sides *append* the same list of events.

## The reference state

`newAt cfg m now0 clk`: the cache created (`init`) at instant `now0` with `Config.MaxCost = m`, after
`clk - now0` nanoseconds without any call — a reachable state of the new cache (`c15_newAt_reach`).
For a reachable cleared cache `now0 ≤ clock` is the instant whose cleanup bucket is the sweep
position (`lastCleaned` is written only by `NewCache`, by the sweep and by `Clear`, always with
the bucket of the current clock): typically the instant of the `Clear`'s `expiryMap.clear()`.
`Config.MaxCost` is read by `NewCache` only (`c15_step_maxCost`), the new cache gets the cleared
cache's *current* `MaxCost`.

## Not covered

* a cleared cache with pending `Get`-ring entries (counterexample above; the direction
  "new cache ⊑ cleared cache" would survive with `≤` on `ringPending`, not stated);
* a base point at which other clients are inside calls (`c15_clear_fresh` only gives *quiet* other
  clients; here every client must be idle, so that no marker id is in use and the renaming is a
  shift) — the step and run theorems themselves hold for arbitrary `Sim`-related states;
* with metrics off the relation still demands `met` equal; for reachable states that is automatic
  (`met` is never written, `RV.Cache.bsInv_reach`).
-/
namespace RV.C15Bisim
open RV RV.Cache Gen.Cache

/-- the simulation relation, see the module comment and `RV.Cache.BSim` -/
abbrev Sim (d : Nat) (s₁ s₂ : State) : Prop := BSim d s₁ s₂

/-- **One step, both directions at once.**  From `Sim`-related states the same action is enabled
on both sides or on neither; if enabled, the successors are related again and the two steps
appended the same events to the two logs. -/
theorem c15_sim_step {cfg : Cfg} {d : Nat} {s₁ s₂ : State} (h : Sim d s₁ s₂) (a : Action) :
    match step cfg s₁ a, step cfg s₂ a with
    | some s₁', some s₂' => Sim d s₁' s₂' ∧ ∃ evs, s₁'.log = evs ++ s₁.log ∧ s₂'.log = evs ++ s₂.log
    | none, none => True
    | _, _ => False := by
  have := bsim_step (cfg := cfg) h a
  cases h1 : step cfg s₁ a <;> cases h2 : step cfg s₂ a <;> rw [h1, h2] at this <;> exact this

theorem c15_sim_step_left {cfg : Cfg} {d : Nat} {s₁ s₂ s₁' : State} {a : Action} (h : Sim d s₁ s₂)
    (hs : step cfg s₁ a = some s₁') :
    ∃ s₂', step cfg s₂ a = some s₂' ∧ Sim d s₁' s₂' ∧
      ∃ evs, s₁'.log = evs ++ s₁.log ∧ s₂'.log = evs ++ s₂.log := by
  have := bsim_step (cfg := cfg) h a
  rw [hs] at this
  exact this.left

theorem c15_sim_step_right {cfg : Cfg} {d : Nat} {s₁ s₂ s₂' : State} {a : Action} (h : Sim d s₁ s₂)
    (hs : step cfg s₂ a = some s₂') :
    ∃ s₁', step cfg s₁ a = some s₁' ∧ Sim d s₁' s₂' ∧
      ∃ evs, s₁'.log = evs ++ s₁.log ∧ s₂'.log = evs ++ s₂.log := by
  have := bsim_step (cfg := cfg) h a
  rw [hs] at this
  exact this.right

/-- runs: every action sequence of the left state is an action sequence of the right state, with
the same appended events -/
theorem c15_sim_run {cfg : Cfg} {d : Nat} {s₁ s₂ s₁' : State} {acts : List Action} (h : Sim d s₁ s₂)
    (hr : run cfg s₁ acts = some s₁') :
    ∃ s₂', run cfg s₂ acts = some s₂' ∧ Sim d s₁' s₂' ∧
      ∃ evs, s₁'.log = evs ++ s₁.log ∧ s₂'.log = evs ++ s₂.log := by
  have := bsim_run (cfg := cfg) h acts
  rw [hr] at this
  exact this.left

/-- and conversely -/
theorem c15_sim_run_right {cfg : Cfg} {d : Nat} {s₁ s₂ s₂' : State} {acts : List Action} (h : Sim d s₁ s₂)
    (hr : run cfg s₂ acts = some s₂') :
    ∃ s₁', run cfg s₁ acts = some s₁' ∧ Sim d s₁' s₂' ∧
      ∃ evs, s₁'.log = evs ++ s₁.log ∧ s₂'.log = evs ++ s₂.log := by
  have := bsim_run (cfg := cfg) h acts
  rw [hr] at this
  exact this.right

/-- an action sequence is not enabled on one side iff it is not enabled on the other -/
theorem c15_sim_run_none_iff {cfg : Cfg} {d : Nat} {s₁ s₂ : State} (h : Sim d s₁ s₂) (acts : List Action) :
    run cfg s₁ acts = none ↔ run cfg s₂ acts = none := (bsim_run (cfg := cfg) h acts).none_iff

/-- a non-trivial instance of `Sim` (shift 1, a marker in the buffer, a client waiting for it, a
stale closed id on the left): the cleared cache of the example further down after the first three
actions of the continuation, against the new cache after the same three actions -/
example : ∃ s₁ s₂, Sim 1 s₁ s₂ ∧ s₁.buf = [.marker 1] ∧ s₂.buf = [.marker 0] ∧
    s₁.cl 2 = .waitRecv 1 ∧ s₂.cl 2 = .waitRecv 0 ∧ s₁.closedMarkers = [0] ∧ s₂.closedMarkers = [] := by
  obtain ⟨s, hrun, hf, hidle, hring, hnm, hcm, hmc, hclk, hlc⟩ := bxFresh
  have hbase : Sim 1 s (newAt exCfg 100 0 0) := by
    have := bsim_fresh_base (now0 := 0) hf hidle hring (hf.met rfl) hlc (by rw [hcm, hnm]; simp)
    rw [hnm, hmc, hclk] at this
    exact this
  obtain ⟨hm1, hm2⟩ := bxMid_facts
  cases hfull : run exCfg (init exCfg 0) (bxPre ++ bxCont.take 3) with
  | none => rw [hfull] at hm1; simp at hm1
  | some s₁ =>
    obtain ⟨s0, h0, h1⟩ := run_split hfull
    rw [hrun] at h0; cases h0
    obtain ⟨s₂, h2, hsim, _⟩ := c15_sim_run hbase h1
    rw [hfull] at hm1
    rw [h2] at hm2
    simp only [Option.map_some, Option.some.injEq, Prod.mk.injEq] at hm1 hm2
    exact ⟨s₁, s₂, hsim, hm1.1, hm2.1, hm1.2.1, hm2.2.1, hm1.2.2.2, hm2.2.2.2⟩

/-! ### the reference state and the base point -/

/-- `Config.MaxCost` is read by `NewCache` (`init`) only: steps do not depend on it -/
theorem c15_step_maxCost (cfg : Cfg) (m : Int) (s : State) (a : Action) :
    step { cfg with maxCost := m } s a = step cfg s a := step_maxCost cfg m s a

/-- the reference state `newAt cfg m now0 clk` is a state of the cache newly created at `now0` with
`MaxCost = m`: `NewCache`, then `clk - now0` ns pass without any call -/
theorem c15_newAt_reach (cfg : Cfg) (m : Int) {now0 clk : Int} (h : now0 ≤ clk) :
    run { cfg with maxCost := m } (init { cfg with maxCost := m } now0) [.tick (clk - now0).toNat] =
        some (newAt cfg m now0 clk) ∧
      Reach { cfg with maxCost := m } (newAt cfg m now0 clk) := ⟨newAt_run cfg m h, newAt_reach cfg m h⟩

/-- **Base point.**  A `FreshSt` state (what an un-overlapped `Clear` returns, `c15_clear_fresh`) with
every client idle, an empty `Get` ring, zero metrics, sweep position `cleanupBucket now0`, and closed
marker ids below the marker counter is `Sim`-related, with shift `nextMarker`, to the cache created
at `now0` with the current `MaxCost` and aged to the current clock. -/
theorem c15_fresh_sim_base {cfg : Cfg} {s : State} {now0 : Time} (hf : FreshSt cfg s)
    (hidle : ∀ t, s.cl t = .idle) (hring : s.ringPending = 0) (hmet : s.met = {})
    (hlc : s.em.lastCleaned = cleanupOf now0) (hcm : ∀ id ∈ s.closedMarkers, id < s.nextMarker) :
    Sim s.nextMarker s (newAt cfg s.pol.maxCost now0 s.clock) :=
  bsim_fresh_base hf hidle hring hmet hlc hcm

/-- **`fresh_bisim`.**  Let `s` be a reachable returned-from-`Clear` state (`FreshSt`), every client
idle, the `Get` ring empty.  There is an instant `now0 ≤ s.clock` (the one whose cleanup bucket is the
sweep position) such that `s` is bisimilar to the cache `N` newly created at `now0` with
`Config.MaxCost` = the current `MaxCost` and aged to `s.clock` (a reachable state of that new cache):
for every action sequence `acts`
* if it is enabled from `s` it is enabled from `N`, the end states are `Sim`-related, and the log of
  the cleared cache is the log of the new cache's run put in front of the old log — the same calls,
  the same results, the same callbacks in the same order;
* conversely;
* it is disabled from `s` iff it is disabled from `N`. -/
theorem c15_fresh_bisim {cfg : Cfg} {s : State} (hr : Reach cfg s) (hf : FreshSt cfg s)
    (hidle : ∀ t, s.cl t = .idle) (hring : s.ringPending = 0) :
    ∃ now0, now0 ≤ s.clock ∧ s.em.lastCleaned = cleanupOf now0 ∧
      Reach { cfg with maxCost := s.pol.maxCost } (newAt cfg s.pol.maxCost now0 s.clock) ∧
      Sim s.nextMarker s (newAt cfg s.pol.maxCost now0 s.clock) ∧
      ∀ acts : List Action,
        (∀ s', run cfg s acts = some s' →
          ∃ r', run { cfg with maxCost := s.pol.maxCost } (newAt cfg s.pol.maxCost now0 s.clock) acts = some r' ∧
            Sim s.nextMarker s' r' ∧ s'.log = r'.log ++ s.log) ∧
        (∀ r', run { cfg with maxCost := s.pol.maxCost } (newAt cfg s.pol.maxCost now0 s.clock) acts = some r' →
          ∃ s', run cfg s acts = some s' ∧ Sim s.nextMarker s' r' ∧ s'.log = r'.log ++ s.log) ∧
        (run cfg s acts = none ↔
          run { cfg with maxCost := s.pol.maxCost } (newAt cfg s.pol.maxCost now0 s.clock) acts = none) := by
  obtain ⟨now0, hle, hlc, hsim⟩ := bsim_fresh_reach hr hf hidle hring
  refine ⟨now0, hle, hlc, newAt_reach cfg _ hle, hsim, fun acts => ?_⟩
  simp only [run_maxCost cfg s.pol.maxCost (newAt cfg s.pol.maxCost now0 s.clock) acts]
  have hlog : ∀ {s' r' : State} {evs : List Ev}, s'.log = evs ++ s.log →
      r'.log = evs ++ (newAt cfg s.pol.maxCost now0 s.clock).log → s'.log = r'.log ++ s.log := by
    intro s' r' evs h1 h2
    have : r'.log = evs := by rw [h2]; exact List.append_nil evs
    rw [this, h1]
  refine ⟨fun s' hs' => ?_, fun r' hr' => ?_, c15_sim_run_none_iff hsim acts⟩
  · obtain ⟨r', h1, h2, evs, h3, h4⟩ := c15_sim_run hsim hs'
    exact ⟨r', h1, h2, hlog h3 h4⟩
  · obtain ⟨s', h1, h2, evs, h3, h4⟩ := c15_sim_run_right hsim hr'
    exact ⟨s', h1, h2, hlog h3 h4⟩

/-- the hypotheses of `c15_fresh_bisim` are satisfiable with a non-trivial shift: a cache that did a
`Set` and a `Wait` (marker counter 1, closed marker 0) and then an un-overlapped `Clear` is reachable,
`FreshSt`, idle, with an empty ring; the continuation `bxCont` — a `Wait` (marker id 1 here, 0 on a new
cache) overlapping a `Set(6 ↦ 8)`, applier steps, a clock tick, a `Get(6)` that hits — is enabled from
it, and (evaluated independently of the theorem) appends exactly the events it appends on the new
cache: `waitCall, setCall, setExp, setRet true, waitRet, getCall, getRet (some 8)` -/
example : ∃ s, Reach exCfg s ∧ FreshSt exCfg s ∧ (∀ t, s.cl t = .idle) ∧ s.ringPending = 0 ∧
    0 < s.nextMarker ∧ s.closedMarkers ≠ [] ∧
    ∃ s' r', run exCfg s bxCont = some s' ∧ run exCfg (newAt exCfg s.pol.maxCost 0 s.clock) bxCont = some r' ∧
      s'.log.take 7 = r'.log ∧
      r'.log = [.getRet 3 6#64 0#64 (some 8), .getCall 3 6#64 0#64 5, .waitRet 2, .setRet 1 8 true,
        .setExp 1 8 Gen.zeroTime, .setCall 1 6#64 0#64 8 1 0, .waitCall 2] ∧
      s'.nextMarker = 2 ∧ r'.nextMarker = 1 := by
  obtain ⟨s, hrun, hf, hidle, hring, hnm, hcm, hmc, hclk, hlc⟩ := bxFresh
  obtain ⟨he1, he2, he3, he4⟩ := bxCont_events
  refine ⟨s, ⟨0, bxPre, hrun⟩, hf, hidle, hring, by omega, by rw [hcm]; simp, ?_⟩
  rw [hmc, hclk]
  cases hfull : run exCfg (init exCfg 0) (bxPre ++ bxCont) with
  | none => rw [hfull] at he3; simp at he3
  | some s' =>
    obtain ⟨s0, h0, h1⟩ := run_split hfull
    rw [hrun] at h0; cases h0
    cases hnew : run exCfg (newAt exCfg 100 0 0) bxCont with
    | none => rw [hnew] at he2; simp at he2
    | some r' =>
      rw [hfull, hnew] at he1
      rw [hnew] at he2 he4
      rw [hfull] at he3
      simp only [Option.map_some, Option.some.injEq, Prod.mk.injEq] at he1 he2 he3 he4
      exact ⟨s', r', h1, rfl, he1, he2, he3.1, he4.1⟩

/-- **`Clear`, then bisimilar to a new cache.**  `c15_clear_fresh` composed with `c15_fresh_bisim`: a
`Clear` of client `t` that is un-overlapped from its drain phase on (other clients quiet, no spawn),
at whose restart point the other clients are idle and the `Get` ring is empty, returns (one more step
of `t`) into a state that is bisimilar to a newly created cache. -/
theorem c15_clear_then_bisim {cfg : Cfg} {s0 s1 : State} {t : Tid} {acts0 : List Action}
    (hr : Reach cfg s0) (hcap : 1 ≤ cfg.bufCap) (hpc0 : s0.cl t = .clrDrain false)
    (hq : ∀ t', t' ≠ t → (s0.cl t').quiet = true) (hns : ∀ a ∈ acts0, a.isSpawn = false)
    (hrun : run cfg s0 acts0 = some s1) (hpc1 : s1.cl t = .clrRestart false)
    (hidle : ∀ t', t' ≠ t → s1.cl t' = .idle) (hring : s1.ringPending = 0) :
    step cfg s1 (.client t .none) = some (stClrRestart s1 t false) ∧
    ∃ now0, now0 ≤ s1.clock ∧
      Reach { cfg with maxCost := s0.pol.maxCost } (newAt cfg s0.pol.maxCost now0 s1.clock) ∧
      ∀ acts : List Action,
        (∀ s', run cfg (stClrRestart s1 t false) acts = some s' →
          ∃ r', run { cfg with maxCost := s0.pol.maxCost } (newAt cfg s0.pol.maxCost now0 s1.clock) acts = some r' ∧
            Sim s1.nextMarker s' r' ∧ s'.log = r'.log ++ (stClrRestart s1 t false).log) ∧
        (∀ r', run { cfg with maxCost := s0.pol.maxCost } (newAt cfg s0.pol.maxCost now0 s1.clock) acts = some r' →
          ∃ s', run cfg (stClrRestart s1 t false) acts = some s' ∧ Sim s1.nextMarker s' r' ∧
            s'.log = r'.log ++ (stClrRestart s1 t false).log) := by
  obtain ⟨hstep, hfresh, hmax, _⟩ := clear_fresh hr hcap hpc0 hq hns hrun hpc1
  refine ⟨hstep, ?_⟩
  have hr1 : Reach cfg s1 := run_induction (P := Reach cfg) hr (fun _ _ _ _ hp hs => hp.of_step hs) hrun
  have hr2 : Reach cfg (stClrRestart s1 t false) := hr1.of_step hstep
  have hidle2 : ∀ t', (stClrRestart s1 t false).cl t' = .idle := by
    intro t'
    by_cases e : t' = t
    · subst e; simp [stClrRestart]
    · rw [stClrRestart_cl_ne s1 t false e]; exact hidle t' e
  obtain ⟨now0, hle, _, hreach, _, hb⟩ :=
    c15_fresh_bisim hr2 hfresh hidle2 (by rw [stClrRestart_ringPending]; exact hring)
  rw [hmax, stClrRestart_clock, stClrRestart_nextMarker] at hb
  rw [hmax, stClrRestart_clock] at hreach
  rw [stClrRestart_clock] at hle
  exact ⟨now0, hle, hreach, fun acts => ⟨(hb acts).1, (hb acts).2.1⟩⟩

/-- the hypotheses of `c15_clear_then_bisim` are satisfiable with a non-zero marker counter: a `Clear`
issued after a `Set` and a served `Wait` (`bxDrainStart`), 260 un-overlapped steps (`bxBody`) -/
example : ∃ s0 s1 acts0, Reach exCfg s0 ∧ 1 ≤ exCfg.bufCap ∧ s0.cl 0 = .clrDrain false ∧
    (∀ t', t' ≠ 0 → (s0.cl t').quiet = true) ∧ (∀ a ∈ acts0, a.isSpawn = false) ∧
    run exCfg s0 acts0 = some s1 ∧ s1.cl 0 = .clrRestart false ∧ (∀ t', t' ≠ 0 → s1.cl t' = .idle) ∧
    s1.ringPending = 0 ∧ s1.nextMarker = 1 := by
  obtain ⟨s0, s1, h1, h2, h3, h4, h5, h6, h7, h8, h9⟩ := bxClearHyps
  exact ⟨s0, s1, bxBody, h1, by decide, h2, h3, h4, h5, h6, h7, h8, h9⟩

/-- **Why `ringPending = 0`.**  `Clear` does not reset the `Get` ring (cache.go: `Clear` does not touch
`getBuf`; DESIGN.md 0a "Observation").  A reachable returned-from-`Clear` state, `FreshSt`, every client
idle, with one `Get` key still sitting in a ring stripe enables a `Get` whose ring push flushes two
keys to the policy (`Choice.flush true 2`, adding 2 to `GetsKept`); no newly created cache — whatever
its creation instant — enables that sequence.  So `c15_fresh_bisim` is false without the hypothesis
`s.ringPending = 0`. -/
theorem c15_fresh_bisim_ring_counterexample :
    ∃ s, Reach exCfg s ∧ FreshSt exCfg s ∧ (∀ t, s.cl t = .idle) ∧ s.ringPending = 1 ∧
      ∃ acts, (∃ s', run exCfg s acts = some s') ∧
        ∀ now0, run exCfg (newAt exCfg s.pol.maxCost now0 s.clock) acts = none :=
  fresh_bisim_ring_counterexample

end RV.C15Bisim
