import RV.Proofs.CacheRoomSim
/-!
# C06 — "with room to spare": the static cost bound implies the room the refinement needs

`c06_refines` (RV/Props/C06.lean) assumes `RoomAt` in every state of the run: whenever the applier
offers a new-item to `policy.Add`, `cost ≤ MaxCost` and `used + cost ≤ MaxCost`.  The property's own
wording is static: *the sum, over the distinct keys, of the largest cost ever given to the key is at
most `MaxCost`*.  This file proves that the static bound is enough.

Definitions (`RV/Proofs/CacheRoomSum.lean`), all over the ghost log:
* `effCost cfg v cost` — the cost after the applier's pre-processing, i.e. the model's own `itemCost`
  (`Config.Cost` when the cost is 0, plus the internal per-item cost unless ignored; generated kernels
  `useCostFn`, `addInternalCost`, `itemSize`) of the item `Set(_, v, cost)` builds;
* `keyMax cfg log k` — the largest effective cost of the `setCall`s of key `k` (and 0: with
  non-negative costs this is the plain maximum; negative costs count as 0, so no sign hypothesis is
  needed anywhere below);
* `staticSum cfg log` — Σ of `keyMax` over the *distinct* keys of the `setCall`s of `log`.

Theorems.
* `c06_cost_provenance` / `c06_accounted_le_max` (every reachable state, any number of clients,
  `Clear`, evictions, sweeps): every cost the policy accounts for a key is the effective cost of a
  logged `Set` of that key, hence ≤ `keyMax`; `c06_used_le_static`: `used ≤ staticSum`.
* `c06_room_static`: in every state of a single-client map-interface run (`ActOk`, as in
  `c06_refines`; in particular no `UpdateMaxCost`) whose final log satisfies
  `staticSum ≤ MaxCost`: `MaxCost` is still the configured one and `WeakRoomAt` holds — the offered
  new-item fits, and fits next to everything accounted **when its key is not accounted yet**.
* `roomAt_static_counterexample`: the literal `RoomAt` is NOT implied by the static bound — when a
  second new-item for an already accounted key reaches `policy.Add` (two `Set`s of a non-resident key
  buffered before the applier runs), `used + cost` counts the key twice.  `policy.Add` then only
  re-costs the key, room is irrelevant; `c06_roomAt_static_partial` gives `RoomAt` under the extra
  hypothesis that the offered key is not accounted.
* `c06_refines_static`: the refinement of `c06_refines` with the `RoomAt` hypothesis replaced by the
  static bound (and `c06_refines_step_weak`: one step, with `WeakRoomAt`).
-/
namespace RV.C06Room
open RV RV.Cache

/-- Every cost the capacity accounting holds for a key is the effective cost (`effCost`: after
`Config.Cost` / internal-cost pre-processing) of a logged `Set` of that key — in every reachable state. -/
theorem c06_cost_provenance {cfg : Cfg} {s : State} (h : Reach cfg s) {k : Hash} {c : Int}
    (hk : s.pol.costs.lookup k = some c) :
    ∃ t cf v cost ttl, Ev.setCall t k cf v cost ttl ∈ s.log ∧ effCost cfg v cost = c := by
  obtain ⟨v, cost, ⟨t, cf, ttl, hm⟩, he⟩ := (cost_inv h).pol k c hk
  exact ⟨t, cf, v, cost, ttl, hm, he⟩

/-- … hence at most the largest effective cost ever given to that key. -/
theorem c06_accounted_le_max {cfg : Cfg} {s : State} (h : Reach cfg s) {k : Hash} {c : Int}
    (hk : s.pol.costs.lookup k = some c) : c ≤ keyMax cfg s.log k ∧ k ∈ setKeys s.log :=
  ((cost_inv h).pol k c hk).le_keyMax

/-- The accounted total never exceeds the static sum — every reachable state, any number of clients. -/
theorem c06_used_le_static {cfg : Cfg} {s : State} (h : Reach cfg s) : s.pol.used ≤ staticSum cfg s.log := by
  have hwf := (acct_reach h).wf
  have h1 : s.pol.costs.sum ≤ (s.pol.costs.keys.map (keyMax cfg s.log)).sum :=
    amap_sum_le _ _ hwf.nodup (fun k c hk => (c06_accounted_le_max h hk).1)
  have h2 := sum_le_staticSum cfg s.log s.pol.costs.keys hwf.nodup (by
    intro k hk
    have := AMap.lookup_isSome_of_mem_keys hk
    cases hl : s.pol.costs.lookup k with
    | none => rw [hl] at this; cases this
    | some c => exact (c06_accounted_le_max h hl).2)
  rw [hwf.sum]; omega

/-- **Room from the static bound.**  Single-client map-interface run (`ActOk`), final log with
`staticSum ≤ MaxCost`: in every state `s1` of the run `MaxCost` is the configured one and whenever
the applier offers a new-item to `policy.Add` it fits, and `used + cost ≤ MaxCost` if its key is not
accounted yet (`WeakRoomAt`). -/
theorem c06_room_static {cfg : Cfg} {t0 : Tid} {now : Time} {s : State} {acts : List Action}
    (hsu : cfg.shouldUpdate = none) (hacts : ∀ a ∈ acts, ActOk t0 a)
    (hr : run cfg (init cfg now) acts = some s) (hsum : staticSum cfg s.log ≤ cfg.maxCost) :
    ∀ as1 as2 s1, acts = as1 ++ as2 → run cfg (init cfg now) as1 = some s1 →
      s1.pol.maxCost = cfg.maxCost ∧ WeakRoomAt s1 := by
  intro as1 as2 s1 hsplit hr1
  have hr2 : run cfg s1 as2 = some s := run_append_some hr1 (by rw [← hsplit]; exact hr)
  obtain ⟨n, hn⟩ := run_log hr2
  have hsum1 : staticSum cfg s1.log ≤ cfg.maxCost :=
    Int.le_trans (staticSum_mono cfg n s1.log) (by rw [← hn]; exact hsum)
  have hmax := (sim_run_static hsu (fun a ha => hacts a (by rw [hsplit]; exact List.mem_append_left _ ha)) hr1 hsum1).2
  exact ⟨hmax, weakRoom_of_static (evs := []) (reach_of_run_f hr1) hmax (by simpa using hsum1)⟩

/-- `RoomAt` itself, for the states in which the offered key is not accounted yet. -/
theorem c06_roomAt_static_partial {cfg : Cfg} {t0 : Tid} {now : Time} {s : State} {acts : List Action}
    (hsu : cfg.shouldUpdate = none) (hacts : ∀ a ∈ acts, ActOk t0 a)
    (hr : run cfg (init cfg now) acts = some s) (hsum : staticSum cfg s.log ≤ cfg.maxCost)
    {as1 as2 : List Action} {s1 : State} (hsplit : acts = as1 ++ as2) (hr1 : run cfg (init cfg now) as1 = some s1)
    (hfresh : ∀ i, s1.app = .costed i → i.flag = .new → s1.pol.costs.lookup i.key = none) : RoomAt s1 := by
  intro i ha hf
  have := (c06_room_static hsu hacts hr hsum as1 as2 s1 hsplit hr1).2 i ha hf
  exact ⟨this.1, this.2 (hfresh i ha hf)⟩

/-- **`c06_refines_static`.**  As `c06_refines`, with the `RoomAt` hypothesis replaced by the static
bound of the property: for every run of the model from its initial state whose actions are `ActOk t0`
(a single client issuing only `Set`/`SetWithTTL`/`Get`/`GetTTL`/`Del`/`Wait`, hence no
`UpdateMaxCost`; applier, sweep and clock arbitrary), with `ShouldUpdate` unset, in which the sum over
the distinct keys of the largest effective cost ever given to the key is at most `MaxCost`, there is
a run of the reference `Spec` with the same history of calls and results, ending in a `SimR`-related
state. -/
theorem c06_refines_static {cfg : Cfg} {t0 : Tid} {now : Time} {s : State} {acts : List Action}
    (hsu : cfg.shouldUpdate = none) (hacts : ∀ a ∈ acts, ActOk t0 a)
    (hr : run cfg (init cfg now) acts = some s) (hsum : staticSum cfg s.log ≤ cfg.maxCost) :
    ∃ sp, SpecRun t0 (Spec.init now) (obsOf s.log) sp ∧ SimR t0 s sp :=
  (sim_run_static hsu hacts hr hsum).1

/-- one step of the refinement needs only the weak form of room -/
theorem c06_refines_step_weak {cfg : Cfg} {t0 : Tid} {s s' : State} {sp : Spec} {a : Action}
    (hsu : cfg.shouldUpdate = none) (hr : Reach cfg s) (hR : SimR t0 s sp) (hroom : WeakRoomAt s)
    (hact : ActOk t0 a) (hs : step cfg s a = some s') :
    ∃ sp' evs, SpecStep t0 sp evs sp' ∧ SimR t0 s' sp' ∧ obsOf s'.log = evs ++ obsOf s.log :=
  sim_step_w hsu hr hR hroom hact hs

/-- new-items and update-items are pre-processed alike: the effective cost depends on value and cost only -/
theorem c06_effCost_item (cfg : Cfg) (i : Item) (h : i.flag ≠ .del) : itemCost cfg i = effCost cfg i.value i.cost :=
  itemCost_eff cfg i h

/-! ## Concrete runs -/

def cfgR : Cfg :=
  { bufCap := 4, ignoreInternal := true, costFn := none, shouldUpdate := none, metricsOn := true, maxCost := 10 }
def kR : Hash := 7#64
def k2 : Hash := 9#64
def cl (t : Tid) (n : Nat) : List Action := List.replicate n (.client t .none)

/-- `Set k 11` (cost 6) and `Set k 12` (cost 6) by client 1, both buffered as new-items while the
applier is parked; the applier admits the first and pre-processes the second -/
def actsC1 : List Action :=
  [.spawn 1 (.set kR 0#64 11 6 0)] ++ cl 1 4 ++ [.spawn 1 (.set kR 0#64 12 6 0)] ++ cl 1 4 ++
  [.applier .selItem, .applier .none, .applier (.add [] true), .applier .none,
   .applier .selItem, .applier .none]
/-- the second new-item is re-costed and rejected; a `Set` of another key (cost 4) is admitted next
to it (6 + 4 = MaxCost); `Wait`; `Get k` returns 11 -/
def actsC2 : List Action :=
  [.applier (.add [] false), .applier .none] ++
  [.spawn 1 (.set k2 0#64 13 4 0)] ++ cl 1 4 ++
  [.applier .selItem, .applier .none, .applier (.add [] true), .applier .none] ++
  [.spawn 1 .wait] ++ cl 1 2 ++ [.applier .selItem, .applier .none] ++ cl 1 2 ++
  [.spawn 1 (.get kR 0#64)] ++ cl 1 4

theorem actsC1_ok : (run cfgR (init cfgR 0) actsC1).isSome = true := by rfl
def sC1 : State := (run cfgR (init cfgR 0) actsC1).get actsC1_ok
theorem run_C1 : run cfgR (init cfgR 0) actsC1 = some sC1 := by simp [sC1]
theorem actsC_ok : (run cfgR (init cfgR 0) (actsC1 ++ actsC2)).isSome = true := by rfl
def sC : State := (run cfgR (init cfgR 0) (actsC1 ++ actsC2)).get actsC_ok
theorem run_C : run cfgR (init cfgR 0) (actsC1 ++ actsC2) = some sC := by simp [sC]

/-- **The literal `RoomAt` does not follow from the static bound.**  Single client, `MaxCost = 10`,
one key with largest cost 6 (static sum 6 ≤ 10): after `Set k 11; Set k 12` with the applier parked,
the applier holds the second new-item with `used = 6`, `cost = 6`: `used + cost = 12 > MaxCost`, so
`RoomAt` fails — but the key is accounted, `WeakRoomAt` holds and `policy.Add` can only re-cost it. -/
theorem roomAt_static_counterexample :
    run cfgR (init cfgR 0) actsC1 = some sC1 ∧ (∀ a ∈ actsC1, ActOk 1 a) ∧
    staticSum cfgR sC1.log = 6 ∧ staticSum cfgR sC1.log ≤ cfgR.maxCost ∧
    ¬ RoomAt sC1 ∧ WeakRoomAt sC1 := by
  refine ⟨run_C1, fun a ha => actOk_of_B (List.all_eq_true.mp (by rfl : actsC1.all (actOkB 1) = true) a ha),
    by decide, by decide, ?_, ?_⟩
  · intro h
    have := (h ⟨.new, kR, 0#64, 12, 6, Gen.zeroTime⟩ (by rfl) rfl).2
    revert this; decide
  · exact (c06_room_static (cfg := cfgR) (t0 := 1) rfl
      (fun a ha => actOk_of_B (List.all_eq_true.mp (by rfl : actsC1.all (actOkB 1) = true) a ha))
      run_C1 (by decide) actsC1 [] sC1 (by simp) run_C1).2

/-- Non-vacuity of `c06_refines_static` (and of `c06_room_static`): the hypotheses hold for the run
`actsC1 ++ actsC2` — two keys with largest costs 6 and 4, `staticSum = 10 = MaxCost`, the cache is
filled exactly — on which `c06_refines` is NOT applicable (`RoomAt` fails in `sC1`, a state of the
run); the matched history has three `Set`s returning true, the `Wait` and a `Get` that hits. -/
example : staticSum cfgR sC.log = 10 ∧ sC.pol.used = 10 ∧
    ∃ sp, SpecRun 1 (Spec.init 0) (obsOf sC.log) sp ∧ SimR 1 sC sp :=
  ⟨by decide, by decide,
    c06_refines_static (cfg := cfgR) (t0 := 1) rfl
      (fun a ha => actOk_of_B (List.all_eq_true.mp (by rfl : (actsC1 ++ actsC2).all (actOkB 1) = true) a ha))
      run_C (by decide)⟩

example : obsOf sC.log =
    [.getRet 1 kR 0#64 (some 11), .getCall 1 kR 0#64 0, .waitRet 1, .waitCall 1,
     .setRet 1 13 true, .setCall 1 k2 0#64 13 4 0,
     .setRet 1 12 true, .setCall 1 kR 0#64 12 6 0, .setRet 1 11 true, .setCall 1 kR 0#64 11 6 0] := by rfl

/-- Non-vacuity of `c06_cost_provenance` / `c06_used_le_static`: in `sC` both keys are accounted with
the costs of their `Set`s, and `used = staticSum`. -/
example : Reach cfgR sC ∧ sC.pol.costs.lookup kR = some 6 ∧ sC.pol.costs.lookup k2 = some 4 ∧
    keyMax cfgR sC.log kR = 6 ∧ sC.pol.used ≤ staticSum cfgR sC.log :=
  ⟨reach_of_run_f run_C, by decide, by decide, by decide, c06_used_le_static (reach_of_run_f run_C)⟩

/-- the pre-processing in the effective cost: with the internal cost not ignored every `Set` weighs
`cost + 56` (`itemSize`), and `Config.Cost` replaces a zero cost -/
example : effCost { cfgR with ignoreInternal := false } 11 6 = 62 ∧
    effCost { cfgR with costFn := some (fun v => (v : Int) + 1) } 11 0 = 12 ∧
    effCost { cfgR with costFn := some (fun v => (v : Int) + 1) } 11 5 = 5 := by decide

end RV.C06Room
