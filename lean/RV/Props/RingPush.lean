import RV.Proofs.RingConserve
import RV.Proofs.RingRefine
import RV.Props.C18
/-!
# RingPush — the Get-side batching path (ring.go, `defaultPolicy.Push`, `processItems`, `tinyLFU.Push`)

Belongs to C17 ("GetsKept / GetsDropped"), C18 ("access frequencies") and C09.  The model is
`RV/Model/Ring.lean`: exact and sequential, built from the generated kernels of `Gen.Ring`
(drain decision, the two reset branches, the results and metric deltas of `defaultPolicy.Push`,
the capacity of `itemsCh`).  `Reach capa m t s`: `s` is reachable from a fresh ring buffer of
capacity `capa` (metrics on iff `m`, initial `tinyLFU` `t`) by **any** finite interleaving of
pushes onto any stripe of the pool, creations of stripes, losses of stripes (sync.Pool GC),
receives and applications by the policy goroutine, `Close`, `defaultPolicy.Clear` and
`Metrics.Clear`.

1. `conservation_perm` / `conservation` / `gets_kept_dropped_le` / `gets_exact`: every pushed key
   is in exactly one place; `GetsKept + GetsDropped ≤ #pushes` with equality modulo what is still
   buffered or lost.
2. `batch_exact` / `stripe_history` / `push_decision`: a batch handed to the consumer has exactly
   `BufferItems` keys, and the batches a stripe handed over, concatenated, followed by its
   present content, are exactly the keys pushed onto it, in order.
3. `no_invented_access` / `kept_estimate_lower`: every key the sketch has seen was pushed by a
   `Get`, each push at most once; the C18 lower bound counts the kept-and-applied accesses.
4. `refines_cache_push` / `refines_cache_stutter`: the Cache model's `ringPending` bookkeeping
   (`RV.Cache.stGetStart`) simulates the exact model.
-/
namespace RV.RingPush
open RV.Ring Gen.Ring

variable {capa : BitVec 64} {m : Bool} {t : RV.TinyLFU.TinyLFU} {s : Sys}

/-! ## concrete runs for the non-vacuity examples -/

/-- `NumCounters = 4`, doorkeeper of 512 bits and 7 locations (as in C18's examples) -/
def t0 : RV.TinyLFU.TinyLFU := RV.TinyLFU.new 4#64 #[1#64, 2#64, 3#64, 4#64] 38#64 7#64
def exSys (acts : List Act) : Sys := (run (init 2#64 true t0) acts).getD (init 2#64 true t0)
theorem exSys_reach {acts : List Act} (h : (run (init 2#64 true t0) acts).isSome = true) :
    Reach 2#64 true t0 (exSys acts) := by
  refine ⟨acts, ?_⟩
  unfold exSys
  cases hr : run (init 2#64 true t0) acts with
  | none => simp [hr] at h
  | some s => rfl

/-- `BufferItems = 2`.  Five batches of two keys: the first is received by the goroutine, the next
three fill `itemsCh` (capacity 3), the fifth is dropped; then one more key stays in stripe 0, a
second stripe is created and lost with one key in it, and the goroutine applies its batch. -/
def demo : List Act :=
  [.pushNew 7#64, .push 0 8#64, .recv,
   .push 0 7#64, .push 0 7#64, .push 0 9#64, .push 0 7#64, .push 0 7#64, .push 0 8#64,
   .push 0 5#64, .push 0 6#64,
   .push 0 7#64, .pushNew 3#64, .lose 1, .apply]

/-! ## (1) conservation -/

/-- **Conservation, as multisets**: in every reachable state the keys pushed by `Get`s are,
counted with multiplicity, exactly the keys sitting in stripes, in `itemsCh`, held by the policy
goroutine, applied to the sketch, dropped on a full channel (`GetsDropped`), refused by a closed
policy, and lost with a stripe the pool dropped. -/
theorem conservation_perm (h : Reach capa m t s) :
    s.pushed.Perm (poolKeys s ++ chanKeys s ++ heldKeys s ++ s.applied ++ s.dropped ++ s.lostClosed ++ s.lostPool) := by
  rw [List.perm_iff_count]
  intro k
  have := (inv_reach h).1.conserve k
  simp only [List.count_append]
  omega

/-- **Conservation, as numbers**: `#pushes = keys in stripes + kept (in the channel, held, applied)
+ dropped + refused-when-closed + lost-with-a-stripe`. -/
theorem conservation (h : Reach capa m t s) :
    s.pushed.length = (poolKeys s).length + (keptKeys s).length + s.dropped.length
      + s.lostClosed.length + s.lostPool.length := by
  have := (conservation_perm h).length_eq
  simp only [List.length_append, keptKeys] at this ⊢
  omega

/-- **The counters**: with metrics on, `GetsKept` is the number of keys of batches accepted since
the last `Metrics.Clear` and `GetsDropped` the number of keys of batches dropped since then, as
64-bit words; with metrics off both are 0. -/
theorem gets_exact (h : Reach capa m t s) :
    s.keptAtClear ≤ (keptKeys s).length ∧ s.droppedAtClear ≤ s.dropped.length ∧
    s.pol.keepGets = (if m then BitVec.ofNat 64 ((keptKeys s).length - s.keptAtClear) else 0#64) ∧
    s.pol.dropGets = (if m then BitVec.ofNat 64 (s.dropped.length - s.droppedAtClear) else 0#64) := by
  obtain ⟨hi, _, hm⟩ := inv_reach h
  have := hi.met
  exact ⟨this.keepLe, this.dropLe, by rw [← hm]; exact this.keep, by rw [← hm]; exact this.drop⟩

/-- **C17's clause** `GetsKept + GetsDropped ≤ #Get-pushes`, with the slack named: the keys still in
stripes, the keys refused by a closed policy and the keys lost with a stripe are on the left as
well.  No overflow hypothesis: the counter read as a natural number never exceeds the true count. -/
theorem gets_kept_dropped_le (h : Reach capa m t s) :
    (s.pol.keepGets + s.pol.dropGets).toNat + (poolKeys s).length + s.lostClosed.length + s.lostPool.length
      ≤ s.pushed.length := by
  obtain ⟨h1, h2, h3, h4⟩ := gets_exact h
  have hc := conservation h
  rw [h3, h4]
  cases m
  · simp; omega
  · simp only [if_true, BitVec.toNat_add, BitVec.toNat_ofNat]
    have := Nat.mod_le (((keptKeys s).length - s.keptAtClear) % 2 ^ 64 + (s.dropped.length - s.droppedAtClear) % 2 ^ 64) (2 ^ 64)
    have := Nat.mod_le ((keptKeys s).length - s.keptAtClear) (2 ^ 64)
    have := Nat.mod_le (s.dropped.length - s.droppedAtClear) (2 ^ 64)
    omega

/-- **Equality modulo what is buffered or lost**: with metrics on, no `Metrics.Clear` so far and
fewer than 2^64 pushes, `GetsKept + GetsDropped + keys in stripes + refused-when-closed +
lost-with-a-stripe = #pushes` exactly. -/
theorem gets_kept_dropped_eq (h : Reach capa true t s) (hk : s.keptAtClear = 0) (hd : s.droppedAtClear = 0)
    (hn : s.pushed.length < 2 ^ 64) :
    s.pol.keepGets.toNat + s.pol.dropGets.toNat + (poolKeys s).length + s.lostClosed.length + s.lostPool.length
      = s.pushed.length := by
  obtain ⟨h1, h2, h3, h4⟩ := gets_exact h
  have hc := conservation h
  rw [h3, h4, hk, hd]
  simp only [if_true, BitVec.toNat_ofNat, Nat.sub_zero]
  rw [Nat.mod_eq_of_lt (by omega), Nat.mod_eq_of_lt (by omega)]
  omega

/-- Non-vacuity: after `demo` (12 pushes) one key sits in a stripe, 8 were kept (2 applied, 6 still
in the channel), 2 dropped, 1 lost with its stripe; `GetsKept = 8`, `GetsDropped = 2`. -/
example : Reach 2#64 true t0 (exSys demo) ∧ (exSys demo).pushed.length = 12 ∧
    poolKeys (exSys demo) = [7#64] ∧ (keptKeys (exSys demo)).length = 8 ∧ (exSys demo).applied = [7#64, 8#64] ∧
    (exSys demo).dropped = [5#64, 6#64] ∧ (exSys demo).lostPool = [3#64] ∧
    (exSys demo).pol.keepGets = 8#64 ∧ (exSys demo).pol.dropGets = 2#64 ∧
    (exSys demo).keptAtClear = 0 ∧ (exSys demo).droppedAtClear = 0 :=
  ⟨exSys_reach (by decide), by decide, by decide, by decide, by decide, by decide, by decide, by decide,
    by decide, by decide, by decide⟩

/-! ## (2) batches -/

/-- **Every batch handed to the consumer has exactly `capaN` keys** (`= BufferItems` for
`BufferItems ≥ 1`, see `batch_size_eq`), wherever it is now: in the hand-over history, in `itemsCh`,
or held by the goroutine. -/
theorem batch_exact (h : Reach capa m t s) :
    (∀ bo ∈ s.handed, bo.1.length = capaN (stripeCapa capa) ∧ bo.2 ≠ .empty) ∧
    (∀ b ∈ s.pol.chan, b.length = capaN (stripeCapa capa)) ∧
    (∀ b, s.pol.held = some b → b.length = capaN (stripeCapa capa)) ∧
    s.pol.chan.length ≤ chanCap := by
  obtain ⟨hi, hc, _⟩ := inv_reach h
  rw [← hc]
  exact ⟨hi.shape.handed, hi.shape.chan, hi.shape.held, hi.shape.chanLen⟩

/-- for `BufferItems ≥ 1` (enforced by `NewCache`) the batch size is `BufferItems` itself -/
theorem batch_size_eq (h : 1 ≤ capa.toInt) : (capaN (stripeCapa capa) : Int) = capa.toInt :=
  capaN_eq _ h

/-- **Push order**: for every stripe of the pool, the batches it handed over so far, concatenated,
followed by its present content are exactly the keys pushed onto it, in push order; each such batch
has `capaN` keys and the stripe holds fewer than `capaN`. -/
theorem stripe_history (h : Reach capa m t s) :
    ∀ st ∈ s.pool, st.hist = st.out.flatten ++ st.data ∧ (∀ b ∈ st.out, b.length = capaN (stripeCapa capa)) ∧
      st.data.length < capaN (stripeCapa capa) ∧ st.capa = stripeCapa capa := by
  obtain ⟨hi, hc, _⟩ := inv_reach h
  intro st hst
  have := hi.shape.pool st hst
  rw [hc] at this
  exact ⟨this.hist, this.out, this.len, this.capa⟩

/-- **One push**, in a reachable state, onto stripe `i` holding `st`: either the key is the
`capaN`-th and the stripe hands `st.data ++ [k]` (its content in push order, the new key last) to
`defaultPolicy.Push` and is empty afterwards, or it is not and the stripe just grows. -/
theorem push_decision (h : Reach capa m t s) {i : Nat} {k : Key} {st : Stripe} {s' : Sys}
    (hst : s.pool[i]? = some st) (hs : step s (.push i k) = some s') :
    (st.data.length + 1 = capaN (stripeCapa capa) ∧
      (∃ o, s'.handed = s.handed ++ [(st.data ++ [k], o)]) ∧
      (∃ st', s'.pool[i]? = some st' ∧ st'.data = [] ∧ st'.out = st.out ++ [st.data ++ [k]])) ∨
    (st.data.length + 1 < capaN (stripeCapa capa) ∧ s'.handed = s.handed ∧ s'.pol = s.pol ∧
      (∃ st', s'.pool[i]? = some st' ∧ st'.data = st.data ++ [k] ∧ st'.out = st.out)) := by
  obtain ⟨hi, hc, _⟩ := inv_reach h
  have ok := hi.shape.pool st (mem_of_getElem? hst)
  rw [hc] at ok
  have hlt : i < s.pool.length := by
    rcases Nat.lt_or_ge i s.pool.length with h | h
    · exact h
    · rw [List.getElem?_eq_none h] at hst; cases hst
  obtain ⟨st2, hst2, ⟨hf, rfl⟩ | ⟨hf, rfl⟩⟩ := pushAt_cases hs
  · rw [hst] at hst2; cases hst2
    rw [stripe_push_decision ok k] at hf
    right
    have := ok.len
    refine ⟨by simp at hf; omega, rfl, rfl,
      ⟨{ st with data := st.data ++ [k], hist := st.hist ++ [k] }, by simp [afterQuiet, hlt], rfl, rfl⟩⟩
  · rw [hst] at hst2; cases hst2
    rw [stripe_push_decision ok k] at hf
    left
    refine ⟨by simpa using hf, ⟨_, rfl⟩,
      ⟨{ st with data := resetData (st.data ++ [k]) st.capa (s.pol.push (st.data ++ [k])).2.ret,
                 hist := st.hist ++ [k], out := st.out ++ [st.data ++ [k]] },
       by simp [afterDrain, hlt], by simp [resetData_nil], rfl⟩⟩

/-- Non-vacuity: in `demo` stripe 0 handed over five batches of two keys, in push order, and holds
the twelfth key pushed onto it; the channel is full (3 batches). -/
example : (exSys demo).pool.map (·.out) = [[[7#64, 8#64], [7#64, 7#64], [9#64, 7#64], [7#64, 8#64], [5#64, 6#64]]] ∧
    (exSys demo).pool.map (·.data) = [[7#64]] ∧ (exSys demo).pol.chan.length = 3 ∧ capaN (stripeCapa 2#64) = 2 ∧
    (exSys demo).handed.map (·.2) = [.kept, .kept, .kept, .kept, .dropped] := by
  refine ⟨by decide, by decide, by decide, by decide, by decide⟩

/-- the kept branch of `ringStripe.Push` gives the stripe a fresh backing array, so the batch sent on
`itemsCh` is never written again by the stripe (the model's batches are immutable values); the
refused branch reuses the array, which nobody else holds. -/
theorem kept_branch_allocates : keptResetFresh = true ∧ dropResetFresh = false := ⟨rfl, rfl⟩

/-! ## (3) the sketch sees only pushed keys, each push at most once -/

/-- **No invented accesses, no double counting**: every key the policy goroutine applied to the
sketch was pushed by a `Get`, and for each key the number of applied occurrences plus those still
waiting (stripes, channel, goroutine) plus those dropped or lost is the number of pushes — so a
push is counted at most once. -/
theorem no_invented_access (h : Reach capa m t s) (k : Key) :
    (k ∈ s.applied → k ∈ s.pushed) ∧
    s.applied.count k + (poolKeys s).count k + (chanKeys s).count k + (heldKeys s).count k
      + s.dropped.count k + s.lostClosed.count k + s.lostPool.count k = s.pushed.count k ∧
    s.since.count k ≤ s.applied.count k := by
  obtain ⟨hi, _, _⟩ := inv_reach h
  have hp := conservation_perm h
  refine ⟨fun hk => hp.mem_iff.mpr (by simp [hk]), ?_, ?_⟩
  · have := hi.conserve k; omega
  · obtain ⟨pre, hpre⟩ := hi.lfu.suffix
    rw [hpre, List.count_append]; omega

theorem tiny_push_wf {t : RV.TinyLFU.TinyLFU} (w : RV.TinyLFU.WF t) (ks : List Key) :
    RV.TinyLFU.WF (RV.TinyLFU.push t ks) := by
  induction ks generalizing t with
  | nil => exact w
  | cons a ks ih => exact ih (RV.TinyLFU.increment_wf w a)

/-- the sketch of a reachable state: `admit` is `tinyLFU.Push` of the keys applied since creation /
the last `Clear`, starting from a well-formed sketch -/
theorem admit_is_push (h : Reach capa m t s) (w : RV.TinyLFU.WF t) :
    s.pol.lfu = RV.TinyLFU.push s.base s.since ∧ RV.TinyLFU.WF s.base ∧ RV.TinyLFU.WF s.pol.lfu := by
  obtain ⟨acts, hr⟩ := h
  have hb : RV.TinyLFU.WF s.base ∧ AdmitInv s := by
    refine inv_run (P := fun s => RV.TinyLFU.WF s.base ∧ AdmitInv s) ?_ acts _ _ ⟨w, admit_init _ _ _⟩ hr
    intro s a s' ⟨hw, ha⟩ hs
    refine ⟨?_, admit_step ha hs⟩
    have push : ∀ {s s' : Sys} {i k}, pushAt s i k = some s' → s'.base = s.base := by
      intro s s' i k hp
      obtain ⟨st, _, ⟨_, rfl⟩ | ⟨_, rfl⟩⟩ := pushAt_cases hp <;> rfl
    cases a with
    | push i k => rw [push hs]; exact hw
    | pushNew k => rw [step_pushNew] at hs; have := push hs; rw [this]; exact hw
    | lose i =>
      simp only [step] at hs
      cases hp : s.pool[i]? with
      | none => simp [hp] at hs
      | some st => simp only [hp, Option.some.injEq] at hs; subst hs; exact hw
    | recv =>
      simp only [step] at hs
      split at hs
      · cases hch : s.pol.chan with
        | nil => simp [hch] at hs
        | cons b rest => simp only [hch, Option.some.injEq] at hs; subst hs; exact hw
      · cases hs
    | apply =>
      simp only [step] at hs
      cases hh : s.pol.held with
      | none => simp [hh] at hs
      | some b => simp only [hh, Option.some.injEq] at hs; subst hs; exact hw
    | stop =>
      simp only [step] at hs
      split at hs
      · simp only [Option.some.injEq] at hs; subst hs; exact hw
      · cases hs
    | close =>
      simp only [step] at hs
      split at hs
      · simp only [Option.some.injEq] at hs; subst hs; exact hw
      · cases hs
    | polClear =>
      simp only [step, Option.some.injEq] at hs; subst hs
      show RV.TinyLFU.WF (RV.TinyLFU.clear s.pol.lfu)
      rw [ha.lfu]; exact RV.TinyLFU.clear_wf (tiny_push_wf hw _)
    | metClear => simp only [step, Option.some.injEq] at hs; subst hs; exact hw
  exact ⟨hb.2.lfu, hb.1, by rw [hb.2.lfu]; exact tiny_push_wf hb.1 _⟩

/-- **C18's lower bound counts the kept accesses** (composition with `RV.C18.est_lower`): split the
keys applied since creation / the last `Clear` as `a ++ b` such that no aging reset fired while `b`
was applied; then the estimate of `k` is at least `min(n, 15)` where `n` is the number of
occurrences of `k` in `b` — accesses that were pushed by a `Get`, kept by `defaultPolicy.Push` and
applied by the goroutine (`n ≤` the number of pushes of `k`).  Pushes that are still buffered,
were dropped or lost do not count. -/
theorem kept_estimate_lower (h : Reach capa m t s) (w : RV.TinyLFU.WF t) (k : Key) (a b : List Key)
    (hsplit : s.since = a ++ b) (q : RV.TinyLFU.quiet (RV.TinyLFU.push s.base a) b) :
    min (b.count k) 15 ≤ RV.TinyLFU.est s.pol.lfu k ∧ b.count k ≤ s.pushed.count k := by
  obtain ⟨had, hwb, _⟩ := admit_is_push h w
  refine ⟨?_, ?_⟩
  · rw [had, hsplit, tiny_push_append]
    exact (RV.C18.est_lower _ (tiny_push_wf hwb a) k b q).1
  · obtain ⟨_, h2, h3⟩ := no_invented_access h k
    rw [hsplit, List.count_append] at h3
    omega

/-- Non-vacuity: ten `Get`s of key 9 with `BufferItems = 2`, the goroutine applies the first batch
only: `since = [9, 9]` is quiet from the fresh sketch, the estimate of 9 is 2 (≥ min(2,15)), the other
eight pushes wait in the channel, were dropped, and are not counted. -/
example :
    let acts : List Act := [.pushNew 9#64, .push 0 9#64, .recv, .push 0 9#64, .push 0 9#64, .push 0 9#64, .push 0 9#64,
      .push 0 9#64, .push 0 9#64, .push 0 9#64, .push 0 9#64, .apply]
    Reach 2#64 true t0 (exSys acts) ∧ RV.TinyLFU.WF t0 ∧ (exSys acts).since = [] ++ [9#64, 9#64] ∧
    RV.TinyLFU.quiet (RV.TinyLFU.push (exSys acts).base []) [9#64, 9#64] ∧
    RV.TinyLFU.est (exSys acts).pol.lfu 9#64 = 2 ∧ (exSys acts).pushed.count 9#64 = 10 ∧
    (exSys acts).dropped = [9#64, 9#64] := by
  refine ⟨exSys_reach (by decide), (RV.C18.tinylfu_new _ _ _ _ (by decide) (by decide) (by decide) (by decide) (by decide)).1,
    by decide, ⟨by decide, by decide, trivial⟩, by decide, by decide, by decide⟩

/-! ## (4) the Cache model's abstraction is sound -/

/-- **Refinement, pushes**: let the Cache model's state `c` abstract the exact state `s`
(`ringPending` = keys in stripes + keys lost with a stripe or refused by a closed policy; equal
counters; same metrics switch).  Every push of the exact model is matched by the Cache model's
`Get` step `stGetStart` under a suitable choice (`.none`, or `.flush kept n` with `n` the batch
length), and the abstraction holds again. -/
theorem refines_cache_push (h : Reach capa m t s) {cfg : RV.Cache.Cfg} {c : RV.Cache.State} (hR : Abs cfg s c)
    (hopen : c.closed = false) (tid : RV.Cache.Tid) (hh : RV.Cache.Hash) (cc : RV.Cache.Conf)
    {a : Act} (ha : a.isPush = true) {s' : Sys} (hs : step s a = some s') :
    ∃ ch c', RV.Cache.stGetStart cfg c tid hh cc ch = some c' ∧ Abs cfg s' c' :=
  abs_push (inv_reach h).1.shape hR hopen tid hh cc ha hs

/-- **Refinement, everything else**: stripe losses, the goroutine's receive and apply, `Close` and
`defaultPolicy.Clear` are invisible to the abstraction (stutter steps). -/
theorem refines_cache_stutter {cfg : RV.Cache.Cfg} {c : RV.Cache.State} (hR : Abs cfg s c)
    {a : Act} (ha : a.isPush = false) (hm : a.isMetClear = false) {s' : Sys} (hs : step s a = some s') :
    Abs cfg s' c :=
  abs_stutter hR ha hm hs

/-- Non-vacuity: the abstraction relates the two initial states, and the Cache model's `c17_gets_kept`
bound is the image of `gets_kept_dropped_le`. -/
example : Abs { bufCap := 1, ignoreInternal := true, costFn := none, shouldUpdate := none, metricsOn := true, maxCost := 10 }
    (init 2#64 true t0)
    (RV.Cache.init { bufCap := 1, ignoreInternal := true, costFn := none, shouldUpdate := none, metricsOn := true, maxCost := 10 } 0) :=
  ⟨rfl, rfl, rfl, rfl⟩

end RV.RingPush
