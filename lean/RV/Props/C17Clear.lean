import RV.Proofs.CacheAcctClearRun
/-!
# C17 after `Clear` — `Hits + Misses` and `SetsDropped` restart at `Metrics.Clear`

`RV/Props/C17.lean` states `c17_hits_misses` / `c17_drops` only for histories in which neither `Clear`
nor `Close` was ever called.  This file removes that restriction.  Everything is over the small-step
Cache model (`RV/Model/Cache.lean`): any number of clients, any interleaving, any number of `Clear`s
and `Close`s, any overlap; metrics enabled; counters are 64-bit words, equalities hold modulo 2^64.

Model facts used.  The metric step of a `Get` is one atomic step (`stGetMetric`, client pc
`.getMetric h c r`): it adds `hit` or `miss` **and** logs `getRet` in the same step.  A refused new item
is one atomic step (`stSetRetDrop` with `dropIsUpdate = false`): it adds `dropSets` and logs `drop` and
`setRet false`.  `Metrics.Clear` is the step `stClrMetrics` (client pc `.clrMetrics closing`), taken by
`Clear` and by `Close`; it logs nothing.  `Clear` returns (`clearRet`) two steps later, in `stClrRestart`
(client pc `.clrRestart false`), which also restarts the applier.  The states in which some client is at
`.clrRestart _` form the **window** `[Metrics.Clear, clearRet)` of that `Clear`; other clients may step
inside it.

## Statements

1. Step-indexed, every run (`c17_hits_misses_since_clear`, `c17_drops_since_clear`, one-step law
   `c17_step_counts`): `Hits + Misses` is the number of `Get` metric steps taken since the last
   `Metrics.Clear` step of the run, `SetsDropped` the number of refused new items since then
   (`segCounts`: walk the run with `step`, reset both numbers at an `isMetClear` step, add one at an
   `isGetMetric` resp. `isNewDrop` step).  No hypothesis besides `metricsOn`.

2. Log reading (`c17_hits_misses_after_clear`, `c17_drops_after_clear`): in a run without `Close`
   (`NoClose s.log`) whose windows are quiet (`windowQuiet`: no `Get` metric step and no new-item drop is
   taken while some client is at `.clrRestart _`), in a final state outside every window,
   `Hits + Misses` = number of `getRet` events newer than the last `clearRet` (`sinceClearRet`; the whole
   log if no `Clear` returned yet) and `SetsDropped` = number of `drop` events newer than it.
   `windowQuiet` tracks the window with a Boolean flag along the run; `c17_window_flag` shows that the
   flag is true exactly when some client is at `.clrRestart _` (at most one is, by the stop/done
   handshake invariant).  Inside a quiet window both counters are zero (`c17_in_window_zero`).

   What happens to a `Get` that overlaps a `Clear`:
   * its metric step precedes `Metrics.Clear`: it is **not** counted after the `Clear`, although the `Get`
     returns during the `Clear` — consistently with the log, because `getRet` is logged in the metric step
     and therefore precedes `clearRet`;
   * its metric step follows `clearRet`: it is counted, and its `getRet` follows `clearRet`;
   * its metric step falls inside the window: the counter counts it but its `getRet` precedes `clearRet`,
     so the log reading is off by one.  Only these steps break the log reading; `windowQuiet` excludes
     exactly them, and `c17_clear_window_counterexample` shows the hypothesis is necessary.
   The same three cases apply to a refused `Set`.

   `Close` is excluded from the log reading because it runs `Metrics.Clear` without ever logging
   `clearRet`, and because on a closed cache `Get` logs `getRet` without a metric step
   (`c17_noclose_open`: without `closeCall` in the log the cache is open and nobody runs `Close`).
   Statement 1 covers `Close` as well.
-/
namespace RV.C17Clear
open RV RV.Cache

/-! ### concrete runs for the examples -/

def cfg0 : Cfg :=
  { bufCap := 1, ignoreInternal := true, costFn := none, shouldUpdate := none, metricsOn := true, maxCost := 10 }

/-- `Set(h ↦ v)` of a new key by thread `t`, applied by the applier and taken into the cache -/
def setRun (t : Tid) (h : Hash) (v : Val) (cost : Int) : List Action :=
  [.spawn t (.set h 0 v cost 0), .client t .none, .client t .none, .client t .none, .client t .none,
   .applier .selItem, .applier .none, .applier (.add [] true), .applier .none]

/-- `Get(h)` by thread `t` up to (excluding) its metric step: the thread stands at `.getMetric ..` -/
def getToMetric (t : Tid) (h : Hash) : List Action :=
  [.spawn t (.get h 0), .client t .none, .client t .none, .client t .none]

/-- a complete `Get(h)` by thread `t` -/
def getRun (t : Tid) (h : Hash) : List Action := getToMetric t h ++ [.client t .none]

/-- two `Set`s of new keys racing for the one-slot buffer: the second one is dropped -/
def dropRun : List Action :=
  [.spawn 0 (.set 3 0 8 3 0), .client 0 .none, .client 0 .none, .client 0 .none,
   .spawn 1 (.set 4 0 9 3 0), .client 1 .none, .client 1 .none, .client 1 .none, .client 1 .none]

/-- `Clear` by thread `t` through its `Metrics.Clear` step (handshake, drain of the empty buffer, policy,
256 shards enumerated as `keys k`, expiry index, metrics): the thread stands at `.clrRestart false` -/
def clearToWindow (t : Tid) (keys : Nat → List Hash) : List Action :=
  [.spawn t .clear, .client t .none, .applier (.selStop t), .done t, .client t .none, .client t .none] ++
  ((List.range 256).map fun k => Action.client t (.order (keys k))) ++
  [.client t .none, .client t .none]

/-- a complete `Clear` by thread `t` -/
def clearRun (t : Tid) (keys : Nat → List Hash) : List Action := clearToWindow t keys ++ [.client t .none]

/-- a `Set` and a `Get` (hit); a complete `Clear`; then a `Set`, a hit, a miss and a dropped `Set` -/
def exActs : List Action :=
  setRun 0 1 7 3 ++ getRun 1 1 ++ clearRun 2 (fun k => if k = 1 then [1#64] else []) ++
  setRun 0 1 7 3 ++ getRun 1 1 ++ getRun 1 5 ++ dropRun

/-- a `Get` that reaches its metric step before a `Clear` starts and takes it inside the window -/
def cexActs : List Action :=
  getToMetric 0 1 ++ clearToWindow 1 (fun _ => []) ++ [.client 0 .none, .client 1 .none]

/-- the same `Get` taking its metric step before `Metrics.Clear` (during the `Clear`, in the drain phase) -/
def earlyActs : List Action :=
  getToMetric 0 1 ++ [.spawn 1 .clear, .client 1 .none, .applier (.selStop 1), .done 1, .client 0 .none,
    .client 1 .none, .client 1 .none] ++
  ((List.range 256).map fun _ => Action.client 1 (.order [])) ++
  [.client 1 .none, .client 1 .none, .client 1 .none]

set_option maxRecDepth 100000 in
theorem exActs_facts :
    (run cfg0 (init cfg0 0) exActs).map (fun s => (s.met.hit, s.met.miss, s.met.dropSets,
      s.log.countP Ev.isGetRet, (sinceClearRet s.log).countP Ev.isGetRet, (sinceClearRet s.log).countP Ev.isDrop)) =
      some (1#64, 1#64, 1#64, 3, 2, 1) := by decide

set_option maxRecDepth 100000 in
theorem exActs_facts2 :
    (run cfg0 (init cfg0 0) exActs).map (fun s =>
      (s.log.all (fun e => !e.isCloseCall), [0, 1, 2].all (fun t => !(s.cl t).isRestart))) = some (true, true) := by
  decide

set_option maxRecDepth 100000 in
theorem exActs_counts : segCounts cfg0 (init cfg0 0) exActs (0, 0) = (2, 1) := by decide

set_option maxRecDepth 100000 in
theorem exActs_quiet : windowQuiet cfg0 (init cfg0 0) exActs = true := by decide

set_option maxRecDepth 100000 in
theorem cexActs_facts :
    (run cfg0 (init cfg0 0) cexActs).map (fun s => (s.met.hit + s.met.miss,
      (sinceClearRet s.log).countP Ev.isGetRet, s.log.countP Ev.isGetRet,
      s.log.all (fun e => !e.isCloseCall), [0, 1].all (fun t => !(s.cl t).isRestart))) =
      some (1#64, 0, 1, true, true) := by decide

set_option maxRecDepth 100000 in
theorem cexActs_quiet : windowQuiet cfg0 (init cfg0 0) cexActs = false := by decide

set_option maxRecDepth 100000 in
theorem earlyActs_facts :
    (run cfg0 (init cfg0 0) earlyActs).map (fun s => (s.met.hit + s.met.miss,
      (sinceClearRet s.log).countP Ev.isGetRet, s.log.countP Ev.isGetRet,
      s.log.all (fun e => !e.isCloseCall), [0, 1].all (fun t => !(s.cl t).isRestart))) =
      some (0#64, 0, 1, true, true) := by decide

set_option maxRecDepth 100000 in
theorem earlyActs_quiet : windowQuiet cfg0 (init cfg0 0) earlyActs = true := by decide

set_option maxRecDepth 100000 in
theorem exActs_tids : (exActs.all fun a => a.tids.all fun t => [0, 1, 2].contains t) = true := by decide
set_option maxRecDepth 100000 in
theorem cexActs_tids : (cexActs.all fun a => a.tids.all fun t => [0, 1].contains t) = true := by decide
set_option maxRecDepth 100000 in
theorem earlyActs_tids : (earlyActs.all fun a => a.tids.all fun t => [0, 1].contains t) = true := by decide

/-! ### 1. step-indexed counting, every run -/

/-- One step: `Metrics.Clear` resets `(Hits + Misses, SetsDropped)`, a `Get`'s metric step adds one to the
first, a refused new item one to the second, every other step (client, applier, `done`, clock) leaves both
unchanged. -/
theorem c17_step_counts {cfg : Cfg} {s s' : State} {a : Action} (hs : step cfg s a = some s')
    (hon : cfg.metricsOn = true) :
    (s'.met.hit + s'.met.miss, s'.met.dropSets) =
      if isMetClear s a then (0#64, 0#64) else
        (s.met.hit + s.met.miss + (if isGetMetric s a then 1#64 else 0#64),
         s.met.dropSets + (if isNewDrop s a then 1#64 else 0#64)) :=
  step_hmd hs hon

/-- `c17_hits_misses_since_clear`: in every run, `Hits + Misses` is the number of `Get` metric steps taken
since the last `Metrics.Clear` step (modulo 2^64). -/
theorem c17_hits_misses_since_clear {cfg : Cfg} {now : Time} {acts : List Action} {s : State}
    (hr : run cfg (init cfg now) acts = some s) (hon : cfg.metricsOn = true) :
    s.met.hit + s.met.miss = BitVec.ofNat 64 (segCounts cfg (init cfg now) acts (0, 0)).1 :=
  congrArg Prod.fst (segCounts_run hr hon (hmd_init cfg now))

/-- `c17_drops_since_clear`: in every run, `SetsDropped` is the number of new items refused since the last
`Metrics.Clear` step (modulo 2^64). -/
theorem c17_drops_since_clear {cfg : Cfg} {now : Time} {acts : List Action} {s : State}
    (hr : run cfg (init cfg now) acts = some s) (hon : cfg.metricsOn = true) :
    s.met.dropSets = BitVec.ofNat 64 (segCounts cfg (init cfg now) acts (0, 0)).2 :=
  congrArg Prod.snd (segCounts_run hr hon (hmd_init cfg now))

/-- Non-vacuity: a run with a `Get` before a complete `Clear` and two `Get`s (a hit and a miss) and a dropped
`Set` after it: 3 `getRet`s in the whole log, but 2 metric steps and 1 drop since `Metrics.Clear`, and
`Hits = 1`, `Misses = 1`, `SetsDropped = 1`. -/
example : ∃ s, run cfg0 (init cfg0 0) exActs = some s ∧ cfg0.metricsOn = true ∧
    segCounts cfg0 (init cfg0 0) exActs (0, 0) = (2, 1) ∧ s.log.countP Ev.isGetRet = 3 ∧
    s.met.hit = 1#64 ∧ s.met.miss = 1#64 ∧ s.met.dropSets = 1#64 := by
  obtain ⟨s, hr, hf⟩ := run_facts exActs_facts
  simp only [Prod.mk.injEq] at hf
  exact ⟨s, hr, rfl, exActs_counts, hf.2.2.2.1, hf.1, hf.2.1, hf.2.2.1⟩

/-! ### 2. the log reading after `Clear` -/

/-- While `Close` has not been called the cache is open and no client runs `Close`; hence every `getRet`
in such a log was logged by a metric step and every `Metrics.Clear` step belongs to a `Clear`. -/
theorem c17_noclose_open {cfg : Cfg} {s : State} (h : Reach cfg s) (hnc : NoClose s.log) :
    s.closed = false ∧ ∀ t, (s.cl t).isClosing = false := open_of_noClose h hnc

/-- The flag `inWindow` that `windowQuiet` tracks along the run is true exactly when some client stands
between `Metrics.Clear` and the restart of the applier (pc `.clrRestart _`). -/
theorem c17_window_flag {cfg : Cfg} {now : Time} {acts : List Action} {s : State}
    (hr : run cfg (init cfg now) acts = some s) :
    inWindow cfg (init cfg now) acts = true ↔ ∃ t, (s.cl t).isRestart = true := inWindow_iff hr

/-- `c17_hits_misses_after_clear`: no `Close`, quiet windows, final state outside every window:
`Hits + Misses` is the number of `Get`s that returned after the last `Clear` returned (modulo 2^64). -/
theorem c17_hits_misses_after_clear {cfg : Cfg} {now : Time} {acts : List Action} {s : State}
    (hr : run cfg (init cfg now) acts = some s) (hon : cfg.metricsOn = true) (hnc : NoClose s.log)
    (hq : windowQuiet cfg (init cfg now) acts = true) (hout : ∀ t, (s.cl t).isRestart = false) :
    s.met.hit + s.met.miss = BitVec.ofNat 64 ((sinceClearRet s.log).countP Ev.isGetRet) :=
  congrArg Prod.fst (hmd_after_clear hr hon hnc hq hout)

/-- `c17_drops_after_clear`: under the same hypotheses `SetsDropped` is the number of new items refused
after the last `Clear` returned (modulo 2^64). -/
theorem c17_drops_after_clear {cfg : Cfg} {now : Time} {acts : List Action} {s : State}
    (hr : run cfg (init cfg now) acts = some s) (hon : cfg.metricsOn = true) (hnc : NoClose s.log)
    (hq : windowQuiet cfg (init cfg now) acts = true) (hout : ∀ t, (s.cl t).isRestart = false) :
    s.met.dropSets = BitVec.ofNat 64 ((sinceClearRet s.log).countP Ev.isDrop) :=
  congrArg Prod.snd (hmd_after_clear hr hon hnc hq hout)

/-- Inside a window that has been quiet so far both counters are zero. -/
theorem c17_in_window_zero {cfg : Cfg} {now : Time} {acts : List Action} {s : State}
    (hr : run cfg (init cfg now) acts = some s) (hon : cfg.metricsOn = true) (hnc : NoClose s.log)
    (hq : windowQuiet cfg (init cfg now) acts = true) {t : Tid} (ht : (s.cl t).isRestart = true) :
    s.met.hit + s.met.miss = 0#64 ∧ s.met.dropSets = 0#64 := by
  have := hmd_in_window hr hon hnc hq ht
  simp only [hmd, Prod.mk.injEq] at this
  exact this

/-- Non-vacuity: the run above satisfies all hypotheses; after the `Clear` the log holds 2 `getRet`s and
1 `drop` (3 `getRet`s in the whole log) and `Hits + Misses = 2`, `SetsDropped = 1`. -/
example : ∃ s, run cfg0 (init cfg0 0) exActs = some s ∧ cfg0.metricsOn = true ∧ NoClose s.log ∧
    windowQuiet cfg0 (init cfg0 0) exActs = true ∧ (∀ t, (s.cl t).isRestart = false) ∧
    (sinceClearRet s.log).countP Ev.isGetRet = 2 ∧ (sinceClearRet s.log).countP Ev.isDrop = 1 ∧
    s.log.countP Ev.isGetRet = 3 ∧ s.met.hit + s.met.miss = 2#64 ∧ s.met.dropSets = 1#64 := by
  obtain ⟨s, hr, hf⟩ := run_facts exActs_facts
  obtain ⟨s2, hr2, hf2⟩ := run_facts exActs_facts2
  rw [hr] at hr2; cases hr2
  simp only [Prod.mk.injEq] at hf hf2
  refine ⟨s, hr, rfl, noClose_of_all hf2.1, exActs_quiet, noRestart_of_run [0, 1, 2] hr exActs_tids hf2.2,
    hf.2.2.2.2.1, hf.2.2.2.2.2, hf.2.2.2.1, ?_, hf.2.2.1⟩
  rw [hf.1, hf.2.1]; rfl

/-- A `Get` overlapping a `Clear` whose metric step precedes `Metrics.Clear` is covered: the windows are
quiet, the `Get` returned during the `Clear`, and after the `Clear` both sides are 0 (its `getRet` precedes
`clearRet` in the log). -/
example : ∃ s, run cfg0 (init cfg0 0) earlyActs = some s ∧ NoClose s.log ∧
    windowQuiet cfg0 (init cfg0 0) earlyActs = true ∧ (∀ t, (s.cl t).isRestart = false) ∧
    s.log.countP Ev.isGetRet = 1 ∧ (sinceClearRet s.log).countP Ev.isGetRet = 0 ∧ s.met.hit + s.met.miss = 0#64 := by
  obtain ⟨s, hr, hf⟩ := run_facts earlyActs_facts
  simp only [Prod.mk.injEq] at hf
  exact ⟨s, hr, noClose_of_all hf.2.2.2.1, earlyActs_quiet, noRestart_of_run [0, 1] hr earlyActs_tids hf.2.2.2.2,
    hf.2.2.1, hf.2.1, hf.1⟩

/-! ### 3. the window hypothesis is necessary -/

/-- The naive statement "`Hits + Misses` = number of `getRet` events after the last `clearRet`" is FALSE
without `windowQuiet`: thread 0's `Get` reaches its metric step, thread 1 runs `Clear` through
`Metrics.Clear`, thread 0 takes its metric step inside the window (miss, `getRet` logged), thread 1 returns
from `Clear`.  Nobody is inside a window at the end, `Close` was never called, `Misses = 1`, but no `getRet`
is newer than `clearRet`. -/
theorem c17_clear_window_counterexample : ∃ cfg acts s, run cfg (init cfg 0) acts = some s ∧
    cfg.metricsOn = true ∧ NoClose s.log ∧ (∀ t, (s.cl t).isRestart = false) ∧
    windowQuiet cfg (init cfg 0) acts = false ∧
    s.met.hit + s.met.miss = 1#64 ∧ (sinceClearRet s.log).countP Ev.isGetRet = 0 ∧
    s.log.countP Ev.isGetRet = 1 := by
  obtain ⟨s, hr, hf⟩ := run_facts cexActs_facts
  simp only [Prod.mk.injEq] at hf
  exact ⟨cfg0, cexActs, s, hr, rfl, noClose_of_all hf.2.2.2.1, noRestart_of_run [0, 1] hr cexActs_tids hf.2.2.2.2,
    cexActs_quiet, hf.1, hf.2.1, hf.2.2.1⟩

end RV.C17Clear
