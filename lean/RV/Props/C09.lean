import RV.Proofs.PolicyAdd
import RV.Proofs.PolicyTerm
/-!
# C09 — Admission and eviction follow the TinyLFU / sampled-LFU discipline (policy level)

Theorems about `Pol.addFull` (= `defaultPolicy.Add` with everything it did: the rounds of the
eviction loop, each with the slice it was handed, the enumeration it got, the refilled
sample, the result of the minimum scan and the verdict), for **every** resident population,
cost assignment, estimator `est` (an arbitrary function, constant during the `Add`),
incoming `(key, cost)` and **every** enumeration choice `enums`.

The decision points (`cost > maxCost`, `room >= 0`, `room < 0`, `hits < minHits`,
`incHits < minHits`, `len(in) >= lfuSample`), `roomLeft`, `lfuSample` and the index
arithmetic of the swap-remove are regenerated from policy.go on every run.

Hypotheses, only where needed: `Pol.wf`/`Pol.NoOvf` (representation invariant, no int64
overflow), `EstOK` (estimates are int64s below MaxInt64; TinyLFU's are ≤ 16),
`AddOut.Admissible` (each enumeration lists distinct accounted keys with their current
costs and is long enough — what a Go `range` over the map produces).

Reporting through `OnReject`/`OnEvict` is a Cache-level statement (the Cache model imports
this file).
-/
namespace RV.C09
open RV.Policy

/-- **Fits ⇒ admitted, nobody evicted**: a key that is not accounted, does not exceed MaxCost
and fits in the remaining room is admitted without victims; it is accounted with its cost
and `used` grows by exactly that cost. -/
theorem c09_fits_admitted (p : Pol) (est : Hash → Int) (enums : List (List KC)) (key : Hash) (cost : Int)
    (hwf : p.wf) (hno : p.NoOvf cost) (hl : lookup p.keyCosts key = none) (hle : cost ≤ p.maxCost)
    (hroom : 0 ≤ p.maxCost - (p.used + cost)) :
    p.add est enums key cost =
      ({ keyCosts := (key, cost) :: p.keyCosts, used := p.used + cost, maxCost := p.maxCost }, [], true) := by
  simp only [Pol.add, addFull_fits est enums key hwf hno (by omega) hl hroom]
  have h1 := Pol.evictAdd_keyCosts cost hl
  have h2 := Pol.evictAdd_used key hwf hno
  have h3 := Pol.evictAdd_maxCost p key cost
  cases hq : p.evictAdd key cost with
  | mk a b c => rw [hq] at h1 h2 h3; simp only at h1 h2 h3; subst h1 h2 h3; rfl

/-- The victims `Add` returns are exactly the minima chosen in the non-rejecting rounds, in order. -/
theorem c09_victims_are_round_minima (p : Pol) (est : Hash → Int) (enums : List (List KC)) (key : Hash) (cost : Int) :
    (p.addFull est enums key cost).victims =
      ((p.addFull est enums key cost).rounds.filter (fun r => !r.rejected)).map Round.victim := by
  rcases addFull_cases est enums key p cost with ⟨h1, h2, _⟩ | h
  · rw [h1, h2]; rfl
  · rw [h]; exact loop_victims_eq _ _ _ _ _ _ _

/-- Every round scans the refilled slice and compares its minimum with the newcomer's estimate. -/
theorem rounds_spec (p : Pol) (est : Hash → Int) (enums : List (List KC)) (key : Hash) (cost : Int) :
    ∀ r ∈ (p.addFull est enums key cost).rounds,
      r.sample = fillSample r.carry r.enum ∧ r.min = scan est r.sample ∧
        r.rejected = incLess (est key) r.min.hits := by
  rcases addFull_cases est enums key p cost with ⟨h1, _, _⟩ | h
  · rw [h1]; simp
  · rw [h]; exact loop_rounds_spec _ _ _ _ _ _ _

/-- **The sample across rounds**: the first round starts from the empty slice in state `p`;
each later round starts from the previous round's sample with the victim's slot swap-removed,
in the state with that victim deleted; only the last round can reject. -/
theorem c09_rounds_chained (p : Pol) (est : Hash → Int) (enums : List (List KC)) (key : Hash) (cost : Int) :
    Chained p [] (p.addFull est enums key cost).rounds := by
  rcases addFull_cases est enums key p cost with ⟨h1, _, _⟩ | h
  · rw [h1]; trivial
  · rw [h]; exact loop_chained _ _ _ _ _ _ _

/-- **Refill**: the slice a round is handed has at most `lfuSample` entries and the scanned
sample is that slice followed by a prefix of the round's fresh enumeration — as many pairs as
fit below `lfuSample`, without de-duplication. -/
theorem c09_sample_refill (p : Pol) (est : Hash → Int) (enums : List (List KC)) (key : Hash) (cost : Int) :
    ∀ r ∈ (p.addFull est enums key cost).rounds,
      r.carry.length ≤ Gen.Policy.lfuSample.toNat ∧
        r.sample = r.carry ++ r.enum.take (Gen.Policy.lfuSample.toNat - r.carry.length) := by
  intro r hr
  have hs := (rounds_spec p est enums key cost r hr).1
  have hlen : r.carry.length ≤ Gen.Policy.lfuSample.toNat := by
    rcases addFull_cases est enums key p cost with ⟨h1, _, _⟩ | h
    · rw [h1] at hr; simp at hr
    · rw [h] at hr
      exact loop_carry_le _ _ _ _ _ _ _ (by simp) r hr
  have h5 := lfuSample_eq
  refine ⟨hlen, ?_⟩
  rw [hs]; exact fillSample_eq_take _ _ (by omega)

/-- With an admissible enumeration every pair the refill appends is an accounted key with its
current cost, and the sample has `min(lfuSample, kept + resident)` entries or more
(exactly that many when the enumeration is the observed one). -/
theorem c09_sample_from_resident (p : Pol) (est : Hash → Int) (enums : List (List KC)) (key : Hash) (cost : Int)
    (r : Round) (hr : r ∈ (p.addFull est enums key cost).rounds)
    (hadm : Admissible r.before.keyCosts r.carry r.enum) :
    ∀ x ∈ r.sample, x ∈ r.carry ∨ x ∈ r.before.keyCosts := by
  intro x hx
  have h := c09_sample_refill p est enums key cost r hr
  have h5 := lfuSample_eq
  rw [(rounds_spec p est enums key cost r hr).1] at hx
  rcases mem_fillSample (by omega) hx with hx | hx
  · exact Or.inl hx
  · exact Or.inr (hadm.2.1 x hx)

/-- **The victim is the sample minimum**: in every round that does not reject, the sample is
non-empty, the victim `(minKey, minCost)` is the sample entry at `minId`, it is the *first*
entry attaining the minimum estimate over the whole sample, and its estimate is at most the
newcomer's. -/
theorem c09_victim_is_sample_min (p : Pol) (est : Hash → Int) (hest : EstOK est) (enums : List (List KC))
    (key : Hash) (cost : Int) :
    ∀ r ∈ (p.addFull est enums key cost).rounds, r.rejected = false →
      r.sample ≠ [] ∧ r.sample[r.min.id]? = some r.victim ∧ r.min.hits = est r.min.key ∧
      (∀ kc ∈ r.sample, est r.min.key ≤ est kc.1) ∧
      (∀ j < r.min.id, ∀ kc, r.sample[j]? = some kc → est r.min.key < est kc.1) ∧
      est r.min.key ≤ est key := by
  intro r hr hrej
  obtain ⟨_, hmin, hrj⟩ := rounds_spec p est enums key cost r hr
  have hk := hest key
  have hI : I64 (est key) := by unfold I64; omega
  rw [hrej, hmin, incLess_eq hI (scan_hits_I64 hest r.sample)] at hrj
  have hlt : ¬ est key < (scan est r.sample).hits := by simpa using hrj.symm
  have hne : r.sample ≠ [] := by
    intro e; rw [e, scan_nil_hits] at hlt; omega
  have hsp := scan_spec hest hne
  rw [← hmin] at hsp hlt
  refine ⟨hne, hsp.2.1, hsp.2.2.1, ?_, ?_, ?_⟩
  · rw [← hsp.2.2.1]; exact hsp.2.2.2.1
  · rw [← hsp.2.2.1]; exact hsp.2.2.2.2
  · rw [← hsp.2.2.1]; omega

/-- A round rejects exactly when the newcomer's estimate is strictly below the estimate of
every sampled candidate (in particular on an empty sample). -/
theorem round_rejected_iff (p : Pol) (est : Hash → Int) (hest : EstOK est) (enums : List (List KC))
    (key : Hash) (cost : Int) :
    ∀ r ∈ (p.addFull est enums key cost).rounds,
      (r.rejected = true ↔ ∀ kc ∈ r.sample, est key < est kc.1) := by
  intro r hr
  obtain ⟨_, hmin, hrj⟩ := rounds_spec p est enums key cost r hr
  have hk := hest key
  have hI : I64 (est key) := by unfold I64; omega
  rw [hmin, incLess_eq hI (scan_hits_I64 hest r.sample)] at hrj
  rw [hrj]
  simp only [decide_eq_true_eq]
  by_cases hne : r.sample = []
  · rw [hne, scan_nil_hits]; simp; omega
  · have hsp := scan_spec hest hne
    constructor
    · intro h kc hkc; have := hsp.2.2.2.1 kc hkc; omega
    · intro h
      have hm := List.mem_of_getElem? hsp.2.1
      have := h _ hm
      simp only at this
      rw [hsp.2.2.1]; exact this

/-- **Rejection iff**: a completed `Add` turns the newcomer away exactly when it is larger than
the whole cache, or its key is already accounted (then it is an update), or in some round its
estimate was strictly below that of every sampled candidate.  Victims of earlier rounds stay
evicted (`C03.evict_first`). -/
theorem c09_reject_iff (p : Pol) (est : Hash → Int) (hest : EstOK est) (enums : List (List KC))
    (key : Hash) (cost : Int) (hwf : p.wf) (hno : p.NoOvf cost)
    (hok : (p.addFull est enums key cost).status = .ok) :
    (p.addFull est enums key cost).admitted = false ↔
      (cost > p.maxCost ∨ (lookup p.keyCosts key).isSome ∨
        ∃ r ∈ (p.addFull est enums key cost).rounds, ∀ kc ∈ r.sample, est key < est kc.1) := by
  have hr := Pol.ranges hwf hno
  have hrr := round_rejected_iff p est hest enums key cost
  by_cases hbig : p.maxCost < cost
  · rw [addFull_tooBig est enums key hr.2.2.1 hr.2.1 hbig]; simp [hbig]
  · cases hl : lookup p.keyCosts key with
    | some prev => rw [addFull_existing est enums key hr.2.2.1 hr.2.1 hbig hl]; simp
    | none =>
      by_cases hroom : 0 ≤ p.maxCost - (p.used + cost)
      · rw [addFull_fits est enums key hwf hno hbig hl hroom]; simp [hbig]
      · have he := addFull_loop est enums key hwf hno hbig hl (by omega)
        rw [he] at hok hrr ⊢
        rw [(loop_status est key cost (est key) enums p []).2 hok]
        simp only [gt_iff_lt, hbig, Option.isSome_none, Bool.false_eq_true, false_or]
        constructor
        · rintro ⟨r, hr1, hr2⟩; exact ⟨r, hr1, (hrr r hr1).1 hr2⟩
        · rintro ⟨r, hr1, hr2⟩; exact ⟨r, hr1, (hrr r hr1).2 hr2⟩

/-- **No panic**: with `int64` estimates below MaxInt64 the swap-remove never indexes an empty sample. -/
theorem c09_no_panic (p : Pol) (est : Hash → Int) (hest : EstOK est) (enums : List (List KC))
    (key : Hash) (cost : Int) (hwf : p.wf) (hno : p.NoOvf cost)
    (hadm : (p.addFull est enums key cost).Admissible) :
    (p.addFull est enums key cost).status ≠ .panic := by
  rcases addFull_cases est enums key p cost with ⟨_, _, h3⟩ | h
  · rw [h3]; simp
  · have hk := hest key
    unfold AddOut.Admissible at hadm
    rw [h] at hadm ⊢
    exact (loop_real hest key cost (by unfold IncOK; omega) enums p [] hwf hno (by simp)
      (by intro x hx; simp at hx) hadm).no_panic

/-- **Real and phantom victims**.  With admissible enumerations, among the non-rejecting rounds
call *real* those whose victim was still accounted when it was chosen (the others are
*phantoms*: stale copies left in the sample by an earlier eviction; their `del` is a no-op).
Real victims are reported with exactly their accounted cost, are pairwise distinct, were
resident before the `Add`, and `used` decreases by exactly the sum of their costs (plus the
newcomer's cost if it is admitted). -/
theorem c09_real_victims (p : Pol) (est : Hash → Int) (hest : EstOK est) (enums : List (List KC))
    (key : Hash) (cost : Int) (hwf : p.wf) (hno : p.NoOvf cost) (hl : lookup p.keyCosts key = none)
    (hadm : (p.addFull est enums key cost).Admissible) :
    (∀ r ∈ (p.addFull est enums key cost).rounds.filter Round.real,
        lookup r.before.keyCosts r.min.key = some r.min.cost) ∧
    (((p.addFull est enums key cost).rounds.filter Round.real).map (·.min.key)).Nodup ∧
    (∀ r ∈ (p.addFull est enums key cost).rounds.filter Round.real, r.min.key ∈ keys p.keyCosts) ∧
    (p.addFull est enums key cost).pol.used =
      p.used - victimCosts ((p.addFull est enums key cost).rounds.filter Round.real) +
        (if (p.addFull est enums key cost).admitted then cost else 0) ∧
    (∀ r ∈ (p.addFull est enums key cost).rounds, r.rejected = false →
        lookup r.before.keyCosts r.min.key = none → r.before.del r.min.key = r.before) := by
  have hr := Pol.ranges hwf hno
  have hph : ∀ r ∈ (p.addFull est enums key cost).rounds, r.rejected = false →
      lookup r.before.keyCosts r.min.key = none → r.before.del r.min.key = r.before :=
    fun r _ _ h => Pol.del_none h
  by_cases hbig : p.maxCost < cost
  · rw [addFull_tooBig est enums key hr.2.2.1 hr.2.1 hbig]; simp [victimCosts]
  · by_cases hroom : 0 ≤ p.maxCost - (p.used + cost)
    · rw [addFull_fits est enums key hwf hno hbig hl hroom]
      simp [victimCosts, Pol.evictAdd_used key hwf hno]
    · have he := addFull_loop est enums key hwf hno hbig hl (by omega)
      have hk := hest key
      unfold AddOut.Admissible at hadm
      rw [he] at hadm hph ⊢
      have h := loop_real hest key cost (by unfold IncOK; omega) enums p [] hwf hno (by simp)
        (by intro x hx; simp at hx) hadm
      exact ⟨h.cost_eq, h.nodup, h.resident, h.used_eq, hph⟩

/-- **Termination**: with admissible enumerations the eviction loop needs at most
`6 · |keyCosts|` rounds (a real eviction removes a key; a phantom eviction removes a stale
sample entry and the refill only appends live ones; with nothing accounted the newcomer
fits), so the model is never `stuck` when that many enumerations are supplied — the real
`Add` always returns.  (The swap-remove matters: overwriting slot 0 instead of the victim's
slot makes the real loop spin forever, see the mutation log.) -/
theorem c09_add_terminates (p : Pol) (est : Hash → Int) (hest : EstOK est) (enums : List (List KC))
    (key : Hash) (cost : Int) (hwf : p.wf) (hno : p.NoOvf cost)
    (hadm : (p.addFull est enums key cost).Admissible)
    (hn : 6 * p.keyCosts.length ≤ enums.length) :
    (p.addFull est enums key cost).status = .ok := by
  have hr := Pol.ranges hwf hno
  by_cases hbig : p.maxCost < cost
  · rw [addFull_tooBig est enums key hr.2.2.1 hr.2.1 hbig]
  · cases hl : lookup p.keyCosts key with
    | some prev => rw [addFull_existing est enums key hr.2.2.1 hr.2.1 hbig hl]
    | none =>
      by_cases hroom : 0 ≤ p.maxCost - (p.used + cost)
      · rw [addFull_fits est enums key hwf hno hbig hl hroom]
      · have he := addFull_loop est enums key hwf hno hbig hl (by omega)
        have hk := hest key
        unfold AddOut.Admissible at hadm
        rw [he] at hadm ⊢
        have h1 := (loop_real hest key cost (by unfold IncOK; omega) enums p [] hwf hno (by simp)
          (by intro x hx; simp at hx) hadm).no_panic
        have h2 := loop_not_stuck hest key cost (by unfold IncOK; omega) enums p [] hwf hno (by omega)
          (by simp) hadm (by simp [loopMeasure, stale]; omega)
        cases hs : (evictLoop est key cost (est key) enums p []).status with
        | ok => rfl
        | stuck => exact absurd hs h2
        | panic => exact absurd hs h1

/-! ### non-vacuity: a concrete `Add` with four rounds, a duplicate in the sample and a phantom victim

MaxCost 10, resident `{1:3, 2:3, 3:3}`, estimates `1↦1, 2↦2, 3↦3`, newcomer `9` with cost 9 and
estimate 5.  Round 1 evicts key 1; round 2 refills `[3,2]` with `[2,3]` (key 2 and 3 now twice)
and evicts key 2; round 3 picks the stale copy of key 2 (phantom: nothing is deleted);
round 4 evicts key 3; then the newcomer fits. -/

def exPol : Pol := { keyCosts := [(1#64, 3), (2#64, 3), (3#64, 3)], used := 9, maxCost := 10 }
def exEst : Hash → Int := fun k => if k = 9#64 then 5 else if k = 1#64 then 1 else if k = 2#64 then 2 else 3
def exEnums : List (List KC) :=
  [[(1#64, 3), (2#64, 3), (3#64, 3)], [(2#64, 3), (3#64, 3)], [(3#64, 3)], [(3#64, 3)]]

theorem exEst_ok : EstOK exEst := by
  intro k; unfold exEst
  split
  · omega
  · split
    · omega
    · split <;> omega

/-- all hypotheses of the theorems above hold here, and the run is non-trivial -/
example : exPol.wf ∧ exPol.NoOvf 9 ∧ lookup exPol.keyCosts 9#64 = none ∧
    (exPol.addFull exEst exEnums 9#64 9).Admissible ∧
    (exPol.addFull exEst exEnums 9#64 9).status = .ok ∧
    (exPol.addFull exEst exEnums 9#64 9).admitted = true ∧
    (exPol.addFull exEst exEnums 9#64 9).victims = [(1#64, 3), (2#64, 3), (2#64, 3), (3#64, 3)] ∧
    (exPol.addFull exEst exEnums 9#64 9).rounds.map Round.real = [true, true, false, true] ∧
    (exPol.addFull exEst exEnums 9#64 9).pol = { keyCosts := [(9#64, 9)], used := 9, maxCost := 10 } := by
  decide

/-- a rejection by estimate (newcomer's estimate 0 is below every candidate's) after one eviction round
is impossible here, but a direct one is: -/
example : (exPol.addFull (fun k => if k = 9#64 then 0 else 1) [[(1#64, 3), (2#64, 3), (3#64, 3)]] 9#64 9).admitted = false ∧
    (exPol.addFull (fun k => if k = 9#64 then 0 else 1) [[(1#64, 3), (2#64, 3), (3#64, 3)]] 9#64 9).victims = [] ∧
    (exPol.addFull (fun k => if k = 9#64 then 0 else 1) [[(1#64, 3), (2#64, 3), (3#64, 3)]] 9#64 9).rounds.map (·.rejected) = [true] := by
  decide

/-- `c09_add_terminates`: the hypotheses are satisfiable (6 enumerations for 1 resident key) and
the loop really runs -/
example :
    let p : Pol := { keyCosts := [(1#64, 4)], used := 4, maxCost := 5 }
    let enums : List (List KC) := List.replicate 6 [(1#64, 4)]
    p.wf ∧ p.NoOvf 3 ∧ (p.addFull exEst enums 2#64 3).Admissible ∧ 6 * p.keyCosts.length ≤ enums.length ∧
      (p.addFull exEst enums 2#64 3).victims = [(1#64, 4)] ∧ (p.addFull exEst enums 2#64 3).admitted = true := by
  decide

/-- fits: admitted with no victims -/
example : ({ keyCosts := [(1#64, 4)], used := 4, maxCost := 10 } : Pol).add exEst [] 2#64 6 =
    ({ keyCosts := [(2#64, 6), (1#64, 4)], used := 10, maxCost := 10 }, [], true) := by decide

end RV.C09
